//! vh_vmmeta — recorder / replayer for in-VM transaction introspection (C05): the GTF and GM instructions.
//!   vh_vmmeta record vmmeta [--part pred,script,call] [--tier T] -o trace.ndjson
//!   vh_vmmeta replay vmmeta <cases.ndjson> -o <result.ndjson>
//!
//! record: builds transactions of every kind that executes or carries predicates (script / create / upgrade / upload /
//! blob) with mixed inputs (all seven variants, byte-vector lengths around the word boundary), outputs of all kinds,
//! witnesses, policies with sampled masks; initialises a REAL interpreter (init_predicate, init_script, or transact +
//! single-stepping into a called contract), logs the whole VM state (`Init`: registers, stack, vm.transaction()
//! projected to the abstract value, environment) and then executes `GTF $rA, $rB, sel` for every selector x index and
//! `GM $rA, sel` for every selector — through the real fetch (`execute`, the instruction lies in the script / predicate /
//! contract code) or `instruction` — logging one `Step` per instruction (register / memory differences, panic reason,
//! bytes at the returned address).  The harness chooses WHAT to run; it contains no expectations about results.
//! replay: cases printed by TLC (VmMeta_MC.tla: model transaction, selector, index, admissible outcomes) are performed on
//! the real interpreter in predicate context and compared with what TLC printed.
#![allow(dead_code)]
#[path = "../util.rs"]
mod util;
#[path = "../vmcore.rs"]
mod vmcore;
#[path = "../txfmt/proj.rs"]
mod proj;
#[path = "../txfmt/build.rs"]
mod build;

use fuel_asm::{op, GMArgs, GTFArgs, Instruction, RegId};
use fuel_tx::{
    policies::Policies, BlobBody, ConsensusParameters, GasCosts, Input, Output, Receipt, Script, StorageSlot, Transaction, TxParameters, TxPointer,
    UpgradePurpose, UploadBody, UtxoId, Witness,
};
use fuel_types::{canonical::Serialize as _, Address, AssetId, BlobId, Bytes32, ContractId, Nonce, Salt};
use fuel_vm::{
    backtrace::Backtrace,
    call::Call,
    checked_transaction::IntoChecked,
    context::Context,
    error::InterpreterError,
    interpreter::{ExecutableTransaction, Interpreter, InterpreterParams, MemoryInstance, NotSupportedEcal},
    predicate::RuntimePredicate,
    prelude::ScriptExecutionResult,
    state::{ExecuteState, ProgramState},
    storage::MemoryStorage,
    util::test_helpers::TestBuilder,
    verification::Normal,
};
use rand::{rngs::StdRng, seq::SliceRandom, Rng};
use serde_json::{json, Map, Value};
use std::process::exit;
use util::*;
use vmcore::{gas_json, mem_hp, out_of_execute, regs_json, step_event, Snap, MEM};

type VmT<Tx> = Interpreter<MemoryInstance, MemoryStorage, Tx, NotSupportedEcal, Normal>;

fn main() {
    if std::env::var("VH_PANIC_TRACE").is_err() { std::panic::set_hook(Box::new(|_| {})); }
    let args: Vec<String> = std::env::args().collect();
    if args.len() < 3 { eprintln!("usage: vh_vmmeta record|replay vmmeta ..."); exit(64); }
    let opts = Opts::parse(&args[3..]);
    let r = match (args[1].as_str(), args[2].as_str()) {
        ("record", "vmmeta") => record(&opts),
        ("replay", "vmmeta") => replay(&opts),
        _ => { eprintln!("unknown"); exit(64); }
    };
    if let Err(e) = r { eprintln!("vh_vmmeta error: {e}"); exit(3); }
}

const RPC: usize = 3;
const RSSP: usize = 4;
const RFP: usize = 6;
const RGGAS: usize = 9;
const RCGAS: usize = 10;
const RIS: usize = 12;
const RA_: u8 = 0x10;
const RB_: u8 = 0x11;

// ---------------------------------------------------------------------------------------------------------------
// generic plumbing around vmcore (vmcore's helpers are typed for Script transactions)
// ---------------------------------------------------------------------------------------------------------------
fn snap_g<Tx: ExecutableTransaction>(vm: &VmT<Tx>) -> Snap {
    let mut regs = [0u64; 64];
    regs.copy_from_slice(vm.registers());
    let m = vm.memory();
    let raw = m.heap_raw();
    let hp_mem = mem_hp(m);
    let live = (MEM - hp_mem) as usize;
    let heap = raw[raw.len() - live..].to_vec();
    Snap { regs, stack: m.stack_raw().to_vec(), hp: hp_mem, heap, nrc: vm.receipts().len() }
}

fn env_g<Tx: ExecutableTransaction>(vm: &VmT<Tx>) -> Value {
    json!({
        "gas": gas_json(vm.gas_costs()),
        "tx_offset": vm.tx_offset(),
        "max_inputs": vm.max_inputs(),
        "chain_id": u64::from(vm.chain_id()).to_string(),
        "gas_price": vm.gas_price().to_string(),
        "base_asset": hx(vm.base_asset_id()),
    })
}

fn emit_init<Tx>(out: &mut Out, run: u64, vm: &VmT<Tx>, ctx: Value, extra: Value)
where
    Tx: ExecutableTransaction + Clone,
    Transaction: From<Tx>,
{
    let s = snap_g(vm);
    let tx: Transaction = vm.transaction().clone().into();
    let mut ev = json!({
        "ev": "Init", "run": run, "env": env_g(vm), "regs": regs_json(&s.regs), "stack": hx(&s.stack), "hp": s.hp,
        "tx": proj::transaction(&tx), "ctx": ctx,
    });
    for (k, v) in extra.as_object().unwrap() { ev[k] = v.clone(); }
    out.ev(ev);
}

#[derive(Clone, Copy, PartialEq)]
enum How { Instr, Fetch }

/// preset registers (`poke`), execute ONE instruction on the real interpreter, log what happened
fn step<Tx: ExecutableTransaction>(out: &mut Out, run: u64, i: &mut u64, vm: &mut VmT<Tx>, sets: &[(usize, u64)], raw: u32, how: How, pred: bool) {
    let mut po = Map::new();
    for (r, v) in sets { vm.registers_mut()[*r] = *v; po.insert(r.to_string(), Value::String(v.to_string())); }
    let pre = snap_g(vm);
    let word = match how { How::Instr => Some(raw), How::Fetch => vmcore::read_word(&pre, pre.regs[RPC]) };
    let r = catch(std::panic::AssertUnwindSafe(|| match (how, pred) {
        (How::Instr, false) => vm.instruction::<u32, false>(raw),
        (How::Instr, true) => vm.instruction::<u32, true>(raw),
        (How::Fetch, false) => vm.execute::<false>(),
        (How::Fetch, true) => vm.execute::<true>(),
    }));
    match r {
        Ok(res) => {
            let post = snap_g(vm);
            let rc: Vec<Receipt> = vm.receipts().to_vec();
            let mut ev = step_event(run, *i, "exec", &pre, &post, word, &rc);
            for (k, v) in out_of_execute(&res).as_object().unwrap() { ev[k] = v.clone(); }
            ev["poke"] = Value::Object(po);
            if how == How::Fetch { ev["fetch"] = json!(true); }
            if matches!(res, Ok(ExecuteState::Proceed)) {
                // the bytes at the address left in $rA (if it is one), read from the VM's memory after the step
                if let Some(w) = word {
                    let ra = ((w >> 18) & 0x3f) as usize;
                    let p = post.regs[ra] as usize;
                    if p < post.stack.len() { ev["deref"] = json!(hx(&post.stack[p..(p + 32).min(post.stack.len())])); }
                }
            }
            out.ev(ev);
        }
        Err(m) => out.ev(json!({"ev": "HostPanic", "run": run, "where": "instruction", "i": *i, "msg": m, "word": format!("{:08x}", raw), "poke": Value::Object(po)})),
    }
    *i += 1;
}

fn raw_of(i: Instruction) -> u32 { u32::from_be_bytes(i.to_bytes()) }
fn gtf_raw(ra: u8, rb: u8, imm: u16) -> u32 { (0x61u32 << 24) | ((ra as u32 & 63) << 18) | ((rb as u32 & 63) << 12) | (imm as u32 & 0xfff) }
fn gm_raw(ra: u8, imm: u32) -> u32 { (0x71u32 << 24) | ((ra as u32 & 63) << 18) | (imm & 0x3ffff) }

fn gtf_selectors() -> Vec<u16> { (0u16..4096).filter(|i| GTFArgs::try_from(*i).is_ok()).collect() }
fn gm_selectors() -> Vec<u32> { (0u32..64).filter(|i| GMArgs::try_from(*i).is_ok()).collect() }

/// the code every session carries (script / predicate / contract): one canonical `GTF 0x10, 0x11, sel` per selector, one
/// `GM 0x10, sel` per selector, then RET — so that the instructions can be executed through the real fetch at $pc
fn program() -> (Vec<u8>, Vec<u32>) {
    let mut words: Vec<u32> = vec![];
    for s in gtf_selectors() { words.push(raw_of(op::gtf(RA_, RB_, s))); }
    for s in gm_selectors() { words.push(raw_of(op::gm(RA_, s))); }
    words.push(raw_of(op::ret(RegId::ONE)));
    let mut code = vec![];
    for w in &words { code.extend_from_slice(&w.to_be_bytes()); }
    (code, words)
}

/// selectors whose answer depends on $rB (driver choice of WHERE to spend index values; nothing is expected from it)
fn indexed(sel: u16) -> bool {
    matches!(sel, 0x00b..=0x00d | 0x107..=0x10a | 0x200..=0x4ff | 0x605 | 0x903..=0x905)
}

struct Counts { n: Vec<u64> }

fn index_values(c: &Counts, thorough: bool, rng: &mut StdRng) -> Vec<u64> {
    let maxn = c.n.iter().copied().max().unwrap_or(0);
    let mut v: Vec<u64> = (0..=maxn + 1).collect();
    for n in &c.n { v.push(n.saturating_sub(1)); v.push(*n); v.push(n + 1); }
    v.extend_from_slice(&[65535, 65536, u64::MAX]);
    if thorough { v.extend_from_slice(&[1 << 32, (1 << 32) - 1, 1 << 63, u64::MAX - 1, 255, 256]); v.push(rng.gen()); }
    v.sort_unstable();
    v.dedup();
    v
}

/// GTF x every selector x index values, GM x every selector, plus: undefined selectors, reserved / aliasing destination
/// registers, other index registers ($zero, $one, $cgas, $ggas, $pc, the destination itself), gas that does not suffice
fn battery<Tx: ExecutableTransaction>(o: &Opts, out: &mut Out, run: u64, vm: &mut VmT<Tx>, rng: &mut StdRng, pred: bool, code_base: Option<u64>, counts: &Counts) {
    let thorough = o.thorough();
    let (_, words) = program();
    let mut i = 0u64;
    let sels = gtf_selectors();
    let gms = gm_selectors();
    let idx = index_values(counts, thorough, rng);
    let pc0 = vm.registers()[RPC];
    let gtf_cost = vm.gas_costs().gtf();
    let gm_cost = vm.gas_costs().gm();
    let full_gas = 1_000_000u64;
    let base_sets = |rng: &mut StdRng, b: u64, pc: u64, gas: u64| -> Vec<(usize, u64)> {
        vec![(RA_ as usize, rng.gen::<u64>() | 1 << 40), (RB_ as usize, b), (RPC, pc), (RCGAS, gas), (RGGAS, gas + rng.gen_range(0..3))]
    };
    // 1. canonical instructions, through the real fetch where the code is in memory
    for (k, s) in sels.iter().enumerate() {
        let vals: Vec<u64> = if indexed(*s) || thorough { idx.clone() } else { vec![0, idx[rng.gen_range(0..idx.len())], u64::MAX] };
        for b in vals {
            match code_base {
                Some(base) => step(out, run, &mut i, vm, &base_sets(rng, b, base + 4 * k as u64, full_gas), words[k], How::Fetch, pred),
                None => step(out, run, &mut i, vm, &base_sets(rng, b, pc0, full_gas), gtf_raw(RA_, RB_, *s), How::Instr, pred),
            }
        }
    }
    for (k, s) in gms.iter().enumerate() {
        let k = sels.len() + k;
        match code_base {
            Some(base) => step(out, run, &mut i, vm, &base_sets(rng, 0, base + 4 * k as u64, full_gas), words[k], How::Fetch, pred),
            None => step(out, run, &mut i, vm, &base_sets(rng, 0, pc0, full_gas), gm_raw(RA_, *s), How::Instr, pred),
        }
    }
    // 2. undefined selectors: the neighbours of every defined one, the extremes, a few random ones
    let mut undef: Vec<u16> = vec![0, 0xfff, 0x7ff, 0x800 + 1, 0xa00];
    for s in &sels { for d in [s.wrapping_sub(1), s + 1] { if d < 4096 && !sels.contains(&d) { undef.push(d); } } }
    for _ in 0..6 { let d = rng.gen_range(0..4096u16); if !sels.contains(&d) { undef.push(d); } }
    undef.sort_unstable();
    undef.dedup();
    for s in undef {
        let b = [0u64, 1, u64::MAX][rng.gen_range(0..3)];
        step(out, run, &mut i, vm, &base_sets(rng, b, pc0, full_gas), gtf_raw(RA_, RB_, s), How::Instr, pred);
    }
    for s in [0u32, 9, 10, 11, 63, 64, 0x100, 0x1000, 0x20000, 0x3ffff, rng.gen_range(9..0x40000)] {
        step(out, run, &mut i, vm, &base_sets(rng, 0, pc0, full_gas), gm_raw(RA_, s), How::Instr, pred);
    }
    // 3. destination registers: every reserved register once, aliasing with the index register, the last register
    let some_sel = |rng: &mut StdRng| sels[rng.gen_range(0..sels.len())];
    for ra in (0u8..16).chain([RB_, 0x3f]) {
        let n = if thorough { 6 } else { 2 };
        for _ in 0..n {
            let s = some_sel(rng);
            let b = idx[rng.gen_range(0..idx.len().min(6))];
            step(out, run, &mut i, vm, &base_sets(rng, b, pc0, full_gas), gtf_raw(ra, RB_, s), How::Instr, pred);
        }
        let g = gms[rng.gen_range(0..gms.len())];
        step(out, run, &mut i, vm, &base_sets(rng, 0, pc0, full_gas), gm_raw(ra, g), How::Instr, pred);
    }
    // 4. index registers other than 0x11
    for rb in [0u8, 1, RCGAS as u8, RGGAS as u8, RPC as u8, RA_, RIS as u8, 0x3f] {
        let n = if thorough { 8 } else { 3 };
        for _ in 0..n {
            let s = loop { let s = some_sel(rng); if indexed(s) { break s; } };
            // $cgas / $ggas as index: whether the register is read before or after the charge is not specified; the value is
            // chosen so that both readings address the same kind of thing (an index far beyond every list)
            let gas = if rb as usize == RCGAS || rb as usize == RGGAS { gtf_cost + (1 << 20) + rng.gen_range(0..4) } else { full_gas };
            let mut sets = base_sets(rng, 0, pc0, gas);
            sets[0] = (RA_ as usize, rng.gen_range(0..4));
            sets.push((0x3f, rng.gen_range(0..5)));
            step(out, run, &mut i, vm, &sets, gtf_raw(if rb == RA_ { RA_ } else { 0x12 }, rb, s), How::Instr, pred);
        }
    }
    // 5. gas that does not suffice / suffices exactly
    for _ in 0..(if thorough { 24 } else { 8 }) {
        let s = some_sel(rng);
        let gas = match rng.gen_range(0..4) { 0 => 0, 1 => gtf_cost.saturating_sub(1), 2 => gtf_cost, _ => rng.gen_range(0..=gtf_cost) };
        let ra = if rng.gen_bool(0.2) { rng.gen_range(0..16) } else { RA_ };
        let b = rng.gen_range(0..3);
        step(out, run, &mut i, vm, &base_sets(rng, b, pc0, gas), gtf_raw(ra, RB_, s), How::Instr, pred);
        let g = gms[rng.gen_range(0..gms.len())];
        let gas = match rng.gen_range(0..3) { 0 => 0, 1 => gm_cost.saturating_sub(1), _ => gm_cost };
        step(out, run, &mut i, vm, &base_sets(rng, 0, pc0, gas), gm_raw(ra, g), How::Instr, pred);
    }
}

// ---------------------------------------------------------------------------------------------------------------
// building transactions
// ---------------------------------------------------------------------------------------------------------------
fn r32(rng: &mut StdRng) -> [u8; 32] { rng.gen() }
fn blen(rng: &mut StdRng, nonempty: bool) -> usize {
    let l = *[0usize, 1, 7, 8, 9, 15, 16, 17, 24, 31, 32, 33, 40, 63, 64, 65, 100].choose(rng).unwrap();
    if nonempty && l == 0 { 1 + rng.gen_range(0..9) } else { l }
}
fn rbs(rng: &mut StdRng, nonempty: bool) -> Vec<u8> { let n = blen(rng, nonempty); (0..n).map(|_| rng.gen::<u8>()).collect::<Vec<u8>>() }
fn utxo(rng: &mut StdRng) -> UtxoId { UtxoId::new(Bytes32::from(r32(rng)), rng.gen()) }
fn txp(rng: &mut StdRng) -> TxPointer { TxPointer::new(rng.gen::<u32>().into(), rng.gen()) }
fn amount(rng: &mut StdRng) -> u64 { match rng.gen_range(0..5) { 0 => 0, 1 => 1, 2 => u64::MAX, 3 => rng.gen::<u32>() as u64, _ => rng.gen() } }

/// input of variant v (0..7); `strict`: satisfy the stateless validity rules (non-empty predicate / data, witness index in range)
fn mk_input(rng: &mut StdRng, v: u8, owner: Option<Address>, asset: AssetId, nwit: u16, strict: bool, code: Option<&Vec<u8>>) -> Input {
    let own = owner.unwrap_or_else(|| Address::from(r32(rng)));
    let wi = if strict || rng.gen_bool(0.7) { if nwit == 0 { 0 } else { rng.gen_range(0..nwit) } } else { rng.gen() };
    let pcode = |rng: &mut StdRng| code.cloned().unwrap_or_else(|| rbs(rng, strict));
    let amount = |rng: &mut StdRng| if strict { 1000 + rng.gen::<u32>() as u64 } else { amount(rng) };
    let pgu = |rng: &mut StdRng| if strict { rng.gen_range(0..1000u64) } else { rng.gen::<u64>() };
    match v % 7 {
        0 => Input::coin_signed(utxo(rng), own, amount(rng), asset, txp(rng), wi),
        1 => { let p = pcode(rng); Input::coin_predicate(utxo(rng), own, amount(rng), asset, txp(rng), pgu(rng), p, rbs(rng, false)) }
        2 => Input::contract(utxo(rng), Bytes32::from(r32(rng)), Bytes32::from(r32(rng)), txp(rng), ContractId::from(r32(rng))),
        3 => Input::message_coin_signed(Address::from(r32(rng)), own, amount(rng), Nonce::from(r32(rng)), wi),
        4 => { let p = pcode(rng); Input::message_coin_predicate(Address::from(r32(rng)), own, amount(rng), Nonce::from(r32(rng)), pgu(rng), p, rbs(rng, false)) }
        5 => Input::message_data_signed(Address::from(r32(rng)), own, amount(rng), Nonce::from(r32(rng)), wi, rbs(rng, strict)),
        _ => { let p = pcode(rng); Input::message_data_predicate(Address::from(r32(rng)), own, amount(rng), Nonce::from(r32(rng)), pgu(rng), rbs(rng, strict), p, rbs(rng, false)) }
    }
}

fn mk_output(rng: &mut StdRng, v: u8, asset: AssetId, n_in: u16) -> Output {
    match v % 5 {
        0 => Output::coin(Address::from(r32(rng)), amount(rng), asset),
        1 => Output::contract(if n_in == 0 { 0 } else { rng.gen_range(0..n_in) }, Bytes32::from(r32(rng)), Bytes32::from(r32(rng))),
        2 => Output::change(Address::from(r32(rng)), amount(rng), asset),
        3 => Output::variable(Address::from(r32(rng)), amount(rng), AssetId::from(r32(rng))),
        _ => Output::contract_created(ContractId::from(r32(rng)), Bytes32::from(r32(rng))),
    }
}

fn has_owner(i: &Input) -> bool { i.input_owner().is_some() }

/// policies with the given mask; `owner_idx`: a valid owner index if the owner bit is to be set
fn mk_policies(rng: &mut StdRng, mask: u8, owner_idx: Option<u64>, strict_height: Option<u32>, max_fee: u64) -> Policies {
    let mut p = Policies::new();
    if mask & 1 != 0 { p = p.with_tip(if strict_height.is_some() { rng.gen_range(0..1000) } else { amount(rng) }); }
    if mask & 2 != 0 { p = p.with_witness_limit(if strict_height.is_some() { [10_000u64, 100_000, 20_000][rng.gen_range(0..3)] } else { amount(rng) }); }
    if mask & 4 != 0 { p = p.with_maturity(match strict_height { Some(h) => rng.gen_range(0..=h), None => rng.gen() }.into()); }
    if mask & 8 != 0 { p = p.with_max_fee(if strict_height.is_some() { max_fee } else { amount(rng) }); }
    if mask & 16 != 0 { p = p.with_expiration(match strict_height { Some(h) => rng.gen_range(h..=u32::MAX), None => rng.gen() }.into()); }
    if mask & 32 != 0 { if let Some(i) = owner_idx { p = p.with_owner(i); } }
    p
}

fn pick_mask(rng: &mut StdRng, k: u64) -> u8 {
    // the run counter walks through all 64 masks (a permutation, so that a handful of runs already mixes the bits); later runs are random
    if k < 128 { ((k * 37 + 5) % 64) as u8 } else { rng.gen_range(0..64) }
}

struct Parts { inputs: Vec<Input>, outputs: Vec<Output>, witnesses: Vec<Witness>, policies: Policies, pidx: usize }

/// unconstrained transaction parts (predicate context does not need a valid transaction): at least one predicate input
/// carrying the program, the other inputs of random variants (empty predicates / data included)
fn free_parts(rng: &mut StdRng, k: u64, code: &Vec<u8>) -> Parts {
    let n_in = rng.gen_range(1..=7usize);
    let nwit = rng.gen_range(0..=4u16);
    let pidx = rng.gen_range(0..n_in);
    let same_owner: Option<Address> = if rng.gen_bool(0.35) { Some(Address::from(r32(rng))) } else { None };
    let mut inputs = vec![];
    for j in 0..n_in {
        let asset = AssetId::from(r32(rng));
        if j == pidx { let v = [1u8, 4, 6][rng.gen_range(0..3)]; inputs.push(mk_input(rng, v, same_owner, asset, nwit, false, Some(code))); }
        else {
            let v = if rng.gen_bool(0.5) { (k as usize + j) as u8 } else { rng.gen_range(0..7) };
            inputs.push(mk_input(rng, v, same_owner, asset, nwit, false, None));
        }
    }
    let n_out = rng.gen_range(0..=6usize);
    let outputs: Vec<Output> = (0..n_out).map(|j| { let v = if rng.gen_bool(0.5) { (k as usize + j) as u8 } else { rng.gen_range(0..5) }; let a = AssetId::from(r32(rng)); mk_output(rng, v, a, n_in as u16) }).collect();
    let witnesses: Vec<Witness> = (0..nwit).map(|_| Witness::from(rbs(rng, false))).collect();
    let owned: Vec<u64> = inputs.iter().enumerate().filter(|(_, i)| has_owner(i)).map(|(j, _)| j as u64).collect();
    let (mask, oi) = (pick_mask(rng, k), owned.choose(rng).copied());
    let policies = mk_policies(rng, mask, oi, None, 0);
    Parts { inputs, outputs, witnesses, policies, pidx }
}

fn small_params(rng: &mut StdRng, k: u64) -> ConsensusParameters {
    let mut p = ConsensusParameters::standard();
    p.set_tx_params(TxParameters::DEFAULT.with_max_inputs([8u16, 16, 255, 9][(k % 4) as usize]).with_max_gas_per_tx(1 << 50));
    p.set_chain_id(match k % 3 { 0 => 0u64, 1 => rng.gen::<u64>(), _ => rng.gen_range(1..1000) }.into());
    p.set_base_asset_id(if k % 2 == 0 { AssetId::from(r32(rng)) } else { AssetId::zeroed() });
    match k % 4 { 0 => {} 1 => p.set_gas_costs(GasCosts::unit()), _ => p.set_gas_costs(random_gas(rng, if k % 4 == 2 { 9 } else { 400 })) }
    p
}

/// a gas schedule whose every number is drawn from 1..=hi (same shape/version as the default one)
fn random_gas(rng: &mut StdRng, hi: u64) -> GasCosts {
    fn walk(v: &mut Value, rng: &mut StdRng, hi: u64) {
        match v {
            Value::Number(_) => { *v = json!(rng.gen_range(1..=hi)); }
            Value::Array(a) => a.iter_mut().for_each(|x| walk(x, rng, hi)),
            Value::Object(o) => o.values_mut().for_each(|x| walk(x, rng, hi)),
            _ => {}
        }
    }
    let mut v = serde_json::to_value(GasCosts::default()).expect("ser");
    walk(&mut v, rng, hi);
    serde_json::from_value(v).expect("de")
}

fn counts_of(tx: &Transaction) -> Counts {
    use fuel_tx::field::*;
    let mut n = vec![];
    macro_rules! common { ($t:expr) => {{ n.push($t.inputs().len() as u64); n.push($t.outputs().len() as u64); n.push($t.witnesses().len() as u64); }}; }
    match tx {
        Transaction::Script(t) => common!(t),
        Transaction::Create(t) => { common!(t); n.push(t.storage_slots().len() as u64); }
        Transaction::Upgrade(t) => common!(t),
        Transaction::Upload(t) => { common!(t); n.push(t.proof_set().len() as u64); }
        Transaction::Blob(t) => common!(t),
        Transaction::Mint(_) => {}
    }
    Counts { n }
}

// ---------------------------------------------------------------------------------------------------------------
// sessions
// ---------------------------------------------------------------------------------------------------------------
/// predicate context: init_predicate on an arbitrary transaction of the given type; every instruction executed with PREDICATE = true
fn pred_session<Tx>(o: &Opts, out: &mut Out, run: u64, rng: &mut StdRng, params: &ConsensusParameters, tx: Tx, pidx: usize, estimation: bool)
where
    Tx: ExecutableTransaction + Clone + fuel_tx::field::Inputs,
    Transaction: From<Tx>,
{
    let ip = InterpreterParams::new(rng.gen_range(0..5), params);
    let mut vm = VmT::<Tx>::with_storage(MemoryInstance::new(), MemoryStorage::default(), ip);
    let program = match RuntimePredicate::from_tx(&tx, vm.tx_offset(), pidx) { Some(p) => p, None => { eprintln!("vmmeta: run {} skipped: {}", run, "no predicate at index"); return; } };
    let context = if estimation { Context::PredicateEstimation { program } } else { Context::PredicateVerification { program } };
    let r = catch(std::panic::AssertUnwindSafe(|| vm.init_predicate(context, tx, 1_000_000).map_err(|e| format!("{e:?}"))));
    match r {
        Ok(Ok(())) => {}
        Ok(Err(e)) => { eprintln!("vmmeta: run {} skipped: {}", run, e); return; }
        Err(m) => { out.ev(json!({"ev": "Seg"})); out.ev(json!({"ev": "HostPanic", "run": run, "where": "init_predicate", "msg": m})); return; }
    }
    out.ev(json!({"ev": "Seg"}));
    emit_init(out, run, &vm, json!({"kind": "predicate", "pidx": pidx, "frames": [], "estimation": estimation}), json!({"driver": "pred"}));
    let txe: Transaction = vm.transaction().clone().into();
    let base = vm.registers()[RIS];
    battery(o, out, run, &mut vm, rng, true, Some(base), &counts_of(&txe));
}

fn pred(o: &Opts, out: &mut Out, run: &mut u64) {
    let mut rng = o.rng(501);
    let n = if o.thorough() { 150 } else { 8 };
    let (code, _) = program();
    for k in 0..n as u64 {
        let params = small_params(&mut rng, k);
        let Parts { inputs, outputs, witnesses, policies, pidx } = free_parts(&mut rng, k, &code);
        *run += 1;
        let est = k % 5 == 4;
        match k % 5 {
            0 => {
                let mut tx = Transaction::script(amount(&mut rng), rbs(&mut rng, false), rbs(&mut rng, false), policies, inputs, outputs, witnesses);
                { use fuel_tx::field::ReceiptsRoot; *tx.receipts_root_mut() = Bytes32::from(r32(&mut rng)); }
                pred_session(o, out, *run, &mut rng, &params, tx, pidx, est);
            }
            1 => {
                let ns = rng.gen_range(0..4);
                let slots: Vec<StorageSlot> = (0..ns).map(|_| StorageSlot::new(Bytes32::from(r32(&mut rng)), Bytes32::from(r32(&mut rng)))).collect();
                let tx = Transaction::create(rng.gen(), policies, Salt::from(r32(&mut rng)), slots, inputs, outputs, witnesses);
                pred_session(o, out, *run, &mut rng, &params, tx, pidx, est);
            }
            2 => {
                let purpose = if rng.gen_bool(0.5) { UpgradePurpose::ConsensusParameters { witness_index: rng.gen(), checksum: Bytes32::from(r32(&mut rng)) } }
                              else { UpgradePurpose::StateTransition { root: Bytes32::from(r32(&mut rng)) } };
                let tx = Transaction::upgrade(purpose, policies, inputs, outputs, witnesses);
                pred_session(o, out, *run, &mut rng, &params, tx, pidx, est);
            }
            3 => {
                let np = rng.gen_range(0..4);
                let body = UploadBody { root: Bytes32::from(r32(&mut rng)), witness_index: rng.gen(), subsection_index: rng.gen(), subsections_number: rng.gen(),
                                        proof_set: (0..np).map(|_| Bytes32::from(r32(&mut rng))).collect() };
                let tx = Transaction::upload(body, policies, inputs, outputs, witnesses);
                pred_session(o, out, *run, &mut rng, &params, tx, pidx, est);
            }
            _ => {
                let tx = Transaction::blob(BlobBody { id: BlobId::from(r32(&mut rng)), witness_index: rng.gen() }, policies, inputs, outputs, witnesses);
                pred_session(o, out, *run, &mut rng, &params, tx, pidx, est);
            }
        }
    }
}

/// a VALID script transaction with mixed inputs (validity is needed to obtain a Checked transaction for init_script / transact)
fn valid_script(rng: &mut StdRng, k: u64, params: &ConsensusParameters, code: Vec<u8>, data: Vec<u8>, contracts: &[ContractId], height: u32, gas_limit: u64) -> Script {
    let base = *params.base_asset_id();
    let nwit = rng.gen_range(1..=4u16);
    let witnesses: Vec<Witness> = (0..nwit).map(|_| Witness::from(rbs(rng, false))).collect();
    let max_fee = 1_000_000_000u64;
    let same_owner: Option<Address> = if rng.gen_bool(0.4) { Some(Address::from(r32(rng))) } else { None };
    let asset_a = AssetId::from(r32(rng));
    let mut inputs: Vec<Input> = vec![Input::coin_signed(utxo(rng), same_owner.unwrap_or_else(|| Address::from(r32(rng))), u64::MAX / 4, base, txp(rng), rng.gen_range(0..nwit))];
    for v in 0..7u8 {
        if v == 2 { continue; }
        if rng.gen_bool(0.6) || (k % 7) as u8 == v { let a = if rng.gen_bool(0.5) { asset_a } else { AssetId::from(r32(rng)) }; inputs.push(mk_input(rng, v, same_owner, a, nwit, true, None)); }
    }
    for c in contracts { inputs.push(Input::contract(utxo(rng), Bytes32::from(r32(rng)), Bytes32::from(r32(rng)), txp(rng), *c)); }
    if contracts.is_empty() { for _ in 0..rng.gen_range(0..3) { inputs.push(mk_input(rng, 2, None, base, nwit, true, None)); } }
    inputs.shuffle(rng);
    let mut assets: Vec<AssetId> = inputs.iter().filter_map(|i| i.asset_id(&base).copied()).collect();
    assets.sort();
    assets.dedup();
    let mut outputs: Vec<Output> = vec![];
    for (j, i) in inputs.iter().enumerate() { if i.is_contract() { outputs.push(Output::contract(j as u16, Bytes32::from(r32(rng)), Bytes32::from(r32(rng)))); } }
    for a in &assets { if rng.gen_bool(0.5) { outputs.push(Output::change(Address::from(r32(rng)), amount(rng), *a)); } }
    for _ in 0..rng.gen_range(0..3) { let a = *assets.choose(rng).unwrap(); outputs.push(Output::coin(Address::from(r32(rng)), rng.gen_range(0..1000), a)); }
    for _ in 0..rng.gen_range(0..3) { outputs.push(Output::variable(Address::from(r32(rng)), amount(rng), AssetId::from(r32(rng)))); }
    outputs.shuffle(rng);
    // contract outputs refer to input positions, which the shuffle of the outputs does not change
    let owned: Vec<u64> = inputs.iter().enumerate().filter(|(_, i)| has_owner(i)).map(|(j, _)| j as u64).collect();
    let (mask, oi) = (pick_mask(rng, k) | 8, owned.choose(rng).copied());
    let policies = mk_policies(rng, mask, oi, Some(height), max_fee);
    Transaction::script(gas_limit, code, data, policies, inputs, outputs, witnesses)
}

fn script_sessions(o: &Opts, out: &mut Out, run: &mut u64) {
    let mut rng = o.rng(502);
    let n = if o.thorough() { 60 } else { 3 };
    let (code, _) = program();
    for k in 0..n as u64 {
        let params = small_params(&mut rng, k);
        let height = rng.gen_range(0..100u32);
        let sdata = rbs(&mut rng, false);
        let tx = valid_script(&mut rng, k, &params, code.clone(), sdata, &[], height, 1_000_000);
        *run += 1;
        let checked = match tx.into_checked_basic(height.into(), &params) { Ok(c) => c, Err(e) => { eprintln!("vmmeta: run {} skipped: {e:?}", *run); continue; } };
        let gas_price = rng.gen_range(0..3u64);
        let ready = match checked.clone().into_ready(gas_price, params.gas_costs(), params.fee_params(), Some(height.into())) {
            Ok(r) => r, Err(_) => checked.test_into_ready(),
        };
        let mut st = MemoryStorage::default();
        st.set_block_height(height.into());
        let mut vm = VmT::<Script>::with_storage(MemoryInstance::new(), st, InterpreterParams::new(gas_price, &params));
        if let Err(e) = vm.init_script(ready) { eprintln!("vmmeta: run {} skipped: {e:?}", *run); continue; }
        out.ev(json!({"ev": "Seg"}));
        emit_init(out, *run, &vm, json!({"kind": "script", "pidx": 0, "frames": []}), json!({"driver": "script"}));
        let txe: Transaction = vm.transaction().clone().into();
        let base = vm.registers()[RIS];
        battery(o, out, *run, &mut vm, &mut rng, false, Some(base), &counts_of(&txe));
    }
}

/// call context: a script calls contract A, which calls contract B (whose code is the program); the VM is single-stepped
/// until the wanted depth is reached, then the instructions are executed there
fn call_sessions(o: &Opts, out: &mut Out, run: &mut u64) {
    let mut rng = o.rng(503);
    let n = if o.thorough() { 24 } else { 2 };
    let (code, _) = program();
    for k in 0..n as u64 {
        let want_depth = 1 + (k % 2) as usize;
        let mut tb = TestBuilder::new(o.seed.wrapping_add(7000 + k));
        let prog_instrs: Vec<Instruction> = code.chunks(4).map(|c| Instruction::try_from([c[0], c[1], c[2], c[3]]).expect("instr")).collect();
        let cb = tb.setup_contract(prog_instrs.clone(), None, None).contract_id;
        // contract A: at depth 1 it IS the program (the battery runs there); otherwise it calls B with the call data found in the script data
        let a_code: Vec<Instruction> = if want_depth == 1 { prog_instrs.clone() } else {
            vec![op::gtf_args(0x10, RegId::ZERO, GTFArgs::ScriptData), op::addi(0x11, 0x10, 80), op::addi(0x12, 0x10, 48),
                 op::call(0x11, RegId::ZERO, 0x12, RegId::CGAS), op::ret(RegId::ONE)]
        };
        let ca = tb.setup_contract(a_code, None, None).contract_id;
        let mut data = Call::new(ca, rng.gen(), rng.gen()).to_bytes();
        data.extend_from_slice(&[0u8; 32]);
        data.extend_from_slice(&Call::new(cb, rng.gen(), rng.gen()).to_bytes());
        let script: Vec<u8> = vec![op::gtf_args(0x10, RegId::ZERO, GTFArgs::ScriptData), op::addi(0x12, 0x10, 48), op::call(0x10, RegId::ZERO, 0x12, RegId::CGAS), op::ret(RegId::ONE)]
            .into_iter().collect();
        let params = ConsensusParameters::standard();
        let height = u32::from(tb.get_block_height());
        let tx = valid_script(&mut rng, k, &params, script, data, &[ca, cb], height, 1_000_000);
        *run += 1;
        let checked = match tx.into_checked_basic(height.into(), &params) { Ok(c) => c, Err(e) => { eprintln!("vmmeta: run {} skipped: {e:?}", *run); continue; } };
        let gas_price = (k % 3) as u64;
        let ready = match checked.into_ready(gas_price, params.gas_costs(), params.fee_params(), Some(height.into())) { Ok(r) => r, Err(e) => { eprintln!("vmmeta: run {} skipped: {e:?}", *run); continue; } };
        let mut vm = VmT::<Script>::with_storage(MemoryInstance::new(), tb.get_storage().clone(), InterpreterParams::new(gas_price, &params));
        vm.set_single_stepping(true);
        let mut state = match catch(std::panic::AssertUnwindSafe(|| vm.transact(ready).map(|s| *s.state()))) {
            Ok(s) => s, Err(m) => { out.ev(json!({"ev": "Seg"})); out.ev(json!({"ev": "HostPanic", "run": *run, "where": "transact", "msg": m})); continue; }
        };
        // resume until the frame pointer has changed `want_depth` times away from the previous value
        let mut depth = 0usize;
        let mut last_fp = 0u64;
        let mut steps = 0;
        while matches!(state, Ok(ProgramState::RunProgram(_))) && depth < want_depth && steps < 200 {
            state = match catch(std::panic::AssertUnwindSafe(|| vm.resume())) { Ok(s) => s, Err(m) => { out.ev(json!({"ev": "Seg"})); out.ev(json!({"ev": "HostPanic", "run": *run, "where": "resume", "msg": m})); break; } };
            let fp = vm.registers()[RFP];
            if fp != last_fp { if fp > last_fp { depth += 1; } else { depth = depth.saturating_sub(1); } last_fp = fp; }
            steps += 1;
        }
        if depth != want_depth { eprintln!("vmmeta: run {} skipped: depth {depth} state {:?}", *run, state.as_ref().map(|_| ()).map_err(|e| format!("{e:?}"))); continue; }
        vm.set_single_stepping(false);
        let frames: Vec<String> = Backtrace::from_vm_error(&vm, ScriptExecutionResult::Success).call_stack().iter().map(|f| hx(f.to())).collect();
        out.ev(json!({"ev": "Seg"}));
        emit_init(out, *run, &vm, json!({"kind": "call", "pidx": 0, "frames": frames}), json!({"driver": "call", "depth": depth}));
        let txe: Transaction = vm.transaction().clone().into();
        let base = vm.registers()[RIS];
        battery(o, out, *run, &mut vm, &mut rng, false, Some(base), &counts_of(&txe));
    }
}

fn record(o: &Opts) -> Res<()> {
    let mut out = Out::open(&o.out)?;
    let part = o.opt("--part").unwrap_or_else(|| "all".into());
    let want = |p: &str| part == "all" || part.split(',').any(|x| x == p);
    let mut run = 0u64;
    if want("pred") { pred(o, &mut out, &mut run); }
    if want("script") { script_sessions(o, &mut out, &mut run); }
    if want("call") { call_sessions(o, &mut out, &mut run); }
    let n = out.finish();
    eprintln!("vmmeta: {n} events");
    Ok(())
}

// ---------------------------------------------------------------------------------------------------------------
// Leg R: cases generated by TLC, performed on the real interpreter (predicate context) and compared
// ---------------------------------------------------------------------------------------------------------------
fn replay_on<Tx>(tx: Tx, pidx: usize, params: &ConsensusParameters, cases: &[Value], out: &mut Out, stats: &mut (u64, u64), line: usize)
where
    Tx: ExecutableTransaction + Clone + fuel_tx::field::Inputs,
    Transaction: From<Tx>,
{
    let mut vm = VmT::<Tx>::with_storage(MemoryInstance::new(), MemoryStorage::default(), InterpreterParams::new(0, params));
    let program = RuntimePredicate::from_tx(&tx, vm.tx_offset(), pidx).expect("model transaction has a predicate at pidx");
    vm.init_predicate(Context::PredicateVerification { program }, tx, 1_000_000).expect("init_predicate");
    let txoff = vm.tx_offset() as u64;
    for c in cases {
        let sel = ju64(c, "sel") as u16;
        let b = ju64(c, "b");
        let pc0 = vm.registers()[RPC];
        for (r, v) in [(RA_ as usize, 0xdead_beef_0000u64), (RB_ as usize, b), (RPC, pc0), (RCGAS, 1_000_000), (RGGAS, 1_000_000)] { vm.registers_mut()[r] = v; }
        let res = catch(std::panic::AssertUnwindSafe(|| vm.instruction::<u32, true>(gtf_raw(RA_, RB_, sel))));
        // observed outcome in the vocabulary of the specification's outcomes (addresses relative to the transaction start)
        let obs = match &res {
            Ok(Ok(ExecuteState::Proceed)) => {
                let v = vm.registers()[RA_ as usize];
                json!({"ok": true, "val": v.to_string()})
            }
            Ok(Err(InterpreterError::PanicInstruction(p))) => json!({"ok": false, "why": format!("{:?}", p.reason())}),
            Ok(other) => json!({"ok": false, "why": format!("unexpected {other:?}")}),
            Err(m) => json!({"ok": false, "why": format!("host panic {m}")}),
        };
        stats.0 += 1;
        let exp = c["outs"].as_array().expect("outs");
        let stack = vm.memory().stack_raw();
        let matches = exp.iter().any(|e| {
            if e["ok"].as_bool() != obs["ok"].as_bool() { return false; }
            if obs["ok"] == json!(false) { return e["why"] == obs["why"]; }
            if e["ptr"].as_bool() == Some(true) {
                // expected: address relative to tx start + the bytes memory must hold there
                let rel: u64 = e["val"].as_str().unwrap().parse().unwrap();
                let bytes = unhx(e["bytes"].as_str().unwrap());
                let addr = (txoff + rel) as usize;
                obs["val"] == json!((txoff + rel).to_string()) && addr + bytes.len() <= stack.len() && stack[addr..addr + bytes.len()] == bytes[..]
            } else { e["val"] == obs["val"] }
        });
        if !matches {
            stats.1 += 1;
            out.ev(json!({"mismatch": "gtf", "line": line, "name": c["name"], "expected": c["outs"], "observed": obs, "sel": sel, "b": b.to_string(),
                          "txoff": txoff, "case": c["id"]}));
        }
    }
}

fn replay(o: &Opts) -> Res<()> {
    let lines = read_lines(o.input.as_ref().ok_or("missing input")?)?;
    let mut out = Out::open(&o.out)?;
    let mut stats = (0u64, 0u64);
    let params = ConsensusParameters::standard();
    // lines: {"tx": <abstract tx>, "pidx": n, "cases": [{sel, b, name, kind, outs: [...]}, ...]}
    for (line, ln) in lines.iter().enumerate() {
        let tx = build::transaction(&ln["tx"]);
        let pidx = ju64(ln, "pidx") as usize;
        let cases = ln["cases"].as_array().expect("cases");
        match tx {
            Transaction::Script(t) => replay_on(t, pidx, &params, cases, &mut out, &mut stats, line),
            Transaction::Create(t) => replay_on(t, pidx, &params, cases, &mut out, &mut stats, line),
            Transaction::Upgrade(t) => replay_on(t, pidx, &params, cases, &mut out, &mut stats, line),
            Transaction::Upload(t) => replay_on(t, pidx, &params, cases, &mut out, &mut stats, line),
            Transaction::Blob(t) => replay_on(t, pidx, &params, cases, &mut out, &mut stats, line),
            Transaction::Mint(_) => {}
        }
    }
    out.ev(json!({"summary": {"cases": stats.0, "mismatches": stats.1, "lines": lines.len()}}));
    out.finish();
    Ok(())
}
