//! vh_pred — C20: binds spec/vm/Predicates*.tla to signature and predicate checking of fuel-tx / fuel-vm.
//!
//!   vh_pred replay pred <behaviours.ndjson> -o <result.ndjson> [--reps N]
//!   vh_pred record pred [--tier T] -o <trace.ndjson>
//!
//! The harness is dumb on purpose.  It BUILDS real transactions (real secret keys, real signatures,
//! shared witnesses, predicate byte code assembled from the descriptor the specification talks about,
//! owner = Input::predicate_owner(code) or a deliberately different address), CALLS
//! FormatValidityChecks::check_signatures, Checked::check_signatures, predicates::check_predicates,
//! predicates::check_predicates_async (with a ParallelExecutor that returns the task results in the
//! completion order dictated by the behaviour), IntoChecked::into_checked(_reusable_memory),
//! EstimatePredicates::estimate_predicates(_async) and RECORDS verdicts and gas.  Which verdict is
//! right is decided by TLC: Predicates_MC prints the expectation `replay` compares with, and
//! Predicates_Trace validates every recorded event.
#[path = "../util.rs"]
mod util;

use fuel_asm::{op, RegId};
use fuel_crypto::{Message, SecretKey, Signature};
use fuel_tx::{
    field::{Inputs, Outputs},
    policies::Policies,
    BlobBody, BlobId, BlobIdExt, ConsensusParameters, Contract, FormatValidityChecks, GasCosts, Input, Output, PredicateParameters, Salt,
    StorageSlot, Transaction, TxPointer, UniqueIdentifier, UpgradePurpose, UploadSubsection, UtxoId, Witness,
};
use fuel_tx::consensus_parameters::gas::GasCostsValuesV7;
use fuel_types::{Address, AssetId, BlockHeight, Bytes32, ChainId, ContractId, Nonce};
use fuel_vm::{
    checked_transaction::{CheckPredicateParams, CheckPredicates, Checked, CheckedTransaction, EstimatePredicates, IntoChecked, ParallelExecutor},
    error::PredicateVerificationFailed,
    interpreter::{MemoryInstance, NotSupportedEcal},
    pool::VmMemoryPool,
    prelude::predicates::{check_predicates, check_predicates_async},
    storage::predicate::EmptyStorage,
};
use rand::{rngs::StdRng, seq::SliceRandom, Rng};
use serde_json::{json, Map, Value};
use std::collections::BTreeMap;
use std::future::Future;
use std::panic::AssertUnwindSafe;
use std::pin::Pin;
use std::process::exit;
use std::sync::Mutex;
use std::task::{Context, Poll};
use util::*;

type Word = u64;

// ------------------------------------------------------------------------------------------------
// keys and names
// ------------------------------------------------------------------------------------------------
fn secret(name: &str) -> SecretKey {
    let b = match name {
        "A" => 0x11u8,
        "B" => 0x22,
        "C" => 0x33,
        "D" => 0x44,
        _ => 0x55,
    };
    let mut a = [b; 32];
    a[0] = 0x01;
    SecretKey::try_from(Bytes32::new(a)).expect("secret key")
}
fn addr_of(name: &str) -> Address { Input::owner(&secret(name).public_key()) }
fn keys_json(names: &[&str]) -> Value {
    let mut m = Map::new();
    for n in names {
        m.insert(n.to_string(), json!(hx(secret(n).public_key().as_ref())));
    }
    Value::Object(m)
}

// ------------------------------------------------------------------------------------------------
// predicate programs from descriptors {pre, loop, tail}
// ------------------------------------------------------------------------------------------------
fn prog_code(p: &Value) -> Vec<u8> {
    if let Some(c) = p.get("code").and_then(|c| c.as_str()) {
        return unhx(c);
    }
    let pre = p["pre"].as_u64().unwrap_or(0) as u32;
    let lp = p["loop"].as_u64().unwrap_or(0) as u32;
    let mut v = vec![];
    for _ in 0..pre {
        v.push(op::noop());
    }
    if lp > 0 {
        v.push(op::movi(0x10, lp));
        v.push(op::subi(0x10, 0x10, 1));
        v.push(op::jnzi(0x10, pre + 1));
    }
    let at = v.len() as u32;
    let mut bytes: Vec<u8> = v.into_iter().collect();
    let tail: Vec<u8> = match p["tail"].as_str().unwrap_or("ret1") {
        "ret1" => op::ret(RegId::ONE).to_bytes().to_vec(),
        "ret0" => op::ret(RegId::ZERO).to_bytes().to_vec(),
        "ret2" => [op::movi(0x11, 2), op::ret(0x11)].into_iter().collect(),
        "retmax" => [op::not(0x11, RegId::ZERO), op::ret(0x11)].into_iter().collect(),
        "rvrt" => op::rvrt(RegId::ONE).to_bytes().to_vec(),
        "retd" => op::retd(RegId::ZERO, RegId::ZERO).to_bytes().to_vec(),
        "spin" => op::ji(at).to_bytes().to_vec(),
        _ => vec![0xff, 0xff, 0xff, 0xff],
    };
    bytes.extend(tail);
    bytes
}

// ------------------------------------------------------------------------------------------------
// gas schedules
// ------------------------------------------------------------------------------------------------
fn costs_from(c: &Value) -> GasCosts {
    match c.as_str() {
        Some("default") => return GasCosts::default(),
        Some("unit") => return GasCosts::unit(),
        _ => {}
    }
    let mut v = GasCostsValuesV7::free();
    v.noop = ju64(c, "noop");
    v.movi = ju64(c, "movi");
    v.subi = ju64(c, "subi");
    v.jnzi = ju64(c, "jnzi");
    v.ret = ju64(c, "ret");
    // the never-terminating program of the family spins on JI: its entry must not be free
    v.ji = c.get("ji").map(|_| ju64(c, "ji")).unwrap_or(1).max(1);
    GasCosts::new(v.into())
}
/// the schedule entries the specification's program family depends on, READ from the implementation
fn costs_json(g: &GasCosts) -> Value {
    json!({"noop": g.noop().to_string(), "movi": g.movi().to_string(), "subi": g.subi().to_string(),
           "jnzi": g.jnzi().to_string(), "ret": g.ret().to_string(), "ji": g.ji().to_string()})
}

// ------------------------------------------------------------------------------------------------
// concrete transaction description (always rebuilt from parts: no stale cached metadata)
// ------------------------------------------------------------------------------------------------
/// transaction kinds: 0 Script, 1 Create, 2 Blob, 3 Upload, 4 Upgrade (state transition)
const KINDS: [&str; 5] = ["Script", "Create", "Blob", "Upload", "Upgrade"];

#[derive(Clone)]
struct CTx {
    kind: usize,
    gas_limit: Word,
    receipts_root: Bytes32,
    script: Vec<u8>,
    script_data: Vec<u8>,
    /// Create: contract byte code; Blob: blob data; Upload: the (single-subsection) byte code; all in the witness that
    /// FOLLOWS the signature witnesses, so that the witness indices of signed inputs mean the same for every kind
    payload: Vec<u8>,
    /// Create: salt; Upgrade: state-transition root
    salt: [u8; 32],
    /// one field of the kind-specific body changed after construction (mutation experiments)
    body_mut: Option<&'static str>,
    policies: Policies,
    inputs: Vec<Input>,
    outputs: Vec<Output>,
    witnesses: Vec<Witness>,
    /// witnesses after the payload witness
    tail_witnesses: Vec<Witness>,
}

impl CTx {
    fn to_tx(&self) -> Transaction {
        use fuel_tx::field::{BlobId as BlobIdF, BytecodeRoot, BytecodeWitnessIndex, ProofSet, ReceiptsRoot, Salt as SaltF, SubsectionIndex,
                             SubsectionsNumber, Witnesses};
        let (pol, ins, outs, mut wits) = (self.policies, self.inputs.clone(), self.outputs.clone(), self.witnesses.clone());
        let widx = wits.len() as u16;
        let bm = self.body_mut.unwrap_or("");
        match self.kind {
            1 => {
                let salt = Salt::new(self.salt);
                let sr = Contract::initial_state_root(std::iter::empty());
                let id = Contract::id(&salt, &Contract::root_from_code(&self.payload), &sr);
                let mut outs = outs;
                outs.push(Output::contract_created(id, sr));
                wits.push(self.payload.clone().into());
                wits.extend(self.tail_witnesses.iter().cloned());
                let slots = if bm == "storage_slots" { vec![StorageSlot::new(Bytes32::new([7; 32]), Bytes32::new([9; 32]))] } else { vec![] };
                let mut t = Transaction::create(widx, pol, salt, slots, ins, outs, wits);
                match bm {
                    "bytecode_witness_index" => *t.bytecode_witness_index_mut() = widx.wrapping_add(1),
                    "salt" => *t.salt_mut() = Salt::new(flip32(&self.salt)),
                    _ => {}
                }
                t.into()
            }
            2 => {
                wits.push(self.payload.clone().into());
                wits.extend(self.tail_witnesses.iter().cloned());
                let mut t = Transaction::blob(BlobBody { id: BlobId::compute(&self.payload), witness_index: widx }, pol, ins, outs, wits);
                match bm {
                    "id" => *t.blob_id_mut() = BlobId::new(flip32(&(*t.blob_id()).into())),
                    "witness_index" => *t.bytecode_witness_index_mut() = widx.wrapping_add(1),
                    _ => {}
                }
                t.into()
            }
            3 => {
                let sub = UploadSubsection::split_bytecode(&self.payload, self.payload.len().max(1)).expect("split").remove(0);
                let mut t = Transaction::upload_from_subsection(sub, pol, ins, outs, wits);
                t.witnesses_mut().extend(self.tail_witnesses.iter().cloned());
                match bm {
                    "root" => *t.bytecode_root_mut() = Bytes32::new(flip32(&(*t.bytecode_root()).into())),
                    "witness_index" => *t.bytecode_witness_index_mut() = widx.wrapping_add(1),
                    "subsection_index" => *t.subsection_index_mut() = t.subsection_index().wrapping_add(1),
                    "subsections_number" => *t.subsections_number_mut() = t.subsections_number().wrapping_add(1),
                    "proof_set" => t.proof_set_mut().push(Bytes32::new([3; 32])),
                    _ => {}
                }
                t.into()
            }
            4 => {
                wits.extend(self.tail_witnesses.iter().cloned());
                let root = if bm == "purpose" { flip32(&self.salt) } else { self.salt };
                Transaction::upgrade(UpgradePurpose::StateTransition { root: Bytes32::new(root) }, pol, ins, outs, wits).into()
            }
            _ => {
                wits.extend(self.tail_witnesses.iter().cloned());
                let mut t = Transaction::script(self.gas_limit, self.script.clone(), self.script_data.clone(), pol, ins, outs, wits);
                *t.receipts_root_mut() = self.receipts_root;
                t.into()
            }
        }
    }
}

fn tx_inputs(tx: &Transaction) -> Vec<Input> {
    use fuel_tx::field::Inputs as _;
    match tx {
        Transaction::Script(t) => t.inputs().clone(),
        Transaction::Create(t) => t.inputs().clone(),
        Transaction::Upgrade(t) => t.inputs().clone(),
        Transaction::Upload(t) => t.inputs().clone(),
        Transaction::Blob(t) => t.inputs().clone(),
        Transaction::Mint(_) => vec![],
    }
}

#[derive(Clone)]
enum WitD {
    Sig { signer: String, over: Option<[u8; 32]>, extra: i32 }, // over None = this transaction's id; extra != 0: bytes appended (>0) / cut (<0): no longer a signature
    Raw(Vec<u8>),
}

#[derive(Clone)]
struct World {
    chain: ChainId,
    params: ConsensusParameters,
    cpp: CheckPredicateParams,
    base: AssetId,
}

fn world(cost: &Value, cap: Word, chain: u64) -> World {
    let mut params = ConsensusParameters::standard_with_id(ChainId::new(chain));
    params.set_gas_costs(costs_from(cost));
    params.set_predicate_params(PredicateParameters::default().with_max_gas_per_predicate(cap));
    let cpp = CheckPredicateParams::from(&params);
    let base = *params.base_asset_id();
    World { chain: ChainId::new(chain), params, cpp, base }
}

/// an Upgrade transaction needs an input owned by the privileged address: make it the owner of the first input
fn world_for(w: &World, ctx: &CTx) -> World {
    if ctx.kind != 4 {
        return w.clone();
    }
    let mut w2 = w.clone();
    if let Some(o) = ctx.inputs.iter().find_map(|i| i.input_owner().copied()) {
        w2.params.set_privileged_address(o);
    }
    w2
}

fn b32(tag: u8, i: usize) -> [u8; 32] {
    let mut a = [tag; 32];
    a[30] = (i >> 8) as u8;
    a[31] = i as u8;
    a
}

/// one input of the requested carrier kind (0 coin, 1 message-coin, 2 message-data)
fn mk_signed(i: usize, carrier: u8, owner: Address, w: u16, base: AssetId) -> Input {
    match carrier {
        0 => Input::coin_signed(UtxoId::new(b32(0xc1, i).into(), i as u16), owner, 1_000_000 + i as u64, base, TxPointer::default(), w),
        1 => Input::message_coin_signed(Address::new(b32(0x5e, i)), owner, 2_000_000 + i as u64, Nonce::new(b32(0x4e, i)), w),
        _ => Input::message_data_signed(Address::new(b32(0x5e, i)), owner, 3_000_000 + i as u64, Nonce::new(b32(0x4e, i)), w, vec![0xda; 3 + i % 7]),
    }
}
fn mk_pred(i: usize, carrier: u8, owner: Address, gas: Word, code: Vec<u8>, data: Vec<u8>, base: AssetId) -> Input {
    match carrier {
        0 => Input::coin_predicate(UtxoId::new(b32(0xc2, i).into(), i as u16), owner, 1_500_000 + i as u64, base, TxPointer::default(), gas, code, data),
        1 => Input::message_coin_predicate(Address::new(b32(0x5f, i)), owner, 2_500_000 + i as u64, Nonce::new(b32(0x4f, i)), gas, code, data),
        _ => Input::message_data_predicate(Address::new(b32(0x5f, i)), owner, 3_500_000 + i as u64, Nonce::new(b32(0x4f, i)), gas, vec![0xdb; 2 + i % 5], code, data),
    }
}
fn carrier_name(c: u8) -> &'static str { ["coin", "mcoin", "mdata"][c.min(2) as usize] }

fn sign_witnesses(ctx: &mut CTx, wits: &[WitD], chain: &ChainId) -> Bytes32 {
    ctx.witnesses = wits.iter().map(|_| Witness::from(vec![0u8; 64])).collect();
    let id = ctx.to_tx().id(chain);
    ctx.witnesses = wits
        .iter()
        .map(|w| match w {
            WitD::Sig { signer, over, extra } => {
                let m = match over {
                    None => Message::from_bytes(*id),
                    Some(o) => Message::from_bytes(*o),
                };
                let mut b = Signature::sign(&secret(signer), &m).as_ref().to_vec();
                if *extra > 0 { b.extend(std::iter::repeat(0x00).take(*extra as usize)); }
                if *extra < 0 { b.truncate(b.len() - (-*extra) as usize); }
                Witness::from(b)
            }
            WitD::Raw(b) => Witness::from(b.clone()),
        })
        .collect();
    id
}

fn default_ctx(kind: usize, inputs: Vec<Input>, outputs: Vec<Output>) -> CTx {
    CTx {
        kind,
        gas_limit: if kind == 0 { 1000 } else { 0 },
        receipts_root: Bytes32::zeroed(),
        script: op::ret(RegId::ONE).to_bytes().to_vec(),
        script_data: vec![1, 2, 3],
        payload: vec![0x24, 0x04, 0x00, 0x00, 0x47, 0x00, 0x00, 0x00],
        salt: [0x5a; 32],
        body_mut: None,
        policies: Policies::new().with_max_fee(0).with_tip(0).with_witness_limit(100_000).with_maturity(BlockHeight::new(0)),
        inputs,
        outputs,
        witnesses: vec![],
        tail_witnesses: vec![],
    }
}

// ------------------------------------------------------------------------------------------------
// executors, pools, memory modes
// ------------------------------------------------------------------------------------------------
type TaskOut = (usize, Result<Word, PredicateVerificationFailed>);
struct Lazy(Option<Box<dyn FnOnce() -> TaskOut + Send + 'static>>);
impl Future for Lazy {
    type Output = TaskOut;
    fn poll(mut self: Pin<&mut Self>, _: &mut Context<'_>) -> Poll<TaskOut> {
        let f = self.0.take().expect("polled twice");
        Poll::Ready(f())
    }
}
/// completion order (as task slots) for the next execute_tasks call, and whether real threads are used
static ORDER: Mutex<(Vec<usize>, bool)> = Mutex::new((Vec::new(), false));

struct Ordered;
#[async_trait::async_trait]
impl ParallelExecutor for Ordered {
    type Task = Lazy;
    fn create_task<F>(func: F) -> Lazy
    where
        F: FnOnce() -> TaskOut + Send + 'static,
    {
        Lazy(Some(Box::new(func)))
    }
    async fn execute_tasks(mut futures: Vec<Lazy>) -> Vec<TaskOut> {
        let (mut order, threads) = ORDER.lock().unwrap().clone();
        if order.len() != futures.len() {
            order = (0..futures.len()).collect();
        }
        let mut out = Vec::with_capacity(futures.len());
        if threads {
            // all tasks run concurrently on OS threads; their results are collected in the dictated order
            let mut hs: Vec<Option<std::thread::JoinHandle<TaskOut>>> =
                futures.iter_mut().map(|l| l.0.take().map(|f| std::thread::spawn(f))).collect();
            for s in order {
                if let Some(h) = hs[s].take() {
                    out.push(h.join().expect("task panicked"));
                }
            }
        } else {
            for s in order {
                if let Some(f) = futures[s].0.take() {
                    out.push(f());
                }
            }
        }
        out
    }
}

fn dirty_memory() -> MemoryInstance {
    let mut m = MemoryInstance::new();
    let _ = m.grow_stack(40_000);
    if let Ok(s) = m.write_noownerchecks(0usize, 40_000usize) {
        s.fill(0xee);
    }
    m
}
struct Pool {
    dirty: Option<MemoryInstance>,
}
impl VmMemoryPool for Pool {
    type Memory = MemoryInstance;
    fn get_new(&self) -> impl Future<Output = MemoryInstance> + Send {
        std::future::ready(match &self.dirty {
            Some(m) => m.clone(),
            None => MemoryInstance::new(),
        })
    }
}

struct Mems {
    reused: MemoryInstance,
}

#[derive(Clone, Debug)]
struct PRes {
    ok: bool,
    gas: Word,
    err: String,
}
fn pres(r: Result<Result<Word, String>, String>) -> Result<PRes, String> {
    match r {
        Ok(Ok(g)) => Ok(PRes { ok: true, gas: g, err: String::new() }),
        Ok(Err(e)) => Ok(PRes { ok: false, gas: 0, err: e }),
        Err(p) => Err(p),
    }
}

fn slots_of(order: &[usize], pred_idx: &[usize]) -> Vec<usize> {
    order.iter().filter_map(|i| pred_idx.iter().position(|p| p == i)).collect()
}

macro_rules! with_checked {
    ($ct:expr, $c:ident => $body:expr) => {
        match $ct {
            CheckedTransaction::Script($c) => $body,
            CheckedTransaction::Create($c) => $body,
            CheckedTransaction::Upgrade($c) => $body,
            CheckedTransaction::Upload($c) => $body,
            CheckedTransaction::Blob($c) => $body,
            CheckedTransaction::Mint(_) => panic!("mint"),
        }
    };
}

/// sequential verification; mem: "fresh" | "reused" | "dirty"
fn run_seq(ck: &CheckedTransaction, w: &World, mem: &str, mems: &mut Mems) -> Result<PRes, String> {
    pres(catch(AssertUnwindSafe(|| {
        let r = with_checked!(ck, c => match mem {
            "reused" => check_predicates(c, &w.cpp, &mut mems.reused, &EmptyStorage, NotSupportedEcal),
            "dirty" => check_predicates(c, &w.cpp, dirty_memory(), &EmptyStorage, NotSupportedEcal),
            _ => check_predicates(c, &w.cpp, MemoryInstance::new(), &EmptyStorage, NotSupportedEcal),
        });
        r.map(|c| c.gas_used()).map_err(|e| format!("{e:?}"))
    })))
}
fn run_par(ck: &CheckedTransaction, w: &World, slots: &[usize], threads: bool, dirty_pool: bool) -> Result<PRes, String> {
    *ORDER.lock().unwrap() = (slots.to_vec(), threads);
    let pool = Pool { dirty: if dirty_pool { Some(dirty_memory()) } else { None } };
    pres(catch(AssertUnwindSafe(|| {
        with_checked!(ck, c => futures::executor::block_on(check_predicates_async::<_, NotSupportedEcal, Ordered>(c, &w.cpp, &pool, &EmptyStorage, NotSupportedEcal)))
            .map(|c| c.gas_used())
            .map_err(|e| format!("{e:?}"))
    })))
}
/// the same two checks through the Checked<Transaction> wrapper (verdict only: the wrapper returns no gas)
fn run_wrapped(ck: &CheckedTransaction, w: &World, slots: &[usize]) -> Result<(bool, bool), String> {
    *ORDER.lock().unwrap() = (slots.to_vec(), false);
    let pool = Pool { dirty: None };
    catch(AssertUnwindSafe(|| {
        let c: Checked<Transaction> = ck.clone().into();
        let a = c.clone().check_predicates(&w.cpp, MemoryInstance::new(), &EmptyStorage, NotSupportedEcal).is_ok();
        let b = futures::executor::block_on(c.check_predicates_async::<NotSupportedEcal, Ordered>(&w.cpp, &pool, &EmptyStorage, NotSupportedEcal)).is_ok();
        (a, b)
    }))
}
fn gases_of(tx: &Transaction) -> Vec<String> {
    tx_inputs(tx).iter().map(|i| i.predicate_gas_used().map(|g| g.to_string()).unwrap_or_default()).collect()
}
/// estimation on a copy (through the Transaction enum, which dispatches to the typed transaction); returns (ok, err, estimated tx)
fn run_est_seq(tx: &Transaction, w: &World, mem: &str, mems: &mut Mems) -> Result<(bool, String, Transaction), String> {
    let mut t = tx.clone();
    let r = catch(AssertUnwindSafe(|| match mem {
        "reused" => t.estimate_predicates(&w.cpp, &mut mems.reused, &EmptyStorage),
        "dirty" => t.estimate_predicates(&w.cpp, dirty_memory(), &EmptyStorage),
        _ => t.estimate_predicates(&w.cpp, MemoryInstance::new(), &EmptyStorage),
    }))?;
    Ok((r.is_ok(), r.err().map(|e| format!("{e:?}")).unwrap_or_default(), t))
}
fn run_est_par(tx: &Transaction, w: &World, slots: &[usize], threads: bool, dirty_pool: bool) -> Result<(bool, String, Transaction), String> {
    *ORDER.lock().unwrap() = (slots.to_vec(), threads);
    let pool = Pool { dirty: if dirty_pool { Some(dirty_memory()) } else { None } };
    let mut t = tx.clone();
    let r = catch(AssertUnwindSafe(|| {
        futures::executor::block_on(t.estimate_predicates_async::<Ordered>(&w.cpp, &pool, &EmptyStorage))
    }))?;
    Ok((r.is_ok(), r.err().map(|e| format!("{e:?}")).unwrap_or_default(), t))
}
fn sig_tx(tx: &Transaction, chain: &ChainId) -> Result<(bool, String), String> {
    let r = catch(AssertUnwindSafe(|| tx.check_signatures(chain)))?;
    Ok((r.is_ok(), r.err().map(|e| format!("{e:?}")).unwrap_or_default()))
}
fn basic(tx: &Transaction, w: &World) -> Result<Result<CheckedTransaction, String>, String> {
    catch(AssertUnwindSafe(|| tx.clone().into_checked_basic(BlockHeight::new(0), &w.params).map(CheckedTransaction::from).map_err(|e| format!("{e:?}"))))
}
fn sig_checked(ck: &CheckedTransaction, chain: &ChainId) -> Result<bool, String> {
    catch(AssertUnwindSafe(|| {
        let c: Checked<Transaction> = ck.clone().into();
        c.check_signatures(chain).is_ok()
    }))
}
fn full(tx: &Transaction, w: &World, mem: &str, mems: &mut Mems) -> Result<(bool, String), String> {
    let r = catch(AssertUnwindSafe(|| match mem {
        "reused" => tx.clone().into_checked_reusable_memory(BlockHeight::new(0), &w.params, &mut mems.reused, &EmptyStorage).map(|_| ()),
        "dirty" => tx.clone().into_checked_reusable_memory(BlockHeight::new(0), &w.params, dirty_memory(), &EmptyStorage).map(|_| ()),
        _ => tx.clone().into_checked(BlockHeight::new(0), &w.params).map(|_| ()),
    }))?;
    Ok((r.is_ok(), r.err().map(|e| format!("{e:?}")).unwrap_or_default()))
}

// ------------------------------------------------------------------------------------------------
// Leg R: replay of TLC behaviours
// ------------------------------------------------------------------------------------------------
struct Built {
    ctx: CTx,
    tx: Transaction,
    pred_idx: Vec<usize>,
    carriers: Vec<u8>,
    w: World,
}

/// abstract transaction of a REPLAY line -> real transaction.  Owners "A"/"B" are key holders, "P" the
/// predicate's own address, "X" some other address.
fn build_abstract(atx: &Value, rot: usize, w: &World) -> Built {
    let ins = atx["inputs"].as_array().cloned().unwrap_or_default();
    // the transaction kind rotates too; only scripts may carry message-data inputs
    let kind = (rot / 3) % 5;
    let ncar = if kind == 0 { 3 } else { 2 };
    let mut carriers: Vec<u8> = (0..ins.len()).map(|j| ((j + rot) % ncar) as u8).collect();
    if !carriers.iter().any(|c| *c < 2) && !carriers.is_empty() {
        carriers[0] = (rot % 2) as u8; // a transaction needs one spendable input
    }
    let mut inputs = vec![];
    let mut pred_idx = vec![];
    for (j, x) in ins.iter().enumerate() {
        match x["k"].as_str().unwrap_or("") {
            "signed" => inputs.push(mk_signed(j, carriers[j], addr_of(&jstr(x, "owner")), ju64(x, "w") as u16, w.base)),
            "pred" => {
                let code = prog_code(&x["prog"]);
                let root = Input::predicate_owner(&code);
                let owner = if jstr(x, "owner") == jstr(x, "root") {
                    root
                } else {
                    let mut o: [u8; 32] = root.into();
                    o[(j + rot) % 32] ^= 1 << (rot % 8);
                    Address::new(o)
                };
                pred_idx.push(j);
                inputs.push(mk_pred(j, carriers[j], owner, ju64(x, "gas"), code, vec![j as u8; (j + rot) % 4], w.base));
            }
            _ => {}
        }
    }
    let wits: Vec<WitD> = atx["wits"]
        .as_array()
        .cloned()
        .unwrap_or_default()
        .iter()
        .enumerate()
        .map(|(k, x)| match jstr(x, "signer").as_str() {
            // "none": not a signature of anybody -- empty, zeros, junk, or a genuine signature of A or B over this
            // id with a byte appended / removed
            "none" => match (k + rot) % 7 {
                0 => WitD::Raw(vec![]),
                1 => WitD::Raw(vec![0u8; 64]),
                2 => WitD::Raw(vec![0x5a; 63]),
                3 => WitD::Raw(vec![0x5a; 65]),
                4 => WitD::Sig { signer: "A".into(), over: None, extra: 1 },
                5 => WitD::Sig { signer: "B".into(), over: None, extra: 8 },
                _ => WitD::Sig { signer: "A".into(), over: None, extra: -1 },
            },
            s => WitD::Sig { signer: s.to_string(), over: if jstr(x, "over") == "this" { None } else { Some(b32(0x07, k + rot)) }, extra: 0 },
        })
        .collect();
    let outputs = vec![Output::coin(addr_of("C"), 10, w.base), Output::change(addr_of("C"), 0, w.base)];
    let mut ctx = default_ctx(kind, inputs, outputs);
    sign_witnesses(&mut ctx, &wits, &w.chain);
    let tx = ctx.to_tx();
    let w = world_for(w, &ctx);
    Built { ctx, tx, pred_idx, carriers, w }
}

fn tf(b: bool) -> &'static str { if b { "T" } else { "F" } }

fn replay(o: &Opts) -> Res<()> {
    let lines = read_lines(o.input.as_ref().ok_or("no input")?)?;
    let reps: usize = o.opt("--reps").and_then(|s| s.parse().ok()).unwrap_or(1);
    let mut out = Out::open(&o.out)?;
    let mut mems = Mems { reused: MemoryInstance::new() };
    let (mut nb, mut steps, mut basic_rej, mut accepted, mut est_ok_n) = (0u64, 0u64, 0u64, 0u64, 0u64);
    let mut worlds: BTreeMap<String, World> = BTreeMap::new();
    let mut mcount: BTreeMap<String, u64> = BTreeMap::new();
    for (ln, l) in lines.iter().enumerate() {
        nb += 1;
        let atx = &l["tx"];
        let key = format!("{}|{}", atx["cost"], atx["cap"]);
        let w = worlds.entry(key).or_insert_with(|| world(&atx["cost"], ju64(atx, "cap"), 0)).clone();
        let order: Vec<usize> = l["order"].as_array().map(|a| a.iter().map(|x| x.as_u64().unwrap() as usize).collect()).unwrap_or_default();
        let exp = &l["exp"];
        for rep in 0..reps {
            let rot = ln + rep;
            let b = build_abstract(atx, rot, &w);
            let w = b.w.clone();
            let slots = slots_of(&order, &b.pred_idx);
            let memmode = ["fresh", "reused", "dirty"][rot % 3];
            let threads = rot % 64 == 63;
            let ctxv = json!({"line": ln, "rep": rep, "kind": KINDS[b.ctx.kind], "carriers": b.carriers.iter().map(|c| carrier_name(*c)).collect::<Vec<_>>(),
                              "mem": memmode, "threads": threads, "order": order, "tx": atx, "mode": l["mode"]});
            let mut mism = |what: &str, expected: Value, observed: Value, extra: Value| {
                // every mismatch is counted; the first few of each (kind, reason) are written out in full
                let key = format!("{}|{}", what, extra.get("why").and_then(|x| x.as_str()).unwrap_or(""));
                let c = mcount.entry(key).or_insert(0u64);
                *c += 1;
                if *c <= 4 {
                    out.ev(json!({"mismatch": what, "expected": expected, "observed": observed, "detail": extra, "ctx": ctxv}));
                }
            };
            macro_rules! host {
                ($r:expr, $wh:expr) => {
                    match $r {
                        Ok(v) => v,
                        Err(p) => {
                            mism("host_panic", json!("no panic"), json!(p), json!($wh));
                            continue;
                        }
                    }
                };
            }
            if jstr(l, "mode") == "verify" {
                // 1. signatures on the bare transaction
                let (s_ok, s_err) = host!(sig_tx(&b.tx, &w.chain), "check_signatures");
                steps += 1;
                let se = jstr(exp, "sig");
                if se != "any" && se != tf(s_ok) {
                    mism("sig", json!(se), json!(tf(s_ok)), json!(s_err));
                }
                // 2. basic checks (a witness index out of range is legitimately rejected here)
                let ck = match host!(basic(&b.tx, &w), "into_checked_basic") {
                    Ok(c) => c,
                    Err(e) => {
                        basic_rej += 1;
                        if !e.contains("InputWitnessIndexBounds") {
                            mism("basic", json!("Ok"), json!(e), json!(null));
                        } else if s_ok {
                            mism("sig", json!("F"), json!("T"), json!("witness index out of bounds but signatures accepted"));
                        }
                        continue;
                    }
                };
                let c_ok = host!(sig_checked(&ck, &w.chain), "Checked::check_signatures");
                steps += 1;
                if c_ok != s_ok {
                    mism("sig_checked_vs_tx", json!(tf(s_ok)), json!(tf(c_ok)), json!(null));
                }
                // 3. predicates, sequential and parallel in the dictated order
                let sq = host!(run_seq(&ck, &w, memmode, &mut mems), "check_predicates");
                let pr = host!(run_par(&ck, &w, &slots, threads, rot % 2 == 1), "check_predicates_async");
                steps += 2;
                let e_ok = exp["pred_ok"].as_bool().unwrap_or(false);
                let e_gas = ju64(exp, "gas");
                if sq.ok != e_ok {
                    mism("seq_ok", json!(e_ok), json!(sq.ok), json!(sq.err));
                } else if sq.ok && sq.gas != e_gas {
                    mism("seq_gas", json!(e_gas.to_string()), json!(sq.gas.to_string()), json!(null));
                }
                if pr.ok != e_ok {
                    mism("par_ok", json!(e_ok), json!(pr.ok), json!(pr.err));
                } else if pr.ok && pr.gas != e_gas {
                    mism("par_gas", json!(e_gas.to_string()), json!(pr.gas.to_string()), json!(null));
                }
                let (wa, wb) = host!(run_wrapped(&ck, &w, &slots), "Checked<Transaction>::check_predicates");
                steps += 2;
                if wa != e_ok || wb != e_ok {
                    mism("wrapped_ok", json!(e_ok), json!([wa, wb]), json!(null));
                }
                if sq.ok != pr.ok || (sq.ok && sq.gas != pr.gas) {
                    mism("seq_vs_par", json!({"ok": sq.ok, "gas": sq.gas.to_string()}), json!({"ok": pr.ok, "gas": pr.gas.to_string()}), json!([sq.err, pr.err]));
                }
                // 4. the whole pipeline
                let (f_ok, f_err) = host!(full(&b.tx, &w, memmode, &mut mems), "into_checked");
                steps += 1;
                let e_full = exp["full"].as_bool().unwrap_or(false);
                if f_ok != e_full {
                    mism("full", json!(e_full), json!(f_ok), json!(f_err));
                }
                if f_ok {
                    accepted += 1;
                }
                // 5. a change of signed content of an accepted transaction
                if jstr(exp, "tamper") == "F" {
                    for m in tamper_set(&b.ctx, rot) {
                        let mut c2 = b.ctx.clone();
                        apply_mut(&mut c2, &m, &w);
                        let t2 = c2.to_tx();
                        let chain2 = if m.at == "chain" { ChainId::new(1) } else { w.chain };
                        let (ok2, _) = host!(sig_tx(&t2, &chain2), "check_signatures(tampered)");
                        steps += 1;
                        if ok2 {
                            mism("tamper", json!("F"), json!("T"), json!(m.describe()));
                        }
                    }
                }
            } else {
                // estimation, sequential and parallel; then verification of the estimated transaction
                let (es_ok, es_err, es_tx) = host!(run_est_seq(&b.tx, &w, memmode, &mut mems), "estimate_predicates");
                let (ep_ok, ep_err, ep_tx) = host!(run_est_par(&b.tx, &w, &slots, threads, rot % 2 == 1), "estimate_predicates_async");
                steps += 2;
                let e_ok = exp["est_ok"].as_bool().unwrap_or(false);
                let why = jstr(exp, "est_why");
                for (tag, ok, err, etx) in [("seq", es_ok, &es_err, &es_tx), ("par", ep_ok, &ep_err, &ep_tx)] {
                    let mut ver: Option<(PRes, PRes)> = None;
                    if ok {
                        match host!(basic(etx, &w), "into_checked_basic(estimated)") {
                            Ok(ck) => {
                                let sq = host!(run_seq(&ck, &w, memmode, &mut mems), "check_predicates(estimated)");
                                let pr = host!(run_par(&ck, &w, &slots, threads, false), "check_predicates_async(estimated)");
                                steps += 2;
                                ver = Some((sq, pr));
                            }
                            Err(e) => mism("basic", json!("Ok"), json!(e), json!("estimated transaction")),
                        }
                    }
                    let ver_ok = ver.as_ref().map(|(a, b)| a.ok && b.ok);
                    // the property itself: estimation succeeded => verification of the estimated tx succeeds
                    if ok && ver_ok == Some(false) {
                        let (a, bb) = ver.clone().unwrap();
                        mism("est_then_verify", json!({"estimate": "Ok", "verify": "Ok"}),
                             json!({"estimate": "Ok", "verify_seq": a.err, "verify_par": bb.err, "gases": gases_of(etx)}),
                             json!({"which": tag, "why": why}));
                    } else if ok != e_ok {
                        mism("est_ok", json!(e_ok), json!(ok), json!({"which": tag, "why": why, "err": err}));
                    }
                    if ok && e_ok {
                        est_ok_n += 1;
                        let eg: Vec<String> = exp["est_gas"].as_array().map(|a| a.iter().map(|x| x.as_str().unwrap_or("").to_string()).collect()).unwrap_or_default();
                        let og = gases_of(etx);
                        if eg != og {
                            mism("est_gas", json!(eg), json!(og), json!({"which": tag}));
                        }
                        if let Some((a, bb)) = &ver {
                            let vg = ju64(exp, "ver_gas");
                            if a.ok && a.gas != vg {
                                mism("ver_gas", json!(vg.to_string()), json!(a.gas.to_string()), json!({"which": tag, "mode": "seq"}));
                            }
                            if bb.ok && bb.gas != vg {
                                mism("ver_gas", json!(vg.to_string()), json!(bb.gas.to_string()), json!({"which": tag, "mode": "par"}));
                            }
                        }
                    }
                }
                if es_ok != ep_ok || (es_ok && gases_of(&es_tx) != gases_of(&ep_tx)) {
                    mism("est_seq_vs_par", json!({"ok": es_ok, "gases": gases_of(&es_tx)}), json!({"ok": ep_ok, "gases": gases_of(&ep_tx)}), json!([es_err, ep_err]));
                }
            }
        }
    }
    out.ev(json!({"summary": {"behaviours": nb, "reps": reps, "steps": steps, "basic_rejected": basic_rej, "accepted": accepted, "estimates_ok": est_ok_n, "mismatch_counts": mcount}}));
    out.finish();
    Ok(())
}

// ------------------------------------------------------------------------------------------------
// single-field mutations (names as in spec/tx/TxFormat.tla)
// ------------------------------------------------------------------------------------------------
#[derive(Clone, Debug)]
struct Mutn {
    at: &'static str, // inputs | outputs | body | policies | witnesses | chain | shape
    i: usize,
    kind: String,
    field: &'static str,
}
impl Mutn {
    fn describe(&self) -> Value { json!({"at": self.at, "i": self.i, "kind": self.kind, "field": self.field}) }
}

fn input_kind(i: &Input) -> &'static str {
    match i {
        Input::CoinSigned(_) => "CoinSigned",
        Input::CoinPredicate(_) => "CoinPredicate",
        Input::Contract(_) => "Contract",
        Input::MessageCoinSigned(_) => "MessageCoinSigned",
        Input::MessageCoinPredicate(_) => "MessageCoinPredicate",
        Input::MessageDataSigned(_) => "MessageDataSigned",
        Input::MessageDataPredicate(_) => "MessageDataPredicate",
    }
}
fn output_kind(o: &Output) -> &'static str {
    match o {
        Output::Coin { .. } => "Coin",
        Output::Contract(_) => "Contract",
        Output::Change { .. } => "Change",
        Output::Variable { .. } => "Variable",
        Output::ContractCreated { .. } => "ContractCreated",
    }
}
fn input_fields(i: &Input) -> Vec<&'static str> {
    match i {
        Input::CoinSigned(_) => vec!["utxo_id", "owner", "amount", "asset_id", "tx_pointer", "witness_index"],
        Input::CoinPredicate(_) => vec!["utxo_id", "owner", "amount", "asset_id", "tx_pointer", "predicate_gas_used", "predicate", "predicate_data"],
        Input::Contract(_) => vec!["utxo_id", "balance_root", "state_root", "tx_pointer", "contract_id"],
        Input::MessageCoinSigned(_) => vec!["sender", "recipient", "amount", "nonce", "witness_index"],
        Input::MessageCoinPredicate(_) => vec!["sender", "recipient", "amount", "nonce", "predicate_gas_used", "predicate", "predicate_data"],
        Input::MessageDataSigned(_) => vec!["sender", "recipient", "amount", "nonce", "witness_index", "data"],
        Input::MessageDataPredicate(_) => vec!["sender", "recipient", "amount", "nonce", "predicate_gas_used", "data", "predicate", "predicate_data"],
    }
}
fn output_fields(o: &Output) -> Vec<&'static str> {
    match o {
        Output::Coin { .. } | Output::Change { .. } | Output::Variable { .. } => vec!["to", "amount", "asset_id"],
        Output::Contract(_) => vec!["input_index", "balance_root", "state_root"],
        Output::ContractCreated { .. } => vec!["contract_id", "state_root"],
    }
}

fn all_mutations(c: &CTx) -> Vec<Mutn> {
    let mut v = vec![];
    let kname = KINDS[c.kind];
    let body: &[&'static str] = match c.kind {
        1 => &["bytecode_witness_index", "salt", "storage_slots"],
        2 => &["id", "witness_index"],
        3 => &["root", "witness_index", "subsection_index", "subsections_number", "proof_set"],
        4 => &["purpose"],
        _ => &["script_gas_limit", "receipts_root", "script", "script_data"],
    };
    for f in body {
        v.push(Mutn { at: "body", i: 0, kind: kname.into(), field: f });
    }
    for f in ["tip", "witness_limit", "maturity", "max_fee", "expiration", "owner"] {
        v.push(Mutn { at: "policies", i: 0, kind: kname.into(), field: f });
    }
    for (i, x) in c.inputs.iter().enumerate() {
        for f in input_fields(x) {
            v.push(Mutn { at: "inputs", i, kind: input_kind(x).into(), field: f });
        }
    }
    for (i, x) in c.outputs.iter().enumerate() {
        for f in output_fields(x) {
            v.push(Mutn { at: "outputs", i, kind: output_kind(x).into(), field: f });
        }
    }
    for i in 0..c.witnesses.len() {
        v.push(Mutn { at: "witnesses", i, kind: "Witness".into(), field: "data" });
    }
    v.push(Mutn { at: "chain", i: 0, kind: kname.into(), field: "chain_id" });
    for f in ["append_output", "remove_output", "append_input", "append_witness"] {
        v.push(Mutn { at: "shape", i: 0, kind: kname.into(), field: f });
    }
    v
}
/// three signed-content mutations per replayed behaviour (the whole matrix is exercised in Leg T)
fn tamper_set(c: &CTx, rot: usize) -> Vec<Mutn> {
    let all: Vec<Mutn> = all_mutations(c)
        .into_iter()
        .filter(|m| match m.at {
            "body" => m.field != "receipts_root",
            "policies" | "chain" => true,
            "inputs" => !matches!(m.field, "tx_pointer" | "predicate_gas_used") && m.kind != "Contract",
            "outputs" => m.kind == "Coin",
            _ => false,
        })
        .collect();
    (0..3).map(|k| all[(rot * 7 + k * 11) % all.len()].clone()).collect()
}

fn flip32(a: &[u8; 32]) -> [u8; 32] {
    let mut b = *a;
    b[5] ^= 0x10;
    b
}
fn flipv(v: &[u8]) -> Vec<u8> {
    let mut b = v.to_vec();
    if b.is_empty() {
        b.push(1);
    } else {
        let k = b.len() / 2;
        b[k] ^= 0x04;
    }
    b
}

/// rebuild input `x` with one field changed
fn mutate_input(x: &Input, field: &str, base: &AssetId) -> Input {
    let utxo = x.utxo_id().copied().unwrap_or_default();
    let owner = x.input_owner().copied().unwrap_or_default();
    let amount = x.amount().unwrap_or(0);
    let asset = x.asset_id(base).copied().unwrap_or_default();
    let txp = x.tx_pointer().copied().unwrap_or_default();
    let widx = x.witness_index().unwrap_or(0);
    let gas = x.predicate_gas_used().unwrap_or(0);
    let pred = x.input_predicate().map(|p| p.to_vec()).unwrap_or_default();
    let pdata = x.input_predicate_data().map(|p| p.to_vec()).unwrap_or_default();
    let sender = x.sender().copied().unwrap_or_default();
    let nonce = x.nonce().copied().unwrap_or_default();
    let data = x.input_data().map(|p| p.to_vec()).unwrap_or_default();
    let (mut utxo, mut owner, mut amount, mut asset, mut txp, mut widx, mut gas, mut pred, mut pdata, mut sender, mut nonce, mut data) =
        (utxo, owner, amount, asset, txp, widx, gas, pred, pdata, sender, nonce, data);
    let (mut broot, mut sroot, mut cid) = (Bytes32::zeroed(), Bytes32::zeroed(), ContractId::zeroed());
    if let Input::Contract(c) = x {
        broot = c.balance_root;
        sroot = c.state_root;
        cid = c.contract_id;
    }
    match field {
        "utxo_id" => utxo = UtxoId::new(*utxo.tx_id(), utxo.output_index().wrapping_add(1)),
        "owner" | "recipient" => owner = Address::new(flip32(&owner.into())),
        "amount" => amount = amount.wrapping_add(1),
        "asset_id" => asset = AssetId::new(flip32(&asset.into())),
        "tx_pointer" => txp = TxPointer::new(BlockHeight::new(u32::from(txp.block_height()).wrapping_add(1)), txp.tx_index()),
        "witness_index" => widx = widx.wrapping_add(1),
        "predicate_gas_used" => gas = gas.wrapping_add(1),
        "predicate" => pred = flipv(&pred),
        "predicate_data" => pdata = flipv(&pdata),
        "sender" => sender = Address::new(flip32(&sender.into())),
        "nonce" => nonce = Nonce::new(flip32(&nonce.into())),
        "data" => data = flipv(&data),
        "balance_root" => broot = Bytes32::new(flip32(&broot.into())),
        "state_root" => sroot = Bytes32::new(flip32(&sroot.into())),
        "contract_id" => cid = ContractId::new(flip32(&cid.into())),
        _ => {}
    }
    match x {
        Input::CoinSigned(_) => Input::coin_signed(utxo, owner, amount, asset, txp, widx),
        Input::CoinPredicate(_) => Input::coin_predicate(utxo, owner, amount, asset, txp, gas, pred, pdata),
        Input::Contract(_) => Input::contract(utxo, broot, sroot, txp, cid),
        Input::MessageCoinSigned(_) => Input::message_coin_signed(sender, owner, amount, nonce, widx),
        Input::MessageCoinPredicate(_) => Input::message_coin_predicate(sender, owner, amount, nonce, gas, pred, pdata),
        Input::MessageDataSigned(_) => Input::message_data_signed(sender, owner, amount, nonce, widx, data),
        Input::MessageDataPredicate(_) => Input::message_data_predicate(sender, owner, amount, nonce, gas, data, pred, pdata),
    }
}
fn mutate_output(o: &Output, field: &str) -> Output {
    match o {
        Output::Coin { to, amount, asset_id } | Output::Change { to, amount, asset_id } | Output::Variable { to, amount, asset_id } => {
            let (mut t, mut a, mut s) = (*to, *amount, *asset_id);
            match field {
                "to" => t = Address::new(flip32(&t.into())),
                "amount" => a = a.wrapping_add(1),
                _ => s = AssetId::new(flip32(&s.into())),
            }
            match o {
                Output::Coin { .. } => Output::coin(t, a, s),
                Output::Change { .. } => Output::change(t, a, s),
                _ => Output::variable(t, a, s),
            }
        }
        Output::Contract(c) => {
            let (mut ii, mut b, mut s) = (c.input_index, c.balance_root, c.state_root);
            match field {
                "input_index" => ii = ii.wrapping_add(1),
                "balance_root" => b = Bytes32::new(flip32(&b.into())),
                _ => s = Bytes32::new(flip32(&s.into())),
            }
            Output::contract(ii, b, s)
        }
        Output::ContractCreated { contract_id, state_root } => match field {
            "contract_id" => Output::contract_created(ContractId::new(flip32(&(*contract_id).into())), *state_root),
            _ => Output::contract_created(*contract_id, Bytes32::new(flip32(&(*state_root).into()))),
        },
    }
}
/// applies the mutation to the description (chain mutations are applied by the caller)
fn apply_mut(c: &mut CTx, m: &Mutn, w: &World) {
    use fuel_tx::policies::PolicyType as PT;
    match m.at {
        "body" if c.kind != 0 => c.body_mut = Some(m.field),
        "body" => match m.field {
            "script_gas_limit" => c.gas_limit = c.gas_limit.wrapping_add(1),
            "receipts_root" => c.receipts_root = Bytes32::new(flip32(&c.receipts_root.into())),
            "script" => c.script = flipv(&c.script),
            _ => c.script_data = flipv(&c.script_data),
        },
        "policies" => {
            let pt = match m.field {
                "tip" => PT::Tip,
                "witness_limit" => PT::WitnessLimit,
                "maturity" => PT::Maturity,
                "max_fee" => PT::MaxFee,
                "expiration" => PT::Expiration,
                _ => PT::Owner,
            };
            let v = c.policies.get(pt);
            c.policies.set(pt, Some(v.map(|x| x.wrapping_add(1)).unwrap_or(0)));
        }
        "inputs" => c.inputs[m.i] = mutate_input(&c.inputs[m.i], m.field, &w.base),
        "outputs" => c.outputs[m.i] = mutate_output(&c.outputs[m.i], m.field),
        "witnesses" => c.witnesses[m.i] = Witness::from(flipv(c.witnesses[m.i].as_ref())),
        "shape" => match m.field {
            "append_output" => c.outputs.push(Output::coin(addr_of("D"), 1, w.base)),
            "remove_output" => {
                c.outputs.pop();
            }
            "append_input" => {
                let n = c.inputs.len();
                c.inputs.push(mk_pred(n + 40, 0, Input::predicate_owner(op::ret(RegId::ONE).to_bytes()), 0, op::ret(RegId::ONE).to_bytes().to_vec(), vec![], w.base));
            }
            _ => c.tail_witnesses.push(Witness::from(vec![1u8, 2, 3])),
        },
        _ => {}
    }
}

// ------------------------------------------------------------------------------------------------
// Leg T: recorded traces
// ------------------------------------------------------------------------------------------------
struct GenIn {
    input: Input,
    desc: Value, // event description of the input
}

/// a random program of the family the specification defines; returns (descriptor, satisfiable-by-construction)
fn gen_desc(rng: &mut StdRng, good: bool) -> Value {
    let pre = *[0u64, 0, 1, 2, 3, 7, 30].choose(rng).unwrap();
    let lp = if rng.gen_bool(0.5) { 0 } else { *[1u64, 2, 3, 10, 100, 1000, 20_000].choose(rng).unwrap() };
    let tail = if good { "ret1" } else { *["ret0", "ret2", "retmax", "rvrt", "retd", "bad", "spin", "ret1", "ret1"].choose(rng).unwrap() };
    json!({"pre": pre, "loop": lp, "tail": tail})
}

/// a random straight-line program over registers/own memory only (no introspection of the transaction):
/// its outcome is not defined by the specification and enters the trace as a measured claim
fn gen_opaque(rng: &mut StdRng) -> Vec<u8> {
    let n = rng.gen_range(1..14);
    let mut v = vec![];
    let r = |rng: &mut StdRng| -> u8 { rng.gen_range(0x10..0x16) };
    for _ in 0..n {
        let (a, b, c) = (r(rng), r(rng), r(rng));
        v.push(match rng.gen_range(0..14) {
            0 => op::movi(a, rng.gen_range(0..300)),
            1 => op::add(a, b, c),
            2 => op::sub(a, b, c),
            3 => op::mul(a, b, c),
            4 => op::div(a, b, c),
            5 => op::eq(a, b, c),
            6 => op::lt(a, b, c),
            7 => op::addi(a, b, rng.gen_range(0..50)),
            8 => op::aloc(RegId::ONE),
            9 => op::cfei(rng.gen_range(0..64) * 8),
            10 => op::not(a, b),
            11 => op::xori(a, b, rng.gen_range(0..0xfff)),
            12 => op::sw(RegId::HP, a, 0),
            _ => op::noop(),
        });
    }
    v.push(match rng.gen_range(0..5) {
        0 => op::ret(r(rng)),
        1 => op::ret(RegId::ZERO),
        _ => op::ret(RegId::ONE),
    });
    v.into_iter().collect()
}

/// measured outcome of an opaque program: run alone in a one-input transaction (estimation with a large cap,
/// then verification with the measured gas).  It is an environment fact for the trace specification, which
/// then requires every other observation of this program (other transactions, modes, orders, memories,
/// declared gas +-1) to be consistent with it.
fn measure(code: &[u8], w: &World) -> Option<(String, Word)> {
    let owner = Input::predicate_owner(code);
    let mut ctx = default_ctx(0, vec![mk_pred(0, 0, owner, 0, code.to_vec(), vec![], w.base)], vec![]);
    sign_witnesses(&mut ctx, &[], &w.chain);
    let t = ctx.to_tx();
    let (ok, _, t) = run_est_seq(&t, w, "fresh", &mut Mems { reused: MemoryInstance::new() }).ok()?;
    if !ok {
        return None;
    }
    let g = tx_inputs(&t)[0].predicate_gas_used()?;
    let ck = basic(&t, w).ok()?.ok()?;
    let v = run_seq(&ck, w, "fresh", &mut Mems { reused: MemoryInstance::new() }).ok()?;
    Some((if v.ok { "one".into() } else { "notone".into() }, g))
}

fn record(o: &Opts) -> Res<()> {
    let mut out = Out::open(&o.out)?;
    let thorough = o.thorough();
    let parts: Vec<String> = o.opt("--part").map(|p| p.split(',').map(|s| s.to_string()).collect()).unwrap_or_else(|| vec!["mix".into(), "mutate".into(), "opaque".into()]);
    let mut rng = o.rng(0xC20);
    let mut mems = Mems { reused: MemoryInstance::new() };
    let ntx = if thorough { 1500 } else { 140 };
    let names = ["A", "B", "C"];
    for n in 0..ntx {
        let sched = match n % 4 {
            0 => json!("default"),
            1 => json!("unit"),
            2 => json!({"noop": rng.gen_range(0..9u64), "movi": rng.gen_range(0..9u64), "subi": rng.gen_range(0..40u64), "jnzi": rng.gen_range(0..9u64), "ret": rng.gen_range(0..70u64)}),
            _ => json!({"noop": 1, "movi": 2, "subi": 3, "jnzi": 4, "ret": 5}),
        };
        let cap_pick: Word = *[100_000_000u64, 1_000_000, 5_000].choose(&mut rng).unwrap();
        let chain = *[0u64, 1, 9889, u64::MAX].choose(&mut rng).unwrap();
        let part = parts[n % parts.len()].as_str();
        // "good" transactions are authorised by construction (used for mutation and estimation round trips);
        // their estimation cap is ample so that every predicate can be shown to return one
        let good = part == "mutate" || rng.gen_bool(0.45);
        let cap: Word = if good { 100_000_000 } else { cap_pick };
        let w = world(&sched, cap, chain);
        // transaction kind: scripts mostly (only they may carry message-data and contract inputs)
        let kind = *[0usize, 0, 0, 1, 2, 3, 4].choose(&mut rng).unwrap();
        let ncar = if kind == 0 { 3u8 } else { 2u8 };
        let nin = rng.gen_range(1..=6usize);
        let nwit = rng.gen_range(0..=3usize);
        let mut wits: Vec<WitD> = (0..nwit)
            .map(|k| {
                if good || rng.gen_bool(0.75) {
                    WitD::Sig { signer: names[rng.gen_range(0..3)].to_string(), over: if good || rng.gen_bool(0.85) { None } else { Some(b32(0x09, k)) },
                                extra: if good || rng.gen_bool(0.8) { 0 } else { *[1, 2, 8, 64, -1, -32].choose(&mut rng).unwrap() } }
                } else {
                    WitD::Raw(match rng.gen_range(0..4) {
                        0 => vec![],
                        1 => (0..64).map(|_| rng.gen::<u8>()).collect(),
                        2 => vec![0; 64],
                        _ => (0..rng.gen_range(1..130)).map(|_| rng.gen::<u8>()).collect(),
                    })
                }
            })
            .collect();
        let mut gens: Vec<GenIn> = vec![];
        let mut any_spendable = false;
        for j in 0..nin {
            let mut carrier = rng.gen_range(0..ncar);
            if j == nin - 1 && !any_spendable {
                carrier = rng.gen_range(0..2);
            }
            any_spendable |= carrier < 2;
            let want_signed = (part == "mutate" && j == 0) || rng.gen_bool(0.45);
            if want_signed && (part == "mutate" || !wits.is_empty() || rng.gen_bool(0.5)) {
                if wits.is_empty() {
                    wits.push(WitD::Sig { signer: names[rng.gen_range(0..3)].to_string(), over: None, extra: 0 });
                }
                let widx = if good || rng.gen_bool(0.9) { rng.gen_range(0..wits.len()) } else { wits.len() + rng.gen_range(0..2) };
                let owner = match (wits.get(widx), good || rng.gen_bool(0.8)) {
                    (Some(WitD::Sig { signer, over: None, .. }), true) => addr_of(signer),
                    _ => addr_of(names[rng.gen_range(0..3)]),
                };
                gens.push(GenIn { input: mk_signed(j, carrier, owner, widx as u16, w.base),
                                  desc: json!({"k": "signed", "c": carrier_name(carrier), "w": widx, "owner": hx(owner)}) });
            } else {
                let opaque = part == "opaque" && rng.gen_bool(0.7);
                let (code, prog, est): (Vec<u8>, Value, Option<Word>) = if opaque {
                    let mut code = gen_opaque(&mut rng);
                    let mut m = measure(&code, &w);
                    if good {
                        // keep drawing until the measured program returns one
                        for _ in 0..30 {
                            if matches!(&m, Some((k, _)) if k == "one") { break; }
                            code = gen_opaque(&mut rng);
                            m = measure(&code, &w);
                        }
                    }
                    match m {
                        Some((k, g)) => (code, json!({"claim": {"kind": k, "need": g.to_string()}}), Some(g)),
                        None => {
                            let d = json!({"pre": 0, "loop": 0, "tail": "ret1"});
                            (prog_code(&d), d, None)
                        }
                    }
                } else {
                    let d = gen_desc(&mut rng, good);
                    (prog_code(&d), d, None)
                };
                // declared gas: the estimate of this program run alone (a suggestion, the specification
                // decides), perturbed unless the transaction is to be authorised by construction
                let est = if prog["tail"].as_str().map(|t| t != "ret1").unwrap_or(false) { rng.gen_range(0..200) } else { est.or_else(|| measure(&code, &w).map(|x| x.1)).unwrap_or(0) };
                let gas = if good { est } else {
                    match rng.gen_range(0..10) {
                        0 => est.wrapping_add(1),
                        1 => est.saturating_sub(1),
                        2 => 0,
                        3 => rng.gen(),
                        4 => u64::MAX,
                        _ => est,
                    }
                };
                let root = Input::predicate_owner(&code);
                let owner = if good || rng.gen_bool(0.85) { root } else if rng.gen_bool(0.5) { addr_of("A") } else { Address::new(flip32(&root.into())) };
                let data: Vec<u8> = (0..rng.gen_range(0..9)).map(|_| rng.gen::<u8>()).collect();
                gens.push(GenIn { input: mk_pred(j, carrier, owner, gas, code.clone(), data, w.base),
                                  desc: json!({"k": "pred", "c": carrier_name(carrier), "owner": hx(owner), "code": hx(&code), "prog": prog, "gas": gas.to_string()}) });
            }
        }
        let mut outputs = vec![Output::coin(addr_of("C"), 10, w.base), Output::change(addr_of("B"), 0, w.base)];
        if kind == 0 && rng.gen_bool(0.5) {
            outputs.push(Output::variable(Address::zeroed(), 0, AssetId::zeroed()));
        }
        // a contract input with its output (nothing to authorise; exercises the "other" input kind)
        if kind == 0 && rng.gen_bool(0.3) {
            let idx = gens.len();
            gens.push(GenIn { input: Input::contract(UtxoId::new(b32(0xcc, idx).into(), 3), Bytes32::new(b32(0xb0, idx)), Bytes32::new(b32(0xb1, idx)), TxPointer::default(), ContractId::new(b32(0xcd, idx))),
                              desc: json!({"k": "other", "c": "contract"}) });
            outputs.push(Output::contract(idx as u16, Bytes32::new(b32(0xb2, idx)), Bytes32::new(b32(0xb3, idx))));
        }
        let mut ctx = default_ctx(kind, gens.iter().map(|g| g.input.clone()).collect(), outputs);
        if kind == 0 {
            ctx.gas_limit = rng.gen_range(0..5000);
        }
        ctx.payload = (0..rng.gen_range(1..40)).map(|_| rng.gen::<u8>()).collect();
        let w = world_for(&w, &ctx);
        let id = sign_witnesses(&mut ctx, &wits, &w.chain);
        let tx = ctx.to_tx();
        let pred_idx: Vec<usize> = tx_inputs(&tx).iter().enumerate().filter(|(_, i)| i.predicate_gas_used().is_some()).map(|(k, _)| k).collect();
        let wj: Vec<Value> = wits.iter().map(|x| match x {
            WitD::Sig { signer, over, extra: 0 } => json!({"signer": signer, "over": hx(over.map(Bytes32::new).unwrap_or(id))}),
            WitD::Sig { signer, extra, .. } => json!({"signer": "none", "over": "", "len": 64 + extra, "base": signer}),
            WitD::Raw(b) => json!({"signer": "none", "over": "", "len": b.len()}),
        }).collect();
        out.ev(json!({"ev": "Seg", "n": n, "part": part}));
        out.ev(json!({"ev": "Tx", "n": n, "kind": KINDS[kind], "chain": chain.to_string(), "id": hx(id), "keys": keys_json(&names),
                      "cost": costs_json(w.params.gas_costs()), "cap": cap.to_string(),
                      "inputs": gens.iter().map(|g| g.desc.clone()).collect::<Vec<_>>(), "wits": wj, "good": good}));
        macro_rules! host {
            ($r:expr, $wh:expr) => {
                match $r {
                    Ok(v) => v,
                    Err(p) => {
                        out.ev(json!({"ev": "HostPanic", "where": $wh, "msg": p}));
                        continue;
                    }
                }
            };
        }
        // signatures
        let (s_ok, s_err) = host!(sig_tx(&tx, &w.chain), "check_signatures");
        out.ev(json!({"ev": "CheckSig", "via": "tx", "ok": s_ok, "err": s_err}));
        let ck = match host!(basic(&tx, &w), "into_checked_basic") {
            Ok(c) => c,
            Err(e) => {
                out.ev(json!({"ev": "Basic", "ok": false, "err": e}));
                continue;
            }
        };
        let c_ok = host!(sig_checked(&ck, &w.chain), "Checked::check_signatures");
        out.ev(json!({"ev": "CheckSig", "via": "checked", "ok": c_ok}));
        // predicates: sequential in every memory mode, parallel in several completion orders
        for mem in ["fresh", "reused", "dirty"] {
            let r = host!(run_seq(&ck, &w, mem, &mut mems), "check_predicates");
            out.ev(json!({"ev": "CheckPred", "mode": "seq", "mem": mem, "ok": r.ok, "gas": r.gas.to_string(), "err": r.err}));
        }
        let norders = if pred_idx.len() <= 1 { 1 } else { 3 };
        for k in 0..norders {
            let mut order = pred_idx.clone();
            match k {
                0 => {}
                1 => order.reverse(),
                _ => order.shuffle(&mut rng),
            }
            let threads = k == 2;
            let r = host!(run_par(&ck, &w, &slots_of(&order, &pred_idx), threads, k == 1), "check_predicates_async");
            out.ev(json!({"ev": "CheckPred", "mode": "par", "exec": if threads { "threads" } else { "lazy" }, "mem": if k == 1 { "dirtypool" } else { "pool" },
                          "order": order, "ok": r.ok, "gas": r.gas.to_string(), "err": r.err}));
        }
        {
            // the same checks through the Checked<Transaction> wrapper (dispatch on the transaction kind; verdicts only)
            let (a, b) = host!(run_wrapped(&ck, &w, &slots_of(&pred_idx, &pred_idx)), "Checked<Transaction>::check_predicates");
            out.ev(json!({"ev": "CheckPredV", "mode": "seq", "ok": a}));
            out.ev(json!({"ev": "CheckPredV", "mode": "par", "ok": b}));
        }
        for mem in ["fresh", "reused"] {
            let (f_ok, f_err) = host!(full(&tx, &w, mem, &mut mems), "into_checked");
            out.ev(json!({"ev": "IntoChecked", "mem": mem, "ok": f_ok, "err": f_err}));
        }
        let (f_ok, _) = host!(full(&tx, &w, "fresh", &mut mems), "into_checked");
        // single-field mutations of an accepted transaction with a signed input
        let has_signed = tx_inputs(&tx).iter().any(|i| i.witness_index().is_some());
        if part == "mutate" && f_ok && has_signed {
            for m in all_mutations(&ctx) {
                let mut c2 = ctx.clone();
                apply_mut(&mut c2, &m, &w);
                let chain2 = if m.at == "chain" { ChainId::new(chain.wrapping_add(1)) } else { w.chain };
                let t2 = c2.to_tx();
                let id2 = host!(catch(AssertUnwindSafe(|| t2.id(&chain2))), "id");
                let (ok2, err2) = host!(sig_tx(&t2, &chain2), "check_signatures(mutated)");
                let mut d = m.describe();
                let dm = d.as_object_mut().unwrap();
                dm.insert("ev".into(), json!("Mutate"));
                dm.insert("id".into(), json!(hx(id2)));
                dm.insert("sig_ok".into(), json!(ok2));
                dm.insert("err".into(), json!(err2));
                out.ev(d);
            }
        }
        // estimation round trip (transactions whose predicates are satisfiable by construction)
        if good && !pred_idx.is_empty() {
            let mut zeroed = ctx.clone();
            for i in zeroed.inputs.iter_mut() {
                if i.predicate_gas_used().is_some() {
                    i.set_predicate_gas_used(rng.gen_range(0..3));
                }
            }
            sign_witnesses(&mut zeroed, &wits, &w.chain);
            let ztx = zeroed.to_tx();
            out.ev(json!({"ev": "SetGas", "gases": gases_of(&ztx)}));
            let mem = ["fresh", "reused", "dirty"][n % 3];
            let (e_ok, e_err, etx) = host!(run_est_seq(&ztx, &w, mem, &mut mems), "estimate_predicates");
            out.ev(json!({"ev": "Estimate", "mode": "seq", "mem": mem, "ok": e_ok, "err": e_err, "gases": gases_of(&etx)}));
            let mut order = pred_idx.clone();
            order.shuffle(&mut rng);
            let (p_ok, p_err, ptx) = host!(run_est_par(&ztx, &w, &slots_of(&order, &pred_idx), n % 2 == 0, n % 4 < 2), "estimate_predicates_async");
            out.ev(json!({"ev": "Estimate", "mode": "par", "order": order, "ok": p_ok, "err": p_err, "gases": gases_of(&ptx)}));
            if e_ok {
                if let Ok(eck) = host!(basic(&etx, &w), "into_checked_basic(estimated)") {
                    let r = host!(run_seq(&eck, &w, mem, &mut mems), "check_predicates(estimated)");
                    out.ev(json!({"ev": "CheckPred", "mode": "seq", "mem": mem, "after": "estimate", "ok": r.ok, "gas": r.gas.to_string(), "err": r.err}));
                    order.reverse();
                    let r = host!(run_par(&eck, &w, &slots_of(&order, &pred_idx), false, true), "check_predicates_async(estimated)");
                    out.ev(json!({"ev": "CheckPred", "mode": "par", "exec": "lazy", "mem": "dirtypool", "after": "estimate", "order": order, "ok": r.ok, "gas": r.gas.to_string(), "err": r.err}));
                    let (f2, f2e) = host!(full(&etx, &w, "fresh", &mut mems), "into_checked(estimated)");
                    out.ev(json!({"ev": "IntoChecked", "mem": "fresh", "after": "estimate", "ok": f2, "err": f2e}));
                }
            }
        }
    }
    out.finish();
    Ok(())
}

fn main() {
    if std::env::var("VH_PANIC_TRACE").is_err() {
        std::panic::set_hook(Box::new(|_| {}));
    }
    let args: Vec<String> = std::env::args().collect();
    if args.len() < 3 {
        eprintln!("usage: vh_pred record|replay pred ...");
        exit(64);
    }
    let opts = Opts::parse(&args[3..]);
    let r = match (args[1].as_str(), args[2].as_str()) {
        ("record", "pred") => record(&opts),
        ("replay", "pred") => replay(&opts),
        _ => {
            eprintln!("unknown mode/domain");
            exit(64);
        }
    };
    if let Err(e) = r {
        eprintln!("vh_pred error: {e}");
        exit(3);
    }
}
