//! vh_vmcontract — C36 (storage read contract, code / blob loading instructions) and C30 (only input contracts are
//! touched); see ../vmcontract.rs.
//!   vh_vmcontract replay sread <behaviours.ndjson> -o out.ndjson
//!   vh_vmcontract record vmc --part <exec|c30|c30call|pred|all> [--tier T] -o trace.ndjson
#[path = "../util.rs"]
mod util;
#[path = "../vmcore.rs"]
mod vmcore;
#[path = "../recstore.rs"]
mod recstore;
#[path = "../vmcontract.rs"]
mod vmcontract;

use std::process::exit;

fn main() {
    if std::env::var("VH_PANIC_TRACE").is_err() { std::panic::set_hook(Box::new(|_| {})); }
    let args: Vec<String> = std::env::args().collect();
    if args.len() < 3 { eprintln!("usage: vh_vmcontract replay sread <beh> -o out | record vmc --part P -o trace"); exit(64); }
    let opts = util::Opts::parse(&args[3..]);
    let r = match (args[1].as_str(), args[2].as_str()) {
        ("replay", "sread") => vmcontract::replay_sread(&opts),
        ("record", "vmc") => vmcontract::record(&opts),
        _ => { eprintln!("unknown"); exit(64); }
    };
    if let Err(e) = r { eprintln!("vh_vmcontract error: {e}"); exit(3); }
}
