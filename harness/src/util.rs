use rand::{rngs::StdRng, Rng, SeedableRng};
use serde_json::Value;
use std::fs::File;
use std::io::{BufRead, BufReader, BufWriter, Write};

pub type Res<T> = Result<T, Box<dyn std::error::Error>>;

pub struct Opts {
    pub tier: String,
    pub out: Option<String>,
    pub input: Option<String>,
    pub seed: u64,
    pub extra: Vec<String>,
}

impl Opts {
    pub fn parse(a: &[String]) -> Self {
        let mut o = Opts {
            tier: std::env::var("VERIF_TIER").unwrap_or_else(|_| "quick".into()),
            out: None,
            input: None,
            seed: std::env::var("VERIF_SEED").ok().and_then(|s| s.parse().ok()).unwrap_or(1),
            extra: vec![],
        };
        let mut i = 0;
        while i < a.len() {
            match a[i].as_str() {
                "--tier" => { o.tier = a[i + 1].clone(); i += 2; }
                "-o" => { o.out = Some(a[i + 1].clone()); i += 2; }
                "--seed" => { o.seed = a[i + 1].parse().unwrap_or(1); i += 2; }
                s if s.starts_with("--") => {
                    o.extra.push(s.to_string());
                    if i + 1 < a.len() && !a[i + 1].starts_with("-") { o.extra.push(a[i + 1].clone()); i += 1; }
                    i += 1;
                }
                s => {
                    if o.input.is_none() { o.input = Some(s.to_string()); } else { o.extra.push(s.to_string()); }
                    i += 1;
                }
            }
        }
        o
    }
    pub fn thorough(&self) -> bool { self.tier == "thorough" }
    pub fn rng(&self, salt: u64) -> StdRng { StdRng::seed_from_u64(self.seed.wrapping_mul(0x9E3779B97F4A7C15).wrapping_add(salt)) }
    pub fn has(&self, flag: &str) -> bool { self.extra.iter().any(|x| x == flag) }
    pub fn opt(&self, key: &str) -> Option<String> {
        self.extra.iter().position(|x| x == key).and_then(|i| self.extra.get(i + 1).cloned())
    }
}

pub struct Out {
    w: BufWriter<Box<dyn Write>>,
    pub n: u64,
}

impl Out {
    pub fn open(path: &Option<String>) -> Res<Out> {
        let w: Box<dyn Write> = match path {
            Some(p) => Box::new(File::create(p)?),
            None => Box::new(std::io::stdout()),
        };
        Ok(Out { w: BufWriter::with_capacity(1 << 20, w), n: 0 })
    }
    /// write one event; object fields whose value is null are dropped (TLC's JSON reader rejects null)
    pub fn ev(&mut self, v: Value) {
        let v = strip_nulls(v);
        serde_json::to_writer(&mut self.w, &v).expect("write");
        self.w.write_all(b"\n").expect("write");
        self.n += 1;
    }
    pub fn finish(mut self) -> u64 {
        self.w.flush().expect("flush");
        self.n
    }
}

pub fn read_lines(path: &str) -> Res<Vec<Value>> {
    let f = BufReader::new(File::open(path)?);
    let mut v = vec![];
    for ln in f.lines() {
        let ln = ln?;
        let t = ln.trim();
        if t.is_empty() { continue; }
        v.push(serde_json::from_str(t)?);
    }
    Ok(v)
}

pub fn hx(b: impl AsRef<[u8]>) -> String { hex::encode(b.as_ref()) }
pub fn unhx(s: &str) -> Vec<u8> { hex::decode(s).expect("hex") }
pub fn unhx32(s: &str) -> [u8; 32] {
    let v = unhx(s);
    let mut a = [0u8; 32];
    a.copy_from_slice(&v);
    a
}
pub fn jstr(v: &Value, k: &str) -> String { v[k].as_str().unwrap_or_else(|| panic!("field {k} missing in {v}")).to_string() }
pub fn ju64(v: &Value, k: &str) -> u64 {
    match &v[k] {
        Value::Number(n) => n.as_u64().expect("u64"),
        Value::String(s) => s.parse().expect("u64 string"),
        _ => panic!("field {k} missing in {v}"),
    }
}

/// random byte vector whose length is drawn from a boundary-biased distribution
pub fn rbytes(rng: &mut StdRng, max: usize) -> Vec<u8> {
    let len = match rng.gen_range(0..10) {
        0 => 0,
        1 => 1,
        2 => 8.min(max),
        3 => 32.min(max),
        _ => rng.gen_range(0..=max),
    };
    (0..len).map(|_| rng.gen::<u8>()).collect()
}

/// Run f, converting a panic in the code under test into Err(message): a panic is data.
pub fn catch<T>(f: impl FnOnce() -> T + std::panic::UnwindSafe) -> Result<T, String> {
    std::panic::catch_unwind(f).map_err(|e| {
        if let Some(s) = e.downcast_ref::<&str>() { s.to_string() }
        else if let Some(s) = e.downcast_ref::<String>() { s.clone() }
        else { "panic".to_string() }
    })
}

pub fn strip_nulls(v: Value) -> Value {
    match v {
        Value::Object(o) => Value::Object(o.into_iter().filter(|(_, x)| !x.is_null()).map(|(k, x)| (k, strip_nulls(x))).collect()),
        Value::Array(a) => Value::Array(a.into_iter().map(strip_nulls).collect()),
        x => x,
    }
}
