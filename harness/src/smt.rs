//! Sparse Merkle trees (C12, C13, C14): replay of TLC behaviours and trace recording.
use crate::store::VStore;
use crate::util::*;
use fuel_merkle::sparse::{self, in_memory, proof::{ExclusionLeaf, ExclusionLeafData, ExclusionProof, InclusionProof, Proof}, MerkleTreeKey, Primitive};
use rand::{rngs::StdRng, seq::SliceRandom, Rng};
use serde_json::{json, Value};
use std::collections::BTreeMap;

type Table = in_memory::NodesTable;
type StorTree = sparse::MerkleTree<Table, VStore<Table>>;
type B32 = [u8; 32];

fn mk(k: &B32) -> MerkleTreeKey { unsafe { MerkleTreeKey::convert(*k) } }
fn pj(p: &[B32]) -> Value { Value::Array(p.iter().map(|x| Value::String(hx(x))).collect()) }
fn prim_json(h: &B32, p: &Primitive) -> Value { json!({"hash": hx(h), "h": p.0, "p": p.1, "lo": hx(p.2), "hi": hx(p.3)}) }

fn proof_fields(p: &Proof) -> Value {
    match p {
        Proof::Inclusion(i) => json!({"kind": "inclusion", "proof": pj(&i.proof_set)}),
        Proof::Exclusion(e) => match &e.leaf {
            ExclusionLeaf::Placeholder => json!({"kind": "exclusion", "proof": pj(&e.proof_set), "leaf": "placeholder"}),
            ExclusionLeaf::Leaf(d) => json!({"kind": "exclusion", "proof": pj(&e.proof_set), "leaf": "leaf", "lk": hx(d.leaf_key), "lvh": hx(d.leaf_value)}),
        },
    }
}

fn merge(mut a: Value, b: Value) -> Value {
    for (k, v) in b.as_object().unwrap() { a[k] = v.clone(); }
    a
}

/// storage delta since the last call, from the store's write log
fn delta(st: &VStore<Table>) -> (Value, Value) {
    let log = st.take_log();
    let snap = st.map.borrow();
    let mut keys: Vec<B32> = log.into_iter().map(|(_, k)| k).collect();
    keys.sort();
    keys.dedup();
    let mut adds = vec![];
    let mut dels = vec![];
    for k in keys {
        match snap.get(&k) {
            Some(p) => adds.push(prim_json(&k, p)),
            None => dels.push(Value::String(hx(k))),
        }
    }
    (Value::Array(adds), Value::Array(dels))
}

// ------------------------------------------------------------------ spec -> impl
pub fn replay(o: &Opts) -> Res<()> {
    let behs = read_lines(o.input.as_ref().expect("input"))?;
    let mut out = Out::open(&o.out)?;
    let mut steps_total = 0u64;
    let mut queries_total = 0u64;
    for (bi, beh) in behs.iter().enumerate() {
        let st = VStore::<Table>::new();
        let mut stor = StorTree::new(st.share());
        let mut mem = in_memory::MerkleTree::new();
        let mut map: BTreeMap<B32, Vec<u8>> = BTreeMap::new();
        let mut mism = |what: &str, exp: Value, obs: Value, out: &mut Out| {
            out.ev(json!({"mismatch": what, "beh": bi, "expected": exp, "observed": obs, "behaviour": beh["steps"]}));
        };
        for s in beh["steps"].as_array().unwrap() {
            steps_total += 1;
            let k = unhx32(&jstr(s, "k"));
            match s["a"].as_str().unwrap() {
                "Insert" => {
                    let v = unhx(&jstr(s, "v"));
                    if stor.insert(mk(&k), &v).is_err() { mism("insert-error", json!("ok"), json!("err"), &mut out); }
                    mem.update(mk(&k), &v);
                    map.insert(k, v);
                }
                "Delete" => {
                    if stor.delete(mk(&k)).is_err() { mism("delete-error", json!("ok"), json!("err"), &mut out); }
                    mem.delete(mk(&k));
                    map.remove(&k);
                }
                a => panic!("unknown action {a}"),
            }
        }
        let exp_root = jstr(beh, "root");
        let set: Vec<(MerkleTreeKey, Vec<u8>)> = map.iter().map(|(k, v)| (mk(k), v.clone())).collect();
        let roots = [
            ("stor-root", hx(stor.root())),
            ("mem-root", hx(mem.root())),
            ("from_set-root", hx(in_memory::MerkleTree::from_set(set.clone().into_iter()).root())),
            ("root_from_set", hx(in_memory::MerkleTree::root_from_set(set.clone().into_iter()))),
            ("nodes_from_set-root", hx(in_memory::MerkleTree::nodes_from_set(set.clone().into_iter()).0)),
        ];
        for (name, r) in roots { if r != exp_root { mism(name, json!(exp_root), json!(r), &mut out); } }
        // reload from the persisted nodes at the current root: same root, same proofs
        let reloaded = StorTree::load(st.fork(), &stor.root());
        if reloaded.is_err() { mism("reload-failed", json!("ok"), json!("err"), &mut out); }
        for (q, exp) in beh["queries"].as_object().unwrap() {
            queries_total += 1;
            let qk = unhx32(q);
            let mut cands: Vec<(&str, Option<Proof>)> = vec![("stor", stor.generate_proof(&mk(&qk)).ok()), ("mem", mem.generate_proof(&mk(&qk)))];
            if let Ok(t) = &reloaded { cands.push(("reloaded", t.generate_proof(&mk(&qk)).ok())); }
            for (name, p) in cands {
                match p {
                    None => mism(&format!("{name}-proof-error"), exp.clone(), json!(null), &mut out),
                    Some(p) => {
                        let got = proof_fields(&p);
                        if &got != exp { mism(&format!("{name}-proof"), exp.clone(), got, &mut out); }
                        let root = stor.root();
                        let ok = match &p {
                            Proof::Inclusion(i) => map.get(&qk).map(|v| i.verify(&root, &mk(&qk), v)).unwrap_or(false),
                            Proof::Exclusion(e) => e.verify(&root, &mk(&qk)),
                        };
                        if !ok { mism(&format!("{name}-own-proof-rejected"), json!(true), json!(false), &mut out); }
                    }
                }
            }
        }
    }
    out.ev(json!({"summary": {"behaviours": behs.len(), "steps": steps_total, "queries": queries_total}}));
    out.finish();
    Ok(())
}

// ------------------------------------------------------------------ impl -> spec
fn key_pool(rng: &mut StdRng) -> Vec<B32> {
    let mut base = [0u8; 32];
    rng.fill(&mut base);
    let flip = |k: &B32, bit: usize| { let mut x = *k; x[bit / 8] ^= 0x80 >> (bit % 8); x };
    let mut pool = vec![base, flip(&base, 255), flip(&base, 254), flip(&base, 248), flip(&base, 247), flip(&base, 128),
                        flip(&base, 8), flip(&base, 7), flip(&base, 1), flip(&base, 0), [0u8; 32], [0xff; 32]];
    let mut z = [0u8; 32]; z[31] = 1; pool.push(z);
    let mut f = [0xff; 32]; f[31] = 0xfe; pool.push(f);
    for _ in 0..4 { let mut r = [0u8; 32]; rng.fill(&mut r); pool.push(r); }
    // a second cluster sharing 255 / 200 bits with a random key
    let r = pool[pool.len() - 1];
    pool.push(flip(&r, 255));
    pool.push(flip(&r, 200));
    pool
}

fn rvalue(rng: &mut StdRng) -> Vec<u8> {
    match rng.gen_range(0..5) { 0 => vec![], 1 => vec![rng.gen::<u8>()], 2 => vec![0u8; 32], _ => rbytes(rng, 40) }
}

struct Live { id: u64, tree: StorTree, st: VStore<Table> }

pub fn record(o: &Opts) -> Res<()> {
    let mut out = Out::open(&o.out)?;
    let mut rng = o.rng(2);
    let thorough = o.thorough();
    let part = o.opt("--part").unwrap_or_else(|| "all".into());
    let want = |p: &str| part == "all" || part.split(',').any(|x| x == p);
    let segs = if thorough { 60 } else { 14 };
    let oplen = if thorough { 160 } else { 60 };
    for seg in 0..segs {
        out.ev(json!({"ev": "Seg", "n": seg}));
        let pool = key_pool(&mut rng);
        let mut next_id = 0u64;
        let mut fresh = || { next_id += 1; next_id };
        let st0 = VStore::<Table>::new();
        let t0 = fresh();
        out.ev(json!({"ev": "New", "t": t0}));
        let mut live = vec![Live { id: t0, tree: StorTree::new(st0.share()), st: st0 }];
        let tm = fresh();
        out.ev(json!({"ev": "New", "t": tm}));
        let mut mem = in_memory::MerkleTree::new();
        let mut mem_alive = true; // follows tree t0 only
        let mut map: BTreeMap<B32, Vec<u8>> = BTreeMap::new(); // harness bookkeeping for from_set only
        let n_ops = rng.gen_range(oplen / 3..oplen);
        for _ in 0..n_ops {
            let mut k = *pool.choose(&mut rng).unwrap();
            let roll = rng.gen_range(0..100);
            if roll >= 73 && rng.gen_bool(0.5) && !map.is_empty() {
                // bias proof queries towards present keys
                let ks: Vec<&B32> = map.keys().collect();
                k = **ks.choose(&mut rng).unwrap();
            }
            if roll < 40 && want("ops") {
                let v = rvalue(&mut rng);
                for lv in live.iter_mut() {
                    let r = catch(std::panic::AssertUnwindSafe(|| lv.tree.insert(mk(&k), &v).is_ok()));
                    match r {
                        Ok(ok) => { let (a, d) = delta(&lv.st); out.ev(json!({"ev": "Insert", "t": lv.id, "k": hx(k), "v": hx(&v), "ok": ok, "root": hx(lv.tree.root()), "adds": a, "dels": d})); }
                        Err(m) => out.ev(json!({"ev": "HostPanic", "where": "sparse::insert", "msg": m})),
                    }
                }
                if mem_alive { mem.update(mk(&k), &v); out.ev(json!({"ev": "Insert", "t": tm, "k": hx(k), "v": hx(&v), "ok": true, "root": hx(mem.root()), "adds": [], "dels": [], "opaque": true})); }
                map.insert(k, v);
            } else if roll < 55 && want("ops") {
                // deletes are biased towards the special keys (all-zero = the placeholder's own "leaf key", all-one and
                // their last-bit neighbours), present or ABSENT: an absent delete must leave root and node store alone
                if rng.gen_bool(0.3) { k = pool[10 + rng.gen_range(0..4)]; }
                for lv in live.iter_mut() {
                    let r = catch(std::panic::AssertUnwindSafe(|| lv.tree.delete(mk(&k)).is_ok()));
                    match r {
                        Ok(ok) => { let (a, d) = delta(&lv.st); out.ev(json!({"ev": "Delete", "t": lv.id, "k": hx(k), "ok": ok, "root": hx(lv.tree.root()), "adds": a, "dels": d})); }
                        Err(m) => out.ev(json!({"ev": "HostPanic", "where": "sparse::delete", "msg": m})),
                    }
                }
                if mem_alive { mem.delete(mk(&k)); out.ev(json!({"ev": "Delete", "t": tm, "k": hx(k), "ok": true, "root": hx(mem.root()), "adds": [], "dels": [], "opaque": true})); }
                map.remove(&k);
            } else if roll < 67 && want("load") && live.len() < 4 {
                // restart from persisted nodes
                let src = rng.gen_range(0..live.len());
                let forked = live[src].st.fork();
                let cur_root = live[src].tree.root();
                let mode = rng.gen_range(0..6);
                let mut removed: Vec<B32> = vec![];
                let mut root = cur_root;
                match mode {
                    0 => { root = [0u8; 32]; }                                  // load at the empty root
                    1 => { removed.push(cur_root); }                            // root node missing
                    2 => {                                                     // a deeper node missing
                        let keys: Vec<B32> = forked.map.borrow().keys().cloned().filter(|x| *x != cur_root).collect();
                        if let Some(x) = keys.choose(&mut rng) { removed.push(*x); }
                    }
                    _ => {}
                }
                for r in &removed { forked.map.borrow_mut().remove(r); }
                let t2 = fresh();
                let res = catch(std::panic::AssertUnwindSafe(|| StorTree::load(forked.share(), &root)));
                match res {
                    Ok(Ok(tree)) => {
                        out.ev(json!({"ev": "Load", "t": t2, "from": live[src].id, "root": hx(root), "ok": true, "removed": pj(&removed)}));
                        out.ev(json!({"ev": "Root", "t": t2, "root": hx(tree.root())}));
                        if mode == 0 { // an emptied tree diverges from the shared op stream: keep it only for a proof
                            let p = tree.generate_proof(&mk(&k));
                            if let Ok(p) = p { out.ev(merge(json!({"ev": "GenProof", "t": t2, "k": hx(k), "ok": true}), proof_fields(&p))); }
                        } else {
                            live.push(Live { id: t2, tree, st: forked });
                        }
                    }
                    Ok(Err(_)) => out.ev(json!({"ev": "Load", "t": t2, "from": live[src].id, "root": hx(root), "ok": false, "removed": pj(&removed)})),
                    Err(m) => out.ev(json!({"ev": "HostPanic", "where": "sparse::load", "msg": m})),
                }
            } else if roll < 73 && want("set") {
                // the set as a WRITE HISTORY: every other time it starts with 25-60 stale writes to keys of the map (other values) -
                // the last write of a key wins, so the tree is that of the map; sets beyond 20 entries with repeated keys included
                let kv: Vec<(B32, Vec<u8>)> = {
                    let mut v: Vec<_> = map.iter().map(|(k, v)| (*k, v.clone())).collect();
                    v.shuffle(&mut rng);
                    if !v.is_empty() && rng.gen_bool(0.5) {
                        let n = rng.gen_range(25..60);
                        let mut stale: Vec<(B32, Vec<u8>)> = (0..n).map(|_| { let (k, _) = v.choose(&mut rng).unwrap().clone(); (k, rvalue(&mut rng)) }).collect();
                        stale.extend(v);
                        stale
                    } else { v }
                };
                let kvj = Value::Array(kv.iter().map(|(k, v)| json!([hx(k), hx(v)])).collect());
                let set = || kv.iter().map(|(k, v)| (mk(k), v.clone()));
                out.ev(json!({"ev": "RootFromSet", "kv": kvj, "root": hx(in_memory::MerkleTree::root_from_set(set()))}));
                // from_set over an observable store
                let st = VStore::<Table>::new();
                let tree = StorTree::from_set(st.share(), kv.iter().map(|(k, v)| (*k, v.clone()))).expect("infallible");
                let (adds, _) = delta(&st);
                let t2 = fresh();
                out.ev(json!({"ev": "FromSet", "t": t2, "kv": kvj, "root": hx(tree.root()), "adds": adds, "via": "from_set"}));
                // nodes_from_set -> a store built from the returned nodes -> load
                let (r, nodes) = in_memory::MerkleTree::nodes_from_set(set());
                let st2 = VStore::<Table>::new();
                for (h, p) in &nodes { st2.map.borrow_mut().insert(*h, *p); }
                let adds2 = Value::Array(nodes.iter().map(|(h, p)| prim_json(h, p)).collect());
                let t3 = fresh();
                match StorTree::load(st2.share(), &r) {
                    Ok(tree3) => {
                        out.ev(json!({"ev": "FromSet", "t": t3, "kv": kvj, "root": hx(tree3.root()), "adds": adds2, "via": "nodes_from_set"}));
                        if live.len() < 4 && live.iter().all(|l| l.id != 0) {
                            // continue the shared op stream on the rebuilt tree only if it holds the same map as the stream's map
                            live.push(Live { id: t3, tree: tree3, st: st2 });
                        }
                    }
                    Err(_) => out.ev(json!({"ev": "FromSet", "t": t3, "kv": kvj, "root": hx(r), "adds": adds2, "via": "nodes_from_set", "load_failed": true, "bad": true})),
                }
                let _ = (tree, t2);
            } else if want("proof") {
                // proofs from every live tree, then the verifier on the proof and on mutations of it
                for li in 0..live.len() {
                    let lv = &live[li];
                    let r = catch(std::panic::AssertUnwindSafe(|| lv.tree.generate_proof(&mk(&k))));
                    match r {
                        Ok(Ok(p)) => {
                            out.ev(merge(json!({"ev": "GenProof", "t": lv.id, "k": hx(k), "ok": true}), proof_fields(&p)));
                            if li == 0 && want("verify") { verify_events(&mut out, &mut rng, &lv.tree.root(), &k, &p, &pool, map.get(&k)); }
                        }
                        Ok(Err(_)) => out.ev(json!({"ev": "GenProof", "t": lv.id, "k": hx(k), "ok": false})),
                        Err(m) => out.ev(json!({"ev": "HostPanic", "where": "sparse::generate_proof", "msg": m})),
                    }
                }
                if mem_alive {
                    if let Some(p) = mem.generate_proof(&mk(&k)) { out.ev(merge(json!({"ev": "GenProof", "t": tm, "k": hx(k), "ok": true}), proof_fields(&p))); }
                    else { out.ev(json!({"ev": "GenProof", "t": tm, "k": hx(k), "ok": false})); }
                }
            }
            let _ = &mut mem_alive;
        }
    }
    let n = out.finish();
    eprintln!("smt: {n} events");
    Ok(())
}

fn verify_events(out: &mut Out, rng: &mut StdRng, root: &B32, k: &B32, p: &Proof, pool: &[B32], stored: Option<&Vec<u8>>) {
    let other_key = *pool.iter().find(|x| *x != k).unwrap();
    let incl = |out: &mut Out, root: &B32, k: &B32, v: &[u8], ps: &Vec<B32>, tag: &str| {
        let pr = InclusionProof { proof_set: ps.clone() };
        match catch(std::panic::AssertUnwindSafe(|| pr.verify(root, &mk(k), v))) {
            Ok(verdict) => out.ev(json!({"ev": "VerifyIncl", "root": hx(root), "k": hx(k), "v": hx(v), "proof": pj(ps), "verdict": verdict, "tag": tag})),
            Err(m) => out.ev(json!({"ev": "HostPanic", "where": "InclusionProof::verify", "tag": tag, "msg": m})),
        }
    };
    let excl = |out: &mut Out, root: &B32, k: &B32, leaf: &ExclusionLeaf, ps: &Vec<B32>, tag: &str| {
        let pr = ExclusionProof { proof_set: ps.clone(), leaf: leaf.clone() };
        let (lf, lk, lvh) = match leaf { ExclusionLeaf::Placeholder => ("placeholder", String::new(), String::new()), ExclusionLeaf::Leaf(d) => ("leaf", hx(d.leaf_key), hx(d.leaf_value)) };
        match catch(std::panic::AssertUnwindSafe(|| pr.verify(root, &mk(k)))) {
            Ok(verdict) => out.ev(json!({"ev": "VerifyExcl", "root": hx(root), "k": hx(k), "leaf": lf, "lk": lk, "lvh": lvh, "proof": pj(ps), "verdict": verdict, "tag": tag})),
            Err(m) => out.ev(json!({"ev": "HostPanic", "where": "ExclusionProof::verify", "tag": tag, "msg": m})),
        }
    };
    let ps = p.proof_set().clone();
    let mut muts: Vec<(Vec<B32>, &str)> = vec![(ps.clone(), "asis")];
    if !ps.is_empty() {
        let mut q = ps.clone(); q.pop(); muts.push((q, "drop-last"));
        let mut q = ps.clone(); q.remove(0); muts.push((q, "drop-first"));
        let mut q = ps.clone(); let i = rng.gen_range(0..q.len()); q[i][rng.gen_range(0..32)] ^= 1 << rng.gen_range(0..8); muts.push((q, "flip-bit"));
        let mut q = ps.clone(); q.reverse(); muts.push((q, "reverse"));
        let mut q = ps.clone(); let i = rng.gen_range(0..q.len()); q[i] = [0u8; 32]; muts.push((q, "zero-side"));
    }
    let mut q = ps.clone(); q.push([0u8; 32]); muts.push((q, "append-zero"));
    let mut q = ps.clone(); q.insert(0, [0u8; 32]); muts.push((q, "prepend-zero"));
    muts.push((vec![[0u8; 32]; 257], "len-257"));
    let mut q = ps.clone(); while q.len() < 257 { q.insert(0, [0u8; 32]); } muts.push((q, "padded-257"));
    let mut r2 = *root; r2[0] ^= 0x80;
    match p {
        Proof::Inclusion(_) => {
            let v = stored.cloned().unwrap_or_default();
            for (m, tag) in &muts {
                incl(out, root, k, &v, m, tag);
                excl(out, root, k, &ExclusionLeaf::Placeholder, m, &format!("x-incl-as-excl-{tag}"));
            }
            let mut v2 = v.clone(); v2.push(0);
            incl(out, root, k, &v2, &ps, "other-value");
            incl(out, root, k, &[], &ps, "empty-value");
            incl(out, root, &other_key, &v, &ps, "other-key");
            incl(out, &r2, k, &v, &ps, "other-root");
            let vh: B32 = { use std::convert::TryInto; fuel_merkle::common::sum(&v).try_into().unwrap() };
            excl(out, root, k, &ExclusionLeaf::Leaf(ExclusionLeafData { leaf_key: *k, leaf_value: vh }), &ps, "leaf-claims-key");
        }
        Proof::Exclusion(e) => {
            for (m, tag) in &muts {
                excl(out, root, k, &e.leaf, m, tag);
                incl(out, root, k, &[], m, &format!("x-excl-as-incl-{tag}"));
            }
            excl(out, root, &other_key, &e.leaf, &ps, "other-key");
            excl(out, &r2, k, &e.leaf, &ps, "other-root");
            match &e.leaf {
                ExclusionLeaf::Leaf(d) => {
                    excl(out, root, k, &ExclusionLeaf::Placeholder, &ps, "leaf->placeholder");
                    excl(out, root, &d.leaf_key, &e.leaf, &ps, "query-the-leaf-key");
                    excl(out, root, k, &ExclusionLeaf::Leaf(ExclusionLeafData { leaf_key: *k, leaf_value: d.leaf_value }), &ps, "leaf-claims-key");
                    let mut lv = d.leaf_value; lv[0] ^= 1;
                    excl(out, root, k, &ExclusionLeaf::Leaf(ExclusionLeafData { leaf_key: d.leaf_key, leaf_value: lv }), &ps, "leaf-value-flip");
                }
                ExclusionLeaf::Placeholder => {
                    excl(out, root, k, &ExclusionLeaf::Leaf(ExclusionLeafData { leaf_key: other_key, leaf_value: [0u8; 32] }), &ps, "placeholder->leaf");
                }
            }
        }
    }
}
