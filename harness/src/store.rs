//! A storage backend for the Merkle trees whose contents the harness can dump, clone and
//! damage (fuel-merkle's own StorageMap keeps its map private).
use fuel_storage::{Mappable, StorageInspect, StorageMutate};
use std::borrow::Cow;
use std::cell::RefCell;
use std::collections::BTreeMap;
use std::rc::Rc;

pub struct VStore<T: Mappable> {
    pub map: Rc<RefCell<BTreeMap<T::OwnedKey, T::OwnedValue>>>,
    pub log: Rc<RefCell<Vec<(char, T::OwnedKey)>>>,
}

impl<T: Mappable> VStore<T>
where
    T::OwnedKey: Ord + Clone,
    T::OwnedValue: Clone,
{
    pub fn new() -> Self { VStore { map: Rc::new(RefCell::new(BTreeMap::new())), log: Rc::new(RefCell::new(vec![])) } }
    /// another handle on the same contents
    pub fn share(&self) -> Self { VStore { map: self.map.clone(), log: self.log.clone() } }
    /// an independent copy of the contents (a "restart from persisted nodes")
    pub fn fork(&self) -> Self { VStore { map: Rc::new(RefCell::new(self.map.borrow().clone())), log: Rc::new(RefCell::new(vec![])) } }
    pub fn snapshot(&self) -> BTreeMap<T::OwnedKey, T::OwnedValue> { self.map.borrow().clone() }
    pub fn take_log(&self) -> Vec<(char, T::OwnedKey)> { std::mem::take(&mut *self.log.borrow_mut()) }
}

impl<T: Mappable> StorageInspect<T> for VStore<T>
where
    T::Key: Ord,
    T::OwnedKey: Ord + Clone,
    T::OwnedValue: Clone,
{
    type Error = core::convert::Infallible;
    fn get(&self, key: &T::Key) -> Result<Option<Cow<'_, T::OwnedValue>>, Self::Error> {
        Ok(self.map.borrow().get(key).cloned().map(Cow::Owned))
    }
    fn contains_key(&self, key: &T::Key) -> Result<bool, Self::Error> {
        Ok(self.map.borrow().contains_key(key))
    }
}

impl<T: Mappable> StorageMutate<T> for VStore<T>
where
    T::Key: Ord,
    T::OwnedKey: Ord + Clone,
    T::OwnedValue: Clone,
{
    fn replace(&mut self, key: &T::Key, value: &T::Value) -> Result<Option<T::OwnedValue>, Self::Error> {
        let k: T::OwnedKey = key.to_owned().into();
        self.log.borrow_mut().push(('w', k.clone()));
        Ok(self.map.borrow_mut().insert(k, value.to_owned().into()))
    }
    fn take(&mut self, key: &T::Key) -> Result<Option<T::OwnedValue>, Self::Error> {
        let k: T::OwnedKey = key.to_owned().into();
        self.log.borrow_mut().push(('d', k));
        Ok(self.map.borrow_mut().remove(key))
    }
}
