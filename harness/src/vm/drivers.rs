//! Input drivers for the VM recorder. They choose WHAT to run (seeded, boundary-biased); they contain no
//! expectations about results.
#![allow(dead_code)]
use crate::util::*;
use crate::vmcore::*;
use fuel_asm::{op, Instruction, RegId};
use fuel_tx::{ConsensusParameters, GasCosts, Script, TransactionBuilder, TxParameters};
use fuel_vm::{
    checked_transaction::Checked,
    interpreter::MemoryInstance,
    prelude::*,
    storage::MemoryStorage,
};
use rand::{rngs::StdRng, seq::SliceRandom, Rng};
use serde_json::json;

pub fn small_params(max_inputs: u16) -> ConsensusParameters {
    let mut p = ConsensusParameters::standard();
    let tx = TxParameters::DEFAULT.with_max_inputs(max_inputs);
    p.set_tx_params(tx);
    p
}

pub fn world(max_inputs: u16, gas_price: u64) -> World {
    World { params: small_params(max_inputs), gas_price, storage: MemoryStorage::default(), block_height: 0 }
}

pub fn new_vm(w: &World) -> Vm<MemoryStorage> {
    Vm::<MemoryStorage>::with_storage(MemoryInstance::new(), w.storage.clone(), w.iparams())
}

pub fn simple_script(w: &World, rng: &mut StdRng, code: Vec<u8>, data: Vec<u8>, gas_limit: u64) -> Result<Checked<Script>, String> {
    let tx = TransactionBuilder::script(code, data)
        .script_gas_limit(gas_limit)
        .max_fee_limit(0)
        .with_params(w.params.clone())
        .add_fee_input()
        .finalize();
    let _ = rng;
    checked_script(tx, w)
}

pub const BOUNDARY: [u64; 30] = [
    0, 1, 2, 3, 7, 8, 63, 64, 65, 255, 256, 257, 65535, 65536, 65537,
    0xffff_ffff, 0x1_0000_0000, 0x1_0000_0001, (1 << 63) - 1, 1 << 63, (1 << 63) + 1, u64::MAX - 1, u64::MAX,
    9, 27, 1000, 1 << 32, 4_294_967_297, 3_037_000_499, 3_037_000_500,
];

fn enc_rrr(op: u8, a: u8, b: u8, c: u8) -> u32 { ((op as u32) << 24) | ((a as u32) << 18) | ((b as u32) << 12) | ((c as u32) << 6) }
fn enc_rrrr(op: u8, a: u8, b: u8, c: u8, d: u8) -> u32 { enc_rrr(op, a, b, c) | d as u32 }
fn enc_rri(op: u8, a: u8, b: u8, imm: u16) -> u32 { ((op as u32) << 24) | ((a as u32) << 18) | ((b as u32) << 12) | (imm as u32 & 0xfff) }
fn enc_ri18(op: u8, a: u8, imm: u32) -> u32 { ((op as u32) << 24) | ((a as u32) << 18) | (imm & 0x3ffff) }
fn enc_i24(op: u8, imm: u32) -> u32 { ((op as u32) << 24) | (imm & 0xffffff) }

fn pick(rng: &mut StdRng, thorough: bool) -> u64 {
    match rng.gen_range(0..10) {
        0..=6 => *BOUNDARY.choose(rng).unwrap(),
        7 => rng.gen::<u64>(),
        8 => rng.gen::<u32>() as u64,
        _ => if thorough { 1u64 << rng.gen_range(0..64) } else { rng.gen_range(0..100) },
    }
}

pub fn record(o: &Opts) -> Res<()> {
    let mut out = Out::open(&o.out)?;
    let part = o.opt("--part").unwrap_or_else(|| "alu".into());
    let want = |p: &str| part == "all" || part.split(',').any(|x| x == p);
    let mut run = 0u64;
    if want("alu") { alu(o, &mut out, &mut run); }
    if want("flow") { flow(o, &mut out, &mut run); }
    if want("mem") { mem(o, &mut out, &mut run); }
    if want("prog") { prog(o, &mut out, &mut run); }
    if want("fuzz") { fuzz(o, &mut out, &mut run); }
    let n = out.finish();
    eprintln!("vm: {n} events");
    Ok(())
}

/// start an "exec mode" session: a VM initialised with a trivial script; registers are then poked
fn exec_session(out: &mut Out, run: u64, w: &World, rng: &mut StdRng, gas_limit: u64) -> Option<Vm<MemoryStorage>> {
    let checked = simple_script(w, rng, vec![op::ret(RegId::ONE)].into_iter().collect(), vec![], gas_limit).ok()?;
    let ready = checked.into_ready(w.gas_price, w.params.gas_costs(), w.params.fee_params(), Some(w.block_height.into())).ok()?;
    let mut vm = new_vm(w);
    vm.init_script(ready).ok()?;
    let s0 = snap(&vm);
    out.ev(json!({"ev": "Seg"}));
    out.ev(json!({"ev": "Init", "run": run, "kind": "exec", "env": env_json(&vm, w), "regs": regs_json(&s0.regs),
                  "stack": hx(&s0.stack), "hp": s0.hp, "early": false}));
    Some(vm)
}

const R: u8 = 0x10;

/// C21: every register-level ALU instruction x boundary operand pairs x flags x destinations
fn alu(o: &Opts, out: &mut Out, run: &mut u64) {
    let thorough = o.thorough();
    let mut rng = o.rng(21);
    let w = world(2, 0);
    // (opcode byte, shape) — shapes: 3 = rA rB rC; 2 = rA rB; i = rA rB imm12; j = rA imm18; 4 = rA rB rC rD; n = NIOP
    let ops: Vec<(u8, char)> = vec![
        (0x10, '3'), (0x11, '3'), (0x12, '3'), (0x13, '3'), (0x14, '3'), (0x15, '3'), (0x16, '3'), (0x17, '3'), (0x18, '3'), (0x19, '3'),
        (0x1a, '2'), (0x1b, '3'), (0x1c, '2'), (0x1d, '3'), (0x1e, '3'), (0x1f, '3'), (0x20, '3'), (0x21, '3'), (0x22, '4'), (0x23, 'n'),
        (0x47, '0'), (0x50, 'i'), (0x51, 'i'), (0x52, 'i'), (0x53, 'i'), (0x54, 'i'), (0x55, 'i'), (0x56, 'i'), (0x57, 'i'), (0x58, 'i'),
        (0x59, 'i'), (0x5a, 'i'), (0x72, 'j'),
    ];
    let per_op = if thorough { 1500 } else { 220 };
    *run += 1;
    let mut vm = match exec_session(out, *run, &w, &mut rng, 1_000_000) { Some(v) => v, None => return };
    let pc0 = vm.registers()[RegId::PC.to_u8() as usize];
    let mut i = 0u64;
    let imm_b: [u16; 12] = [0, 1, 2, 3, 7, 8, 63, 64, 65, 2047, 4094, 4095];
    for (opc, shape) in ops {
        for k in 0..per_op {
            let flag = if k % 5 == 0 { rng.gen_range(0..4) } else { [0u64, 0, 1, 2, 3][rng.gen_range(0..5)] };
            let (b, c, d) = (pick(&mut rng, thorough), pick(&mut rng, thorough), pick(&mut rng, thorough));
            // destination: mostly a writable register, sometimes $zero/$one/other reserved, sometimes aliasing a source
            let dst: u8 = match rng.gen_range(0..20) { 0 => rng.gen_range(0..16), 1 => 0x11, 2 => 0x12, 3 => 63, _ => R };
            let gas = match rng.gen_range(0..12) { 0 => rng.gen_range(0..4), _ => 1_000_000 };
            let sets = [(0x11usize, b), (0x12, c), (0x13, d), (RegId::FLAG.to_u8() as usize, flag), (RegId::PC.to_u8() as usize, pc0),
                        (RegId::CGAS.to_u8() as usize, gas), (RegId::GGAS.to_u8() as usize, gas + rng.gen_range(0..3)),
                        (R as usize, rng.gen::<u64>()), (RegId::OF.to_u8() as usize, rng.gen_range(0..3)), (RegId::ERR.to_u8() as usize, rng.gen_range(0..2))];
            let raw = match shape {
                '3' => enc_rrr(opc, dst, 0x11, 0x12),
                '2' => enc_rrr(opc, dst, 0x11, 0) & 0xfffff000,
                '4' => enc_rrrr(opc, dst, 0x11, 0x12, 0x13),
                'n' => enc_rrrr(opc, dst, 0x11, 0x12, rng.gen_range(0..64)),
                'i' => enc_rri(opc, dst, 0x11, if rng.gen_bool(0.7) { *imm_b.choose(&mut rng).unwrap() } else { rng.gen_range(0..4096) }),
                'j' => enc_ri18(opc, dst, if rng.gen_bool(0.5) { [0u32, 1, 0x3ffff, 0x20000, 0x1ffff][rng.gen_range(0..5)] } else { rng.gen_range(0..0x40000) }),
                _ => enc_i24(opc, 0),
            };
            exec_one(out, *run, i, &mut vm, &sets, raw);
            i += 1;
            if i % 1500 == 0 { *run += 1; vm = match exec_session(out, *run, &w, &mut rng, 1_000_000) { Some(v) => v, None => return }; }
        }
    }
    // NIOP exhaustively over 8-bit operands (thorough) / a slice of it (quick)
    let step = if thorough { 1 } else { 37 };
    let mut x = 0u32;
    while x < 65536 {
        let (b, c) = ((x >> 8) as u64, (x & 0xff) as u64);
        for opsel in 0..6u8 {
            let flag = [0u64, 2][(x as usize + opsel as usize) % 2];
            let sets = [(0x11usize, b | (rng.gen::<u64>() << 8)), (0x12, c | (rng.gen::<u64>() << 8)), (RegId::FLAG.to_u8() as usize, flag),
                        (RegId::PC.to_u8() as usize, pc0), (RegId::CGAS.to_u8() as usize, 1_000_000), (RegId::GGAS.to_u8() as usize, 1_000_000)];
            // imm6: op in bits 0..3 (ADD MUL EXP SLL XNOR + SUB), width in bits 4..5 — built through fuel-asm so the harness does not encode semantics
            let raw = enc_rrrr(0x23, R, 0x11, 0x12, niop_imm(opsel, 0));
            exec_one(out, *run, i, &mut vm, &sets, raw);
            i += 1;
            if i % 1500 == 0 { *run += 1; vm = match exec_session(out, *run, &w, &mut rng, 1_000_000) { Some(v) => v, None => return }; }
        }
        x += step;
    }
}

fn niop_imm(opsel: u8, width: u8) -> u8 {
    use fuel_asm::narrowint::{MathArgs, MathOp, OpWidth};
    let op = [MathOp::ADD, MathOp::MUL, MathOp::EXP, MathOp::SLL, MathOp::XNOR, MathOp::SUB][opsel as usize % 6];
    let width = [OpWidth::U8, OpWidth::U16, OpWidth::U32][width as usize % 3];
    MathArgs { op, width }.to_imm().to_u8()
}

const RPC: usize = 3;
const RSSP: usize = 4;
const RSP: usize = 5;
const RHP: usize = 7;
const RGGAS: usize = 9;
const RCGAS: usize = 10;
const RIS: usize = 12;
const RFLAG: usize = 15;

/// C25: every jump instruction x boundary register / immediate values x $pc / $is placements (exec mode)
fn flow(o: &Opts, out: &mut Out, run: &mut u64) {
    let thorough = o.thorough();
    let mut rng = o.rng(25);
    let w = world(2, 0);
    let jb: Vec<u64> = vec![0, 1, 2, 3, 4, 5, (1 << 24) - 1, 1 << 24, MEM / 4 - 1, MEM / 4, MEM / 4 + 1, MEM - 4, MEM - 1, MEM, MEM + 1, MEM / 8,
                            1 << 32, 1 << 62, (1 << 62) - 1, 1 << 63, u64::MAX / 4, u64::MAX / 4 + 1, u64::MAX - 1, u64::MAX];
    let ops: Vec<(u8, char)> = vec![(0x90, 'k'), (0x5b, 'i'), (0x73, 'j'), (0x4a, '1'), (0x4b, '3'), (0x74, 'j'), (0x75, 'j'), (0x76, 'i'), (0x77, 'i'),
                                    (0x78, '6'), (0x79, '6'), (0x99, 'i')];
    let per_op = if thorough { 1500 } else { 200 };
    *run += 1;
    let mut vm = match exec_session(out, *run, &w, &mut rng, 1_000_000) { Some(v) => v, None => return };
    let pc0 = vm.registers()[RPC];
    let mut i = 0u64;
    for (opc, shape) in ops {
        for _ in 0..per_op {
            let mut val = |rng: &mut StdRng| if rng.gen_bool(0.7) { *jb.choose(rng).unwrap() } else if rng.gen_bool(0.5) { rng.gen_range(0..64) } else { rng.gen::<u64>() };
            let (a, b, c) = (val(&mut rng), if rng.gen_bool(0.3) { 0 } else { val(&mut rng) }, val(&mut rng));
            let b = if rng.gen_bool(0.25) { a } else { b }; // make the equality condition hit
            let (is, pc) = match rng.gen_range(0..8) {
                0 => (0, 0), 1 => (pc0, pc0 + 4 * rng.gen_range(0..8)), 2 => (MEM - 8, MEM - 4), 3 => (0, MEM - 4), 4 => (pc0, pc0), 5 => (4, 0),
                6 => (rng.gen_range(0..MEM), rng.gen_range(0..MEM) & !3), _ => (pc0, pc0 + 400),
            };
            let dst: u8 = match rng.gen_range(0..12) { 0 => 0, 1 => rng.gen_range(1..16), _ => R };
            let gas = if rng.gen_range(0..15) == 0 { 0 } else { 1_000_000 };
            let sets = [(0x11usize, a), (0x12, b), (0x13, c), (RIS, is), (RPC, pc), (RCGAS, gas), (RGGAS, gas), (R as usize, 7)];
            let imm12: u16 = if rng.gen_bool(0.6) { [0u16, 1, 2, 4095, 4094, 2048][rng.gen_range(0..6)] } else { rng.gen_range(0..4096) };
            let imm18: u32 = if rng.gen_bool(0.6) { [0u32, 1, 2, 0x3ffff, 0x3fffe, 0x20000][rng.gen_range(0..6)] } else { rng.gen_range(0..0x40000) };
            let imm24: u32 = if rng.gen_bool(0.6) { [0u32, 1, 2, 0xffffff, 0xfffffe, 0x800000, (MEM / 4) as u32, (MEM / 4 - 1) as u32][rng.gen_range(0..8)] } else { rng.gen_range(0..0x1000000) };
            let raw = match shape {
                'k' => enc_i24(opc, imm24),
                'i' => if opc == 0x99 { enc_rri(opc, dst, 0x12, imm12) } else { enc_rri(opc, 0x11, 0x12, imm12) },
                'j' => enc_ri18(opc, 0x11, imm18),
                '1' => enc_rrr(opc, 0x11, 0, 0) & 0xfffc0000,
                '3' => enc_rrr(opc, 0x11, 0x12, 0x13),
                _ => enc_rrrr(opc, 0x11, 0x12, 0x13, rng.gen_range(0..64)),
            };
            exec_one(out, *run, i, &mut vm, &sets, raw);
            i += 1;
            if i % 1500 == 0 { *run += 1; vm = match exec_session(out, *run, &w, &mut rng, 1_000_000) { Some(v) => v, None => return }; }
        }
    }
}

fn addr_near(rng: &mut StdRng, regs: &[u64], slen: u64) -> u64 {
    let (ssp, sp, hp) = (regs[RSSP], regs[RSP], regs[RHP]);
    let base = match rng.gen_range(0..16) {
        0 => ssp, 1 => sp, 2 => hp, 3 => MEM, 4 => slen, 5 => 0, 6 => u64::MAX, 7 => u64::MAX - 7,
        8 => if sp > ssp { rng.gen_range(ssp..sp) } else { ssp },
        9 => if hp < MEM { rng.gen_range(hp..MEM) } else { MEM },
        10 => regs[RIS], 11 => 32, 12 => (sp + hp) / 2, 13 => 1 << 32,
        _ => rng.gen_range(0..MEM),
    };
    let delta: i64 = match rng.gen_range(0..10) { 0 => -1, 1 => 1, 2 => -8, 3 => 8, 4 => -9, 5 => -32, 6 => -7, _ => 0 };
    if delta < 0 { base.wrapping_sub((-delta) as u64) } else { base.wrapping_add(delta as u64) }
}

fn len_pick(rng: &mut StdRng) -> u64 {
    match rng.gen_range(0..14) { 0 => 0, 1 => 1, 2 => 7, 3 => 8, 4 => 9, 5 => 32, 6 => 33, 7 => 64, 8 => 100, 9 => MEM, 10 => u64::MAX, 11 => MEM + 1, _ => rng.gen_range(0..300) }
}

/// C23 / C24: memory instructions with addresses aimed at the region boundaries (exec mode; the VM state evolves)
fn mem(o: &Opts, out: &mut Out, run: &mut u64) {
    let thorough = o.thorough();
    let mut rng = o.rng(24);
    let w = world(2, 0);
    let sessions = if thorough { 60 } else { 10 };
    let per = if thorough { 400 } else { 250 };
    for _ in 0..sessions {
        *run += 1;
        let mut vm = match exec_session(out, *run, &w, &mut rng, 10_000_000) { Some(v) => v, None => return };
        let pc0 = vm.registers()[RPC];
        for i in 0..per {
            let regs: Vec<u64> = vm.registers().to_vec();
            let slen = vm.memory().stack_raw().len() as u64;
            let a = addr_near(&mut rng, &regs, slen);
            let b = addr_near(&mut rng, &regs, slen);
            let n = len_pick(&mut rng);
            let gas = if rng.gen_range(0..25) == 0 { rng.gen_range(0..3) } else { 10_000_000 };
            let mut sets = vec![(0x11usize, a), (0x12, b), (0x13, n), (0x14, rng.gen::<u64>()), (RPC, pc0), (RCGAS, gas), (RGGAS, gas)];
            let dst: u8 = if rng.gen_range(0..15) == 0 { rng.gen_range(0..16) } else { R };
            let imm12: u16 = if rng.gen_bool(0.5) { 0 } else if rng.gen_bool(0.5) { rng.gen_range(0..8) } else { [4095u16, 1, 2048][rng.gen_range(0..3)] };
            let raw = match rng.gen_range(0..30) {
                0 => enc_rri(0x5c, dst, 0x11, imm12),              // LB
                1 => enc_rri(0x62, dst, 0x11, imm12),              // LQW
                2 => enc_rri(0x63, dst, 0x11, imm12),              // LHW
                3 | 4 => enc_rri(0x5d, dst, 0x11, imm12),          // LW
                5 => enc_rri(0x5e, 0x11, 0x14, imm12),             // SB
                6 => enc_rri(0x64, 0x11, 0x14, imm12),             // SQW
                7 => enc_rri(0x65, 0x11, 0x14, imm12),             // SHW
                8 | 9 | 10 => enc_rri(0x5f, 0x11, 0x14, imm12),    // SW
                11 => enc_rrr(0x27, 0x11, 0x13, 0) & 0xfffff000,   // MCL
                12 => enc_ri18(0x70, 0x11, if rng.gen_bool(0.5) { rng.gen_range(0..64) } else { 0x3ffff }), // MCLI
                13 | 14 => enc_rrr(0x28, 0x11, 0x12, 0x13),        // MCP
                15 => enc_rri(0x60, 0x11, 0x12, imm12),            // MCPI
                16 => enc_rrrr(0x29, dst, 0x11, 0x12, 0x13),       // MEQ
                17 | 18 => { sets.push((0x13, [0u64, 1, 8, 100, 5000, 70_000, MEM, u64::MAX][rng.gen_range(0..8)])); enc_rrr(0x26, 0x13, 0, 0) & 0xfffc0000 } // ALOC
                19 | 20 => enc_i24(0x91, [0u32, 8, 64, 256, 1000, 40_000][rng.gen_range(0..6)]),  // CFEI
                21 => { sets.push((0x13, [0u64, 8, 100, MEM, u64::MAX][rng.gen_range(0..5)])); enc_rrr(0x93, 0x13, 0, 0) & 0xfffc0000 } // CFE
                22 => enc_i24(0x92, [0u32, 8, 64, 256, 1000, 0xffffff][rng.gen_range(0..6)]),       // CFSI
                23 => { sets.push((0x13, [0u64, 8, 100, MEM, u64::MAX][rng.gen_range(0..5)])); enc_rrr(0x94, 0x13, 0, 0) & 0xfffc0000 } // CFS
                24 => enc_i24(0x95, rng.gen_range(0..0x1000000) & if rng.gen_bool(0.5) { 0xf } else { 0xffffff }),  // PSHL
                25 => enc_i24(0x96, rng.gen_range(0..0x1000000) & if rng.gen_bool(0.5) { 0xf00 } else { 0xffffff }), // PSHH
                26 => enc_i24(0x97, rng.gen_range(0..0x1000000) & if rng.gen_bool(0.5) { 0x3 } else { 0xffffff }),  // POPL
                27 => enc_i24(0x98, rng.gen_range(0..0x1000000) & if rng.gen_bool(0.5) { 0x3 } else { 0xffffff }),  // POPH
                _ => enc_rri(0x5f, 0x11, 0x14, 0),
            };
            // aim a store/clear at an owned location half of the time so successful writes are common
            exec_one(out, *run, i as u64, &mut vm, &sets, raw);
        }
    }
}

fn asm(v: Vec<Instruction>) -> Vec<u8> { v.into_iter().collect() }

/// a random structured program: prologue constants, ALU, stack frame + loads/stores, heap, loops, subroutine, terminator
fn gen_program(rng: &mut StdRng) -> Vec<u8> {
    let mut p: Vec<Instruction> = vec![];
    let r = |k: u8| RegId::new(0x10 + k);
    for k in 0..4u8 { p.push(op::movi(r(k), rng.gen_range(0..0x40000))); }
    if rng.gen_bool(0.5) { p.push(op::movi(r(9), rng.gen_range(0..4))); p.push(op::flag(r(9))); }
    p.push(op::cfei(rng.gen_range(1..6) * 16));
    if rng.gen_bool(0.7) { p.push(op::movi(r(4), [8u32, 64, 1000, 70000][rng.gen_range(0..4)])); p.push(op::aloc(r(4))); }
    let n_body = rng.gen_range(3..40);
    let mut loop_open: Option<usize> = None;
    for _ in 0..n_body {
        let (a, b, c) = (r(rng.gen_range(0..8)), r(rng.gen_range(0..8)), r(rng.gen_range(0..8)));
        let ins = match rng.gen_range(0..34) {
            0 => op::add(a, b, c), 1 => op::sub(a, b, c), 2 => op::mul(a, b, c), 3 => op::div(a, b, c), 4 => op::exp(a, b, c),
            5 => op::mlog(a, b, c), 6 => op::mroo(a, b, c), 7 => op::mod_(a, b, c), 8 => op::sll(a, b, c), 9 => op::srl(a, b, c),
            10 => op::xor(a, b, c), 11 => op::not(a, b), 12 => op::addi(a, b, rng.gen_range(0..4096)), 13 => op::subi(a, b, rng.gen_range(0..4096)),
            14 => op::muli(a, b, rng.gen_range(0..4096)), 15 => op::eq(a, b, c), 16 => op::gt(a, b, c), 17 => op::mldv(a, b, c, r(rng.gen_range(0..8))),
            18 => op::sw(RegId::SSP, b, rng.gen_range(0..10)), 19 => op::lw(a, RegId::SSP, rng.gen_range(0..10)),
            20 => op::sb(RegId::HP, b, rng.gen_range(0..8)), 21 => op::lb(a, RegId::HP, rng.gen_range(0..8)),
            22 => op::sw(b, c, rng.gen_range(0..4)),          // wild store
            23 => op::lw(a, b, rng.gen_range(0..4)),          // wild load
            24 => op::mcpi(RegId::HP, RegId::SSP, rng.gen_range(0..16)),
            25 => op::mcli(RegId::SSP, rng.gen_range(0..40)),
            26 => op::pshl(rng.gen_range(0..0x100)), 27 => op::popl(rng.gen_range(0..0x100)),
            28 => op::log(a, b, c, RegId::ZERO),
            29 => op::movi(a, rng.gen_range(0..0x40000)),
            30 => op::move_(a, if rng.gen_bool(0.5) { RegId::SP } else { RegId::HP }),
            31 => op::cfsi(rng.gen_range(0..3) * 8), 32 => op::noop(),
            _ => op::andi(a, b, rng.gen_range(0..4096)),
        };
        p.push(ins);
        if loop_open.is_none() && rng.gen_bool(0.08) {
            p.push(op::movi(r(10), rng.gen_range(1..6)));
            loop_open = Some(p.len());
        } else if let Some(start) = loop_open {
            if rng.gen_bool(0.2) {
                p.push(op::subi(r(10), r(10), 1));
                let back = (p.len() - start) as u16;
                p.push(op::jnzb(r(10), RegId::ZERO, back.saturating_sub(1)));
                loop_open = None;
            }
        }
    }
    if rng.gen_bool(0.3) {
        // subroutine call via JAL: jump over the body, call it, continue
        let l = p.len() as u32;
        p.push(op::jmpf(RegId::ZERO, 2));                 // skip the 3-instruction subroutine
        p.push(op::addi(r(1), r(1), 1));                  // subroutine body
        p.push(op::addi(r(2), r(2), 2));
        p.push(op::jal(RegId::ZERO, r(11), 0));           // return through r11
        p.push(op::addi(r(12), RegId::IS, 0));
        p.push(op::addi(r(12), r(12), ((l + 1) * 4) as u16 & 0xfff));
        p.push(op::jal(r(11), r(12), 0));
    }
    match rng.gen_range(0..10) {
        0 => p.push(op::rvrt(r(0))),
        1 => { p.push(op::movi(r(5), rng.gen_range(0..40))); p.push(op::retd(RegId::SSP, r(5))); }
        2 => {}                                            // run off the end
        3 => p.push(op::jmp(r(3))),                        // wild jump
        _ => p.push(op::ret(r(rng.gen_range(0..4)))),
    }
    asm(p)
}

/// generated programs through the real run loop (run mode): C24 C25 C26 C28 C29 ...
fn prog(o: &Opts, out: &mut Out, run: &mut u64) {
    let thorough = o.thorough();
    let mut rng = o.rng(29);
    let n = if thorough { 1200 } else { 120 };
    for k in 0..n {
        let w = world(if k % 7 == 0 { 8 } else { 2 }, 0);
        let code = gen_program(&mut rng);
        let data = rbytes(&mut rng, 24);
        let gas_limit = match rng.gen_range(0..6) { 0 => rng.gen_range(0..40), 1 => rng.gen_range(40..400), _ => 3_000 };
        let checked = match simple_script(&w, &mut rng, code, data, gas_limit) { Ok(c) => c, Err(_) => continue };
        *run += 1;
        out.ev(json!({"ev": "Seg"}));
        let mut vm = new_vm(&w);
        record_run(out, *run, &mut vm, &w, checked, json!({"driver": "prog"}), 20_000);
    }
}

/// byte-level random scripts (C29)
fn fuzz(o: &Opts, out: &mut Out, run: &mut u64) {
    let thorough = o.thorough();
    let mut rng = o.rng(290);
    let n = if thorough { 3000 } else { 250 };
    let opcodes: Vec<u8> = (0u16..256).map(|x| x as u8).filter(|b| fuel_asm::Opcode::try_from(*b).is_ok()).collect();
    for k in 0..n {
        let w = world(2, 0);
        let len = rng.gen_range(1..40);
        let mut code = vec![];
        for _ in 0..len {
            let word: u32 = match rng.gen_range(0..4) {
                0 => rng.gen(),
                1 => ((*opcodes.choose(&mut rng).unwrap() as u32) << 24) | rng.gen_range(0..0x1000000),
                _ => { // valid-looking: registers in the low range so memory operands are plausible
                    let opc = *opcodes.choose(&mut rng).unwrap() as u32;
                    let regs = [0u32, 1, 4, 5, 7, 12, 16, 17, 18, 19];
                    let pick = |rng: &mut StdRng| regs[rng.gen_range(0..regs.len())];
                    (opc << 24) | (pick(&mut rng) << 18) | (pick(&mut rng) << 12) | (pick(&mut rng) << 6) | if rng.gen_bool(0.5) { pick(&mut rng) } else { rng.gen_range(0..64) }
                }
            };
            code.extend_from_slice(&word.to_be_bytes());
        }
        let data = rbytes(&mut rng, 64);
        let gas_limit = if k % 5 == 0 { rng.gen_range(0..200) } else { 2_000 };
        let checked = match simple_script(&w, &mut rng, code, data, gas_limit) { Ok(c) => c, Err(_) => continue };
        *run += 1;
        out.ev(json!({"ev": "Seg"}));
        let mut vm = new_vm(&w);
        record_run(out, *run, &mut vm, &w, checked, json!({"driver": "fuzz"}), 20_000);
    }
}
