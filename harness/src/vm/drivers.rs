//! Input drivers for the VM recorder. They choose WHAT to run (seeded, boundary-biased); they contain no
//! expectations about results.
#![allow(dead_code)]
use crate::util::*;
use crate::vmcore::*;
use fuel_asm::{op, Instruction, RegId};
use fuel_tx::{ConsensusParameters, GasCosts, Script, TransactionBuilder, TxParameters};
use fuel_vm::{
    checked_transaction::Checked,
    state::ProgramState,
    interpreter::{InterpreterParams, MemoryInstance},
    prelude::*,
    storage::MemoryStorage,
};
use rand::{rngs::StdRng, seq::SliceRandom, Rng};
use serde_json::json;

pub fn small_params(max_inputs: u16) -> ConsensusParameters {
    let mut p = ConsensusParameters::standard();
    let tx = TxParameters::DEFAULT.with_max_inputs(max_inputs);
    p.set_tx_params(tx);
    p
}

pub fn world(max_inputs: u16, gas_price: u64) -> World {
    World { params: small_params(max_inputs), gas_price, storage: MemoryStorage::default(), block_height: 0 }
}

pub fn new_vm(w: &World) -> Vm<MemoryStorage> {
    Vm::<MemoryStorage>::with_storage(MemoryInstance::new(), w.storage.clone(), w.iparams())
}

pub fn simple_script(w: &World, rng: &mut StdRng, code: Vec<u8>, data: Vec<u8>, gas_limit: u64) -> Result<Checked<Script>, String> {
    let tx = TransactionBuilder::script(code, data)
        .script_gas_limit(gas_limit)
        .max_fee_limit(0)
        .with_params(w.params.clone())
        .add_fee_input()
        .finalize();
    let _ = rng;
    checked_script(tx, w)
}

pub const BOUNDARY: [u64; 30] = [
    0, 1, 2, 3, 7, 8, 63, 64, 65, 255, 256, 257, 65535, 65536, 65537,
    0xffff_ffff, 0x1_0000_0000, 0x1_0000_0001, (1 << 63) - 1, 1 << 63, (1 << 63) + 1, u64::MAX - 1, u64::MAX,
    9, 27, 1000, 1 << 32, 4_294_967_297, 3_037_000_499, 3_037_000_500,
];

fn enc_rrr(op: u8, a: u8, b: u8, c: u8) -> u32 { ((op as u32) << 24) | ((a as u32) << 18) | ((b as u32) << 12) | ((c as u32) << 6) }
fn enc_rrrr(op: u8, a: u8, b: u8, c: u8, d: u8) -> u32 { enc_rrr(op, a, b, c) | d as u32 }
fn enc_rri(op: u8, a: u8, b: u8, imm: u16) -> u32 { ((op as u32) << 24) | ((a as u32) << 18) | ((b as u32) << 12) | (imm as u32 & 0xfff) }
fn enc_ri18(op: u8, a: u8, imm: u32) -> u32 { ((op as u32) << 24) | ((a as u32) << 18) | (imm & 0x3ffff) }
fn enc_i24(op: u8, imm: u32) -> u32 { ((op as u32) << 24) | (imm & 0xffffff) }

fn pick(rng: &mut StdRng, thorough: bool) -> u64 {
    match rng.gen_range(0..10) {
        0..=6 => *BOUNDARY.choose(rng).unwrap(),
        7 => rng.gen::<u64>(),
        8 => rng.gen::<u32>() as u64,
        _ => if thorough { 1u64 << rng.gen_range(0..64) } else { rng.gen_range(0..100) },
    }
}

pub fn record(o: &Opts) -> Res<()> {
    let mut out = Out::open(&o.out)?;
    let part = o.opt("--part").unwrap_or_else(|| "alu".into());
    let want = |p: &str| part == "all" || part.split(',').any(|x| x == p);
    let mut run = 0u64;
    if want("alu") { alu(o, &mut out, &mut run); }
    if want("flow") { flow(o, &mut out, &mut run); }
    if want("mem") { mem(o, &mut out, &mut run); }
    if want("prog") { prog(o, &mut out, &mut run); }
    if want("fuzz") { fuzz(o, &mut out, &mut run); }
    if want("gas") { gas(o, &mut out, &mut run); }
    if want("calls") { calls(o, &mut out, &mut run); }
    if want("assets") { assets(o, &mut out, &mut run); }
    if want("client") { client(o, &mut out, &mut run); }
    if want("reuse") { reuse(o, &mut out, &mut run); }
    if want("debug") { debug(o, &mut out, &mut run); }
    let n = out.finish();
    eprintln!("vm: {n} events");
    Ok(())
}

/// start an "exec mode" session: a VM initialised with a trivial script; registers are then poked
fn exec_session(out: &mut Out, run: u64, w: &World, rng: &mut StdRng, gas_limit: u64) -> Option<Vm<MemoryStorage>> {
    let checked = simple_script(w, rng, vec![op::ret(RegId::ONE)].into_iter().collect(), vec![], gas_limit).ok()?;
    let ready = checked.into_ready(w.gas_price, w.params.gas_costs(), w.params.fee_params(), Some(w.block_height.into())).ok()?;
    let mut vm = new_vm(w);
    vm.init_script(ready).ok()?;
    let s0 = snap(&vm);
    out.ev(json!({"ev": "Seg"}));
    out.ev(json!({"ev": "Init", "run": run, "kind": "exec", "env": env_json(&vm, w), "regs": regs_json(&s0.regs),
                  "stack": hx(&s0.stack), "hp": s0.hp, "early": false}));
    Some(vm)
}

const R: u8 = 0x10;

/// operand pairs aimed at the decision boundaries of one opcode (perfect powers +-1 for roots / logs, products and powers
/// around 2^64, shift counts around 64, zero divisors); None = use the generic boundary picker
fn special_pair(rng: &mut StdRng, opc: u8) -> Option<(u64, u64)> {
    let pm = |rng: &mut StdRng, x: u64| match rng.gen_range(0..3) { 0 => x.wrapping_sub(1), 1 => x, _ => x.wrapping_add(1) };
    match opc {
        0x18 => { // MROO: k^n - 1, k^n, k^n + 1 with root n
            let n = rng.gen_range(2..=8u32);
            let kmax = (u64::MAX as f64).powf(1.0 / n as f64) as u64;
            let k = if rng.gen_bool(0.5) { rng.gen_range(2..=60u64.min(kmax)) } else { rng.gen_range(2..=kmax.max(2)) };
            let p = k.checked_pow(n).unwrap_or(u64::MAX);
            Some((pm(rng, p), if rng.gen_range(0..8) == 0 { rng.gen_range(0..70) } else { n as u64 }))
        }
        0x17 => { // MLOG: b^e - 1, b^e, b^e + 1 with base b
            let b = [2u64, 3, 7, 10, 16, 255, 256, 65536, 1 << 32][rng.gen_range(0..9)];
            let emax = (64.0 / (b as f64).log2()) as u32;
            let e = rng.gen_range(0..=emax);
            let p = b.checked_pow(e).unwrap_or(u64::MAX);
            Some((pm(rng, p), b))
        }
        0x14 | 0x53 => { // EXP / EXPI: b^c around 2^64
            let c = if opc == 0x53 { rng.gen_range(0..70u64) } else { [0u64, 1, 2, 3, 4, 8, 16, 31, 32, 33, 63, 64, 65, 1 << 32, u64::MAX][rng.gen_range(0..15)] };
            let b = if c >= 1 && c <= 64 { let r = (u64::MAX as f64).powf(1.0 / c as f64) as u64; pm(rng, r) } else { rng.gen_range(0..4) };
            Some((b, c))
        }
        0x1b | 0x55 => { // MUL / MULI: products around 2^64
            let a = [1u64 << 32, (1 << 32) - 1, (1 << 32) + 1, u64::MAX / 3, u64::MAX / 2 + 1, 1 << 63, 3_037_000_500, 4_294_967_295][rng.gen_range(0..8)];
            Some((a, if opc == 0x55 { rng.gen_range(0..4096) } else { pm(rng, u64::MAX / a.max(1)) }))
        }
        0x10 | 0x50 => { let d = rng.gen_range(0..4096u64); Some((pm(rng, u64::MAX - d), rng.gen_range(0..4097))) }   // ADD around the wrap
        0x20 | 0x59 => { let a = rng.gen_range(0..5000u64); Some((a, pm(rng, a))) }                    // SUB around zero
        0x1e | 0x1f | 0x57 | 0x58 => Some((rng.gen::<u64>() | 1 | (1 << 63), [0u64, 1, 62, 63, 64, 65, 127, 128, 1 << 32, u64::MAX][rng.gen_range(0..10)])),
        0x12 | 0x19 | 0x52 | 0x54 => Some((pick(rng, false), [0u64, 1, 2, u64::MAX][rng.gen_range(0..4)])),
        _ => None,
    }
}

/// C21: every register-level ALU instruction x boundary operand pairs x flags x destinations
fn alu(o: &Opts, out: &mut Out, run: &mut u64) {
    let thorough = o.thorough();
    let mut rng = o.rng(21);
    let w = world(2, 0);
    // (opcode byte, shape) — shapes: 3 = rA rB rC; 2 = rA rB; i = rA rB imm12; j = rA imm18; 4 = rA rB rC rD; n = NIOP
    let ops: Vec<(u8, char)> = vec![
        (0x10, '3'), (0x11, '3'), (0x12, '3'), (0x13, '3'), (0x14, '3'), (0x15, '3'), (0x16, '3'), (0x17, '3'), (0x18, '3'), (0x19, '3'),
        (0x1a, '2'), (0x1b, '3'), (0x1c, '2'), (0x1d, '3'), (0x1e, '3'), (0x1f, '3'), (0x20, '3'), (0x21, '3'), (0x22, '4'), (0x23, 'n'),
        (0x47, '0'), (0x50, 'i'), (0x51, 'i'), (0x52, 'i'), (0x53, 'i'), (0x54, 'i'), (0x55, 'i'), (0x56, 'i'), (0x57, 'i'), (0x58, 'i'),
        (0x59, 'i'), (0x5a, 'i'), (0x72, 'j'),
    ];
    let per_op = if thorough { 1500 } else { 130 };
    *run += 1;
    let mut vm = match exec_session(out, *run, &w, &mut rng, 1_000_000) { Some(v) => v, None => return };
    let pc0 = vm.registers()[RegId::PC.to_u8() as usize];
    let mut i = 0u64;
    let imm_b: [u16; 12] = [0, 1, 2, 3, 7, 8, 63, 64, 65, 2047, 4094, 4095];
    for (opc, shape) in ops {
        for k in 0..per_op {
            let flag = if k % 5 == 0 { rng.gen_range(0..4) } else { [0u64, 0, 1, 2, 3][rng.gen_range(0..5)] };
            let (mut b, mut c, d) = (pick(&mut rng, thorough), pick(&mut rng, thorough), pick(&mut rng, thorough));
            if rng.gen_bool(0.45) { if let Some((x, y)) = special_pair(&mut rng, opc) { b = x; c = y; } }
            // destination: mostly a writable register, sometimes $zero/$one/other reserved, sometimes aliasing a source
            let dst: u8 = match rng.gen_range(0..20) { 0 => rng.gen_range(0..16), 1 => 0x11, 2 => 0x12, 3 => 63, _ => R };
            let gas = match rng.gen_range(0..12) { 0 => rng.gen_range(0..4), _ => 1_000_000 };
            let sets = [(0x11usize, b), (0x12, c), (0x13, d), (RegId::FLAG.to_u8() as usize, flag), (RegId::PC.to_u8() as usize, pc0),
                        (RegId::CGAS.to_u8() as usize, gas), (RegId::GGAS.to_u8() as usize, gas + rng.gen_range(0..3)),
                        (R as usize, rng.gen::<u64>()), (RegId::OF.to_u8() as usize, rng.gen_range(0..3)), (RegId::ERR.to_u8() as usize, rng.gen_range(0..2))];
            let raw = match shape {
                '3' => enc_rrr(opc, dst, 0x11, 0x12),
                '2' => enc_rrr(opc, dst, 0x11, 0) & 0xfffff000,
                '4' => enc_rrrr(opc, dst, 0x11, 0x12, 0x13),
                'n' => enc_rrrr(opc, dst, 0x11, 0x12, rng.gen_range(0..64)),
                'i' => enc_rri(opc, dst, 0x11, if c < 4096 && rng.gen_bool(0.5) { c as u16 } else if rng.gen_bool(0.7) { *imm_b.choose(&mut rng).unwrap() } else { rng.gen_range(0..4096) }),
                'j' => enc_ri18(opc, dst, if rng.gen_bool(0.5) { [0u32, 1, 0x3ffff, 0x20000, 0x1ffff][rng.gen_range(0..5)] } else { rng.gen_range(0..0x40000) }),
                _ => enc_i24(opc, 0),
            };
            exec_one(out, *run, i, &mut vm, &sets, raw);
            i += 1;
            if i % 1500 == 0 { *run += 1; vm = match exec_session(out, *run, &w, &mut rng, 1_000_000) { Some(v) => v, None => return }; }
        }
    }
    // NIOP exhaustively over 8-bit operands (thorough) / a slice of it (quick)
    let step = if thorough { 1 } else { 61 };
    let mut x = 0u32;
    while x < 65536 {
        let (b, c) = ((x >> 8) as u64, (x & 0xff) as u64);
        for opsel in 0..6u8 {
            let flag = [0u64, 2][(x as usize + opsel as usize) % 2];
            let sets = [(0x11usize, b | (rng.gen::<u64>() << 8)), (0x12, c | (rng.gen::<u64>() << 8)), (RegId::FLAG.to_u8() as usize, flag),
                        (RegId::PC.to_u8() as usize, pc0), (RegId::CGAS.to_u8() as usize, 1_000_000), (RegId::GGAS.to_u8() as usize, 1_000_000)];
            // imm6: op in bits 0..3 (ADD MUL EXP SLL XNOR + SUB), width in bits 4..5 — built through fuel-asm so the harness does not encode semantics
            let raw = enc_rrrr(0x23, R, 0x11, 0x12, niop_imm(opsel, 0));
            exec_one(out, *run, i, &mut vm, &sets, raw);
            i += 1;
            if i % 1500 == 0 { *run += 1; vm = match exec_session(out, *run, &w, &mut rng, 1_000_000) { Some(v) => v, None => return }; }
        }
        x += step;
    }
}

fn niop_imm(opsel: u8, width: u8) -> u8 {
    use fuel_asm::narrowint::{MathArgs, MathOp, OpWidth};
    let op = [MathOp::ADD, MathOp::MUL, MathOp::EXP, MathOp::SLL, MathOp::XNOR, MathOp::SUB][opsel as usize % 6];
    let width = [OpWidth::U8, OpWidth::U16, OpWidth::U32][width as usize % 3];
    MathArgs { op, width }.to_imm().to_u8()
}

const RPC: usize = 3;
const RSSP: usize = 4;
const RSP: usize = 5;
const RHP: usize = 7;
const RGGAS: usize = 9;
const RCGAS: usize = 10;
const RIS: usize = 12;
const RFLAG: usize = 15;

/// C25: every jump instruction x boundary register / immediate values x $pc / $is placements (exec mode)
fn flow(o: &Opts, out: &mut Out, run: &mut u64) {
    let thorough = o.thorough();
    let mut rng = o.rng(25);
    let w = world(2, 0);
    let jb: Vec<u64> = vec![0, 1, 2, 3, 4, 5, (1 << 24) - 1, 1 << 24, MEM / 4 - 1, MEM / 4, MEM / 4 + 1, MEM - 4, MEM - 1, MEM, MEM + 1, MEM / 8,
                            1 << 32, 1 << 62, (1 << 62) - 1, 1 << 63, u64::MAX / 4, u64::MAX / 4 + 1, u64::MAX - 1, u64::MAX];
    let ops: Vec<(u8, char)> = vec![(0x90, 'k'), (0x5b, 'i'), (0x73, 'j'), (0x4a, '1'), (0x4b, '3'), (0x74, 'j'), (0x75, 'j'), (0x76, 'i'), (0x77, 'i'),
                                    (0x78, '6'), (0x79, '6'), (0x99, 'i')];
    let per_op = if thorough { 1500 } else { 200 };
    *run += 1;
    let mut vm = match exec_session(out, *run, &w, &mut rng, 1_000_000) { Some(v) => v, None => return };
    let pc0 = vm.registers()[RPC];
    let mut i = 0u64;
    for (opc, shape) in ops {
        for _ in 0..per_op {
            let mut val = |rng: &mut StdRng| if rng.gen_bool(0.7) { *jb.choose(rng).unwrap() } else if rng.gen_bool(0.5) { rng.gen_range(0..64) } else { rng.gen::<u64>() };
            let (a, b, c) = (val(&mut rng), if rng.gen_bool(0.3) { 0 } else { val(&mut rng) }, val(&mut rng));
            let b = if rng.gen_bool(0.25) { a } else { b }; // make the equality condition hit
            let (is, pc) = match rng.gen_range(0..8) {
                0 => (0, 0), 1 => (pc0, pc0 + 4 * rng.gen_range(0..8)), 2 => (MEM - 8, MEM - 4), 3 => (0, MEM - 4), 4 => (pc0, pc0), 5 => (4, 0),
                6 => (rng.gen_range(0..MEM), rng.gen_range(0..MEM) & !3), _ => (pc0, pc0 + 400),
            };
            let dst: u8 = match rng.gen_range(0..12) { 0 => 0, 1 => rng.gen_range(1..16), _ => R };
            let gas = if rng.gen_range(0..15) == 0 { 0 } else { 1_000_000 };
            let sets = [(0x11usize, a), (0x12, b), (0x13, c), (RIS, is), (RPC, pc), (RCGAS, gas), (RGGAS, gas), (R as usize, 7)];
            let imm12: u16 = if rng.gen_bool(0.6) { [0u16, 1, 2, 4095, 4094, 2048][rng.gen_range(0..6)] } else { rng.gen_range(0..4096) };
            let imm18: u32 = if rng.gen_bool(0.6) { [0u32, 1, 2, 0x3ffff, 0x3fffe, 0x20000][rng.gen_range(0..6)] } else { rng.gen_range(0..0x40000) };
            let imm24: u32 = if rng.gen_bool(0.6) { [0u32, 1, 2, 0xffffff, 0xfffffe, 0x800000, (MEM / 4) as u32, (MEM / 4 - 1) as u32][rng.gen_range(0..8)] } else { rng.gen_range(0..0x1000000) };
            let raw = match shape {
                'k' => enc_i24(opc, imm24),
                'i' => if opc == 0x99 { if rng.gen_bool(0.3) { enc_rri(opc, 0x12, 0x12, imm12) } else { enc_rri(opc, dst, 0x12, imm12) } } else { enc_rri(opc, 0x11, 0x12, imm12) },
                'j' => enc_ri18(opc, 0x11, imm18),
                '1' => enc_rrr(opc, 0x11, 0, 0) & 0xfffc0000,
                '3' => enc_rrr(opc, 0x11, 0x12, 0x13),
                _ => enc_rrrr(opc, 0x11, 0x12, 0x13, rng.gen_range(0..64)),
            };
            exec_one(out, *run, i, &mut vm, &sets, raw);
            i += 1;
            if i % 1500 == 0 { *run += 1; vm = match exec_session(out, *run, &w, &mut rng, 1_000_000) { Some(v) => v, None => return }; }
        }
    }
}

fn addr_near(rng: &mut StdRng, regs: &[u64], slen: u64) -> u64 {
    let (ssp, sp, hp) = (regs[RSSP], regs[RSP], regs[RHP]);
    let base = match rng.gen_range(0..16) {
        0 => ssp, 1 => sp, 2 => hp, 3 => MEM, 4 => slen, 5 => 0, 6 => u64::MAX, 7 => u64::MAX - 7,
        8 => if sp > ssp { rng.gen_range(ssp..sp) } else { ssp },
        9 => if hp < MEM { rng.gen_range(hp..MEM) } else { MEM },
        10 => regs[RIS], 11 => 32, 12 => (sp + hp) / 2, 13 => 1 << 32,
        _ => rng.gen_range(0..MEM),
    };
    let delta: i64 = match rng.gen_range(0..10) { 0 => -1, 1 => 1, 2 => -8, 3 => 8, 4 => -9, 5 => -32, 6 => -7, _ => 0 };
    if delta < 0 { base.wrapping_sub((-delta) as u64) } else { base.wrapping_add(delta as u64) }
}

fn len_pick(rng: &mut StdRng) -> u64 {
    match rng.gen_range(0..14) { 0 => 0, 1 => 1, 2 => 7, 3 => 8, 4 => 9, 5 => 32, 6 => 33, 7 => 64, 8 => 100, 9 => MEM, 10 => u64::MAX, 11 => MEM + 1, _ => rng.gen_range(0..300) }
}

/// C23 / C24: memory instructions with addresses aimed at the region boundaries (exec mode; the VM state evolves)
fn mem(o: &Opts, out: &mut Out, run: &mut u64) {
    let thorough = o.thorough();
    let mut rng = o.rng(24);
    let w = world(2, 0);
    let sessions = if thorough { 60 } else { 10 };
    let per = if thorough { 400 } else { 250 };
    for _ in 0..sessions {
        *run += 1;
        let mut vm = match exec_session(out, *run, &w, &mut rng, 10_000_000) { Some(v) => v, None => return };
        let pc0 = vm.registers()[RPC];
        for i in 0..per {
            let regs: Vec<u64> = vm.registers().to_vec();
            let slen = vm.memory().stack_raw().len() as u64;
            let a = addr_near(&mut rng, &regs, slen);
            let b = addr_near(&mut rng, &regs, slen);
            let n = len_pick(&mut rng);
            let gas = if rng.gen_range(0..25) == 0 { rng.gen_range(0..3) } else { 10_000_000 };
            let mut sets = vec![(0x11usize, a), (0x12, b), (0x13, n), (0x14, rng.gen::<u64>()), (RPC, pc0), (RCGAS, gas), (RGGAS, gas)];
            let dst: u8 = if rng.gen_range(0..15) == 0 { rng.gen_range(0..16) } else { R };
            let imm12: u16 = if rng.gen_bool(0.5) { 0 } else if rng.gen_bool(0.5) { rng.gen_range(0..8) } else { [4095u16, 1, 2048][rng.gen_range(0..3)] };
            let raw = match rng.gen_range(0..30) {
                0 => enc_rri(0x5c, dst, 0x11, imm12),              // LB
                1 => enc_rri(0x62, dst, 0x11, imm12),              // LQW
                2 => enc_rri(0x63, dst, 0x11, imm12),              // LHW
                3 | 4 => enc_rri(0x5d, dst, 0x11, imm12),          // LW
                5 => enc_rri(0x5e, 0x11, 0x14, imm12),             // SB
                6 => enc_rri(0x64, 0x11, 0x14, imm12),             // SQW
                7 => enc_rri(0x65, 0x11, 0x14, imm12),             // SHW
                8 | 9 | 10 => enc_rri(0x5f, 0x11, 0x14, imm12),    // SW
                11 => enc_rrr(0x27, 0x11, 0x13, 0) & 0xfffff000,   // MCL
                12 => enc_ri18(0x70, 0x11, if rng.gen_bool(0.5) { rng.gen_range(0..64) } else { 0x3ffff }), // MCLI
                13 | 14 => enc_rrr(0x28, 0x11, 0x12, 0x13),        // MCP
                15 => enc_rri(0x60, 0x11, 0x12, imm12),            // MCPI
                16 => enc_rrrr(0x29, dst, 0x11, 0x12, 0x13),       // MEQ
                17 | 18 => { sets.push((0x13, [0u64, 1, 8, 100, 5000, 70_000, MEM, u64::MAX][rng.gen_range(0..8)])); enc_rrr(0x26, 0x13, 0, 0) & 0xfffc0000 } // ALOC
                19 | 20 => enc_i24(0x91, [0u32, 8, 64, 256, 1000, 40_000][rng.gen_range(0..6)]),  // CFEI
                21 => { sets.push((0x13, [0u64, 8, 100, MEM, u64::MAX][rng.gen_range(0..5)])); enc_rrr(0x93, 0x13, 0, 0) & 0xfffc0000 } // CFE
                22 => enc_i24(0x92, [0u32, 8, 64, 256, 1000, 0xffffff][rng.gen_range(0..6)]),       // CFSI
                23 => { sets.push((0x13, [0u64, 8, 100, MEM, u64::MAX][rng.gen_range(0..5)])); enc_rrr(0x94, 0x13, 0, 0) & 0xfffc0000 } // CFS
                24 => enc_i24(0x95, rng.gen_range(0..0x1000000) & if rng.gen_bool(0.5) { 0xf } else { 0xffffff }),  // PSHL
                25 => enc_i24(0x96, rng.gen_range(0..0x1000000) & if rng.gen_bool(0.5) { 0xf00 } else { 0xffffff }), // PSHH
                26 => enc_i24(0x97, rng.gen_range(0..0x1000000) & if rng.gen_bool(0.5) { 0x3 } else { 0xffffff }),  // POPL
                27 => enc_i24(0x98, rng.gen_range(0..0x1000000) & if rng.gen_bool(0.5) { 0x3 } else { 0xffffff }),  // POPH
                _ => enc_rri(0x5f, 0x11, 0x14, 0),
            };
            // aim a store/clear at an owned location half of the time so successful writes are common
            exec_one(out, *run, i as u64, &mut vm, &sets, raw);
        }
    }
    // the stack grown right up to a tiny heap: the bytes just below $hp are ordinary stack memory (stores are read back, pushes
    // land there), one more byte of growth is refused
    {
        *run += 1;
        let mut vm = match exec_session(out, *run, &w, &mut rng, 50_000_000) { Some(v) => v, None => return };
        let pc0 = vm.registers()[RPC];
        let big = 50_000_000u64;
        let g = |v: Vec<(usize, u64)>| -> Vec<(usize, u64)> { let mut v = v; v.extend([(RPC, pc0), (RCGAS, big), (RGGAS, big)]); v };
        let mut i = 0u64;
        let mut step = |vm: &mut Vm<MemoryStorage>, sets: Vec<(usize, u64)>, raw: u32| { exec_one(out, *run, i, vm, &sets, raw); i += 1; };
        step(&mut vm, g(vec![(0x13, 8)]), enc_rrr(0x26, 0x13, 0, 0) & 0xfffc0000);                       // ALOC 8
        let gap = vm.registers()[RHP] - vm.registers()[RSP];
        step(&mut vm, g(vec![(0x13, gap - 64)]), enc_rrr(0x93, 0x13, 0, 0) & 0xfffc0000);                // CFE gap - 64
        let sp = vm.registers()[RSP];
        step(&mut vm, g(vec![(0x11, sp - 16), (0x14, 0x1122_3344_5566_7788)]), enc_rri(0x5f, 0x11, 0x14, 0));   // SW just below $sp
        step(&mut vm, g(vec![(0x11, sp - 16)]), enc_rri(0x5d, R, 0x11, 0));                               // LW reads it back
        step(&mut vm, g(vec![(0x11, sp - 300), (0x14, 0xa5)]), enc_rri(0x5e, 0x11, 0x14, 0));              // SB a little lower
        step(&mut vm, g(vec![(0x11, sp - 300)]), enc_rri(0x5c, R, 0x11, 0));                              // LB
        step(&mut vm, g(vec![(0x18, 0xdead_beef), (0x19, 7)]), enc_i24(0x95, 0x300));                     // PSHL two registers (16 of the 64 bytes left)
        let sp2 = vm.registers()[RSP];
        step(&mut vm, g(vec![(0x11, sp2 - 16)]), enc_rri(0x5d, R, 0x11, 0));                              // LW the pushed word
        step(&mut vm, g(vec![]), enc_i24(0x91, 48));                                                     // CFEI 48: exactly up to $hp
        step(&mut vm, g(vec![]), enc_i24(0x91, 1));                                                      // one more byte: MemoryGrowthOverlap
        step(&mut vm, g(vec![(0x13, 1)]), enc_rrr(0x26, 0x13, 0, 0) & 0xfffc0000);                       // ALOC 1: no room either
    }
}

fn asm(v: Vec<Instruction>) -> Vec<u8> { v.into_iter().collect() }

/// a random structured program: prologue constants, ALU, stack frame + loads/stores, heap, loops, subroutine, terminator
fn gen_program(rng: &mut StdRng) -> Vec<u8> {
    let mut p: Vec<Instruction> = vec![];
    let r = |k: u8| RegId::new(0x10 + k);
    for k in 0..4u8 { p.push(op::movi(r(k), rng.gen_range(0..0x40000))); }
    if rng.gen_bool(0.8) { p.push(op::movi(r(9), if rng.gen_bool(0.75) { 3 } else { rng.gen_range(0..4) })); p.push(op::flag(r(9))); }
    p.push(op::cfei(128));
    p.push(op::movi(r(4), [64u32, 64, 1000, 70000][rng.gen_range(0..4)])); p.push(op::aloc(r(4)));
    let n_body = rng.gen_range(3..40);
    let mut loop_open: Option<usize> = None;
    for _ in 0..n_body {
        let (a, b, c) = (r(rng.gen_range(0..8)), r(rng.gen_range(0..8)), r(rng.gen_range(0..8)));
        let pickn = if rng.gen_range(0..12) == 0 { rng.gen_range(0..34) } else { [0, 1, 2, 3, 4, 5, 6, 7, 8, 9, 10, 11, 12, 13, 14, 15, 16, 17, 18, 19, 20, 21, 24, 25, 28, 29, 30, 32, 33][rng.gen_range(0..29)] };
        let ins = match pickn {
            0 => op::add(a, b, c), 1 => op::sub(a, b, c), 2 => op::mul(a, b, c), 3 => op::div(a, b, c), 4 => op::exp(a, b, c),
            5 => op::mlog(a, b, c), 6 => op::mroo(a, b, c), 7 => op::mod_(a, b, c), 8 => op::sll(a, b, c), 9 => op::srl(a, b, c),
            10 => op::xor(a, b, c), 11 => op::not(a, b), 12 => op::addi(a, b, rng.gen_range(0..4096)), 13 => op::subi(a, b, rng.gen_range(0..4096)),
            14 => op::muli(a, b, rng.gen_range(0..4096)), 15 => op::eq(a, b, c), 16 => op::gt(a, b, c), 17 => op::mldv(a, b, c, r(rng.gen_range(0..8))),
            18 => op::sw(RegId::SSP, b, rng.gen_range(0..10)), 19 => op::lw(a, RegId::SSP, rng.gen_range(0..10)),
            20 => op::sb(RegId::HP, b, rng.gen_range(0..8)), 21 => op::lb(a, RegId::HP, rng.gen_range(0..8)),
            22 => op::sw(b, c, rng.gen_range(0..4)),          // wild store
            23 => op::lw(a, b, rng.gen_range(0..4)),          // wild load
            24 => op::mcpi(RegId::HP, RegId::SSP, rng.gen_range(0..16)),
            25 => op::mcli(RegId::SSP, rng.gen_range(0..40)),
            26 => op::pshl(rng.gen_range(0..0x100)), 27 => op::popl(rng.gen_range(0..0x8)),
            28 => op::log(a, b, c, RegId::ZERO),
            29 => op::movi(a, rng.gen_range(0..0x40000)),
            30 => op::move_(a, if rng.gen_bool(0.5) { RegId::SP } else { RegId::HP }),
            31 => op::cfsi(rng.gen_range(0..3) * 8), 32 => op::noop(),
            _ => op::andi(a, b, rng.gen_range(0..4096)),
        };
        p.push(ins);
        if loop_open.is_none() && rng.gen_bool(0.08) {
            p.push(op::movi(r(10), rng.gen_range(1..6)));
            loop_open = Some(p.len());
        } else if let Some(start) = loop_open {
            if rng.gen_bool(0.2) {
                p.push(op::subi(r(10), r(10), 1));
                let back = (p.len() - start) as u16;
                p.push(op::jnzb(r(10), RegId::ZERO, back.saturating_sub(1)));
                loop_open = None;
            }
        }
    }
    if rng.gen_bool(0.3) {
        // subroutine call via JAL: jump over the body, call it, continue
        let l = p.len() as u32;
        p.push(op::jmpf(RegId::ZERO, 2));                 // skip the 3-instruction subroutine
        p.push(op::addi(r(1), r(1), 1));                  // subroutine body
        p.push(op::addi(r(2), r(2), 2));
        p.push(op::jal(RegId::ZERO, r(11), 0));           // return through r11
        p.push(op::addi(r(12), RegId::IS, 0));
        p.push(op::addi(r(12), r(12), ((l + 1) * 4) as u16 & 0xfff));
        p.push(op::jal(r(11), r(12), 0));
    }
    match rng.gen_range(0..16) {
        0 => p.push(op::rvrt(r(0))),
        1 | 4 | 5 => { p.push(op::movi(r(5), rng.gen_range(0..40))); p.push(op::retd(RegId::SSP, r(5))); }
        2 => {}                                            // run off the end
        3 => p.push(op::jmp(r(3))),                        // wild jump
        _ => p.push(op::ret(r(rng.gen_range(0..4)))),
    }
    asm(p)
}

/// generated programs through the real run loop (run mode): C24 C25 C26 C28 C29 ...
fn prog(o: &Opts, out: &mut Out, run: &mut u64) {
    let thorough = o.thorough();
    let mut rng = o.rng(29);
    let n = if thorough { 1200 } else { 120 };
    for k in 0..n {
        let w = world(if k % 7 == 0 { 8 } else { 2 }, 0);
        let code = gen_program(&mut rng);
        let data = rbytes(&mut rng, 24);
        let gas_limit = match rng.gen_range(0..6) { 0 => rng.gen_range(0..40), 1 => rng.gen_range(40..400), _ => 3_000 };
        let checked = match simple_script(&w, &mut rng, code, data, gas_limit) { Ok(c) => c, Err(_) => continue };
        *run += 1;
        out.ev(json!({"ev": "Seg"}));
        let mut vm = new_vm(&w);
        record_run(out, *run, &mut vm, &w, checked, json!({"driver": "prog"}), 20_000);
    }
}

/// byte-level random scripts (C29)
fn fuzz(o: &Opts, out: &mut Out, run: &mut u64) {
    let thorough = o.thorough();
    let mut rng = o.rng(290);
    let n = if thorough { 3000 } else { 250 };
    let opcodes: Vec<u8> = (0u16..256).map(|x| x as u8).filter(|b| fuel_asm::Opcode::try_from(*b).is_ok()).collect();
    for k in 0..n {
        let w = world(2, 0);
        let len = rng.gen_range(1..40);
        let mut code = vec![];
        for _ in 0..len {
            let word: u32 = match rng.gen_range(0..4) {
                0 => rng.gen(),
                1 => ((*opcodes.choose(&mut rng).unwrap() as u32) << 24) | rng.gen_range(0..0x1000000),
                _ => { // valid-looking: registers in the low range so memory operands are plausible
                    let opc = *opcodes.choose(&mut rng).unwrap() as u32;
                    let regs = [0u32, 1, 4, 5, 7, 12, 16, 17, 18, 19];
                    let pick = |rng: &mut StdRng| regs[rng.gen_range(0..regs.len())];
                    (opc << 24) | (pick(&mut rng) << 18) | (pick(&mut rng) << 12) | (pick(&mut rng) << 6) | if rng.gen_bool(0.5) { pick(&mut rng) } else { rng.gen_range(0..64) }
                }
            };
            code.extend_from_slice(&word.to_be_bytes());
        }
        let data = rbytes(&mut rng, 64);
        let gas_limit = if k % 5 == 0 { rng.gen_range(0..200) } else { 2_000 };
        let checked = match simple_script(&w, &mut rng, code, data, gas_limit) { Ok(c) => c, Err(_) => continue };
        *run += 1;
        out.ev(json!({"ev": "Seg"}));
        let mut vm = new_vm(&w);
        record_run(out, *run, &mut vm, &w, checked, json!({"driver": "fuzz"}), 20_000);
    }
}

/// a gas schedule whose every number is drawn from 1..=hi (same shape/version as the default one)
pub fn random_gas(rng: &mut StdRng, hi: u64) -> GasCosts {
    fn walk(v: &mut serde_json::Value, rng: &mut StdRng, hi: u64) {
        match v {
            serde_json::Value::Number(_) => { *v = json!(rng.gen_range(1..=hi)); }
            serde_json::Value::Array(a) => a.iter_mut().for_each(|x| walk(x, rng, hi)),
            serde_json::Value::Object(o) => o.values_mut().for_each(|x| walk(x, rng, hi)),
            _ => {}
        }
    }
    let mut v = serde_json::to_value(GasCosts::default()).expect("ser");
    walk(&mut v, rng, hi);
    serde_json::from_value(v).expect("de")
}

/// C26: the programs of `prog` under the unit schedule and seeded random schedules, with limits that run out mid-program
fn gas(o: &Opts, out: &mut Out, run: &mut u64) {
    let thorough = o.thorough();
    let mut rng = o.rng(26);
    let n = if thorough { 900 } else { 90 };
    for k in 0..n {
        let mut w = world(2, 0);
        let costs = if k % 3 == 0 { GasCosts::unit() } else { random_gas(&mut rng, if k % 3 == 1 { 9 } else { 400 }) };
        w.params.set_gas_costs(costs);
        let code = gen_program(&mut rng);
        let data = rbytes(&mut rng, 24);
        let gas_limit = match rng.gen_range(0..4) { 0 => rng.gen_range(0..60), 1 => rng.gen_range(60..900), _ => 6_000 };
        let checked = match simple_script(&w, &mut rng, code, data, gas_limit) { Ok(c) => c, Err(_) => continue };
        *run += 1;
        out.ev(json!({"ev": "Seg"}));
        let mut vm = new_vm(&w);
        record_run(out, *run, &mut vm, &w, checked, json!({"driver": "gas"}), 20_000);
    }
}

use fuel_asm::GTFArgs;
use fuel_types::{canonical::Serialize as _, AssetId, ContractId};
use fuel_vm::util::test_helpers::TestBuilder;
use fuel_vm::call::Call;

fn contracts_json(st: &MemoryStorage, ids: &[ContractId], assets: &[AssetId]) -> serde_json::Value {
    use fuel_vm::storage::{ContractsAssetsStorage, ContractsRawCode};
    use fuel_storage::StorageAsRef;
    let mut o = serde_json::Map::new();
    for id in ids {
        let code: Vec<u8> = st.storage::<ContractsRawCode>().get(id).ok().flatten().map(|c| c.as_ref().as_ref().to_vec()).unwrap_or_default();
        let mut bal = serde_json::Map::new();
        for a in assets {
            if let Ok(Some(v)) = st.contract_asset_id_balance(id, a) { bal.insert(hx(a), json!(v.to_string())); }
        }
        o.insert(hx(id), json!({"code": hx(&code), "bal": serde_json::Value::Object(bal)}));
    }
    serde_json::Value::Object(o)
}

/// callee programs of several shapes (C34): plain return, return data, heap allocation + stores, nested / recursive calls,
/// revert, panic, attempts to write the caller's frame
fn callee(rng: &mut StdRng, kind: u32) -> Vec<Instruction> {
    let r = |k: u8| RegId::new(0x10 + k);
    let mut p: Vec<Instruction> = vec![];
    // clobber registers so that a missing restore would show
    for k in 0..6u8 { p.push(op::movi(r(k), rng.gen_range(0..0x40000))); }
    p.push(op::lw(r(8), RegId::FP, 73));                 // param a
    p.push(op::lw(r(9), RegId::FP, 74));                 // param b
    match kind % 10 {
        9 => {                                           // hog: allocates all memory down to 64 bytes above its $sp and returns -
            p.push(op::sub(r(4), RegId::HP, RegId::SP)); // the heap stays allocated, so the frame of the NEXT call cannot fit
            p.push(op::subi(r(4), r(4), 64));            // between $sp and $hp (MemoryGrowthOverlap)
            p.push(op::aloc(r(4)));
            p.push(op::sw(RegId::HP, r(1), 0));          // a canary at the bottom of the heap
            p.push(op::ret(RegId::HP));
        }
        0 => { p.push(op::ret(r(8))); }
        1 => {                                           // return data of length a from the heap
            p.push(op::aloc(r(8)));
            p.push(op::retd(RegId::HP, r(8)));
        }
        2 => {                                           // stack frame + stores + log + return
            p.push(op::cfei(64));
            p.push(op::sw(RegId::SSP, r(1), 0));
            p.push(op::sw(RegId::SSP, r(2), 7));
            p.push(op::movi(r(4), 40)); p.push(op::aloc(r(4)));
            p.push(op::sb(RegId::HP, r(3), 39));
            p.push(op::log(r(8), r(9), RegId::BAL, RegId::CGAS));
            p.push(op::ret(RegId::HP));
        }
        3 => {                                           // recursion: call self with a - 1 while a > 0 (call params rebuilt on the heap)
            p.push(op::jnzf(r(8), RegId::ZERO, 1));      // if a != 0 skip the return ($pc += (imm + 1) * 4)
            p.push(op::ret(RegId::ZERO));
            p.push(op::movi(r(4), 48)); p.push(op::aloc(r(4)));
            p.push(op::mcpi(RegId::HP, RegId::FP, 32));  // to = own id (first 32 bytes of the frame)
            p.push(op::subi(r(8), r(8), 1));
            p.push(op::sw(RegId::HP, r(8), 4));          // a - 1
            p.push(op::sw(RegId::HP, r(9), 5));          // b
            p.push(op::move_(r(5), RegId::HP));
            p.push(op::addi(r(7), RegId::FP, 32));       // the asset forwarded to this frame
            p.push(op::andi(r(10), r(9), 3));            // the contract forwards b mod 4 coins of it TO ITSELF (0: none)
            p.push(op::call(r(5), r(10), r(7), RegId::CGAS));
            p.push(op::addi(r(6), RegId::RET, 1));
            p.push(op::ret(r(6)));
        }
        8 => {                                           // recursion as in 3, but the INNERMOST callee allocates 8 bytes and stores one
            p.push(op::jnzf(r(8), RegId::ZERO, 4));      // word ABOVE its allocation: at depth >= 2 that is the calling contract's heap
            p.push(op::movi(r(4), 8)); p.push(op::aloc(r(4)));
            p.push(op::sw(RegId::HP, r(1), 1));
            p.push(op::ret(RegId::ONE));
            p.push(op::movi(r(4), 48)); p.push(op::aloc(r(4)));
            p.push(op::mcpi(RegId::HP, RegId::FP, 32));
            p.push(op::subi(r(8), r(8), 1));
            p.push(op::sw(RegId::HP, r(8), 4));
            p.push(op::sw(RegId::HP, r(9), 5));
            p.push(op::move_(r(5), RegId::HP));
            p.push(op::movi(r(4), 32)); p.push(op::aloc(r(4)));
            p.push(op::sw(RegId::HP, r(2), 0));          // a marker in this frame's heap which the callee must not change
            p.push(op::call(r(5), RegId::ZERO, RegId::HP, RegId::CGAS));
            p.push(op::lw(r(6), RegId::HP, 0));
            p.push(op::ret(r(6)));
        }
        4 => { p.push(op::rvrt(r(8))); }
        5 => { p.push(op::sw(RegId::ZERO, r(1), 0)); p.push(op::ret(RegId::ONE)); }       // panics: write to address 0
        6 => {                                           // tries to modify the caller's stack just below its frame
            p.push(op::subi(r(4), RegId::FP, 8));
            p.push(op::sw(r(4), r(1), 0));
            p.push(op::ret(RegId::ONE));
        }
        _ => {                                           // gas burner then return
            p.push(op::movi(r(10), 30));
            p.push(op::subi(r(10), r(10), 1));
            p.push(op::jnzb(r(10), RegId::ZERO, 0));
            p.push(op::ret(RegId::CGAS));
        }
    }
    p
}

/// C34 / C26 / C28: scripts calling deployed contracts with random caller registers, forwarded coins and gas
fn calls(o: &Opts, out: &mut Out, run: &mut u64) {
    let thorough = o.thorough();
    let mut rng = o.rng(34);
    let n = if thorough { 400 } else { 48 };
    for k in 0..n {
        let mut tb = TestBuilder::new(o.seed.wrapping_add(k as u64));
        let asset: AssetId = if k % 3 == 0 { AssetId::zeroed() } else { rng.gen() };
        let kind = [0u32, 1, 2, 3, 3, 4, 5, 6, 7, 8, 8, 9][rng.gen_range(0..12)];   // the recursive shapes (3, 8) twice as often
        // (the recursive shape forwards coins to itself: it always holds some of the asset)
        let c1 = tb.setup_contract(callee(&mut rng, kind), if k % 4 == 0 || kind == 3 { Some((asset, rng.gen_range(if kind == 3 { 10 } else { 0 }..1000))) } else { None }, None).contract_id;
        let k2 = rng.gen_range(0..3u32); let c2 = tb.setup_contract(callee(&mut rng, k2), None, None).contract_id;
        let not_input: ContractId = rng.gen();
        let target = match rng.gen_range(0..12) { 0 => not_input, 1 => c2, _ => c1 };
        let (a, b) = (match kind % 10 { 1 => [0u64, 1, 7, 8, 33, 1000, 70000][rng.gen_range(0..7)], 3 | 8 => rng.gen_range(0..if thorough { 30 } else { 6 }), _ => rng.gen_range(0..100) },
                      if kind == 3 { (rng.gen::<u64>() & !3) | [1u64, 2, 3, 0][rng.gen_range(0..4)] } else { rng.gen::<u64>() });   // kind 3 forwards b mod 4 coins to itself
        let amount: u64 = match rng.gen_range(0..5) { 0 => 0, 1 => 1, 2 => 500, 3 => 1_000_000, _ => rng.gen_range(0..2000) };
        let fwd: u64 = if kind == 9 { u64::MAX } else { match rng.gen_range(0..6) { 0 => 0, 1 => rng.gen_range(0..300), 2 => u64::MAX, _ => 1_000_000 } };
        let mut data = Call::new(target, a, b).to_bytes();
        data.extend_from_slice(asset.as_ref());
        let r = |k: u8| RegId::new(0x10 + k);
        let mut sc: Vec<Instruction> = vec![];
        for k in 0..10u8 { sc.push(op::movi(r(20 + k), rng.gen_range(0..0x40000))); }   // caller registers that must survive
        sc.push(op::cfei(32)); sc.push(op::sw(RegId::SSP, r(21), 0));                    // caller stack content that must survive
        sc.push(op::gtf_args(r(0), RegId::ZERO, GTFArgs::ScriptData));
        sc.push(op::addi(r(1), r(0), 48));
        sc.push(op::movi(r(2), (amount & 0x3ffff) as u32));
        if fwd == u64::MAX { sc.push(op::move_(r(3), RegId::CGAS)); } else { sc.push(op::movi(r(3), (fwd & 0x3ffff) as u32)); }
        sc.push(op::call(r(0), r(2), r(1), r(3)));
        if kind == 9 { sc.push(op::cfei(400)); }   // after the hog returned, frame + 64 bytes are free: with 400 of them taken the next frame cannot fit
        if rng.gen_bool(0.4) || kind == 9 { sc.push(op::call(r(0), RegId::ZERO, r(1), r(3))); }       // a second call
        if kind == 9 { sc.push(op::lw(r(5), RegId::HP, 0)); sc.push(op::log(r(5), RegId::HP, RegId::SP, RegId::ZERO)); }
        sc.push(op::lw(r(4), RegId::SSP, 0));
        sc.push(op::log(RegId::RET, RegId::RETL, r(4), r(25)));
        sc.push(op::ret(RegId::RET));
        tb.start_script(sc, data).gas_price(0).script_gas_limit(if kind == 9 { 5_000_000 } else { match rng.gen_range(0..5) { 0 => rng.gen_range(0..2000), _ => 200_000 } })
            .contract_input(c1).contract_input(c2);
        if amount > 0 || rng.gen_bool(0.5) { tb.coin_input(asset, match rng.gen_range(0..3) { 0 => amount.saturating_sub(1), _ => amount + rng.gen_range(0..50) }); tb.change_output(asset); }
        tb.fee_input().contract_output(&c1).contract_output(&c2);
        let checked = match catch(std::panic::AssertUnwindSafe(|| tb.build())) { Ok(c) => c, Err(_) => continue };
        let mut w = World { params: ConsensusParameters::standard(), gas_price: 0, storage: tb.get_storage().clone(), block_height: 0 };
        w.block_height = u32::from(tb.get_block_height());
        // every third run under a seeded random schedule (small numbers: the dependent part of the CALL charge - per byte of the
        // PADDED code - then changes with every few bytes of code)
        if k % 3 == 1 { w.params.set_gas_costs(random_gas(&mut rng, 9)); }
        *run += 1;
        out.ev(json!({"ev": "Seg"}));
        let extra = json!({"driver": "calls", "contracts": contracts_json(&w.storage, &[c1, c2], &[asset, AssetId::zeroed()]),
                           "inputs": [hx(c1), hx(c2)]});
        let mut vm = new_vm(&w);
        // the contracts' balances in storage after the run (C27: model balances = real storage, also for calls)
        let watch = [asset, AssetId::zeroed()];
        let post = move |vm: &Vm<MemoryStorage>| -> serde_json::Value {
            let st: &MemoryStorage = vm.as_ref();
            json!({"contracts": contracts_json(st, &[c1, c2], &watch)})
        };
        record_run_with(out, *run, &mut vm, &w, checked, extra, 20_000, Some(&post));
    }
}

/// a random sequence of asset instructions; `ctx_contract`: runs inside a contract (asset id of forwarded coins at $fp + 32)
fn asset_ops(rng: &mut StdRng, ctx_contract: bool, other: u8 /* register holding a pointer to another contract id */, n: usize) -> Vec<Instruction> {
    let r = |k: u8| RegId::new(0x10 + k);
    let mut p: Vec<Instruction> = vec![];
    // r30 -> 32 zero bytes (sub id / scratch), r31 -> asset id pointer
    p.push(op::movi(r(14), 64)); p.push(op::aloc(r(14))); p.push(op::move_(r(30), RegId::HP));
    if ctx_contract { p.push(op::addi(r(31), RegId::FP, 32)); }
    for _ in 0..n {
        let amt = if rng.gen_range(0..14) == 0 { [0u32, 100_000, 501][rng.gen_range(0..3)] } else { [1u32, 1, 2, 7, 100, 250][rng.gen_range(0..6)] };
        p.push(op::movi(r(15), amt));
        match rng.gen_range(0..if ctx_contract { 10 } else { 5 }) {
            0 => p.push(op::tr(RegId::new(other), r(15), r(31))),
            1 => { p.push(op::movi(r(16), if rng.gen_bool(0.85) { rng.gen_range(1..4) } else { rng.gen_range(0..7) })); p.push(op::tro(r(30), r(16), r(15), r(31))); }
            2 => { p.push(op::movi(r(17), [0u32, 1, 8, 33][rng.gen_range(0..4)])); p.push(op::smo(r(30), r(30), r(17), r(15))); }
            3 => p.push(op::bal(r(18), r(31), RegId::new(other))),
            4 => p.push(op::log(RegId::BAL, r(18), RegId::CGAS, RegId::ZERO)),
            5 | 6 => p.push(op::mint(r(15), r(30))),
            7 => { p.push(op::movi(r(15), rng.gen_range(0..3))); p.push(op::burn(r(15), r(30))); }
            8 if ctx_contract => { // drain: send the whole current balance of the forwarded asset away (leaves an entry holding 0)
                p.push(op::bal(r(18), r(31), RegId::FP));
                p.push(op::tr(RegId::new(other), r(18), r(31)));
            }
            _ => p.push(op::bal(r(18), r(31), RegId::FP)),
        }
    }
    p
}

/// C27 / C28: scripts and contracts that transfer, mint, burn, send messages, then return / revert / panic
fn assets(o: &Opts, out: &mut Out, run: &mut u64) {
    let thorough = o.thorough();
    let mut rng = o.rng(27);
    let n = if thorough { 500 } else { 60 };
    for k in 0..n {
        let mut tb = TestBuilder::new(o.seed.wrapping_mul(31).wrapping_add(k as u64));
        let base = AssetId::zeroed();
        let asset: AssetId = if k % 3 == 0 { base } else { rng.gen() };
        let r = |k: u8| RegId::new(0x10 + k);
        // bank contract: asset ops on the forwarded asset, then a terminator
        let mut bank = vec![op::gtf_args(r(13), RegId::ZERO, GTFArgs::ScriptData), op::addi(r(13), r(13), 80)];   // r13 -> the other contract's id
        bank.push(op::lw(r(8), RegId::FP, 73));
        // every sixth run is the "entry holding ZERO" history: the bank sends its whole balance of the forwarded asset away (the
        // storage entry stays, holding 0), returns, and the script credits the same (contract, asset) again by TR and by a
        // coin-forwarding CALL - an existing entry holding 0 is not a new entry (no new-storage gas)
        let zero_entry = k % 6 == 5;
        if zero_entry {
            bank.push(op::addi(r(31), RegId::FP, 32));
            bank.push(op::bal(r(18), r(31), RegId::FP));
            bank.push(op::tr(r(13), r(18), r(31)));
            bank.push(op::ret(RegId::BAL));
        } else {
        let nb = rng.gen_range(1..7); bank.extend(asset_ops(&mut rng, true, 0x10 + 13, nb));
        match rng.gen_range(0..14) { 0 => bank.push(op::rvrt(RegId::ONE)), 1 => bank.push(op::sw(RegId::ZERO, RegId::ONE, 0)), _ => bank.push(op::ret(RegId::BAL)) }
        }
        let init_bal = if k % 2 == 0 { Some((asset, rng.gen_range(0..1000))) } else { None };
        let c1 = tb.setup_contract(bank, init_bal, None).contract_id;
        let c2 = tb.setup_contract(vec![op::ret(RegId::BAL)], if k % 5 == 0 { Some((base, 77)) } else { None }, None).contract_id;
        let amount: u64 = [0u64, 1, 300, 400, 1000][rng.gen_range(0..5)];
        let mut data = Call::new(c1, rng.gen_range(0..10), rng.gen()).to_bytes();   // 48
        data.extend_from_slice(asset.as_ref());                                       // +48: asset id
        data.extend_from_slice(c2.as_ref());                                          // +80: other contract id
        let mut sc: Vec<Instruction> = vec![];
        sc.push(op::gtf_args(r(0), RegId::ZERO, GTFArgs::ScriptData));
        sc.push(op::addi(r(31), r(0), 48));
        sc.push(op::addi(r(12), r(0), 80));
        if rng.gen_bool(0.6) { let ns = rng.gen_range(1..5); let tgt = if rng.gen_bool(0.5) { 0x10 + 12 } else { 0x10 }; sc.extend(asset_ops(&mut rng, false, tgt, ns)); sc.push(op::addi(r(31), r(0), 48)); }
        sc.push(op::movi(r(2), (amount & 0x3ffff) as u32));
        sc.push(op::call(r(0), r(2), r(31), RegId::CGAS));
        if zero_entry {
            sc.push(op::addi(r(31), r(0), 48));
            sc.push(op::movi(r(15), 7)); sc.push(op::tr(r(0), r(15), r(31)));                 // TR into the entry holding 0
            sc.push(op::movi(r(2), 5)); sc.push(op::call(r(0), r(2), r(31), RegId::CGAS));    // (drained again by the bank) ... and a forwarding CALL
            sc.push(op::bal(r(18), r(31), r(0)));
            sc.push(op::log(r(18), RegId::CGAS, RegId::ZERO, RegId::ZERO));
        } else
        if rng.gen_bool(0.6) { let tgt = if rng.gen_bool(0.6) { 0x10 } else { 0x10 + 12 }; sc.extend(asset_ops(&mut rng, false, tgt, 2)); }
        match rng.gen_range(0..10) { 0 => sc.push(op::rvrt(RegId::ONE)), _ => sc.push(op::ret(RegId::RET)) }
        tb.start_script(sc, data).gas_price(0).script_gas_limit(match rng.gen_range(0..10) { 0 => rng.gen_range(100..3000), _ => 400_000 })
            .contract_input(c1).contract_input(c2)
            .coin_input(asset, [499u64, 1500, 200_000, 200_000][rng.gen_range(0..4)]);
        if asset != base { tb.coin_input(base, rng.gen_range(1..2000)); }
        tb.change_output(asset);
        if asset != base && rng.gen_bool(0.7) { tb.change_output(base); }
        for _ in 0..rng.gen_range(1..4) { tb.variable_output(AssetId::zeroed()); }
        tb.fee_input().contract_output(&c1).contract_output(&c2);
        let checked = match catch(std::panic::AssertUnwindSafe(|| tb.build())) { Ok(c) => c, Err(_) => continue };
        let w = World { params: ConsensusParameters::standard(), gas_price: 0, storage: tb.get_storage().clone(), block_height: u32::from(tb.get_block_height()) };
        *run += 1;
        out.ev(json!({"ev": "Seg"}));
        let minted: AssetId = { use fuel_tx::ContractIdExt; c1.default_asset() };
        let assets_watch = [asset, base, minted];
        let extra = json!({"driver": "assets", "contracts": contracts_json(&w.storage, &[c1, c2], &assets_watch), "inputs": [hx(c1), hx(c2)]});
        let mut vm = new_vm(&w);
        let post = move |vm: &Vm<MemoryStorage>| -> serde_json::Value {
            let st: &MemoryStorage = vm.as_ref();
            json!({"contracts": contracts_json(st, &[c1, c2], &assets_watch)})
        };
        record_run_with(out, *run, &mut vm, &w, checked, extra, 20_000, Some(&post));
    }
}

fn storage_dump(st: &MemoryStorage, ids: &[ContractId], assets: &[AssetId]) -> serde_json::Value {
    let mut slots: Vec<(String, String)> = st.all_contract_state().map(|(k, v)| (hx(k.as_ref() as &[u8]), hx(v.as_ref() as &[u8]))).collect();
    slots.sort();
    json!({"slots": slots.into_iter().map(|(k, v)| json!([k, v])).collect::<Vec<_>>(), "contracts": contracts_json(st, ids, assets)})
}

/// C28: the in-memory client leaves contract storage (slots and balances) exactly as it was when the transaction reverts or panics;
/// C28: the receipt limit — a LOG loop towards 65 535 receipts (thorough tier) summarised without per-step events
fn client(o: &Opts, out: &mut Out, run: &mut u64) {
    use fuel_vm::memory_client::MemoryClient;
    let thorough = o.thorough();
    let mut rng = o.rng(28);
    let n = if thorough { 300 } else { 40 };
    out.ev(json!({"ev": "Seg"}));
    for k in 0..n {
        let mut tb = TestBuilder::new(o.seed.wrapping_mul(77).wrapping_add(k as u64));
        let r = |k: u8| RegId::new(0x10 + k);
        let mut code = vec![op::movi(r(4), 64), op::aloc(r(4)), op::movi(r(1), rng.gen_range(1..0x40000)), op::sb(RegId::HP, r(1), 31)];
        for _ in 0..rng.gen_range(1..4) {
            match rng.gen_range(0..3) {
                0 => code.push(op::sww(RegId::HP, r(2), r(1))),
                1 => { code.push(op::movi(r(5), rng.gen_range(1..50))); code.push(op::mint(r(5), RegId::HP)); }
                _ => { code.push(op::addi(r(6), RegId::HP, 32)); code.push(op::swwq(RegId::HP, r(2), r(6), RegId::ONE)); }
            }
        }
        let how = rng.gen_range(0..4);
        match how { 0 => code.push(op::rvrt(RegId::ONE)), 1 => code.push(op::sw(RegId::ZERO, RegId::ONE, 0)), _ => code.push(op::ret(RegId::ONE)) }
        let c1 = tb.setup_contract(code, None, None).contract_id;
        let data = Call::new(c1, 0, 0).to_bytes();
        let mut sc = vec![op::gtf_args(r(0), RegId::ZERO, GTFArgs::ScriptData), op::call(r(0), RegId::ZERO, RegId::ZERO, RegId::CGAS)];
        if how == 3 { sc.push(op::rvrt(RegId::ONE)); } else { sc.push(op::ret(RegId::ONE)); }
        tb.start_script(sc, data).gas_price(0).script_gas_limit(if rng.gen_range(0..6) == 0 { rng.gen_range(200..4000) } else { 1_000_000 })
            .contract_input(c1).fee_input().contract_output(&c1);
        let checked = match catch(std::panic::AssertUnwindSafe(|| tb.build())) { Ok(c) => c, Err(_) => continue };
        let minted: AssetId = { use fuel_tx::ContractIdExt; c1.default_asset() };
        let mut minted2 = [0u8; 32]; minted2.copy_from_slice(minted.as_ref());
        let params = ConsensusParameters::standard();
        let mut st0 = tb.get_storage().clone();
        st0.commit(); // the deployed contracts are the committed baseline the client must return to
        let mut cl: MemoryClient<MemoryInstance> = MemoryClient::new(MemoryInstance::new(), st0, InterpreterParams::new(0, &params));
        let watch_assets = [minted, AssetId::zeroed()];
        let before = storage_dump(cl.as_ref(), &[c1], &watch_assets);
        let res = catch(std::panic::AssertUnwindSafe(|| { cl.transact(checked); cl.state_transition().map(|s| s.should_revert()) }));
        *run += 1;
        match res {
            Ok(Some(rev)) => {
                let after = storage_dump(cl.as_ref(), &[c1], &watch_assets);
                let kinds: Vec<String> = cl.receipts().unwrap_or_default().iter().map(|r| receipt_json(r)["kind"].as_str().unwrap().to_string()).collect();
                out.ev(json!({"ev": "ClientTx", "run": *run, "reverted": rev, "before": before, "after": after, "kinds": kinds}));
                // the SAME client next executes the script `ret $one`: whatever the previous transaction left behind (it may have
                // ended inside the called contract), the outcome is [Return(1), ScriptResult(Success)]
                let w0 = World { params: params.clone(), gas_price: 0, storage: tb.get_storage().clone(), block_height: u32::from(tb.get_block_height()) };
                if let Ok(next) = simple_script(&w0, &mut rng, asm(vec![op::ret(RegId::ONE)]), vec![], 10_000) {
                    match catch(std::panic::AssertUnwindSafe(|| cl.transact(next).iter().map(receipt_json).collect::<Vec<_>>())) {
                        Ok(rc) => out.ev(json!({"ev": "ClientFollow", "run": *run, "after_kinds": kinds, "rc": rc})),
                        Err(m) => out.ev(json!({"ev": "HostPanic", "where": "MemoryClient::transact(follow-up)", "msg": m})),
                    }
                }
            }
            Ok(None) => out.ev(json!({"ev": "ClientTx", "run": *run, "reverted": true, "before": before, "after": storage_dump(cl.as_ref(), &[c1], &watch_assets), "kinds": [], "novm": true})),
            Err(m) => out.ev(json!({"ev": "HostPanic", "where": "MemoryClient::transact", "msg": m})),
        }
    }
    // receipt limit: LOG in a tight loop with plenty of gas
    let loops: Vec<u32> = if thorough { vec![10, 65_530, 65_533, 65_534, 65_535, 65_540] } else { vec![10, 65_532, 65_533] };   // last run that still ends with Return, first one that cannot
    for cnt in loops {
        let mut tb = TestBuilder::new(o.seed.wrapping_add(cnt as u64));
        let r = |k: u8| RegId::new(0x10 + k);
        let sc = vec![op::movi(r(0), cnt & 0x3ffff), op::log(r(0), RegId::ZERO, RegId::ZERO, RegId::ZERO), op::subi(r(0), r(0), 1), op::jnzb(r(0), RegId::ZERO, 1), op::ret(RegId::ONE)];
        tb.start_script(sc, vec![]).gas_price(0).script_gas_limit(50_000_000).fee_input();
        let checked = match catch(std::panic::AssertUnwindSafe(|| tb.build())) { Ok(c) => c, Err(_) => continue };
        let params = ConsensusParameters::standard();
        let mut cl: MemoryClient<MemoryInstance> = MemoryClient::new(MemoryInstance::new(), tb.get_storage().clone(), InterpreterParams::new(0, &params));
        let res = catch(std::panic::AssertUnwindSafe(|| { cl.transact(checked); }));
        *run += 1;
        match res {
            Ok(()) => {
                let rc = cl.receipts().unwrap_or_default();
                let tail: Vec<serde_json::Value> = rc.iter().rev().take(2).rev().map(receipt_json).collect();
                let root = cl.state_transition().map(|s| { use fuel_tx::field::ReceiptsRoot; hx(s.tx().receipts_root()) }).unwrap_or_default();
                out.ev(json!({"ev": "RunSummary", "run": *run, "loops": cnt, "nrc": rc.len(), "logs": rc.iter().filter(|r| matches!(r, fuel_tx::Receipt::Log { .. })).count(), "tail": tail,
                              "receipts_root": root, "rc_all": rc.iter().map(|r| json!(hx(r.to_bytes()))).collect::<Vec<_>>()}));
            }
            Err(m) => out.ev(json!({"ev": "HostPanic", "where": "receipt-limit", "msg": m})),
        }
    }
}

/// a transaction with a contract that reads/writes storage, logs and returns (storage changes are observable)
fn storage_tx(rng: &mut StdRng, seed: u64) -> (TestBuilder, ContractId, Vec<Instruction>, Vec<u8>) {
    let mut tb = TestBuilder::new(seed);
    let r = |k: u8| RegId::new(0x10 + k);
    let mut code = vec![op::movi(r(4), 64), op::aloc(r(4)), op::movi(r(1), rng.gen_range(1..0x40000)), op::sb(RegId::HP, r(1), 31)];
    for _ in 0..rng.gen_range(1..5) {
        match rng.gen_range(0..5) {
            0 => code.push(op::sww(RegId::HP, r(2), r(1))),
            1 => code.push(op::srw(r(3), r(2), RegId::HP, 0)),
            2 => { code.push(op::movi(r(5), rng.gen_range(1..50))); code.push(op::addi(r(6), RegId::HP, 32)); code.push(op::mint(r(5), r(6))); }
            3 => code.push(op::log(r(3), r(2), RegId::CGAS, RegId::HP)),
            _ => { code.push(op::addi(r(1), r(1), 3)); code.push(op::sb(RegId::HP, r(1), 30)); }
        }
    }
    match rng.gen_range(0..6) { 0 => code.push(op::rvrt(RegId::ONE)), 1 => code.push(op::sw(RegId::ZERO, RegId::ONE, 0)), _ => code.push(op::ret(r(3))) }
    let slots = vec![fuel_tx::StorageSlot::new([0u8; 32].into(), [7u8; 32].into())];
    let c1 = tb.setup_contract(code, None, if rng.gen_bool(0.5) { Some(slots) } else { None }).contract_id;
    let data = Call::new(c1, 0, 0).to_bytes();
    let mut sc = vec![op::movi(r(9), [8u32, 1000, 200_000][rng.gen_range(0..3)]), op::aloc(r(9)), op::cfei([16u32, 4096][rng.gen_range(0..2)]),
                      op::gtf_args(r(0), RegId::ZERO, GTFArgs::ScriptData), op::call(r(0), RegId::ZERO, RegId::ZERO, RegId::CGAS)];
    if rng.gen_bool(0.3) { sc.push(op::call(r(0), RegId::ZERO, RegId::ZERO, RegId::CGAS)); }
    sc.push(op::log(RegId::RET, RegId::RETL, RegId::HP, RegId::SP));
    sc.push(op::ret(RegId::RET));
    (tb, c1, sc, data)
}

fn build_storage_tx(tb: &mut TestBuilder, c1: ContractId, sc: Vec<Instruction>, data: Vec<u8>, gas: u64) -> Option<Checked<Script>> {
    tb.start_script(sc, data).gas_price(0).script_gas_limit(gas).contract_input(c1).fee_input().contract_output(&c1);
    catch(std::panic::AssertUnwindSafe(|| tb.build())).ok()
}

/// C31: the same ready transaction against equal storage on a fresh interpreter (reference, single-stepped and fully validated)
/// and on instances that were used before for other transactions (large heaps, deep stacks, warm slot caches, panics)
fn reuse(o: &Opts, out: &mut Out, run: &mut u64) {
    use fuel_vm::memory_client::MemoryClient;
    let thorough = o.thorough();
    let mut rng = o.rng(31);
    let n = if thorough { 200 } else { 24 };
    for k in 0..n {
        let (mut tb, c1, sc, data) = storage_tx(&mut rng, o.seed.wrapping_mul(131).wrapping_add(k as u64));
        // two more contracts for the history: one reverts, one panics - a transaction that ENDS INSIDE a called contract
        let cx = tb.setup_contract(vec![op::movi(RegId::new(0x10), 64), op::aloc(RegId::new(0x10)), op::rvrt(RegId::ONE)], None, None).contract_id;
        let cp = tb.setup_contract(vec![op::cfei(64), op::sw(RegId::ZERO, RegId::ONE, 0)], None, None).contract_id;
        let gas = if rng.gen_range(0..5) == 0 { rng.gen_range(300..5000) } else { 1_000_000 };
        // every fourth target only REFERENCES c1 (size / balance / root / call) without listing it: what an earlier
        // transaction on the same instance listed must not matter (on a fresh instance these panic ContractNotInInputs)
        let unlisted = k % 4 == 3;
        // every fourth target allocates a little heap first and then a lot (past any capacity an earlier transaction left behind in
        // the instance) and logs the digest of its whole heap: fresh heap memory reads as zero whatever the instance did before
        let heap_target = k % 4 == 1;
        // every eighth target has NO determinable owner (two coin inputs of different owners, no owner policy) and asks for it:
        // `gm GetOwner` panics OwnerIsUnknown whatever owner the instance's previous transaction had
        let owner_target = k % 8 == 6;
        let target = if owner_target {
            use fuel_asm::GMArgs;
            use fuel_crypto::SecretKey;
            let r = |k: u8| RegId::new(0x10 + k);
            let code = asm(vec![op::gm_args(r(1), GMArgs::GetOwner), op::log(r(1), RegId::ZERO, RegId::ZERO, RegId::ZERO), op::ret(RegId::ONE)]);
            let params = ConsensusParameters::standard();
            let base = *params.base_asset_id();
            let tx = TransactionBuilder::script(code, vec![]).script_gas_limit(100_000).max_fee_limit(0).with_params(params.clone())
                .add_unsigned_coin_input(SecretKey::random(&mut rng), rng.gen(), 10, base, Default::default())
                .add_unsigned_coin_input(SecretKey::random(&mut rng), rng.gen(), 10, base, Default::default())
                .finalize();
            let w0 = World { params, gas_price: 0, storage: tb.get_storage().clone(), block_height: u32::from(tb.get_block_height()) };
            match checked_script(tx, &w0) { Ok(c) => c, Err(_) => continue }
        } else if heap_target {
            let r = |k: u8| RegId::new(0x10 + k);
            let code = asm(vec![op::movi(r(1), 8), op::aloc(r(1)), op::movi(r(2), 4096), op::aloc(r(2)), op::aloc(r(2)),
                                op::muli(r(4), r(2), 2), op::addi(r(4), r(4), 8), op::logd(RegId::ZERO, RegId::ZERO, RegId::HP, r(4)), op::ret(RegId::ONE)]);
            let w0 = World { params: ConsensusParameters::standard(), gas_price: 0, storage: tb.get_storage().clone(), block_height: u32::from(tb.get_block_height()) };
            match simple_script(&w0, &mut rng, code, vec![], 1_000_000) { Ok(c) => c, Err(_) => continue }
        } else if unlisted {
            let r = |k: u8| RegId::new(0x10 + k);
            let probe = match k % 16 { 3 => op::csiz(r(1), r(0)), 7 => op::bal(r(1), RegId::HP, r(0)), 11 => op::croo(RegId::HP, r(0)), _ => op::call(r(0), RegId::ZERO, RegId::HP, RegId::CGAS) };
            let code = asm(vec![op::movi(r(4), 32), op::aloc(r(4)), op::gtf_args(r(0), RegId::ZERO, GTFArgs::ScriptData), probe, op::log(r(1), RegId::ZERO, RegId::ZERO, RegId::ZERO), op::ret(RegId::ONE)]);
            let w0 = World { params: ConsensusParameters::standard(), gas_price: 0, storage: tb.get_storage().clone(), block_height: u32::from(tb.get_block_height()) };
            match simple_script(&w0, &mut rng, code, data.clone(), gas) { Ok(c) => c, Err(_) => continue }
        } else {
            match build_storage_tx(&mut tb, c1, sc.clone(), data.clone(), gas) { Some(c) => c, None => continue }
        };
        let minted: AssetId = { use fuel_tx::ContractIdExt; c1.default_asset() };
        let watch = [minted, AssetId::zeroed()];
        let post = move |vm: &Vm<MemoryStorage>| -> serde_json::Value { storage_dump(vm.as_ref(), &[c1], &watch) };
        let mut base = tb.get_storage().clone();
        base.commit();
        let w = World { params: ConsensusParameters::standard(), gas_price: 0, storage: base.clone(), block_height: u32::from(tb.get_block_height()) };
        // the reused instance: history first
        let mut used = new_vm(&w);
        let hist_n = if heap_target { 1 } else { rng.gen_range(1..4) };   // (heap target: exactly one predecessor, with a small dirty heap)
        let mut hist_desc = vec![];
        for h in 0..hist_n {
            let kind = if unlisted && h == 0 { 0 } else if heap_target { 4 } else { rng.gen_range(0..7) };
            let checked = match kind {
                0 => { // a different storage transaction on the same contract (warms the slot cache, may panic / revert)
                    let (_, _, sc2, _) = storage_tx(&mut rng, 999 + h);
                    build_storage_tx(&mut tb, c1, sc2, data.clone(), 1_000_000)
                }
                1 => simple_script(&w, &mut rng, asm(vec![op::movi(RegId::new(0x10), 0x3ffff), op::aloc(RegId::new(0x10)), op::aloc(RegId::new(0x10)), op::sb(RegId::HP, RegId::ONE, 0), op::cfei(0xffff), op::sw(RegId::SSP, RegId::ONE, 100), op::ret(RegId::ONE)]), vec![], 1_000_000).ok(),
                2 => { let code = gen_program(&mut rng); let d = rbytes(&mut rng, 16); simple_script(&w, &mut rng, code, d, 3000).ok() }
                5 | 6 => { // ends inside a called contract (revert / panic): frames, $fp, $is of the callee must not survive
                    let ca = if kind == 5 { cx } else { cp };
                    let r = |k: u8| RegId::new(0x10 + k);
                    let sc5 = vec![op::gtf_args(r(0), RegId::ZERO, GTFArgs::ScriptData), op::call(r(0), RegId::ZERO, RegId::ZERO, RegId::CGAS), op::ret(RegId::ONE)];
                    tb.start_script(sc5, Call::new(ca, 0, 0).to_bytes()).gas_price(0).script_gas_limit(100_000).contract_input(ca).fee_input().contract_output(&ca);
                    catch(std::panic::AssertUnwindSafe(|| tb.build())).ok()
                }
                4 => { // a small heap, completely dirty
                    let r = |k: u8| RegId::new(0x10 + k);
                    let mut p = vec![op::movi(r(1), 1024), op::aloc(r(1)), op::not(r(2), RegId::ZERO)];
                    for j in 0..128u16 { p.push(op::sw(RegId::HP, r(2), j)); }
                    p.push(op::ret(RegId::ONE));
                    simple_script(&w, &mut rng, asm(p), vec![], 1_000_000).ok()
                }
                _ => simple_script(&w, &mut rng, asm(vec![op::sw(RegId::ZERO, RegId::ONE, 0)]), vec![], 1000).ok(),
            };
            if let Some(c) = checked { hist_desc.push(kind); let _ = run_plain(&mut used, &w, c); }
        }
        // storage as the reused instance sees it now = the storage both executions start from
        let start: MemoryStorage = { let s: &MemoryStorage = used.as_ref(); s.clone() };
        let w2 = World { params: ConsensusParameters::standard(), gas_price: 0, storage: start.clone(), block_height: w.block_height };
        *run += 1;
        let ref_run = *run;
        out.ev(json!({"ev": "Seg"}));
        let mut fresh = new_vm(&w2);
        let extra = json!({"driver": "reuse", "contracts": contracts_json(&start, &[c1], &watch), "inputs": if unlisted || heap_target || owner_target { json!([]) } else { json!([hx(c1)]) }});
        record_run_with(out, ref_run, &mut fresh, &w2, target.clone(), extra, 20_000, Some(&post));
        // reused interpreter
        match run_plain(&mut used, &w2, target.clone()) {
            Ok(st) => out.ev(json!({"ev": "Replica", "of": ref_run, "kind": "reused-interpreter", "history": hist_desc, "final": final_json(&used, &st, Some(&post))})),
            Err(m) => out.ev(json!({"ev": "HostPanic", "where": "reused-interpreter", "msg": m})),
        }
        // a second fresh interpreter, un-stepped (no debugger at all)
        let mut fresh2 = new_vm(&w2);
        match run_plain(&mut fresh2, &w2, target.clone()) {
            Ok(st) => out.ev(json!({"ev": "Replica", "of": ref_run, "kind": "fresh-plain", "final": final_json(&fresh2, &st, Some(&post))})),
            Err(m) => out.ev(json!({"ev": "HostPanic", "where": "fresh-plain", "msg": m})),
        }
        // a memory client reused after another transaction: compare receipts only (its storage commit/revert is C28's subject)
        let mut cl: MemoryClient<MemoryInstance> = MemoryClient::new(MemoryInstance::new(), start.clone(), InterpreterParams::new(0, &w2.params));
        if let Ok(c) = simple_script(&w2, &mut rng, asm(vec![op::movi(RegId::new(0x10), 70_000), op::aloc(RegId::new(0x10)), op::ret(RegId::ONE)]), vec![], 100_000) { let _ = catch(std::panic::AssertUnwindSafe(|| { cl.transact(c); })); }
        match catch(std::panic::AssertUnwindSafe(|| cl.transact(target.clone()).iter().map(|r| json!(hx(r.to_bytes()))).collect::<Vec<_>>())) {
            Ok(rc) => out.ev(json!({"ev": "ReplicaReceipts", "of": ref_run, "kind": "reused-memory-client", "rc_all": rc})),
            Err(m) => out.ev(json!({"ev": "HostPanic", "where": "reused-memory-client", "msg": m})),
        }
    }
}

/// C32: plain execution vs single-stepping (reference) vs breakpoint sets, resuming after every debug event
fn debug(o: &Opts, out: &mut Out, run: &mut u64) {
    use fuel_vm::state::{Breakpoint, DebugEval};
    let thorough = o.thorough();
    let mut rng = o.rng(32);
    let n = if thorough { 200 } else { 24 };
    for k in 0..n {
        let (mut tb, c1, mut sc, data) = storage_tx(&mut rng, o.seed.wrapping_mul(137).wrapping_add(k as u64));
        if rng.gen_bool(0.5) { // a tight loop whose target carries a breakpoint
            let r = |k: u8| RegId::new(0x10 + k);
            let mut l = vec![op::movi(r(20), rng.gen_range(1..5)), op::subi(r(20), r(20), 1), op::jnzb(r(20), RegId::ZERO, 0)];
            l.extend(sc); sc = l;
        }
        let gas = if rng.gen_range(0..6) == 0 { rng.gen_range(300..5000) } else { 1_000_000 };
        let target = match build_storage_tx(&mut tb, c1, sc.clone(), data.clone(), gas) { Some(c) => c, None => continue };
        let minted: AssetId = { use fuel_tx::ContractIdExt; c1.default_asset() };
        let watch = [minted, AssetId::zeroed()];
        let post = move |vm: &Vm<MemoryStorage>| -> serde_json::Value { storage_dump(vm.as_ref(), &[c1], &watch) };
        let mut base = tb.get_storage().clone();
        base.commit();
        let w = World { params: ConsensusParameters::standard(), gas_price: 0, storage: base.clone(), block_height: u32::from(tb.get_block_height()) };
        *run += 1;
        let ref_run = *run;
        out.ev(json!({"ev": "Seg"}));
        let mut fresh = new_vm(&w);
        let extra = json!({"driver": "debug", "contracts": contracts_json(&base, &[c1], &watch), "inputs": [hx(c1)]});
        record_run_with(out, ref_run, &mut fresh, &w, target.clone(), extra, 20_000, Some(&post));
        // plain
        let mut plain = new_vm(&w);
        match run_plain(&mut plain, &w, target.clone()) {
            Ok(st) => out.ev(json!({"ev": "Replica", "of": ref_run, "kind": "no-debugger", "final": final_json(&plain, &st, Some(&post))})),
            Err(m) => out.ev(json!({"ev": "HostPanic", "where": "no-debugger", "msg": m})),
        }
        // breakpoint sets: script locations (contract id zero) and locations inside the called contract
        for _ in 0..(if thorough { 4 } else { 2 }) {
            let mut bps: Vec<(ContractId, u64)> = vec![];
            for _ in 0..rng.gen_range(1..5) {
                if rng.gen_bool(0.6) { bps.push((ContractId::zeroed(), rng.gen_range(0..(sc.len() as u64 + 1)))); }
                else { bps.push((c1, rng.gen_range(0..12))); }   // instruction indices
            }
            let mut vm = new_vm(&w);
            for (c, pc) in &bps { vm.set_breakpoint(Breakpoint::new(*c, *pc)); }
            let ready = match target.clone().into_ready(0, w.params.gas_costs(), w.params.fee_params(), Some(w.block_height.into())) { Ok(r) => r, Err(_) => continue };
            let mut breaks: Vec<serde_json::Value> = vec![];
            let mut st = match catch(std::panic::AssertUnwindSafe(|| vm.transact(ready).map(|s| *s.state()))) { Ok(s) => s, Err(m) => { out.ev(json!({"ev": "HostPanic", "where": "breakpoints", "msg": m})); continue } };
            let mut guard = 0;
            loop {
                match &st {
                    Ok(ProgramState::RunProgram(DebugEval::Breakpoint(b))) | Ok(ProgramState::VerifyPredicate(DebugEval::Breakpoint(b))) => {
                        breaks.push(json!([hx(b.contract()), b.pc().to_string()]));
                    }
                    Ok(ProgramState::RunProgram(_)) | Ok(ProgramState::VerifyPredicate(_)) => {}
                    _ => break,
                }
                guard += 1;
                if guard > 100_000 { break; }
                st = match catch(std::panic::AssertUnwindSafe(|| vm.resume())) { Ok(s) => s, Err(m) => { out.ev(json!({"ev": "HostPanic", "where": "breakpoints-resume", "msg": m})); break } };
            }
            out.ev(json!({"ev": "BpRun", "of": ref_run, "bps": bps.iter().map(|(c, pc)| json!([hx(c), (pc * 4).to_string()])).collect::<Vec<_>>(),
                          "breaks": breaks, "final": final_json(&vm, &st, Some(&post))}));
        }
    }
}
