//! Per-instruction recorder for the FuelVM interpreter (Leg T of C05, C21-C34, C36).
//!
//! Two ways of driving the real interpreter, both logged as `Step` events:
//!  * mode "run":  `transact` with single-stepping on, then `resume` per instruction — the real fetch/run
//!                 loop; the terminal step also contains the VM's own finalisation.
//!  * mode "exec": registers are preset by the harness (`Poke` event), one instruction is executed through
//!                 the public `Interpreter::instruction` (no fetch).
//! The harness is dumb: it snapshots registers/memory/receipts before and after and logs the differences.
#![allow(dead_code)]
use crate::util::*;
use fuel_asm::{PanicReason, RegId};
use fuel_tx::{field::ReceiptsRoot, ConsensusParameters, DependentCost, GasCosts, Receipt, Script};
use fuel_types::canonical::Serialize;
use fuel_vm::{
    checked_transaction::{Checked, IntoChecked},
    error::InterpreterError,
    interpreter::{Interpreter, InterpreterParams, MemoryInstance, NotSupportedEcal},
    prelude::*,
    state::{ExecuteState, ProgramState},
    storage::{InterpreterStorage, MemoryStorage},
    verification::Normal,
};
use serde_json::{json, Map, Value};

pub const MEM: u64 = 1 << 26;
pub type Vm<S> = Interpreter<MemoryInstance, S, Script, NotSupportedEcal, Normal>;

/// every JSON number becomes a decimal string (TLC's JSON reader wraps integers >= 2^31)
pub fn num2str(v: Value) -> Value {
    match v {
        Value::Number(n) => Value::String(n.to_string()),
        Value::Array(a) => Value::Array(a.into_iter().map(num2str).collect()),
        Value::Object(o) => Value::Object(o.into_iter().map(|(k, v)| (k, num2str(v))).collect()),
        x => x,
    }
}

/// bytes given as JSON arrays of numbers (serde of [u8; N] / Vec<u8>) are left alone by num2str; receipts use hex
pub fn receipt_json(r: &Receipt) -> Value {
    let mut o = Map::new();
    let s = |x: &dyn std::fmt::Display| Value::String(x.to_string());
    macro_rules! put { ($k:expr, $v:expr) => { o.insert($k.to_string(), $v); }; }
    match r {
        Receipt::Call { id, to, amount, asset_id, gas, param1, param2, pc, is } => {
            put!("kind", json!("Call")); put!("id", json!(hx(id))); put!("to", json!(hx(to))); put!("amount", s(amount));
            put!("asset_id", json!(hx(asset_id))); put!("gas", s(gas)); put!("param1", s(param1)); put!("param2", s(param2));
            put!("pc", s(pc)); put!("is", s(is));
        }
        Receipt::Return { id, val, pc, is } => { put!("kind", json!("Return")); put!("id", json!(hx(id))); put!("val", s(val)); put!("pc", s(pc)); put!("is", s(is)); }
        Receipt::ReturnData { id, ptr, len, digest, pc, is, data } => {
            put!("kind", json!("ReturnData")); put!("id", json!(hx(id))); put!("ptr", s(ptr)); put!("len", s(len)); put!("digest", json!(hx(digest)));
            put!("pc", s(pc)); put!("is", s(is)); put!("data", json!(data.as_ref().map(|d| hx(d.as_ref() as &[u8]))));
        }
        Receipt::Panic { id, reason, pc, is, contract_id } => {
            put!("kind", json!("Panic")); put!("id", json!(hx(id))); put!("reason", json!(format!("{:?}", reason.reason())));
            put!("instr", json!(format!("{:08x}", reason.instruction()))); put!("pc", s(pc)); put!("is", s(is));
            put!("contract_id", json!(contract_id.map(|c| hx(c))));
        }
        Receipt::Revert { id, ra, pc, is } => { put!("kind", json!("Revert")); put!("id", json!(hx(id))); put!("ra", s(ra)); put!("pc", s(pc)); put!("is", s(is)); }
        Receipt::Log { id, ra, rb, rc, rd, pc, is } => {
            put!("kind", json!("Log")); put!("id", json!(hx(id))); put!("ra", s(ra)); put!("rb", s(rb)); put!("rc", s(rc)); put!("rd", s(rd)); put!("pc", s(pc)); put!("is", s(is));
        }
        Receipt::LogData { id, ra, rb, ptr, len, digest, pc, is, data } => {
            put!("kind", json!("LogData")); put!("id", json!(hx(id))); put!("ra", s(ra)); put!("rb", s(rb)); put!("ptr", s(ptr)); put!("len", s(len));
            put!("digest", json!(hx(digest))); put!("pc", s(pc)); put!("is", s(is)); put!("data", json!(data.as_ref().map(|d| hx(d.as_ref() as &[u8]))));
        }
        Receipt::Transfer { id, to, amount, asset_id, pc, is } => {
            put!("kind", json!("Transfer")); put!("id", json!(hx(id))); put!("to", json!(hx(to))); put!("amount", s(amount)); put!("asset_id", json!(hx(asset_id))); put!("pc", s(pc)); put!("is", s(is));
        }
        Receipt::TransferOut { id, to, amount, asset_id, pc, is } => {
            put!("kind", json!("TransferOut")); put!("id", json!(hx(id))); put!("to", json!(hx(to))); put!("amount", s(amount)); put!("asset_id", json!(hx(asset_id))); put!("pc", s(pc)); put!("is", s(is));
        }
        Receipt::ScriptResult { result, gas_used } => { put!("kind", json!("ScriptResult")); put!("result", json!(format!("{:?}", result))); put!("gas_used", s(gas_used)); }
        Receipt::MessageOut { sender, recipient, amount, nonce, len, digest, data } => {
            put!("kind", json!("MessageOut")); put!("sender", json!(hx(sender))); put!("recipient", json!(hx(recipient))); put!("amount", s(amount));
            put!("nonce", json!(hx(nonce))); put!("len", s(len)); put!("digest", json!(hx(digest))); put!("data", json!(data.as_ref().map(|d| hx(d.as_ref() as &[u8]))));
        }
        Receipt::Mint { sub_id, contract_id, val, pc, is } => {
            put!("kind", json!("Mint")); put!("sub_id", json!(hx(sub_id))); put!("contract_id", json!(hx(contract_id))); put!("val", s(val)); put!("pc", s(pc)); put!("is", s(is));
        }
        Receipt::Burn { sub_id, contract_id, val, pc, is } => {
            put!("kind", json!("Burn")); put!("sub_id", json!(hx(sub_id))); put!("contract_id", json!(hx(contract_id))); put!("val", s(val)); put!("pc", s(pc)); put!("is", s(is));
        }
    }
    o.insert("enc".into(), json!(hx(r.to_bytes())));
    Value::Object(o)
}

/// the gas schedule read through the accessors the interpreter itself uses
pub fn gas_json(g: &GasCosts) -> Value {
    let mut o = Map::new();
    macro_rules! w { ($k:expr, $v:expr) => { match $v { Ok(x) => { o.insert($k.to_string(), Value::String(x.to_string())); } Err(_) => { o.insert($k.to_string(), json!("undefined")); } } }; }
    macro_rules! d { ($k:expr, $v:expr) => { match $v {
        Ok(DependentCost::LightOperation { base, units_per_gas }) => { o.insert($k.to_string(), json!({"k": "light", "base": base.to_string(), "u": units_per_gas.to_string()})); }
        Ok(DependentCost::HeavyOperation { base, gas_per_unit }) => { o.insert($k.to_string(), json!({"k": "heavy", "base": base.to_string(), "u": gas_per_unit.to_string()})); }
        Err(_) => { o.insert($k.to_string(), json!("undefined")); } } }; }
    w!("add", Ok::<u64, ()>(g.add()));
    w!("addi", Ok::<u64, ()>(g.addi()));
    w!("and", Ok::<u64, ()>(g.and()));
    w!("andi", Ok::<u64, ()>(g.andi()));
    w!("bal", Ok::<u64, ()>(g.bal()));
    w!("bhei", Ok::<u64, ()>(g.bhei()));
    w!("bhsh", Ok::<u64, ()>(g.bhsh()));
    w!("burn", Ok::<u64, ()>(g.burn()));
    w!("cb", Ok::<u64, ()>(g.cb()));
    w!("cfsi", Ok::<u64, ()>(g.cfsi()));
    w!("div", Ok::<u64, ()>(g.div()));
    w!("divi", Ok::<u64, ()>(g.divi()));
    w!("eck1", Ok::<u64, ()>(g.eck1()));
    w!("ecr1", Ok::<u64, ()>(g.ecr1()));
    w!("eq", Ok::<u64, ()>(g.eq_()));
    w!("exp", Ok::<u64, ()>(g.exp()));
    w!("expi", Ok::<u64, ()>(g.expi()));
    w!("flag", Ok::<u64, ()>(g.flag()));
    w!("gm", Ok::<u64, ()>(g.gm()));
    w!("gt", Ok::<u64, ()>(g.gt()));
    w!("gtf", Ok::<u64, ()>(g.gtf()));
    w!("ji", Ok::<u64, ()>(g.ji()));
    w!("jmp", Ok::<u64, ()>(g.jmp()));
    w!("jne", Ok::<u64, ()>(g.jne()));
    w!("jnei", Ok::<u64, ()>(g.jnei()));
    w!("jnzi", Ok::<u64, ()>(g.jnzi()));
    w!("jmpf", Ok::<u64, ()>(g.jmpf()));
    w!("jmpb", Ok::<u64, ()>(g.jmpb()));
    w!("jnzf", Ok::<u64, ()>(g.jnzf()));
    w!("jnzb", Ok::<u64, ()>(g.jnzb()));
    w!("jnef", Ok::<u64, ()>(g.jnef()));
    w!("jneb", Ok::<u64, ()>(g.jneb()));
    w!("lb", Ok::<u64, ()>(g.lb()));
    w!("log", Ok::<u64, ()>(g.log()));
    w!("lt", Ok::<u64, ()>(g.lt()));
    w!("lw", Ok::<u64, ()>(g.lw()));
    w!("mint", Ok::<u64, ()>(g.mint()));
    w!("mlog", Ok::<u64, ()>(g.mlog()));
    w!("mod", Ok::<u64, ()>(g.mod_op()));
    w!("modi", Ok::<u64, ()>(g.modi()));
    w!("move", Ok::<u64, ()>(g.move_op()));
    w!("movi", Ok::<u64, ()>(g.movi()));
    w!("mroo", Ok::<u64, ()>(g.mroo()));
    w!("mul", Ok::<u64, ()>(g.mul()));
    w!("muli", Ok::<u64, ()>(g.muli()));
    w!("mldv", Ok::<u64, ()>(g.mldv()));
    w!("niop", g.niop());
    w!("noop", Ok::<u64, ()>(g.noop()));
    w!("not", Ok::<u64, ()>(g.not()));
    w!("or", Ok::<u64, ()>(g.or()));
    w!("ori", Ok::<u64, ()>(g.ori()));
    w!("poph", Ok::<u64, ()>(g.poph()));
    w!("popl", Ok::<u64, ()>(g.popl()));
    w!("pshh", Ok::<u64, ()>(g.pshh()));
    w!("pshl", Ok::<u64, ()>(g.pshl()));
    w!("ret", Ok::<u64, ()>(g.ret()));
    w!("rvrt", Ok::<u64, ()>(g.rvrt()));
    w!("sb", Ok::<u64, ()>(g.sb()));
    w!("sll", Ok::<u64, ()>(g.sll()));
    w!("slli", Ok::<u64, ()>(g.slli()));
    w!("srl", Ok::<u64, ()>(g.srl()));
    w!("srli", Ok::<u64, ()>(g.srli()));
    w!("srw", g.srw());
    w!("sub", Ok::<u64, ()>(g.sub()));
    w!("subi", Ok::<u64, ()>(g.subi()));
    w!("sw", Ok::<u64, ()>(g.sw()));
    w!("sww", g.sww());
    w!("time", Ok::<u64, ()>(g.time()));
    w!("tr", Ok::<u64, ()>(g.tr()));
    w!("tro", Ok::<u64, ()>(g.tro()));
    w!("wdcm", Ok::<u64, ()>(g.wdcm()));
    w!("wqcm", Ok::<u64, ()>(g.wqcm()));
    w!("wdop", Ok::<u64, ()>(g.wdop()));
    w!("wqop", Ok::<u64, ()>(g.wqop()));
    w!("wdml", Ok::<u64, ()>(g.wdml()));
    w!("wqml", Ok::<u64, ()>(g.wqml()));
    w!("wddv", Ok::<u64, ()>(g.wddv()));
    w!("wqdv", Ok::<u64, ()>(g.wqdv()));
    w!("wdmd", Ok::<u64, ()>(g.wdmd()));
    w!("wqmd", Ok::<u64, ()>(g.wqmd()));
    w!("wdam", Ok::<u64, ()>(g.wdam()));
    w!("wqam", Ok::<u64, ()>(g.wqam()));
    w!("wdmm", Ok::<u64, ()>(g.wdmm()));
    w!("wqmm", Ok::<u64, ()>(g.wqmm()));
    w!("xor", Ok::<u64, ()>(g.xor()));
    w!("xori", Ok::<u64, ()>(g.xori()));
    w!("ecop", g.ecop());
    d!("aloc", Ok::<DependentCost, ()>(g.aloc()));
    d!("cfe", Ok::<DependentCost, ()>(g.cfe()));
    d!("cfei", Ok::<DependentCost, ()>(g.cfei()));
    d!("call", Ok::<DependentCost, ()>(g.call()));
    d!("ccp", Ok::<DependentCost, ()>(g.ccp()));
    d!("croo", Ok::<DependentCost, ()>(g.croo()));
    d!("csiz", Ok::<DependentCost, ()>(g.csiz()));
    d!("ed19", Ok::<DependentCost, ()>(g.ed19()));
    d!("k256", Ok::<DependentCost, ()>(g.k256()));
    d!("ldc", Ok::<DependentCost, ()>(g.ldc()));
    d!("logd", Ok::<DependentCost, ()>(g.logd()));
    d!("mcl", Ok::<DependentCost, ()>(g.mcl()));
    d!("mcli", Ok::<DependentCost, ()>(g.mcli()));
    d!("mcp", Ok::<DependentCost, ()>(g.mcp()));
    d!("mcpi", Ok::<DependentCost, ()>(g.mcpi()));
    d!("meq", Ok::<DependentCost, ()>(g.meq()));
    d!("retd", Ok::<DependentCost, ()>(g.retd()));
    d!("s256", Ok::<DependentCost, ()>(g.s256()));
    d!("scwq", g.scwq());
    d!("smo", Ok::<DependentCost, ()>(g.smo()));
    d!("srwq", g.srwq());
    d!("swwq", g.swwq());
    d!("bsiz", g.bsiz());
    d!("bldd", g.bldd());
    d!("epar", g.epar());
    d!("storage_read_cold", g.storage_read_cold());
    d!("storage_read_hot", g.storage_read_hot());
    d!("storage_write", g.storage_write());
    d!("storage_clear", g.storage_clear());
    d!("contract_root", Ok::<DependentCost, ()>(g.contract_root()));
    d!("state_root", Ok::<DependentCost, ()>(g.state_root()));
    w!("new_storage_per_byte", Ok::<u64, ()>(g.new_storage_per_byte()));
    d!("vm_initialization", Ok::<DependentCost, ()>(g.vm_initialization()));
    Value::Object(o)
}

#[derive(Clone)]
pub struct Snap {
    pub regs: [u64; 64],
    pub stack: Vec<u8>,
    pub hp: u64,
    pub heap: Vec<u8>,
    pub nrc: usize,
}

pub fn snap<S>(vm: &Vm<S>) -> Snap {
    let mut regs = [0u64; 64];
    regs.copy_from_slice(vm.registers());
    let m = vm.memory();
    let raw = m.heap_raw();
    // the live heap is the top (MEM - hp) bytes of the heap allocation; the memory's own hp is authoritative,
    // not the $hp register (a harness Poke may have moved the register)
    let hp_mem = mem_hp(m);
    let live = (MEM - hp_mem) as usize;
    let heap = raw[raw.len() - live..].to_vec();
    Snap { regs, stack: m.stack_raw().to_vec(), hp: hp_mem, heap, nrc: vm.receipts().len() }
}

/// the memory instance's heap pointer, found through its public `verify` (accessible iff start >= hp or end <= stack len)
pub fn mem_hp(m: &MemoryInstance) -> u64 {
    // binary search the smallest address a (>= stack len) for which [a, a+1) is accessible; MEM if none
    let slen = m.stack_raw().len() as u64;
    let (mut lo, mut hi) = (slen, MEM); // invariant: every address in [hi, MEM) accessible; addresses in [slen, lo) not
    if lo >= hi { return hi.max(slen).min(MEM); }
    while lo < hi {
        let mid = (lo + hi) / 2;
        if m.verify(mid, 1u64).is_ok() { hi = mid; } else { lo = mid + 1; }
    }
    hi
}

fn byte_at(s: &Snap, a: u64) -> u8 {
    if (a as usize) < s.stack.len() { s.stack[a as usize] }
    else if a >= s.hp { s.heap[(a - s.hp) as usize] }
    else { 0 }
}

static ZEROS: [u8; 4096] = [0u8; 4096];

/// the bytes of [lo, hi) (hi - lo <= 4096) if the range lies entirely in one region (stack / heap / inaccessible = zeros)
fn slice_at(s: &Snap, lo: u64, hi: u64) -> Option<&[u8]> {
    if hi as usize <= s.stack.len() { return Some(&s.stack[lo as usize..hi as usize]); }
    if lo >= s.hp { return Some(&s.heap[(lo - s.hp) as usize..(hi - s.hp) as usize]); }
    if lo as usize >= s.stack.len() && hi <= s.hp { return Some(&ZEROS[..(hi - lo) as usize]); }
    None
}

/// maximal runs of addresses whose byte differs between the two snapshots (inaccessible bytes count as zero)
pub fn mem_diff(a: &Snap, b: &Snap) -> Vec<(u64, Vec<u8>)> {
    let mut out: Vec<(u64, Vec<u8>)> = vec![];
    let mut cur: Option<(u64, Vec<u8>)> = None;
    let mut scan = |lo: u64, hi: u64, out: &mut Vec<(u64, Vec<u8>)>, cur: &mut Option<(u64, Vec<u8>)>| {
        let mut x = lo;
        while x < hi {
            let y = (x + 4096).min(hi);
            if let (Some(p), Some(q)) = (slice_at(a, x, y), slice_at(b, x, y)) {
                if p == q { if let Some(c) = cur.take() { out.push(c); } x = y; continue; }
            }
            for z in x..y {
                let (p, q) = (byte_at(a, z), byte_at(b, z));
                if p != q {
                    match cur { Some((_, v)) => v.push(q), None => *cur = Some((z, vec![q])) }
                } else if let Some(c) = cur.take() { out.push(c); }
            }
            x = y;
        }
        if let Some(c) = cur.take() { out.push(c); }
    };
    let smax = a.stack.len().max(b.stack.len()) as u64;
    let hmin = a.hp.min(b.hp);
    if smax <= hmin { scan(0, smax, &mut out, &mut cur); scan(hmin, MEM, &mut out, &mut cur); } else { scan(0, MEM, &mut out, &mut cur); }
    out
}

pub fn regs_json(r: &[u64; 64]) -> Value { Value::Array(r.iter().map(|x| Value::String(x.to_string())).collect()) }

pub fn regs_diff(a: &Snap, b: &Snap) -> Value {
    let mut o = Map::new();
    for i in 0..64 { if a.regs[i] != b.regs[i] { o.insert(i.to_string(), Value::String(b.regs[i].to_string())); } }
    Value::Object(o)
}

pub fn memdiff_json(d: &[(u64, Vec<u8>)]) -> Value { Value::Array(d.iter().map(|(a, v)| json!([a, hx(v)])).collect()) }

pub struct World {
    pub params: ConsensusParameters,
    pub gas_price: u64,
    pub storage: MemoryStorage,
    pub block_height: u32,
}

impl World {
    pub fn iparams(&self) -> InterpreterParams { InterpreterParams::new(self.gas_price, &self.params) }
}

/// static environment of a run, as the implementation holds it
pub fn env_json<S>(vm: &Vm<S>, w: &World) -> Value {
    json!({
        "gas": gas_json(vm.gas_costs()),
        "default_gas": vm.gas_costs() == &GasCosts::default(),
        "tx_offset": vm.tx_offset(),
        "max_inputs": vm.max_inputs(),
        "chain_id": u64::from(vm.chain_id()).to_string(),
        "gas_price": vm.gas_price().to_string(),
        "base_asset": hx(vm.base_asset_id()),
        "block_height": w.block_height,
        "contract_max_size": vm.contract_max_size().to_string(),
        "max_message_data_length": vm.max_message_data_length().to_string(),
    })
}

pub fn out_of_execute<E: std::fmt::Debug>(r: &Result<ExecuteState, InterpreterError<E>>) -> Value {
    match r {
        Ok(ExecuteState::Proceed) => json!({"out": "proceed"}),
        Ok(ExecuteState::Return(v)) => json!({"out": "return", "val": v.to_string()}),
        Ok(ExecuteState::ReturnData(d)) => json!({"out": "returndata", "digest": hx(d)}),
        Ok(ExecuteState::Revert(v)) => json!({"out": "revert", "val": v.to_string()}),
        Ok(ExecuteState::DebugEvent(_)) => json!({"out": "debug"}),
        Err(InterpreterError::PanicInstruction(p)) => json!({"out": "panic", "reason": format!("{:?}", p.reason()), "instr": format!("{:08x}", p.instruction())}),
        Err(InterpreterError::Panic(p)) => json!({"out": "panic", "reason": format!("{:?}", p)}),
        Err(InterpreterError::Bug(b)) => json!({"out": "bug", "msg": format!("{b:?}")}),
        Err(InterpreterError::Storage(e)) => json!({"out": "storage-error", "msg": format!("{e:?}")}),
        Err(e) => json!({"out": "error", "msg": format!("{e:?}")}),
    }
}

pub fn out_of_state<E: std::fmt::Debug>(r: &Result<ProgramState, InterpreterError<E>>) -> Value {
    match r {
        Ok(ProgramState::Return(v)) => json!({"state": "return", "val": v.to_string()}),
        Ok(ProgramState::ReturnData(d)) => json!({"state": "returndata", "digest": hx(d)}),
        Ok(ProgramState::Revert(v)) => json!({"state": "revert", "val": v.to_string()}),
        Ok(ProgramState::RunProgram(_)) | Ok(ProgramState::VerifyPredicate(_)) => json!({"state": "debug"}),
        Err(InterpreterError::Bug(b)) => json!({"state": "bug", "msg": format!("{b:?}")}),
        Err(InterpreterError::Storage(e)) => json!({"state": "storage-error", "msg": format!("{e:?}")}),
        Err(InterpreterError::PanicInstruction(p)) => json!({"state": "error-panic", "reason": format!("{:?}", p.reason())}),
        Err(InterpreterError::Panic(p)) => json!({"state": "error-panic", "reason": format!("{:?}", p)}),
        Err(e) => json!({"state": "error", "msg": format!("{e:?}")}),
    }
}

fn merge(mut a: Value, b: Value) -> Value {
    for (k, v) in b.as_object().unwrap() { a[k] = v.clone(); }
    a
}

pub fn step_event(run: u64, i: u64, mode: &str, pre: &Snap, post: &Snap, word: Option<u32>, rc: &[Receipt]) -> Value {
    json!({
        "ev": "Step", "run": run, "i": i, "mode": mode,
        "pc": pre.regs[RegId::PC.to_u8() as usize].to_string(),
        "word": word.map(|w| format!("{:08x}", w)),
        "regs": regs_diff(pre, post),
        "mem": memdiff_json(&mem_diff(pre, post)),
        "slen": post.stack.len(), "hp": post.hp,
        "rc": Value::Array(rc[pre.nrc.min(rc.len())..].iter().map(receipt_json).collect()),
    })
}

pub fn read_word(s: &Snap, pc: u64) -> Option<u32> {
    if pc.checked_add(4)? > MEM { return None; }
    let ok = (pc + 4) as usize <= s.stack.len() || pc >= s.hp;
    if !ok { return None; }
    Some(u32::from_be_bytes([byte_at(s, pc), byte_at(s, pc + 1), byte_at(s, pc + 2), byte_at(s, pc + 3)]))
}

/// Run one checked script through the real run loop, single-stepped. Emits Init, Step*, Final.
/// Returns the number of steps. `max_steps` bounds runaway executions (reported as out = "runaway").
pub fn record_run<S>(out: &mut Out, run: u64, vm: &mut Vm<S>, w: &World, checked: Checked<Script>, extra: Value, max_steps: u64) -> u64
where
    S: InterpreterStorage,
    S::DataError: std::fmt::Debug,
{
    record_run_with(out, run, vm, w, checked, extra, max_steps, None)
}

pub fn outputs_json<S>(vm: &Vm<S>) -> Value {
    use fuel_tx::field::Outputs;
    use fuel_tx::Output;
    let tx = vm.transaction();
    let base = vm.tx_offset();
    Value::Array(tx.outputs().iter().enumerate().map(|(i, o)| {
        let kind = match o { Output::Coin { .. } => "Coin", Output::Contract(_) => "Contract", Output::Change { .. } => "Change",
                             Output::Variable { .. } => "Variable", Output::ContractCreated { .. } => "ContractCreated" };
        json!({"kind": kind, "off": base + tx.outputs_offset_at(i).unwrap_or(0),
               "to": o.to().map(|t| hx(t)).unwrap_or_default(), "amount": o.amount().unwrap_or(0).to_string(),
               "asset": o.asset_id().map(|a| hx(a)).unwrap_or_default()})
    }).collect())
}

pub fn balances_json<S>(vm: &Vm<S>) -> Value {
    let ib = vm.initial_balances();
    let mut m = Map::new();
    for (a, v) in ib.non_retryable.iter() { m.insert(hx(a), Value::String(v.to_string())); }
    let retry: Word = ib.retryable.map(|r| r.into()).unwrap_or(0);
    json!({"nonret": Value::Object(m), "retry": retry.to_string()})
}

/// like record_run; `post` adds driver-specific observations of the final state (e.g. a storage dump) to the Final event
pub fn record_run_with<S>(out: &mut Out, run: u64, vm: &mut Vm<S>, w: &World, checked: Checked<Script>, extra: Value, max_steps: u64,
                          post: Option<&dyn Fn(&Vm<S>) -> Value>) -> u64
where
    S: InterpreterStorage,
    S::DataError: std::fmt::Debug,
{
    let fee_info = {
        use fuel_tx::field::{MaxFeeLimit, Tip};
        use fuel_tx::Chargeable;
        let tx = checked.transaction();
        json!({"min_gas": tx.min_gas(w.params.gas_costs(), w.params.fee_params()).to_string(), "max_fee": tx.max_fee_limit().to_string(),
               "tip": tx.tip().to_string(), "factor": w.params.fee_params().gas_price_factor().to_string(), "price": w.gas_price.to_string()})
    };
    let ready = match checked.into_ready(w.gas_price, w.params.gas_costs(), w.params.fee_params(), Some(w.block_height.into())) {
        Ok(r) => r,
        Err(e) => { out.ev(json!({"ev": "NotReady", "run": run, "err": format!("{e:?}")})); return 0; }
    };
    vm.set_single_stepping(true);
    let r = catch(std::panic::AssertUnwindSafe(|| vm.transact(ready).map(|st| *st.state())));
    let mut state = match r {
        Ok(s) => s,
        Err(m) => { out.ev(json!({"ev": "HostPanic", "run": run, "where": "transact", "msg": m})); return 0; }
    };
    let s0 = snap(vm);
    let early = !matches!(state, Ok(ProgramState::RunProgram(_)));
    out.ev(merge(json!({
        "ev": "Init", "run": run, "kind": "script", "env": env_json(vm, w),
        "regs": regs_json(&s0.regs), "stack": hx(&s0.stack), "hp": s0.hp,
        "tx": hx(vm.transaction().to_bytes()), "early": early,
        "outs": outputs_json(vm), "bal0": balances_json(vm), "fee": fee_info,
    }), extra));
    let mut i = 0u64;
    if early {
        // empty script / failure before the first instruction: no steps; the receipts so far belong to initialisation
        let rc: Vec<Receipt> = vm.receipts().to_vec();
        out.ev(merge(json!({"ev": "Early", "run": run, "rc": Value::Array(rc.iter().map(receipt_json).collect())}), out_of_state(&state)));
    }
    while matches!(state, Ok(ProgramState::RunProgram(_))) {
        if i >= max_steps { out.ev(json!({"ev": "Runaway", "run": run, "steps": i})); break; }
        let pre = snap(vm);
        let pc = pre.regs[RegId::PC.to_u8() as usize];
        let word = read_word(&pre, pc);
        let r = catch(std::panic::AssertUnwindSafe(|| vm.resume()));
        match r {
            Ok(s) => state = s,
            Err(m) => { out.ev(json!({"ev": "HostPanic", "run": run, "where": "resume", "i": i, "msg": m, "word": word.map(|w| format!("{:08x}", w))})); return i; }
        }
        let post = snap(vm);
        let rc: Vec<Receipt> = vm.receipts().to_vec();
        let mut ev = step_event(run, i, "run", &pre, &post, word, &rc);
        if !matches!(state, Ok(ProgramState::RunProgram(_))) { ev["fin"] = out_of_state(&state); }
        out.ev(ev);
        i += 1;
    }
    let rc: Vec<Receipt> = vm.receipts().to_vec();
    let tx_after = vm.transaction().to_bytes();
    out.ev(merge(json!({
        "ev": "Final", "run": run, "steps": i,
        "tx_after": hx(&tx_after),
        "receipts_root": hx(vm.transaction().receipts_root()),
        "rc_all": Value::Array(rc.iter().map(|r| json!(hx(r.to_bytes()))).collect()),
        "nrc": rc.len(),
        "outputs": outputs_json(vm),
        "post": post.map(|f| f(vm)).unwrap_or(Value::Null),
    }), out_of_state(&state)));
    i
}

/// mode "exec": the harness presets registers (`poke`, an environment action in the spec), then one raw instruction is
/// executed on the current VM state through the public `instruction` entry point
pub fn exec_one<S>(out: &mut Out, run: u64, i: u64, vm: &mut Vm<S>, sets: &[(usize, u64)], raw: u32) -> bool
where
    S: InterpreterStorage,
    S::DataError: std::fmt::Debug,
{
    let mut po = Map::new();
    for (i, v) in sets { vm.registers_mut()[*i] = *v; po.insert(i.to_string(), Value::String(v.to_string())); }
    let pre = snap(vm);
    let r = catch(std::panic::AssertUnwindSafe(|| vm.instruction::<u32, false>(raw)));
    match r {
        Ok(res) => {
            let post = snap(vm);
            let rc: Vec<Receipt> = vm.receipts().to_vec();
            let mut ev = merge(step_event(run, i, "exec", &pre, &post, Some(raw), &rc), out_of_execute(&res));
            ev["poke"] = Value::Object(po);
            out.ev(ev);
            matches!(res, Ok(ExecuteState::Proceed))
        }
        Err(m) => { out.ev(json!({"ev": "HostPanic", "run": run, "where": "instruction", "i": i, "msg": m, "word": format!("{:08x}", raw), "poke": Value::Object(po)})); false }
    }
}

/// the harness presets registers (an environment action in the spec)
pub fn poke<S>(out: &mut Out, run: u64, vm: &mut Vm<S>, sets: &[(usize, u64)]) {
    let mut o = Map::new();
    for (i, v) in sets { vm.registers_mut()[*i] = *v; o.insert(i.to_string(), Value::String(v.to_string())); }
    out.ev(json!({"ev": "Poke", "run": run, "regs": Value::Object(o)}));
}

pub fn panic_reason_name(r: PanicReason) -> String { format!("{:?}", r) }

pub fn checked_script(tx: Script, w: &World) -> Result<Checked<Script>, String> {
    tx.into_checked_basic(w.block_height.into(), &w.params).map_err(|e| format!("{e:?}"))
}

/// summary of a finished (un-stepped) execution, same shape as the comparable part of a Final event
pub fn final_json<S>(vm: &Vm<S>, state: &Result<ProgramState, InterpreterError<S::DataError>>, post: Option<&dyn Fn(&Vm<S>) -> Value>) -> Value
where
    S: InterpreterStorage,
    S::DataError: std::fmt::Debug,
{
    let rc: Vec<Receipt> = vm.receipts().to_vec();
    merge(json!({
        "tx_after": hx(vm.transaction().to_bytes()),
        "receipts_root": hx(vm.transaction().receipts_root()),
        "rc_all": Value::Array(rc.iter().map(|r| json!(hx(r.to_bytes()))).collect()),
        "nrc": rc.len(),
        "post": post.map(|f| f(vm)).unwrap_or(Value::Null),
    }), out_of_state(state))
}

/// run a checked script to completion without any debugger involvement
pub fn run_plain<S>(vm: &mut Vm<S>, w: &World, checked: Checked<Script>) -> Result<Result<ProgramState, InterpreterError<S::DataError>>, String>
where
    S: InterpreterStorage,
    S::DataError: std::fmt::Debug,
{
    let ready = checked.into_ready(w.gas_price, w.params.gas_costs(), w.params.fee_params(), Some(w.block_height.into())).map_err(|e| format!("{e:?}"))?;
    catch(std::panic::AssertUnwindSafe(|| vm.transact(ready).map(|st| *st.state())))
}
