------------------------------- MODULE TraceIO -------------------------------
(***************************************************************************)
(* Reading an implementation trace (ndjson, path in env TRACE) and the     *)
(* acceptance condition shared by all trace specifications.                *)
(* A trace specification declares `VARIABLE l` (index of the next event    *)
(* to consume), conjoins `l = 1` to its Init, and writes each disjunct as  *)
(* IsEv(l, "Kind") /\ ... /\ l' = l + 1.  Events carry arguments AND       *)
(* results, so the behaviour graph is a line and                           *)
(* TLCGet("stats").diameter = matched events + 1.                          *)
(***************************************************************************)
LOCAL INSTANCE Naturals
LOCAL INSTANCE Sequences
LOCAL INSTANCE TLC
LOCAL INSTANCE Json
LOCAL INSTANCE IOUtils

Rec == ndJsonDeserialize(IOEnv.TRACE)
NEvents == Len(Rec)
IsEv(l, k) == l <= Len(Rec) /\ Rec[l].ev = k
Has(r, f) == f \in DOMAIN r

\* POSTCONDITION: the whole trace was consumed; otherwise print the first unmatched event.
Accepted ==
    LET d == TLCGet("stats").diameter IN
    IF d - 1 = Len(Rec) THEN TRUE
    ELSE /\ PrintT(<<"TRACE-REJECTED", "matched", d - 1, "of", Len(Rec)>>)
         /\ PrintT(<<"FIRST-UNMATCHED", IF d <= Len(Rec) THEN Rec[d] ELSE "none">>)
         /\ FALSE
=============================================================================
