------------------------------ MODULE VerifHash ------------------------------
(***************************************************************************)
(* SHA-256 over byte strings written as lowercase hex strings.  The TLA+   *)
(* definition is an uninterpreted injective-looking function; TLC          *)
(* evaluates the Java override (java.security.MessageDigest).              *)
(***************************************************************************)
SHA256(h) == CHOOSE d \in STRING : TRUE
=============================================================================
