----------------------------- MODULE BigNatWide -----------------------------
(* Override-only laws on wide values (TLC's own integers cannot hold them). *)
EXTENDS Naturals, Sequences, TLC
BN == INSTANCE BigNat
VH == INSTANCE VerifHash
H == INSTANCE Hex
W == {"0", "1", "4294967295", "4294967296", "9223372036854775807", "9223372036854775808",
      "18446744073709551615", "18446744073709551616", "340282366920938463463374607431768211455",
      "115792089237316195423570985008687907853269984665640564039457584007913129639935"}
ASSUME \A a, b \in W : BN!Sub(BN!Add(a, b), b) = a
ASSUME \A a, b \in W : b # "0" => BN!Add(BN!Mul(BN!Div(a, b), b), BN!Mod(a, b)) = a
ASSUME \A a \in W : BN!FromHex(BN!ToHex(a, 32)) = a
ASSUME \A a \in W : BN!Shr(BN!Shl(a, 70), 70) = a
ASSUME \A a, b \in W : BN!Xor(BN!Xor(a, b), b) = a
ASSUME \A a, b \in W : BN!Add(BN!And(a, b), BN!Or(a, b)) = BN!Add(a, b)
ASSUME BN!Mul(BN!Max64, BN!Max64) = "340282366920938463426481119284349108225"
ASSUME BN!FloorRoot("18446744073709551615", "2") = "4294967295"
ASSUME BN!FloorRoot("18446744065119617025", "2") = "4294967295"
ASSUME BN!FloorRoot("18446744065119617024", "2") = "4294967294"
ASSUME BN!FloorLog("18446744073709551615", "2") = "63"
ASSUME H!BE(258, 8) = "0000000000000102" /\ H!UnBENat("0102") = 258
ASSUME VH!SHA256("") = "e3b0c44298fc1c149afbf4c8996fb92427ae41e4649b934ca495991b7852b855"
ASSUME VH!SHA256("616263") = "ba7816bf8f01cfea414140de5dae2223b00361a396177a9cb410ff61f20015ad"
=============================================================================
