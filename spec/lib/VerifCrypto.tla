----------------------------- MODULE VerifCrypto -----------------------------
(***************************************************************************)
(* Primitive functions used by the cryptographic instructions of the       *)
(* FuelVM specification (module VmCrypto).  As in VerifHash / BigNat the   *)
(* definitions below state the MEANING; TLC evaluates the Java overrides   *)
(* in VerifOps (Keccak-f[1600] written out in plain Java and checked       *)
(* against the published vectors; java.math.BigInteger.modPow/modInverse). *)
(* Numbers are BigNat values (canonical decimal strings), byte strings are *)
(* lowercase hex strings.                                                  *)
(***************************************************************************)
LOCAL INSTANCE Naturals
LOCAL INSTANCE Sequences
LOCAL BN == INSTANCE BigNat

\* Keccak-256 (original Keccak padding, rate 1088, capacity 512) of a byte string: an uninterpreted function here
Keccak256(h) == CHOOSE d \in STRING : TRUE

\* a^e mod m   (m >= 1)
ModPow(a, e, m) == BN!Mod(BN!Pow(a, e), m)

\* the multiplicative inverse of a modulo m: the x < m with a * x = 1 (mod m)   (defined only when gcd(a, m) = 1)
ModInv(a, m) == CHOOSE x \in STRING : BN!Lt(x, m) /\ BN!Mod(BN!Mul(a, x), m) = BN!Mod("1", m)
=============================================================================
