----------------------------- MODULE BigNatTest -----------------------------
(* Self-test of the overrides: run twice, with and without the override class; *)
(* both must satisfy the same assumptions (definition = override on small      *)
(* numbers), and the override-only run checks algebraic laws on wide values.   *)
EXTENDS Naturals, Sequences, TLC
BN == INSTANCE BigNat
H == INSTANCE Hex
VH == INSTANCE VerifHash

Small == {0, 1, 2, 3, 7, 9, 10, 15, 16, 17, 99, 100, 255, 256, 257, 1000, 4095, 32767}
S(n) == BN!FromNat(n)

ASSUME \A a \in Small : BN!ToNat(S(a)) = a
ASSUME \A a, b \in Small : BN!Add(S(a), S(b)) = S(a + b)
ASSUME \A a, b \in Small : a >= b => BN!Sub(S(a), S(b)) = S(a - b)
ASSUME \A a, b \in Small : BN!Mul(S(a), S(b)) = S(a * b)
ASSUME \A a, b \in Small : b # 0 => BN!Div(S(a), S(b)) = S(a \div b) /\ BN!Mod(S(a), S(b)) = S(a % b)
ASSUME \A a, b \in Small : BN!Lt(S(a), S(b)) = (a < b) /\ BN!Le(S(a), S(b)) = (a <= b)
ASSUME \A a \in Small : \A k \in 0..4 : BN!Shl(S(a), k) = S(a * 2^k) /\ BN!Shr(S(a), k) = S(a \div 2^k)
ASSUME \A a \in {1,2,3,5,10} : \A e \in 0..4 : BN!Pow(S(a), S(e)) = S(a^e)
ASSUME BN!Pow("0", "0") = "1" /\ BN!Pow("0", "3") = "0"
ASSUME BN!And("12", "10") = "8" /\ BN!Or("12", "10") = "14" /\ BN!Xor("12", "10") = "6"
ASSUME BN!BitLen("0") = 0 /\ BN!BitLen("1") = 1 /\ BN!BitLen("255") = 8 /\ BN!BitLen("256") = 9
ASSUME BN!FromHex("ff") = "255" /\ BN!FromHex("0100") = "256" /\ BN!FromHex("") = "0"
ASSUME BN!ToHex("255", 2) = "00ff" /\ BN!ToHex("65536", 2) = "0000" /\ BN!ToHex("0", 0) = ""
ASSUME \A a \in {0,1,2,3,4,8,9,15,16,17,26,27,28,99,100,1000} : \A k \in 1..3 :
          LET r == BN!ToNat(BN!FloorRoot(S(a), S(k))) IN r^k <= a /\ (r+1)^k > a
ASSUME \A a \in {1,2,3,4,8,9,15,16,17,26,27,28,99,100,1000} : \A b \in 2..4 :
          LET e == BN!ToNat(BN!FloorLog(S(a), S(b))) IN b^e <= a /\ b^(e+1) > a
ASSUME H!Zeros(3) = "000000" /\ H!Slice("00112233", 1, 2) = "1122" /\ H!IsZero("0000") /\ ~H!IsZero("0100")
ASSUME H!Splice("00112233", 1, "aabb") = "00aabb33" /\ H!Pad8("aa") = "aa00000000000000" /\ H!Pad8("") = ""
ASSUME H!BitAt("80", 0) = 1 /\ H!BitAt("80", 1) = 0 /\ H!BitAt("0001", 15) = 1 /\ H!BitAt("a5", 2) = 1 /\ H!BitAt("a5", 3) = 0
ASSUME H!Cat(<<"aa", "", "bb">>) = "aabb"
=============================================================================
