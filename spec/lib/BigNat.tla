------------------------------- MODULE BigNat -------------------------------
(***************************************************************************)
(* Exact natural numbers of any size, denoted by canonical decimal strings *)
(* ("0", "17", "18446744073709551616").  TLC's integers are 32-bit; FuelVM *)
(* is a 64-bit machine with 128/256/512-bit intermediates, so every value  *)
(* that may exceed 2^31-1 is carried as such a string.                     *)
(*                                                                         *)
(* The definitions below are the MEANING of each operator (decimal parse,  *)
(* ordinary arithmetic on Nat, decimal print).  TLC evaluates them through *)
(* the Java override VerifOps (java.math.BigInteger); the self-test        *)
(* BigNatTest.tla checks override = definition on small numbers.           *)
(***************************************************************************)
LOCAL INSTANCE Naturals
LOCAL INSTANCE Sequences

LOCAL Digits == <<"0","1","2","3","4","5","6","7","8","9">>
LOCAL DigitVal(c) == (CHOOSE d \in 1..10 : Digits[d] = c) - 1

RECURSIVE Val(_)
Val(s) == IF Len(s) = 0 THEN 0
          ELSE Val(SubSeq(s, 1, Len(s) - 1)) * 10 + DigitVal(SubSeq(s, Len(s), Len(s)))

RECURSIVE Dec(_)
Dec(n) == IF n < 10 THEN Digits[n + 1] ELSE Dec(n \div 10) \o Digits[(n % 10) + 1]

RECURSIVE NatPow(_, _)
NatPow(b, e) == IF e = 0 THEN 1 ELSE b * NatPow(b, e - 1)

Add(a, b) == Dec(Val(a) + Val(b))
Sub(a, b) == Dec(Val(a) - Val(b))              \* defined only when a >= b
Mul(a, b) == Dec(Val(a) * Val(b))
Div(a, b) == Dec(Val(a) \div Val(b))           \* b # 0
Mod(a, b) == Dec(Val(a) % Val(b))              \* b # 0
Pow(a, e) == Dec(NatPow(Val(a), Val(e)))
Lt(a, b)  == Val(a) < Val(b)
Le(a, b)  == Val(a) <= Val(b)
Shl(a, k) == Dec(Val(a) * NatPow(2, k))        \* k is a TLC integer
Shr(a, k) == Dec(Val(a) \div NatPow(2, k))
BitLen(a) == IF Val(a) = 0 THEN 0 ELSE (CHOOSE k \in 1..64 : NatPow(2, k - 1) <= Val(a) /\ Val(a) < NatPow(2, k))
FromNat(n) == Dec(n)                           \* TLC integer -> BigNat
ToNat(a) == Val(a)                             \* BigNat -> TLC integer (must fit)

LOCAL Bit(n, i) == (n \div NatPow(2, i)) % 2
RECURSIVE BitwiseNat(_, _, _, _)
BitwiseNat(f(_, _), x, y, i) ==
    IF x = 0 /\ y = 0 THEN 0
    ELSE f(x % 2, y % 2) + 2 * BitwiseNat(f, x \div 2, y \div 2, i + 1)
And(a, b) == Dec(BitwiseNat(LAMBDA p, q : p * q, Val(a), Val(b), 0))
Or(a, b)  == Dec(BitwiseNat(LAMBDA p, q : IF p + q > 0 THEN 1 ELSE 0, Val(a), Val(b), 0))
Xor(a, b) == Dec(BitwiseNat(LAMBDA p, q : (p + q) % 2, Val(a), Val(b), 0))

LOCAL HexDigits == <<"0","1","2","3","4","5","6","7","8","9","a","b","c","d","e","f">>
LOCAL HexVal(c) == (CHOOSE d \in 1..16 : HexDigits[d] = c) - 1
RECURSIVE HexNat(_)
HexNat(h) == IF Len(h) = 0 THEN 0
             ELSE HexNat(SubSeq(h, 1, Len(h) - 1)) * 16 + HexVal(SubSeq(h, Len(h), Len(h)))
FromHex(h) == Dec(HexNat(h))                   \* big-endian hex string -> BigNat
RECURSIVE NatHex(_, _)
NatHex(n, digits) == IF digits = 0 THEN "" ELSE NatHex(n \div 16, digits - 1) \o HexDigits[(n % 16) + 1]
ToHex(a, w) == NatHex(Val(a) % NatPow(256, w), 2 * w)   \* big-endian, exactly w bytes, of a mod 256^w

\* largest r with r^k <= a (k >= 1)
FloorRoot(a, k) == Dec(CHOOSE r \in 0..Val(a) : NatPow(r, Val(k)) <= Val(a) /\ NatPow(r + 1, Val(k)) > Val(a))
\* largest e with b^e <= a (a >= 1, b >= 2)
FloorLog(a, b) == Dec(CHOOSE e \in 0..Val(a) : NatPow(Val(b), e) <= Val(a) /\ NatPow(Val(b), e + 1) > Val(a))

\* ----- derived (pure TLA+, no override) -----
Eq(a, b) == a = b                               \* canonical strings: equality is string equality
Gt(a, b) == Lt(b, a)
Ge(a, b) == Le(b, a)
Min(a, b) == IF Le(a, b) THEN a ELSE b
Max(a, b) == IF Le(a, b) THEN b ELSE a
IsZero(a) == a = "0"
Two64  == "18446744073709551616"
Max64  == "18446744073709551615"
Two128 == "340282366920938463463374607431768211456"
Two256 == "115792089237316195423570985008687907853269984665640564039457584007913129639936"
Wrap64(a) == Mod(a, Two64)
Fits64(a) == Lt(a, Two64)
SatSub(a, b) == IF Le(b, a) THEN Sub(a, b) ELSE "0"
CeilDiv(a, b) == Div(Add(a, Sub(b, "1")), b)
=============================================================================
