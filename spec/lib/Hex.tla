--------------------------------- MODULE Hex ---------------------------------
(***************************************************************************)
(* Byte strings as lowercase hex strings (two characters per byte).        *)
(* Zeros/Slice/IsZero/Splice have Java overrides for speed; the            *)
(* definitions here are their meaning.                                     *)
(***************************************************************************)
LOCAL INSTANCE Naturals
LOCAL INSTANCE Sequences
LOCAL BN == INSTANCE BigNat

BLen(h) == Len(h) \div 2

RECURSIVE Zeros(_)
Zeros(n) == IF n = 0 THEN "" ELSE "00" \o Zeros(n - 1)

Slice(h, off, len) == SubSeq(h, 2 * off + 1, 2 * (off + len))    \* bytes [off, off+len)

RECURSIVE IsZero(_)
IsZero(h) == Len(h) = 0 \/ (SubSeq(h, 1, 1) = "0" /\ IsZero(SubSeq(h, 2, Len(h))))

Splice(h, off, d) == SubSeq(h, 1, 2 * off) \o d \o SubSeq(h, 2 * off + Len(d) + 1, Len(h))

LOCAL HexDigits == <<"0","1","2","3","4","5","6","7","8","9","a","b","c","d","e","f">>
LOCAL NibVal(c) == (CHOOSE d \in 1..16 : HexDigits[d] = c) - 1
\* bit i of byte string h; bit 0 is the most significant bit of the first byte
BitAt(h, i) == (NibVal(SubSeq(h, (i \div 4) + 1, (i \div 4) + 1)) \div (2 ^ (3 - (i % 4)))) % 2

PadLen(n) == (8 - (n % 8)) % 8                   \* bytes needed to reach a multiple of 8
Pad8(h) == h \o Zeros(PadLen(BLen(h)))           \* right-pad to a multiple of 8 bytes
Aligned8(n) == n + PadLen(n)

BE(n, w) == BN!ToHex(BN!FromNat(n), w)           \* TLC integer -> w big-endian bytes
BEBig(a, w) == BN!ToHex(a, w)                    \* BigNat -> w big-endian bytes
UnBE(h) == BN!FromHex(h)                         \* bytes -> BigNat
UnBENat(h) == BN!ToNat(BN!FromHex(h))            \* bytes -> TLC integer (must fit)

RECURSIVE Cat(_)
Cat(seq) == IF seq = <<>> THEN "" ELSE Head(seq) \o Cat(Tail(seq))
=============================================================================
