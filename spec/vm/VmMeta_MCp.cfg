SPECIFICATION MCSpec
CONSTANTS
  Thorough = FALSE
  EmitReplay = TRUE
INVARIANTS I_Total I_OutcomeShape I_UnknownSelector I_WrongKind I_OutOfRange I_InRangeAnswered I_IndexIgnored I_PolicyLaw I_PointerInImage I_ValueFits I_ZeroedLaw I_AliasesAgree TableWellFormed GmTotal GmContext Emit
CHECK_DEADLOCK FALSE
