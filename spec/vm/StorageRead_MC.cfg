SPECIFICATION MCSpec
CONSTANTS
  MaxLen = 9
  MaxOff = 11
  MaxBuf = 11
  EmitReplay = FALSE
INVARIANTS MissingLaw ExactLaw ZerofillLaw AllocLaw Agree PaddedLaw Emit
CHECK_DEADLOCK FALSE
