------------------------------ MODULE VmCrypto ------------------------------
(***************************************************************************)
(* Cryptographic and block / environment instructions of the FuelVM:       *)
(*     S256 K256            hashing                                        *)
(*     ECK1 ECR1 ED19       signature recovery / verification              *)
(*     ECOP EPAR            alt_bn128 point addition, scalar               *)
(*                          multiplication, pairing check                  *)
(*     BHEI BHSH CB TIME    block height, block hash, coinbase, timestamp  *)
(* written from the FuelVM instruction-set specification (operands, memory *)
(* ranges, panic conditions, flags, gas) and from the definitions of the   *)
(* primitives themselves (FIPS 180-4 / Keccak as overrides; SEC 1 public   *)
(* key recovery, EIP-196 group law and the pairing's bilinearity spelled   *)
(* out below with exact naturals).  Panic conditions are an unordered set. *)
(*                                                                         *)
(* What is computed here and what is taken from the environment:           *)
(*   S256 K256   digest exact.                                             *)
(*   ECK1 ECR1   result exact: Q = r^-1 (s R - z G) per SEC 1 4.1.6 with   *)
(*               x(R) = r, parity of y(R) = top bit of byte 32, s = the    *)
(*               remaining 255 bits; "cannot be verified" (r, s outside    *)
(*               [1, n-1], r not an abscissa, Q = O) zero-fills and sets   *)
(*               $err.  A signature with s > n/2 is the one case with two  *)
(*               admissible outcomes (see CrRecover).                      *)
(*   ED19        the verdict is an environment function (read off the      *)
(*               observation, vm.orc); only $err in {0, 1} may change, and *)
(*               a non-canonical scalar (S >= L) must be refused.          *)
(*   ECOP        exact (affine group law over the BN254 base field).       *)
(*   EPAR        operand decoding / point validity (incl. the G2 subgroup  *)
(*               test [r]Q = O) exact; the result is exact whenever all    *)
(*               non-trivial pairs share one G2 point (then the product is *)
(*               e(sum P_i, Q), which is 1 iff the sum is O), otherwise a  *)
(*               bit taken from the observation.                           *)
(*   BHEI BHSH   the chain (height, coinbase, hash and timestamp of a      *)
(*   CB TIME     height) is environment: field vm.chain, from the Init     *)
(*               event; an answer the Init event does not contain is read  *)
(*               off the observation.                                      *)
(*                                                                         *)
(* vm.orc (optional field) is the trace specification's view of the        *)
(* observed post-state [regs, mem]; it is consulted ONLY for the           *)
(* environment answers named above.  Without it (generative model) the     *)
(* pre-state is used, i.e. "nothing changes".                              *)
(***************************************************************************)
EXTENDS VmBase
LOCAL INSTANCE VerifCrypto

CrTwo32  == "4294967296"
CrTwo255 == "57896044618658097711785492504343953926634992332820282019728792003956564819968"

\* ---- environment views ----
CrHasOrc(vm) == "orc" \in DOMAIN vm
CrOrcReg(vm, r) == IF CrHasOrc(vm) THEN vm.orc.regs[r] ELSE vm.regs[r]
CrOrcBytes(vm, a, n) == ReadBytes(IF CrHasOrc(vm) THEN vm.orc.mem ELSE vm.mem, a, n)          \* a, n: TLC integers
CrWithOrc(v, oregs, omem) == [f \in (DOMAIN v) \cup {"orc"} |-> IF f = "orc" THEN [regs |-> oregs, mem |-> omem] ELSE v[f]]
CrHasChain(vm) == "chain" \in DOMAIN vm /\ vm.chain # <<>>
CrKnownBlock(vm, h) == CrHasChain(vm) /\ h \in DOMAIN vm.chain.blocks
CrGasUndefined(vm, name) == ToString(vm.env.gas[name]) \in {"undefined", "\"undefined\""}
CrNoGas(vm) == Eff("0", {"GasCostNotDefined"}, <<>>, <<>>, vm.slen)

(***************************************************************************)
(* Prime fields and short Weierstrass curves  y^2 = x^3 + a x + b  over    *)
(* F_p.  A curve is a record [p, a, b]; a point is <<x, y>> with reduced   *)
(* coordinates, the point at infinity is <<>>.                             *)
(***************************************************************************)
CrFAdd(x, y, p) == BN!Mod(BN!Add(x, y), p)
CrFSub(x, y, p) == BN!Mod(BN!Sub(BN!Add(x, p), y), p)                     \* x, y < p
CrFMul(x, y, p) == BN!Mod(BN!Mul(x, y), p)
CrInf == <<>>
CrIsInf(P) == Len(P) = 0
CrRhs(C, x) == CrFAdd(CrFAdd(CrFMul(CrFMul(x, x, C.p), x, C.p), CrFMul(C.a, x, C.p), C.p), C.b, C.p)
CrOnCurve(C, P) == CrIsInf(P) \/ CrFMul(P[2], P[2], C.p) = CrRhs(C, P[1])
\* the group law (chord and tangent), complete over points of the curve
CrEcAdd(C, P, Q) ==
    IF CrIsInf(P) THEN Q
    ELSE IF CrIsInf(Q) THEN P
    ELSE LET p == C.p  x1 == P[1]  y1 == P[2]  x2 == Q[1]  y2 == Q[2] IN
         IF x1 = x2 /\ (y1 # y2 \/ y1 = "0") THEN CrInf                         \* Q = -P
         ELSE LET lam == IF x1 = x2
                         THEN CrFMul(CrFAdd(CrFMul("3", CrFMul(x1, x1, p), p), C.a, p), ModInv(CrFMul("2", y1, p), p), p)
                         ELSE CrFMul(CrFSub(y2, y1, p), ModInv(CrFSub(x2, x1, p), p), p)
                  x3  == CrFSub(CrFSub(CrFMul(lam, lam, p), x1, p), x2, p)
                  y3  == CrFSub(CrFMul(lam, CrFSub(x1, x3, p), p), y1, p)
              IN <<x3, y3>>
\* [k]P by double-and-add over the 256 bits of k, most significant first (kh: k as 32 big-endian bytes)
RECURSIVE CrEcMulAcc(_, _, _, _, _)
CrEcMulAcc(C, P, kh, i, acc) ==
    IF i > 255 THEN acc
    ELSE LET d == CrEcAdd(C, acc, acc) IN
         CrEcMulAcc(C, P, kh, i + 1, IF BitAt(kh, i) = 1 THEN CrEcAdd(C, d, P) ELSE d)
CrEcMulDef(C, P, k) == CrEcMulAcc(C, P, BN!ToHex(k, 32), 0, CrInf)             \* k < 2^256
CrEcMul(C, P, k) == CrEcMulDef(C, P, k)               \* (evaluated by a Java override for speed; VmCryptoTest compares the two)
CrKeyEnc(P) == IF CrIsInf(P) THEN Zeros(64) ELSE BEBig(P[1], 32) \o BEBig(P[2], 32)

(***************************************************************************)
(* ECDSA public key recovery (SEC 1 v2, 4.1.6) on secp256k1 and secp256r1. *)
(* Signature encoding of the Fuel specification: 64 bytes r || s' where    *)
(* the most significant bit of s' is the parity of y(R) and the other 255  *)
(* bits are s.  Both field primes are 3 mod 4 (square root = power         *)
(* (p+1)/4); both groups have prime order n < p, so x(R) = r is the only   *)
(* abscissa the encoding can name.                                         *)
(***************************************************************************)
CrK1 == [p  |-> "115792089237316195423570985008687907853269984665640564039457584007908834671663", a |-> "0", b |-> "7",
         n  |-> "115792089237316195423570985008687907852837564279074904382605163141518161494337",
         G  |-> <<"55066263022277343669578718895168534326250603453777594175500187360389116729240",
                  "32670510020758816978083085130507043184471273380659243275938904335757337482424">>,
         sq |-> "28948022309329048855892746252171976963317496166410141009864396001977208667916",                \* (p + 1) / 4
         half |-> "57896044618658097711785492504343953926418782139537452191302581570759080747168"]              \* floor(n / 2)
CrR1 == [p  |-> "115792089210356248762697446949407573530086143415290314195533631308867097853951",
         a  |-> "115792089210356248762697446949407573530086143415290314195533631308867097853948",                \* -3
         b  |-> "41058363725152142129326129780047268409114441015993725554835256314039467401291",
         n  |-> "115792089210356248762697446949407573529996955224135760342422259061068512044369",
         G  |-> <<"48439561293906451759052585252797914202762949526041747995844080717082404635286",
                  "36134250956749795798585127919587881956611106672985015071877198253568414405109">>,
         sq |-> "28948022302589062190674361737351893382521535853822578548883407827216774463488",
         half |-> "57896044605178124381348723474703786764998477612067880171211129530534256022184"]
CrFail == "fail"
\* the SET of admissible results ("fail" or the 64-byte key x || y).  The recovery equation is indifferent to the size of
\* s; the Fuel specification of signatures calls only s <= n/2 valid, so a signature with a larger s may also be refused.
CrRecover(C, sig, msg) ==
    LET r   == UnBE(Slice(sig, 0, 32))
        sv  == UnBE(Slice(sig, 32, 32))
        odd == BN!Le(CrTwo255, sv)
        s   == IF odd THEN BN!Sub(sv, CrTwo255) ELSE sv
        z   == BN!Mod(UnBE(msg), C.n)
        inRange == r # "0" /\ BN!Lt(r, C.n) /\ s # "0" /\ BN!Lt(s, C.n)
        y2  == CrRhs(C, r)
        y0  == ModPow(y2, C.sq, C.p)
        isAbscissa == CrFMul(y0, y0, C.p) = y2 /\ y0 # "0"
        y   == IF (BN!Mod(y0, "2") = "1") = odd THEN y0 ELSE BN!Sub(C.p, y0)
        ri  == ModInv(r, C.n)
        u1  == BN!Mod(BN!Mul(BN!Sub(C.n, z), ri), C.n)                      \* -z / r
        u2  == BN!Mod(BN!Mul(s, ri), C.n)                                   \*  s / r
        Q   == CrEcAdd(C, CrEcMul(C, C.G, u1), CrEcMul(C, <<r, y>>, u2))
        exact == IF ~inRange THEN CrFail ELSE IF ~isAbscissa THEN CrFail ELSE IF CrIsInf(Q) THEN CrFail ELSE CrKeyEnc(Q)
    IN IF inRange /\ BN!Lt(C.half, s) THEN {exact, CrFail} ELSE {exact}

\* ECK1 / ECR1  MEM[$rA, 64] = recover(MEM[$rB, 64], MEM[$rC, 32]); failure: zero-fill and $err = 1, otherwise $err cleared
CrRecoverEff(vm, w, C, gasName) ==
    LET a == Ro(vm, RA(w))  b == Ro(vm, RB(w))  c == Ro(vm, RC(w))
        pan  == WritePanics(vm, a, "64") \cup ReadPanics(vm, b, "64") \cup ReadPanics(vm, c, "32")
        rs   == CrRecover(C, MemRead(vm, b, "64"), MemRead(vm, c, "32"))
        keys == rs \ {CrFail}
        res  == IF CrFail \in rs /\ (keys = {} \/ CrOrcReg(vm, ERR) # "0") THEN CrFail ELSE CHOOSE k \in keys : TRUE
    IN Eff(GasOf(vm, gasName), pan,
           IF pan = {} THEN (ERR :> IF res = CrFail THEN "1" ELSE "0") @@ StepPc(vm) ELSE <<>>,
           IF pan = {} THEN <<<<BN!ToNat(a), IF res = CrFail THEN Zeros(64) ELSE res>>>> ELSE <<>>,
           vm.slen)

(***************************************************************************)
(* S256 / K256   MEM[$rA, 32] = hash(MEM[$rB, $rC])                        *)
(* The charge depends on $rC, which is therefore read before the charge.   *)
(***************************************************************************)
CrHashEff(vm, w, keccak) ==
    LET a == Ro(vm, RA(w))  b == Ro(vm, RB(w))  c == R(vm, RC(w))
        pan == WritePanics(vm, a, "32") \cup ReadPanics(vm, b, c)
        data == MemRead(vm, b, c)
    IN Eff(Dep(GasOf(vm, IF keccak THEN "k256" ELSE "s256"), c), pan, StepPc(vm),
           IF pan = {} THEN <<<<BN!ToNat(a), IF keccak THEN Keccak256(data) ELSE SHA256(data)>>>> ELSE <<>>, vm.slen)

(***************************************************************************)
(* ED19   $err = 0 iff MEM[$rB, 64] is a valid Ed25519 signature of        *)
(* MEM[$rC, $rD] under the key MEM[$rA, 32]; $rD = 0 stands for 32.        *)
(* Nothing else changes.  The scalar half S of a signature is a            *)
(* little-endian number that must be below the group order L (RFC 8032).   *)
(***************************************************************************)
CrEdL == "7237005577332262213973186563042994240857116359379907606001950938285454250989"
RECURSIVE CrRev(_)
CrRev(h) == IF h = "" THEN "" ELSE CrRev(SubSeq(h, 3, Len(h))) \o SubSeq(h, 1, 2)
CrEd19Eff(vm, w) ==
    LET a == Ro(vm, RA(w))  b == Ro(vm, RB(w))  c == Ro(vm, RC(w))  d == R(vm, RD(w))
        len == IF d = "0" THEN "32" ELSE d
        pan == ReadPanics(vm, a, "32") \cup ReadPanics(vm, b, "64") \cup ReadPanics(vm, c, len)
        sBad == ~BN!Lt(UnBE(CrRev(Slice(MemRead(vm, b, "64"), 32, 32))), CrEdL)
        err == IF sBad THEN "1" ELSE IF CrOrcReg(vm, ERR) = "0" THEN "0" ELSE "1"
    IN Eff(Dep(GasOf(vm, "ed19"), len), pan, IF pan = {} THEN (ERR :> err) @@ StepPc(vm) ELSE <<>>, <<>>, vm.slen)

(***************************************************************************)
(* alt_bn128 (BN254):  G1 is  y^2 = x^3 + 3  over F_p;  G2 is the          *)
(* order-r subgroup of  y^2 = x^3 + 3/(9+u)  over F_p[u]/(u^2 + 1).        *)
(* Encodings (EIP-196/197): a G1 point is x || y (32 bytes each, big       *)
(* endian, < p), (0, 0) is the point at infinity; a G2 point is            *)
(* x.u || x.1 || y.u || y.1 (imaginary part first), all zero = infinity.   *)
(***************************************************************************)
CrBnP == "21888242871839275222246405745257275088696311157297823662689037894645226208583"
CrBnR == "21888242871839275222246405745257275088548364400416034343698204186575808495617"
CrBn  == [p |-> CrBnP, a |-> "0", b |-> "3"]
CrBnB2 == <<"19485874751759354771024239261021720505790618469301721065564631296452457478373",
            "266929791119991161246907387137283842545076965332900288569378510910307636690">>             \* 3 / (9 + u)
\* F_p^2 = F_p[u] / (u^2 + 1); an element is <<real, imaginary>>
Cr2Add(x, y) == <<CrFAdd(x[1], y[1], CrBnP), CrFAdd(x[2], y[2], CrBnP)>>
Cr2Sub(x, y) == <<CrFSub(x[1], y[1], CrBnP), CrFSub(x[2], y[2], CrBnP)>>
Cr2Mul(x, y) == <<CrFSub(CrFMul(x[1], y[1], CrBnP), CrFMul(x[2], y[2], CrBnP), CrBnP),
                  CrFAdd(CrFMul(x[1], y[2], CrBnP), CrFMul(x[2], y[1], CrBnP), CrBnP)>>
Cr2Inv(x) == LET d == ModInv(CrFAdd(CrFMul(x[1], x[1], CrBnP), CrFMul(x[2], x[2], CrBnP), CrBnP), CrBnP)
             IN <<CrFMul(x[1], d, CrBnP), CrFMul(CrFSub("0", x[2], CrBnP), d, CrBnP)>>
Cr2Zero == <<"0", "0">>
Cr2OnTwist(P) == Cr2Mul(P[2], P[2]) = Cr2Add(Cr2Mul(Cr2Mul(P[1], P[1]), P[1]), CrBnB2)
Cr2EcAdd(P, Q) ==
    IF CrIsInf(P) THEN Q
    ELSE IF CrIsInf(Q) THEN P
    ELSE LET x1 == P[1]  y1 == P[2]  x2 == Q[1]  y2 == Q[2] IN
         IF x1 = x2 /\ (y1 # y2 \/ y1 = Cr2Zero) THEN CrInf
         ELSE LET lam == IF x1 = x2
                         THEN Cr2Mul(Cr2Mul(<<"3", "0">>, Cr2Mul(x1, x1)), Cr2Inv(Cr2Add(y1, y1)))
                         ELSE Cr2Mul(Cr2Sub(y2, y1), Cr2Inv(Cr2Sub(x2, x1)))
                  x3  == Cr2Sub(Cr2Sub(Cr2Mul(lam, lam), x1), x2)
                  y3  == Cr2Sub(Cr2Mul(lam, Cr2Sub(x1, x3)), y1)
              IN <<x3, y3>>
RECURSIVE Cr2EcMulAcc(_, _, _, _)
Cr2EcMulAcc(P, kh, i, acc) ==
    IF i > 255 THEN acc
    ELSE LET d == Cr2EcAdd(acc, acc) IN Cr2EcMulAcc(P, kh, i + 1, IF BitAt(kh, i) = 1 THEN Cr2EcAdd(d, P) ELSE d)
Cr2InSubgroupDef(P) == CrIsInf(Cr2EcMulAcc(P, BN!ToHex(CrBnR, 32), 0, CrInf))
Cr2InSubgroup(P) == Cr2InSubgroupDef(P)                \* (Java override for speed, compared in VmCryptoTest)

\* decoding: 64 / 128 bytes (hex) -> [ok, pt]
CrG1Dec(h) ==
    LET x == UnBE(Slice(h, 0, 32))  y == UnBE(Slice(h, 32, 32)) IN
    IF ~(BN!Lt(x, CrBnP) /\ BN!Lt(y, CrBnP)) THEN [ok |-> FALSE, pt |-> CrInf]
    ELSE IF x = "0" /\ y = "0" THEN [ok |-> TRUE, pt |-> CrInf]
    ELSE [ok |-> CrOnCurve(CrBn, <<x, y>>), pt |-> <<x, y>>]
\* a G2 encoding is valid iff its coordinates are reduced and it is all zero (infinity) or a point of the order-r subgroup
CrG2Pt(h) == <<<<UnBE(Slice(h, 32, 32)), UnBE(Slice(h, 0, 32))>>, <<UnBE(Slice(h, 96, 32)), UnBE(Slice(h, 64, 32))>>>>
CrG2Ok(h) ==
    LET P == CrG2Pt(h) IN
    IF ~(BN!Lt(P[1][1], CrBnP) /\ BN!Lt(P[1][2], CrBnP) /\ BN!Lt(P[2][1], CrBnP) /\ BN!Lt(P[2][2], CrBnP)) THEN FALSE
    ELSE IF IsZero(h) THEN TRUE
    ELSE IF Cr2OnTwist(P) THEN Cr2InSubgroup(P) ELSE FALSE

(***************************************************************************)
(* ECOP  MEM[$rA, 64] = op($rC) on curve $rB of the operands at $rD:       *)
(*   curve 0 (alt_bn128), op 0: MEM[$rD, 128] = P1 || P2     -> P1 + P2    *)
(*                        op 1: MEM[$rD, 96]  = P || scalar  -> [scalar]P  *)
(* (the scalar is any 256-bit number).                                     *)
(***************************************************************************)
CrAddrPlus(vm, a, k, n) == LET q == BN!Add(a, BN!FromNat(k)) IN
                           IF AddrOverflow(q) THEN {"MemoryOverflow"} ELSE ReadPanics(vm, q, BN!FromNat(n))
CrEcopEff(vm, w) ==
    IF CrGasUndefined(vm, "ecop") THEN CrNoGas(vm)
    ELSE
    LET dst == Ro(vm, RA(w))  curve == Ro(vm, RB(w))  op == Ro(vm, RC(w))  ptr == Ro(vm, RD(w))
        wp  == WritePanics(vm, dst, "64")
        sup == (IF curve # "0" THEN {"UnsupportedCurveId"} ELSE {}) \cup (IF op \notin {"0", "1"} THEN {"UnsupportedOperationType"} ELSE {})
        second == IF op = "0" THEN 64 ELSE 32
        rp1 == IF sup # {} THEN {} ELSE ReadPanics(vm, ptr, "64")
        rp2 == IF sup # {} THEN {} ELSE CrAddrPlus(vm, ptr, 64, second)
        rp  == rp1 \cup rp2
        p0  == BN!ToNat(ptr)
        P1  == CrG1Dec(ReadBytes(vm.mem, p0, 64))
        P2  == CrG1Dec(ReadBytes(vm.mem, p0 + 64, 64))
        k   == UnBE(ReadBytes(vm.mem, p0 + 64, 32))
        \* every operand that can be read is judged (the panic conditions are unordered)
        bad == IF sup # {} THEN {}
               ELSE IF (rp1 = {} /\ ~P1.ok) \/ (op = "0" /\ rp2 = {} /\ ~P2.ok) THEN {"InvalidEllipticCurvePoint"} ELSE {}
        pan == wp \cup sup \cup rp \cup bad
        res == IF op = "0" THEN CrEcAdd(CrBn, P1.pt, P2.pt) ELSE CrEcMul(CrBn, P1.pt, k)
    IN Eff(GasOf(vm, "ecop"), pan, StepPc(vm), IF pan = {} THEN <<<<BN!ToNat(dst), CrKeyEnc(res)>>>> ELSE <<>>, vm.slen)

(***************************************************************************)
(* EPAR  $rA = 1 iff the product of the pairings e(P_i, Q_i) of the $rC    *)
(* elements P_i || Q_i (64 + 128 bytes each) at $rD is 1 (identifier $rB   *)
(* = 0: optimal ate pairing on alt_bn128), else 0.                         *)
(***************************************************************************)
CrElem == 192
\* number of leading elements that are entirely readable (each element entirely in the stack extent or in the heap)
CrReadablePrefix(vm, ptr, n) ==
    IF BN!Lt(MemSizeBN, ptr) THEN 0
    ELSE LET p  == BN!ToNat(ptr)
             k1 == IF p <= vm.slen THEN (vm.slen - p) \div CrElem ELSE 0
             q  == p + CrElem * k1
             k2 == IF q >= HpN(vm) THEN (MemSize - q) \div CrElem ELSE 0
         IN IF BN!Lt(n, BN!FromNat(k1 + k2)) THEN BN!ToNat(n) ELSE k1 + k2
RECURSIVE CrG1Sum(_, _, _)
CrG1Sum(pts, S, acc) == IF S = {} THEN acc ELSE LET i == CHOOSE i \in S : TRUE IN CrG1Sum(pts, S \ {i}, CrEcAdd(CrBn, acc, pts[i]))
CrEparEff(vm, w) ==
    IF CrGasUndefined(vm, "epar") THEN CrNoGas(vm)
    ELSE
    LET id == Ro(vm, RB(w))  n == R(vm, RC(w))  ptr == Ro(vm, RD(w))
        gas == Dep(GasOf(vm, "epar"), n)
        dp  == DestPan(RA(w))
    IN IF id # "0" THEN Eff(gas, {"UnsupportedOperationType", "UnsupportedCurveId"} \cup dp, <<>>, <<>>, vm.slen)
       ELSE LET m   == CrReadablePrefix(vm, ptr, n)
                all == BN!FromNat(m) = n
                first == BN!Add(ptr, BN!FromNat(CrElem * m))                  \* the first element that is not readable
                mp  == IF all THEN {}
                       ELSE ReadPanics(vm, first, "64") \cup ReadPanics(vm, BN!Add(first, "64"), "128") \cup ReadPanics(vm, first, "192")
                p0  == BN!ToNat(ptr)
                g1  == [i \in 0..(m - 1) |-> CrG1Dec(ReadBytes(vm.mem, p0 + CrElem * i, 64))]
                q2  == [i \in 0..(m - 1) |-> ReadBytes(vm.mem, p0 + CrElem * i + 64, 128)]
                \* every element that can be read is judged, and so is the G1 half of the first unreadable element when that half
                \* can be read (the panic conditions are unordered)
                half == ~all /\ ReadPanics(vm, first, "64") = {} /\ ~CrG1Dec(ReadBytes(vm.mem, BN!ToNat(first), 64)).ok
                bad == IF half \/ \E i \in 0..(m - 1) : ~g1[i].ok \/ ~CrG2Ok(q2[i]) THEN {"InvalidEllipticCurvePoint"} ELSE {}
                pan == dp \cup mp \cup bad
                NT  == {i \in 0..(m - 1) : ~CrIsInf(g1[i].pt) /\ ~IsZero(q2[i])}             \* e(O, Q) = e(P, O) = 1
                oneQ == \A i, j \in NT : q2[i] = q2[j]
                val == IF NT = {} THEN "1"
                       ELSE IF oneQ THEN B2N(CrIsInf(CrG1Sum([i \in NT |-> g1[i].pt], NT, CrInf)))  \* prod e(P_i, Q) = e(sum P_i, Q)
                       ELSE IF CrOrcReg(vm, RA(w)) = "1" THEN "1" ELSE "0"
            IN Eff(gas, pan, IF pan = {} THEN (RA(w) :> val) @@ StepPc(vm) ELSE <<>>, <<>>, vm.slen)

(***************************************************************************)
(* Block / environment instructions.  vm.chain = [height, coinbase,        *)
(* blocks: height (decimal string) -> [hash, time]] as the chain oracle    *)
(* (the storage backend) answers; <<>> when the Init event does not say.   *)
(* Block heights are 32-bit numbers.                                       *)
(*   BHEI  $rA = current height                                            *)
(*   CB    MEM[$rA, 32] = coinbase                                         *)
(*   BHSH  MEM[$rA, 32] = blockhash($rB); the hash of a height at or above *)
(*         the current height is zero - for heights the chain oracle can   *)
(*         be asked about (< 2^32) this is a property of the oracle's      *)
(*         answer; a larger $rB is not the height of any block, hence at   *)
(*         or above the current one, hence zero                            *)
(*   TIME  $rA = timestamp of block $rB; panics when $rB exceeds the       *)
(*         current height                                                  *)
(***************************************************************************)
CrBheiEff(vm, w) ==
    LET dp == DestPan(RA(w))
        seen == CrOrcReg(vm, RA(w))
        val == IF CrHasChain(vm) THEN vm.chain.height ELSE IF BN!Lt(seen, CrTwo32) THEN seen ELSE "0"
    IN Eff(GasOf(vm, "bhei"), dp, IF dp = {} THEN (RA(w) :> val) @@ StepPc(vm) ELSE <<>>, <<>>, vm.slen)
CrCbEff(vm, w) ==
    LET a == Ro(vm, RA(w))
        wp == WritePanics(vm, a, "32")
    IN Eff(GasOf(vm, "cb"), wp, StepPc(vm),
           IF wp = {} THEN <<<<BN!ToNat(a), IF CrHasChain(vm) THEN vm.chain.coinbase ELSE CrOrcBytes(vm, BN!ToNat(a), 32)>>>> ELSE <<>>, vm.slen)
CrBhshEff(vm, w) ==
    LET a == Ro(vm, RA(w))  h == Ro(vm, RB(w))
        wp == WritePanics(vm, a, "32")
        val == IF ~BN!Lt(h, CrTwo32) THEN Zeros(32)
               ELSE IF CrKnownBlock(vm, h) THEN vm.chain.blocks[h].hash
               ELSE CrOrcBytes(vm, BN!ToNat(a), 32)
    IN Eff(GasOf(vm, "bhsh"), wp, StepPc(vm), IF wp = {} THEN <<<<BN!ToNat(a), val>>>> ELSE <<>>, vm.slen)
\* The implementation refuses a BHSH height operand that is not a 32-bit number (InvalidBlockHeight) where the instruction-set
\* text prescribes the zero hash.  No listed property is about BHSH results; both readings are admitted (FuelVM!Effs) and the
\* deviation is recorded in DESIGN.md 9.4 (observations).
CrBhshAlt(vm, w) ==
    IF ValidWord(w) /\ Mnemonic(w) = "BHSH" /\ ~BN!Lt(Ro(vm, RB(w)), CrTwo32)
    THEN {Eff(GasOf(vm, "bhsh"), {"InvalidBlockHeight"} \cup WritePanics(vm, Ro(vm, RA(w)), "32"), <<>>, <<>>, vm.slen)}
    ELSE {}
CrTimeEff(vm, w) ==
    LET h == Ro(vm, RB(w))  dp == DestPan(RA(w))  gas == GasOf(vm, "time") IN
    IF ~BN!Lt(h, CrTwo32) THEN Eff(gas, {"InvalidBlockHeight", "TransactionValidity"} \cup dp, <<>>, <<>>, vm.slen)
    ELSE IF ~CrHasChain(vm) THEN Unmodelled                                   \* the current height is not known
    ELSE IF BN!Lt(vm.chain.height, h) THEN Eff(gas, {"TransactionValidity"} \cup dp, <<>>, <<>>, vm.slen)
    ELSE LET t == IF CrKnownBlock(vm, h) THEN vm.chain.blocks[h].time ELSE CrOrcReg(vm, RA(w))
         IN Eff(gas, dp, IF dp = {} THEN (RA(w) :> t) @@ StepPc(vm) ELSE <<>>, <<>>, vm.slen)

(***************************************************************************)
(* The driver's independent expectation about a result (Step field `exp`), *)
(* evaluated by the trace specification on a completed instruction:        *)
(*   key / notkey / key_or_fail / fail   recovered key at MEM[$rA, 64]     *)
(*   err   value of $err          reg   value of register rA               *)
(*   mem   bytes at MEM[$rA, ..]                                           *)
(***************************************************************************)
CrExpHolds(x, w, v, oregs, omem) ==
    LET a   == BN!ToNat(Ro(v, RA(w)))
        key == ReadBytes(omem, a, 64)
        err == oregs[ERR]
    IN CASE x.k = "key"         -> err = "0" /\ key = x.key
         [] x.k = "notkey"      -> ~(err = "0" /\ key = x.key)
         [] x.k = "key_or_fail" -> (err = "0" /\ key = x.key) \/ (err = "1" /\ key = Zeros(64))
         [] x.k = "fail"        -> err = "1" /\ key = Zeros(64)
         [] x.k = "err"         -> err = x.v
         [] x.k = "reg"         -> oregs[RA(w)] = x.v
         [] x.k = "mem"         -> ReadBytes(omem, a, BLen(x.bytes)) = x.bytes

CryptoNames == {"S256", "K256", "ECK1", "ECR1", "ED19", "ECOP", "EPAR", "BHEI", "BHSH", "CB", "TIME"}
CryptoEff(vm, n, w) ==
    CASE n = "S256" -> CrHashEff(vm, w, FALSE)
      [] n = "K256" -> CrHashEff(vm, w, TRUE)
      [] n = "ECK1" -> CrRecoverEff(vm, w, CrK1, "eck1")
      [] n = "ECR1" -> CrRecoverEff(vm, w, CrR1, "ecr1")
      [] n = "ED19" -> CrEd19Eff(vm, w)
      [] n = "ECOP" -> CrEcopEff(vm, w)
      [] n = "EPAR" -> CrEparEff(vm, w)
      [] n = "BHEI" -> CrBheiEff(vm, w)
      [] n = "BHSH" -> CrBhshEff(vm, w)
      [] n = "CB"   -> CrCbEff(vm, w)
      [] n = "TIME" -> CrTimeEff(vm, w)
=============================================================================
