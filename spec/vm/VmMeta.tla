------------------------------- MODULE VmMeta -------------------------------
(***************************************************************************)
(* Transaction introspection (C05): the GTF and GM instructions.           *)
(*                                                                         *)
(* Written from the FuelVM instruction-set specification (GTF: "set $rA to *)
(* the field of the transaction indicated by imm, at index $rB"; GM: "get  *)
(* metadata"), the transaction format (TxFormat: where every field lives   *)
(* in the canonical encoding) and the VM initialisation layout (tx id,     *)
(* base asset id, balances, tx length, tx bytes) — not from the Rust       *)
(* match arms.                                                             *)
(*                                                                         *)
(* The machine state needs, besides VmBase's fields,                       *)
(*   vm.tx   the executed transaction as an abstract TxFormat value,       *)
(*   vm.ctx  [kind : "script" | "call" | "predicate", pidx : index of the  *)
(*           input whose predicate is being verified, frames : contract    *)
(*           ids of the call stack, outermost first].                      *)
(*                                                                         *)
(* THE SELECTOR TABLE IS DATA (GtfTable).  A row says                      *)
(*   n    name of the selector                                             *)
(*   k    transaction kinds for which the selector MUST answer             *)
(*   g    transaction kinds for which it MAY answer or be refused with     *)
(*        InvalidMetadataIdentifier (the deprecated Script… / Create…      *)
(*        aliases of a field every kind has)                               *)
(*        — every other kind: InvalidMetadataIdentifier                    *)
(*   sc   what $rB indexes: "tx" (nothing, $rB ignored), "policy", or a    *)
(*        list: "input" "output" "witness" "slot" "proof"                  *)
(*   r    what is returned: "val" (the scalar field), "len" (length of a   *)
(*        byte vector), "count" (length of a list), "disc" (wire type of   *)
(*        the element), "type", "txlen", "mask", or a POINTER: "ptr"       *)
(*        (address of the field / element), "wdata" (address of a          *)
(*        witness's data)                                                  *)
(*   p    path of the field (relative to the indexed element)              *)
(*   fam  element variants the selector must answer for                    *)
(*   gfam element variants for which it may answer or report not-found     *)
(*   nf   the panic reasons admitted when the indexed element is not what  *)
(*        the selector is for (default: the list's not-found reason)       *)
(* An element of another variant gives a reason of nf.  An index >= the    *)
(* length of the list gives a reason of nf or InvalidMetadataIdentifier    *)
(* (the instruction-set text lists the panic CONDITIONS of GTF without     *)
(* naming the reason: which of the applicable reasons is reported for an   *)
(* absent index is the implementation's choice; that the query fails is    *)
(* not).  A field that the element's variant declares ABSENT (written as   *)
(* zero / empty on the wire, TxFormat VA) may be answered with what the    *)
(* wire holds or refused with a reason of nf.                              *)
(*                                                                         *)
(* A pointer answer is an ADDRESS: tx_offset + OffsetOf(path) computed     *)
(* from the format; the effect carries `deref` = <<address, canonical      *)
(* bytes of the field>> and the trace specification requires VM memory at  *)
(* that address to hold exactly these bytes.                               *)
(***************************************************************************)
EXTENDS VmBase
TX == INSTANCE TxId

AllKinds == {"Script", "Create", "Upgrade", "Upload", "Blob"}     \* kinds that execute or carry predicates
CoinIn == {"CoinSigned", "CoinPredicate"}
MsgIn  == {"MessageCoinSigned", "MessageCoinPredicate", "MessageDataSigned", "MessageDataPredicate"}
CtrIn  == {"Contract"}
AnyIn  == CoinIn \cup MsgIn \cup CtrIn
AnyOut == {"Coin", "Contract", "Change", "Variable", "ContractCreated"}
KS == {"Script"}  KC == {"Create"}  KU == {"Upload"}  KB == {"Blob"}  KG == {"Upgrade"}
Rest(k) == AllKinds \ k
IMI == "InvalidMetadataIdentifier"

\* the list a scope indexes and its not-found panic
ScopeList(sc) == CASE sc = "input" -> "inputs" [] sc = "output" -> "outputs" [] sc = "witness" -> "witnesses"
                   [] sc = "slot" -> "storage_slots" [] sc = "proof" -> "proof_set"
ScopeMiss(sc) == CASE sc = "input" -> "InputNotFound" [] sc = "output" -> "OutputNotFound" [] sc = "witness" -> "WitnessNotFound"
                   [] sc = "slot" -> "StorageSlotsNotFound" [] sc = "proof" -> "ProofInUploadNotFound"
ListScopes == {"input", "output", "witness", "slot", "proof"}

RowNf(s, n, k, g, sc, r, p, fam, gfam, nf) ==
    s :> [n |-> n, k |-> k, g |-> g, sc |-> sc, r |-> r, p |-> p, fam |-> fam, gfam |-> gfam, nf |-> nf]
Row(s, n, k, g, sc, r, p, fam, gfam) == RowNf(s, n, k, g, sc, r, p, fam, gfam, IF sc \in ListScopes THEN {ScopeMiss(sc)} ELSE {})
TxR(s, n, k, g, r, p) == Row(s, n, k, g, "tx", r, p, {}, {})
InR(s, n, fam, r, p)  == Row(s, n, AllKinds, {}, "input", r, p, fam, {})
OutR(s, n, fam, gfam, r, p) == Row(s, n, AllKinds, {}, "output", r, p, fam, gfam)

GtfTable ==
    \* ---- 0x00_: type, script fields, deprecated script aliases, tx length ----
    TxR(1,  "Type", AllKinds, {}, "type", <<>>) @@
    TxR(2,  "ScriptGasLimit", KS, {}, "val", <<"script_gas_limit">>) @@
    TxR(3,  "ScriptLength", KS, {}, "len", <<"script">>) @@
    TxR(4,  "ScriptDataLength", KS, {}, "len", <<"script_data">>) @@
    TxR(5,  "ScriptInputsCount", KS, Rest(KS), "count", <<"inputs">>) @@
    TxR(6,  "ScriptOutputsCount", KS, Rest(KS), "count", <<"outputs">>) @@
    TxR(7,  "ScriptWitnessesCount", KS, Rest(KS), "count", <<"witnesses">>) @@
    TxR(9,  "Script", KS, {}, "ptr", <<"script">>) @@
    TxR(10, "ScriptData", KS, {}, "ptr", <<"script_data">>) @@
    Row(11, "ScriptInputAtIndex", KS, Rest(KS), "input", "ptr", <<>>, AnyIn, {}) @@
    Row(12, "ScriptOutputAtIndex", KS, Rest(KS), "output", "ptr", <<>>, AnyOut, {}) @@
    Row(13, "ScriptWitnessAtIndex", KS, Rest(KS), "witness", "ptr", <<>>, {}, {}) @@
    TxR(14, "TxLength", AllKinds, {}, "txlen", <<>>) @@
    \* ---- 0x10_: create ----
    TxR(257, "CreateBytecodeWitnessIndex", KC, {}, "val", <<"bytecode_witness_index">>) @@
    TxR(258, "CreateStorageSlotsCount", KC, {}, "count", <<"storage_slots">>) @@
    TxR(259, "CreateInputsCount", KC, Rest(KC), "count", <<"inputs">>) @@
    TxR(260, "CreateOutputsCount", KC, Rest(KC), "count", <<"outputs">>) @@
    TxR(261, "CreateWitnessesCount", KC, Rest(KC), "count", <<"witnesses">>) @@
    TxR(262, "CreateSalt", KC, {}, "ptr", <<"salt">>) @@
    Row(263, "CreateStorageSlotAtIndex", KC, {}, "slot", "ptr", <<>>, {}, {}) @@
    Row(264, "CreateInputAtIndex", KC, Rest(KC), "input", "ptr", <<>>, AnyIn, {}) @@
    Row(265, "CreateOutputAtIndex", KC, Rest(KC), "output", "ptr", <<>>, AnyOut, {}) @@
    Row(266, "CreateWitnessAtIndex", KC, Rest(KC), "witness", "ptr", <<>>, {}, {}) @@
    \* ---- 0x2__: inputs ----
    InR(512, "InputType", AnyIn, "disc", <<>>) @@
    InR(513, "InputCoinTxId", CoinIn, "ptr", <<"utxo_id", "tx_id">>) @@
    InR(514, "InputCoinOutputIndex", CoinIn, "val", <<"utxo_id", "output_index">>) @@
    InR(515, "InputCoinOwner", CoinIn, "ptr", <<"owner">>) @@
    InR(516, "InputCoinAmount", CoinIn, "val", <<"amount">>) @@
    InR(517, "InputCoinAssetId", CoinIn, "ptr", <<"asset_id">>) @@
    InR(518, "InputCoinTxPointer", CoinIn, "ptr", <<"tx_pointer">>) @@
    InR(519, "InputCoinWitnessIndex", CoinIn, "val", <<"witness_index">>) @@
    InR(521, "InputCoinPredicateLength", CoinIn, "len", <<"predicate">>) @@
    InR(522, "InputCoinPredicateDataLength", CoinIn, "len", <<"predicate_data">>) @@
    InR(523, "InputCoinPredicate", CoinIn, "ptr", <<"predicate">>) @@
    InR(524, "InputCoinPredicateData", CoinIn, "ptr", <<"predicate_data">>) @@
    InR(525, "InputCoinPredicateGasUsed", CoinIn, "val", <<"predicate_gas_used">>) @@
    InR(544, "InputContractTxId", CtrIn, "ptr", <<"utxo_id", "tx_id">>) @@
    InR(545, "InputContractOutputIndex", CtrIn, "val", <<"utxo_id", "output_index">>) @@
    InR(549, "InputContractId", CtrIn, "ptr", <<"contract_id">>) @@
    InR(576, "InputMessageSender", MsgIn, "ptr", <<"sender">>) @@
    InR(577, "InputMessageRecipient", MsgIn, "ptr", <<"recipient">>) @@
    InR(578, "InputMessageAmount", MsgIn, "val", <<"amount">>) @@
    InR(579, "InputMessageNonce", MsgIn, "ptr", <<"nonce">>) @@
    InR(580, "InputMessageWitnessIndex", MsgIn, "val", <<"witness_index">>) @@
    InR(581, "InputMessageDataLength", MsgIn, "len", <<"data">>) @@
    InR(582, "InputMessagePredicateLength", MsgIn, "len", <<"predicate">>) @@
    InR(583, "InputMessagePredicateDataLength", MsgIn, "len", <<"predicate_data">>) @@
    InR(584, "InputMessageData", MsgIn, "ptr", <<"data">>) @@
    InR(585, "InputMessagePredicate", MsgIn, "ptr", <<"predicate">>) @@
    InR(586, "InputMessagePredicateData", MsgIn, "ptr", <<"predicate_data">>) @@
    InR(587, "InputMessagePredicateGasUsed", MsgIn, "val", <<"predicate_gas_used">>) @@
    \* ---- 0x3__: outputs (change and variable outputs have the layout of a coin output: `to` / `asset_id` of a change
    \*      output must be answered; `amount` of a change output and everything of a variable output — zeroed before
    \*      execution — may be answered with what memory holds or reported not-found) ----
    OutR(768, "OutputType", AnyOut, {}, "disc", <<>>) @@
    OutR(769, "OutputCoinTo", {"Coin", "Change"}, {"Variable"}, "ptr", <<"to">>) @@
    OutR(770, "OutputCoinAmount", {"Coin"}, {"Change", "Variable"}, "val", <<"amount">>) @@
    OutR(771, "OutputCoinAssetId", {"Coin", "Change"}, {"Variable"}, "ptr", <<"asset_id">>) @@
    \* (the value is an INPUT index: an output that is absent or not a contract output may be reported as either list's
    \*  not-found reason or as an invalid identifier)
    RowNf(772, "OutputContractInputIndex", AllKinds, {}, "output", "val", <<"input_index">>, {"Contract"}, {},
          {"OutputNotFound", "InputNotFound", IMI}) @@
    OutR(775, "OutputContractCreatedContractId", {"ContractCreated"}, {}, "ptr", <<"contract_id">>) @@
    OutR(776, "OutputContractCreatedStateRoot", {"ContractCreated"}, {}, "ptr", <<"state_root">>) @@
    \* ---- 0x4__: witnesses ----
    Row(1024, "WitnessDataLength", AllKinds, {}, "witness", "len", <<>>, {}, {}) @@
    Row(1025, "WitnessData", AllKinds, {}, "witness", "wdata", <<>>, {}, {}) @@
    \* ---- 0x5__: policies ----
    TxR(1280, "PolicyTypes", AllKinds, {}, "mask", <<>>) @@
    Row(1281, "PolicyTip", AllKinds, {}, "policy", "val", <<"tip">>, {}, {}) @@
    Row(1282, "PolicyWitnessLimit", AllKinds, {}, "policy", "val", <<"witness_limit">>, {}, {}) @@
    Row(1283, "PolicyMaturity", AllKinds, {}, "policy", "val", <<"maturity">>, {}, {}) @@
    Row(1284, "PolicyMaxFee", AllKinds, {}, "policy", "val", <<"max_fee">>, {}, {}) @@
    Row(1285, "PolicyExpiration", AllKinds, {}, "policy", "val", <<"expiration">>, {}, {}) @@
    Row(1286, "PolicyOwner", AllKinds, {}, "policy", "val", <<"owner">>, {}, {}) @@
    \* ---- 0x6__ upload, 0x7__ blob, 0x8__ upgrade ----
    TxR(1536, "UploadRoot", KU, {}, "ptr", <<"root">>) @@
    TxR(1537, "UploadWitnessIndex", KU, {}, "val", <<"witness_index">>) @@
    TxR(1538, "UploadSubsectionIndex", KU, {}, "val", <<"subsection_index">>) @@
    TxR(1539, "UploadSubsectionsCount", KU, {}, "val", <<"subsections_number">>) @@
    TxR(1540, "UploadProofSetCount", KU, {}, "count", <<"proof_set">>) @@
    Row(1541, "UploadProofSetAtIndex", KU, {}, "proof", "ptr", <<>>, {}, {}) @@
    TxR(1792, "BlobId", KB, {}, "ptr", <<"id">>) @@
    TxR(1793, "BlobWitnessIndex", KB, {}, "val", <<"witness_index">>) @@
    TxR(2048, "UpgradePurpose", KG, {}, "ptr", <<"purpose">>) @@
    \* ---- 0x9__: generic ----
    TxR(2304, "TxInputsCount", AllKinds, {}, "count", <<"inputs">>) @@
    TxR(2305, "TxOutputsCount", AllKinds, {}, "count", <<"outputs">>) @@
    TxR(2306, "TxWitnessesCount", AllKinds, {}, "count", <<"witnesses">>) @@
    Row(2307, "TxInputAtIndex", AllKinds, {}, "input", "ptr", <<>>, AnyIn, {}) @@
    Row(2308, "TxOutputAtIndex", AllKinds, {}, "output", "ptr", <<>>, AnyOut, {}) @@
    Row(2309, "TxWitnessAtIndex", AllKinds, {}, "witness", "ptr", <<>>, {}, {})

GtfSelectors == DOMAIN GtfTable
PointerKinds == {"ptr", "wdata"}


\* ---- outcomes: what the instruction may put into $rA, or the panic ----
Ok(val)          == [ok |-> TRUE, val |-> val, ptr |-> FALSE, bytes |-> "", why |-> ""]
PtrAt(a, bytes)  == [ok |-> TRUE, val |-> BN!FromNat(a), ptr |-> TRUE, bytes |-> bytes, why |-> ""]
Fail(why)        == [ok |-> FALSE, val |-> "0", ptr |-> FALSE, bytes |-> "", why |-> why]

\* schema and value of the part of (T, v) addressed by `path` (field names / 0-based list indexes); a field the variant
\* declares absent reads as its zero value, as on the wire
RECURSIVE SubAt(_, _, _)
SubAt(T, v, path) ==
    IF path = <<>> THEN [t |-> T, v |-> v]
    ELSE LET h == Head(path) IN
         CASE T.k = "struct" -> LET f == T.fs[TX!FieldIdx(T, h)] IN SubAt(f.t, v[h], Tail(path))
           [] T.k = "enum"   -> LET a == TX!Variant(T, v.kind)
                                    f == a.t.fs[TX!FieldIdx(a.t, h)]
                                IN SubAt(f.t, TX!FieldVal(f, v, a.absent), Tail(path))
           [] T.k = "vec"    -> SubAt(T.elem, v[h + 1], Tail(path))

\* the canonical bytes found where a pointer answer points: a byte-vector FIELD is addressed at its data (padded to a
\* word); everything else, including a whole list element, at the start of its encoding
Canon(t, v, isElem) == IF t.k = "vecbytes" /\ ~isElem THEN Pad8(v) ELSE TX!Enc(t, v)

FieldAnswer(r, tx, txoff, path, isElem) ==
    LET sub == SubAt(TX!TransactionT, tx, path)
        off == TX!OffsetOf(TX!TransactionT, tx, path)
    IN CASE r = "val"   -> Ok(sub.v)
         [] r = "len"   -> Ok(BN!FromNat(BLen(sub.v)))
         [] r = "count" -> Ok(BN!FromNat(Len(sub.v)))
         [] r = "disc"  -> Ok(BN!FromNat(TX!Variant(sub.t, sub.v.kind).disc))
         [] r = "ptr"   -> PtrAt(txoff + off, Canon(sub.t, sub.v, isElem))
         [] r = "wdata" -> PtrAt(txoff + off + 8, Pad8(sub.v))

TxAnswer(row, tx, txoff) ==
    CASE row.r = "type"  -> Ok(BN!FromNat(TX!Variant(TX!TransactionT, tx.kind).disc))
      [] row.r = "txlen" -> Ok(BN!FromNat(TX!Size(TX!TransactionT, tx)))
      [] row.r = "mask"  -> Ok(BN!FromNat(tx.policies.mask))
      [] OTHER           -> FieldAnswer(row.r, tx, txoff, row.p, FALSE)

PolicyIdx(name) == CHOOSE i \in 1..Len(TX!PolicyNames) : TX!PolicyNames[i] = name
PolicyAnswer(row, tx) ==
    LET i == PolicyIdx(row.p[1]) IN
    IF TX!BitSet(tx.policies.mask, i - 1) THEN Ok(tx.policies.vals[i]) ELSE Fail("PolicyIsNotSet")

Fails(reasons) == {Fail(r) : r \in reasons}
ElemAnswers(row, tx, txoff, b) ==
    LET lst  == tx[ScopeList(row.sc)]
        miss == Fails(row.nf)
    IN IF ~BN!Lt(b, BN!FromNat(Len(lst))) THEN miss \cup {Fail(IMI)}
       ELSE LET i  == BN!ToNat(b)
                el == lst[i + 1]
                typed == row.sc \in {"input", "output"}
            IN IF typed /\ el.kind \notin row.fam \cup row.gfam THEN miss
               ELSE LET absent == row.sc = "input" /\ row.p # <<>> /\ row.p[1] \in TX!Variant(TX!InputT, el.kind).absent
                        gray   == absent \/ (typed /\ el.kind \in row.gfam)
                    IN (IF gray THEN miss ELSE {})
                       \cup {FieldAnswer(row.r, tx, txoff, <<ScopeList(row.sc), i>> \o row.p, row.p = <<>>)}

\* the admissible outcomes of GTF with selector sel and index b (a BigNat) on transaction tx placed at address txoff
GtfOutcomes(tx, txoff, sel, b) ==
    IF sel \notin GtfSelectors THEN {Fail(IMI)}
    ELSE LET row == GtfTable[sel] IN
         IF tx.kind \notin row.k \cup row.g THEN {Fail(IMI)}
         ELSE (IF tx.kind \in row.g THEN {Fail(IMI)} ELSE {})
              \cup (CASE row.sc = "tx"     -> {TxAnswer(row, tx, txoff)}
                      [] row.sc = "policy" -> {PolicyAnswer(row, tx)}
                      [] OTHER             -> ElemAnswers(row, tx, txoff, b))

(***************************************************************************)
(* GM.  Context restrictions as the instruction-set specification states   *)
(* them: "external context" is $fp = 0; the caller is $fp->$fp, the $fp    *)
(* saved in the current call frame.  Call frame layout: contract id (32),  *)
(* asset id (32), the 64 saved registers, code size, two parameters.       *)
(***************************************************************************)
FrameRegOff(r) == 64 + 8 * r
Internal(vm) == R(vm, FP) # "0"
SavedFp(vm) == UnBE(ReadBytes(vm.mem, BN!ToNat(R(vm, FP)) + FrameRegOff(FP), 8))
InPredicate(vm) == vm.ctx.kind = "predicate"
BaseAssetAddr == 32                         \* VM initialisation: tx id at 0, base asset id right after it

\* transaction owner: the input nominated by the owner policy, else the common owner of all inputs that have one
OwnerField(kind) == IF kind \in CoinIn THEN "owner" ELSE IF kind \in MsgIn THEN "recipient" ELSE ""
Owned(tx) == {i \in 1..Len(tx.inputs) : OwnerField(tx.inputs[i].kind) # ""}
OwnerOf(tx, i) == tx.inputs[i][OwnerField(tx.inputs[i].kind)]
OwnerPtr(tx, txoff, i) ==
    PtrAt(txoff + TX!OffsetOf(TX!TransactionT, tx, <<"inputs", i - 1, OwnerField(tx.inputs[i].kind)>>), OwnerOf(tx, i))
OwnerOutcomes(tx, txoff) ==
    IF TX!BitSet(tx.policies.mask, 5)
    THEN LET idx == tx.policies.vals[6] IN
         IF BN!Lt(idx, BN!FromNat(Len(tx.inputs))) /\ (BN!ToNat(idx) + 1) \in Owned(tx)
         THEN {OwnerPtr(tx, txoff, BN!ToNat(idx) + 1)} ELSE {Fail("OwnerIsUnknown")}
    ELSE IF Owned(tx) # {} /\ Cardinality({OwnerOf(tx, i) : i \in Owned(tx)}) = 1
         THEN {OwnerPtr(tx, txoff, i) : i \in Owned(tx)}          \* any input carrying that owner
         ELSE {Fail("OwnerIsUnknown")}

GmNames == (1 :> "IsCallerExternal") @@ (2 :> "GetCaller") @@ (3 :> "GetVerifyingPredicate") @@ (4 :> "GetChainId")
           @@ (5 :> "TxStart") @@ (6 :> "BaseAssetId") @@ (7 :> "GetGasPrice") @@ (8 :> "GetOwner")
GmSelectors == DOMAIN GmNames
GmOutcomes(vm, imm) ==
    CASE imm = 1 -> IF Internal(vm) THEN {Ok(B2N(SavedFp(vm) = "0"))} ELSE {Fail("ExpectedInternalContext")}
      [] imm = 2 -> IF ~Internal(vm) THEN {Fail("ExpectedInternalContext")}
                    ELSE IF SavedFp(vm) = "0" THEN {Fail("ExpectedNestedCaller")}
                    ELSE {PtrAt(BN!ToNat(SavedFp(vm)), vm.ctx.frames[Len(vm.ctx.frames) - 1])}    \* the caller's contract id
      [] imm = 3 -> IF InPredicate(vm) THEN {Ok(BN!FromNat(vm.ctx.pidx))} ELSE {Fail("TransactionValidity")}
      [] imm = 4 -> {Ok(vm.env.chain_id)}
      [] imm = 5 -> {Ok(BN!FromNat(vm.env.tx_offset))}
      [] imm = 6 -> {PtrAt(BaseAssetAddr, vm.env.base_asset)}
      [] imm = 7 -> IF InPredicate(vm) THEN {Fail("CanNotGetGasPriceInPredicate")} ELSE {Ok(vm.env.gas_price)}
      [] imm = 8 -> OwnerOutcomes(vm.tx, vm.env.tx_offset)
      [] OTHER   -> {Fail(IMI)}

(***************************************************************************)
(* Effects (VmBase conventions).  Each admissible outcome gives one        *)
(* effect; the effect of a pointer answer also says which bytes VM memory  *)
(* must hold at the returned address (`deref`).                            *)
(***************************************************************************)
OutEff(vm, gasName, ra, o) ==
    LET dp == DestPan(ra) IN
    Eff(GasOf(vm, gasName), dp \cup (IF o.ok THEN {} ELSE {o.why}),
        IF o.ok /\ dp = {} THEN (ra :> o.val) @@ StepPc(vm) ELSE <<>>, <<>>, vm.slen)
    @@ [deref |-> IF o.ok /\ o.ptr THEN <<o.val, o.bytes>> ELSE <<>>]

MetaNames == {"GTF", "GM"}
MetaGas(n) == IF n = "GTF" THEN "gtf" ELSE "gm"
MetaEffs(vm, n, w) ==
    IF n = "GTF"
    THEN {OutEff(vm, "gtf", RA(w), o) : o \in GtfOutcomes(vm.tx, vm.env.tx_offset, Imm12(w), Ro(vm, RB(w)))}
    ELSE {OutEff(vm, "gm", RA(w), o) : o \in GmOutcomes(vm, Imm18(w))}
=============================================================================
