----------------------------- MODULE StorageRead -----------------------------
(***************************************************************************)
(* The read contract of a byte-valued storage table (C36), written from    *)
(* the documentation of fuel_storage::StorageRead and the property text:   *)
(*                                                                         *)
(*  exact read     succeeds, and copies value[offset, offset + buflen),    *)
(*                 exactly when offset + buflen <= len(value); otherwise   *)
(*                 it is out of bounds;                                    *)
(*  zero-fill read copies what exists from `offset` on and fills the rest  *)
(*                 of the buffer with zeros; it fails (out of bounds) only *)
(*                 when offset > len(value);                               *)
(*  alloc read     returns the whole value;                                *)
(*  a missing key  reports key-not-found from all three.                   *)
(*  A successful exact / zero-fill read also reports the TOTAL length of   *)
(*  the stored value.                                                      *)
(*                                                                         *)
(* Values and buffers are byte strings (lowercase hex); a missing key is   *)
(* the value `Missing` (not a byte string).  Offsets and lengths are TLC   *)
(* integers here; the instruction-level module VmContract lifts the        *)
(* zero-fill read to 64-bit offsets.                                       *)
(***************************************************************************)
LOCAL INSTANCE Naturals
LOCAL INSTANCE Sequences
LOCAL INSTANCE Hex

Missing == "missing"                        \* odd length: never a byte string

KeyNotFound == [r |-> "KeyNotFound"]
OutOfBounds == [r |-> "OutOfBounds"]
\* copied = number of bytes of the value that were copied, buf = the buffer afterwards, total = len(value)
Ok(copied, buf, total) == [r |-> "Ok", copied |-> copied, buf |-> buf, total |-> total]

LOCAL Min(a, b) == IF a <= b THEN a ELSE b

ReadExact(value, offset, buflen) ==
    IF value = Missing THEN KeyNotFound
    ELSE IF offset + buflen <= BLen(value) THEN Ok(buflen, Slice(value, offset, buflen), BLen(value))
    ELSE OutOfBounds

ReadZerofill(value, offset, buflen) ==
    IF value = Missing THEN KeyNotFound
    ELSE IF offset > BLen(value) THEN OutOfBounds
    ELSE LET k == Min(buflen, BLen(value) - offset) IN
         Ok(k, Slice(value, offset, k) \o Zeros(buflen - k), BLen(value))

ReadAlloc(value) ==
    IF value = Missing THEN KeyNotFound ELSE Ok(BLen(value), value, BLen(value))

(***************************************************************************)
(* What an instruction that copies `n` bytes "of the value starting at     *)
(* `offset`, zero-padded" must produce for ANY offset (FuelVM              *)
(* specification of CCP / LDC / BLDD: bytes beyond the end of the value    *)
(* read as zero).  Defined through the zero-fill read: inside its domain   *)
(* (offset <= len) it IS that read's buffer, beyond it the buffer is all   *)
(* zeros.  `value` must be present.                                        *)
(***************************************************************************)
ZeroPaddedSlice(value, offset, n) ==
    IF offset > BLen(value) THEN Zeros(n) ELSE ReadZerofill(value, offset, n).buf
=============================================================================
