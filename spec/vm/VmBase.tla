------------------------------- MODULE VmBase -------------------------------
(***************************************************************************)
(* The FuelVM interpreter as a state machine: one action per executed      *)
(* instruction.  Written from the FuelVM instruction-set specification     *)
(* (registers, flags, panic conditions, gas) — NOT from the Rust code      *)
(* paths; where the specification leaves a choice (which of several        *)
(* applicable panics is reported, whether gas is charged before a          *)
(* non-gas panic) every permitted outcome is admitted.                     *)
(*                                                                         *)
(* State of one VM:                                                        *)
(*   regs  : 0..63 -> BigNat (decimal string)                              *)
(*   mem   : 64-byte page index -> page (hex); absent page = zeros         *)
(*   slen  : highest stack extent so far (bytes [0, slen) are accessible)  *)
(*   env   : static configuration as reported by the implementation        *)
(*           (gas schedule, tx offset, chain id, ...)                      *)
(* An instruction's meaning is an EFFECT record computed from the state    *)
(* and the instruction word; Outcomes(vm, w) is the set of admissible      *)
(* results built from it.                                                  *)
(***************************************************************************)
EXTENDS Naturals, Sequences, FiniteSets, TLC, VmOps
INSTANCE Hex
INSTANCE VerifHash
BN == INSTANCE BigNat

\* ---- register file ----
ZERO == 0  ONE == 1  OF == 2  PC == 3  SSP == 4  SP == 5  FP == 6  HP == 7  ERR == 8  GGAS == 9
CGAS == 10  BAL == 11  IS == 12  RET == 13  RETL == 14  FLAG == 15
FirstWritable == 16
MemSize == 67108864                       \* VM_MAX_RAM = 2^26
MemSizeBN == "67108864"
PageSize == 64

R(vm, i) == vm.regs[i]
\* an instruction OPERAND read: the instruction-set specification does not say whether $cgas / $ggas are read before or
\* after the instruction's own gas charge, so vm.opv may carry the post-charge view of these two registers (see Effs)
Ro(vm, i) == IF i \in DOMAIN vm.opv THEN vm.opv[i] ELSE vm.regs[i]
Writable(r) == r >= FirstWritable
FlagBit(vm, bit) == (BN!ToNat(BN!Mod(R(vm, FLAG), "4")) \div bit) % 2 = 1
UnsafeMath(vm) == FlagBit(vm, 1)          \* F_UNSAFEMATH = 0x01
Wrapping(vm)   == FlagBit(vm, 2)          \* F_WRAPPING   = 0x02
PcNext(vm) == BN!Min(BN!Add(R(vm, PC), "4"), BN!Max64)
Low64(x)  == BN!Mod(x, BN!Two64)
High64(x) == BN!Shr(x, 64)
B2N(b) == IF b THEN "1" ELSE "0"

\* ---- memory ----
Page(m, p) == IF p \in DOMAIN m THEN m[p] ELSE Zeros(PageSize)
SetPage(m, p, v) == IF IsZero(v) THEN [q \in DOMAIN m \ {p} |-> m[q]] ELSE (p :> v) @@ m
RECURSIVE WriteBytes(_, _, _)
WriteBytes(m, a, d) ==
    IF d = "" THEN m
    ELSE LET p   == a \div PageSize
             off == a % PageSize
             n   == IF PageSize - off < BLen(d) THEN PageSize - off ELSE BLen(d)
         IN WriteBytes(SetPage(m, p, Splice(Page(m, p), off, Slice(d, 0, n))), a + n, Slice(d, n, BLen(d) - n))
RECURSIVE ReadBytes(_, _, _)
ReadBytes(m, a, n) ==
    IF n = 0 THEN ""
    ELSE LET p   == a \div PageSize
             off == a % PageSize
             k   == IF PageSize - off < n THEN PageSize - off ELSE n
         IN Slice(Page(m, p), off, k) \o ReadBytes(m, a + k, n - k)
\* writes that make [a, a + n) read zero: only the pages that are stored (non-zero somewhere) and meet the range need one,
\* so a fresh region of any size costs nothing (an allocation of tens of MiB is one step of a real program)
RECURSIVE ZeroFillSeq(_, _, _)
ZeroFillSeq(ps, a, n) ==
    IF ps = {} THEN <<>>
    ELSE LET p  == CHOOSE x \in ps : \A y \in ps : x <= y
             lo == IF p * PageSize < a THEN a ELSE p * PageSize
             hi == IF (p + 1) * PageSize > a + n THEN a + n ELSE (p + 1) * PageSize
         IN <<<<lo, Zeros(hi - lo)>>>> \o ZeroFillSeq(ps \ {p}, a, n)
ZeroFill(m, a, n) == ZeroFillSeq({p \in DOMAIN m : p * PageSize < a + n /\ (p + 1) * PageSize > a}, a, n)
RECURSIVE ApplyWrites(_, _, _)
ApplyWrites(m, ws, i) == IF i > Len(ws) THEN m ELSE ApplyWrites(WriteBytes(m, ws[i][1], ws[i][2]), ws, i + 1)

HpN(vm) == BN!ToNat(R(vm, HP))
\* a range given by BigNat start/length is accessible iff it fits memory and lies entirely in the stack
\* extent or entirely in the heap
RangeOverflows(a, n) == BN!Lt(MemSizeBN, a) \/ BN!Lt(MemSizeBN, n) \/ BN!Lt(MemSizeBN, BN!Add(a, n))
Accessible(vm, a, n) == /\ ~RangeOverflows(a, n)
                        /\ (BN!Le(BN!Add(a, n), BN!FromNat(vm.slen)) \/ BN!Le(R(vm, HP), a))
\* the panic a read of [a, a+n) raises, as a set (empty = none)
ReadPanics(vm, a, n) == IF RangeOverflows(a, n) THEN {"MemoryOverflow"}
                        ELSE IF Accessible(vm, a, n) THEN {} ELSE {"UninitalizedMemoryAccess"}

\* ---- gas ----
GasOf(vm, name) == vm.env.gas[name]
\* a dependent cost: light = base + units / units_per_gas ; heavy = base + units * gas_per_unit (saturating at u64)
Sat64(x) == BN!Min(x, BN!Max64)
DepNoBase(c, units) == IF c.k = "light" THEN BN!Div(units, c.u) ELSE Sat64(BN!Mul(units, c.u))
Dep(c, units) == Sat64(BN!Add(c.base, DepNoBase(c, units)))

(***************************************************************************)
(* Effects.  An effect is                                                  *)
(*   [x    : TRUE iff the instruction is modelled exactly,                 *)
(*    gas  : cost charged (BigNat),                                        *)
(*    pan  : set of panic reasons that apply (other than OutOfGas),        *)
(*    set  : register index -> new value (on success; includes $pc),       *)
(*    wr   : sequence of <<address, bytes>> written on success,            *)
(*    slen : new stack extent on success,                                  *)
(*    out  : "proceed" (default) | "return" | "returndata" | "revert",     *)
(*    rc   : receipts appended on success (records as the recorder logs   *)
(*           them, without the "enc" field),                               *)
(*    pmay : register writes that MAY already have happened when the      *)
(*           instruction panics,                                           *)
(*    upd  : updates of other fields of the vm record on success,          *)
(*    gst  : partial gas charges that may have been applied when the      *)
(*           instruction panics after a staged charge]                     *)
(***************************************************************************)
Eff(gas, pan, set, wr, slen) == [x |-> TRUE, gas |-> gas, pan |-> pan, set |-> set, wr |-> wr, slen |-> slen, out |-> "proceed", rc |-> <<>>, pmay |-> <<>>, upd |-> <<>>, gst |-> {}]
Unmodelled == [x |-> FALSE, gas |-> "0", pan |-> {}, set |-> <<>>, wr |-> <<>>, slen |-> 0, out |-> "proceed", rc |-> <<>>, pmay |-> <<>>, upd |-> <<>>, gst |-> {}]

(***************************************************************************)
(* Memory instructions (C23, C24).                                         *)
(* A write must lie in the current frame's stack [$ssp, $sp) or heap       *)
(* [$hp, caller's $hp).  Ranges are BigNat (start, length).                *)
(***************************************************************************)
PrevHp(vm) == IF Len(vm.frames) = 0 THEN MemSizeBN ELSE vm.frames[Len(vm.frames)].regs[HP]
OwnsStack(vm, a, n) == \/ (n = "0" /\ a = R(vm, SSP))
                       \/ (BN!Le(R(vm, SSP), a) /\ BN!Lt(a, R(vm, SP)) /\ BN!Le(BN!Add(a, n), R(vm, SP)))
OwnsHeap(vm, a, n)  == \/ (n = "0" /\ a = R(vm, HP))
                       \/ (BN!Le(R(vm, HP), a) /\ R(vm, HP) # PrevHp(vm) /\ BN!Le(BN!Add(a, n), PrevHp(vm)))
Owns(vm, a, n) == OwnsStack(vm, a, n) \/ OwnsHeap(vm, a, n)
WritePanics(vm, a, n) == IF ReadPanics(vm, a, n) # {} THEN ReadPanics(vm, a, n)
                         ELSE IF Owns(vm, a, n) THEN {} ELSE {"MemoryOwnership"}
\* two non-empty ranges of equal length n share a byte
Overlap(a, b, n) == n # "0" /\ BN!Lt(a, BN!Add(b, n)) /\ BN!Lt(b, BN!Add(a, n))
AddrOverflow(a) == BN!Lt(BN!Max64, a)                       \* address computation left the 64-bit range
MemRead(vm, a, n) == ReadBytes(vm.mem, BN!ToNat(a), BN!ToNat(n))    \* only when ReadPanics = {}
DestPan(r) == IF Writable(r) THEN {} ELSE {"ReservedRegisterNotWritable"}
StepPc(vm) == (PC :> PcNext(vm))

\* the contract whose context is active (zero id in a script / predicate context)
Zero32 == Zeros(32)
InCall(vm) == Len(vm.frames) > 0
CurContract(vm) == IF InCall(vm) THEN vm.frames[Len(vm.frames)].to ELSE Zero32
ReceiptLimit == 65535
\* a receipt can be appended unless the list is full (the last two slots are kept for panic + script result)
RcptPan(vm) == IF vm.nrc >= ReceiptLimit - 2 THEN {"TooManyReceipts"} ELSE {}

\* saturating 64-bit helpers
SatAdd(a, b) == Sat64(BN!Add(a, b))
SatMul(a, b) == Sat64(BN!Mul(a, b))
=============================================================================
