SPECIFICATION TrSpec
POSTCONDITION Accepted
CHECK_DEADLOCK FALSE
