---------------------------- MODULE VmMeta_Trace ----------------------------
(***************************************************************************)
(* impl -> spec for C05: traces recorded by harness/src/bin/vh_vmmeta.rs.  *)
(*                                                                         *)
(*   Init   the VM right after initialisation (script / predicate context) *)
(*          or stopped inside a called contract (call context): all        *)
(*          registers, the whole stack, the executed transaction           *)
(*          (vm.transaction(), projected to the abstract TxFormat value)   *)
(*          and the static environment.  Accepted iff VM memory holds the  *)
(*          canonical encoding of that transaction at tx_offset, its       *)
(*          length in the word below, the base asset id and the            *)
(*          transaction id at the addresses the initialisation layout      *)
(*          prescribes.                                                    *)
(*   Step   one GTF / GM executed by the real interpreter (registers       *)
(*          preset by the harness = `poke`): accepted iff the register     *)
(*          file after it, the panic reason, the gas charge equal one of   *)
(*          the outcomes VmMeta admits and, for a pointer answer, VM       *)
(*          memory at the returned address holds exactly the canonical     *)
(*          bytes of the field.                                            *)
(* With the environment variable VMMETA_TOLERANT set, a rejected event is  *)
(* printed (<<"MISMATCH", index, what>>) and the observed state is taken   *)
(* over, so that one run reports every deviating event; without it the     *)
(* usual acceptance protocol applies (the trace is rejected at the first   *)
(* such event).                                                            *)
(***************************************************************************)
EXTENDS VmMeta, TraceIO
LOCAL INSTANCE IOUtils
VARIABLES l, vm
trVars == <<l, vm>>
NoVm == [regs |-> <<>>, mem |-> <<>>, slen |-> 0, env |-> <<>>, frames |-> <<>>, opv |-> <<>>, tx |-> <<>>, ctx |-> <<>>]
TrInit == l = 1 /\ vm = NoVm
e == Rec[l]

Tolerant == "VMMETA_TOLERANT" \in DOMAIN IOEnv
\* (call sites compare with TRUE so that TLC evaluates the whole check as an expression — with short-circuit — instead of
\* expanding its disjunctions as sub-actions)
Check(ok, what) == IF ok THEN TRUE ELSE (Tolerant /\ PrintT(<<"MISMATCH", l, what>>))

\* ---- gas / register bookkeeping (same rules as FuelVM.tla / FuelVM_Trace.tla) ----
CanPay(v, g) == BN!Le(g, R(v, CGAS))
Charged(v, g) == (CGAS :> BN!Sub(R(v, CGAS), g)) @@ (GGAS :> BN!Sub(R(v, GGAS), g))
OutOfGasRegs(v) == (CGAS :> "0") @@ (GGAS :> BN!SatSub(R(v, GGAS), R(v, CGAS)))
WithRegs(v, upd) == [r \in 0..63 |-> IF r \in DOMAIN upd THEN upd[r] ELSE v.regs[r]]
GasMonotone(pre, post) == BN!Le(post[GGAS], pre[GGAS]) /\ BN!Le(post[CGAS], post[GGAS])
ConstRegsKept(post) == post[ZERO] = "0" /\ post[ONE] = "1"

Over(regs, upd) == [r \in 0..63 |-> IF ToString(r) \in DOMAIN upd THEN upd[ToString(r)] ELSE regs[r]]
Poked == IF Has(e, "poke") THEN [vm EXCEPT !.regs = Over(vm.regs, e.poke)] ELSE vm
ObservedRegs(v) == Over(v.regs, e.regs)

TSeg ==
    /\ IsEv(l, "Seg")
    /\ vm' = NoVm

\* the VM memory right after initialisation, as the FuelVM specification lays it out:
\*   [0,32) transaction id | [32,64) base asset id | balance table | 8-byte transaction length | transaction bytes
ImageOk ==
    LET txoff == e.env.tx_offset
        enc   == TX!Enc(TX!TransactionT, e.tx)
        n     == BLen(enc)
        first == e.ctx.kind # "call"
        fp    == BN!ToNat(e.regs[FP + 1])
    IN /\ TX!WF(TX!TransactionT, e.tx) = TRUE
       /\ e.tx.kind \in AllKinds
       /\ BLen(e.stack) >= txoff + n
       /\ Slice(e.stack, txoff, n) = enc                                      \* the executed transaction, canonically encoded
       /\ Slice(e.stack, txoff - 8, 8) = BE(n, 8)                             \* its length
       /\ Slice(e.stack, BaseAssetAddr, 32) = e.env.base_asset
       /\ Slice(e.stack, 0, 32) = TX!Id(e.env.chain_id, e.tx)
       /\ e.regs[HP + 1] = BN!FromNat(e.hp)
       /\ (first => (/\ BLen(e.stack) = txoff + n
                     /\ e.regs[SSP + 1] = BN!FromNat(txoff + n)
                     /\ e.regs[SP + 1] = BN!FromNat(txoff + n)
                     /\ fp = 0))
       /\ (~first => (/\ fp # 0
                      /\ Len(e.ctx.frames) >= 1
                      /\ Slice(e.stack, fp, 32) = e.ctx.frames[Len(e.ctx.frames)]))    \* the current frame starts with its contract id
       /\ (e.ctx.kind = "predicate" => (/\ e.ctx.pidx < Len(e.tx.inputs)
                                        /\ e.tx.inputs[e.ctx.pidx + 1].kind \in TX!PredicateKinds))
TInit ==
    /\ IsEv(l, "Init")
    /\ Check(ImageOk, "image") = TRUE
    /\ vm' = [regs |-> [r \in 0..63 |-> e.regs[r + 1]], mem |-> WriteBytes(<<>>, 0, e.stack), slen |-> BLen(e.stack), env |-> e.env,
              frames |-> <<>>, opv |-> <<>>, tx |-> e.tx, ctx |-> e.ctx]

\* registers after a panicking instruction: out-of-gas leaves $cgas = 0; any other panic leaves the registers as they were,
\* possibly with the gas charge applied
PanicRegsOk(v, eff, reason, oregs) ==
    \/ /\ reason = "OutOfGas" /\ ~CanPay(v, eff.gas) /\ oregs = WithRegs(v, OutOfGasRegs(v))
    \/ /\ reason \in eff.pan
       /\ \E g \in {<<>>} \cup (IF CanPay(v, eff.gas) THEN {Charged(v, eff.gas)} ELSE {}) : oregs = WithRegs(v, g)

\* a pointer answer: VM memory at the address holds exactly the canonical bytes of the field
DerefOk(v, eff) ==
    \/ eff.deref = <<>>
    \/ LET a == BN!ToNat(eff.deref[1])  d == eff.deref[2] IN
       /\ a + BLen(d) <= v.slen
       /\ ReadBytes(v.mem, a, BLen(d)) = d
\* what the harness read through the VM's own memory accessor at the returned address agrees with the recorded image
LoggedDerefOk(v, oregs) ==
    Has(e, "deref") => (LET a == BN!ToNat(oregs[RA(e.word)]) IN
                        a + BLen(e.deref) <= v.slen /\ ReadBytes(v.mem, a, BLen(e.deref)) = e.deref)

Exact(v, eff, oregs) ==
    CASE e.out = "proceed" ->
            /\ eff.pan = {}
            /\ CanPay(v, eff.gas)
            /\ oregs = WithRegs(v, eff.set @@ Charged(v, eff.gas))
            /\ DerefOk(v, eff)
            /\ LoggedDerefOk(v, oregs)
      [] e.out = "panic" -> PanicRegsOk(v, eff, e.reason, oregs)
      [] OTHER -> FALSE

\* the operand $rB of GTF may be $cgas / $ggas: read before or after the instruction's own charge
Cands(v, n, w) ==
    LET g == GasOf(v, MetaGas(n)) IN
    MetaEffs(v, n, w) \cup (IF n = "GTF" /\ RB(w) \in {CGAS, GGAS} /\ CanPay(v, g) /\ g # "0"
                            THEN MetaEffs([v EXCEPT !.opv = Charged(v, g)], n, w) ELSE {})

StepOk(v, oregs) ==
    /\ ValidWord(e.word)
    /\ Mnemonic(e.word) \in MetaNames
    /\ e.mode = "exec"
    /\ e.mem = <<>>                                       \* introspection never writes memory,
    /\ e.slen = v.slen                                    \* never moves the stack extent
    /\ Len(e.rc) = 0                                      \* and never produces a receipt
    /\ (Has(e, "fetch") => e.word = ReadBytes(v.mem, BN!ToNat(R(v, PC)), 4))      \* executed through the real fetch at $pc
    /\ GasMonotone(v.regs, oregs)
    /\ ConstRegsKept(oregs)
    /\ \E eff \in Cands(v, Mnemonic(e.word), e.word) : Exact(v, eff, oregs)

TStep ==
    /\ IsEv(l, "Step")
    /\ LET v     == Poked
           oregs == ObservedRegs(v)
       IN /\ Check(StepOk(v, oregs), "step") = TRUE
          /\ vm' = [v EXCEPT !.regs = oregs]

TrNext == (TSeg \/ TInit \/ TStep) /\ l' = l + 1
TrSpec == TrInit /\ [][TrNext]_trVars
=============================================================================
