SPECIFICATION MCSpec
CONSTANTS
  MaxDepth = 2
  Families = {"SCWQ", "SRW", "SRWQ", "SWW", "SWWQ", "SCLR", "SRDD", "SRDI", "SWRD", "SWRI", "SUPD", "SUPI", "SPLD"}
INVARIANTS CacheIrrelevant HotNotDearer Isolation ReadsPure Cleared Written Untouched WarmGrows Boundary Failed
CHECK_DEADLOCK FALSE
