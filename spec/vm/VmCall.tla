------------------------------- MODULE VmCall -------------------------------
(***************************************************************************)
(* Contract calls, returns, reverts and logs (C34, C28, part of C26/C27). *)
(* vm.frames : sequence of [to, asset, regs (the caller's registers as     *)
(*             saved in the frame)]                                         *)
(* vm.code   : contract id -> bytecode (hex)      (from the Init event)    *)
(* vm.cbal   : contract id -> (asset id -> balance); an absent entry is    *)
(*             a balance of 0 that costs storage gas when first created    *)
(* vm.inputs : the transaction's input contracts                           *)
(* vm.nrc    : number of receipts so far                                   *)
(* Free (external) balances live in the table at memory offset 64:         *)
(* max_inputs entries of asset id (32) || amount (8).                      *)
(***************************************************************************)
EXTENDS VmBase

FrameSize == 600                                  \* to 32 + asset 32 + 64 registers * 8 + code size 8 + a 8 + b 8
BalTableAt(i) == 64 + 40 * i
NoSlot == 100000
RECURSIVE FreeSlotFrom(_, _, _)
FreeSlotFrom(vm, asset, i) == IF i >= vm.env.max_inputs THEN NoSlot
                              ELSE IF ReadBytes(vm.mem, BalTableAt(i), 32) = asset THEN i ELSE FreeSlotFrom(vm, asset, i + 1)
FreeSlot(vm, asset) == FreeSlotFrom(vm, asset, 0)
FreeBal(vm, asset) == LET i == FreeSlot(vm, asset) IN IF i = NoSlot THEN "0" ELSE UnBE(ReadBytes(vm.mem, BalTableAt(i) + 32, 8))
CBalHas(vm, c, asset) == c \in DOMAIN vm.cbal /\ asset \in DOMAIN vm.cbal[c]
CBal(vm, c, asset) == IF CBalHas(vm, c, asset) THEN vm.cbal[c][asset] ELSE "0"
CBalSet(cb, c, asset, v) == (c :> ((asset :> v) @@ (IF c \in DOMAIN cb THEN cb[c] ELSE <<>>))) @@ cb

RECURSIVE RegsBE(_, _)
RegsBE(regs, r) == IF r > 63 THEN "" ELSE BEBig(regs[r], 8) \o RegsBE(regs, r + 1)

Rc(kind, fields) == fields @@ [kind |-> kind]

CallEff(vm, w) ==
    LET pa     == Ro(vm, RA(w))
        amount == Ro(vm, RB(w))
        pas    == Ro(vm, RC(w))
        want   == Ro(vm, RD(w))
        rp1    == ReadPanics(vm, pa, "48")
        rp2    == ReadPanics(vm, pas, "32")
        params == IF rp1 = {} THEN MemRead(vm, pa, "48") ELSE Zeros(48)
        to     == Slice(params, 0, 32)
        a      == UnBE(Slice(params, 32, 8))
        b      == UnBE(Slice(params, 40, 8))
        asset  == IF rp2 = {} THEN MemRead(vm, pas, "32") ELSE Zero32
        exists == to \in DOMAIN vm.code
        code   == IF exists THEN vm.code[to] ELSE ""
        cpad   == Aligned8(BLen(code))
        total  == FrameSize + cpad
        cur    == CurContract(vm)
        srcBal == IF InCall(vm) THEN CBal(vm, cur, asset) ELSE FreeBal(vm, asset)
        newEntry == amount # "0" /\ ~CBalHas(vm, to, asset)
        gas    == BN!Add(BN!Add(GasOf(vm, "call").base, DepNoBase(GasOf(vm, "call"), BN!FromNat(cpad))),
                         IF newEntry THEN Sat64(BN!Mul("40", GasOf(vm, "new_storage_per_byte"))) ELSE "0")
        newSp  == BN!Add(R(vm, SP), BN!FromNat(total))
        pan    == rp1 \cup rp2
                  \cup (IF rp1 = {} /\ ~exists THEN {"ContractNotFound"} ELSE {})
                  \cup (IF rp1 = {} /\ to \notin vm.inputs THEN {"ContractNotInInputs"} ELSE {})
                  \cup (IF rp2 = {} /\ BN!Lt(srcBal, amount) THEN {"NotEnoughBalance"} ELSE {})
                  \cup (IF rp1 = {} /\ rp2 = {} /\ amount # "0" /\ BN!Lt(BN!Max64, BN!Add(CBal(vm, to, asset), amount)) THEN {"BalanceOverflow"} ELSE {})
                  \cup (IF BN!Lt(R(vm, HP), newSp) THEN {"MemoryGrowthOverlap"} ELSE {})
                  \cup RcptPan(vm)
        cgas1  == BN!SatSub(R(vm, CGAS), gas)                   \* context gas left after the charge
        fwd    == BN!Min(cgas1, want)
        saved  == [r \in 0..63 |-> IF r = CGAS THEN BN!Sub(cgas1, fwd) ELSE IF r = GGAS THEN BN!SatSub(R(vm, GGAS), gas) ELSE R(vm, r)]
        fp     == R(vm, SP)
        start  == BN!Add(fp, BN!FromNat(FrameSize))
        frame  == to \o asset \o RegsBE(saved, 0) \o BE(cpad, 8) \o BEBig(a, 8) \o BEBig(b, 8) \o code \o Zeros(cpad - BLen(code))
        \* balances: debit the source, credit the callee
        cb1    == IF amount = "0" THEN vm.cbal
                  ELSE IF InCall(vm) THEN CBalSet(vm.cbal, cur, asset, BN!SatSub(srcBal, amount)) ELSE vm.cbal
        cb2    == IF amount = "0" THEN cb1 ELSE CBalSet(cb1, to, asset, BN!Add(CBal([vm EXCEPT !.cbal = cb1], to, asset), amount))
        slot   == FreeSlot(vm, asset)
        balWr  == IF InCall(vm) \/ amount = "0" \/ slot = NoSlot THEN <<>>
                  ELSE <<<<BalTableAt(slot) + 32, BEBig(BN!SatSub(srcBal, amount), 8)>>>>
    IN [Eff(gas, pan,
            (FP :> fp) @@ (SP :> newSp) @@ (SSP :> newSp) @@ (PC :> start) @@ (IS :> start) @@ (BAL :> amount)
              @@ (CGAS :> fwd) @@ (FLAG :> "0"),
            IF pan = {} THEN balWr \o <<<<BN!ToNat(fp), frame>>>> ELSE <<>>,
            IF pan = {} /\ BN!ToNat(newSp) > vm.slen THEN BN!ToNat(newSp) ELSE vm.slen)
        EXCEPT !.rc = <<Rc("Call", [id |-> cur, to |-> to, amount |-> amount, asset_id |-> asset, gas |-> fwd,
                                    param1 |-> a, param2 |-> b, pc |-> start, is |-> start])>>,
               !.upd = [frames |-> Append(vm.frames, [to |-> to, asset |-> asset, regs |-> saved]), cbal |-> cb2],
               !.gst = {GasOf(vm, "call").base, BN!Add(GasOf(vm, "call").base, DepNoBase(GasOf(vm, "call"), BN!FromNat(cpad)))},
               \* the frame is placed after the gas to forward has been taken out of $cgas: a CALL whose frame does not fit
               \* (MemoryGrowthOverlap) panics with $cgas already reduced to what the caller keeps
               !.pmay = (CGAS :> BN!Sub(cgas1, fwd))]

\* leaving a context: the caller's registers come back except $cgas (credited with the unspent gas), $ggas, $ret, $retl, $hp
\* (gas: the charge for the returning instruction itself, already known to be payable on success)
ReturnRegs(vm, ret, retl, gas) ==
    IF ~InCall(vm) THEN (RET :> ret) @@ (RETL :> retl) @@ (PC :> PcNext(vm))
    ELSE LET f == vm.frames[Len(vm.frames)] IN
         [r \in (0..63) \ {GGAS} |->
            IF r = RET THEN ret ELSE IF r = RETL THEN retl ELSE IF r = HP THEN R(vm, HP)
            ELSE IF r = PC THEN BN!Min(BN!Add(f.regs[PC], "4"), BN!Max64)
            ELSE IF r = CGAS THEN BN!Add(BN!SatSub(R(vm, CGAS), gas), f.regs[CGAS])
            ELSE f.regs[r]]
PopFrames(vm) == IF InCall(vm) THEN [frames |-> SubSeq(vm.frames, 1, Len(vm.frames) - 1)] ELSE <<>>

RetEff(vm, w) ==
    LET val == Ro(vm, RA(w)) IN
    [Eff(GasOf(vm, "ret"), RcptPan(vm), ReturnRegs(vm, val, "0", GasOf(vm, "ret")), <<>>, vm.slen)
        EXCEPT !.rc = <<Rc("Return", [id |-> CurContract(vm), val |-> val, pc |-> R(vm, PC), is |-> R(vm, IS)])>>,
               !.upd = PopFrames(vm),
               !.out = IF InCall(vm) THEN "proceed" ELSE "return"]
RetdEff(vm, w) ==
    LET ptr == Ro(vm, RA(w))  len == Ro(vm, RB(w))
        rp  == ReadPanics(vm, ptr, len)
        data == IF rp = {} THEN MemRead(vm, ptr, len) ELSE ""
    IN [Eff(Dep(GasOf(vm, "retd"), len), rp \cup RcptPan(vm), ReturnRegs(vm, ptr, len, Dep(GasOf(vm, "retd"), len)), <<>>, vm.slen)
        EXCEPT !.rc = <<Rc("ReturnData", [id |-> CurContract(vm), ptr |-> ptr, len |-> len, digest |-> SHA256(data),
                                          pc |-> R(vm, PC), is |-> R(vm, IS), data |-> data])>>,
               !.upd = PopFrames(vm),
               !.out = IF InCall(vm) THEN "proceed" ELSE "returndata"]
RvrtEff(vm, w) ==
    [Eff(GasOf(vm, "rvrt"), RcptPan(vm), <<>>, <<>>, vm.slen)
        EXCEPT !.rc = <<Rc("Revert", [id |-> CurContract(vm), ra |-> Ro(vm, RA(w)), pc |-> R(vm, PC), is |-> R(vm, IS)])>>,
               !.out = "revert"]
LogEff(vm, w) ==
    [Eff(GasOf(vm, "log"), RcptPan(vm), StepPc(vm), <<>>, vm.slen)
        EXCEPT !.rc = <<Rc("Log", [id |-> CurContract(vm), ra |-> Ro(vm, RA(w)), rb |-> Ro(vm, RB(w)), rc |-> Ro(vm, RC(w)), rd |-> Ro(vm, RD(w)),
                                   pc |-> R(vm, PC), is |-> R(vm, IS)])>>]
LogdEff(vm, w) ==
    LET ptr == Ro(vm, RC(w))  len == Ro(vm, RD(w))
        rp  == ReadPanics(vm, ptr, len)
        data == IF rp = {} THEN MemRead(vm, ptr, len) ELSE ""
    IN [Eff(Dep(GasOf(vm, "logd"), len), rp \cup RcptPan(vm), StepPc(vm), <<>>, vm.slen)
        EXCEPT !.rc = <<Rc("LogData", [id |-> CurContract(vm), ra |-> Ro(vm, RA(w)), rb |-> Ro(vm, RB(w)), ptr |-> ptr, len |-> len,
                                       digest |-> SHA256(data), pc |-> R(vm, PC), is |-> R(vm, IS), data |-> data])>>]

CallNames == {"CALL", "RET", "RETD", "RVRT", "LOG", "LOGD"}
CallFamEff(vm, n, w) ==
    CASE n = "CALL" -> CallEff(vm, w) [] n = "RET" -> RetEff(vm, w) [] n = "RETD" -> RetdEff(vm, w)
      [] n = "RVRT" -> RvrtEff(vm, w) [] n = "LOG" -> LogEff(vm, w) [] n = "LOGD" -> LogdEff(vm, w)
=============================================================================
