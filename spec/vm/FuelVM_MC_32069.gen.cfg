SPECIFICATION MCSpec
CONSTANTS
  MaxDepth = 3
  Gas0 = "9"
  Alphabet = {"10410440", "20410440", "1b492480", "12410000", "5d450000", "5f411001", "5f451001", "26400000", "91000040", "92000008", "95000003", "97000001", "28411400", "74000001", "75000000", "99400000", "47000000"}
INVARIANTS GasInv ConstRegs PcOk StackOrder ZeroOutside
PROPERTIES GasNeverUp WritesOwned
CHECK_DEADLOCK FALSE
