---------------------------- MODULE VmCryptoTest ----------------------------
(* Self-test of the primitives used by VmCrypto: published Keccak vectors, curve constants, group orders, Java overrides   *)
(* (ModPow, ModInv, CrEcMul, Cr2InSubgroup) against their TLA+ definitions, ECDSA recovery on vectors produced by an        *)
(* independent big-integer implementation.  Run: TLC with VmCryptoTest.cfg; every ASSUME must hold.                         *)
EXTENDS VmCrypto
LOCAL VC == INSTANCE VerifCrypto
VARIABLE x
G1 == <<"1", "2">>
G2GenHex == BEBig("11559732032986387107991004021392285783925812861821192530917403151452391805634", 32) \o BEBig("10857046999023057135944570762232829481370756359578518086990519993285655852781", 32)
            \o BEBig("4082367875863433681332203403145435568316851327593401208105741076214120093531", 32) \o BEBig("8495653923123431417604973247489272438418190587263600148770280649306958101930", 32)
OffSubgroupHex == "000000000000000000000000000000000000000000000000000000000000000100000000000000000000000000000000000000000000000000000000000000022b76c179599bb92a963dac85546a005a777f7c13f6a7b75d5918b6b5808f5fde101f7278419308b95099eca02dcee0c5381f4d26d1d62313f057167f064101ce"
ASSUME VC!Keccak256("") = "c5d2460186f7233c927e7db2dcc703c0e500b653ca82273b7bfad8045d85a470"
ASSUME VC!Keccak256("616263") = "4e03657aea45a94fc7d47ba826c8d667c0d1e6e33a64a036ec44f58fa12d6c45"
ASSUME VC!ModPow("3", "200", "1000007") = BN!Mod(BN!Pow("3", "200"), "1000007")
ASSUME BN!Mod(BN!Mul(VC!ModInv("12345", "1000007"), "12345"), "1000007") = "1"
ASSUME CrOnCurve(CrK1, CrK1.G) /\ CrOnCurve(CrR1, CrR1.G) /\ CrOnCurve(CrBn, G1)
ASSUME CrK1.sq = BN!Div(BN!Add(CrK1.p, "1"), "4") /\ CrR1.sq = BN!Div(BN!Add(CrR1.p, "1"), "4")
ASSUME CrK1.half = BN!Div(CrK1.n, "2") /\ CrR1.half = BN!Div(CrR1.n, "2") /\ CrR1.a = BN!Sub(CrR1.p, "3")
ASSUME CrTwo255 = BN!Shl("1", 255) /\ CrTwo32 = BN!Shl("1", 32)
ASSUME Cr2Mul(CrBnB2, <<"9", "1">>) = <<"3", "0">>
\* group orders (TLA+ definition of the scalar multiplication)
ASSUME CrIsInf(CrEcMulDef(CrK1, CrK1.G, CrK1.n)) /\ CrIsInf(CrEcMulDef(CrR1, CrR1.G, CrR1.n)) /\ CrIsInf(CrEcMulDef(CrBn, G1, CrBnR))
ASSUME ~CrIsInf(CrEcMulDef(CrBn, G1, BN!Sub(CrBnR, "1")))
\* override = definition
Scalars == {"0", "1", "2", "3", "255", CrBnR, BN!Add(CrBnR, "5"), BN!Sub(BN!Shl("1", 256), "1"), CrK1.half, "98765432109876543210987654321098765432109876543210"}
ASSUME \A k \in Scalars : /\ CrEcMul(CrBn, G1, k) = CrEcMulDef(CrBn, G1, k)
                          /\ CrEcMul(CrK1, CrK1.G, k) = CrEcMulDef(CrK1, CrK1.G, k)
                          /\ CrEcMul(CrR1, CrR1.G, k) = CrEcMulDef(CrR1, CrR1.G, k)
                          /\ CrEcMul(CrBn, CrInf, k) = CrInf
ASSUME CrEcAdd(CrBn, CrEcMul(CrBn, G1, "5"), CrEcMul(CrBn, G1, "7")) = CrEcMul(CrBn, G1, "12")
ASSUME CrEcAdd(CrBn, CrEcMul(CrBn, G1, "5"), CrEcMul(CrBn, G1, BN!Sub(CrBnR, "5"))) = CrInf
ASSUME CrEcAdd(CrBn, CrEcMul(CrBn, G1, "5"), CrEcMul(CrBn, G1, "5")) = CrEcMul(CrBn, G1, "10")
ASSUME Cr2InSubgroupDef(CrG2Pt(G2GenHex)) /\ Cr2InSubgroup(CrG2Pt(G2GenHex)) /\ CrG2Ok(G2GenHex)
ASSUME Cr2OnTwist(CrG2Pt(OffSubgroupHex)) /\ ~Cr2InSubgroupDef(CrG2Pt(OffSubgroupHex)) /\ ~Cr2InSubgroup(CrG2Pt(OffSubgroupHex)) /\ ~CrG2Ok(OffSubgroupHex)
ASSUME CrG2Ok(Zeros(128)) /\ ~CrG2Ok(BEBig("1", 32) \o Zeros(96)) /\ ~CrG2Ok(BEBig(CrBnP, 32) \o Zeros(96))
ASSUME CrG1Dec(Zeros(64)).ok /\ CrG1Dec(BEBig("1", 32) \o BEBig("2", 32)).ok /\ ~CrG1Dec(BEBig("1", 32) \o BEBig("3", 32)).ok
ASSUME ~CrG1Dec(BEBig(BN!Add(CrBnP, "1"), 32) \o BEBig("2", 32)).ok
\* ECDSA recovery
ASSUME CrRecover(CrK1, "533ea5b9bdee65dabfd16337955ec562f37b3507e2efe8da9aea6e91d4af75ff78a9dfa91e0c40aad1453a0f46238a8f401604666e8f78b999a6d6470973e0b7", "e46b320165eec91e6344fa10340d5b3208304d6cad29d0d5aed18466d1d9d80e") = {"aaad313711b679c44df2b8d91ee0dea65c321dfbae74e003ff242b2fcd48e1bfcb216f21d5232f4aaf7db163511b27460a8e823589e7f87c545e69d6d612163e"}
ASSUME CrRecover(CrK1, "000000000000000000000000000000000000000000000000000000000000000078a9dfa91e0c40aad1453a0f46238a8f401604666e8f78b999a6d6470973e0b7", "e46b320165eec91e6344fa10340d5b3208304d6cad29d0d5aed18466d1d9d80e") = {CrFail}
ASSUME CrRecover(CrK1, "533ea5b9bdee65dabfd16337955ec562f37b3507e2efe8da9aea6e91d4af75ff0000000000000000000000000000000000000000000000000000000000000000", "e46b320165eec91e6344fa10340d5b3208304d6cad29d0d5aed18466d1d9d80e") = {CrFail}
ASSUME CrRecover(CrK1, "ffffffffffffffffffffffffffffffffffffffffffffffffffffffffffffffff78a9dfa91e0c40aad1453a0f46238a8f401604666e8f78b999a6d6470973e0b7", "e46b320165eec91e6344fa10340d5b3208304d6cad29d0d5aed18466d1d9d80e") = {CrFail}
ASSUME CrRecover(CrK1, "533ea5b9bdee65dabfd16337955ec562f37b3507e2efe8da9aea6e91d4af75ff78a9dfa91e0c40aad1453a0f46238a8f401604666e8f78b999a6d6470973e0b7", "0000000000000000000000000000000000000000000000000000000000000000") # {"aaad313711b679c44df2b8d91ee0dea65c321dfbae74e003ff242b2fcd48e1bfcb216f21d5232f4aaf7db163511b27460a8e823589e7f87c545e69d6d612163e"}
ASSUME CrRecover(CrR1, "78bae09fc0512337d7c468bfde84a14473d0b77d2e1d9c035767d229af041bb414cf828eb798c65e54555f626b70133b93dc9f12e84ec3db02f2ebccd2b14c2b", "e46b320165eec91e6344fa10340d5b3208304d6cad29d0d5aed18466d1d9d80e") = {"04374a2ab4030566d9405c82164447b9c8e9888fa929f68e580f01d8205d328f37d65cd17761122e1182144274de72f16b0850922dadbf63a10e7346cddc7fc2"}
ASSUME CrRecover(CrR1, "000000000000000000000000000000000000000000000000000000000000000014cf828eb798c65e54555f626b70133b93dc9f12e84ec3db02f2ebccd2b14c2b", "e46b320165eec91e6344fa10340d5b3208304d6cad29d0d5aed18466d1d9d80e") = {CrFail}
ASSUME CrRecover(CrR1, "78bae09fc0512337d7c468bfde84a14473d0b77d2e1d9c035767d229af041bb40000000000000000000000000000000000000000000000000000000000000000", "e46b320165eec91e6344fa10340d5b3208304d6cad29d0d5aed18466d1d9d80e") = {CrFail}
ASSUME CrRecover(CrR1, "ffffffffffffffffffffffffffffffffffffffffffffffffffffffffffffffff14cf828eb798c65e54555f626b70133b93dc9f12e84ec3db02f2ebccd2b14c2b", "e46b320165eec91e6344fa10340d5b3208304d6cad29d0d5aed18466d1d9d80e") = {CrFail}
ASSUME CrRecover(CrR1, "78bae09fc0512337d7c468bfde84a14473d0b77d2e1d9c035767d229af041bb414cf828eb798c65e54555f626b70133b93dc9f12e84ec3db02f2ebccd2b14c2b", "0000000000000000000000000000000000000000000000000000000000000000") # {"04374a2ab4030566d9405c82164447b9c8e9888fa929f68e580f01d8205d328f37d65cd17761122e1182144274de72f16b0850922dadbf63a10e7346cddc7fc2"}
Init == x = 0
Next == UNCHANGED x
=============================================================================
