SPECIFICATION MCSpec
CONSTANTS
  MemSize = 1024
  MaxLen = 5
  Sizes = {0, 1, 8, 255, 256, 257, 767, 768, 1016, 1024, 1025}
  WLens = {1, 8}
  CLens = {1, 8}
  MaxSnaps = 2
  EmitReplay = FALSE
  DepthInView = TRUE
VIEW View
INVARIANTS TypeOK ZeroInit AccessibleIffTwoRegions SpBelowStack
PROPERTIES GrowthReadsZero RollbackRestores
CHECK_DEADLOCK FALSE
