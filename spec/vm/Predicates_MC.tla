----------------------------- MODULE Predicates_MC -----------------------------
(***************************************************************************)
(* Leg M + generator for Leg R.                                            *)
(* Profile "preds": every sequence of 1..MaxIn predicate inputs over ALL   *)
(*   outcome variants (returns one with declared gas exact / one short /   *)
(*   one too much, wrong owner, returns zero, returns two, panics, never       *)
(*   terminates, second program with a loop, need above the cap) and ALL   *)
(*   completion orders of the tasks, in verification and estimation mode.  *)
(* Profile "mixed": signed inputs (witness index 0/1/out of range, two     *)
(*   owners) mixed with predicate inputs over a set of witness vectors     *)
(*   (shared witness, swapped, signature over another id, garbage).        *)
(* Every final state prints one REPLAY line: the abstract transaction, the *)
(* completion order and the outcome the specification predicts.            *)
(***************************************************************************)
EXTENDS Predicates, TLC, Json
LOCAL BNM == INSTANCE BigNat

CONSTANTS MaxIn, Profile, EmitReplay

\* the schedule the real interpreter is configured with during replay (not all ones, so that a
\* charge of the wrong entry shows)
Cost == [noop |-> "2", movi |-> "3", subi |-> "5", jnzi |-> "7", ret |-> "11", ji |-> "1"]
Cap == "200"

P(pre, loop, tail) == [pre |-> pre, loop |-> loop, tail |-> tail]
N(p) == Need(p, Cost)
Pred(ownerOk, p, gas) == [k |-> "pred", owner |-> IF ownerOk THEN "P" ELSE "X", root |-> "P", prog |-> p, gas |-> gas]

PA == P(1, 0, "ret1")        \* need 13
PB == P(0, 3, "ret1")        \* need 3 + 3*12 + 11 = 50
PBig == P(2, 16, "ret1")     \* need 4 + 3 + 16*12 + 11 = 210 > Cap

VerifyVariants == {
    Pred(TRUE, PA, N(PA)),                           \* authorised
    Pred(TRUE, PA, BNM!Sub(N(PA), "1")),             \* one unit short: runs out of gas
    Pred(TRUE, PA, BNM!Add(N(PA), "1")),             \* one unit too much: gas left over
    Pred(FALSE, PA, N(PA)),                          \* owner is not the predicate address
    Pred(TRUE, P(1, 0, "ret0"), N(PA)),              \* returns zero
    Pred(TRUE, P(0, 0, "ret2"), "14"),               \* returns two (MOVI ; RET: 3 + 11)
    Pred(TRUE, P(1, 0, "retd"), "100"),              \* panics
    Pred(TRUE, P(0, 0, "spin"), "40"),               \* never terminates
    Pred(TRUE, PB, N(PB)),                           \* authorised, other program (loop)
    Pred(TRUE, PBig, N(PBig)) }                      \* authorised, need above the estimation cap
\* estimation ignores the declared gas: one representative per program / owner
EstimateVariants == {
    Pred(TRUE, PA, "0"), Pred(FALSE, PA, "0"), Pred(TRUE, P(1, 0, "ret0"), "0"), Pred(TRUE, P(0, 0, "ret2"), "0"),
    Pred(TRUE, P(1, 0, "retd"), "0"), Pred(TRUE, P(0, 0, "spin"), "0"), Pred(TRUE, PB, "7"), Pred(TRUE, PBig, "0") }

Signed(w, o) == [k |-> "signed", w |-> w, owner |-> o]
SignedVariants == {Signed(0, "A"), Signed(1, "A"), Signed(0, "B"), Signed(1, "B"), Signed(2, "A")}
MixedPredVariants == {Pred(TRUE, PA, N(PA)), Pred(FALSE, PA, N(PA)), Pred(TRUE, PB, BNM!Add(N(PB), "1")), Pred(TRUE, PB, N(PB))}

W(s, o) == [signer |-> s, over |-> o]
WitSets == { <<>>, <<W("A", "this")>>, <<W("A", "this"), W("B", "this")>>, <<W("B", "this"), W("A", "this")>>,
             <<W("A", "other"), W("B", "this")>>, <<W("none", "this"), W("A", "this")>>, <<W("A", "this"), W("A", "this")>> }

Seqs(V) == UNION {[1..n -> V] : n \in 1..MaxIn}
Tx(ins, ws) == [id |-> "this", inputs |-> ins, wits |-> ws, cost |-> Cost, cap |-> Cap]

MCInit ==
    \/ /\ Profile = "preds"
       /\ \/ \E ins \in Seqs(VerifyVariants) : InitWith(Tx(ins, <<>>), "verify")
          \/ \E ins \in Seqs(EstimateVariants) : InitWith(Tx(ins, <<>>), "estimate")
    \/ /\ Profile = "mixed"
       /\ \E ins \in Seqs(SignedVariants \cup MixedPredVariants) : \E ws \in WitSets :
             /\ \E i \in DOMAIN ins : ins[i].k = "signed"
             /\ InitWith(Tx(ins, ws), "verify")

ACheckSig == \E i \in InIdx(tx) : CheckSig(i)
ASpawnTask == \E i \in InIdx(tx) : SpawnTask(i)
ACompleteTask == \E i \in InIdx(tx) : CompleteTask(i)
AFinalize == Finalize
AEstimate == Estimate
MCNext == ACheckSig \/ ASpawnTask \/ ACompleteTask \/ AFinalize \/ AEstimate
MCSpec == MCInit /\ [][MCNext]_vars

\* ---- REPLAY lines ----
Order == [k \in DOMAIN done |-> done[k][1] - 1]          \* 0-based input indices in completion order
TF(b) == IF b THEN "T" ELSE "F"
SigExp == LET s == SigVerdicts(tx) IN IF s = {TRUE} THEN "T" ELSE IF s = {FALSE} THEN "F" ELSE "any"
GasList(t) == [i \in InIdx(t) |-> IF t.inputs[i].k = "pred" THEN t.inputs[i].gas ELSE ""]
ExpVerify == [sig |-> SigExp, pred_ok |-> out.ok, gas |-> out.gas, full |-> out.full,
              tamper |-> IF out.full /\ SignedIdx(tx) # {} THEN "F" ELSE "na"]
ExpEstimate == [est_ok |-> out.ok, est_why |-> EstWhy(tx),
                est_gas |-> IF out.ok THEN GasList(out.etx) ELSE <<>>, ver_gas |-> out.gas]
Line == [tx |-> tx, mode |-> mode, order |-> Order, exp |-> IF mode = "verify" THEN ExpVerify ELSE ExpEstimate]
\* Every final state is model-checked; all of them are printed for replay up to 3 inputs, and with 4 inputs
\* those over the core variants (one representative per way of failing), which keeps the replay affordable.
Core4 == { Pred(TRUE, PA, N(PA)), Pred(TRUE, PA, BNM!Sub(N(PA), "1")), Pred(TRUE, PA, BNM!Add(N(PA), "1")), Pred(FALSE, PA, N(PA)),
           Pred(TRUE, P(0, 0, "ret2"), "14"), Pred(TRUE, P(0, 0, "spin"), "40"), Pred(TRUE, PB, N(PB)),
           Pred(TRUE, PA, "0"), Pred(FALSE, PA, "0"), Pred(TRUE, P(0, 0, "ret2"), "0"), Pred(TRUE, P(0, 0, "spin"), "0"),
           Pred(TRUE, PB, "7"), Pred(TRUE, PBig, "0") }
Printed == Len(tx.inputs) < 4 \/ \A i \in InIdx(tx) : tx.inputs[i] \in Core4
Emit == (EmitReplay /\ Final /\ Printed) => PrintT("REPLAY" \o ToJson(Line))
=============================================================================
