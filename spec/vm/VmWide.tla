------------------------------- MODULE VmWide -------------------------------
(***************************************************************************)
(* Wide-integer instructions (C22): 128-bit (WD..) and 256-bit (WQ..)      *)
(* compare, arithmetic/logic, multiply, divide, fused multiply-divide,     *)
(* add-mod and mul-mod.  Written from the FuelVM instruction-set           *)
(* specification with exact naturals (BigNat is unbounded, so the          *)
(* "2x-wide intermediates" are simply the true sums / products):           *)
(*   - a memory operand is the W bytes at the register's address read as   *)
(*     a big-endian natural (W = 16 or 32); a direct operand is the        *)
(*     register value itself, zero-extended;                               *)
(*   - the 6-bit immediate selects mode/operation and which operands are   *)
(*     indirect; reserved bits / reserved modes -> InvalidImmediateValue;  *)
(*   - results are written big-endian to the W bytes at $rA, which must    *)
(*     be owned (compares write register rA, which must be writable);      *)
(*   - $of = 1 iff the true result does not fit W bytes (panic             *)
(*     ArithmeticOverflow unless F_WRAPPING), $err = 1 iff the operation   *)
(*     is undefined (panic ArithmeticError unless F_UNSAFEMATH; result 0); *)
(*     both are cleared otherwise;                                         *)
(*   - a zero divider of the fused multiply-divide stands for 2^(8W).      *)
(* Panic conditions are unordered in the specification: every applicable   *)
(* reason is admitted.                                                     *)
(***************************************************************************)
EXTENDS VmBase

WideNames == {"WDCM","WQCM","WDOP","WQOP","WDML","WQML","WDDV","WQDV","WDMD","WQMD","WDAM","WQAM","WDMM","WQMM"}
WideD == {"WDCM","WDOP","WDML","WDDV","WDMD","WDAM","WDMM"}         \* 128-bit; the others are 256-bit
WBytes(n) == IF n \in WideD THEN 16 ELSE 32
\* family of an instruction
WKind(n) == CASE n \in {"WDCM","WQCM"} -> "cmp" [] n \in {"WDOP","WQOP"} -> "op" [] n \in {"WDML","WQML"} -> "mul"
              [] n \in {"WDDV","WQDV"} -> "div" [] n \in {"WDMD","WQMD"} -> "muldiv" [] n \in {"WDAM","WQAM"} -> "addmod"
              [] n \in {"WDMM","WQMM"} -> "mulmod"
\* the schedule entry charged
WideGas == [n \in WideNames |->
    CASE n = "WDCM" -> "wdcm" [] n = "WQCM" -> "wqcm" [] n = "WDOP" -> "wdop" [] n = "WQOP" -> "wqop" [] n = "WDML" -> "wdml"
      [] n = "WQML" -> "wqml" [] n = "WDDV" -> "wddv" [] n = "WQDV" -> "wqdv" [] n = "WDMD" -> "wdmd" [] n = "WQMD" -> "wqmd"
      [] n = "WDAM" -> "wdam" [] n = "WQAM" -> "wqam" [] n = "WDMM" -> "wdmm" [] n = "WQMM" -> "wqmm"]

(***************************************************************************)
(* The immediate.                                                          *)
(*   compare   ...XXX mode (0 EQ 1 NE 2 LT 3 GT 4 LTE 5 GTE 6 LZC,         *)
(*             7 reserved), .XX... reserved, X..... rhs indirect           *)
(*   math op   ...XXX op (0 ADD 1 SUB 2 NOT 3 OR 4 XOR 5 AND 6 SHL 7 SHR), *)
(*             .XX... reserved, X..... rhs indirect                        *)
(*   multiply  ..XXXX reserved, .X.... lhs indirect, X..... rhs indirect   *)
(*   divide    .XXXXX reserved, X..... rhs indirect                        *)
(***************************************************************************)
ImmBit(imm, k) == (imm \div (2 ^ k)) % 2 = 1
ImmLow(imm, k) == imm % (2 ^ k)
ImmValid(kind, imm) ==
    CASE kind = "cmp" -> ImmLow(imm, 3) <= 6 /\ ~ImmBit(imm, 3) /\ ~ImmBit(imm, 4)
      [] kind = "op"  -> ~ImmBit(imm, 3) /\ ~ImmBit(imm, 4)
      [] kind = "mul" -> ImmLow(imm, 4) = 0
      [] kind = "div" -> ImmLow(imm, 5) = 0
      [] OTHER -> TRUE                                         \* four-register instructions have no immediate
\* is the left / right operand read from memory?
LhsIndirect(kind, imm) == IF kind = "mul" THEN ImmBit(imm, 4) ELSE TRUE
RhsIndirect(kind, imm) == IF kind \in {"cmp", "op", "mul", "div"} THEN ImmBit(imm, 5) ELSE TRUE

(***************************************************************************)
(* Operands: [pan, val].  Registers named by the instruction are read     *)
(* with Ro (operand view, see VmBase).                                     *)
(***************************************************************************)
WOperand(vm, reg, indirect, W) ==
    IF ~indirect THEN [pan |-> {}, val |-> Ro(vm, reg)]
    ELSE LET rp == ReadPanics(vm, Ro(vm, reg), BN!FromNat(W)) IN
         [pan |-> rp, val |-> IF rp = {} THEN UnBE(MemRead(vm, Ro(vm, reg), BN!FromNat(W))) ELSE "0"]

(***************************************************************************)
(* Pure results on naturals.  M = 2^bits.  [val, ovf, bad]:                *)
(*   val the value stored, ovf the true result needs more than `bits`      *)
(*   bits, bad the operation is undefined (division / modulus by zero)     *)
(***************************************************************************)
WRes(val, ovf, bad) == [val |-> val, ovf |-> ovf, bad |-> bad]
WModulus(bits) == BN!Shl("1", bits)
\* number of leading zero bits of x written with `bits` bits
WLzc(x, bits) == bits - BN!BitLen(x)
WCompare(mode, b, c, bits) ==
    CASE mode = 0 -> B2N(b = c)
      [] mode = 1 -> B2N(b # c)
      [] mode = 2 -> B2N(BN!Lt(b, c))
      [] mode = 3 -> B2N(BN!Lt(c, b))
      [] mode = 4 -> B2N(BN!Le(b, c))
      [] mode = 5 -> B2N(BN!Le(c, b))
      [] mode = 6 -> BN!FromNat(WLzc(b, bits))
WMathOp(op, b, c, bits) ==
    LET M == WModulus(bits) IN
    CASE op = 0 -> LET x == BN!Add(b, c) IN WRes(BN!Mod(x, M), ~BN!Lt(x, M), FALSE)
      [] op = 1 -> IF BN!Le(c, b) THEN WRes(BN!Sub(b, c), FALSE, FALSE) ELSE WRes(BN!Sub(BN!Add(b, M), c), TRUE, FALSE)
      [] op = 2 -> WRes(BN!Sub(BN!Sub(M, "1"), b), FALSE, FALSE)
      [] op = 3 -> WRes(BN!Or(b, c), FALSE, FALSE)
      [] op = 4 -> WRes(BN!Xor(b, c), FALSE, FALSE)
      [] op = 5 -> WRes(BN!And(b, c), FALSE, FALSE)
      [] op = 6 -> WRes(IF BN!Lt(c, BN!FromNat(bits)) THEN BN!Mod(BN!Shl(b, BN!ToNat(c)), M) ELSE "0", FALSE, FALSE)
      [] op = 7 -> WRes(IF BN!Lt(c, BN!FromNat(bits)) THEN BN!Shr(b, BN!ToNat(c)) ELSE "0", FALSE, FALSE)
WMul(b, c, bits) == LET x == BN!Mul(b, c) IN WRes(BN!Mod(x, WModulus(bits)), ~BN!Lt(x, WModulus(bits)), FALSE)
WDiv(b, c) == IF c = "0" THEN WRes("0", FALSE, TRUE) ELSE WRes(BN!Div(b, c), FALSE, FALSE)
WMulDiv(b, c, d, bits) ==
    LET M == WModulus(bits)
        q == BN!Div(BN!Mul(b, c), IF d = "0" THEN M ELSE d)
    IN WRes(BN!Mod(q, M), ~BN!Lt(q, M), FALSE)
WAddMod(b, c, d) == IF d = "0" THEN WRes("0", FALSE, TRUE) ELSE WRes(BN!Mod(BN!Add(b, c), d), FALSE, FALSE)
WMulMod(b, c, d) == IF d = "0" THEN WRes("0", FALSE, TRUE) ELSE WRes(BN!Mod(BN!Mul(b, c), d), FALSE, FALSE)

\* the arithmetic result of a memory-destination instruction on operand values
WArith(kind, imm, b, c, d, bits) ==
    CASE kind = "op"     -> WMathOp(ImmLow(imm, 3), b, c, bits)
      [] kind = "mul"    -> WMul(b, c, bits)
      [] kind = "div"    -> WDiv(b, c)
      [] kind = "muldiv" -> WMulDiv(b, c, d, bits)
      [] kind = "addmod" -> WAddMod(b, c, d)
      [] kind = "mulmod" -> WMulMod(b, c, d)
\* flags: which panic the result raises under the current flag register
WArithPan(vm, r) == (IF r.ovf /\ ~Wrapping(vm) THEN {"ArithmeticOverflow"} ELSE {})
                    \cup (IF r.bad /\ ~UnsafeMath(vm) THEN {"ArithmeticError"} ELSE {})

(***************************************************************************)
(* Effects                                                                 *)
(***************************************************************************)
\* compare: rA := cmp(mem[rB], rC or mem[rC]); $of, $err cleared
WCmpEff(vm, n, w) ==
    LET W    == WBytes(n)
        imm  == Imm06(w)
        ok   == ImmValid("cmp", imm)
        lhs  == WOperand(vm, RB(w), TRUE, W)
        rhs  == WOperand(vm, RC(w), ok /\ RhsIndirect("cmp", imm), W)
        pan  == (IF ok THEN {} ELSE {"InvalidImmediateValue"}) \cup DestPan(RA(w)) \cup lhs.pan \cup rhs.pan
    IN Eff(GasOf(vm, WideGas[n]), pan,
           IF pan = {} THEN (RA(w) :> WCompare(ImmLow(imm, 3), lhs.val, rhs.val, 8 * W)) @@ (OF :> "0") @@ (ERR :> "0") @@ StepPc(vm)
           ELSE <<>>,
           <<>>, vm.slen)

\* memory destination: mem[rA, W] := result
WMemEff(vm, n, w) ==
    LET W    == WBytes(n)
        kind == WKind(n)
        four == kind \in {"muldiv", "addmod", "mulmod"}
        imm  == Imm06(w)
        ok   == ImmValid(kind, imm)
        dst  == Ro(vm, RA(w))
        \* with an invalid immediate only the always-indirect operands are determined
        lhs  == WOperand(vm, RB(w), IF ok THEN LhsIndirect(kind, imm) ELSE kind # "mul", W)
        rhs  == WOperand(vm, RC(w), ok /\ RhsIndirect(kind, imm), W)
        thd  == WOperand(vm, RD(w), four, W)
        rpan == lhs.pan \cup rhs.pan \cup thd.pan
        wpan == WritePanics(vm, dst, BN!FromNat(W))
        defd == ok /\ rpan = {}                                 \* the arithmetic is defined on actual operand values
        r    == IF defd THEN WArith(kind, imm, lhs.val, rhs.val, thd.val, 8 * W) ELSE WRes("0", FALSE, FALSE)
        apan == IF defd THEN WArithPan(vm, r) ELSE {}
        pan  == (IF ok THEN {} ELSE {"InvalidImmediateValue"}) \cup rpan \cup wpan \cup apan
        flags == (OF :> B2N(r.ovf)) @@ (ERR :> B2N(r.bad))
    IN [Eff(GasOf(vm, WideGas[n]), pan,
            IF pan = {} THEN flags @@ StepPc(vm) ELSE <<>>,
            IF pan = {} THEN <<<<BN!ToNat(dst), BEBig(r.val, W)>>>> ELSE <<>>,
            vm.slen)
        \* registers are not observable after a panic; when only the destination is at fault the flag registers
        \* may already hold the values of the completed arithmetic
        EXCEPT !.pmay = IF defd /\ apan = {} /\ wpan # {} THEN flags ELSE <<>>]

WideEff(vm, n, w) == IF WKind(n) = "cmp" THEN WCmpEff(vm, n, w) ELSE WMemEff(vm, n, w)
=============================================================================
