--------------------------- MODULE FuelVM_Calls_MC ---------------------------
(***************************************************************************)
(* Leg M for contract calls / returns and asset movement (C27 C34 C30 C26  *)
(* C24): a GENERATIVE tiny machine.  At every step ANY word of a small     *)
(* instruction alphabet is executed on the current state through the SAME  *)
(* effect operators the trace specification uses (FuelVM!Effs / EffectOf:  *)
(* VmCall CALL RET RETD RVRT LOG, VmAssets TR TRO MINT BURN BAL SMO, VmMem *)
(* CFEI ALOC SW LW, VmAlu MOVI ADD FLAG); TLC explores ALL programs over   *)
(* the alphabet up to MaxDepth instructions.  The next word is picked      *)
(* nondeterministically (no fetch), in the script and inside callees alike.*)
(* Alphabets / bounds: FuelVM_Calls_MC*.cfg (generated, with a comment per *)
(* word, by work/mccalls/gen_cfg.py).                                      *)
(*                                                                         *)
(* Initial machine (a reduced copy of a recorded Init event of             *)
(* `vh_vm record vm --part calls`): a script context, three deployed        *)
(* contracts CA, CB (transaction inputs) and CX (deployed, NOT an input),  *)
(* two input assets A0 (= base asset, id zero) and A1 in the free-balance   *)
(* table at offset 64, a Change and a Variable output, call-parameter      *)
(* blocks / asset ids in the script data, operand registers r16..r27       *)
(* prepared (see Regs0).  Memory is the real 2^26 bytes, pages sparse.     *)
(*                                                                         *)
(* Variables: vm (the machine record of VmBase), depth (#instructions),    *)
(* status ("run" | "ok" top-level return | "revert" | "panic"), and        *)
(* observation-only bookkeeping: last (word just executed), why (the       *)
(* applicable panic reasons of a panicked step), lastrc (receipts of the   *)
(* last step), led (minted / burned / messaged totals taken from the       *)
(* receipts, exactly as FuelVM_Trace!LedgerAfter does) and ledger0 (the     *)
(* initial balances; never changes).                                       *)
(***************************************************************************)
EXTENDS FuelVM
CONSTANTS Alphabet,     \* set of instruction words (8 hex digits)
          MaxDepth,     \* number of instructions per run
          Gas0s,        \* set of script gas limits ($ggas = $cgas initially), BigNat strings
          FwdGas        \* value of r22, the gas operand of the CALL words

VARIABLES vm, depth, status, last, why, lastrc, led, ledger0
mcVars == <<vm, depth, status, last, why, lastrc, led, ledger0>>

\* ---------------------------------------------------------------------------------------------------------------
\* The initial machine
\* ---------------------------------------------------------------------------------------------------------------
RECURSIVE Rep(_, _)
Rep(s, n) == IF n = 0 THEN "" ELSE s \o Rep(s, n - 1)
CA == Rep("ca", 32)                        \* input contract, holds 50 of A0
CB == Rep("cb", 32)                        \* input contract, no balance entries at all (first credit costs storage gas)
CX == Rep("cc", 32)                        \* deployed but NOT among the transaction's input contracts
A0 == Zero32                               \* the base asset
A1 == Rep("a1", 32)
MA == SubAsset(CA, Zero32)                 \* the asset CA mints with sub id zero
MB == SubAsset(CB, Zero32)
Assets == {A0, A1, MA, MB}
TxId == Rep("7d", 32)
Owner == Rep("dd", 32)

\* addresses (all inside the initial stack extent [0, 768))
AtPA == 256   AtPB == 320   AtPX == 384     \* call parameter blocks: contract id (32) || param1 (8) || param2 (8)
AtA0 == 448   AtA1 == 480   AtMA == 512     \* asset ids (AtA0 also serves as the zero sub id)
AtChange == 576   AtVariable == 656         \* the two transaction outputs (80 bytes each)
Script0 == 736   Stack0 == 768

Light(b, u) == [k |-> "light", base |-> b, u |-> u]
\* the default schedule as dumped by the implementation (Init event of the recorded trace), entries of the alphabet's opcodes
Schedule == [add |-> "1", addi |-> "1", sub |-> "1", movi |-> "1", move |-> "1", noop |-> "1", lw |-> "1", sw |-> "1", lb |-> "1", sb |-> "1",
             aloc |-> Light("2", "214"), cfei |-> Light("2", "214"), cfe |-> Light("2", "214"), cfsi |-> "1",
             call |-> Light("144", "214"), ret |-> "13", retd |-> Light("29", "62"), rvrt |-> "13", log |-> "9", logd |-> Light("26", "64"),
             tr |-> "105", tro |-> "60", mint |-> "135", burn |-> "132", smo |-> Light("209", "55"), bal |-> "13",
             new_storage_per_byte |-> "1", flag |-> "1", ji |-> "1", jmp |-> "1", mcl |-> Light("1", "3333"), mcp |-> Light("1", "2000")]
Env0 == [gas |-> Schedule, tx_offset |-> 544, max_inputs |-> 4, base_asset |-> A0, max_message_data_length |-> "1048576",
         default_gas |-> TRUE, chain_id |-> "0", block_height |-> 0]

Mem0 == LET w(m, a, d) == WriteBytes(m, a, d) IN
        w(w(w(w(w(w(w(w(w(w(<<>>,
          0, TxId),
          BalTableAt(0), A0 \o BE(100, 8)),                          \* free balance: 100 of A0
          BalTableAt(1), A1 \o BE(30, 8)),                           \*               30 of A1
          AtPA, CA \o BE(1, 8) \o BE(2, 8)),
          AtPB, CB \o BE(3, 8) \o BE(4, 8)),
          AtPX, CX \o BE(5, 8) \o BE(6, 8)),
          AtA1, A1),
          AtMA, MA),
          AtChange, BE(2, 8) \o Owner \o BE(0, 8) \o A0),
          AtVariable, BE(3, 8) \o Zeros(72))
Outs0 == << [kind |-> "Change", off |-> AtChange, to |-> Owner, amount |-> "0", asset |-> A0],
            [kind |-> "Variable", off |-> AtVariable, to |-> Zero32, amount |-> "0", asset |-> Zero32] >>
Code0 == (CA :> "2404000024040000") @@ (CB :> "24040000") @@ (CX :> "24040000")      \* RET $one (never fetched)
CBal0 == (CA :> (A0 :> "50")) @@ (CB :> <<>>) @@ (CX :> (A0 :> "7"))

Regs0(g) == [r \in 0..63 |->
    IF r = ONE THEN "1" ELSE IF r = HP THEN MemSizeBN ELSE IF r \in {SSP, SP} THEN BN!FromNat(Stack0)
    ELSE IF r \in {PC, IS} THEN BN!FromNat(Script0) ELSE IF r \in {GGAS, CGAS} THEN g
    ELSE IF r = 16 THEN BN!FromNat(AtPA)      \* call parameters / id of CA
    ELSE IF r = 17 THEN BN!FromNat(AtPB)      \* call parameters / id of CB
    ELSE IF r = 18 THEN BN!FromNat(AtA0)      \* asset id A0; also the zero sub id of MINT / BURN
    ELSE IF r = 19 THEN BN!FromNat(AtA1)      \* asset id A1
    ELSE IF r = 20 THEN "5"                   \* a small amount
    ELSE IF r = 21 THEN "1000"                \* an amount above every balance
    ELSE IF r = 22 THEN FwdGas                \* gas to forward
    ELSE IF r = 23 THEN BN!FromNat(AtPX)      \* call parameters / id of CX (not an input contract)
    ELSE IF r = 25 THEN "16"                  \* allocation size / return-data length
    ELSE IF r = 26 THEN BN!FromNat(AtMA)      \* asset id MA
    ELSE "0"]

Vm0(g) == [regs |-> Regs0(g), mem |-> Mem0, slen |-> Stack0, env |-> Env0, frames |-> <<>>, code |-> Code0, cbal |-> CBal0,
           inputs |-> {CA, CB}, nrc |-> 0, opv |-> <<>>, outs |-> Outs0, blobs |-> <<>>, kv |-> <<>>, warm |-> {}]

\* ---------------------------------------------------------------------------------------------------------------
\* Ledger helpers (same definitions as FuelVM_Trace)
\* ---------------------------------------------------------------------------------------------------------------
AddTo(f, k, x) == (k :> BN!Add(IF k \in DOMAIN f THEN f[k] ELSE "0", x)) @@ f
RECURSIVE LedgerAfter(_, _, _)
LedgerAfter(ld, rcs, i) ==
    IF i > Len(rcs) THEN ld
    ELSE LET r == rcs[i] IN
         LedgerAfter(IF r.kind = "Mint" THEN [ld EXCEPT !.mint = AddTo(@, SHA256(r.contract_id \o r.sub_id), r.val)]
                     ELSE IF r.kind = "Burn" THEN [ld EXCEPT !.burn = AddTo(@, SHA256(r.contract_id \o r.sub_id), r.val)]
                     ELSE IF r.kind = "MessageOut" THEN [ld EXCEPT !.msg = BN!Add(@, r.amount)]
                     ELSE ld, rcs, i + 1)
SumOver(S, f(_)) == LET RECURSIVE T(_) T(X) == IF X = {} THEN "0" ELSE LET x == CHOOSE x \in X : TRUE IN BN!Add(f(x), T(X \ {x})) IN T(S)
ContractsSum(cb, a) == SumOver(DOMAIN cb, LAMBDA c : IF a \in DOMAIN cb[c] THEN cb[c][a] ELSE "0")
OutSum(outs, kind, a) == SumOver({i \in 1..Len(outs) : outs[i].kind = kind /\ outs[i].asset = a}, LAMBDA i : outs[i].amount)
Led(f, a) == IF a \in DOMAIN f THEN f[a] ELSE "0"
FreeOf(v) == [a \in Assets |-> FreeBal(v, a)]

WitBase == 100        \* TLC registers WitBase + 1 .. WitBase + WitSlots hold the witness flags (see Observe below)
WitSlots == 32
MCInit ==
    /\ \A i \in 1..WitSlots : TLCSet(WitBase + i, FALSE)       \* (main thread: sets the registers of every worker)
    /\ \E g \in Gas0s : vm = Vm0(g)
    /\ depth = 0
    /\ status = "run"
    /\ last = ""
    /\ why = {}
    /\ lastrc = <<>>
    /\ led = [mint |-> <<>>, burn |-> <<>>, msg |-> "0"]
    /\ ledger0 = [free |-> FreeOf(Vm0("0")), cbal |-> CBal0, outs |-> Outs0]

\* ---------------------------------------------------------------------------------------------------------------
\* One instruction.  Out-of-gas and panics end the run (a panic anywhere, also inside a callee, ends the transaction);
\* a panicking instruction changes nothing but the gas registers (the model takes the "charged" reading of the panic
\* tolerance of FuelVM_Trace!PanicRegsOk).  RET / RETD end the run only in the script context; RVRT always.
\* ---------------------------------------------------------------------------------------------------------------
StatusOf(out) == IF out = "proceed" THEN "run" ELSE IF out = "revert" THEN "revert" ELSE "ok"
Exec(w) ==
    \E eff \in Effs(vm, w) :
        /\ eff.x
        /\ last' = w
        /\ depth' = depth + 1
        /\ UNCHANGED ledger0
        /\ (IF ~CanPay(vm, eff.gas)
            THEN (/\ vm' = [vm EXCEPT !.regs = WithRegs(vm, OutOfGasRegs(vm))]
                  /\ status' = "panic"
                  /\ why' = {"OutOfGas"}
                  /\ lastrc' = <<>>
                  /\ UNCHANGED led)
            ELSE IF eff.pan # {}
            THEN (/\ vm' = [vm EXCEPT !.regs = WithRegs(vm, Charged(vm, eff.gas))]
                  /\ status' = "panic"
                  /\ why' = eff.pan
                  /\ lastrc' = <<>>
                  /\ UNCHANGED led)
            ELSE (/\ vm' = [OkVm(vm, eff) EXCEPT !.regs = OkRegs(vm, eff), !.mem = OkMem(vm, eff), !.slen = eff.slen,
                                                 !.nrc = vm.nrc + Len(eff.rc)]
                  /\ status' = StatusOf(eff.out)
                  /\ why' = {}
                  /\ lastrc' = eff.rc
                  /\ led' = LedgerAfter(led, eff.rc, 1)))

MCNext == /\ status = "run"
          /\ depth < MaxDepth
          /\ \E w \in Alphabet : Exec(w)
MCSpec == MCInit /\ [][MCNext]_mcVars

\* ---------------------------------------------------------------------------------------------------------------
\* Shorthands over a step  vm -> vm'
\* ---------------------------------------------------------------------------------------------------------------
N(x) == BN!ToNat(x)
Depth(v) == Len(v.frames)
Top(v) == v.frames[Len(v.frames)]
IsPush == Depth(vm') = Depth(vm) + 1                  \* a successful CALL
IsPop  == Depth(vm') = Depth(vm) - 1                  \* a successful RET / RETD inside a call
GasUsed == BN!Sub(vm.regs[GGAS], vm'.regs[GGAS])      \* $ggas never increases (GasNeverUp), so this is defined
LastIs(n) == last' # "" /\ Mnemonic(last') = n

\* ---------------------------------------------------------------------------------------------------------------
\* C26  gas
\* ---------------------------------------------------------------------------------------------------------------
GasInv == BN!Le(R(vm, CGAS), R(vm, GGAS))
\* stronger: the global gas is exactly the gas of the active context plus the gas kept back by every suspended caller
\* (script runs start with $ggas = $cgas)
SavedCgas(v) == SumOver(1..Len(v.frames), LAMBDA k : v.frames[k].regs[CGAS])
GasLedger == R(vm, GGAS) = BN!Add(R(vm, CGAS), SavedCgas(vm))
GasNeverUp == [][BN!Le(vm'.regs[GGAS], vm.regs[GGAS])]_mcVars
\* a call forwards no more than the caller has left after paying for the CALL, and no more than the operand asks for;
\* what is not forwarded stays with the caller's frame
ForwardBounded == [][IsPush =>
                        (/\ BN!Le(BN!Add(vm'.regs[CGAS], GasUsed), vm.regs[CGAS])
                         /\ Top(vm').regs[CGAS] = BN!Sub(BN!Sub(vm.regs[CGAS], GasUsed), vm'.regs[CGAS])
                         /\ (RD(last') \notin {CGAS, GGAS} => BN!Le(vm'.regs[CGAS], vm.regs[RD(last')])))]_mcVars
\* a step that neither enters nor leaves a context charges both gas registers alike; out-of-gas zeroes the context gas
ChargeBoth == [][(~IsPush /\ ~IsPop) =>
                    IF status' = "panic" /\ why' = {"OutOfGas"}
                    THEN vm'.regs[CGAS] = "0" /\ GasUsed = vm.regs[CGAS]
                    ELSE BN!Add(vm'.regs[CGAS], GasUsed) = vm.regs[CGAS]]_mcVars

\* ---------------------------------------------------------------------------------------------------------------
\* C27  asset conservation.  Per asset, in EVERY state (running, returned, reverted, panicked):
\*   free balance (table in VM memory) + sum of contract balances + amounts put into variable outputs by TRO
\*   + burned + (base asset) amounts sent in messages  =  the same sum in the initial state + minted
\* ---------------------------------------------------------------------------------------------------------------
Holdings(free, cb, outs, a) == BN!Add(BN!Add(free, ContractsSum(cb, a)), OutSum(outs, "Variable", a))
Holdings0(a) == Holdings(ledger0.free[a], ledger0.cbal, ledger0.outs, a)
Gone(a) == BN!Add(Led(led.burn, a), IF a = vm.env.base_asset THEN led.msg ELSE "0")
Conserved == \A a \in Assets :
                BN!Add(Holdings(FreeBal(vm, a), vm.cbal, vm.outs, a), Gone(a)) = BN!Add(Holdings0(a), Led(led.mint, a))
\* no balance exists in an asset outside the watched set (so the quantification above misses nothing)
NoOtherAsset == /\ \A c \in DOMAIN vm.cbal : DOMAIN vm.cbal[c] \subseteq Assets
                /\ \A i \in 1..Len(vm.outs) : (vm.outs[i].kind = "Variable" /\ vm.outs[i].amount # "0") => vm.outs[i].asset \in Assets
                /\ DOMAIN led.mint \subseteq Assets /\ DOMAIN led.burn \subseteq Assets
\* what the finished transaction commits: a successful script keeps the VM's balances; a reverted / panicked one falls
\* back to the initial balances (contract storage discarded, variable outputs zero, change = initial free balance) and
\* its mints / burns / messages did not happen
Committed == IF status = "ok" THEN [free |-> FreeOf(vm), cbal |-> vm.cbal, outs |-> vm.outs, happened |-> TRUE]
             ELSE [free |-> ledger0.free, cbal |-> ledger0.cbal, outs |-> ledger0.outs, happened |-> FALSE]
FinalConserved == status # "run" =>
                    \A a \in Assets :
                        BN!Add(Holdings(Committed.free[a], Committed.cbal, Committed.outs, a), IF Committed.happened THEN Gone(a) ELSE "0")
                          = BN!Add(Holdings0(a), IF Committed.happened THEN Led(led.mint, a) ELSE "0")
\* every Transfer / TransferOut / Call / Mint / Burn / MessageOut receipt of a step is a balance movement of exactly that
\* amount: the source's funds (free balance in the script context, the current contract's balance in a call) drop by it
\* and the destination's rise by it
SrcBal(v, a) == IF InCall(v) THEN CBal(v, CurContract(v), a) ELSE FreeBal(v, a)
SrcAfter(a) == IF InCall(vm) THEN CBal(vm', CurContract(vm), a) ELSE FreeBal(vm', a)
ReceiptMoves(r) ==
    CASE r.kind = "Transfer" ->
            IF r.to = CurContract(vm) /\ InCall(vm) THEN CBal(vm', r.to, r.asset_id) = CBal(vm, r.to, r.asset_id)    \* to itself
            ELSE (/\ BN!Add(SrcAfter(r.asset_id), r.amount) = SrcBal(vm, r.asset_id)
                  /\ CBal(vm', r.to, r.asset_id) = BN!Add(CBal(vm, r.to, r.asset_id), r.amount))
      [] r.kind = "Call" ->
            IF r.to = CurContract(vm) /\ InCall(vm) THEN CBal(vm', r.to, r.asset_id) = CBal(vm, r.to, r.asset_id)    \* self call
            ELSE (/\ BN!Add(SrcAfter(r.asset_id), r.amount) = SrcBal(vm, r.asset_id)
                  /\ CBal(vm', r.to, r.asset_id) = BN!Add(CBal(vm, r.to, r.asset_id), r.amount)
                  /\ vm'.regs[BAL] = r.amount)
      [] r.kind = "TransferOut" ->
            /\ BN!Add(SrcAfter(r.asset_id), r.amount) = SrcBal(vm, r.asset_id)
            /\ BN!Add(OutSum(vm.outs, "Variable", r.asset_id), r.amount) = OutSum(vm'.outs, "Variable", r.asset_id)
      [] r.kind = "Mint" ->
            CBal(vm', r.contract_id, SubAsset(r.contract_id, r.sub_id)) = BN!Add(CBal(vm, r.contract_id, SubAsset(r.contract_id, r.sub_id)), r.val)
      [] r.kind = "Burn" ->
            BN!Add(CBal(vm', r.contract_id, SubAsset(r.contract_id, r.sub_id)), r.val) = CBal(vm, r.contract_id, SubAsset(r.contract_id, r.sub_id))
      [] r.kind = "MessageOut" ->
            BN!Add(SrcAfter(vm.env.base_asset), r.amount) = SrcBal(vm, vm.env.base_asset)
      [] OTHER -> TRUE
ReceiptsMove == [][\A i \in 1..Len(lastrc') : ReceiptMoves(lastrc'[i])]_mcVars
\* ... and conversely balances move only with such a receipt
MovesHaveReceipt == [][(vm'.cbal # vm.cbal \/ vm'.outs # vm.outs \/ \E a \in Assets : FreeBal(vm', a) # FreeBal(vm, a))
                        => \E i \in 1..Len(lastrc') : lastrc'[i].kind \in {"Transfer", "Call", "TransferOut", "Mint", "Burn", "MessageOut"}]_mcVars

\* ---------------------------------------------------------------------------------------------------------------
\* C30  only input contracts
\* ---------------------------------------------------------------------------------------------------------------
\* every contract whose context is active or suspended is an input contract (and deployed)
ContextsAreInputs == \A k \in 1..Len(vm.frames) : vm.frames[k].to \in vm.inputs /\ vm.frames[k].to \in DOMAIN vm.code
\* a step changes the balances of input contracts only; code is never changed
TouchesInputsOnly == [][/\ vm'.code = vm.code
                        /\ vm'.inputs = vm.inputs
                        /\ \A c \in (DOMAIN vm.cbal) \cup (DOMAIN vm'.cbal) :
                              ((IF c \in DOMAIN vm.cbal THEN vm.cbal[c] ELSE <<>>) # (IF c \in DOMAIN vm'.cbal THEN vm'.cbal[c] ELSE <<>>))
                                 => c \in vm.inputs]_mcVars
\* an instruction that names a contract which is not an input (CALL / TR / BAL through r23 = CX) panics with
\* ContractNotInInputs (or runs out of gas) and changes nothing but the gas registers
NamesCX(w) == \/ (Mnemonic(w) \in {"CALL", "TR"} /\ RA(w) = 23)
              \/ (Mnemonic(w) = "BAL" /\ RC(w) = 23)
NonInputPanics == (last # "" /\ NamesCX(last)) => (status = "panic" /\ (why = {"OutOfGas"} \/ "ContractNotInInputs" \in why))
PanicChangesNothing == [][status' = "panic" =>
                            /\ [vm' EXCEPT !.regs = vm.regs] = vm
                            /\ \A r \in (0..63) \ {CGAS, GGAS} : vm'.regs[r] = vm.regs[r]]_mcVars
\* a successful BAL read the balance of an input contract
BalReadsInputs == [][(LastIs("BAL") /\ status' = "run") => ReadBytes(vm.mem, N(vm.regs[RC(last')]), 32) \in vm.inputs]_mcVars

\* ---------------------------------------------------------------------------------------------------------------
\* C34  calls and returns preserve the caller's frame
\* ---------------------------------------------------------------------------------------------------------------
\* where frame k starts: the callee's $fp while it is active, the $fp its own callee saved afterwards
FpOf(v, k) == IF k = Len(v.frames) THEN N(v.regs[FP]) ELSE N(v.frames[k + 1].regs[FP])
CodePad(c) == Aligned8(BLen(vm.code[c]))
\* the call frame in memory is what CALL wrote: id, asset, the caller's saved registers, code size, parameters, padded code —
\* nothing executed since (by the callee or deeper) has changed it, so the real VM restores exactly the saved registers
FrameBytes(v, k) == LET f == v.frames[k] IN f.to \o f.asset \o RegsBE(f.regs, 0) \o BE(CodePad(f.to), 8)
FrameIntact == \A k \in 1..Len(vm.frames) :
                  /\ ReadBytes(vm.mem, FpOf(vm, k), 584) = FrameBytes(vm, k)
                  /\ ReadBytes(vm.mem, FpOf(vm, k) + FrameSize, CodePad(vm.frames[k].to)) = vm.code[vm.frames[k].to] \o Zeros(CodePad(vm.frames[k].to) - BLen(vm.code[vm.frames[k].to]))
\* frames are stacked: frame k starts at its caller's $sp, the callee's stack starts after frame + code, heaps nest
FramesNested == \A k \in 1..Len(vm.frames) :
                  /\ FpOf(vm, k) = N(vm.frames[k].regs[SP])
                  /\ BN!Le(vm.frames[k].regs[SSP], vm.frames[k].regs[SP])
                  /\ BN!Le(R(vm, HP), vm.frames[k].regs[HP])
                  /\ (k > 1 => BN!Le(vm.frames[k].regs[HP], vm.frames[k - 1].regs[HP]))
StackOrder == status # "run" \/ (/\ BN!Le(R(vm, FP), R(vm, SSP)) /\ BN!Le(R(vm, SSP), R(vm, SP)) /\ BN!Le(R(vm, SP), R(vm, HP))
                                 /\ BN!Le(R(vm, HP), PrevHp(vm)) /\ BN!Le(PrevHp(vm), MemSizeBN)
                                 /\ BN!Le(R(vm, SP), BN!FromNat(vm.slen))
                                 /\ (InCall(vm) => BN!Le(BN!Add(R(vm, FP), BN!FromNat(FrameSize)), R(vm, IS)))
                                 /\ BN!Le(R(vm, IS), R(vm, PC)))
\* the frame stack changes by at most one frame per step, and never below the top
FramesStable == [][\/ vm'.frames = vm.frames
                   \/ (IsPush /\ SubSeq(vm'.frames, 1, Depth(vm)) = vm.frames)
                   \/ (IsPop /\ vm'.frames = SubSeq(vm.frames, 1, Depth(vm) - 1))]_mcVars
\* CALL: the pushed frame is a snapshot of the caller (every register except the two gas registers, which hold the
\* caller's remainder), the callee gets its own frame pointer, an empty stack after the copied code, $is = $pc = code start,
\* $bal = forwarded amount, cleared flags; every other register (incl. $hp, $of, $err, $ret, $retl, r16..r63) is inherited
CallStep == [][IsPush =>
                 LET f == Top(vm')  total == FrameSize + Aligned8(BLen(vm.code[f.to])) IN
                 /\ \A r \in (0..63) \ {CGAS, GGAS} : f.regs[r] = vm.regs[r]
                 /\ f.regs[GGAS] = vm'.regs[GGAS]
                 /\ vm'.regs[FP] = vm.regs[SP]
                 /\ vm'.regs[SSP] = BN!Add(vm.regs[SP], BN!FromNat(total))
                 /\ vm'.regs[SP] = vm'.regs[SSP]
                 /\ vm'.regs[IS] = BN!Add(vm.regs[SP], BN!FromNat(FrameSize))
                 /\ vm'.regs[PC] = vm'.regs[IS]
                 /\ vm'.regs[FLAG] = "0"
                 /\ \A r \in (0..63) \ {FP, SSP, SP, IS, PC, FLAG, BAL, CGAS, GGAS} : vm'.regs[r] = vm.regs[r]
                 /\ f.to = ReadBytes(vm.mem, N(vm.regs[RA(last')]), 32)
                 /\ f.asset = ReadBytes(vm.mem, N(vm.regs[RC(last')]), 32)
                 /\ vm'.regs[BAL] = vm.regs[RB(last')]
                 /\ vm'.slen >= N(vm'.regs[SP])]_mcVars
\* RET / RETD inside a call: the caller resumes after the call site with every register as it was at the call except
\* $cgas (its remainder + the callee's unspent gas), $ggas, $ret, $retl and $hp (heap allocations of the callee persist);
\* memory is untouched, the frame stack is back to its depth at the call, balances and outputs are untouched
RetStep == [][IsPop =>
                LET f == Top(vm) IN
                /\ status' = "run"
                /\ \A r \in (0..63) \ {CGAS, GGAS, RET, RETL, HP, PC} : vm'.regs[r] = f.regs[r]
                /\ vm'.regs[PC] = BN!Add(f.regs[PC], "4")
                /\ vm'.regs[HP] = vm.regs[HP]
                /\ vm'.regs[CGAS] = BN!Add(f.regs[CGAS], BN!Sub(vm.regs[CGAS], GasUsed))
                /\ (LastIs("RET")  => (vm'.regs[RET] = vm.regs[RA(last')] /\ vm'.regs[RETL] = "0"))
                /\ (LastIs("RETD") => (vm'.regs[RET] = vm.regs[RA(last')] /\ vm'.regs[RETL] = vm.regs[RB(last')]))
                /\ vm'.mem = vm.mem /\ vm'.slen = vm.slen
                /\ vm'.cbal = vm.cbal /\ vm'.outs = vm.outs]_mcVars
\* RET / RETD / RVRT are the only ways out: a top-level return ends the run with $ret / $retl set
TopReturn == [][(status' = "ok") => (/\ ~InCall(vm) /\ vm'.frames = <<>>
                                      /\ last' # "" /\ Mnemonic(last') \in {"RET", "RETD"}
                                      /\ vm'.regs[RET] = vm.regs[RA(last')])]_mcVars

\* ---------------------------------------------------------------------------------------------------------------
\* C24  writes are owned — byte exact.  A byte changed by a step lies
\*   in the active context's stack [$ssp, $sp) as it was BEFORE the step, or
\*   in its heap [$hp', caller's $hp) (allocated before or by this step; a callee owns nothing of the caller's heap), or
\*   is one of the VM's own writes: the new call frame + code of a CALL; the amount field of a free-balance entry
\*   (script context only); the bytes of a Variable output.
\* In particular a callee cannot write below its $ssp: not the caller's stack, not its own call frame, not the script.
\* ---------------------------------------------------------------------------------------------------------------
ChangedPages == {p \in (DOMAIN vm.mem) \cup (DOMAIN vm'.mem) : Page(vm.mem, p) # Page(vm'.mem, p)}
ChangedIn(p) == {p * PageSize + i : i \in {j \in 0..(PageSize - 1) : Slice(Page(vm.mem, p), j, 1) # Slice(Page(vm'.mem, p), j, 1)}}
ChangedBytes == UNION {ChangedIn(p) : p \in ChangedPages}
\* the regions a step may write, as half-open intervals <<lo, hi>>
OwnStack == <<N(vm.regs[SSP]), N(vm.regs[SP])>>
OwnHeap  == <<N(vm'.regs[HP]), N(PrevHp(vm))>>
NewFrame == IF IsPush THEN {<<N(vm'.regs[FP]), N(vm'.regs[SSP])>>} ELSE {}
BalAmounts == IF InCall(vm) THEN {} ELSE {<<BalTableAt(i) + 32, BalTableAt(i) + 40>> : i \in 0..(vm.env.max_inputs - 1)}
VarOutputs == {<<vm.outs[i].off, vm.outs[i].off + 80>> : i \in {j \in 1..Len(vm.outs) : vm.outs[j].kind = "Variable"}}
Writable24 == {OwnStack, OwnHeap} \cup NewFrame \cup BalAmounts \cup VarOutputs
\* page p changed only inside the intervals of S (a page lying entirely inside one interval needs no byte comparison)
PageWithin(p, S) == \/ \E iv \in S : iv[1] <= p * PageSize /\ (p + 1) * PageSize <= iv[2]
                    \/ \A b \in ChangedIn(p) : \E iv \in S : iv[1] <= b /\ b < iv[2]
WritesOwned == [][\A p \in ChangedPages : PageWithin(p, Writable24)]_mcVars
\* the caller's side of the same fact (C34): while a call is active nothing below the active frame pointer changes except
\* transaction outputs
CallerStackUnchanged == [][InCall(vm) => \A p \in ChangedPages : PageWithin(p, {<<N(vm.regs[FP]), MemSize>>} \cup VarOutputs)]_mcVars
\* every non-zero page lies in an accessible region (C23)
ZeroOutside == \A p \in DOMAIN vm.mem : (p + 1) * PageSize <= vm.slen + PageSize - 1 \/ (p + 1) * PageSize > HpN(vm)
ConstRegs == R(vm, ZERO) = "0" /\ R(vm, ONE) = "1"
PcOk == status # "run" \/ (BN!Lt(R(vm, PC), MemSizeBN) /\ BN!Mod(R(vm, PC), "4") = "0")
TypeOk == /\ status \in {"run", "ok", "revert", "panic"}
          /\ depth \in 0..MaxDepth
          /\ (status = "panic") = (why # {})
          /\ vm.nrc <= depth

\* ---------------------------------------------------------------------------------------------------------------
\* Reachability witnesses (vacuity control).  Each of these is the NEGATION of something that must be reachable; they are
\* listed as INVARIANTS in FuelVM_Calls_MC_reach.cfg and every one of them must be reported VIOLATED.
\* ---------------------------------------------------------------------------------------------------------------
HasRc(kind) == \E i \in 1..Len(lastrc) : lastrc[i].kind = kind
NoDepth2 == Depth(vm) < 2
\* a successful return from depth 2 to depth 1 (seen as: just executed RET/RETD, still running, one frame left, and the
\* receipt was issued by the contract that is no longer active)
NoRetFromDepth2 == ~(status = "run" /\ Depth(vm) = 1 /\ (HasRc("Return") \/ HasRc("ReturnData")))
NoRetToScript == ~(status = "run" /\ Depth(vm) = 0 /\ (HasRc("Return") \/ HasRc("ReturnData")))
NoTransfer == ~(\E i \in 1..Len(lastrc) : lastrc[i].kind = "Transfer" /\ lastrc[i].amount # "0")
NoCoinsForwarded == ~(\E i \in 1..Len(lastrc) : lastrc[i].kind = "Call" /\ lastrc[i].amount # "0")
NoTransferOut == ~HasRc("TransferOut")
NoTransferOutInCall == ~(HasRc("TransferOut") /\ InCall(vm))
NoMintAndBurn == ~(led.mint # <<>> /\ led.burn # <<>>)
NoMessageOut == ~HasRc("MessageOut")
NoPanicInCallee == ~(status = "panic" /\ InCall(vm))
NoOutOfGasInCallee == ~(status = "panic" /\ InCall(vm) /\ why = {"OutOfGas"})
NoOwnershipPanicInCallee == ~(status = "panic" /\ InCall(vm) /\ "MemoryOwnership" \in why)
NoNotInInputsPanic == ~(status = "panic" /\ "ContractNotInInputs" \in why)
NoNotEnoughBalance == ~(status = "panic" /\ "NotEnoughBalance" \in why)
NoRevertInCallee == ~(status = "revert" /\ InCall(vm))
NoTopLevelOk == status # "ok"
\* the callee's ALOC survives its RET: back in the script right after its first instruction (the CALL) with a lowered $hp
NoCalleeHeapKept == ~(status = "run" /\ Depth(vm) = 0 /\ HasRc("Return") /\ R(vm, HP) # MemSizeBN /\ R(vm, PC) = BN!FromNat(Script0 + 4))
NoCalleeStackWrite == ~(status = "run" /\ InCall(vm) /\ last # "" /\ Mnemonic(last) = "SW")
NoNewBalanceEntry == ~(CBalHas(vm, CB, A0) \/ CBalHas(vm, CB, A1))

\* The same witnesses observed DURING the main run (no extra TLC runs): `Observe` is listed as an invariant, is always TRUE
\* and sets TLC register WitBase + i (of the worker that evaluates it) when witness i holds in the state;
\* `ReportWitnesses` (POSTCONDITION, always TRUE) prints one line  <<"WITNESSED", {names}>>  collected over all workers.
\* Registers are initialised for all workers from MCInit.
WitnessNames == << "Depth2", "RetFromDepth2", "RetToScript", "Transfer", "CoinsForwarded", "TransferOut",
                   "TransferOutInCall", "MintAndBurn", "MessageOut", "PanicInCallee", "OutOfGasInCallee",
                   "OwnershipPanicInCallee", "NotInInputsPanic", "NotEnoughBalance", "RevertInCallee", "TopLevelOk",
                   "CalleeHeapKept", "CalleeStackWrite", "NewBalanceEntry" >>
Witnesses == << ~NoDepth2, ~NoRetFromDepth2, ~NoRetToScript, ~NoTransfer, ~NoCoinsForwarded, ~NoTransferOut,
                ~NoTransferOutInCall, ~NoMintAndBurn, ~NoMessageOut, ~NoPanicInCallee, ~NoOutOfGasInCallee,
                ~NoOwnershipPanicInCallee, ~NoNotInInputsPanic, ~NoNotEnoughBalance, ~NoRevertInCallee,
                ~NoTopLevelOk, ~NoCalleeHeapKept, ~NoCalleeStackWrite, ~NoNewBalanceEntry >>
Observe == Len(WitnessNames) <= WitSlots /\ \A i \in 1..Len(WitnessNames) : (Witnesses[i] => TLCSet(WitBase + i, TRUE))
ReportWitnesses ==
    LET all == TLCGet("all")
        seen == {WitnessNames[i] : i \in {j \in 1..Len(WitnessNames) : \E k \in 1..Len(all[WitBase + j]) : all[WitBase + j][k] = TRUE}}
    IN PrintT(<<"WITNESSED", seen>>)
=============================================================================
