---------------------------- MODULE VmStorage_MC ----------------------------
(* Leg M for C33: a small generative model of contract storage.                  *)
(* Two contracts, three adjacent keys ending at 2^256 - 1, one more key far      *)
(* away; at every step any storage instruction of a finite instance set is       *)
(* executed through the SAME effect operators the trace specification uses       *)
(* (StorageEff), in either contract, in the same or in a new transaction.        *)
(* Design-level properties (the property's clauses stated on the spec):          *)
(*   CacheIrrelevant  for every reachable state and every instruction instance    *)
(*                    executed from it, the effect                                *)
(*                    computed with an empty, the current and a full warm set     *)
(*                    differ in the gas charged ONLY                              *)
(*   HotNotDearer     with a schedule where hot <= cold, a warmer cache never     *)
(*                    costs more                                                  *)
(*   Isolation        an instruction changes only slots of the active contract   *)
(*   ReadsPure        SRW SRWQ SRDD SRDI SPLD never change storage               *)
(*   Cleared          after SCWQ / SCLR every slot of the range is absent        *)
(*   Written          after SWW / SWWQ / SWRD / SWRI / SUPD / SUPI the written   *)
(*                    slot is present and no longer than the maximum length      *)
(*   WarmGrows        within a transaction the warm set only grows               *)
(*   Boundary         a range that would run past 2^256 - 1 never completes      *)
EXTENDS FuelVM, VmStorage
CONSTANTS MaxDepth, Families

C1 == "c1" \o Zeros(31)
C2 == "c2" \o Zeros(31)
KTop(i) == BN!ToHex(BN!Sub(BN!Two256, BN!FromNat(3 - i)), 32)       \* i = 0,1,2 : 2^256-3, 2^256-2, 2^256-1
KFar == BN!ToHex("1000", 32)
Keys == <<KTop(0), KTop(1), KTop(2), KFar>>                          \* key table at address 0 (4 * 32 bytes)
SrcAt == 128                                                         \* 64 bytes of value material
DstAt == 256                                                         \* owned stack buffer [256, 512)
Light(b, u) == [k |-> "light", base |-> b, u |-> u]
Schedule == [noop |-> "1", storage_read_cold |-> Light("100", "4"), storage_read_hot |-> Light("10", "4"),
             storage_write |-> Light("10", "8"), storage_clear |-> Light("10", "2"), new_storage_per_byte |-> "2"]
Env0 == [gas |-> Schedule, max_storage_slot_length |-> "40", tx_offset |-> 0]

Regs0 == [r \in 0..63 |->
            IF r = ONE THEN "1" ELSE IF r = HP THEN MemSizeBN ELSE IF r = SSP THEN "256" ELSE IF r = SP THEN "512"
            ELSE IF r \in {PC, IS} THEN "192" ELSE IF r \in {GGAS, CGAS} THEN "100000" ELSE IF r = FP THEN "192" ELSE "0"]
Mem0 == WriteBytes(WriteBytes(WriteBytes(<<>>, 0, Cat(Keys)), SrcAt, "a1a2a3a4a5a6a7a8b1b2b3b4b5b6b7b8c1c2c3c4c5c6c7c8d1d2d3d4d5d6d7d8e1e2e3e4e5e6e7e8f1f2f3f4f5f6f7f8"),
                  DstAt, "7777777777777777")
Frame(c) == [to |-> c, asset |-> Zero32, regs |-> Regs0]
Kv0 == (<<C1, KTop(1)>> :> "0102030405060708090a0b0c0d0e0f101112131415161718191a1b1c1d1e1f20") @@ (<<C2, KFar>> :> "aabbcc")

VARIABLES vm, depth, chk
mcVars == <<vm, depth, chk>>
\* chk: the verdicts of the properties on the transition that led here (computed where pre- and post-state are both at hand;
\* keeping only booleans in the state keeps equal storage states equal)
AllOk == [cache |-> TRUE, gas |-> TRUE, iso |-> TRUE, pure |-> TRUE, cleared |-> TRUE, written |-> TRUE, untouched |-> TRUE,
          warm |-> TRUE, boundary |-> TRUE, failed |-> TRUE]
MCInit == /\ vm = [regs |-> Regs0, mem |-> Mem0, slen |-> 512, env |-> Env0, frames |-> <<Frame(C1)>>,
                   kv |-> Kv0, kv0 |-> Kv0, warm |-> {}, stok |-> TRUE, nrc |-> 0, opv |-> <<>>]
          /\ depth = 0 /\ chk = AllOk

\* ---- instruction instances: operand registers 16.. hold (key pointer, second, third, fourth operand) ----
W(op, a, b, c, d) == BE(op, 1) \o BE(a * 262144 + b * 4096 + c * 64 + d, 3)
KeyPtrs == {0, 32, 64, 96}
AllInstances ==
    {[n |-> "SCWQ", w |-> W(55, 16, 17, 18, 0), r |-> (16 :> BN!FromNat(p)) @@ (18 :> BN!FromNat(c))] : p \in KeyPtrs, c \in {0, 1, 2, 3}}
    \cup {[n |-> "SRW", w |-> W(56, 20, 17, 16, i), r |-> (16 :> BN!FromNat(p))] : p \in KeyPtrs, i \in {0, 3, 4}}
    \cup {[n |-> "SRWQ", w |-> W(57, 18, 17, 16, 19), r |-> (16 :> BN!FromNat(p)) @@ (18 :> BN!FromNat(DstAt)) @@ (19 :> BN!FromNat(c))] : p \in KeyPtrs, c \in {0, 1, 2}}
    \cup {[n |-> "SWW", w |-> W(58, 16, 17, 18, 0), r |-> (16 :> BN!FromNat(p)) @@ (18 :> "258")] : p \in KeyPtrs}
    \cup {[n |-> "SWWQ", w |-> W(59, 16, 17, 18, 19), r |-> (16 :> BN!FromNat(p)) @@ (18 :> BN!FromNat(SrcAt)) @@ (19 :> BN!FromNat(c))] : p \in {32, 64}, c \in {1, 2}}
    \cup {[n |-> "SCLR", w |-> W(192, 16, 18, 0, 0), r |-> (16 :> BN!FromNat(p)) @@ (18 :> BN!FromNat(c))] : p \in KeyPtrs, c \in {1, 2, 3}}
    \cup {[n |-> "SRDD", w |-> W(193, 18, 16, 19, 20), r |-> (16 :> BN!FromNat(p)) @@ (18 :> BN!FromNat(DstAt)) @@ (19 :> BN!FromNat(o)) @@ (20 :> BN!FromNat(len))] :
              p \in {32, 64, 96}, o \in {0, 2}, len \in {0, 3, 32}}
    \cup {[n |-> "SRDI", w |-> W(194, 18, 16, 19, 5), r |-> (16 :> BN!FromNat(p)) @@ (18 :> BN!FromNat(DstAt)) @@ (19 :> "0")] : p \in {64, 96}}
    \cup {[n |-> "SWRD", w |-> W(195, 16, 18, 19, 0), r |-> (16 :> BN!FromNat(p)) @@ (18 :> BN!FromNat(SrcAt)) @@ (19 :> BN!FromNat(len))] : p \in {64, 96}, len \in {0, 5, 40, 41}}
    \cup {[n |-> "SWRI", w |-> BE(196, 1) \o BE(16 * 262144 + 18 * 4096 + 7, 3), r |-> (16 :> BN!FromNat(p)) @@ (18 :> BN!FromNat(SrcAt + 8))] : p \in {64}}
    \cup {[n |-> "SUPD", w |-> W(197, 16, 18, 19, 20), r |-> (16 :> BN!FromNat(p)) @@ (18 :> BN!FromNat(SrcAt)) @@ (19 :> o) @@ (20 :> BN!FromNat(len))] :
              p \in {64, 96}, o \in {"0", "2", "4", BN!Max64}, len \in {0, 3, 38}}
    \cup {[n |-> "SUPI", w |-> W(198, 16, 18, 19, 2), r |-> (16 :> BN!FromNat(p)) @@ (18 :> BN!FromNat(SrcAt)) @@ (19 :> BN!Max64)] : p \in {64}}
    \cup {[n |-> "SPLD", w |-> W(199, 20, 16, 0, 0), r |-> (16 :> BN!FromNat(p))] : p \in KeyPtrs}
Instances == {i \in AllInstances : i.n \in Families}

With(v, inst) == [v EXCEPT !.regs = [q \in 0..63 |-> IF q \in DOMAIN inst.r THEN inst.r[q] ELSE v.regs[q]]]
EffOf(v, inst) == StorageEff(With(v, inst), inst.n, inst.w)
AllSlots == {<<c, KeyPlus(k, 0)>> : c \in {C1, C2}, k \in {Keys[i] : i \in 1..4}}
KeyOf(inst) == ReadBytes(vm.mem, BN!ToNat(inst.r[16]), 32)
CountOf(inst) == IF inst.n = "SCWQ" \/ inst.n = "SCLR" THEN BN!ToNat(inst.r[18]) ELSE IF inst.n \in {"SRWQ", "SWWQ"} THEN BN!ToNat(inst.r[19]) ELSE 1

\* ---- result comparison ----
NoGas(eff) == [f \in DOMAIN eff \ {"gas", "upd"} |-> eff[f]]
SameResult(a, b) == /\ a.x = b.x
                    /\ (a.x => (/\ NoGas(a) = NoGas(b)
                                /\ ("kv" \in DOMAIN a.upd) = ("kv" \in DOMAIN b.upd)
                                /\ ("kv" \in DOMAIN a.upd => a.upd.kv = b.upd.kv)))
Exec(inst) ==
    LET v == With(vm, inst)
        eff == StorageEff(v, inst.n, inst.w)
        ok == eff.x /\ eff.pan = {} /\ CanPay(v, eff.gas)
        c == CurContract(vm)
        k == KeyOf(inst)
        n == CountOf(inst)
        too == TooMany(k, BN!FromNat(n))
        ks == IF too THEN {} ELSE {KeyPlus(k, i) : i \in 0..(n - 1)}
        cold == EffOf([vm EXCEPT !.warm = {}], inst)
        hot == EffOf([vm EXCEPT !.warm = vm.warm \cup AllSlots], inst)
        \* registers and memory are put back (the model is about storage; results are compared through the effects)
        nxt == IF ok THEN [OkVm(v, eff) EXCEPT !.regs = vm.regs] ELSE vm          \* a panic reverts: no change
        kv2 == nxt.kv
        both == (DOMAIN kv2) \cup (DOMAIN vm.kv)
        same(p) == p \in DOMAIN kv2 /\ p \in DOMAIN vm.kv /\ kv2[p] = vm.kv[p]
    IN /\ depth < MaxDepth
       /\ eff.x
       /\ (depth = 0 => PrintT(<<IF ok THEN "MC-DONE" ELSE "MC-PANIC", inst.n>>))      \* vacuity evidence for the check driver
       /\ vm' = nxt
       /\ depth' = depth + 1
       /\ chk' = [cache |-> SameResult(eff, cold) /\ SameResult(eff, hot),
                  gas |-> BN!Le(hot.gas, eff.gas) /\ BN!Le(eff.gas, cold.gas),
                  iso |-> \A p \in both : p[1] # c => same(p),
                  pure |-> inst.n \in {"SRW", "SRWQ", "SRDD", "SRDI", "SPLD"} => kv2 = vm.kv,
                  cleared |-> (inst.n \in {"SCWQ", "SCLR"} /\ ok) => \A q \in ks : ~StHas(kv2, c, q),
                  written |-> (inst.n \in {"SWW", "SWWQ", "SWRD", "SWRI", "SUPD", "SUPI"} /\ ok) =>
                                 \A q \in ks : StHas(kv2, c, q) /\ BN!Le(BN!FromNat(BLen(StVal(kv2, c, q))), StMaxLen(vm)),
                  untouched |-> ok => \A p \in both : (p[1] = c /\ p[2] \notin ks) => same(p),
                  warm |-> vm.warm \subseteq nxt.warm,
                  boundary |-> (inst.n \in {"SCWQ", "SRWQ", "SWWQ", "SCLR"} /\ too) => ~ok,
                  failed |-> ~ok => kv2 = vm.kv]
ExecAny == \E inst \in Instances : Exec(inst)
\* the active contract returns and the script calls the other one (same transaction: the warm set is kept)
Switch == /\ depth < MaxDepth
          /\ vm' = [vm EXCEPT !.frames = <<Frame(IF CurContract(vm) = C1 THEN C2 ELSE C1)>>]
          /\ chk' = AllOk /\ depth' = depth + 1
\* the transaction ends successfully and a new one starts on the same storage
NewTx == /\ depth < MaxDepth
         /\ vm' = [vm EXCEPT !.warm = {}, !.kv0 = vm.kv]
         /\ chk' = AllOk /\ depth' = depth + 1
MCNext == ExecAny \/ Switch \/ NewTx
MCSpec == MCInit /\ [][MCNext]_mcVars

\* ---- the properties (see the head of the module) ----
CacheIrrelevant == chk.cache
HotNotDearer == chk.gas
Isolation == chk.iso
ReadsPure == chk.pure
Cleared == chk.cleared
Written == chk.written
Untouched == chk.untouched
WarmGrows == chk.warm
Boundary == chk.boundary
Failed == chk.failed
=============================================================================
