\* generated by work/mccalls/gen_cfg.py -- reachability witnesses: every INVARIANT below is the negation of a required behaviour and must be reported VIOLATED (leg.py runs them one at a time)
SPECIFICATION MCSpec
CONSTANTS
  MaxDepth = 5
  Gas0s = {"1000", "420"}
  FwdGas = "400"
  \* CALL_A      2d414496  CALL r16 r20 r18 r22  call CA forwarding r20 of A0 and r22 gas
  \* CALL_B      2d4544d6  CALL r17 r20 r19 r22  call CB forwarding r20 of A1 (CB has no balance entry: storage gas)
  \* CALL_B0     2d44048a  CALL r17 $zero r18 $cgas  call CB, no coins, all gas ($cgas operand: both readings)
  \* CALL_X      2d5c0496  CALL r23 ...  CX is deployed but not an input contract
  \* CALL_A_BIG  2d415496  CALL r16 r21 ...  forwards more than any balance
  \* TR_B        3c454480  TR r17 r20 r18  transfer r20 of A0 to CB
  \* TRO         3d001512  TRO $zero $one r20 r18  r20 of A0 to the address at 0 through output 1 (Variable)
  \* MINT        35512000  MINT r20 r18  mint r20 of sub id zero
  \* BURN        2c512000  BURN r20 r18
  \* SMO         4c000014  SMO $zero $zero $zero r20  message with r20 base-asset coins, no data
  \* RET         24040000  RET $one
  \* RVRT        36000000  RVRT $zero
  \* CFEI        91000010  CFEI 16  extend the stack frame
  \* SW_SSP      5f114000  SW $ssp r20 0  own stack (owned only after CFEI)
  \* SW_CALLER   5f414000  SW r16 r20 0  address 256: the script's data / the caller's stack
  \* ALOC        26640000  ALOC r25  16 bytes of heap
  Alphabet = {"2d414496", "2d4544d6", "2d44048a", "2d5c0496", "2d415496", "3c454480", "3d001512", "35512000", "2c512000", "4c000014", "24040000", "36000000", "91000010", "5f114000", "5f414000", "26640000"}
INVARIANTS NoDepth2 NoRetFromDepth2 NoRetToScript NoTransfer NoCoinsForwarded NoTransferOut NoTransferOutInCall NoMintAndBurn NoMessageOut NoPanicInCallee NoOutOfGasInCallee NoOwnershipPanicInCallee NoNotInInputsPanic NoNotEnoughBalance NoRevertInCallee NoTopLevelOk NoCalleeHeapKept NoCalleeStackWrite NoNewBalanceEntry
CHECK_DEADLOCK FALSE
