------------------------------- MODULE VmMem -------------------------------
(* Memory instructions (C23, C24). *)
EXTENDS VmBase

LoadEff(vm, w, size, gasName) ==
    LET a == BN!Add(Ro(vm, RB(w)), BN!FromNat(Imm12(w) * size))
        n == BN!FromNat(size)
        rp == IF AddrOverflow(a) THEN {"MemoryOverflow"} ELSE ReadPanics(vm, a, n)
    IN Eff(GasOf(vm, gasName), rp \cup DestPan(RA(w)),
           IF rp = {} THEN (RA(w) :> UnBE(MemRead(vm, a, n))) @@ StepPc(vm) ELSE <<>>, <<>>, vm.slen)
StoreEff(vm, w, size, gasName) ==
    LET a == BN!Add(Ro(vm, RA(w)), BN!FromNat(Imm12(w) * size))
        n == BN!FromNat(size)
        wp == IF AddrOverflow(a) THEN {"MemoryOverflow"} ELSE WritePanics(vm, a, n)
    IN Eff(GasOf(vm, gasName), wp, StepPc(vm),
           IF wp = {} THEN <<<<BN!ToNat(a), BEBig(Ro(vm, RB(w)), size)>>>> ELSE <<>>, vm.slen)
ClearEff(vm, a, n, gasName) ==
    LET wp == WritePanics(vm, a, n) IN
    Eff(Dep(GasOf(vm, gasName), n), wp, StepPc(vm), IF wp = {} /\ n # "0" THEN <<<<BN!ToNat(a), Zeros(BN!ToNat(n))>>>> ELSE <<>>, vm.slen)
CopyEff(vm, d, s0, n, gasName) ==
    LET pd == ReadPanics(vm, d, n)  ps == ReadPanics(vm, s0, n)
        pan == pd \cup ps \cup (IF pd = {} /\ ps = {} /\ Overlap(d, s0, n) THEN {"MemoryWriteOverlap"} ELSE {})
                  \cup (IF pd = {} /\ ~Owns(vm, d, n) THEN {"MemoryOwnership"} ELSE {})
    IN Eff(Dep(GasOf(vm, gasName), n), pan, StepPc(vm),
           IF pan = {} /\ n # "0" THEN <<<<BN!ToNat(d), MemRead(vm, s0, n)>>>> ELSE <<>>, vm.slen)
MeqEff(vm, w) ==
    LET b == Ro(vm, RB(w))  c == Ro(vm, RC(w))  n == Ro(vm, RD(w))
        pan == ReadPanics(vm, b, n) \cup ReadPanics(vm, c, n)
    IN Eff(Dep(GasOf(vm, "meq"), n), pan \cup DestPan(RA(w)),
           IF pan = {} THEN (RA(w) :> B2N(MemRead(vm, b, n) = MemRead(vm, c, n))) @@ StepPc(vm) ELSE <<>>, <<>>, vm.slen)

\* heap allocation: $hp moves down by n, the new bytes read zero, a stack extent above the new $hp is cut off
AlocEff(vm, w) ==
    LET n == Ro(vm, RA(w))
        tooBig == BN!Lt(R(vm, HP), n)
        newHp == IF tooBig THEN "0" ELSE BN!Sub(R(vm, HP), n)
        pan == IF tooBig THEN {"MemoryOverflow"} ELSE IF BN!Lt(newHp, R(vm, SP)) THEN {"MemoryGrowthOverlap"} ELSE {}
    IN Eff(Dep(GasOf(vm, "aloc"), n), pan, (HP :> newHp) @@ StepPc(vm),
           IF pan = {} /\ n # "0" THEN ZeroFill(vm.mem, BN!ToNat(newHp), BN!ToNat(n)) ELSE <<>>,
           IF pan = {} /\ BN!ToNat(newHp) < vm.slen THEN BN!ToNat(newHp) ELSE vm.slen)
\* stack frame extension / shrinking
NewSpEff(vm, gas, newSp, pan0) ==
    LET pan == IF pan0 # {} THEN pan0
               ELSE IF BN!Lt(newSp, R(vm, SSP)) THEN {"MemoryOverflow"}
               ELSE IF BN!Lt(R(vm, HP), newSp) THEN {"MemoryGrowthOverlap"} ELSE {}
    IN Eff(gas, pan, (SP :> newSp) @@ StepPc(vm), <<>>,
           IF pan = {} /\ BN!ToNat(newSp) > vm.slen THEN BN!ToNat(newSp) ELSE vm.slen)
CfeEff(vm, n, gasName) == LET s == BN!Add(R(vm, SP), n) IN
    NewSpEff(vm, Dep(GasOf(vm, gasName), n), s, IF AddrOverflow(s) THEN {"MemoryOverflow"} ELSE {})
CfsEff(vm, n) == IF BN!Lt(R(vm, SP), n) THEN NewSpEff(vm, GasOf(vm, "cfsi"), "0", {"MemoryOverflow"})
                 ELSE NewSpEff(vm, GasOf(vm, "cfsi"), BN!Sub(R(vm, SP), n), {})

\* push / pop of selected registers: bit i of the 24-bit mask selects register base + i (base 16 low, 40 high)
MaskRegs(base, mask) == {base + i : i \in {j \in 0..23 : (mask \div (2 ^ j)) % 2 = 1}}
RECURSIVE RegsBytes(_, _, _)
RegsBytes(vm, rs, r) == IF r > 63 THEN "" ELSE (IF r \in rs THEN BEBig(R(vm, r), 8) ELSE "") \o RegsBytes(vm, rs, r + 1)
PushEff(vm, w, base, gasName) ==
    LET rs == MaskRegs(base, Imm24(w))
        n  == BN!FromNat(8 * Cardinality(rs))
        s  == Sat64(BN!Add(R(vm, SP), n))
        pan == IF BN!Lt(R(vm, HP), s) THEN {"MemoryGrowthOverlap"} ELSE {}
    IN Eff(GasOf(vm, gasName), pan, (SP :> s) @@ StepPc(vm),
           IF pan = {} /\ rs # {} THEN <<<<BN!ToNat(R(vm, SP)), RegsBytes(vm, rs, 0)>>>> ELSE <<>>,
           IF pan = {} /\ BN!ToNat(s) > vm.slen THEN BN!ToNat(s) ELSE vm.slen)
\* the k-th selected register (in increasing order) receives the k-th word
Rank(rs, r) == Cardinality({q \in rs : q < r})
PopEff(vm, w, base, gasName) ==
    LET rs == MaskRegs(base, Imm24(w))
        n  == BN!FromNat(8 * Cardinality(rs))
        under == BN!Lt(R(vm, SP), n)
        s  == IF under THEN "0" ELSE BN!Sub(R(vm, SP), n)
        pan == IF under \/ BN!Lt(s, R(vm, SSP)) THEN {"MemoryOverflow"} ELSE {}
    IN Eff(GasOf(vm, gasName), pan,
           IF pan = {} THEN [r \in rs |-> UnBE(ReadBytes(vm.mem, BN!ToNat(s) + 8 * Rank(rs, r), 8))] @@ (SP :> s) @@ StepPc(vm) ELSE <<>>,
           <<>>, vm.slen)

MemNames == {"LB","LQW","LHW","LW","SB","SQW","SHW","SW","MCL","MCLI","MCP","MCPI","MEQ","ALOC","CFEI","CFE","CFSI","CFS","PSHL","PSHH","POPL","POPH"}
MemEff(vm, n, w) ==
    CASE n = "LB" -> LoadEff(vm, w, 1, "lb") [] n = "LQW" -> LoadEff(vm, w, 2, "lw") [] n = "LHW" -> LoadEff(vm, w, 4, "lw")
      [] n = "LW" -> LoadEff(vm, w, 8, "lw")
      [] n = "SB" -> StoreEff(vm, w, 1, "sb") [] n = "SQW" -> StoreEff(vm, w, 2, "sw") [] n = "SHW" -> StoreEff(vm, w, 4, "sw")
      [] n = "SW" -> StoreEff(vm, w, 8, "sw")
      [] n = "MCL"  -> ClearEff(vm, Ro(vm, RA(w)), Ro(vm, RB(w)), "mcl")
      [] n = "MCLI" -> ClearEff(vm, Ro(vm, RA(w)), BN!FromNat(Imm18(w)), "mcli")
      [] n = "MCP"  -> CopyEff(vm, Ro(vm, RA(w)), Ro(vm, RB(w)), Ro(vm, RC(w)), "mcp")
      [] n = "MCPI" -> CopyEff(vm, Ro(vm, RA(w)), Ro(vm, RB(w)), BN!FromNat(Imm12(w)), "mcpi")
      [] n = "MEQ"  -> MeqEff(vm, w)
      [] n = "ALOC" -> AlocEff(vm, w)
      [] n = "CFEI" -> CfeEff(vm, BN!FromNat(Imm24(w)), "cfei")
      [] n = "CFE"  -> CfeEff(vm, Ro(vm, RA(w)), "cfe")
      [] n = "CFSI" -> CfsEff(vm, BN!FromNat(Imm24(w)))
      [] n = "CFS"  -> CfsEff(vm, Ro(vm, RA(w)))
      [] n = "PSHL" -> PushEff(vm, w, 16, "pshl") [] n = "PSHH" -> PushEff(vm, w, 40, "pshh")
      [] n = "POPL" -> PopEff(vm, w, 16, "popl") [] n = "POPH" -> PopEff(vm, w, 40, "poph")
=============================================================================
