SPECIFICATION MCSpec
CONSTANTS
  Grid = 0
  MaxDepth = 1
INVARIANTS WideLaw GasInv ConstRegs StackOrder ZeroOutside
CHECK_DEADLOCK FALSE
