\* generated by work/mccalls/gen_cfg.py -- quick tier: 13 words, depth 5, one gas limit
SPECIFICATION MCSpec
CONSTANTS
  MaxDepth = 5
  Gas0s = {"1000"}
  FwdGas = "400"
  \* CALL_A      2d414496  CALL r16 r20 r18 r22  call CA forwarding r20 of A0 and r22 gas
  \* CALL_B      2d4544d6  CALL r17 r20 r19 r22  call CB forwarding r20 of A1 (CB has no balance entry: storage gas)
  \* CALL_X      2d5c0496  CALL r23 ...  CX is deployed but not an input contract
  \* TR_B        3c454480  TR r17 r20 r18  transfer r20 of A0 to CB
  \* TRO         3d001512  TRO $zero $one r20 r18  r20 of A0 to the address at 0 through output 1 (Variable)
  \* MINT        35512000  MINT r20 r18  mint r20 of sub id zero
  \* BURN        2c512000  BURN r20 r18
  \* RET         24040000  RET $one
  \* RVRT        36000000  RVRT $zero
  \* CFEI        91000010  CFEI 16  extend the stack frame
  \* SW_SSP      5f114000  SW $ssp r20 0  own stack (owned only after CFEI)
  \* SW_CALLER   5f414000  SW r16 r20 0  address 256: the script's data / the caller's stack
  \* ALOC        26640000  ALOC r25  16 bytes of heap
  Alphabet = {"2d414496", "2d4544d6", "2d5c0496", "3c454480", "3d001512", "35512000", "2c512000", "24040000", "36000000", "91000010", "5f114000", "5f414000", "26640000"}
INVARIANTS TypeOk ConstRegs PcOk GasInv GasLedger Conserved NoOtherAsset FinalConserved ContextsAreInputs NonInputPanics FrameIntact FramesNested StackOrder ZeroOutside Observe
POSTCONDITION ReportWitnesses
PROPERTIES GasNeverUp ForwardBounded ChargeBoth ReceiptsMove MovesHaveReceipt TouchesInputsOnly PanicChangesNothing BalReadsInputs FramesStable CallStep RetStep TopReturn WritesOwned CallerStackUnchanged
CHECK_DEADLOCK FALSE
