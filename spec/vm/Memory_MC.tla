----------------------------- MODULE Memory_MC -----------------------------
(***************************************************************************)
(* Leg M: every history of length <= MaxLen over stack growth, heap        *)
(* allocation, boundary writes, copies, reset, snapshot and rollback, on   *)
(* a small MemSize, with the invariants of Memory.                         *)
(* Leg R generator: the same module with MemSize = 64 MiB and              *)
(* EmitReplay = TRUE prints one line for EVERY transition of the           *)
(* reachable graph: a shortest history leading to the source state, the    *)
(* step, and what the specification predicts afterwards (ok/refused, the   *)
(* two region bounds, accessibility verdicts for a probe set of ranges     *)
(* around every boundary, and the complete non-zero content).              *)
(* The history is hidden from the state graph by the VIEW, so each         *)
(* abstract state is explored once.                                        *)
(***************************************************************************)
EXTENDS Memory, Json, SequencesExt
LOCAL INSTANCE Hex

CONSTANTS MaxLen,       \* bound on the history length
          Sizes,        \* stack targets / allocation sizes
          WLens,        \* lengths of writes
          CLens,        \* lengths of copies (positive)
          MaxSnaps,
          EmitReplay,
          DepthInView   \* TRUE: a state is explored once per history length (exact bound with many workers)

VARIABLES sp,           \* the caller's stack pointer: the last granted GrowStack request
          spSnaps,      \* the stack pointers saved with the snapshots
          hist          \* history of steps (hidden by the VIEW)

mcVars == <<pg, st, hp, snaps, sp, spSnaps, hist>>
View == <<pg, st, hp, snaps, sp, spSnaps, IF DepthInView THEN Len(hist) ELSE 0>>

MCInit == MemInit /\ sp = 0 /\ spSnaps = <<>> /\ hist = <<>>

Bounded == Len(hist) < MaxLen
StepNo == Len(hist) + 1

\* the bytes written by step k: 16k, 16k+1, ... (non-zero, position dependent)
WData(k, n) == Cat([i \in 1..n |-> BE((16 * k + i - 1) % 256, 1)])

\* ---- what the specification predicts after a step ----
ProbesOf(s, h) ==
    {pr \in UNION {{<<b - 1, 1>>, <<b, 0>>, <<b, 1>>, <<b - 8, 8>>, <<b - 7, 8>>, <<b + 1, 0>>} : b \in {s, h, MemSize}}
            \cup {<<0, 0>>, <<0, 1>>, <<0, s>>, <<0, s + 1>>, <<0, MemSize>>, <<h, MemSize - h>>,
                  <<h, MemSize - h + 1>>, <<h - 1, MemSize - h + 1>>, <<MemSize + 1, 0>>, <<1, MemSize>>}
        : pr[1] >= 0}
ProbeSeq(s, h) == LET ps == SetToSeq(ProbesOf(s, h)) IN
    [i \in 1..Len(ps) |-> [a |-> ps[i][1], n |-> ps[i][2], ok |-> AccessibleIn(ps[i][1], ps[i][2], s, h)]]
PagesSeq(m) == LET ds == SetToSeq(DOMAIN m) IN [i \in 1..Len(ds) |-> [p |-> ds[i], h |-> m[ds[i]]]]
Full(rec) == rec @@ [st |-> st', hp |-> hp', probes |-> ProbeSeq(st', hp'), pages |-> PagesSeq(pg')]
Log(rec) == /\ hist' = Append(hist, rec)
            /\ (EmitReplay => PrintT("REPLAY" \o ToJson([pre |-> hist, last |-> Full(rec)])))

NatsOf(S) == {x \in S : x >= 0 /\ x <= MemSize + 1}

AGrowStack ==
    /\ Bounded
    /\ \E s \in NatsOf(Sizes \cup {hp - 1, hp, hp + 1}) :
         \/ /\ GrowStackOk(s)
            /\ GrowStack(s)
            /\ sp' = s
            /\ UNCHANGED spSnaps
            /\ Log([a |-> "GrowStack", s |-> s, ok |-> TRUE])
         \/ /\ ~GrowStackOk(s)
            /\ UNCHANGED <<memVars, sp, spSnaps>>
            /\ Log([a |-> "GrowStack", s |-> s, ok |-> FALSE])

AGrowHeap ==
    /\ Bounded
    /\ \E n \in NatsOf(Sizes \cup {hp - sp - 1, hp - sp, hp - sp + 1}) :
         \/ /\ GrowHeapOk(sp, n)
            /\ GrowHeap(sp, n)
            /\ UNCHANGED <<sp, spSnaps>>
            /\ Log([a |-> "GrowHeap", sp |-> sp, n |-> n, ok |-> TRUE])
         \/ /\ ~GrowHeapOk(sp, n)
            /\ UNCHANGED <<memVars, sp, spSnaps>>
            /\ Log([a |-> "GrowHeap", sp |-> sp, n |-> n, ok |-> FALSE])

WAddrs(n) == NatsOf({0, st - n, st - n + 1, hp - 1, hp, MemSize - n, MemSize - n + 1})
AWrite ==
    /\ Bounded
    /\ \E n \in WLens : \E a \in WAddrs(n) :
         LET d == WData(StepNo, n) IN
         \/ /\ WriteOk(a, d)
            /\ Write(a, d)
            /\ UNCHANGED <<sp, spSnaps>>
            /\ Log([a |-> "Write", addr |-> a, data |-> d, ok |-> TRUE])
         \/ /\ ~WriteOk(a, d)
            /\ UNCHANGED <<memVars, sp, spSnaps>>
            /\ Log([a |-> "Write", addr |-> a, data |-> d, ok |-> FALSE])

CSrcs(n) == NatsOf({0, st - n, hp, MemSize - n})
CDsts(s, n) == NatsOf({s - n, s - n + 1, s, s + n - 1, s + n, 0, st - n, hp, MemSize - n + 1})
ACopy ==
    /\ Bounded
    /\ \E n \in CLens : \E s \in CSrcs(n) : \E d \in CDsts(s, n) :
         \/ /\ CopyOk(d, s, n)
            /\ Copy(d, s, n)
            /\ UNCHANGED <<sp, spSnaps>>
            /\ Log([a |-> "Copy", d |-> d, s |-> s, n |-> n, ok |-> TRUE])
         \/ /\ ~CopyOk(d, s, n)
            /\ UNCHANGED <<memVars, sp, spSnaps>>
            /\ Log([a |-> "Copy", d |-> d, s |-> s, n |-> n, ok |-> FALSE])

AReset ==
    /\ Bounded
    /\ Reset
    /\ sp' = 0
    /\ spSnaps' = <<>>
    /\ Log([a |-> "Reset", ok |-> TRUE])

ASnapshot ==
    /\ Bounded
    /\ Len(snaps) < MaxSnaps
    /\ Snapshot
    /\ spSnaps' = Append(spSnaps, sp)
    /\ UNCHANGED sp
    /\ Log([a |-> "Snapshot", ok |-> TRUE])

ARollback ==
    /\ Bounded
    /\ \E k \in 1..Len(snaps) :
         /\ Rollback(k)
         /\ sp' = spSnaps[k]
         /\ spSnaps' = SubSeq(spSnaps, 1, k)
         /\ Log([a |-> "Rollback", k |-> k, ok |-> TRUE])

MCNext == AGrowStack \/ AGrowHeap \/ AWrite \/ ACopy \/ AReset \/ ASnapshot \/ ARollback
MCSpec == MCInit /\ [][MCNext]_mcVars

\* ---- invariants of the generator itself ----
SpBelowStack == sp <= st /\ Len(spSnaps) = Len(snaps)

\* ---- step properties ----
LastStep == hist'[Len(hist')]
\* whatever becomes accessible by growth reads zero
GrowthReadsZeroStep ==
    (Len(hist') > Len(hist) /\ LastStep.a \in {"GrowStack", "GrowHeap"}) =>
        /\ (st' > st => IsZeroRange(pg', st, st'))
        /\ (hp' < hp => IsZeroRange(pg', hp', hp))
GrowthReadsZero == [][GrowthReadsZeroStep]_mcVars
RollbackRestores ==
    [][(Len(hist') > Len(hist) /\ LastStep.a = "Rollback") => RollbackRestoresStep(LastStep.k)]_mcVars
=============================================================================
