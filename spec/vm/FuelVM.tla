------------------------------- MODULE FuelVM -------------------------------
(***************************************************************************)
(* The FuelVM interpreter as a state machine: one action per executed      *)
(* instruction.  Written from the FuelVM instruction-set specification     *)
(* (registers, flags, panic conditions, gas) — NOT from the Rust code      *)
(* paths; where the specification leaves a choice (which of several        *)
(* applicable panics is reported, whether gas is charged before a          *)
(* non-gas panic) every permitted outcome is admitted.                     *)
(*                                                                         *)
(* State of one VM:                                                        *)
(*   regs  : 0..63 -> BigNat (decimal string)                              *)
(*   mem   : 64-byte page index -> page (hex); absent page = zeros         *)
(*   slen  : highest stack extent so far (bytes [0, slen) are accessible)  *)
(*   env   : static configuration as reported by the implementation        *)
(*           (gas schedule, tx offset, chain id, ...)                      *)
(* An instruction's meaning is an EFFECT record computed from the state    *)
(* and the instruction word; Outcomes(vm, w) is the set of admissible      *)
(* results built from it.                                                  *)
(***************************************************************************)
EXTENDS Naturals, Sequences, FiniteSets, TLC, VmOps
INSTANCE Hex
BN == INSTANCE BigNat

\* ---- register file ----
ZERO == 0  ONE == 1  OF == 2  PC == 3  SSP == 4  SP == 5  FP == 6  HP == 7  ERR == 8  GGAS == 9
CGAS == 10  BAL == 11  IS == 12  RET == 13  RETL == 14  FLAG == 15
FirstWritable == 16
MemSize == 67108864                       \* VM_MAX_RAM = 2^26
MemSizeBN == "67108864"
PageSize == 64

R(vm, i) == vm.regs[i]
Writable(r) == r >= FirstWritable
FlagBit(vm, bit) == (BN!ToNat(BN!Mod(R(vm, FLAG), "4")) \div bit) % 2 = 1
UnsafeMath(vm) == FlagBit(vm, 1)          \* F_UNSAFEMATH = 0x01
Wrapping(vm)   == FlagBit(vm, 2)          \* F_WRAPPING   = 0x02
PcNext(vm) == BN!Min(BN!Add(R(vm, PC), "4"), BN!Max64)
Low64(x)  == BN!Mod(x, BN!Two64)
High64(x) == BN!Shr(x, 64)
B2N(b) == IF b THEN "1" ELSE "0"

\* ---- memory ----
Page(m, p) == IF p \in DOMAIN m THEN m[p] ELSE Zeros(PageSize)
SetPage(m, p, v) == IF IsZero(v) THEN [q \in DOMAIN m \ {p} |-> m[q]] ELSE (p :> v) @@ m
RECURSIVE WriteBytes(_, _, _)
WriteBytes(m, a, d) ==
    IF d = "" THEN m
    ELSE LET p   == a \div PageSize
             off == a % PageSize
             n   == IF PageSize - off < BLen(d) THEN PageSize - off ELSE BLen(d)
         IN WriteBytes(SetPage(m, p, Splice(Page(m, p), off, Slice(d, 0, n))), a + n, Slice(d, n, BLen(d) - n))
RECURSIVE ReadBytes(_, _, _)
ReadBytes(m, a, n) ==
    IF n = 0 THEN ""
    ELSE LET p   == a \div PageSize
             off == a % PageSize
             k   == IF PageSize - off < n THEN PageSize - off ELSE n
         IN Slice(Page(m, p), off, k) \o ReadBytes(m, a + k, n - k)
RECURSIVE ApplyWrites(_, _, _)
ApplyWrites(m, ws, i) == IF i > Len(ws) THEN m ELSE ApplyWrites(WriteBytes(m, ws[i][1], ws[i][2]), ws, i + 1)

HpN(vm) == BN!ToNat(R(vm, HP))
\* a range given by BigNat start/length is accessible iff it fits memory and lies entirely in the stack
\* extent or entirely in the heap
RangeOverflows(a, n) == BN!Lt(MemSizeBN, a) \/ BN!Lt(MemSizeBN, n) \/ BN!Lt(MemSizeBN, BN!Add(a, n))
Accessible(vm, a, n) == /\ ~RangeOverflows(a, n)
                        /\ (BN!Le(BN!Add(a, n), BN!FromNat(vm.slen)) \/ BN!Le(R(vm, HP), a))
\* the panic a read of [a, a+n) raises, as a set (empty = none)
ReadPanics(vm, a, n) == IF RangeOverflows(a, n) THEN {"MemoryOverflow"}
                        ELSE IF Accessible(vm, a, n) THEN {} ELSE {"UninitalizedMemoryAccess"}

\* ---- gas ----
GasOf(vm, name) == vm.env.gas[name]
\* a dependent cost: light = base + units / units_per_gas ; heavy = base + units * gas_per_unit (saturating at u64)
Sat64(x) == BN!Min(x, BN!Max64)
DepNoBase(c, units) == IF c.k = "light" THEN BN!Div(units, c.u) ELSE Sat64(BN!Mul(units, c.u))
Dep(c, units) == Sat64(BN!Add(c.base, DepNoBase(c, units)))

(***************************************************************************)
(* ALU (C21)                                                               *)
(***************************************************************************)
\* result of a register-level arithmetic/logic operation: [pan, val, of, err]
Res(pan, val, of, err) == [pan |-> pan, val |-> val, of |-> of, err |-> err]
\* capture-overflow family: the true result x as a natural; $of = high 64 bits, value = low 64 bits
Capture(vm, x) == Res(IF BN!Lt(BN!Max64, x) /\ ~Wrapping(vm) THEN {"ArithmeticOverflow"} ELSE {}, Low64(x), High64(x), "0")
\* subtraction below zero is the 128-bit two's complement: value = (b - c) mod 2^64, $of = 2^64 - 1
SubRes(vm, b, c) == IF BN!Le(c, b) THEN Res({}, BN!Sub(b, c), "0", "0")
                    ELSE Res(IF Wrapping(vm) THEN {} ELSE {"ArithmeticOverflow"}, BN!Sub(BN!Add(b, BN!Two64), c), BN!Max64, "0")
\* boolean-overflow family: ovf tells whether the true result exceeds 64 bits
BoolOvf(vm, ovf, x) == Res(IF ovf /\ ~Wrapping(vm) THEN {"ArithmeticOverflow"} ELSE {}, IF ovf THEN "0" ELSE x, B2N(ovf), "0")
\* error family: bad tells whether the operation is undefined
ErrFam(vm, bad, x) == Res(IF bad /\ ~UnsafeMath(vm) THEN {"ArithmeticError"} ELSE {}, IF bad THEN "0" ELSE x, "0", B2N(bad))
SetFam(x) == Res({}, x, "0", "0")

\* b ^ c as a natural does not fit 64 bits?
PowOverflows(b, c) == IF BN!Lt(b, "2") THEN FALSE
                      ELSE IF BN!Lt("64", c) THEN TRUE ELSE BN!Lt(BN!Max64, BN!Pow(b, c))
PowVal(b, c) == IF b = "0" THEN (IF c = "0" THEN "1" ELSE "0") ELSE IF b = "1" THEN "1" ELSE BN!Pow(b, c)
ShiftL(b, c) == IF BN!Lt("63", c) THEN "0" ELSE Low64(BN!Shl(b, BN!ToNat(c)))
ShiftR(b, c) == IF BN!Lt("63", c) THEN "0" ELSE BN!Shr(b, BN!ToNat(c))
Not64(b) == BN!Sub(BN!Max64, b)
\* fused multiply-divide with a 128-bit intermediate; a zero divider means 2^64
MulDiv(vm, b, c, d) == LET q == BN!Div(BN!Mul(b, c), IF d = "0" THEN BN!Two64 ELSE d) IN
                       Res(IF BN!Lt(BN!Max64, q) /\ ~Wrapping(vm) THEN {"ArithmeticOverflow"} ELSE {}, Low64(q), High64(q), "0")

\* narrow-integer operations (NIOP): imm6 = op (bits 0..3) + width (bits 4..5)
NiopOpOf(imm) == imm % 16       \* 0 ADD, 1 SUB, 2 MUL, 3 EXP, 4 SLL, 5 XNOR
NiopWidthOf(imm) == imm \div 16 \* 0 -> 8 bits, 1 -> 16 bits, 2 -> 32 bits
NiopValid(imm) == NiopOpOf(imm) <= 5 /\ NiopWidthOf(imm) <= 2
NiopBits(imm) == IF NiopWidthOf(imm) = 0 THEN 8 ELSE IF NiopWidthOf(imm) = 1 THEN 16 ELSE 32
Niop(vm, b0, c0, imm) ==
    LET bits == NiopBits(imm)
        M    == BN!Shl("1", bits)                 \* 2^bits
        b    == BN!Mod(b0, M)
        c    == BN!Mod(c0, M)
        op   == NiopOpOf(imm)
        \* [val, of] of the exact operation on the truncated operands
        r == CASE op = 0 -> LET x == BN!Add(b, c) IN <<BN!Mod(x, M), BN!Shr(x, bits)>>
               [] op = 2 -> LET x == BN!Mul(b, c) IN <<BN!Mod(x, M), BN!Shr(x, bits)>>
               [] op = 3 -> IF (IF BN!Lt(b, "2") THEN FALSE ELSE IF BN!Lt("32", c) THEN TRUE ELSE ~BN!Lt(BN!Pow(b, c), M))
                            THEN <<"0", "1">> ELSE <<PowVal(b, c), "0">>
               [] op = 4 -> <<IF BN!Lt("63", c) THEN "0" ELSE BN!Mod(Low64(BN!Shl(b, BN!ToNat(c))), M), "0">>
               [] op = 5 -> <<BN!Mod(Not64(BN!Xor(b, c)), M), "0">>
               [] op = 1 -> IF BN!Le(c, b) THEN <<BN!Sub(b, c), "0">> ELSE <<BN!Sub(BN!Add(b, M), c), BN!Max64>>
    IN Res(IF r[2] # "0" /\ ~Wrapping(vm) THEN {"ArithmeticOverflow"} ELSE {}, r[1], r[2], "0")

AluNames == {"ADD","ADDI","AND","ANDI","DIV","DIVI","EQ","EXP","EXPI","GT","LT","MLOG","MOD","MODI","MOVE","MOVI",
             "MROO","MUL","MULI","MLDV","NIOP","NOT","OR","ORI","SLL","SLLI","SRL","SRLI","SUB","SUBI","XOR","XORI"}
\* the schedule entry charged by each ALU instruction
AluGas == [n \in AluNames |->
    CASE n = "ADD" -> "add" [] n = "ADDI" -> "addi" [] n = "AND" -> "and" [] n = "ANDI" -> "andi" [] n = "DIV" -> "div"
      [] n = "DIVI" -> "divi" [] n = "EQ" -> "eq" [] n = "EXP" -> "exp" [] n = "EXPI" -> "expi" [] n = "GT" -> "gt"
      [] n = "LT" -> "lt" [] n = "MLOG" -> "mlog" [] n = "MOD" -> "mod" [] n = "MODI" -> "modi" [] n = "MOVE" -> "move"
      [] n = "MOVI" -> "movi" [] n = "MROO" -> "mroo" [] n = "MUL" -> "mul" [] n = "MULI" -> "muli" [] n = "MLDV" -> "mldv"
      [] n = "NIOP" -> "niop" [] n = "NOT" -> "not" [] n = "OR" -> "or" [] n = "ORI" -> "ori" [] n = "SLL" -> "sll"
      [] n = "SLLI" -> "slli" [] n = "SRL" -> "srl" [] n = "SRLI" -> "srli" [] n = "SUB" -> "sub" [] n = "SUBI" -> "subi"
      [] n = "XOR" -> "xor" [] n = "XORI" -> "xori"]

AluRes(vm, n, w) ==
    LET b   == R(vm, RB(w))
        c   == R(vm, RC(w))
        i12 == BN!FromNat(Imm12(w))
    IN CASE n = "ADD"  -> Capture(vm, BN!Add(b, c))
         [] n = "ADDI" -> Capture(vm, BN!Add(b, i12))
         [] n = "MUL"  -> Capture(vm, BN!Mul(b, c))
         [] n = "MULI" -> Capture(vm, BN!Mul(b, i12))
         [] n = "SUB"  -> SubRes(vm, b, c)
         [] n = "SUBI" -> SubRes(vm, b, i12)
         [] n = "EXP"  -> BoolOvf(vm, PowOverflows(b, c), IF PowOverflows(b, c) THEN "0" ELSE PowVal(b, c))
         [] n = "EXPI" -> BoolOvf(vm, PowOverflows(b, i12), IF PowOverflows(b, i12) THEN "0" ELSE PowVal(b, i12))
         [] n = "DIV"  -> ErrFam(vm, c = "0", IF c = "0" THEN "0" ELSE BN!Div(b, c))
         [] n = "DIVI" -> ErrFam(vm, i12 = "0", IF i12 = "0" THEN "0" ELSE BN!Div(b, i12))
         [] n = "MOD"  -> ErrFam(vm, c = "0", IF c = "0" THEN "0" ELSE BN!Mod(b, c))
         [] n = "MODI" -> ErrFam(vm, i12 = "0", IF i12 = "0" THEN "0" ELSE BN!Mod(b, i12))
         [] n = "MLOG" -> LET bad == b = "0" \/ BN!Le(c, "1") IN ErrFam(vm, bad, IF bad THEN "0" ELSE BN!FloorLog(b, c))
         [] n = "MROO" -> ErrFam(vm, c = "0", IF c = "0" THEN "0"
                                               ELSE IF BN!Lt("64", c) THEN (IF BN!Lt(b, "2") THEN b ELSE "1") ELSE BN!FloorRoot(b, c))
         [] n = "AND"  -> SetFam(BN!And(b, c))
         [] n = "ANDI" -> SetFam(BN!And(b, i12))
         [] n = "OR"   -> SetFam(BN!Or(b, c))
         [] n = "ORI"  -> SetFam(BN!Or(b, i12))
         [] n = "XOR"  -> SetFam(BN!Xor(b, c))
         [] n = "XORI" -> SetFam(BN!Xor(b, i12))
         [] n = "NOT"  -> SetFam(Not64(b))
         [] n = "EQ"   -> SetFam(B2N(b = c))
         [] n = "GT"   -> SetFam(B2N(BN!Lt(c, b)))
         [] n = "LT"   -> SetFam(B2N(BN!Lt(b, c)))
         [] n = "MOVE" -> SetFam(b)
         [] n = "MOVI" -> SetFam(BN!FromNat(Imm18(w)))
         [] n = "SLL"  -> SetFam(ShiftL(b, c))
         [] n = "SLLI" -> SetFam(ShiftL(b, i12))
         [] n = "SRL"  -> SetFam(ShiftR(b, c))
         [] n = "SRLI" -> SetFam(ShiftR(b, i12))
         [] n = "MLDV" -> MulDiv(vm, b, c, R(vm, RD(w)))
         [] n = "NIOP" -> IF NiopValid(Imm06(w)) THEN Niop(vm, b, c, Imm06(w)) ELSE Res({"InvalidImmediateValue"}, "0", "0", "0")

(***************************************************************************)
(* Effects.  An effect is                                                  *)
(*   [x    : TRUE iff the instruction is modelled exactly,                 *)
(*    gas  : cost charged (BigNat),                                        *)
(*    pan  : set of panic reasons that apply (other than OutOfGas),        *)
(*    set  : register index -> new value (on success; includes $pc),       *)
(*    wr   : sequence of <<address, bytes>> written on success,            *)
(*    slen : new stack extent on success,                                  *)
(*    out  : "proceed" (default) | "return" | "returndata" | "revert"]     *)
(***************************************************************************)
Eff(gas, pan, set, wr, slen) == [x |-> TRUE, gas |-> gas, pan |-> pan, set |-> set, wr |-> wr, slen |-> slen, out |-> "proceed", rc |-> <<>>, pmay |-> <<>>]
Unmodelled == [x |-> FALSE, gas |-> "0", pan |-> {}, set |-> <<>>, wr |-> <<>>, slen |-> 0, out |-> "proceed", rc |-> <<>>, pmay |-> <<>>]

AluEff(vm, n, w) ==
    LET r  == AluRes(vm, n, w)
        ra == RA(w)
    IN Eff(GasOf(vm, AluGas[n]),
           r.pan \cup (IF Writable(ra) THEN {} ELSE {"ReservedRegisterNotWritable"}),
           (ra :> r.val) @@ (OF :> r.of) @@ (ERR :> r.err) @@ (PC :> PcNext(vm)), <<>>, vm.slen)

NoopEff(vm) == Eff(GasOf(vm, "noop"), {}, (OF :> "0") @@ (ERR :> "0") @@ (PC :> PcNext(vm)), <<>>, vm.slen)
FlagEff(vm, w) == LET a == R(vm, RA(w)) IN
    Eff(GasOf(vm, "flag"), IF BN!Lt("3", a) THEN {"InvalidFlags"} ELSE {}, (FLAG :> a) @@ (PC :> PcNext(vm)), <<>>, vm.slen)

(***************************************************************************)
(* Control flow (C25).  Jump targets are computed with saturating 64-bit   *)
(* arithmetic and must lie below the memory size.                          *)
(***************************************************************************)
SatAdd(a, b) == Sat64(BN!Add(a, b))
SatMul(a, b) == Sat64(BN!Mul(a, b))
\* mode: "abs" (relative to $is), "fwd", "bwd", "assign"
JumpTarget(vm, mode, dyn, fixed) ==
    CASE mode = "abs"    -> [ok |-> TRUE, t |-> SatAdd(R(vm, IS), SatMul(SatAdd(dyn, fixed), "4"))]
      [] mode = "fwd"    -> [ok |-> TRUE, t |-> SatAdd(R(vm, PC), SatMul(SatAdd(SatAdd(dyn, fixed), "1"), "4"))]
      [] mode = "bwd"    -> LET off == SatMul(SatAdd(SatAdd(dyn, fixed), "1"), "4") IN
                            IF BN!Lt(R(vm, PC), off) THEN [ok |-> FALSE, t |-> "0"] ELSE [ok |-> TRUE, t |-> BN!Sub(R(vm, PC), off)]
      [] mode = "assign" -> [ok |-> TRUE, t |-> SatAdd(dyn, SatMul(fixed, "4"))]
JumpEff(vm, gasName, cond, mode, dyn, fixed, extraSet, extraPan) ==
    IF ~cond THEN Eff(GasOf(vm, gasName), extraPan, (PC :> PcNext(vm)) @@ extraSet, <<>>, vm.slen)
    ELSE LET j == JumpTarget(vm, mode, dyn, fixed)
             bad == ~j.ok \/ ~BN!Lt(j.t, MemSizeBN)
         IN Eff(GasOf(vm, gasName), extraPan \cup (IF bad THEN {"MemoryOverflow"} ELSE {}), (PC :> j.t) @@ extraSet, <<>>, vm.slen)

FlowNames == {"JI","JNEI","JNZI","JMP","JNE","JMPF","JMPB","JNZF","JNZB","JNEF","JNEB","JAL"}
FlowEff(vm, n, w) ==
    LET a == R(vm, RA(w))  b == R(vm, RB(w))  c == R(vm, RC(w))
        i6 == BN!FromNat(Imm06(w))  i12 == BN!FromNat(Imm12(w))  i18 == BN!FromNat(Imm18(w))  i24 == BN!FromNat(Imm24(w))
        none == <<>>
    IN CASE n = "JI"   -> JumpEff(vm, "ji", TRUE, "abs", i24, "0", none, {})
         [] n = "JNEI" -> JumpEff(vm, "jnei", a # b, "abs", i12, "0", none, {})
         [] n = "JNZI" -> JumpEff(vm, "jnzi", a # "0", "abs", i18, "0", none, {})
         [] n = "JMP"  -> JumpEff(vm, "jmp", TRUE, "abs", a, "0", none, {})
         [] n = "JNE"  -> JumpEff(vm, "jne", a # b, "abs", c, "0", none, {})
         [] n = "JMPF" -> JumpEff(vm, "jmpf", TRUE, "fwd", a, i18, none, {})
         [] n = "JMPB" -> JumpEff(vm, "jmpb", TRUE, "bwd", a, i18, none, {})
         [] n = "JNZF" -> JumpEff(vm, "jnzf", a # "0", "fwd", b, i12, none, {})
         [] n = "JNZB" -> JumpEff(vm, "jnzb", a # "0", "bwd", b, i12, none, {})
         [] n = "JNEF" -> JumpEff(vm, "jnef", a # b, "fwd", c, i6, none, {})
         [] n = "JNEB" -> JumpEff(vm, "jneb", a # b, "bwd", c, i6, none, {})
         \* jump-and-link: the return address ($pc + 4) goes to rA ($zero discards it), target = rB + imm * 4
         \* (when the jump itself panics the link register may or may not have been written already: pmay)
         [] n = "JAL"  -> LET link == IF RA(w) = ZERO \/ ~Writable(RA(w)) THEN none ELSE (RA(w) :> PcNext(vm)) IN
                          [JumpEff(vm, "jmp", TRUE, "assign", b, i12, link,
                                   IF RA(w) # ZERO /\ ~Writable(RA(w)) THEN {"ReservedRegisterNotWritable"} ELSE {})
                           EXCEPT !.pmay = link]

(***************************************************************************)
(* Memory instructions (C23, C24).                                         *)
(* A write must lie in the current frame's stack [$ssp, $sp) or heap       *)
(* [$hp, caller's $hp).  Ranges are BigNat (start, length).                *)
(***************************************************************************)
PrevHp(vm) == IF Len(vm.frames) = 0 THEN MemSizeBN ELSE vm.frames[Len(vm.frames)].regs[HP]
OwnsStack(vm, a, n) == \/ (n = "0" /\ a = R(vm, SSP))
                       \/ (BN!Le(R(vm, SSP), a) /\ BN!Lt(a, R(vm, SP)) /\ BN!Le(BN!Add(a, n), R(vm, SP)))
OwnsHeap(vm, a, n)  == \/ (n = "0" /\ a = R(vm, HP))
                       \/ (BN!Le(R(vm, HP), a) /\ R(vm, HP) # PrevHp(vm) /\ BN!Le(BN!Add(a, n), PrevHp(vm)))
Owns(vm, a, n) == OwnsStack(vm, a, n) \/ OwnsHeap(vm, a, n)
WritePanics(vm, a, n) == IF ReadPanics(vm, a, n) # {} THEN ReadPanics(vm, a, n)
                         ELSE IF Owns(vm, a, n) THEN {} ELSE {"MemoryOwnership"}
\* two non-empty ranges of equal length n share a byte
Overlap(a, b, n) == n # "0" /\ BN!Lt(a, BN!Add(b, n)) /\ BN!Lt(b, BN!Add(a, n))
AddrOverflow(a) == BN!Lt(BN!Max64, a)                       \* address computation left the 64-bit range
MemRead(vm, a, n) == ReadBytes(vm.mem, BN!ToNat(a), BN!ToNat(n))    \* only when ReadPanics = {}
DestPan(r) == IF Writable(r) THEN {} ELSE {"ReservedRegisterNotWritable"}
StepPc(vm) == (PC :> PcNext(vm))

LoadEff(vm, w, size, gasName) ==
    LET a == BN!Add(R(vm, RB(w)), BN!FromNat(Imm12(w) * size))
        n == BN!FromNat(size)
        rp == IF AddrOverflow(a) THEN {"MemoryOverflow"} ELSE ReadPanics(vm, a, n)
    IN Eff(GasOf(vm, gasName), rp \cup DestPan(RA(w)),
           IF rp = {} THEN (RA(w) :> UnBE(MemRead(vm, a, n))) @@ StepPc(vm) ELSE <<>>, <<>>, vm.slen)
StoreEff(vm, w, size, gasName) ==
    LET a == BN!Add(R(vm, RA(w)), BN!FromNat(Imm12(w) * size))
        n == BN!FromNat(size)
        wp == IF AddrOverflow(a) THEN {"MemoryOverflow"} ELSE WritePanics(vm, a, n)
    IN Eff(GasOf(vm, gasName), wp, StepPc(vm),
           IF wp = {} THEN <<<<BN!ToNat(a), BEBig(R(vm, RB(w)), size)>>>> ELSE <<>>, vm.slen)
ClearEff(vm, a, n, gasName) ==
    LET wp == WritePanics(vm, a, n) IN
    Eff(Dep(GasOf(vm, gasName), n), wp, StepPc(vm), IF wp = {} /\ n # "0" THEN <<<<BN!ToNat(a), Zeros(BN!ToNat(n))>>>> ELSE <<>>, vm.slen)
CopyEff(vm, d, s0, n, gasName) ==
    LET pd == ReadPanics(vm, d, n)  ps == ReadPanics(vm, s0, n)
        pan == pd \cup ps \cup (IF pd = {} /\ ps = {} /\ Overlap(d, s0, n) THEN {"MemoryWriteOverlap"} ELSE {})
                  \cup (IF pd = {} /\ ~Owns(vm, d, n) THEN {"MemoryOwnership"} ELSE {})
    IN Eff(Dep(GasOf(vm, gasName), n), pan, StepPc(vm),
           IF pan = {} /\ n # "0" THEN <<<<BN!ToNat(d), MemRead(vm, s0, n)>>>> ELSE <<>>, vm.slen)
MeqEff(vm, w) ==
    LET b == R(vm, RB(w))  c == R(vm, RC(w))  n == R(vm, RD(w))
        pan == ReadPanics(vm, b, n) \cup ReadPanics(vm, c, n)
    IN Eff(Dep(GasOf(vm, "meq"), n), pan \cup DestPan(RA(w)),
           IF pan = {} THEN (RA(w) :> B2N(MemRead(vm, b, n) = MemRead(vm, c, n))) @@ StepPc(vm) ELSE <<>>, <<>>, vm.slen)

\* heap allocation: $hp moves down by n, the new bytes read zero, a stack extent above the new $hp is cut off
AlocEff(vm, w) ==
    LET n == R(vm, RA(w))
        tooBig == BN!Lt(R(vm, HP), n)
        newHp == IF tooBig THEN "0" ELSE BN!Sub(R(vm, HP), n)
        pan == IF tooBig THEN {"MemoryOverflow"} ELSE IF BN!Lt(newHp, R(vm, SP)) THEN {"MemoryGrowthOverlap"} ELSE {}
    IN Eff(Dep(GasOf(vm, "aloc"), n), pan, (HP :> newHp) @@ StepPc(vm),
           IF pan = {} /\ n # "0" THEN <<<<BN!ToNat(newHp), Zeros(BN!ToNat(n))>>>> ELSE <<>>,
           IF pan = {} /\ BN!ToNat(newHp) < vm.slen THEN BN!ToNat(newHp) ELSE vm.slen)
\* stack frame extension / shrinking
NewSpEff(vm, gas, newSp, pan0) ==
    LET pan == IF pan0 # {} THEN pan0
               ELSE IF BN!Lt(newSp, R(vm, SSP)) THEN {"MemoryOverflow"}
               ELSE IF BN!Lt(R(vm, HP), newSp) THEN {"MemoryGrowthOverlap"} ELSE {}
    IN Eff(gas, pan, (SP :> newSp) @@ StepPc(vm), <<>>,
           IF pan = {} /\ BN!ToNat(newSp) > vm.slen THEN BN!ToNat(newSp) ELSE vm.slen)
CfeEff(vm, n, gasName) == LET s == BN!Add(R(vm, SP), n) IN
    NewSpEff(vm, Dep(GasOf(vm, gasName), n), s, IF AddrOverflow(s) THEN {"MemoryOverflow"} ELSE {})
CfsEff(vm, n) == IF BN!Lt(R(vm, SP), n) THEN NewSpEff(vm, GasOf(vm, "cfsi"), "0", {"MemoryOverflow"})
                 ELSE NewSpEff(vm, GasOf(vm, "cfsi"), BN!Sub(R(vm, SP), n), {})

\* push / pop of selected registers: bit i of the 24-bit mask selects register base + i (base 16 low, 40 high)
MaskRegs(base, mask) == {base + i : i \in {j \in 0..23 : (mask \div (2 ^ j)) % 2 = 1}}
RECURSIVE RegsBytes(_, _, _)
RegsBytes(vm, rs, r) == IF r > 63 THEN "" ELSE (IF r \in rs THEN BEBig(R(vm, r), 8) ELSE "") \o RegsBytes(vm, rs, r + 1)
PushEff(vm, w, base, gasName) ==
    LET rs == MaskRegs(base, Imm24(w))
        n  == BN!FromNat(8 * Cardinality(rs))
        s  == Sat64(BN!Add(R(vm, SP), n))
        pan == IF BN!Lt(R(vm, HP), s) THEN {"MemoryGrowthOverlap"} ELSE {}
    IN Eff(GasOf(vm, gasName), pan, (SP :> s) @@ StepPc(vm),
           IF pan = {} /\ rs # {} THEN <<<<BN!ToNat(R(vm, SP)), RegsBytes(vm, rs, 0)>>>> ELSE <<>>,
           IF pan = {} /\ BN!ToNat(s) > vm.slen THEN BN!ToNat(s) ELSE vm.slen)
\* the k-th selected register (in increasing order) receives the k-th word
Rank(rs, r) == Cardinality({q \in rs : q < r})
PopEff(vm, w, base, gasName) ==
    LET rs == MaskRegs(base, Imm24(w))
        n  == BN!FromNat(8 * Cardinality(rs))
        under == BN!Lt(R(vm, SP), n)
        s  == IF under THEN "0" ELSE BN!Sub(R(vm, SP), n)
        pan == IF under \/ BN!Lt(s, R(vm, SSP)) THEN {"MemoryOverflow"} ELSE {}
    IN Eff(GasOf(vm, gasName), pan,
           IF pan = {} THEN [r \in rs |-> UnBE(ReadBytes(vm.mem, BN!ToNat(s) + 8 * Rank(rs, r), 8))] @@ (SP :> s) @@ StepPc(vm) ELSE <<>>,
           <<>>, vm.slen)

MemNames == {"LB","LQW","LHW","LW","SB","SQW","SHW","SW","MCL","MCLI","MCP","MCPI","MEQ","ALOC","CFEI","CFE","CFSI","CFS","PSHL","PSHH","POPL","POPH"}
MemEff(vm, n, w) ==
    CASE n = "LB" -> LoadEff(vm, w, 1, "lb") [] n = "LQW" -> LoadEff(vm, w, 2, "lw") [] n = "LHW" -> LoadEff(vm, w, 4, "lw")
      [] n = "LW" -> LoadEff(vm, w, 8, "lw")
      [] n = "SB" -> StoreEff(vm, w, 1, "sb") [] n = "SQW" -> StoreEff(vm, w, 2, "sw") [] n = "SHW" -> StoreEff(vm, w, 4, "sw")
      [] n = "SW" -> StoreEff(vm, w, 8, "sw")
      [] n = "MCL"  -> ClearEff(vm, R(vm, RA(w)), R(vm, RB(w)), "mcl")
      [] n = "MCLI" -> ClearEff(vm, R(vm, RA(w)), BN!FromNat(Imm18(w)), "mcli")
      [] n = "MCP"  -> CopyEff(vm, R(vm, RA(w)), R(vm, RB(w)), R(vm, RC(w)), "mcp")
      [] n = "MCPI" -> CopyEff(vm, R(vm, RA(w)), R(vm, RB(w)), BN!FromNat(Imm12(w)), "mcpi")
      [] n = "MEQ"  -> MeqEff(vm, w)
      [] n = "ALOC" -> AlocEff(vm, w)
      [] n = "CFEI" -> CfeEff(vm, BN!FromNat(Imm24(w)), "cfei")
      [] n = "CFE"  -> CfeEff(vm, R(vm, RA(w)), "cfe")
      [] n = "CFSI" -> CfsEff(vm, BN!FromNat(Imm24(w)))
      [] n = "CFS"  -> CfsEff(vm, R(vm, RA(w)))
      [] n = "PSHL" -> PushEff(vm, w, 16, "pshl") [] n = "PSHH" -> PushEff(vm, w, 40, "pshh")
      [] n = "POPL" -> PopEff(vm, w, 16, "popl") [] n = "POPH" -> PopEff(vm, w, 40, "poph")

(***************************************************************************)
(* Dispatch                                                                *)
(***************************************************************************)
EffectOf(vm, w) ==
    IF ~ValidWord(w) THEN Eff("0", {"InvalidInstruction"}, <<>>, <<>>, vm.slen)
    ELSE LET n == Mnemonic(w) IN
         IF n \in AluNames THEN AluEff(vm, n, w)
         ELSE IF n = "NOOP" THEN NoopEff(vm)
         ELSE IF n = "FLAG" THEN FlagEff(vm, w)
         ELSE IF n \in FlowNames THEN FlowEff(vm, n, w)
         ELSE IF n \in MemNames THEN MemEff(vm, n, w)
         ELSE Unmodelled

\* ---- gas charge applied to the register file ----
CanPay(vm, g) == BN!Le(g, R(vm, CGAS))
Charged(vm, g) == (CGAS :> BN!Sub(R(vm, CGAS), g)) @@ (GGAS :> BN!Sub(R(vm, GGAS), g))
OutOfGasRegs(vm) == (CGAS :> "0") @@ (GGAS :> BN!SatSub(R(vm, GGAS), R(vm, CGAS)))
WithRegs(vm, upd) == [r \in 0..63 |-> IF r \in DOMAIN upd THEN upd[r] ELSE vm.regs[r]]

\* successful completion of an exactly modelled instruction
OkRegs(vm, e) == WithRegs(vm, e.set @@ Charged(vm, e.gas))       \* an instruction never sets a gas register itself
OkMem(vm, e)  == ApplyWrites(vm.mem, e.wr, 1)

\* universal step obligations (hold for EVERY instruction, modelled or not) — C26, C29
GasMonotone(pre, post) == /\ BN!Le(post[GGAS], pre[GGAS])
                          /\ BN!Le(post[CGAS], post[GGAS])
ConstRegsKept(post) == post[ZERO] = "0" /\ post[ONE] = "1"
=============================================================================
