------------------------------- MODULE FuelVM -------------------------------
(***************************************************************************)
(* The FuelVM interpreter: dispatch of an instruction word to the effect   *)
(* defined by the instruction-family modules, and the application of an    *)
(* effect to the machine state.  See VmBase for the state and conventions. *)
(***************************************************************************)
EXTENDS VmBase, VmAlu, VmFlow, VmMem, VmCall, VmAssets, VmWide, VmContract, VmStorage, VmCrypto

(***************************************************************************)
(* Dispatch                                                                *)
(***************************************************************************)
EffectOf(vm, w) ==
    IF ~ValidWord(w) THEN Eff("0", {"InvalidInstruction"}, <<>>, <<>>, vm.slen)
    ELSE LET n == Mnemonic(w) IN
         IF n \in AluNames THEN AluEff(vm, n, w)
         ELSE IF n = "NOOP" THEN NoopEff(vm)
         ELSE IF n = "FLAG" THEN FlagEff(vm, w)
         ELSE IF n \in FlowNames THEN FlowEff(vm, n, w)
         ELSE IF n \in MemNames THEN MemEff(vm, n, w)
         ELSE IF n \in CallNames THEN CallFamEff(vm, n, w)
         ELSE IF n \in AssetNames THEN AssetEff(vm, n, w)
         ELSE IF n \in WideNames THEN WideEff(vm, n, w)
         ELSE IF n \in ContractNames THEN ContractEff(vm, n, w)
         ELSE IF n \in StorageNames THEN StorageEff(vm, n, w)
         ELSE IF n \in CryptoNames THEN CryptoEff(vm, n, w)
         ELSE Unmodelled

\* ---- gas charge applied to the register file ----
CanPay(vm, g) == BN!Le(g, R(vm, CGAS))
Charged(vm, g) == (CGAS :> BN!Sub(R(vm, CGAS), g)) @@ (GGAS :> BN!Sub(R(vm, GGAS), g))
OutOfGasRegs(vm) == (CGAS :> "0") @@ (GGAS :> BN!SatSub(R(vm, GGAS), R(vm, CGAS)))
WithRegs(vm, upd) == [r \in 0..63 |-> IF r \in DOMAIN upd THEN upd[r] ELSE vm.regs[r]]

\* Candidate effects of a word: when the word names $cgas / $ggas as a register operand the operand may have been read
\* before or after the instruction's own charge — both readings are admitted.
UsesGasReg(w) == {RA(w), RB(w), RC(w), RD(w)} \cap {GGAS, CGAS} # {}
Effs(vm, w) ==
    LET e0 == EffectOf(vm, w) IN
    CrBhshAlt(vm, w) \cup
    IF e0.x /\ ValidWord(w) /\ UsesGasReg(w) /\ CanPay(vm, e0.gas) /\ e0.gas # "0"
    THEN {e0, [EffectOf([vm EXCEPT !.opv = Charged(vm, e0.gas)], w) EXCEPT !.gas = e0.gas]}
    ELSE {e0}

\* successful completion of an exactly modelled instruction
OkRegs(vm, e) == WithRegs(vm, e.set @@ Charged(vm, e.gas))       \* an instruction never sets a gas register itself
OkMem(vm, e)  == ApplyWrites(vm.mem, e.wr, 1)
\* other fields of the vm record updated by the instruction (frames, contract balances, ...)
OkVm(vm, e) == [f \in DOMAIN vm |-> IF f \in DOMAIN e.upd THEN e.upd[f] ELSE vm[f]]

\* universal step obligations (hold for EVERY instruction, modelled or not) — C26, C29
GasMonotone(pre, post) == /\ BN!Le(post[GGAS], pre[GGAS])
                          /\ BN!Le(post[CGAS], post[GGAS])
ConstRegsKept(post) == post[ZERO] = "0" /\ post[ONE] = "1"
=============================================================================
