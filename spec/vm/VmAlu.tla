------------------------------- MODULE VmAlu -------------------------------
(* Register-level arithmetic / logic instructions (C21). *)
EXTENDS VmBase

(***************************************************************************)
(* ALU (C21)                                                               *)
(***************************************************************************)
\* result of a register-level arithmetic/logic operation: [pan, val, of, err]
Res(pan, val, of, err) == [pan |-> pan, val |-> val, of |-> of, err |-> err]
\* capture-overflow family: the true result x as a natural; $of = high 64 bits, value = low 64 bits
Capture(vm, x) == Res(IF BN!Lt(BN!Max64, x) /\ ~Wrapping(vm) THEN {"ArithmeticOverflow"} ELSE {}, Low64(x), High64(x), "0")
\* subtraction below zero is the 128-bit two's complement: value = (b - c) mod 2^64, $of = 2^64 - 1
SubRes(vm, b, c) == IF BN!Le(c, b) THEN Res({}, BN!Sub(b, c), "0", "0")
                    ELSE Res(IF Wrapping(vm) THEN {} ELSE {"ArithmeticOverflow"}, BN!Sub(BN!Add(b, BN!Two64), c), BN!Max64, "0")
\* boolean-overflow family: ovf tells whether the true result exceeds 64 bits
BoolOvf(vm, ovf, x) == Res(IF ovf /\ ~Wrapping(vm) THEN {"ArithmeticOverflow"} ELSE {}, IF ovf THEN "0" ELSE x, B2N(ovf), "0")
\* error family: bad tells whether the operation is undefined
ErrFam(vm, bad, x) == Res(IF bad /\ ~UnsafeMath(vm) THEN {"ArithmeticError"} ELSE {}, IF bad THEN "0" ELSE x, "0", B2N(bad))
SetFam(x) == Res({}, x, "0", "0")

\* b ^ c as a natural does not fit 64 bits?
PowOverflows(b, c) == IF BN!Lt(b, "2") THEN FALSE
                      ELSE IF BN!Lt("64", c) THEN TRUE ELSE BN!Lt(BN!Max64, BN!Pow(b, c))
PowVal(b, c) == IF b = "0" THEN (IF c = "0" THEN "1" ELSE "0") ELSE IF b = "1" THEN "1" ELSE BN!Pow(b, c)
ShiftL(b, c) == IF BN!Lt("63", c) THEN "0" ELSE Low64(BN!Shl(b, BN!ToNat(c)))
ShiftR(b, c) == IF BN!Lt("63", c) THEN "0" ELSE BN!Shr(b, BN!ToNat(c))
Not64(b) == BN!Sub(BN!Max64, b)
\* fused multiply-divide with a 128-bit intermediate; a zero divider means 2^64
MulDiv(vm, b, c, d) == LET q == BN!Div(BN!Mul(b, c), IF d = "0" THEN BN!Two64 ELSE d) IN
                       Res(IF BN!Lt(BN!Max64, q) /\ ~Wrapping(vm) THEN {"ArithmeticOverflow"} ELSE {}, Low64(q), High64(q), "0")

\* narrow-integer operations (NIOP): imm6 = op (bits 0..3) + width (bits 4..5)
NiopOpOf(imm) == imm % 16       \* 0 ADD, 1 SUB, 2 MUL, 3 EXP, 4 SLL, 5 XNOR
NiopWidthOf(imm) == imm \div 16 \* 0 -> 8 bits, 1 -> 16 bits, 2 -> 32 bits
NiopValid(imm) == NiopOpOf(imm) <= 5 /\ NiopWidthOf(imm) <= 2
NiopBits(imm) == IF NiopWidthOf(imm) = 0 THEN 8 ELSE IF NiopWidthOf(imm) = 1 THEN 16 ELSE 32
Niop(vm, b0, c0, imm) ==
    LET bits == NiopBits(imm)
        M    == BN!Shl("1", bits)                 \* 2^bits
        b    == BN!Mod(b0, M)
        c    == BN!Mod(c0, M)
        op   == NiopOpOf(imm)
        \* [val, of] of the exact operation on the truncated operands
        r == CASE op = 0 -> LET x == BN!Add(b, c) IN <<BN!Mod(x, M), BN!Shr(x, bits)>>
               [] op = 2 -> LET x == BN!Mul(b, c) IN <<BN!Mod(x, M), BN!Shr(x, bits)>>
               [] op = 3 -> IF (IF BN!Lt(b, "2") THEN FALSE ELSE IF BN!Lt("32", c) THEN TRUE ELSE ~BN!Lt(BN!Pow(b, c), M))
                            THEN <<"0", "1">> ELSE <<PowVal(b, c), "0">>
               [] op = 4 -> <<IF BN!Lt("63", c) THEN "0" ELSE BN!Mod(Low64(BN!Shl(b, BN!ToNat(c))), M), "0">>
               [] op = 5 -> <<BN!Mod(Not64(BN!Xor(b, c)), M), "0">>
               [] op = 1 -> IF BN!Le(c, b) THEN <<BN!Sub(b, c), "0">> ELSE <<BN!Sub(BN!Add(b, M), c), BN!Max64>>
    IN Res(IF r[2] # "0" /\ ~Wrapping(vm) THEN {"ArithmeticOverflow"} ELSE {}, r[1], r[2], "0")

AluNames == {"ADD","ADDI","AND","ANDI","DIV","DIVI","EQ","EXP","EXPI","GT","LT","MLOG","MOD","MODI","MOVE","MOVI",
             "MROO","MUL","MULI","MLDV","NIOP","NOT","OR","ORI","SLL","SLLI","SRL","SRLI","SUB","SUBI","XOR","XORI"}
\* the schedule entry charged by each ALU instruction
AluGas == [n \in AluNames |->
    CASE n = "ADD" -> "add" [] n = "ADDI" -> "addi" [] n = "AND" -> "and" [] n = "ANDI" -> "andi" [] n = "DIV" -> "div"
      [] n = "DIVI" -> "divi" [] n = "EQ" -> "eq" [] n = "EXP" -> "exp" [] n = "EXPI" -> "expi" [] n = "GT" -> "gt"
      [] n = "LT" -> "lt" [] n = "MLOG" -> "mlog" [] n = "MOD" -> "mod" [] n = "MODI" -> "modi" [] n = "MOVE" -> "move"
      [] n = "MOVI" -> "movi" [] n = "MROO" -> "mroo" [] n = "MUL" -> "mul" [] n = "MULI" -> "muli" [] n = "MLDV" -> "mldv"
      [] n = "NIOP" -> "niop" [] n = "NOT" -> "not" [] n = "OR" -> "or" [] n = "ORI" -> "ori" [] n = "SLL" -> "sll"
      [] n = "SLLI" -> "slli" [] n = "SRL" -> "srl" [] n = "SRLI" -> "srli" [] n = "SUB" -> "sub" [] n = "SUBI" -> "subi"
      [] n = "XOR" -> "xor" [] n = "XORI" -> "xori"]

AluRes(vm, n, w) ==
    LET b   == Ro(vm, RB(w))
        c   == Ro(vm, RC(w))
        i12 == BN!FromNat(Imm12(w))
    IN CASE n = "ADD"  -> Capture(vm, BN!Add(b, c))
         [] n = "ADDI" -> Capture(vm, BN!Add(b, i12))
         [] n = "MUL"  -> Capture(vm, BN!Mul(b, c))
         [] n = "MULI" -> Capture(vm, BN!Mul(b, i12))
         [] n = "SUB"  -> SubRes(vm, b, c)
         [] n = "SUBI" -> SubRes(vm, b, i12)
         [] n = "EXP"  -> BoolOvf(vm, PowOverflows(b, c), IF PowOverflows(b, c) THEN "0" ELSE PowVal(b, c))
         [] n = "EXPI" -> BoolOvf(vm, PowOverflows(b, i12), IF PowOverflows(b, i12) THEN "0" ELSE PowVal(b, i12))
         [] n = "DIV"  -> ErrFam(vm, c = "0", IF c = "0" THEN "0" ELSE BN!Div(b, c))
         [] n = "DIVI" -> ErrFam(vm, i12 = "0", IF i12 = "0" THEN "0" ELSE BN!Div(b, i12))
         [] n = "MOD"  -> ErrFam(vm, c = "0", IF c = "0" THEN "0" ELSE BN!Mod(b, c))
         [] n = "MODI" -> ErrFam(vm, i12 = "0", IF i12 = "0" THEN "0" ELSE BN!Mod(b, i12))
         [] n = "MLOG" -> LET bad == b = "0" \/ BN!Le(c, "1") IN ErrFam(vm, bad, IF bad THEN "0" ELSE BN!FloorLog(b, c))
         [] n = "MROO" -> ErrFam(vm, c = "0", IF c = "0" THEN "0"
                                               ELSE IF BN!Lt("64", c) THEN (IF BN!Lt(b, "2") THEN b ELSE "1") ELSE BN!FloorRoot(b, c))
         [] n = "AND"  -> SetFam(BN!And(b, c))
         [] n = "ANDI" -> SetFam(BN!And(b, i12))
         [] n = "OR"   -> SetFam(BN!Or(b, c))
         [] n = "ORI"  -> SetFam(BN!Or(b, i12))
         [] n = "XOR"  -> SetFam(BN!Xor(b, c))
         [] n = "XORI" -> SetFam(BN!Xor(b, i12))
         [] n = "NOT"  -> SetFam(Not64(b))
         [] n = "EQ"   -> SetFam(B2N(b = c))
         [] n = "GT"   -> SetFam(B2N(BN!Lt(c, b)))
         [] n = "LT"   -> SetFam(B2N(BN!Lt(b, c)))
         [] n = "MOVE" -> SetFam(b)
         [] n = "MOVI" -> SetFam(BN!FromNat(Imm18(w)))
         [] n = "SLL"  -> SetFam(ShiftL(b, c))
         [] n = "SLLI" -> SetFam(ShiftL(b, i12))
         [] n = "SRL"  -> SetFam(ShiftR(b, c))
         [] n = "SRLI" -> SetFam(ShiftR(b, i12))
         [] n = "MLDV" -> MulDiv(vm, b, c, Ro(vm, RD(w)))
         [] n = "NIOP" -> IF NiopValid(Imm06(w)) THEN Niop(vm, b, c, Imm06(w)) ELSE Res({"InvalidImmediateValue"}, "0", "0", "0")

AluEff(vm, n, w) ==
    LET r  == AluRes(vm, n, w)
        ra == RA(w)
    IN Eff(GasOf(vm, AluGas[n]),
           r.pan \cup (IF Writable(ra) THEN {} ELSE {"ReservedRegisterNotWritable"}),
           (ra :> r.val) @@ (OF :> r.of) @@ (ERR :> r.err) @@ (PC :> PcNext(vm)), <<>>, vm.slen)

NoopEff(vm) == Eff(GasOf(vm, "noop"), {}, (OF :> "0") @@ (ERR :> "0") @@ (PC :> PcNext(vm)), <<>>, vm.slen)
FlagEff(vm, w) == LET a == Ro(vm, RA(w)) IN
    Eff(GasOf(vm, "flag"), IF BN!Lt("3", a) THEN {"InvalidFlags"} ELSE {}, (FLAG :> a) @@ (PC :> PcNext(vm)), <<>>, vm.slen)
=============================================================================
