\* generated by work/mccalls/gen_cfg.py -- thorough tier: 34 words, depth 4, ample / tight / very tight gas
SPECIFICATION MCSpec
CONSTANTS
  MaxDepth = 4
  Gas0s = {"1000", "420", "260"}
  FwdGas = "400"
  \* CALL_A      2d414496  CALL r16 r20 r18 r22  call CA forwarding r20 of A0 and r22 gas
  \* CALL_B      2d4544d6  CALL r17 r20 r19 r22  call CB forwarding r20 of A1 (CB has no balance entry: storage gas)
  \* CALL_B0     2d44048a  CALL r17 $zero r18 $cgas  call CB, no coins, all gas ($cgas operand: both readings)
  \* CALL_X      2d5c0496  CALL r23 ...  CX is deployed but not an input contract
  \* CALL_A_BIG  2d415496  CALL r16 r21 ...  forwards more than any balance
  \* CALL_A_MA   2d414696  CALL r16 r20 r26 r22  forwards r20 of the minted asset MA
  \* TR_B        3c454480  TR r17 r20 r18  transfer r20 of A0 to CB
  \* TR_A1       3c4144c0  TR r16 r20 r19  transfer r20 of A1 to CA
  \* TR_X        3c5d4480  TR r23 ...  to CX (not an input)
  \* TR_B_MA     3c454680  TR r17 r20 r26  transfer r20 of MA to CB
  \* TRO         3d001512  TRO $zero $one r20 r18  r20 of A0 to the address at 0 through output 1 (Variable)
  \* TRO_A1      3d001513  TRO $zero $one r20 r19  same with A1
  \* TRO_CHG     3d000512  TRO $zero $zero ...  output 0 is the Change output: OutputNotFound
  \* MINT        35512000  MINT r20 r18  mint r20 of sub id zero
  \* BURN        2c512000  BURN r20 r18
  \* SMO         4c000014  SMO $zero $zero $zero r20  message with r20 base-asset coins, no data
  \* BAL_A       49612400  BAL r24 r18 r16  balance of CA in A0
  \* BAL_X       496125c0  BAL r24 r18 r23  CX: not an input
  \* RET         24040000  RET $one
  \* RETD        25019000  RETD $zero r25  16 bytes at address 0
  \* RVRT        36000000  RVRT $zero
  \* LOG         33506147  LOG r20 $fp $sp $hp
  \* MOVI_70     72500046  MOVI r20 70  amount above CA's balance, below the free balance
  \* MOVI_0      72500000  MOVI r20 0  amount zero
  \* ADD         10514500  ADD r20 r20 r20  double the amount
  \* FLAG_1      48040000  FLAG $one  set F_UNSAFEMATH (a callee must start with cleared flags)
  \* CFEI        91000010  CFEI 16  extend the stack frame
  \* SW_SSP      5f114000  SW $ssp r20 0  own stack (owned only after CFEI)
  \* SW_CALLER   5f414000  SW r16 r20 0  address 256: the script's data / the caller's stack
  \* SW_FP       5f194008  SW $fp r20 8  into the active call frame (saved registers)
  \* ALOC        26640000  ALOC r25  16 bytes of heap
  \* SW_HP       5f1d4000  SW $hp r20 0  heap: own allocation, or the caller's when nothing was allocated
  \* LW_SSP      5d604000  LW r24 $ssp 0
  \* LW_HP       5d607000  LW r24 $hp 0  heap read (a caller reading the callee's allocation)
  Alphabet = {"2d414496", "2d4544d6", "2d44048a", "2d5c0496", "2d415496", "2d414696", "3c454480", "3c4144c0", "3c5d4480", "3c454680", "3d001512", "3d001513", "3d000512", "35512000", "2c512000", "4c000014", "49612400", "496125c0", "24040000", "25019000", "36000000", "33506147", "72500046", "72500000", "10514500", "48040000", "91000010", "5f114000", "5f414000", "5f194008", "26640000", "5f1d4000", "5d604000", "5d607000"}
INVARIANTS TypeOk ConstRegs PcOk GasInv GasLedger Conserved NoOtherAsset FinalConserved ContextsAreInputs NonInputPanics FrameIntact FramesNested StackOrder ZeroOutside Observe
POSTCONDITION ReportWitnesses
PROPERTIES GasNeverUp ForwardBounded ChargeBoth ReceiptsMove MovesHaveReceipt TouchesInputsOnly PanicChangesNothing BalReadsInputs FramesStable CallStep RetStep TopReturn WritesOwned CallerStackUnchanged
CHECK_DEADLOCK FALSE
