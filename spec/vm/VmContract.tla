------------------------------ MODULE VmContract ------------------------------
(***************************************************************************)
(* Contract / blob instructions (C36 instruction level, C30):              *)
(*     BAL  CSIZ  CROO  CCP  LDC  BSIZ  BLDD                               *)
(* written from the FuelVM instruction-set specification and the storage   *)
(* read contract (module StorageRead).                                     *)
(*                                                                         *)
(* State used (fields of vm, built by the trace specification from the     *)
(* Init event):                                                            *)
(*   code    contract id (hex) -> byte code (hex)      (Init: contracts)   *)
(*   cbal    contract id -> (asset id -> balance)      (Init: contracts)   *)
(*   blobs   blob id (hex) -> blob bytes (hex)         (Init: blobs)       *)
(*   inputs  set of contract ids named by the transaction's contract       *)
(*           inputs                                    (Init: inputs)      *)
(*   frames  the call stack (a frame is active iff it is non-empty)        *)
(*   env.contract_max_size                                                 *)
(*                                                                         *)
(* C30 is built into the semantics: an instruction naming a contract that  *)
(* is not among the inputs has exactly ONE admissible outcome,             *)
(* ContractNotInInputs - in particular it may not answer ContractNotFound, *)
(* which would reveal whether the contract exists in storage.              *)
(*                                                                         *)
(* Gas: these instructions charge the base of their dependent cost first   *)
(* and the length-dependent part once the object's length is known.  The   *)
(* effect's `gas` is the total; a panic raised between the two charges     *)
(* leaves only the base charged, which is admitted through `gst` (partial  *)
(* charges that may have been applied when the instruction panics).        *)
(***************************************************************************)
EXTENDS VmBase
LOCAL SR == INSTANCE StorageRead
LOCAL CT == INSTANCE Contract WITH chain <- <<>>

CtIdLen == "32"
\* the 32-byte identifier at address a (only when ReadPanics(vm, a, CtIdLen) = {})
CtIdAt(vm, a) == MemRead(vm, a, CtIdLen)
CtHasCode(vm, id) == id \in DOMAIN vm.code
CtHasBlob(vm, id) == id \in DOMAIN vm.blobs
CtCodeOf(vm, id) == vm.code[id]
CtBlobOf(vm, id) == vm.blobs[id]
CtLen(h) == BN!FromNat(BLen(h))

\* what naming a contract may panic with: not an input -> ContractNotInInputs (and nothing else, C30);
\* an input that does not exist in storage -> ContractNotFound
CtContractPanics(vm, id) == IF id \notin vm.inputs THEN {"ContractNotInInputs"}
                          ELSE IF ~CtHasCode(vm, id) THEN {"ContractNotFound"} ELSE {}
CtBlobPanics(vm, id) == IF CtHasBlob(vm, id) THEN {} ELSE {"BlobNotFound"}

\* n bytes of `value` starting at the 64-bit offset `off`; bytes beyond the end of the value read as zero
CtSlice(value, off, n) ==
    IF BN!Lt(CtLen(value), off) THEN Zeros(n) ELSE SR!ZeroPaddedSlice(value, BN!ToNat(off), n)

\* ---- gas: base + length-dependent part ----
CtTotalGas(c, units) == BN!Add(c.base, DepNoBase(c, units))
\* effect of a two-stage-charged instruction; units = "?" when a panic hides the object's length (then only the base is known)
CtEff2(vm, c, units, pan, set, wr, slen) ==
    [Eff(IF units = "?" THEN c.base ELSE CtTotalGas(c, units), pan, set, wr, slen) EXCEPT !.gst = {c.base}]

CtPad8(n) == BN!Mul(BN!CeilDiv(n, "8"), "8")                  \* n rounded up to a multiple of 8 (exact, unbounded)

(***************************************************************************)
(* BAL  $rA = balance of asset MEM[$rB, 32] of contract MEM[$rC, 32]       *)
(***************************************************************************)
CtBalEff(vm, w) ==
    LET b == Ro(vm, RB(w))  c == Ro(vm, RC(w))
        rp == ReadPanics(vm, b, CtIdLen) \cup ReadPanics(vm, c, CtIdLen)
        cid == CtIdAt(vm, c)
        asset == CtIdAt(vm, b)
        cp == IF ReadPanics(vm, c, CtIdLen) = {} /\ cid \notin vm.inputs THEN {"ContractNotInInputs"} ELSE {}
        bal == IF cid \in DOMAIN vm.cbal /\ asset \in DOMAIN vm.cbal[cid] THEN vm.cbal[cid][asset] ELSE "0"
    IN Eff(GasOf(vm, "bal"), rp \cup cp \cup DestPan(RA(w)),
           IF rp = {} THEN (RA(w) :> bal) @@ StepPc(vm) ELSE <<>>, <<>>, vm.slen)

(***************************************************************************)
(* CSIZ  $rA = len(code(MEM[$rB, 32]))                                     *)
(***************************************************************************)
CtCsizEff(vm, w) ==
    LET b  == Ro(vm, RB(w))
        rp == ReadPanics(vm, b, CtIdLen)
        id == CtIdAt(vm, b)
        cp == IF rp = {} THEN CtContractPanics(vm, id) ELSE {}
        known == rp = {} /\ cp = {}
        len == IF known THEN CtLen(CtCodeOf(vm, id)) ELSE "?"
    IN CtEff2(vm, GasOf(vm, "csiz"), len, rp \cup cp \cup DestPan(RA(w)),
            IF known THEN (RA(w) :> len) @@ StepPc(vm) ELSE <<>>, <<>>, vm.slen)

(***************************************************************************)
(* CROO  MEM[$rA, 32] = code root of contract MEM[$rB, 32]                 *)
(***************************************************************************)
CtCrooEff(vm, w) ==
    LET a  == Ro(vm, RA(w))  b == Ro(vm, RB(w))
        wp == WritePanics(vm, a, CtIdLen)
        rp == ReadPanics(vm, b, CtIdLen)
        id == CtIdAt(vm, b)
        cp == IF rp = {} THEN CtContractPanics(vm, id) ELSE {}
        known == rp = {} /\ cp = {}
    IN CtEff2(vm, GasOf(vm, "croo"), IF known THEN CtLen(CtCodeOf(vm, id)) ELSE "?", wp \cup rp \cup cp, StepPc(vm),
            IF known /\ wp = {} THEN <<<<BN!ToNat(a), CT!CodeRoot(CtCodeOf(vm, id))>>>> ELSE <<>>, vm.slen)

(***************************************************************************)
(* CCP  MEM[$rA, $rD] = code(MEM[$rB, 32])[$rC, $rD], zero-filled beyond   *)
(* the end of the code                                                     *)
(***************************************************************************)
CtCcpEff(vm, w) ==
    LET a  == Ro(vm, RA(w))  b == Ro(vm, RB(w))  off == Ro(vm, RC(w))  n == Ro(vm, RD(w))
        wp == WritePanics(vm, a, n)
        rp == ReadPanics(vm, b, CtIdLen)
        id == CtIdAt(vm, b)
        cp == IF rp = {} THEN CtContractPanics(vm, id) ELSE {}
        known == rp = {} /\ cp = {}
    IN CtEff2(vm, GasOf(vm, "ccp"), IF known THEN BN!Max(CtLen(CtCodeOf(vm, id)), n) ELSE "?", wp \cup rp \cup cp, StepPc(vm),
            IF known /\ wp = {} /\ n # "0" THEN <<<<BN!ToNat(a), CtSlice(CtCodeOf(vm, id), off, BN!ToNat(n))>>>> ELSE <<>>,
            vm.slen)

(***************************************************************************)
(* BSIZ  $rA = len(blob(MEM[$rB, 32]))                                     *)
(* BLDD  MEM[$rA, $rD] = blob(MEM[$rB, 32])[$rC, $rD], zero-filled         *)
(***************************************************************************)
CtBsizEff(vm, w) ==
    LET b  == Ro(vm, RB(w))
        rp == ReadPanics(vm, b, CtIdLen)
        id == CtIdAt(vm, b)
        bp == IF rp = {} THEN CtBlobPanics(vm, id) ELSE {}
        known == rp = {} /\ bp = {}
        len == IF known THEN CtLen(CtBlobOf(vm, id)) ELSE "?"
    IN CtEff2(vm, GasOf(vm, "bsiz"), len, rp \cup bp \cup DestPan(RA(w)),
            IF known THEN (RA(w) :> len) @@ StepPc(vm) ELSE <<>>, <<>>, vm.slen)
CtBlddEff(vm, w) ==
    LET a  == Ro(vm, RA(w))  b == Ro(vm, RB(w))  off == Ro(vm, RC(w))  n == Ro(vm, RD(w))
        wp == WritePanics(vm, a, n)
        rp == ReadPanics(vm, b, CtIdLen)
        id == CtIdAt(vm, b)
        bp == IF rp = {} THEN CtBlobPanics(vm, id) ELSE {}
        known == rp = {} /\ bp = {}
    IN CtEff2(vm, GasOf(vm, "bldd"), IF known THEN BN!Max(CtLen(CtBlobOf(vm, id)), n) ELSE "?", wp \cup rp \cup bp, StepPc(vm),
            IF known /\ wp = {} /\ n # "0" THEN <<<<BN!ToNat(a), CtSlice(CtBlobOf(vm, id), off, BN!ToNat(n))>>>> ELSE <<>>,
            vm.slen)

(***************************************************************************)
(* LDC  append $rC bytes of an object to the stack at $ssp:                *)
(*   imm 0: code of contract MEM[$rA, 32] from offset $rB                  *)
(*   imm 1: blob MEM[$rA, 32] from offset $rB                              *)
(*   imm 2: memory MEM[$rA + $rB, $rC]                                     *)
(*   MEM[$ssp, $rC] = object[$rB, $rC] (zero beyond its end), followed by  *)
(*   zero padding up to the next multiple of 8; $ssp and $sp advance by    *)
(*   the padded length, and so does the code-size word of the active call  *)
(*   frame.  Only allowed with an empty stack frame ($ssp = $sp).          *)
(***************************************************************************)
CtCodeSizeOffset == 576                                        \* call frame: to (32) asset (32) registers (64 * 8) code size (8) ...
CtLdcEff(vm, w) ==
    LET a == Ro(vm, RA(w))  off == Ro(vm, RB(w))  n == Ro(vm, RC(w))  mode == Imm06(w)
        c     == GasOf(vm, "ldc")
        ssp   == R(vm, SSP)
        padded == CtPad8(n)
        newSp == BN!Add(ssp, padded)
        stackPan == IF ssp # R(vm, SP) THEN {"ExpectedUnallocatedStack"} ELSE {}
        growPan == IF BN!Lt(MemSizeBN, newSp) THEN {"MemoryOverflow"}
                   ELSE IF BN!Lt(R(vm, HP), newSp) THEN {"MemoryGrowthOverlap"} ELSE {}
        fits == growPan = {}
        nn == BN!ToNat(n)                                   \* only when fits
        padN == BN!ToNat(padded) - nn
        \* the extent of the stack once the new area is allocated
        slen2 == IF fits /\ BN!ToNat(newSp) > vm.slen THEN BN!ToNat(newSp) ELSE vm.slen
        \* the frame's code-size word
        csPtr == BN!Add(R(vm, FP), BN!FromNat(CtCodeSizeOffset))
        oldCs == UnBE(ReadBytes(vm.mem, BN!ToNat(csPtr), 8))
        newCs == BN!Add(CtPad8(oldCs), padded)
        csPan == IF InCall(vm) /\ BN!Lt(BN!Max64, newCs) THEN {"MemoryOverflow"} ELSE {}
        frameWr == IF InCall(vm) /\ csPan = {} THEN <<<<BN!ToNat(csPtr), BEBig(newCs, 8)>>>> ELSE <<>>
        done(pan, units, data) ==
            CtEff2(vm, c, units, pan, (SSP :> newSp) @@ (SP :> newSp) @@ StepPc(vm),
                 IF pan = {} THEN (IF data = "" THEN <<>> ELSE <<<<BN!ToNat(ssp), data>>>>) \o frameWr ELSE <<>>,
                 IF pan = {} THEN slen2 ELSE vm.slen)
        unitsOf(len) == BN!Min(BN!Max(len, padded), BN!Max64)
    IN IF mode > 2 THEN CtEff2(vm, c, "?", {"InvalidImmediateValue"}, <<>>, <<>>, vm.slen)
       ELSE IF mode = 0 THEN
            LET rp == ReadPanics(vm, a, CtIdLen)
                id == CtIdAt(vm, a)
                cp == IF rp = {} THEN CtContractPanics(vm, id) ELSE {}
                sizePan == IF BN!Lt(BN!Max64, padded) THEN {"MemoryOverflow"}
                           ELSE IF BN!Lt(vm.env.contract_max_size, padded) THEN {"ContractMaxSize"} ELSE {}
                known == rp = {} /\ cp = {}
                pan == stackPan \cup rp \cup cp \cup sizePan \cup growPan \cup csPan
            IN done(pan, IF known THEN unitsOf(CtLen(CtCodeOf(vm, id))) ELSE "?",
                    IF pan = {} THEN CtSlice(CtCodeOf(vm, id), off, nn) \o Zeros(padN) ELSE "")
       ELSE IF mode = 1 THEN
            LET rp == ReadPanics(vm, a, CtIdLen)
                id == CtIdAt(vm, a)
                bp == IF rp = {} THEN CtBlobPanics(vm, id) ELSE {}
                known == rp = {} /\ bp = {}
                pan == stackPan \cup rp \cup bp \cup growPan \cup csPan
            IN done(pan, IF known THEN unitsOf(CtLen(CtBlobOf(vm, id))) ELSE "?",
                    IF pan = {} THEN CtSlice(CtBlobOf(vm, id), off, nn) \o Zeros(padN) ELSE "")
       ELSE \* memory: nothing to do for a zero length; otherwise the source is read once the new area exists
            IF n = "0" THEN CtEff2(vm, c, "0", stackPan, StepPc(vm), <<>>, vm.slen)
            ELSE LET src == BN!Add(a, off)
                     v2  == [vm EXCEPT !.slen = slen2]
                     rp  == IF ~fits THEN {} ELSE IF AddrOverflow(src) THEN {"MemoryOverflow"} ELSE ReadPanics(v2, src, n)
                     op  == IF fits /\ rp = {} /\ Overlap(ssp, src, n) THEN {"MemoryWriteOverlap"} ELSE {}
                     pan == stackPan \cup growPan \cup rp \cup op \cup csPan
                 IN done(pan, BN!Min(padded, BN!Max64), IF pan = {} THEN MemRead(vm, src, n) \o Zeros(padN) ELSE "")

\* Instructions that are not allowed in a predicate (the specification's "contract instructions" other than LDC, which is
\* refused only for contract code): they panic with ContractInstructionNotAllowed before doing anything (C30).
PredicateForbiddenNames == {"BAL", "BHEI", "BHSH", "BURN", "CALL", "CB", "CCP", "CROO", "CSIZ", "LOG", "LOGD", "MINT", "RETD", "RVRT",
                            "SMO", "SCWQ", "SRW", "SRWQ", "SWW", "SWWQ", "TIME", "TR", "TRO",
                            "SCLR", "SRDD", "SRDI", "SWRD", "SWRI", "SUPD", "SUPI", "SPLD"}
PredicateForbidden(w) == ValidWord(w) /\ (Mnemonic(w) \in PredicateForbiddenNames \/ (Mnemonic(w) = "LDC" /\ Imm06(w) = 0))

ContractNames == {"BAL", "CSIZ", "CROO", "CCP", "LDC", "BSIZ", "BLDD"}
ContractEff(vm, n, w) ==
    CASE n = "BAL"  -> CtBalEff(vm, w)
      [] n = "CSIZ" -> CtCsizEff(vm, w)
      [] n = "CROO" -> CtCrooEff(vm, w)
      [] n = "CCP"  -> CtCcpEff(vm, w)
      [] n = "LDC"  -> CtLdcEff(vm, w)
      [] n = "BSIZ" -> CtBsizEff(vm, w)          \* (a schedule version without bsiz / bldd entries is not modelled: the
      [] n = "BLDD" -> CtBlddEff(vm, w)          \*  recorder then logs "undefined" and TLC stops with an error, not a verdict)
=============================================================================
