SPECIFICATION MCSpec
CONSTANTS
  MaxIn = 3
  Profile = "preds"
  EmitReplay = FALSE
INVARIANTS CacheSound AcceptedImpliesAuthorised AuthorisedImpliesAccepted SigPhaseSound VerdictOrderIndependent SequentialEqualsParallel EstimateThenVerifyOk EstimateOrderIndependent TamperRejected Emit
CHECK_DEADLOCK FALSE
