--------------------------- MODULE Lifecycle_Trace ---------------------------
(***************************************************************************)
(* impl -> spec for C35: a recorded history of REAL Create / Blob / Upload /*)
(* Upgrade transactions (arguments AND results AND the storage tables      *)
(* after every step) is judged event by event by Lifecycle!Apply.          *)
(*                                                                         *)
(* Every event must be explained: the checker verdict (`checked`) must be  *)
(* the validity the specification computes (RFC 6962 proof verification,   *)
(* blob id = hash of the data), success/failure must be Apply's, the       *)
(* tables after the step must be Apply's tables, and the whole storage     *)
(* changed iff the transaction succeeded.  A disagreement is a DIVERGENCE: *)
(* it is printed with a stable class (kind/rule/what) and the              *)
(* specification re-synchronises on the logged tables so that the rest of  *)
(* the history is still judged (several divergences per run are reported). *)
(* Lifecycle_TraceStrict.cfg turns any divergence into an invariant        *)
(* violation (used by the binding self-test).                              *)
(***************************************************************************)
EXTENDS Lifecycle, TraceIO, Json
VARIABLES l, div, maxSub
trVars == <<lc, last, l, div, maxSub>>
e == Rec[l]

TxOf(ev) ==
    CASE ev.k = "Create" -> [k |-> ev.k, id |-> ev.id, code |-> ev.code, slots |-> ev.slots]
      [] ev.k = "Blob" -> [k |-> ev.k, id |-> ev.id, data |-> ev.data]
      [] ev.k = "Upload" -> [k |-> ev.k, root |-> ev.root, idx |-> ev.idx, total |-> ev.total, bytes |-> ev.bytes, proof |-> ev.proof]
      [] ev.k = "UpgradeConsensusParameters" -> [k |-> ev.k, value |-> ev.value]
      [] ev.k = "UpgradeStateTransition" -> [k |-> ev.k, root |-> ev.root]
      [] ev.k \in EnvKinds -> [k |-> ev.k, v |-> ev.v]
ValidOf(tx) == CASE tx.k = "Upload" -> UploadValid(tx, maxSub)
                 [] tx.k = "Blob" -> BlobValid(tx)
                 [] OTHER -> TRUE

StateFrom(t, parts) == [contracts |-> t.contracts, blobs |-> t.blobs, uploads |-> t.uploads, cpv |-> t.cpv, stv |-> t.stv,
                        curCP |-> t.curCP, curST |-> t.curST, parts |-> parts]

TrInit == lc = InitState(Empty) /\ last = NoTx /\ l = 1 /\ div = 0 /\ maxSub = 0

TSeg == /\ IsEv(l, "Seg")
        /\ PartsOk(e.roots)                                   \* the declared parts hash to the declared roots (RFC 6962)
        /\ lc' = [InitState(e.roots) EXCEPT !.curCP = e.curCP, !.curST = e.curST]
        /\ e.tables = Proj(lc')
        /\ last' = NoTx /\ maxSub' = e.maxSubsections /\ UNCHANGED div

What(pOk, oOk, tablesAgree, changed) ==
    IF pOk /\ ~oOk THEN "rejected"
    ELSE IF ~pOk /\ oOk THEN "accepted"
    ELSE IF pOk /\ ~tablesAgree THEN "table-differs"
    ELSE IF ~pOk /\ (~tablesAgree \/ changed) THEN "table-changed"
    ELSE IF pOk /\ ~changed THEN "nothing-changed"
    ELSE "agree"

TTx == /\ IsEv(l, "Tx")
       /\ \E tx \in {TxOf(e)} : \E valid \in {ValidOf(tx)} : \E r \in {Apply(lc, tx, valid)} :
          \E pj \in {Proj(r.s)} :
          LET isTx   == tx.k \in TxKinds
              chk    == e.checked = valid
              agreeT == e.tables = pj
              what   == IF ~chk THEN (IF valid THEN "check-rejected" ELSE "check-accepted")
                        ELSE What(r.ok, e.ok, agreeT, isTx /\ e.changed)
              agree  == chk /\ (what = "agree" \/ (~isTx /\ agreeT))
              why    == IF ~chk THEN (IF valid THEN "valid" ELSE "invalid") ELSE r.why
          IN /\ last' = [tx |-> tx, ok |-> e.ok, why |-> r.why]
             /\ IF agree
                THEN lc' = r.s /\ div' = div
                ELSE /\ PrintT("DIVERGE" \o ToJson([l |-> l, class |-> tx.k \o "/" \o why \o "/" \o what,
                                                    expected |-> [checked |-> valid, ok |-> r.ok, why |-> r.why, tables |-> pj],
                                                    event |-> e]))
                     /\ lc' = StateFrom(e.tables, lc.parts)     \* re-synchronise on what the implementation holds
                     /\ div' = div + 1
       /\ UNCHANGED maxSub

TrNext == (TSeg \/ TTx) /\ l' = l + 1
TrSpec == TrInit /\ [][TrNext]_trVars
NoDivergence == div = 0
=============================================================================
