-------------------------------- MODULE VmOps --------------------------------
(***************************************************************************)
(* The FuelVM instruction table as data: opcode byte -> mnemonic and       *)
(* argument shape (R = 6-bit register, 6/I/J/K = 6/12/18/24-bit            *)
(* immediate), as laid out in the FuelVM instruction-set specification.    *)
(* Instruction word: 8 opcode bits, then the arguments packed from the     *)
(* most significant bit down, unused low bits zero.                        *)
(***************************************************************************)
EXTENDS Naturals, Sequences, TLC
LOCAL INSTANCE Hex
LOCAL BN == INSTANCE BigNat

OpTable ==
    (16 :> [n |-> "ADD", s |-> "RRR"]) @@
    (17 :> [n |-> "AND", s |-> "RRR"]) @@
    (18 :> [n |-> "DIV", s |-> "RRR"]) @@
    (19 :> [n |-> "EQ", s |-> "RRR"]) @@
    (20 :> [n |-> "EXP", s |-> "RRR"]) @@
    (21 :> [n |-> "GT", s |-> "RRR"]) @@
    (22 :> [n |-> "LT", s |-> "RRR"]) @@
    (23 :> [n |-> "MLOG", s |-> "RRR"]) @@
    (24 :> [n |-> "MROO", s |-> "RRR"]) @@
    (25 :> [n |-> "MOD", s |-> "RRR"]) @@
    (26 :> [n |-> "MOVE", s |-> "RR"]) @@
    (27 :> [n |-> "MUL", s |-> "RRR"]) @@
    (28 :> [n |-> "NOT", s |-> "RR"]) @@
    (29 :> [n |-> "OR", s |-> "RRR"]) @@
    (30 :> [n |-> "SLL", s |-> "RRR"]) @@
    (31 :> [n |-> "SRL", s |-> "RRR"]) @@
    (32 :> [n |-> "SUB", s |-> "RRR"]) @@
    (33 :> [n |-> "XOR", s |-> "RRR"]) @@
    (34 :> [n |-> "MLDV", s |-> "RRRR"]) @@
    (35 :> [n |-> "NIOP", s |-> "RRR6"]) @@
    (36 :> [n |-> "RET", s |-> "R"]) @@
    (37 :> [n |-> "RETD", s |-> "RR"]) @@
    (38 :> [n |-> "ALOC", s |-> "R"]) @@
    (39 :> [n |-> "MCL", s |-> "RR"]) @@
    (40 :> [n |-> "MCP", s |-> "RRR"]) @@
    (41 :> [n |-> "MEQ", s |-> "RRRR"]) @@
    (42 :> [n |-> "BHSH", s |-> "RR"]) @@
    (43 :> [n |-> "BHEI", s |-> "R"]) @@
    (44 :> [n |-> "BURN", s |-> "RR"]) @@
    (45 :> [n |-> "CALL", s |-> "RRRR"]) @@
    (46 :> [n |-> "CCP", s |-> "RRRR"]) @@
    (47 :> [n |-> "CROO", s |-> "RR"]) @@
    (48 :> [n |-> "CSIZ", s |-> "RR"]) @@
    (49 :> [n |-> "CB", s |-> "R"]) @@
    (50 :> [n |-> "LDC", s |-> "RRR6"]) @@
    (51 :> [n |-> "LOG", s |-> "RRRR"]) @@
    (52 :> [n |-> "LOGD", s |-> "RRRR"]) @@
    (53 :> [n |-> "MINT", s |-> "RR"]) @@
    (54 :> [n |-> "RVRT", s |-> "R"]) @@
    (55 :> [n |-> "SCWQ", s |-> "RRR"]) @@
    (56 :> [n |-> "SRW", s |-> "RRR6"]) @@
    (57 :> [n |-> "SRWQ", s |-> "RRRR"]) @@
    (58 :> [n |-> "SWW", s |-> "RRR"]) @@
    (59 :> [n |-> "SWWQ", s |-> "RRRR"]) @@
    (60 :> [n |-> "TR", s |-> "RRR"]) @@
    (61 :> [n |-> "TRO", s |-> "RRRR"]) @@
    (62 :> [n |-> "ECK1", s |-> "RRR"]) @@
    (63 :> [n |-> "ECR1", s |-> "RRR"]) @@
    (64 :> [n |-> "ED19", s |-> "RRRR"]) @@
    (65 :> [n |-> "K256", s |-> "RRR"]) @@
    (66 :> [n |-> "S256", s |-> "RRR"]) @@
    (67 :> [n |-> "TIME", s |-> "RR"]) @@
    (71 :> [n |-> "NOOP", s |-> ""]) @@
    (72 :> [n |-> "FLAG", s |-> "R"]) @@
    (73 :> [n |-> "BAL", s |-> "RRR"]) @@
    (74 :> [n |-> "JMP", s |-> "R"]) @@
    (75 :> [n |-> "JNE", s |-> "RRR"]) @@
    (76 :> [n |-> "SMO", s |-> "RRRR"]) @@
    (80 :> [n |-> "ADDI", s |-> "RRI"]) @@
    (81 :> [n |-> "ANDI", s |-> "RRI"]) @@
    (82 :> [n |-> "DIVI", s |-> "RRI"]) @@
    (83 :> [n |-> "EXPI", s |-> "RRI"]) @@
    (84 :> [n |-> "MODI", s |-> "RRI"]) @@
    (85 :> [n |-> "MULI", s |-> "RRI"]) @@
    (86 :> [n |-> "ORI", s |-> "RRI"]) @@
    (87 :> [n |-> "SLLI", s |-> "RRI"]) @@
    (88 :> [n |-> "SRLI", s |-> "RRI"]) @@
    (89 :> [n |-> "SUBI", s |-> "RRI"]) @@
    (90 :> [n |-> "XORI", s |-> "RRI"]) @@
    (91 :> [n |-> "JNEI", s |-> "RRI"]) @@
    (92 :> [n |-> "LB", s |-> "RRI"]) @@
    (93 :> [n |-> "LW", s |-> "RRI"]) @@
    (94 :> [n |-> "SB", s |-> "RRI"]) @@
    (95 :> [n |-> "SW", s |-> "RRI"]) @@
    (96 :> [n |-> "MCPI", s |-> "RRI"]) @@
    (97 :> [n |-> "GTF", s |-> "RRI"]) @@
    (98 :> [n |-> "LQW", s |-> "RRI"]) @@
    (99 :> [n |-> "LHW", s |-> "RRI"]) @@
    (100 :> [n |-> "SQW", s |-> "RRI"]) @@
    (101 :> [n |-> "SHW", s |-> "RRI"]) @@
    (112 :> [n |-> "MCLI", s |-> "RJ"]) @@
    (113 :> [n |-> "GM", s |-> "RJ"]) @@
    (114 :> [n |-> "MOVI", s |-> "RJ"]) @@
    (115 :> [n |-> "JNZI", s |-> "RJ"]) @@
    (116 :> [n |-> "JMPF", s |-> "RJ"]) @@
    (117 :> [n |-> "JMPB", s |-> "RJ"]) @@
    (118 :> [n |-> "JNZF", s |-> "RRI"]) @@
    (119 :> [n |-> "JNZB", s |-> "RRI"]) @@
    (120 :> [n |-> "JNEF", s |-> "RRR6"]) @@
    (121 :> [n |-> "JNEB", s |-> "RRR6"]) @@
    (144 :> [n |-> "JI", s |-> "K"]) @@
    (145 :> [n |-> "CFEI", s |-> "K"]) @@
    (146 :> [n |-> "CFSI", s |-> "K"]) @@
    (147 :> [n |-> "CFE", s |-> "R"]) @@
    (148 :> [n |-> "CFS", s |-> "R"]) @@
    (149 :> [n |-> "PSHL", s |-> "K"]) @@
    (150 :> [n |-> "PSHH", s |-> "K"]) @@
    (151 :> [n |-> "POPL", s |-> "K"]) @@
    (152 :> [n |-> "POPH", s |-> "K"]) @@
    (153 :> [n |-> "JAL", s |-> "RRI"]) @@
    (160 :> [n |-> "WDCM", s |-> "RRR6"]) @@
    (161 :> [n |-> "WQCM", s |-> "RRR6"]) @@
    (162 :> [n |-> "WDOP", s |-> "RRR6"]) @@
    (163 :> [n |-> "WQOP", s |-> "RRR6"]) @@
    (164 :> [n |-> "WDML", s |-> "RRR6"]) @@
    (165 :> [n |-> "WQML", s |-> "RRR6"]) @@
    (166 :> [n |-> "WDDV", s |-> "RRR6"]) @@
    (167 :> [n |-> "WQDV", s |-> "RRR6"]) @@
    (168 :> [n |-> "WDMD", s |-> "RRRR"]) @@
    (169 :> [n |-> "WQMD", s |-> "RRRR"]) @@
    (170 :> [n |-> "WDAM", s |-> "RRRR"]) @@
    (171 :> [n |-> "WQAM", s |-> "RRRR"]) @@
    (172 :> [n |-> "WDMM", s |-> "RRRR"]) @@
    (173 :> [n |-> "WQMM", s |-> "RRRR"]) @@
    (176 :> [n |-> "ECAL", s |-> "RRRR"]) @@
    (186 :> [n |-> "BSIZ", s |-> "RR"]) @@
    (187 :> [n |-> "BLDD", s |-> "RRRR"]) @@
    (188 :> [n |-> "ECOP", s |-> "RRRR"]) @@
    (190 :> [n |-> "EPAR", s |-> "RRRR"]) @@
    (192 :> [n |-> "SCLR", s |-> "RR"]) @@
    (193 :> [n |-> "SRDD", s |-> "RRRR"]) @@
    (194 :> [n |-> "SRDI", s |-> "RRR6"]) @@
    (195 :> [n |-> "SWRD", s |-> "RRR"]) @@
    (196 :> [n |-> "SWRI", s |-> "RRI"]) @@
    (197 :> [n |-> "SUPD", s |-> "RRRR"]) @@
    (198 :> [n |-> "SUPI", s |-> "RRR6"]) @@
    (199 :> [n |-> "SPLD", s |-> "RR"])

Defined(b) == b \in DOMAIN OpTable
\* w: instruction word as 8 hex digits
OpByte(w) == UnBENat(SubSeq(w, 1, 2))
Args24(w) == UnBENat(SubSeq(w, 3, 8))
RA(w) == Args24(w) \div 262144
RB(w) == (Args24(w) \div 4096) % 64
RC(w) == (Args24(w) \div 64) % 64
RD(w) == Args24(w) % 64
Imm06(w) == Args24(w) % 64
Imm12(w) == Args24(w) % 4096
Imm18(w) == Args24(w) % 262144
Imm24(w) == Args24(w)
Mnemonic(w) == IF Defined(OpByte(w)) THEN OpTable[OpByte(w)].n ELSE "?"
Shape(w) == OpTable[OpByte(w)].s
\* bits of the 24 argument bits actually used by a shape
UsedBits(s) == IF s = "" THEN 0 ELSE IF s = "R" THEN 6 ELSE IF s = "RR" THEN 12 ELSE IF s = "RRR" THEN 18
               ELSE IF s \in {"RRRR", "RRR6", "RRI", "RJ", "K"} THEN 24 ELSE 24
ReservedZero(w) == Args24(w) % (2 ^ (24 - UsedBits(Shape(w)))) = 0
ValidWord(w) == Defined(OpByte(w)) /\ ReservedZero(w)
=============================================================================
