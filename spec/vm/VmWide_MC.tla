------------------------------ MODULE VmWide_MC ------------------------------
(***************************************************************************)
(* Leg M for the wide-integer instructions (C22): a finite design-level    *)
(* model.  Operands from a boundary grid are placed in a tiny VM's owned   *)
(* stack frame; any instruction of an alphabet that covers every family,   *)
(* every operation / compare mode, both argument modes, invalid            *)
(* immediates, reserved / unowned / overlapping destinations is executed   *)
(* through the SAME effect operators the trace specification uses          *)
(* (EffectOf -> WideEff).  TLC checks on every step                        *)
(*   WideLaw      a SECOND, relational formulation of the instruction set  *)
(*                text: the alphabet is built by ENCODING (operation,      *)
(*                argument modes) into immediates, and results are         *)
(*                characterised by defining (in)equalities over exact      *)
(*                naturals (q*c <= b < (q+1)*c, x + k*M = b*c, 2^(n-1-z)   *)
(*                <= b < 2^(n-z), ...) instead of being computed;          *)
(*                an instruction completes iff the immediate is valid,     *)
(*                the destination is owned / writable and the flags        *)
(*                permit the overflow / undefined result;                  *)
(*   Frame        only the destination bytes (or register) change; $pc     *)
(*                advances by 4; the schedule entry of THIS instruction is *)
(*                charged; $of, $err are 0 or 1;                           *)
(*   GasInv, ConstRegs, StackOrder, ZeroOutside  as for the other families.*)
(***************************************************************************)
EXTENDS FuelVM
CONSTANTS Grid,        \* 0 = small operand grid (quick), 1 = large
          MaxDepth

\* every wide instruction has its own price so that charging the wrong entry is visible
Schedule == [wdcm |-> "1", wqcm |-> "2", wdop |-> "3", wqop |-> "4", wdml |-> "5", wqml |-> "6", wddv |-> "7", wqdv |-> "8",
             wdmd |-> "9", wqmd |-> "10", wdam |-> "11", wqam |-> "12", wdmm |-> "13", wqmm |-> "14"]
Env0 == [gas |-> Schedule, tx_offset |-> 32]

\* ---- operand grid: 32-byte big-endian values whose upper 16 bytes (what a 128-bit instruction reads) are boundary values too
H0 == Zeros(16)  H1 == Zeros(15) \o "01"  HF == "ffffffffffffffffffffffffffffffff"  HT == "80" \o Zeros(15)
HM == Zeros(7) \o "01" \o Zeros(7) \o "01"                   \* 2^64 + 1
HL == Zeros(8) \o "ffffffffffffffff"                         \* 2^64 - 1
ValsSmall == {H0 \o H0, HF \o HF, HM \o HL}
ValsLarge == ValsSmall \cup {H0 \o H1, H1 \o H0, HT \o H0, HL \o HM}
Vals == IF Grid = 0 THEN ValsSmall ELSE ValsLarge
DVals == IF Grid = 0 THEN {H0 \o H0, H0 \o H1, HF \o HF} ELSE {H0 \o H0, H0 \o H1, HF \o HF, HM \o HL}

\* ---- layout: stack frame [128, 384) owned, bytes [0, 128) accessible but not owned, no heap
AB == 128  AC == 192  AD == 256  AX == 320
RDst == 16  RB_ == 17  RC_ == 18  RD_ == 19  RUnowned == 20  ROne == 21  RMax == 22  RCmp == 23  R64 == 24  R255 == 25  RBad == 26
Regs0(flag) == [r \in 0..63 |->
    IF r = ONE THEN "1" ELSE IF r = HP THEN MemSizeBN ELSE IF r = SSP THEN "128" ELSE IF r = SP THEN "384"
    ELSE IF r \in {PC, IS} THEN "64" ELSE IF r \in {GGAS, CGAS} THEN "1000" ELSE IF r = FLAG THEN BN!FromNat(flag)
    ELSE IF r = RDst THEN "320" ELSE IF r = RB_ THEN "128" ELSE IF r = RC_ THEN "192" ELSE IF r = RD_ THEN "256"
    ELSE IF r = RUnowned THEN "0" ELSE IF r = ROne THEN "1" ELSE IF r = RMax THEN BN!Max64 ELSE IF r = RCmp THEN "7"
    ELSE IF r = R64 THEN "64" ELSE IF r = R255 THEN "255" ELSE IF r = RBad THEN "67108860" ELSE "0"]

(***************************************************************************)
(* The alphabet, by ENCODING.  An entry names the instruction, its         *)
(* meaning (sem), where each operand comes from and what the destination   *)
(* is; the word is assembled from the instruction-set tables.              *)
(***************************************************************************)
OpByteOf(n) == CHOOSE b \in DOMAIN OpTable : OpTable[b].n = n
Word4(n, a, b, c, d) == BE(OpByteOf(n), 1) \o BE(a * 262144 + b * 4096 + c * 64 + d, 3)
CmpModes == <<"eq", "ne", "lt", "gt", "lte", "gte", "lzc">>          \* mode number = index - 1
MathOps  == <<"add", "sub", "not", "or", "xor", "and", "shl", "shr">> \* operation number = index - 1
IndirectBit == 32       \* X..... : rhs is a pointer
LhsIndirectBit == 16    \* .X.... : lhs is a pointer (multiply only)
Mem(r) == <<"mem", r>>
Reg(r) == <<"reg", r>>
NoOp == <<"none", 0>>
Entry(n, sem, a, b, c, d, imm, dst, valid) ==
    [n |-> n, sem |-> sem, ra |-> a, b |-> b, c |-> c, d |-> d, dst |-> dst, valid |-> valid,
     w |-> Word4(n, a, b[2], c[2], IF d[1] = "none" THEN imm ELSE d[2])]

CmpEntries(n) ==
    {Entry(n, CmpModes[m], RCmp, Mem(RB_), Reg(r), NoOp, m - 1, "reg", TRUE) : m \in 1..7, r \in {ROne, RMax}}
    \cup {Entry(n, CmpModes[m], RCmp, Mem(RB_), Mem(RC_), NoOp, m - 1 + IndirectBit, "reg", TRUE) : m \in 1..7}
    \cup {Entry(n, "eq", RCmp, Mem(RB_), Reg(ROne), NoOp, imm, "reg", FALSE) : imm \in {7, 8, 16, 39, 63}}
    \cup {Entry(n, "eq", r, Mem(RB_), Reg(ROne), NoOp, 0, "reserved", TRUE) : r \in {ZERO, OF, HP, FLAG}}
    \cup {Entry(n, "lt", RCmp, Mem(RBad), Reg(ROne), NoOp, 2, "badread", TRUE)}
OpEntries(n) ==
    {Entry(n, MathOps[o], RDst, Mem(RB_), Reg(r), NoOp, o - 1, "own", TRUE) : o \in 1..8, r \in {ROne, RMax, R64, R255}}
    \cup {Entry(n, MathOps[o], RDst, Mem(RB_), Mem(RC_), NoOp, o - 1 + IndirectBit, "own", TRUE) : o \in 1..8}
    \cup {Entry(n, "add", RDst, Mem(RB_), Reg(ROne), NoOp, imm, "own", FALSE) : imm \in {8, 16, 24, 40, 63}}
    \cup {Entry(n, "xor", RUnowned, Mem(RB_), Mem(RC_), NoOp, 4 + IndirectBit, "unowned", TRUE)}
    \cup {Entry(n, "sub", RB_, Mem(RB_), Mem(RC_), NoOp, 1 + IndirectBit, "own", TRUE)}          \* destination = lhs operand
    \cup {Entry(n, "add", RDst, Mem(RB_), Mem(RBad), NoOp, IndirectBit, "badread", TRUE)}
MulEntries(n) ==
    {Entry(n, "mul", RDst, Reg(ROne), Reg(RMax), NoOp, 0, "own", TRUE),
     Entry(n, "mul", RDst, Reg(RMax), Reg(RMax), NoOp, 0, "own", TRUE),
     Entry(n, "mul", RDst, Mem(RB_), Reg(RMax), NoOp, LhsIndirectBit, "own", TRUE),
     Entry(n, "mul", RDst, Reg(R255), Mem(RC_), NoOp, IndirectBit, "own", TRUE),
     Entry(n, "mul", RDst, Mem(RB_), Mem(RC_), NoOp, LhsIndirectBit + IndirectBit, "own", TRUE),
     Entry(n, "mul", RC_, Mem(RB_), Mem(RC_), NoOp, LhsIndirectBit + IndirectBit, "own", TRUE),
     Entry(n, "mul", RUnowned, Mem(RB_), Mem(RC_), NoOp, LhsIndirectBit + IndirectBit, "unowned", TRUE)}
    \cup {Entry(n, "mul", RDst, Mem(RB_), Mem(RC_), NoOp, imm, "own", FALSE) : imm \in {1, 8, 49, 63}}
DivEntries(n) ==
    {Entry(n, "div", RDst, Mem(RB_), Reg(r), NoOp, 0, "own", TRUE) : r \in {ZERO, ROne, RMax, R255}}
    \cup {Entry(n, "div", RDst, Mem(RB_), Mem(RC_), NoOp, IndirectBit, "own", TRUE),
          Entry(n, "div", RUnowned, Mem(RB_), Mem(RC_), NoOp, IndirectBit, "unowned", TRUE)}
    \cup {Entry(n, "div", RDst, Mem(RB_), Mem(RC_), NoOp, imm, "own", FALSE) : imm \in {1, 16, 33, 63}}
FourEntries(n, sem) ==
    {Entry(n, sem, RDst, Mem(RB_), Mem(RC_), Mem(RD_), 0, "own", TRUE),
     Entry(n, sem, RD_, Mem(RB_), Mem(RC_), Mem(RD_), 0, "own", TRUE),                      \* destination = third operand
     Entry(n, sem, RDst, Mem(RB_), Mem(RB_), Mem(RC_), 0, "own", TRUE),                     \* square, other modulus
     Entry(n, sem, RUnowned, Mem(RB_), Mem(RC_), Mem(RD_), 0, "unowned", TRUE),
     Entry(n, sem, RDst, Mem(RB_), Mem(RC_), Mem(RBad), 0, "badread", TRUE)}
Alphabet ==
    CmpEntries("WDCM") \cup CmpEntries("WQCM") \cup OpEntries("WDOP") \cup OpEntries("WQOP") \cup MulEntries("WDML") \cup MulEntries("WQML")
    \cup DivEntries("WDDV") \cup DivEntries("WQDV") \cup FourEntries("WDMD", "muldiv") \cup FourEntries("WQMD", "muldiv")
    \cup FourEntries("WDAM", "addmod") \cup FourEntries("WQAM", "addmod") \cup FourEntries("WDMM", "mulmod") \cup FourEntries("WQMM", "mulmod")

VARIABLES vm, pre, last, depth, halted
mcVars == <<vm, pre, last, depth, halted>>
NoEntry == [n |-> "none"]

MCInit ==
    /\ \E b \in Vals, c \in Vals, d \in DVals, flag \in 0..3 :
          vm = [regs |-> Regs0(flag), mem |-> WriteBytes(WriteBytes(WriteBytes((0 :> ("aa" \o Zeros(63))), AB, b), AC, c), AD, d),
                slen |-> 384, env |-> Env0, frames |-> <<>>, code |-> <<>>, cbal |-> <<>>, inputs |-> {}, nrc |-> 0, opv |-> <<>>]
    /\ pre = vm /\ last = NoEntry /\ depth = 0 /\ halted = FALSE

Exec(en) ==
    LET eff == EffectOf(vm, en.w) IN
    /\ eff.x
    /\ IF ~CanPay(vm, eff.gas)
       THEN vm' = [vm EXCEPT !.regs = WithRegs(vm, OutOfGasRegs(vm))] /\ halted' = TRUE
       ELSE IF eff.pan # {}
       THEN vm' = [vm EXCEPT !.regs = WithRegs(vm, Charged(vm, eff.gas))] /\ halted' = TRUE
       ELSE vm' = [vm EXCEPT !.regs = OkRegs(vm, eff), !.mem = OkMem(vm, eff), !.slen = eff.slen] /\ halted' = FALSE
    /\ pre' = vm /\ last' = en
    /\ depth' = depth + 1
Step == ~halted /\ depth < MaxDepth /\ \E en \in Alphabet : Exec(en)
MCNext == Step
MCSpec == MCInit /\ [][MCNext]_mcVars

(***************************************************************************)
(* The relational formulation                                              *)
(***************************************************************************)
WidthOf(n) == IF SubSeq(n, 2, 2) = "D" THEN 16 ELSE 32          \* W D.. = double word (128 bit), W Q.. = quad word (256 bit)
OperandOf(v, src, W) == IF src[1] = "mem" THEN UnBE(ReadBytes(v.mem, BN!ToNat(v.regs[src[2]]), W))
                        ELSE IF src[1] = "reg" THEN v.regs[src[2]] ELSE "0"
Between(lo, x, hi) == BN!Le(lo, x) /\ BN!Lt(x, hi)                \* lo <= x < hi
\* does the true result need more than `bits` bits / is it undefined
TrueOverflow(sem, b, c, d, M) ==
    CASE sem = "add" -> BN!Le(M, BN!Add(b, c))
      [] sem = "sub" -> BN!Lt(b, c)
      [] sem = "mul" -> BN!Le(M, BN!Mul(b, c))
      [] sem = "muldiv" -> BN!Le(BN!Mul(M, IF d = "0" THEN M ELSE d), BN!Mul(b, c))
      [] OTHER -> FALSE
Undefined(sem, c, d) == (sem = "div" /\ c = "0") \/ (sem \in {"addmod", "mulmod"} /\ d = "0")
\* x is what the instruction stored; of / err are the booleans the flag registers hold afterwards
Relation(sem, b, c, d, x, of, err, bits) ==
    LET M  == BN!Pow("2", BN!FromNat(bits))
        k2 == IF BN!Lt(c, BN!FromNat(bits)) THEN BN!Pow("2", c) ELSE "0"     \* 2^c for an in-range shift amount
    IN /\ BN!Lt(x, M)
       /\ CASE sem = "add" -> BN!Add(x, IF of THEN M ELSE "0") = BN!Add(b, c) /\ ~err
            [] sem = "sub" -> BN!Add(x, c) = BN!Add(b, IF of THEN M ELSE "0") /\ ~err
            [] sem = "not" -> BN!Add(x, b) = BN!Sub(M, "1") /\ ~of /\ ~err
            [] sem = "or"  -> x = BN!Add(BN!Xor(b, c), BN!And(b, c)) /\ ~of /\ ~err
            [] sem = "xor" -> BN!Add(x, BN!Mul("2", BN!And(b, c))) = BN!Add(b, c) /\ ~of /\ ~err
            [] sem = "and" -> BN!Add(x, BN!Or(b, c)) = BN!Add(b, c) /\ ~of /\ ~err
            [] sem = "shl" -> /\ ~of /\ ~err
                              /\ IF k2 = "0" THEN x = "0" ELSE BN!Add(x, BN!Mul(M, BN!Div(BN!Mul(b, k2), M))) = BN!Mul(b, k2)
            [] sem = "shr" -> /\ ~of /\ ~err
                              /\ IF k2 = "0" THEN x = "0" ELSE Between(BN!Mul(x, k2), b, BN!Mul(BN!Add(x, "1"), k2))
            [] sem = "mul" -> /\ ~err /\ (of <=> BN!Le(M, BN!Mul(b, c)))
                              /\ BN!Add(x, BN!Mul(M, BN!Div(BN!Mul(b, c), M))) = BN!Mul(b, c)
            [] sem = "div" -> /\ ~of
                              /\ IF c = "0" THEN x = "0" /\ err ELSE ~err /\ Between(BN!Mul(x, c), b, BN!Mul(BN!Add(x, "1"), c))
            [] sem = "muldiv" -> LET dd == IF d = "0" THEN M ELSE d
                                     p  == BN!Mul(b, c)
                                     q  == BN!Div(p, dd) IN
                                 /\ ~err /\ (of <=> BN!Le(BN!Mul(M, dd), p))
                                 /\ IF of THEN BN!Add(x, BN!Mul(M, BN!Div(q, M))) = q
                                    ELSE Between(BN!Mul(x, dd), p, BN!Mul(BN!Add(x, "1"), dd))
            [] sem = "addmod" -> /\ ~of
                                 /\ IF d = "0" THEN x = "0" /\ err
                                    ELSE ~err /\ BN!Lt(x, d) /\ BN!Add(x, BN!Mul(d, BN!Div(BN!Add(b, c), d))) = BN!Add(b, c)
            [] sem = "mulmod" -> /\ ~of
                                 /\ IF d = "0" THEN x = "0" /\ err
                                    ELSE ~err /\ BN!Lt(x, d) /\ BN!Add(x, BN!Mul(d, BN!Div(BN!Mul(b, c), d))) = BN!Mul(b, c)
\* the value a compare leaves in its destination register
CmpRelation(sem, b, c, r, bits) ==
    CASE sem = "eq"  -> r = (IF b = c THEN "1" ELSE "0")
      [] sem = "ne"  -> r = (IF b = c THEN "0" ELSE "1")
      [] sem = "lt"  -> r = (IF BN!Le(c, b) THEN "0" ELSE "1")
      [] sem = "gt"  -> r = (IF BN!Le(b, c) THEN "0" ELSE "1")
      [] sem = "lte" -> r = (IF BN!Lt(c, b) THEN "0" ELSE "1")
      [] sem = "gte" -> r = (IF BN!Lt(b, c) THEN "0" ELSE "1")
      [] sem = "lzc" -> IF b = "0" THEN r = BN!FromNat(bits)
                        ELSE /\ BN!Lt(r, BN!FromNat(bits))
                             /\ Between(BN!Pow("2", BN!FromNat(bits - 1 - BN!ToNat(r))), b, BN!Pow("2", BN!FromNat(bits - BN!ToNat(r))))

IsCmp(en) == en.n \in {"WDCM", "WQCM"}
LawOf(p, en, q, stopped) ==
    LET W    == WidthOf(en.n)
        bits == 8 * W
        M    == BN!Pow("2", BN!FromNat(bits))
        b    == OperandOf(p, en.b, W)
        c    == OperandOf(p, en.c, W)
        d    == OperandOf(p, en.d, W)
        wrap == BN!ToNat(p.regs[FLAG]) \div 2 = 1
        unsf == BN!ToNat(p.regs[FLAG]) % 2 = 1
        completes == /\ en.valid /\ en.dst \in {"own", "reg"}
                     /\ (IsCmp(en) \/ ~(TrueOverflow(en.sem, b, c, d, M) /\ ~wrap))
                     /\ (IsCmp(en) \/ ~(Undefined(en.sem, c, d) /\ ~unsf))
        price == Schedule[WideGas[en.n]]
        gasOk == q.regs[CGAS] = BN!Sub(p.regs[CGAS], price) /\ q.regs[GGAS] = BN!Sub(p.regs[GGAS], price)
    IN /\ stopped = ~completes
       /\ gasOk
       /\ IF stopped
          THEN q.mem = p.mem /\ \A r \in 0..63 \ {CGAS, GGAS} : q.regs[r] = p.regs[r]
          ELSE /\ q.regs[PC] = BN!Add(p.regs[PC], "4")
               /\ q.regs[OF] \in {"0", "1"} /\ q.regs[ERR] \in {"0", "1"}
               /\ IF IsCmp(en)
                  THEN /\ q.mem = p.mem
                       /\ q.regs[OF] = "0" /\ q.regs[ERR] = "0"
                       /\ CmpRelation(en.sem, b, c, q.regs[en.ra], bits)
                       /\ \A r \in 0..63 \ {CGAS, GGAS, PC, OF, ERR, en.ra} : q.regs[r] = p.regs[r]
                  ELSE LET dst == BN!ToNat(p.regs[en.ra])
                           x   == UnBE(ReadBytes(q.mem, dst, W)) IN
                       /\ q.mem = WriteBytes(p.mem, dst, ReadBytes(q.mem, dst, W))          \* only the destination bytes changed
                       /\ Relation(en.sem, b, c, d, x, q.regs[OF] = "1", q.regs[ERR] = "1", bits)
                       /\ (q.regs[OF] = "1" => wrap) /\ (q.regs[ERR] = "1" => unsf)
                       /\ \A r \in 0..63 \ {CGAS, GGAS, PC, OF, ERR} : q.regs[r] = p.regs[r]
WideLaw == last = NoEntry \/ LawOf(pre, last, vm, halted)

GasInv == BN!Le(R(vm, CGAS), R(vm, GGAS))
ConstRegs == R(vm, ZERO) = "0" /\ R(vm, ONE) = "1"
StackOrder == BN!Le(R(vm, SSP), R(vm, SP)) /\ BN!Le(R(vm, SP), R(vm, HP)) /\ BN!Le(R(vm, SP), BN!FromNat(vm.slen))
ZeroOutside == \A p \in DOMAIN vm.mem : (p + 1) * PageSize <= vm.slen + PageSize - 1 \/ (p + 1) * PageSize > HpN(vm)
\* vacuity guards: the alphabet has the intended size and every family / outcome occurs
AlphabetOk == /\ Cardinality({en.w : en \in Alphabet}) = Cardinality(Alphabet)
              /\ \A en \in Alphabet : Mnemonic(en.w) = en.n /\ ValidWord(en.w)
              /\ {en.n : en \in Alphabet} = WideNames
ASSUME AlphabetOk
\* sizes for the vacuity test of the check driver: distinct states must be inits * (|Alphabet| + 1)
ASSUME PrintT(<<"GRID", Cardinality(Vals), Cardinality(DVals), Cardinality(Alphabet)>>)
=============================================================================
