------------------------------ MODULE VmStorage ------------------------------
(***************************************************************************)
(* Contract storage instructions (C33).                                    *)
(*                                                                         *)
(* Contract storage is a plain key-value map                               *)
(*     vm.kv   : <<contract id, 32-byte key>> -> value (hex, ANY length;   *)
(*               a present slot may hold the empty string)                 *)
(* An absent key is not in DOMAIN vm.kv.  Further fields of the vm record: *)
(*     vm.warm : set of <<contract id, key>> read, written or cleared      *)
(*               earlier in THIS transaction.  It influences only the gas  *)
(*               charged (storage_read_hot instead of storage_read_cold),  *)
(*               never a result: no operator below other than RdCost       *)
(*               mentions it.                                              *)
(*     vm.kv0  : the map at the start of the transaction (what a reverted  *)
(*               transaction leaves behind)                                *)
(*     vm.stok : TRUE iff the recorder told us the storage contents (Init  *)
(*               event with a "kv" field); otherwise the instructions of   *)
(*               this family are not modelled (only universal obligations) *)
(* The contract whose storage is addressed is the one whose context is     *)
(* active (CurContract); outside a contract the instructions panic with    *)
(* ExpectedInternalContext.                                                *)
(*                                                                         *)
(* Written from the instruction-set description of the instructions        *)
(* (operands, result registers, flags, panic conditions) and the property  *)
(* text.  Panic conditions are an unordered set (pan); on a multi-slot     *)
(* instruction they are the union over all slots of the range.             *)
(*                                                                         *)
(* GAS (schedule entries read from the implementation, Init event):        *)
(*   every instruction      : noop                                         *)
(*   every slot read        : storage_read_cold(len) on the first access   *)
(*                            of the slot in this transaction,             *)
(*                            storage_read_hot(len) afterwards             *)
(*                            (len = length of the value, 0 if absent)     *)
(*   every slot write       : storage_write(new len)                       *)
(*                            + new_storage_per_byte * max(0, new - old)   *)
(*   every range clear      : storage_clear(number of slots)               *)
(* modelled EXACTLY for every completed instruction (the warm set is       *)
(* tracked exactly: a slot becomes warm when it is read, written or        *)
(* cleared).  For a panicking instruction the specification does not say   *)
(* how much of the charge precedes the panic: eff.gas is then the maximum  *)
(* (the trace specification accepts any charge d with 0 <= d <= eff.gas).  *)
(***************************************************************************)
EXTENDS VmBase

StKnown(vm) == "stok" \in DOMAIN vm /\ vm.stok
StGasDefined(vm) == \A nm \in {"storage_read_cold", "storage_read_hot", "storage_write", "storage_clear"} :
                        nm \in DOMAIN vm.env.gas /\ ToString(vm.env.gas[nm]) \notin {"undefined", "\"undefined\""}
StMaxLen(vm) == vm.env.max_storage_slot_length          \* BigNat, from the implementation's parameters

\* ---- the map ----
StHas(kv, c, k) == <<c, k>> \in DOMAIN kv
StVal(kv, c, k) == IF StHas(kv, c, k) THEN kv[<<c, k>>] ELSE ""
StPut(kv, c, k, v) == (<<c, k>> :> v) @@ kv
StDel(kv, c, ks) == [p \in DOMAIN kv \ {<<c, k>> : k \in ks} |-> kv[p]]

\* ---- keys are 256-bit numbers (big-endian); a range must not run past 2^256 - 1 ----
KeyPlus(k, i) == BN!ToHex(BN!Add(BN!FromHex(k), BN!FromNat(i)), 32)
SlotsLeft(k) == BN!Sub(BN!Two256, BN!FromHex(k))         \* number of keys in [k, 2^256)
TooMany(k, count) == BN!Lt(SlotsLeft(k), count)
MaxEnum == 64                                            \* ranges longer than this are not enumerated (see BigRange)

\* ---- gas pieces ----
RdCost(vm, c, k) == Dep(GasOf(vm, IF <<c, k>> \in vm.warm THEN "storage_read_hot" ELSE "storage_read_cold"),
                        BN!FromNat(BLen(StVal(vm.kv, c, k))))
WrCost(vm, newLen, oldLen) ==            \* newLen: BigNat, oldLen: TLC integer
    BN!Add(Dep(GasOf(vm, "storage_write"), newLen),
           SatMul(GasOf(vm, "new_storage_per_byte"), BN!SatSub(newLen, BN!FromNat(oldLen))))
ClrCost(vm, count) == Dep(GasOf(vm, "storage_clear"), count)
Noop(vm) == GasOf(vm, "noop")
RECURSIVE SumBN(_, _, _)
SumBN(f(_), i, n) == IF i >= n THEN "0" ELSE BN!Add(f(i), SumBN(f, i + 1, n))

\* ---- building the effect ----
\* kv2: the map after the instruction; touched: slots accessed (they are warm afterwards)
StEff(vm, gas, pan, set, wr, kv2, c, touched) ==
    [Eff(gas, pan, set, wr, vm.slen)
        EXCEPT !.upd  = [kv |-> kv2, warm |-> vm.warm \cup {<<c, k>> : k \in touched}],
               !.pmay = [r \in DOMAIN set \ {PC} |-> set[r]]]
\* the instruction cannot get as far as touching storage (key unreadable / not in a contract)
StEarly(vm, pan) == Eff(Noop(vm), pan, <<>>, <<>>, vm.slen)
\* a range too long to enumerate: modelled only when even a lower bound of its cost cannot be paid, so that the
\* only possible outcomes are OutOfGas or one of the panics in pan
BigRange(vm, lowerBound, pan, count) ==
    IF BN!Lt(R(vm, CGAS), lowerBound) \/ BN!Lt("4294967295", count) THEN Eff(lowerBound, pan, <<>>, <<>>, vm.slen) ELSE Unmodelled

KeyPan(vm, ptr) == ReadPanics(vm, ptr, "32")
CtxPan(vm) == IF InCall(vm) THEN {} ELSE {"ExpectedInternalContext"}
Reserved(r) == DestPan(r)
\* panics of the i-th 32-byte chunk of a buffer starting at base
ChunkAddr(base, i) == BN!Add(base, BN!FromNat(32 * i))
ChunkWritePan(vm, base, i) == IF AddrOverflow(ChunkAddr(base, i)) THEN {"MemoryOverflow"} ELSE WritePanics(vm, ChunkAddr(base, i), "32")
ChunkReadPan(vm, base, i)  == IF AddrOverflow(ChunkAddr(base, i)) THEN {"MemoryOverflow"} ELSE ReadPanics(vm, ChunkAddr(base, i), "32")
\* Operands that denote a number of slots, a byte offset or a byte count must fit 32 bits (the implementation converts them
\* "in a way that is consistent on 32-bit and 64-bit platforms"); a larger slot count is TooManySlots, a larger byte
\* quantity MemoryOverflow — whatever the slot holds.  (Memory has 2^26 bytes and a value at most max_storage_slot_length
\* bytes, so such an operand could not denote a valid slice anyway.)
Big32(x) == BN!Lt("4294967295", x)
TooPan(k, count) == IF TooMany(k, count) \/ Big32(count) THEN {"TooManySlots"} ELSE {}
BigPan(x) == IF Big32(x) THEN {"MemoryOverflow"} ELSE {}
SizePan(vm, len) == IF BN!Lt(StMaxLen(vm), len) THEN {"StorageOutOfBounds"} ELSE {}

(***************************************************************************)
(* Legacy instructions: 32-byte slots and words                            *)
(***************************************************************************)
\* SCWQ rA rB rC: clear rC slots starting at key MEM[rA, 32]; rB = 1 iff every slot of the range was set
ScwqEff(vm, w) ==
    LET c == CurContract(vm)  ptr == Ro(vm, RA(w))  count == Ro(vm, RC(w))
        early == KeyPan(vm, ptr) \cup CtxPan(vm)
    IN IF early # {} THEN StEarly(vm, early \cup Reserved(RB(w)))
       ELSE LET k  == MemRead(vm, ptr, "32")
                nv == BN!Min(count, SlotsLeft(k))
                pan == Reserved(RB(w)) \cup TooPan(k, count)
            IN IF BN!Lt(BN!FromNat(MaxEnum), nv)
               THEN BigRange(vm, BN!Add(Noop(vm), SumBN(LAMBDA i : RdCost(vm, c, KeyPlus(k, i)), 0, MaxEnum)), pan, count)
               ELSE LET n == BN!ToNat(nv)
                        ks == {KeyPlus(k, i) : i \in 0..(n - 1)}
                        all == \A q \in ks : StHas(vm.kv, c, q)
                        gas == BN!Add(BN!Add(Noop(vm), SumBN(LAMBDA i : RdCost(vm, c, KeyPlus(k, i)), 0, n)), ClrCost(vm, count))
                    IN StEff(vm, gas, pan, (RB(w) :> B2N(all)) @@ StepPc(vm), <<>>, StDel(vm.kv, c, ks), c, ks)

\* SRW rA rB rC imm: rA = the imm-th 8-byte word of the slot MEM[rC, 32] (0 when absent), rB = 1 iff the slot is set
SrwEff(vm, w) ==
    LET c == CurContract(vm)  ptr == Ro(vm, RC(w))
        regPan == Reserved(RA(w)) \cup Reserved(RB(w)) \cup (IF RA(w) = RB(w) THEN {"ReservedRegisterNotWritable"} ELSE {})
        early == KeyPan(vm, ptr) \cup CtxPan(vm)
    IN IF early # {} THEN StEarly(vm, early \cup regPan)
       ELSE LET k   == MemRead(vm, ptr, "32")
                has == StHas(vm.kv, c, k)
                v   == StVal(vm.kv, c, k)
                off == 8 * Imm06(w)
                oob == has /\ BLen(v) < off + 8
                val == IF has /\ ~oob THEN UnBE(Slice(v, off, 8)) ELSE "0"
            IN StEff(vm, BN!Add(Noop(vm), RdCost(vm, c, k)),
                     regPan \cup (IF oob THEN {"StorageOutOfBounds"} ELSE {}),
                     (RA(w) :> val) @@ (RB(w) :> B2N(has)) @@ StepPc(vm), <<>>, vm.kv, c, {k})

\* SRWQ rA rB rC rD: MEM[rA, 32 * rD] = the rD slots starting at key MEM[rC, 32], an absent slot reads as 32 zero bytes;
\* rB = 1 iff every slot was set.  A present slot whose length is not 32 cannot be read this way (StorageOutOfBounds).
SrwqEff(vm, w) ==
    LET c == CurContract(vm)  ptr == Ro(vm, RC(w))  dst == Ro(vm, RA(w))  count == Ro(vm, RD(w))
        early == KeyPan(vm, ptr) \cup CtxPan(vm)
    IN IF early # {} THEN StEarly(vm, early \cup Reserved(RB(w)))
       ELSE LET k  == MemRead(vm, ptr, "32")
                nv == BN!Min(count, SlotsLeft(k))
                pan0 == Reserved(RB(w)) \cup TooPan(k, count)
            IN IF BN!Lt(BN!FromNat(MaxEnum), nv)
               THEN BigRange(vm, BN!Add(Noop(vm), SumBN(LAMBDA i : RdCost(vm, c, KeyPlus(k, i)), 0, MaxEnum)),
                             pan0 \cup UNION {ChunkWritePan(vm, dst, i) : i \in 0..(MaxEnum - 1)} \cup {"StorageOutOfBounds"}, count)
               ELSE LET n == BN!ToNat(nv)
                        ks == {KeyPlus(k, i) : i \in 0..(n - 1)}
                        all == \A q \in ks : StHas(vm.kv, c, q)
                        badLen == \E q \in ks : StHas(vm.kv, c, q) /\ BLen(StVal(vm.kv, c, q)) # 32
                        pan == pan0 \cup UNION {ChunkWritePan(vm, dst, i) : i \in 0..(n - 1)}
                                    \cup (IF badLen THEN {"StorageOutOfBounds"} ELSE {})
                        gas == BN!Add(Noop(vm), SumBN(LAMBDA i : RdCost(vm, c, KeyPlus(k, i)), 0, n))
                        data == Cat([i \in 1..n |-> IF StHas(vm.kv, c, KeyPlus(k, i - 1)) THEN StVal(vm.kv, c, KeyPlus(k, i - 1)) ELSE Zeros(32)])
                    IN StEff(vm, gas, pan, (RB(w) :> B2N(all)) @@ StepPc(vm),
                             IF pan = {} /\ n > 0 THEN <<<<BN!ToNat(dst), data>>>> ELSE <<>>, vm.kv, c, ks)

\* SWW rA rB rC: slot MEM[rA, 32] = rC as 8 big-endian bytes followed by 24 zero bytes; rB = 1 iff the slot was NOT set before
SwwEff(vm, w) ==
    LET c == CurContract(vm)  ptr == Ro(vm, RA(w))
        early == KeyPan(vm, ptr) \cup CtxPan(vm)
    IN IF early # {} THEN StEarly(vm, early \cup Reserved(RB(w)))
       ELSE LET k   == MemRead(vm, ptr, "32")
                has == StHas(vm.kv, c, k)
                old == BLen(StVal(vm.kv, c, k))
                val == BEBig(Ro(vm, RC(w)), 8) \o Zeros(24)
            IN StEff(vm, BN!Add(BN!Add(Noop(vm), RdCost(vm, c, k)), WrCost(vm, "32", old)),
                     Reserved(RB(w)) \cup SizePan(vm, "32"),
                     (RB(w) :> B2N(~has)) @@ StepPc(vm), <<>>, StPut(vm.kv, c, k, val), c, {k})

\* SWWQ rA rB rC rD: the rD slots starting at key MEM[rA, 32] = MEM[rC, 32 * rD]; rB = number of slots NOT set before
SwwqEff(vm, w) ==
    LET c == CurContract(vm)  ptr == Ro(vm, RA(w))  src == Ro(vm, RC(w))  count == Ro(vm, RD(w))
        early == KeyPan(vm, ptr) \cup CtxPan(vm)
    IN IF early # {} THEN StEarly(vm, early \cup Reserved(RB(w)))
       ELSE LET k  == MemRead(vm, ptr, "32")
                nv == BN!Min(count, SlotsLeft(k))
                pan0 == Reserved(RB(w)) \cup TooPan(k, count) \cup (IF count # "0" THEN SizePan(vm, "32") ELSE {})
                One(i) == BN!Add(RdCost(vm, c, KeyPlus(k, i)), WrCost(vm, "32", BLen(StVal(vm.kv, c, KeyPlus(k, i)))))
            IN IF BN!Lt(BN!FromNat(MaxEnum), nv)
               THEN BigRange(vm, BN!Add(Noop(vm), SumBN(One, 0, MaxEnum)),
                             pan0 \cup UNION {ChunkReadPan(vm, src, i) : i \in 0..(MaxEnum - 1)}, count)
               ELSE LET n == BN!ToNat(nv)
                        ks == {KeyPlus(k, i) : i \in 0..(n - 1)}
                        unset == Cardinality({q \in ks : ~StHas(vm.kv, c, q)})
                        pan == pan0 \cup UNION {ChunkReadPan(vm, src, i) : i \in 0..(n - 1)}
                        gas == BN!Add(Noop(vm), SumBN(One, 0, n))
                        kv2 == IF pan # {} THEN vm.kv
                               ELSE [p \in DOMAIN vm.kv \cup {<<c, q>> : q \in ks} |->
                                        IF p[1] = c /\ p[2] \in ks
                                        THEN LET i == CHOOSE j \in 0..(n - 1) : KeyPlus(k, j) = p[2] IN MemRead(vm, ChunkAddr(src, i), "32")
                                        ELSE vm.kv[p]]
                    IN StEff(vm, gas, pan, (RB(w) :> BN!FromNat(unset)) @@ StepPc(vm), <<>>, kv2, c, ks)

(***************************************************************************)
(* Dynamic-length instructions                                             *)
(***************************************************************************)
\* SCLR rA rB: clear rB slots starting at key MEM[rA, 32]
SclrEff(vm, w) ==
    LET c == CurContract(vm)  ptr == Ro(vm, RA(w))  count == Ro(vm, RB(w))
        early == KeyPan(vm, ptr) \cup CtxPan(vm)
    IN IF early # {} THEN StEarly(vm, early)
       ELSE LET k   == MemRead(vm, ptr, "32")
                gas == BN!Add(Noop(vm), ClrCost(vm, count))
            IN IF TooPan(k, count) # {} THEN Eff(gas, {"TooManySlots"}, <<>>, <<>>, vm.slen)
               ELSE IF BN!Lt(BN!FromNat(MaxEnum), count) THEN BigRange(vm, gas, {}, count)
               ELSE LET ks == {KeyPlus(k, i) : i \in 0..(BN!ToNat(count) - 1)}
                    IN StEff(vm, gas, {}, StepPc(vm), <<>>, StDel(vm.kv, c, ks), c, ks)

\* SRDD rA rB rC rD / SRDI rA rB rC imm: MEM[rA, len] = value[rC, len] of the slot MEM[rB, 32], $err = 0;
\* an absent slot is flagged with $err = 1.  The slice must lie inside the value (StorageOutOfBounds).
SrdEff(vm, w, len) ==
    LET c == CurContract(vm)  ptr == Ro(vm, RB(w))  dst == Ro(vm, RA(w))  off == Ro(vm, RC(w))
        early == KeyPan(vm, ptr) \cup CtxPan(vm)
    IN IF early # {} THEN StEarly(vm, early)
       ELSE LET k   == MemRead(vm, ptr, "32")
                has == StHas(vm.kv, c, k)
                v   == StVal(vm.kv, c, k)
                gas == BN!Add(Noop(vm), RdCost(vm, c, k))
                oob == BN!Lt(BN!FromNat(BLen(v)), BN!Add(off, len))
                pan == BigPan(off) \cup BigPan(len)
                       \cup (IF has THEN (IF oob THEN {"StorageOutOfBounds"} ELSE {}) \cup WritePanics(vm, dst, len) ELSE {})
            IN StEff(vm, gas, pan, (ERR :> B2N(~has)) @@ StepPc(vm),
                     IF has /\ pan = {} /\ len # "0" THEN <<<<BN!ToNat(dst), Slice(v, BN!ToNat(off), BN!ToNat(len))>>>> ELSE <<>>,
                     vm.kv, c, {k})
\* The text "zero-filled and flagged when absent" is met by the flag; whether the destination of a dynamic read of an
\* ABSENT slot is left alone or zero-filled is not determined, so the zero-filled buffer is admitted as well.
SrdAltWr(vm, w, len) ==
    LET c == CurContract(vm)  ptr == Ro(vm, RB(w))  dst == Ro(vm, RA(w)) IN
    IF KeyPan(vm, ptr) \cup CtxPan(vm) # {} THEN <<>>
    ELSE IF StHas(vm.kv, c, MemRead(vm, ptr, "32")) \/ len = "0" \/ Big32(len) \/ WritePanics(vm, dst, len) # {} THEN <<>>
    ELSE <<<<BN!ToNat(dst), Zeros(BN!ToNat(len))>>>>

\* SWRD rA rB rC / SWRI rA rB imm: slot MEM[rA, 32] = MEM[rB, len] (the whole value is replaced; any length up to the maximum)
SwrEff(vm, w, len) ==
    LET c == CurContract(vm)  ptr == Ro(vm, RA(w))  src == Ro(vm, RB(w))
        early == KeyPan(vm, ptr) \cup CtxPan(vm)
    IN IF early # {} THEN StEarly(vm, early)
       ELSE LET k   == MemRead(vm, ptr, "32")
                old == BLen(StVal(vm.kv, c, k))
                pan == ReadPanics(vm, src, len) \cup SizePan(vm, len) \cup BigPan(len)
            IN StEff(vm, BN!Add(Noop(vm), WrCost(vm, len, old)), pan, StepPc(vm), <<>>,
                     IF pan = {} THEN StPut(vm.kv, c, k, MemRead(vm, src, len)) ELSE vm.kv, c, {k})

\* SUPD rA rB rC rD / SUPI rA rB rC imm: value[off, len] = MEM[rB, len] where value is the slot MEM[rA, 32] (an absent slot
\* counts as empty), off = rC, or the current length when rC = 2^64 - 1 (append).  off may not exceed the current length;
\* a write past the end extends the value; the result may not exceed the maximum length.
SupEff(vm, w, len) ==
    LET c == CurContract(vm)  ptr == Ro(vm, RA(w))  src == Ro(vm, RB(w))
        early == KeyPan(vm, ptr) \cup CtxPan(vm)
    IN IF early # {} THEN StEarly(vm, early)
       ELSE LET k    == MemRead(vm, ptr, "32")
                old  == StVal(vm.kv, c, k)
                ol   == BLen(old)
                off  == IF Ro(vm, RC(w)) = BN!Max64 THEN BN!FromNat(ol) ELSE Ro(vm, RC(w))
                end  == BN!Add(off, len)
                newLen == BN!Max(BN!FromNat(ol), end)
                pan  == (IF BN!Lt(BN!FromNat(ol), off) THEN {"StorageOutOfBounds"} ELSE {}) \cup SizePan(vm, end) \cup ReadPanics(vm, src, len)
                        \cup (IF Ro(vm, RC(w)) # BN!Max64 THEN BigPan(Ro(vm, RC(w))) ELSE {}) \cup BigPan(len)
                val  == LET o == BN!ToNat(off)  n == BN!ToNat(len) IN
                        Slice(old, 0, o) \o MemRead(vm, src, len) \o (IF o + n < ol THEN Slice(old, o + n, ol - (o + n)) ELSE "")
            IN StEff(vm, BN!Add(BN!Add(Noop(vm), RdCost(vm, c, k)), WrCost(vm, newLen, ol)), pan, StepPc(vm), <<>>,
                     IF pan = {} THEN StPut(vm.kv, c, k, val) ELSE vm.kv, c, {k})

\* SPLD rA rB: rA = length of the slot MEM[rB, 32] (0 when absent), $err = 1 iff absent; rA = $zero discards the length
SpldEff(vm, w) ==
    LET c == CurContract(vm)  ptr == Ro(vm, RB(w))
        regPan == IF RA(w) = ZERO THEN {} ELSE Reserved(RA(w))
        early == KeyPan(vm, ptr) \cup CtxPan(vm)
    IN IF early # {} THEN StEarly(vm, early \cup regPan)
       ELSE LET k   == MemRead(vm, ptr, "32")
                has == StHas(vm.kv, c, k)
            IN StEff(vm, BN!Add(Noop(vm), RdCost(vm, c, k)), regPan,
                     (ERR :> B2N(~has)) @@ (IF RA(w) = ZERO THEN <<>> ELSE (RA(w) :> BN!FromNat(BLen(StVal(vm.kv, c, k))))) @@ StepPc(vm),
                     <<>>, vm.kv, c, {k})

StorageNames == {"SCWQ", "SRW", "SRWQ", "SWW", "SWWQ", "SCLR", "SRDD", "SRDI", "SWRD", "SWRI", "SUPD", "SUPI", "SPLD"}
StorageEff(vm, n, w) ==
    IF ~StKnown(vm) \/ ~StGasDefined(vm) THEN Unmodelled
    ELSE CASE n = "SCWQ" -> ScwqEff(vm, w) [] n = "SRW" -> SrwEff(vm, w) [] n = "SRWQ" -> SrwqEff(vm, w)
           [] n = "SWW" -> SwwEff(vm, w) [] n = "SWWQ" -> SwwqEff(vm, w) [] n = "SCLR" -> SclrEff(vm, w)
           [] n = "SRDD" -> SrdEff(vm, w, Ro(vm, RD(w))) [] n = "SRDI" -> SrdEff(vm, w, BN!FromNat(Imm06(w)))
           [] n = "SWRD" -> SwrEff(vm, w, Ro(vm, RC(w))) [] n = "SWRI" -> SwrEff(vm, w, BN!FromNat(Imm12(w)))
           [] n = "SUPD" -> SupEff(vm, w, Ro(vm, RD(w))) [] n = "SUPI" -> SupEff(vm, w, BN!FromNat(Imm06(w)))
           [] n = "SPLD" -> SpldEff(vm, w)
\* alternative admissible memory writes of a completed instruction (see SrdAltWr); <<>> = none
StorageAltWr(vm, n, w) ==
    IF ~StKnown(vm) THEN <<>>
    ELSE IF n = "SRDD" THEN SrdAltWr(vm, w, Ro(vm, RD(w))) ELSE IF n = "SRDI" THEN SrdAltWr(vm, w, BN!FromNat(Imm06(w))) ELSE <<>>
\* the only memory an instruction of this family may have changed when it panics part-way (a transaction that panics is
\* reverted as a whole, so this is not observable by a transaction): its own destination buffer, as <<start, length>>
StorageMayWrite(vm, n, w) ==
    IF n = "SRWQ" THEN <<Ro(vm, RA(w)), BN!Mul("32", Ro(vm, RD(w)))>>
    ELSE IF n = "SRDD" THEN <<Ro(vm, RA(w)), Ro(vm, RD(w))>>
    ELSE IF n = "SRDI" THEN <<Ro(vm, RA(w)), BN!FromNat(Imm06(w))>>
    ELSE <<"0", "0">>
=============================================================================
