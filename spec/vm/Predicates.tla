------------------------------ MODULE Predicates ------------------------------
(***************************************************************************)
(* C20 -- only authorised inputs survive signature and predicate checks.   *)
(*                                                                         *)
(* What is modelled (fuel-specs tx-validity / tx-format/input.md):         *)
(*  * a transaction is a sequence of inputs and a sequence of witnesses;   *)
(*    an input is SIGNED (witness index w, owner), a PREDICATE (owner,     *)
(*    predicate address `root`, program, declared gas) or OTHER (contract  *)
(*    inputs -- nothing to authorise);                                     *)
(*  * a witness is an ideal signature: it was produced by the holder of    *)
(*    address `signer` over the id `over` (or by nobody: "none").  It      *)
(*    recovers to `signer` over exactly that id and to Nobody over every   *)
(*    other id (unforgeability; C16/C17 are about the primitive);          *)
(*  * a predicate program has an abstract OUTCOME <<kind, need>>: it       *)
(*    returns one after consuming exactly `need` gas ("one"), or it        *)
(*    returns something else / reverts / panics / never terminates.        *)
(*    Programs are either descriptors of a small family whose code and     *)
(*    gas need are DEFINED here from the instruction set (CodeOf, Need),   *)
(*    or opaque programs whose outcome is an environment fact (`claim`).   *)
(*                                                                         *)
(* The property, read literally:                                           *)
(*  AcceptedImpliesAuthorised  a fully checked transaction has signed      *)
(*      inputs only if the referenced witness recovers to the owner over   *)
(*      the transaction id and predicate inputs only if owner = predicate  *)
(*      address and the predicate returned one using EXACTLY its declared  *)
(*      gas;                                                               *)
(*  TamperRejected  if the id changes (any signed content changed) an      *)
(*      accepted transaction with a signed input fails signature checking; *)
(*  EstimateThenVerifyOk  whenever estimation succeeds, verification of    *)
(*      the estimated transaction succeeds;                                *)
(*  VerdictOrderIndependent, SequentialEqualsParallel  the verdict and the *)
(*      total gas do not depend on the completion order of the tasks and   *)
(*      equal those of the sequential algorithm.                           *)
(* Which error is reported is NOT part of the property (diagnostic only).  *)
(***************************************************************************)
EXTENDS Naturals, Sequences, FiniteSets
LOCAL INSTANCE Hex
LOCAL BN == INSTANCE BigNat

Nobody == "nobody"

\* ------------------------------------------------------------------ programs
\* descriptor [pre, loop, tail]:  NOOP x pre ; (MOVI r16,loop ; SUBI r16,r16,1 ; JNZI r16,@SUBI)? ; tail
\* cost: record of BigNat strings with the schedule entries noop, movi, subi, jnzi, ret
IsClaim(p) == "claim" \in DOMAIN p
Tails == {"ret1", "ret0", "ret2", "retmax", "rvrt", "retd", "bad", "spin"}
Kind(p) == IF IsClaim(p) THEN p.claim.kind
           ELSE CASE p.tail = "ret1" -> "one"        \* RET $one
                  [] p.tail = "ret0" -> "notone"     \* RET $zero
                  [] p.tail = "ret2" -> "notone"     \* MOVI r17,2 ; RET r17
                  [] p.tail = "retmax" -> "notone"   \* NOT r17,$zero ; RET r17   (2^64 - 1)
                  [] p.tail = "rvrt" -> "revert"     \* RVRT $one
                  [] p.tail = "spin" -> "forever"    \* JI to itself
                  [] OTHER -> "panic"                \* RETD (not allowed in predicates), undefined opcode
Kinds == {"one", "notone", "revert", "panic", "forever"}

LOCAL Times(n, c) == BN!Mul(BN!FromNat(n), c)
\* gas consumed until the program returns (meaningful for kind "one" only):
\* every executed instruction is charged its schedule entry; the loop body runs `loop` times
Need(p, cost) ==
    IF IsClaim(p) THEN p.claim.need
    ELSE BN!Add(BN!Add(Times(p.pre, cost.noop),
                       IF p.loop > 0 THEN BN!Add(cost.movi, Times(p.loop, BN!Add(cost.subi, cost.jnzi))) ELSE "0"),
                cost.ret)

\* instruction words (opcode byte, then arguments packed from the top; registers: $zero 0, $one 1, r16)
LOCAL Word(op, rest) == BE(op, 1) \o BE(rest, 3)
LOCAL R16 == 16 * 262144
LOCAL R17 == 17 * 262144
RECURSIVE Noops(_)
Noops(n) == IF n = 0 THEN "" ELSE "47000000" \o Noops(n - 1)
CodeOf(p) ==
    LET body == IF p.loop > 0
                THEN Word(114, R16 + p.loop) \o Word(89, R16 + 16 * 4096 + 1) \o Word(115, R16 + p.pre + 1)
                ELSE ""
        at   == p.pre + (IF p.loop > 0 THEN 3 ELSE 0)       \* word index of the tail instruction
        tail == CASE p.tail = "ret1" -> Word(36, 262144)
                  [] p.tail = "ret0" -> Word(36, 0)
                  [] p.tail = "ret2" -> Word(114, R17 + 2) \o Word(36, R17)
                  [] p.tail = "retmax" -> Word(28, R17) \o Word(36, R17)
                  [] p.tail = "rvrt" -> Word(54, 262144)
                  [] p.tail = "retd" -> Word(37, 0)
                  [] p.tail = "spin" -> Word(144, at)
                  [] OTHER -> "ffffffff"
    IN  Noops(p.pre) \o body \o tail

\* the predicate returns one within the gas limit L
TrueWithin(p, cost, L) == Kind(p) = "one" /\ BN!Le(Need(p, cost), L)

\* --------------------------------------------------------------- transactions
\* tx = [id, inputs, wits, cost, cap]
\*   input  [k |-> "signed", w, owner] | [k |-> "pred", owner, root, prog, gas] | [k |-> "other"]
\*   witness [signer, over]
InIdx(tx) == 1..Len(tx.inputs)
SignedIdx(tx) == {i \in InIdx(tx) : tx.inputs[i].k = "signed"}
PredIdx(tx) == {i \in InIdx(tx) : tx.inputs[i].k = "pred"}

\* the address witness number w (0-based, as in the wire format) recovers to over the transaction id
Recovers(tx, w) ==
    IF (w + 1) \in DOMAIN tx.wits /\ tx.wits[w + 1].signer # "none" /\ tx.wits[w + 1].over = tx.id
    THEN tx.wits[w + 1].signer ELSE Nobody

SigAuth(tx, i) == Recovers(tx, tx.inputs[i].w) = tx.inputs[i].owner
OwnerOk(x) == x.owner = x.root
PredAuth(tx, i) ==
    LET x == tx.inputs[i] IN
    OwnerOk(x) /\ Kind(x.prog) = "one" /\ Need(x.prog, tx.cost) = x.gas       \* EXACTLY the declared gas
Authorised(tx, i) ==
    CASE tx.inputs[i].k = "signed" -> SigAuth(tx, i)
      [] tx.inputs[i].k = "pred"   -> PredAuth(tx, i)
      [] OTHER -> TRUE
AllAuthorised(tx) == \A i \in InIdx(tx) : Authorised(tx, i)

\* Signature checking.  It must reject when a signed input is not authorised and accept when all are;
\* the code ALSO rejects a predicate input whose owner is not the predicate address at this stage, which
\* the property neither requires nor forbids (predicate checking rejects it in any case).
SigVerdicts(tx) ==
    IF \E i \in SignedIdx(tx) : ~SigAuth(tx, i) THEN {FALSE}
    ELSE IF \E i \in PredIdx(tx) : ~OwnerOk(tx.inputs[i]) THEN {TRUE, FALSE}
    ELSE {TRUE}

\* ---------------------------------------------------- the sequential reference
RECURSIVE SumGas(_, _)
SumGas(tx, S) == IF S = {} THEN "0"
                 ELSE LET i == CHOOSE j \in S : TRUE IN BN!Add(tx.inputs[i].gas, SumGas(tx, S \ {i}))
\* predicates verified one after the other in input order; gas is reported on success only
SeqVerify(tx) ==
    LET ok == \A i \in PredIdx(tx) : PredAuth(tx, i)
    IN  [ok |-> ok, gas |-> IF ok THEN SumGas(tx, PredIdx(tx)) ELSE "0"]

\* estimation: every predicate must be shown to return one within the per-predicate cap; its gas is
\* then set to what it consumed.  (Literal reading of the property: estimation may only succeed if
\* the estimated transaction verifies, so it cannot succeed for a predicate that does not return one
\* or whose owner is not its address.)
EstOk1(tx, i) == OwnerOk(tx.inputs[i]) /\ TrueWithin(tx.inputs[i].prog, tx.cost, tx.cap)
EstOk(tx) == \A i \in PredIdx(tx) : EstOk1(tx, i)
EstWhy(tx) ==
    LET bad == {i \in PredIdx(tx) : ~EstOk1(tx, i)}
        o == \E i \in bad : ~OwnerOk(tx.inputs[i])
        t == \E i \in bad : ~TrueWithin(tx.inputs[i].prog, tx.cost, tx.cap)
    IN  IF o /\ t THEN "invalid-owner+not-true" ELSE IF o THEN "invalid-owner" ELSE IF t THEN "not-true" ELSE "none"
Estimated(tx) ==
    [tx EXCEPT !.inputs = [i \in InIdx(tx) |->
        IF tx.inputs[i].k = "pred" THEN [tx.inputs[i] EXCEPT !.gas = Need(tx.inputs[i].prog, tx.cost)] ELSE tx.inputs[i]]]

\* ------------------------------------------------------------------- design
\* mode "verify":  CheckSig(1..n) ; SpawnTask(each predicate) ; CompleteTask in ANY order ; Finalize
\* mode "estimate": SpawnTask ; CompleteTask in ANY order ; Estimate (writes the gases)
VARIABLES tx, mode, pc, nextSig, cache, sigOk, spawned, done, out
vars == <<tx, mode, pc, nextSig, cache, sigOk, spawned, done, out>>

NoOut == [ok |-> FALSE, gas |-> "0", full |-> FALSE, etx |-> <<>>]

InitWith(t, m) ==
    /\ tx = t /\ mode = m
    /\ pc = IF m = "verify" THEN "sig" ELSE "tasks"
    /\ nextSig = 1 /\ cache = <<>> /\ sigOk = TRUE /\ spawned = {} /\ done = <<>> /\ out = NoOut

\* signatures are checked in input order with a recovery cache keyed by witness index
CheckSig(i) ==
    /\ pc = "sig" /\ i = nextSig /\ i \in InIdx(tx)
    /\ LET x == tx.inputs[i] IN
       IF x.k = "signed"
       THEN LET rec == IF x.w \in DOMAIN cache THEN cache[x.w] ELSE Recovers(tx, x.w) IN
            /\ cache' = [w \in DOMAIN cache \cup {x.w} |-> IF w = x.w THEN rec ELSE cache[w]]
            /\ sigOk' = (sigOk /\ rec = x.owner)
       ELSE UNCHANGED <<cache, sigOk>>
    /\ nextSig' = i + 1
    /\ pc' = IF i = Len(tx.inputs) THEN "tasks" ELSE "sig"
    /\ UNCHANGED <<tx, mode, spawned, done, out>>

\* tasks are created in input order, one per predicate input
SpawnTask(i) ==
    /\ pc = "tasks" /\ i \in PredIdx(tx) \ spawned
    /\ \A j \in PredIdx(tx) : (j < i) => (j \in spawned)
    /\ spawned' = spawned \cup {i}
    /\ UNCHANGED <<tx, mode, pc, nextSig, cache, sigOk, done, out>>

TaskResult(i) ==
    IF mode = "verify"
    THEN IF PredAuth(tx, i) THEN [ok |-> TRUE, gas |-> tx.inputs[i].gas] ELSE [ok |-> FALSE, gas |-> "0"]
    ELSE IF EstOk1(tx, i) THEN [ok |-> TRUE, gas |-> Need(tx.inputs[i].prog, tx.cost)] ELSE [ok |-> FALSE, gas |-> "0"]

Completed == {done[k][1] : k \in DOMAIN done}
\* every task has been created; they complete in any order
CompleteTask(i) ==
    /\ pc = "tasks" /\ spawned = PredIdx(tx) /\ i \in spawned \ Completed
    /\ done' = Append(done, <<i, TaskResult(i)>>)
    /\ UNCHANGED <<tx, mode, pc, nextSig, cache, sigOk, spawned, out>>

RECURSIVE FoldGas(_, _)
FoldGas(d, k) == IF k > Len(d) THEN "0" ELSE BN!Add(d[k][2].gas, FoldGas(d, k + 1))
AllDone == pc = "tasks" /\ spawned = PredIdx(tx) /\ Completed = PredIdx(tx)
DoneOk == \A k \in DOMAIN done : done[k][2].ok

\* results are folded in COMPLETION order: the first failure rejects, otherwise the gas is summed
Finalize ==
    /\ AllDone /\ mode = "verify"
    /\ out' = [ok |-> DoneOk, gas |-> IF DoneOk THEN FoldGas(done, 1) ELSE "0", full |-> (sigOk /\ DoneOk), etx |-> <<>>]
    /\ pc' = "final"
    /\ UNCHANGED <<tx, mode, nextSig, cache, sigOk, spawned, done>>

Estimate ==
    /\ AllDone /\ mode = "estimate"
    /\ LET g == [i \in PredIdx(tx) |-> (CHOOSE k \in DOMAIN done : done[k][1] = i)] IN
       out' = [ok |-> DoneOk, gas |-> IF DoneOk THEN FoldGas(done, 1) ELSE "0", full |-> FALSE,
               etx |-> IF DoneOk
                       THEN [tx EXCEPT !.inputs = [i \in InIdx(tx) |->
                                IF i \in PredIdx(tx) THEN [tx.inputs[i] EXCEPT !.gas = done[g[i]][2].gas] ELSE tx.inputs[i]]]
                       ELSE <<>>]
    /\ pc' = "final"
    /\ UNCHANGED <<tx, mode, nextSig, cache, sigOk, spawned, done>>

\* --------------------------------------------------------------- properties
Final == pc = "final"
CacheSound == \A w \in DOMAIN cache : cache[w] = Recovers(tx, w)

AcceptedImpliesAuthorised ==
    (Final /\ mode = "verify" /\ out.full) => AllAuthorised(tx)
\* completeness in the domain the property talks about: an authorised transaction is accepted
AuthorisedImpliesAccepted ==
    (Final /\ mode = "verify" /\ AllAuthorised(tx)) => out.full
SigPhaseSound ==
    (pc \in {"tasks", "final"} /\ mode = "verify") => (sigOk <=> \A i \in SignedIdx(tx) : SigAuth(tx, i))
\* the outcome is a function of the transaction alone, whatever the completion order ...
VerdictOrderIndependent ==
    (Final /\ mode = "verify") => (out.ok = (\A i \in PredIdx(tx) : PredAuth(tx, i)))
\* ... and equals the sequential algorithm's verdict and total gas
SequentialEqualsParallel ==
    (Final /\ mode = "verify") => (out.ok = SeqVerify(tx).ok /\ (out.ok => out.gas = SeqVerify(tx).gas))
EstimateThenVerifyOk ==
    (Final /\ mode = "estimate" /\ out.ok) =>
        /\ out.etx = Estimated(tx)
        /\ SeqVerify(out.etx).ok
        /\ SeqVerify(out.etx).gas = out.gas
EstimateOrderIndependent ==
    (Final /\ mode = "estimate") => (out.ok = EstOk(tx))
\* any change of signed content changes the id; every witness was made over the old id
TamperRejected ==
    (Final /\ mode = "verify" /\ out.full /\ SignedIdx(tx) # {}) =>
        \A id2 \in {"tampered"} : SigVerdicts([tx EXCEPT !.id = id2]) = {FALSE}
=============================================================================
