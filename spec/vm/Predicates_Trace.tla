--------------------------- MODULE Predicates_Trace ---------------------------
(***************************************************************************)
(* impl -> spec: events recorded by harness/src/bin/vh_pred.rs (real       *)
(* transactions, real keys and signatures, real predicate byte code run    *)
(* by the real interpreter) are accepted iff every logged verdict and gas  *)
(* total is the one Predicates.tla defines for the abstract transaction    *)
(* the Tx event denotes.                                                   *)
(*                                                                         *)
(* Abstraction of a Tx event (nothing here comes from the code under       *)
(* test except the transaction id, which is C03's subject):                *)
(*  * address of key K          = SHA-256(public key of K)                 *)
(*  * predicate address         = SHA-256("FUEL" || SHA-256(00 || code     *)
(*                                padded to 8)) (code <= 16 KiB: one leaf) *)
(*  * witness {signer K, over}  = ideal signature of K over `over`         *)
(*  * descriptor programs       : the logged code must be CodeOf(prog) and *)
(*                                its gas need is computed from the        *)
(*                                schedule entries read from the           *)
(*                                implementation (Init-style parameters)   *)
(*  * opaque programs           : outcome is the logged claim (measured    *)
(*                                alone); all other observations of the    *)
(*                                program must be consistent with it.      *)
(***************************************************************************)
EXTENDS Predicates, TraceIO
LOCAL INSTANCE VerifHash
LOCAL INSTANCE Hex
TI == INSTANCE TxId          \* the malleable-field tables (C03)

VARIABLE l
\* the design's variable `tx` holds the transaction the last Tx event denotes; its scheduling variables are idle here
idle == <<mode, pc, nextSig, cache, sigOk, spawned, done, out>>
trVars == <<tx, l, idle>>
e == Rec[l]

AddrOfKey(ev, name) == SHA256(ev.keys[name])
PredAddr(code) == SHA256("4655454c" \o SHA256("00" \o Pad8(code)))

AbsWit(ev, w) == [signer |-> IF w.signer = "none" THEN "none" ELSE AddrOfKey(ev, w.signer), over |-> w.over]
AbsIn(x) ==
    CASE x.k = "signed" -> [k |-> "signed", w |-> x.w, owner |-> x.owner]
      [] x.k = "pred"   -> [k |-> "pred", owner |-> x.owner, root |-> PredAddr(x.code), prog |-> x.prog, gas |-> x.gas]
      [] OTHER -> [k |-> "other"]
AbsTx(ev) == [id |-> ev.id,
              inputs |-> [i \in DOMAIN ev.inputs |-> AbsIn(ev.inputs[i])],
              wits |-> [i \in DOMAIN ev.wits |-> AbsWit(ev, ev.wits[i])],
              cost |-> ev.cost, cap |-> ev.cap]
\* the harness built the byte code the descriptor denotes
CodeOk(x) == (x.k = "pred" /\ ~IsClaim(x.prog)) => (x.code = CodeOf(x.prog))

GasList(t) == [i \in InIdx(t) |-> IF t.inputs[i].k = "pred" THEN t.inputs[i].gas ELSE ""]
WithGases(t, g) == [t EXCEPT !.inputs = [i \in InIdx(t) |-> IF t.inputs[i].k = "pred" THEN [t.inputs[i] EXCEPT !.gas = g[i]] ELSE t.inputs[i]]]

Malleable(ev) ==
    CASE ev.at = "inputs"    -> ev.field \in TI!MalleableInput[ev.kind]
      [] ev.at = "outputs"   -> ev.field \in TI!MalleableOutput[ev.kind]
      [] ev.at = "body"      -> ev.field \in TI!MalleableBody[ev.kind]
      [] ev.at = "witnesses" -> TRUE
      [] ev.at = "shape"     -> ev.field = "append_witness"
      [] OTHER -> FALSE                                     \* policies, chain id, number of inputs / outputs

Have == tx # <<>>

TSeg == IsEv(l, "Seg") /\ tx' = <<>>
TTx  == IsEv(l, "Tx") /\ (\A i \in DOMAIN e.inputs : CodeOk(e.inputs[i])) /\ tx' = AbsTx(e)
TCheckSig == IsEv(l, "CheckSig") /\ Have /\ e.ok \in SigVerdicts(tx) /\ UNCHANGED tx
\* rejected by the basic rules (C19's subject): nothing to say here
TBasic == IsEv(l, "Basic") /\ Have /\ ~e.ok /\ UNCHANGED tx
\* sequential or parallel (any completion order, any memory): the verdict and total gas of the transaction
TCheckPred == IsEv(l, "CheckPred") /\ Have
              /\ LET v == SeqVerify(tx) IN e.ok = v.ok /\ (e.ok => e.gas = v.gas)
              /\ UNCHANGED tx
\* the same check through the Checked<Transaction> wrapper, which reports the verdict only
TCheckPredV == IsEv(l, "CheckPredV") /\ Have /\ e.ok = SeqVerify(tx).ok /\ UNCHANGED tx
TIntoChecked == IsEv(l, "IntoChecked") /\ Have /\ e.ok = AllAuthorised(tx) /\ UNCHANGED tx
TSetGas == IsEv(l, "SetGas") /\ Have /\ tx' = WithGases(tx, e.gases)
TEstimate == IsEv(l, "Estimate") /\ Have
             /\ e.ok = EstOk(tx)
             /\ (e.ok => e.gases = GasList(Estimated(tx)))
             /\ tx' = IF e.ok THEN Estimated(tx) ELSE tx
\* one field of the transaction changed: the id moves iff the field is not malleable, and then every
\* signature was made over another id; a changed witness is nobody's signature
TMutate == IsEv(l, "Mutate") /\ Have /\ SignedIdx(tx) # {}
           /\ LET t2 == IF e.at = "witnesses" THEN [tx EXCEPT !.wits[e.i + 1].signer = "none"] ELSE tx
                  t3 == [t2 EXCEPT !.id = e.id]
              IN  /\ (Malleable(e) <=> (e.id = tx.id))
                  /\ e.sig_ok \in SigVerdicts(t3)
           /\ UNCHANGED tx

TrInit == InitWith(<<>>, "trace") /\ l = 1
TrNext == (TSeg \/ TTx \/ TCheckSig \/ TBasic \/ TCheckPred \/ TCheckPredV \/ TIntoChecked \/ TSetGas \/ TEstimate \/ TMutate) /\ l' = l + 1 /\ UNCHANGED idle
TrSpec == TrInit /\ [][TrNext]_trVars
=============================================================================
