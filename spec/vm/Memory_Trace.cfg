SPECIFICATION TrSpec
CONSTANTS
  MemSize = 67108864
INVARIANTS TypeOK ZeroInit
POSTCONDITION Accepted
CHECK_DEADLOCK FALSE
