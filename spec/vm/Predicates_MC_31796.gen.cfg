SPECIFICATION MCSpec
CONSTANTS
  MaxIn = 3
  Profile = "mixed"
  EmitReplay = TRUE
INVARIANTS CacheSound AcceptedImpliesAuthorised AuthorisedImpliesAccepted SigPhaseSound VerdictOrderIndependent SequentialEqualsParallel EstimateThenVerifyOk EstimateOrderIndependent TamperRejected Emit
CHECK_DEADLOCK FALSE
