INIT Init
NEXT Next
