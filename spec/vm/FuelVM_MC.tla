------------------------------ MODULE FuelVM_MC ------------------------------
(* Leg M for the interpreter: a tiny generative VM.  At every step any word of  *)
(* a small instruction alphabet is executed on the current state through the   *)
(* SAME effect operators the trace specification uses (EffectOf); TLC explores *)
(* all runs up to a depth and checks the design-level properties:               *)
(*   GasInv        $cgas <= $ggas in every state                        (C26)   *)
(*   GasNeverUp    $ggas never increases                                (C26)   *)
(*   WritesOwned   a successful instruction changes memory only inside the      *)
(*                 frame's stack [$ssp,$sp) or heap [$hp, caller's $hp) (C24)   *)
(*   ZeroOutside   bytes outside the accessible regions are zero        (C23)   *)
(*   PcAligned / PcInMemory after every successful step                 (C25)   *)
EXTENDS FuelVM
CONSTANTS Alphabet, MaxDepth, Gas0
Light(b, u) == [k |-> "light", base |-> b, u |-> u]
Schedule == [add |-> "1", sub |-> "1", mul |-> "1", div |-> "1", lw |-> "1", sw |-> "2", aloc |-> Light("1", "64"), cfei |-> Light("1", "64"),
             cfsi |-> "1", pshl |-> "3", popl |-> "3", mcp |-> Light("1", "8"), jmpf |-> "1", jmpb |-> "1", jmp |-> "1", noop |-> "1"]

VARIABLES vm, depth, halted
mcVars == <<vm, depth, halted>>

Regs0 == [r \in 0..63 |->
            IF r = ONE THEN "1" ELSE IF r = HP THEN MemSizeBN ELSE IF r \in {SSP, SP} THEN "128"
            ELSE IF r \in {PC, IS} THEN "64" ELSE IF r \in {GGAS, CGAS} THEN Gas0
            ELSE IF r = 16 THEN "120" ELSE IF r = 17 THEN "67108856" ELSE IF r = 18 THEN "18446744073709551615" ELSE "0"]
Env0 == [gas |-> Schedule, tx_offset |-> 32]
MCInit == /\ vm = [regs |-> Regs0, mem |-> (0 :> ("aa" \o Zeros(63))), slen |-> 128, env |-> Env0, frames |-> <<>>, code |-> <<>>, cbal |-> <<>>, inputs |-> {}, nrc |-> 0, opv |-> <<>>, outs |-> <<>>]
          /\ depth = 0 /\ halted = FALSE

Exec(w) ==
    LET eff == EffectOf(vm, w) IN
    /\ eff.x
    /\ IF ~CanPay(vm, eff.gas)
       THEN vm' = [vm EXCEPT !.regs = WithRegs(vm, OutOfGasRegs(vm))] /\ halted' = TRUE
       ELSE IF eff.pan # {}
       THEN vm' = [vm EXCEPT !.regs = WithRegs(vm, Charged(vm, eff.gas))] /\ halted' = TRUE
       ELSE vm' = [vm EXCEPT !.regs = OkRegs(vm, eff), !.mem = OkMem(vm, eff), !.slen = eff.slen] /\ halted' = FALSE
    /\ depth' = depth + 1

MCNext == ~halted /\ depth < MaxDepth /\ \E w \in Alphabet : Exec(w)
MCSpec == MCInit /\ [][MCNext]_mcVars

GasInv == BN!Le(R(vm, CGAS), R(vm, GGAS))
GasNeverUp == [][BN!Le(vm'.regs[GGAS], vm.regs[GGAS])]_mcVars
ConstRegs == R(vm, ZERO) = "0" /\ R(vm, ONE) = "1"
PcOk == halted \/ (BN!Lt(R(vm, PC), MemSizeBN) /\ BN!Mod(R(vm, PC), "4") = "0")
StackOrder == halted \/ (BN!Le(R(vm, SSP), R(vm, SP)) /\ BN!Le(R(vm, SP), R(vm, HP)) /\ BN!Le(R(vm, HP), MemSizeBN)
                          /\ BN!Le(R(vm, SP), BN!FromNat(vm.slen)))
\* every non-zero page lies in an accessible region
ZeroOutside == \A p \in DOMAIN vm.mem :
                 \/ (p + 1) * PageSize <= vm.slen + PageSize - 1          \* page touches the stack extent
                 \/ (p + 1) * PageSize > HpN(vm)                           \* page touches the heap
\* action property: bytes changed by a step lie in the region owned BEFORE the step or allocated by it
ChangedPages == {p \in (DOMAIN vm.mem) \cup (DOMAIN vm'.mem) : Page(vm.mem, p) # Page(vm'.mem, p)}
WritesOwned == [][\A p \in ChangedPages :
                    \/ (p * PageSize < BN!ToNat(vm'.regs[SP]) /\ (p + 1) * PageSize > BN!ToNat(vm.regs[SSP]))
                    \/ (p + 1) * PageSize > BN!ToNat(vm'.regs[HP])]_mcVars
=============================================================================
