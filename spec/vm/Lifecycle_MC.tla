---------------------------- MODULE Lifecycle_MC ----------------------------
(***************************************************************************)
(* Leg M + generator for Leg R of C35.                                     *)
(*                                                                         *)
(* Universe: 2 contracts (same code, different salt / slots), 2 blobs (one *)
(* empty), 2 byte codes of 3 subsections each (the second one has a        *)
(* shorter last subsection and shares its first subsection with the first),*)
(* 2 byte codes of a single subsection, 2 consensus parameter values,      *)
(* current versions 0..2 (installed versions 1..3), an unknown root.       *)
(* Upload transactions: for every root with n parts the WHOLE grid         *)
(*   index 0..n x total 1..n+1 x bytes of part 1..n x proof of part 1..n   *)
(* classified by the RFC 6962 verifier into valid transactions (genuine    *)
(* subsections AND every aliased (index, total) claim that still verifies) *)
(* and invalid ones (rejected before execution).                           *)
(*                                                                         *)
(* TLC explores every state reachable with weight <= MaxW (weight = number *)
(* of table entries / accepted subsections / moved current versions, a     *)
(* lower bound of the history length, so every history with at most MaxW   *)
(* successful transactions and any number of failing ones is covered) and  *)
(* from EVERY such state applies EVERY transaction of the universe:        *)
(* duplicates, out-of-order and interleaved uploads, upgrades against      *)
(* stale versions, incomplete roots.  For every distinct state one REPLAY  *)
(* line carries a witness history, the predicted table projection and the  *)
(* predicted outcome (success + changed tables | failure + reason) of      *)
(* every valid transaction from it.                                        *)
(***************************************************************************)
EXTENDS Lifecycle, Json
LOCAL HexL == INSTANCE Hex
CONSTANTS MaxW, EmitReplay

B32(b) == HexL!Zeros(31) \o b                  \* 32-byte value ending in byte b
SubSize == 3
CodeSeq == << "a1a2a3b1b2b3c1c2c3",           \* R1: 3 subsections of 3 bytes
              "a1a2a3e1e2e3f1f2",             \* R2: 3 subsections, last one shorter, first equals R1's first
              "d1d2",                         \* R3, R4: a single (short) subsection each - the cheapest complete roots,
              "e9" >>                         \*         so that two complete roots + upgrades fit in a small weight
PartsSeq == [c \in 1..Len(CodeSeq) |-> Chunks(CodeSeq[c], SubSize)]
RootSeq == [c \in 1..Len(CodeSeq) |-> RootOf(PartsSeq[c])]
R1 == RootSeq[1]
R2 == RootSeq[2]
R3 == RootSeq[3]
R4 == RootSeq[4]
RX == B32("ee")                               \* a root nobody uploaded
Roots == {RootSeq[c] : c \in 1..Len(CodeSeq)}
CodeIdx(r) == CHOOSE c \in 1..Len(CodeSeq) : RootSeq[c] = r
Decl == [r \in Roots |-> PartsSeq[CodeIdx(r)]]
CodeOf == [r \in Roots |-> CodeSeq[CodeIdx(r)]]
MaxSubsections == 255

ContractCode == "1a2b3c4d5e6f7081"
CreateTxs == <<
    [k |-> "Create", id |-> "c1", salt |-> B32("01"), code |-> ContractCode, slots |-> (B32("07") :> B32("aa")) @@ (B32("09") :> B32("00"))],
    [k |-> "Create", id |-> "c2", salt |-> B32("02"), code |-> ContractCode, slots |-> Empty] >>
BlobTxs == <<
    [k |-> "Blob", id |-> BlobIdOf("b10b00"), data |-> "b10b00"],
    [k |-> "Blob", id |-> BlobIdOf(""), data |-> ""],
    [k |-> "Blob", id |-> BlobIdOf("ff"), data |-> "b10b00"] >>          \* id does not match: invalid

\* the whole grid of claims about the subsections of root r with n parts:
\*   index 0..n  x  total 1..n+1  x  bytes of part 1..n  x  proof of part 1..n
Grid(r) == LET P == Decl[r]
               n == Len(P) IN
    [j \in 1..((n + 1) * (n + 1) * n * n) |->
        LET i == (j - 1) \div ((n + 1) * n * n)
            t == (((j - 1) \div (n * n)) % (n + 1)) + 1
            b == (((j - 1) \div n) % n) + 1
            q == ((j - 1) % n) + 1
        IN [k |-> "Upload", root |-> r, idx |-> i, total |-> t, bytes |-> P[b], proof |-> ProofOf(P, q),
            code |-> CodeOf[r], size |-> SubSize, part |-> b, proofOf |-> q, n |-> n]]
\* single-field tamperings of a genuine subsection (kept although invalid) + everything that verifies
Genuine(t) == t.idx = t.part - 1 /\ t.total = t.n /\ t.proofOf = t.part
NearGenuine(t) ==
    \/ (t.total = t.n /\ t.proofOf = t.part /\ t.idx # t.part - 1)
    \/ (t.idx = t.part - 1 /\ t.proofOf = t.part /\ t.total # t.n)
    \/ (t.idx = t.proofOf - 1 /\ t.total = t.n /\ t.proofOf # t.part)
UploadTxs(r) == SelectSeq(Grid(r), LAMBDA t : UploadValid(t, MaxSubsections) \/ NearGenuine(t))
\* a genuine subsection of R1 presented under root R2
CrossRoot == [k |-> "Upload", root |-> R2, idx |-> 1, total |-> 3, bytes |-> Decl[R1][2], proof |-> ProofOf(Decl[R1], 2),
              code |-> CodeOf[R1], size |-> SubSize, part |-> 2, proofOf |-> 2, n |-> 3]

UpgradeTxs == <<
    [k |-> "UpgradeConsensusParameters", value |-> "P1"],
    [k |-> "UpgradeConsensusParameters", value |-> "P2"],
    [k |-> "UpgradeStateTransition", root |-> R1],
    [k |-> "UpgradeStateTransition", root |-> R2],
    [k |-> "UpgradeStateTransition", root |-> R3],
    [k |-> "UpgradeStateTransition", root |-> R4],
    [k |-> "UpgradeStateTransition", root |-> RX] >>
EnvTxs == << [k |-> "SetCurCP", v |-> "0"], [k |-> "SetCurCP", v |-> "1"], [k |-> "SetCurCP", v |-> "2"],
             [k |-> "SetCurST", v |-> "0"], [k |-> "SetCurST", v |-> "1"], [k |-> "SetCurST", v |-> "2"] >>

TxSeq == CreateTxs \o BlobTxs \o UploadTxs(R1) \o UploadTxs(R2) \o UploadTxs(R3) \o UploadTxs(R4) \o <<CrossRoot>> \o UpgradeTxs \o EnvTxs
TxValid(t) == CASE t.k = "Upload" -> UploadValid(t, MaxSubsections)
                [] t.k = "Blob" -> BlobValid(t)
                [] OTHER -> TRUE
ValidSeq == [i \in 1..Len(TxSeq) |-> TxValid(TxSeq[i])]
FanSeq == SelectSeq([i \in 1..Len(TxSeq) |-> i], LAMBDA i : ValidSeq[i])   \* invalid transactions are state independent
\* invalid transactions are rejected in every state: the model steps through one representative per kind only
InvalidReps == {CHOOSE i \in 1..Len(TxSeq) : ~ValidSeq[i] /\ TxSeq[i].k = "Upload",
                CHOOSE i \in 1..Len(TxSeq) : ~ValidSeq[i] /\ TxSeq[i].k = "Blob"}
StepIdx == {i \in 1..Len(TxSeq) : ValidSeq[i]} \cup InvalidReps
KindIdx(K) == {i \in StepIdx : TxSeq[i].k \in K}

ASSUME PartsOk(Decl)
ASSUME Cardinality(Roots) = Len(CodeSeq)
ASSUME EmitReplay => PrintT("LCCFG" \o ToJson([txs |-> TxSeq, valid |-> ValidSeq, maxw |-> MaxW,
                                               maxSubsections |-> MaxSubsections,
                                               roots |-> [r \in DOMAIN CodeOf |-> [code |-> CodeOf[r], size |-> SubSize, n |-> Len(Decl[r])]]]))

VARIABLE hist                                   \* witness history: indices of the state-changing steps
mcVars == <<lc, last, hist>>

Accepted(s, r) == IF r \notin DOMAIN s.uploads THEN 0
                  ELSE IF s.uploads[r].st = "C" THEN Len(s.parts[r]) ELSE s.uploads[r].n
Weight(s) == Cardinality(DOMAIN s.contracts) + Cardinality(DOMAIN s.blobs)
             + Accepted(s, R1) + Accepted(s, R2) + Accepted(s, R3) + Accepted(s, R4)
             + Cardinality(DOMAIN s.cpv) + Cardinality(DOMAIN s.stv)
             + (IF s.curCP = "0" THEN 0 ELSE 1) + (IF s.curST = "0" THEN 0 ELSE 1)

MCInit == lc = InitState(Decl) /\ last = NoTx /\ hist = <<>>
Do(i) == /\ Step(TxSeq[i], ValidSeq[i])
         /\ Weight(lc') <= MaxW
         /\ hist' = IF lc' # lc THEN Append(hist, i) ELSE hist
\* (each disjunct is a conjunction of its own so that TLC's coverage reports it under its own name)
ACreate    == \E i \in KindIdx({"Create"}) : Do(i) /\ TxSeq[i].k = "Create"
ABlob      == \E i \in KindIdx({"Blob"}) : Do(i) /\ TxSeq[i].k = "Blob"
AUpload    == \E i \in KindIdx({"Upload"}) : Do(i) /\ TxSeq[i].k = "Upload"
AUpgradeCP == \E i \in KindIdx({"UpgradeConsensusParameters"}) : Do(i) /\ TxSeq[i].k = "UpgradeConsensusParameters"
AUpgradeST == \E i \in KindIdx({"UpgradeStateTransition"}) : Do(i) /\ TxSeq[i].k = "UpgradeStateTransition"
AEnv       == \E i \in KindIdx(EnvKinds) : Do(i) /\ TxSeq[i].k \in EnvKinds
MCNext == ACreate \/ ABlob \/ AUpload \/ AUpgradeCP \/ AUpgradeST \/ AEnv
MCSpec == MCInit /\ [][MCNext]_mcVars

View == lc

Delta(p, q) == [f \in {g \in DOMAIN p : p[g] # q[g]} |-> q[f]]
\* (values are bound through singleton sets: TLC re-evaluates LET definitions at every use)
Only(S) == CHOOSE x \in S : TRUE
FanPos == [j \in 1..Len(FanSeq) |-> j]
Line == Only({ [path |-> hist, w |-> Weight(lc), pre |-> pj,
                \* transactions that succeed from this state, with the tables they change
                ok |-> Only({ [k \in 1..Len(oks) |-> [i |-> FanSeq[oks[k]], d |-> Delta(pj, Proj(outs[oks[k]].s))]]
                              : oks \in {SelectSeq(FanPos, LAMBDA j : outs[j].ok)} }),
                \* transactions that fail from this state (tables unchanged), grouped by the rule that rejects them
                fail |-> [y \in {outs[j].why : j \in {jj \in 1..Len(FanSeq) : ~outs[jj].ok}} |->
                             Only({ [k \in 1..Len(fs) |-> FanSeq[fs[k]]] : fs \in {SelectSeq(FanPos, LAMBDA j : ~outs[j].ok /\ outs[j].why = y)} })]]
               : pj \in {Proj(lc)}, outs \in {[j \in 1..Len(FanSeq) |-> Apply(lc, TxSeq[FanSeq[j]], TRUE)]} })
Emit == EmitReplay => PrintT("REPLAY" \o ToJson(Line))

\* every aliased claim that verifies was found by the grid (sanity of the universe: at least the three known ones)
AliasesPresent == \E i \in 1..Len(TxSeq) : LET t == TxSeq[i] IN
                     t.k = "Upload" /\ ValidSeq[i] /\ ~Genuine(t) /\ t.idx = 1 /\ t.total = 2 /\ t.part = 3
=============================================================================
