------------------------------ MODULE VmAssets ------------------------------
(***************************************************************************)
(* Asset instructions (C27): TR, TRO, MINT, BURN, SMO, BAL.                *)
(* Balances live in vm.cbal (contract id -> asset id -> amount; absent =   *)
(* no storage entry) and in the free-balance table in VM memory.           *)
(* vm.outs : the transaction outputs [kind, off (address of the output in  *)
(*           VM memory), to, amount, asset]; TRO fills a Variable output    *)
(*           whose amount is still 0.                                       *)
(* Every successful movement debits exactly one source and credits exactly  *)
(* one destination with the same amount and emits the matching receipt.     *)
(***************************************************************************)
EXTENDS VmBase, VmCall

NewEntryGas(vm) == Sat64(BN!Mul("40", GasOf(vm, "new_storage_per_byte")))
\* debit `amount` of `asset` from the active context's funds: [ok, cbal', wr]
Debit(vm, asset, amount) ==
    IF amount = "0" THEN [ok |-> TRUE, cbal |-> vm.cbal, wr |-> <<>>]
    ELSE IF InCall(vm)
    THEN LET bal == CBal(vm, CurContract(vm), asset) IN
         IF BN!Lt(bal, amount) THEN [ok |-> FALSE, cbal |-> vm.cbal, wr |-> <<>>]
         ELSE [ok |-> TRUE, cbal |-> CBalSet(vm.cbal, CurContract(vm), asset, BN!Sub(bal, amount)), wr |-> <<>>]
    ELSE LET bal == FreeBal(vm, asset)  slot == FreeSlot(vm, asset) IN
         IF BN!Lt(bal, amount) \/ slot = NoSlot THEN [ok |-> FALSE, cbal |-> vm.cbal, wr |-> <<>>]
         ELSE [ok |-> TRUE, cbal |-> vm.cbal, wr |-> <<<<BalTableAt(slot) + 32, BEBig(BN!Sub(bal, amount), 8)>>>>]

TrEff(vm, w) ==
    LET pd == Ro(vm, RA(w))  amount == Ro(vm, RB(w))  pas == Ro(vm, RC(w))
        rp == ReadPanics(vm, pd, "32") \cup ReadPanics(vm, pas, "32")
        dest  == IF rp = {} THEN MemRead(vm, pd, "32") ELSE Zero32
        asset == IF rp = {} THEN MemRead(vm, pas, "32") ELSE Zero32
        deb == Debit(vm, asset, amount)
        vm1 == [vm EXCEPT !.cbal = deb.cbal]
        newEntry == amount # "0" /\ ~CBalHas(vm1, dest, asset)
        over == BN!Lt(BN!Max64, BN!Add(CBal(vm1, dest, asset), amount))
        pan == rp \cup (IF rp = {} /\ dest \notin vm.inputs THEN {"ContractNotInInputs"} ELSE {})
                  \cup (IF amount = "0" THEN {"TransferZeroCoins"} ELSE {})
                  \cup (IF rp = {} /\ ~deb.ok THEN {"NotEnoughBalance"} ELSE {})
                  \cup (IF rp = {} /\ deb.ok /\ over THEN {"BalanceOverflow"} ELSE {})
                  \cup RcptPan(vm)
    IN [Eff(BN!Add(GasOf(vm, "tr"), IF newEntry THEN NewEntryGas(vm) ELSE "0"), pan, StepPc(vm),
            IF pan = {} THEN deb.wr ELSE <<>>, vm.slen)
        EXCEPT !.rc = <<Rc("Transfer", [id |-> CurContract(vm), to |-> dest, amount |-> amount, asset_id |-> asset,
                                        pc |-> R(vm, PC), is |-> R(vm, IS)])>>,
               !.upd = [cbal |-> CBalSet(deb.cbal, dest, asset, BN!Add(CBal(vm1, dest, asset), amount))],
               !.gst = {GasOf(vm, "tr")}]

VariableBytes(to, amount, asset) == BE(3, 8) \o to \o BEBig(amount, 8) \o asset
TroEff(vm, w) ==
    LET pto == Ro(vm, RA(w))  idx == Ro(vm, RB(w))  amount == Ro(vm, RC(w))  pas == Ro(vm, RD(w))
        rp == ReadPanics(vm, pto, "32") \cup ReadPanics(vm, pas, "32")
        to    == IF rp = {} THEN MemRead(vm, pto, "32") ELSE Zero32
        asset == IF rp = {} THEN MemRead(vm, pas, "32") ELSE Zero32
        deb == Debit(vm, asset, amount)
        i == IF BN!Lt(idx, BN!FromNat(Len(vm.outs))) THEN BN!ToNat(idx) + 1 ELSE 0
        free == i > 0 /\ vm.outs[i].kind = "Variable" /\ vm.outs[i].amount = "0"
        pan == rp \cup (IF amount = "0" THEN {"TransferZeroCoins"} ELSE {})
                  \cup (IF rp = {} /\ ~deb.ok THEN {"NotEnoughBalance"} ELSE {})
                  \cup (IF ~free THEN {"OutputNotFound"} ELSE {})
                  \cup RcptPan(vm)
    IN [Eff(GasOf(vm, "tro"), pan, StepPc(vm),
            IF pan = {} THEN deb.wr \o <<<<vm.outs[i].off, VariableBytes(to, amount, asset)>>>> ELSE <<>>, vm.slen)
        EXCEPT !.rc = <<Rc("TransferOut", [id |-> CurContract(vm), to |-> to, amount |-> amount, asset_id |-> asset,
                                           pc |-> R(vm, PC), is |-> R(vm, IS)])>>,
               !.upd = IF pan = {} THEN [cbal |-> deb.cbal,
                                         outs |-> [vm.outs EXCEPT ![i] = [@ EXCEPT !.to = to, !.amount = amount, !.asset = asset]]]
                       ELSE <<>>]

\* the asset minted / burned by a contract: SHA-256(contract id || sub id)
SubAsset(c, sub) == SHA256(c \o sub)
MintEff(vm, w) ==
    LET amount == Ro(vm, RA(w))  psub == Ro(vm, RB(w))
        rp  == ReadPanics(vm, psub, "32")
        sub == IF rp = {} THEN MemRead(vm, psub, "32") ELSE Zero32
        c   == CurContract(vm)
        asset == SubAsset(c, sub)
        newEntry == ~CBalHas(vm, c, asset)
        over == BN!Lt(BN!Max64, BN!Add(CBal(vm, c, asset), amount))
        pan == (IF ~InCall(vm) THEN {"ExpectedInternalContext"} ELSE rp \cup (IF rp = {} /\ over THEN {"BalanceOverflow"} ELSE {}))
               \cup RcptPan(vm)
    IN [Eff(BN!Add(GasOf(vm, "mint"), IF InCall(vm) /\ newEntry THEN NewEntryGas(vm) ELSE "0"), pan, StepPc(vm), <<>>, vm.slen)
        EXCEPT !.rc = <<Rc("Mint", [sub_id |-> sub, contract_id |-> c, val |-> amount, pc |-> R(vm, PC), is |-> R(vm, IS)])>>,
               !.upd = [cbal |-> CBalSet(vm.cbal, c, asset, BN!Add(CBal(vm, c, asset), amount))],
               !.gst = {GasOf(vm, "mint")}]
BurnEff(vm, w) ==
    LET amount == Ro(vm, RA(w))  psub == Ro(vm, RB(w))
        rp  == ReadPanics(vm, psub, "32")
        sub == IF rp = {} THEN MemRead(vm, psub, "32") ELSE Zero32
        c   == CurContract(vm)
        asset == SubAsset(c, sub)
        short == BN!Lt(CBal(vm, c, asset), amount)
        pan == (IF ~InCall(vm) THEN {"ExpectedInternalContext"} ELSE rp \cup (IF rp = {} /\ short THEN {"NotEnoughBalance"} ELSE {}))
               \cup RcptPan(vm)
    IN [Eff(GasOf(vm, "burn"), pan, StepPc(vm), <<>>, vm.slen)
        EXCEPT !.rc = <<Rc("Burn", [sub_id |-> sub, contract_id |-> c, val |-> amount, pc |-> R(vm, PC), is |-> R(vm, IS)])>>,
               !.upd = [cbal |-> CBalSet(vm.cbal, c, asset, BN!SatSub(CBal(vm, c, asset), amount))]]

\* message to the base layer: the amount leaves the active context's BASE ASSET funds
SmoEff(vm, w) ==
    LET prec == Ro(vm, RA(w))  pdata == Ro(vm, RB(w))  len == Ro(vm, RC(w))  amount == Ro(vm, RD(w))
        tooLong == BN!Lt(vm.env.max_message_data_length, len)
        rp == IF tooLong THEN {} ELSE ReadPanics(vm, pdata, len) \cup ReadPanics(vm, prec, "32") \cup ReadPanics(vm, R(vm, FP), "32")
        data == IF ~tooLong /\ rp = {} THEN MemRead(vm, pdata, len) ELSE ""
        recipient == IF ~tooLong /\ rp = {} THEN MemRead(vm, prec, "32") ELSE Zero32
        sender == IF ~tooLong /\ rp = {} THEN MemRead(vm, R(vm, FP), "32") ELSE Zero32
        base == vm.env.base_asset
        deb == Debit(vm, base, amount)
        pan == (IF tooLong THEN {"MessageDataTooLong"} ELSE {}) \cup rp
               \cup (IF ~tooLong /\ rp = {} /\ ~deb.ok THEN {"NotEnoughBalance"} ELSE {}) \cup RcptPan(vm)
        txid == ReadBytes(vm.mem, 0, 32)
    IN [Eff(Dep(GasOf(vm, "smo"), len), pan, StepPc(vm), IF pan = {} THEN deb.wr ELSE <<>>, vm.slen)
        EXCEPT !.rc = <<Rc("MessageOut", [sender |-> sender, recipient |-> recipient, amount |-> amount,
                                          nonce |-> SHA256(txid \o BE(vm.nrc, 8)), len |-> len, digest |-> SHA256(data), data |-> data])>>,
               !.upd = [cbal |-> deb.cbal]]

BalEff(vm, w) ==
    LET pas == Ro(vm, RB(w))  pc == Ro(vm, RC(w))
        rp == ReadPanics(vm, pas, "32") \cup ReadPanics(vm, pc, "32")
        asset == IF rp = {} THEN MemRead(vm, pas, "32") ELSE Zero32
        c     == IF rp = {} THEN MemRead(vm, pc, "32") ELSE Zero32
        pan == rp \cup (IF rp = {} /\ c \notin vm.inputs THEN {"ContractNotInInputs"} ELSE {}) \cup DestPan(RA(w))
    IN Eff(GasOf(vm, "bal"), pan, (RA(w) :> CBal(vm, c, asset)) @@ StepPc(vm), <<>>, vm.slen)

AssetNames == {"TR", "TRO", "MINT", "BURN", "SMO", "BAL"}
AssetEff(vm, n, w) ==
    CASE n = "TR" -> TrEff(vm, w) [] n = "TRO" -> TroEff(vm, w) [] n = "MINT" -> MintEff(vm, w)
      [] n = "BURN" -> BurnEff(vm, w) [] n = "SMO" -> SmoEff(vm, w) [] n = "BAL" -> BalEff(vm, w)
=============================================================================
