----------------------------- MODULE VmMeta_MC -----------------------------
(***************************************************************************)
(* Leg M + generator of Leg R for C05.                                     *)
(*                                                                         *)
(* One TLC state per case <<transaction kind, policy mask, input order,    *)
(* selector, index>> on MODEL TRANSACTIONS that contain every input        *)
(* variant, every output kind, witnesses of lengths 0 / 5 / 8, storage     *)
(* slots, a proof set, both upgrade purposes.  The invariants state the    *)
(* finite decision table "selector applies to kind / variant, index bound, *)
(* value or pointer, which panic otherwise" as laws (totality,             *)
(* consistency) independently of how GtfOutcomes is written, and tie every *)
(* pointer answer to the encoding: the bytes of Enc(tx) at the returned    *)
(* offset are the canonical bytes of the field.                            *)
(* For each model transaction one line "REPLAY{tx, pidx, cases}" lists the *)
(* admissible outcomes of every case; the harness performs them on the     *)
(* real interpreter (predicate context).  The VM zeroes the malleable      *)
(* fields before placing the transaction in memory, so the prediction is   *)
(* computed on Placed(tx).                                                 *)
(***************************************************************************)
EXTENDS VmMeta, Json
CONSTANTS Thorough, EmitReplay
VARIABLES c, tx, img, outs

BNs(n) == BN!FromNat(n)
H(n) == Cat([i \in 1..32 |-> BE(n, 1)])                           \* 32 bytes of value n
HB(n, len) == Cat([i \in 1..len |-> BE((n + i) % 256, 1)])        \* len bytes n+1, n+2, ...
Utxo(n) == [tx_id |-> H(n), output_index |-> BNs(n)]
Tp == [block_height |-> "7", tx_index |-> "5"]

InputsA == <<
    [kind |-> "CoinSigned", utxo_id |-> Utxo(1), owner |-> H(2), amount |-> "100", asset_id |-> H(3), tx_pointer |-> Tp, witness_index |-> "1"],
    [kind |-> "CoinPredicate", utxo_id |-> Utxo(4), owner |-> H(5), amount |-> "18446744073709551615", asset_id |-> H(6), tx_pointer |-> Tp,
     predicate_gas_used |-> "77", predicate |-> HB(10, 5), predicate_data |-> HB(20, 9)],
    [kind |-> "Contract", utxo_id |-> Utxo(7), balance_root |-> H(8), state_root |-> H(9), tx_pointer |-> Tp, contract_id |-> H(10)],
    [kind |-> "MessageCoinSigned", sender |-> H(11), recipient |-> H(12), amount |-> "5", nonce |-> H(13), witness_index |-> "2"],
    [kind |-> "MessageCoinPredicate", sender |-> H(14), recipient |-> H(15), amount |-> "0", nonce |-> H(16), predicate_gas_used |-> "9",
     predicate |-> HB(30, 8), predicate_data |-> ""],
    [kind |-> "MessageDataSigned", sender |-> H(17), recipient |-> H(18), amount |-> "6", nonce |-> H(19), witness_index |-> "0", data |-> HB(40, 3)],
    [kind |-> "MessageDataPredicate", sender |-> H(20), recipient |-> H(21), amount |-> "7", nonce |-> H(22), predicate_gas_used |-> "1",
     data |-> HB(50, 17), predicate |-> HB(60, 12), predicate_data |-> HB(70, 1)] >>
Reverse(s) == [i \in 1..Len(s) |-> s[Len(s) + 1 - i]]
InputsOf(order) == IF order = 1 THEN InputsA ELSE Reverse(InputsA)
\* the 0-based index of a predicate input (the predicate "being verified" in the replay)
PredIdx(order) == IF order = 1 THEN 1 ELSE 0
\* the 0-based index of an input with an owner, for the owner policy
OwnerIdx(order) == IF order = 1 THEN "1" ELSE "3"

Outputs == <<
    [kind |-> "Coin", to |-> H(31), amount |-> "9", asset_id |-> H(32)],
    [kind |-> "Contract", input_index |-> "2", balance_root |-> H(33), state_root |-> H(34)],
    [kind |-> "Change", to |-> H(35), amount |-> "10", asset_id |-> H(36)],
    [kind |-> "Variable", to |-> H(37), amount |-> "11", asset_id |-> H(38)],
    [kind |-> "ContractCreated", contract_id |-> H(39), state_root |-> H(40)] >>
Witnesses == <<"", HB(1, 5), HB(2, 8)>>
PolicyVals(order) == <<"11", "22", "33", "44", "55", OwnerIdx(order)>>
Policies(mask, order) == [mask |-> mask, vals |-> [i \in 1..6 |-> IF TX!BitSet(mask, i - 1) THEN PolicyVals(order)[i] ELSE "0"]]
Common(mask, order) == [policies |-> Policies(mask, order), inputs |-> InputsOf(order), outputs |-> Outputs, witnesses |-> Witnesses]

ModelKinds == {"Script", "Create", "UpgradeCP", "UpgradeST", "Upload", "Blob"}
ModelTx(k, mask, order) ==
    Common(mask, order) @@
    CASE k = "Script" -> [kind |-> "Script", script_gas_limit |-> "1000", receipts_root |-> H(99), script |-> HB(5, 6), script_data |-> HB(6, 11)]
      [] k = "Create" -> [kind |-> "Create", bytecode_witness_index |-> "2", salt |-> H(41),
                          storage_slots |-> <<[key |-> H(42), value |-> H(43)], [key |-> H(44), value |-> H(45)]>>]
      [] k = "UpgradeCP" -> [kind |-> "Upgrade", purpose |-> [kind |-> "ConsensusParameters", witness_index |-> "1", checksum |-> H(46)]]
      [] k = "UpgradeST" -> [kind |-> "Upgrade", purpose |-> [kind |-> "StateTransition", root |-> H(47)]]
      [] k = "Upload" -> [kind |-> "Upload", root |-> H(48), witness_index |-> "1", subsection_index |-> "2", subsections_number |-> "3",
                          proof_set |-> <<H(49), H(50), H(51)>>]
      [] k = "Blob" -> [kind |-> "Blob", id |-> H(52), witness_index |-> "0"]
\* the transaction as the VM places it in memory: malleable fields zeroed, witnesses kept
Placed(t) == [TX!PrepareSign(t) EXCEPT !.witnesses = t.witnesses]

Masks == IF Thorough THEN {0, 63, 42, 21, 32, 8} ELSE {42}
Orders == IF Thorough THEN {1, 2} ELSE {1}
Undefined == {0, 8, 15, 16, 256, 267, 520, 526, 546, 575, 588, 773, 774, 777, 1026, 1279, 1287, 1542, 1794, 2049, 2303, 2310, 4095}
Sels == GtfSelectors \cup Undefined
Idx == {BNs(i) : i \in 0..8} \cup {"65535", "65536", "4294967295", "4294967296", "18446744073709551615"}

\* state: stage 0 = start; stage 1 = a model transaction has been chosen (tx = the transaction as placed in memory);
\* stage 2 = a case (selector, index) on it
TxOff == 10272
MCInit == c = [stage |-> 0] /\ tx = <<>> /\ img = "" /\ outs = {}
PickTx ==
    /\ c.stage = 0
    /\ \E k \in ModelKinds, m \in Masks, o \in Orders :
          /\ c' = [stage |-> 1, kind |-> k, mask |-> m, order |-> o]
          /\ tx' = Placed(ModelTx(k, m, o))
          /\ img' = TX!Enc(TX!TransactionT, Placed(ModelTx(k, m, o)))
    /\ UNCHANGED outs
PickCase ==
    /\ c.stage = 1
    /\ \E s \in Sels, b \in Idx :
          /\ c' = [stage |-> 2, kind |-> c.kind, mask |-> c.mask, order |-> c.order, sel |-> s, b |-> b]
          /\ outs' = GtfOutcomes(tx, TxOff, s, b)
    /\ UNCHANGED <<tx, img>>
MCNext == PickTx \/ PickCase
MCSpec == MCInit /\ [][MCNext]_<<c, tx, img, outs>>

Tx == tx
Outs == outs
Def == c.sel \in GtfSelectors
RowC == GtfTable[c.sel]
Applies == Def /\ Tx.kind \in RowC.k \cup RowC.g
Listed == Applies /\ RowC.sc \in ListScopes
ListC == Tx[ScopeList(RowC.sc)]
InRange == BN!Lt(c.b, BNs(Len(ListC)))
Elem == ListC[BN!ToNat(c.b) + 1]
Good(S) == {o \in S : o.ok}
Bad(S) == {o \in S : ~o.ok}

\* ---- the decision table as laws ----
Total == Outs # {}
\* at most one answer and at most one refusal; two outcomes only where the table declares a choice
OutcomeShape == /\ Cardinality(Good(Outs)) <= 1
                /\ (IF Listed THEN Bad(Outs) \subseteq Fails(RowC.nf \cup {IMI}) ELSE Cardinality(Bad(Outs)) <= 1)
                /\ \A o \in Outs : o.ok => (o.ptr <=> RowC.r \in PointerKinds)
UnknownSelector == ~Def => Outs = {Fail(IMI)}
WrongKind == Def =>
    /\ (Tx.kind \notin RowC.k \cup RowC.g => Outs = {Fail(IMI)})
    /\ (Tx.kind \in RowC.g => Fail(IMI) \in Outs)
    /\ ((Tx.kind \in RowC.k /\ Fail(IMI) \in Outs) => (Listed /\ (~InRange \/ IMI \in RowC.nf)))
    /\ RowC.k \cap RowC.g = {}
\* an index outside the list always fails, with the list's not-found reason or as an invalid identifier
OutOfRange == (Listed /\ ~InRange) => (Outs = Fails(RowC.nf \cup {IMI}) /\ ScopeMiss(RowC.sc) \in RowC.nf)
\* an element that is there, of a variant the selector is for, with the field present on the wire: exactly one answer
InRangeAnswered ==
    (Listed /\ InRange /\ Tx.kind \in RowC.k) =>
        LET typed == RowC.sc \in {"input", "output"}
            other == typed /\ Elem.kind \notin RowC.fam \cup RowC.gfam
            gray  == typed /\ (Elem.kind \in RowC.gfam
                               \/ (RowC.sc = "input" /\ RowC.p # <<>> /\ Elem.kind \in RowC.fam /\ RowC.p[1] \in TX!Variant(TX!InputT, Elem.kind).absent))
        IN /\ (other => Outs = Fails(RowC.nf))
           /\ ((~other /\ ~gray) => (Cardinality(Outs) = 1 /\ Good(Outs) = Outs))
           /\ ((~other /\ gray) => (Cardinality(Good(Outs)) = 1 /\ Bad(Outs) = Fails(RowC.nf)))
\* tx-level selectors ignore the index
IndexIgnored == (Applies /\ RowC.sc \in {"tx", "policy"}) => Outs = GtfOutcomes(Tx, TxOff, c.sel, "0")
PolicyLaw == (Applies /\ RowC.sc = "policy") =>
    LET i == PolicyIdx(RowC.p[1]) IN
    Outs = IF TX!BitSet(c.mask, i - 1) THEN {Ok(PolicyVals(c.order)[i])} ELSE {Fail("PolicyIsNotSet")}
\* every pointer answer lies in the transaction image, word aligned, and the encoding holds the field's bytes there
Image == img
PointerInImage == \A o \in Good(Outs) : o.ptr =>
    LET a == BN!ToNat(o.val) - TxOff  n == BLen(o.bytes) IN
    /\ BN!ToNat(o.val) >= TxOff
    /\ a + n <= BLen(Image)
    /\ a % 8 = 0 /\ n % 8 = 0
    /\ Slice(Image, a, n) = o.bytes
ValueFits == \A o \in Good(Outs) : BN!Lt(o.val, BN!Two64)
\* the malleable fields are zero where the VM placed the transaction
ZeroedLaw == /\ (c.sel = 545 /\ InRange /\ Elem.kind = "Contract") => Good(Outs) = {Ok("0")}
             /\ (c.sel \in {525, 587} /\ InRange /\ Elem.kind \in TX!PredicateKinds /\ Elem.kind \in RowC.fam) => Good(Outs) = {Ok("0")}
             /\ (c.sel = 770 /\ InRange /\ Elem.kind \in {"Change", "Variable"}) => Good(Outs) = {Ok("0")}
\* the deprecated aliases agree with the generic selectors on their own kind
Alias == (5 :> 2304) @@ (6 :> 2305) @@ (7 :> 2306) @@ (11 :> 2307) @@ (12 :> 2308) @@ (13 :> 2309)
         @@ (259 :> 2304) @@ (260 :> 2305) @@ (261 :> 2306) @@ (264 :> 2307) @@ (265 :> 2308) @@ (266 :> 2309)
AliasesAgree == (c.sel \in DOMAIN Alias /\ Tx.kind \in RowC.k) => Outs = GtfOutcomes(Tx, TxOff, Alias[c.sel], c.b)
TableWellFormed ==
    /\ \A s \in GtfSelectors : LET r == GtfTable[s] IN
          /\ s \in 1..4095
          /\ r.k # {} /\ r.k \cup r.g \subseteq AllKinds /\ r.k \cap r.g = {}
          /\ r.fam \cap r.gfam = {}
          /\ (r.sc = "input" => r.fam \cup r.gfam \subseteq AnyIn) /\ (r.sc = "output" => r.fam \cup r.gfam \subseteq AnyOut)
          /\ r.sc \in ListScopes \cup {"tx", "policy"}
          /\ (r.sc \in ListScopes <=> r.nf # {}) /\ (r.sc \in ListScopes => ScopeMiss(r.sc) \in r.nf)
    /\ \A s, t \in GtfSelectors : (GtfTable[s].n = GtfTable[t].n) => s = t
    /\ Cardinality(GtfSelectors) = 82

\* the laws hold in every state that is a case
Case == c.stage = 2
I_Total == Case => Total
I_OutcomeShape == Case => OutcomeShape
I_UnknownSelector == Case => UnknownSelector
I_WrongKind == Case => WrongKind
I_OutOfRange == Case => OutOfRange
I_InRangeAnswered == Case => InRangeAnswered
I_IndexIgnored == Case => IndexIgnored
I_PolicyLaw == Case => PolicyLaw
I_PointerInImage == Case => PointerInImage
I_ValueFits == Case => ValueFits
I_ZeroedLaw == Case => ZeroedLaw
I_AliasesAgree == Case => AliasesAgree

\* ---- GM on a model machine: external script, predicate, call depth 1 and 2 ----
F1 == 12000  F2 == 13000
CA == H(200)  CB == H(201)
Ctxs == {"script", "predicate", "call1", "call2"}
ModelVm(cx) ==
    LET fp == IF cx = "call1" THEN F1 ELSE IF cx = "call2" THEN F2 ELSE 0
        m1 == WriteBytes(<<>>, F1, CA \o Zeros(32) \o Zeros(8 * 64))
        m2 == WriteBytes(m1, F2, CB \o Zeros(32) \o Zeros(8 * FP) \o BE(F1, 8) \o Zeros(8 * (63 - FP)))
    IN [regs |-> [r \in 0..63 |-> IF r = FP THEN BNs(fp) ELSE IF r = ONE THEN "1" ELSE "0"], mem |-> m2, slen |-> 14000,
        env |-> [tx_offset |-> TxOff, chain_id |-> "9", gas_price |-> "3", base_asset |-> H(77), gas |-> [gtf |-> "2", gm |-> "3"]],
        frames |-> <<>>, opv |-> <<>>, tx |-> Tx,
        ctx |-> [kind |-> IF cx \in {"call1", "call2"} THEN "call" ELSE cx, pidx |-> PredIdx(c.order),
                 frames |-> IF cx = "call1" THEN <<CA>> ELSE IF cx = "call2" THEN <<CA, CB>> ELSE <<>>]]
Imms == 0..10 \cup {63, 64, 262143}
Rep == c.stage = 1                                 \* one state per model transaction
GmTotal == Rep => \A cx \in Ctxs, imm \in Imms : GmOutcomes(ModelVm(cx), imm) # {}
GmContext == Rep =>
    /\ \A cx \in Ctxs, imm \in Imms \ GmSelectors : GmOutcomes(ModelVm(cx), imm) = {Fail(IMI)}
    /\ \A cx \in {"script", "predicate"} : /\ GmOutcomes(ModelVm(cx), 1) = {Fail("ExpectedInternalContext")}
                                           /\ GmOutcomes(ModelVm(cx), 2) = {Fail("ExpectedInternalContext")}
    /\ GmOutcomes(ModelVm("call1"), 1) = {Ok("1")} /\ GmOutcomes(ModelVm("call1"), 2) = {Fail("ExpectedNestedCaller")}
    /\ GmOutcomes(ModelVm("call2"), 1) = {Ok("0")} /\ GmOutcomes(ModelVm("call2"), 2) = {PtrAt(F1, CA)}
    /\ \A cx \in Ctxs : /\ GmOutcomes(ModelVm(cx), 3) = IF cx = "predicate" THEN {Ok(BNs(PredIdx(c.order)))} ELSE {Fail("TransactionValidity")}
                        /\ GmOutcomes(ModelVm(cx), 4) = {Ok("9")}
                        /\ GmOutcomes(ModelVm(cx), 5) = {Ok(BNs(TxOff))}
                        /\ GmOutcomes(ModelVm(cx), 6) = {PtrAt(32, H(77))}
                        /\ GmOutcomes(ModelVm(cx), 7) = IF cx = "predicate" THEN {Fail("CanNotGetGasPriceInPredicate")} ELSE {Ok("3")}
    \* owner: nominated by the policy; the model inputs have pairwise different owners, so without the policy it is unknown
    /\ LET o == GmOutcomes(ModelVm("script"), 8) IN
       IF TX!BitSet(c.mask, 5)
       THEN \E x \in o : o = {x} /\ x.ok /\ x.ptr /\ x.bytes = OwnerOf(Tx, BN!ToNat(OwnerIdx(c.order)) + 1)
                         /\ Slice(Image, BN!ToNat(x.val) - TxOff, 32) = x.bytes
       ELSE o = {Fail("OwnerIsUnknown")}

\* ---- Leg R: all cases of one model transaction on one line ----
CaseOf(sel, b) == [sel |-> sel, b |-> b, name |-> IF sel \in GtfSelectors THEN GtfTable[sel].n ELSE "undefined", kind |-> Tx.kind,
                   id |-> <<c.kind, c.mask, c.order>>,
                   outs |-> {[ok |-> o.ok, ptr |-> o.ptr, val |-> o.val, bytes |-> o.bytes, why |-> o.why] : o \in GtfOutcomes(Tx, 0, sel, b)}]
Emit == (EmitReplay /\ Rep) =>
    PrintT("REPLAY" \o ToJson([tx |-> ModelTx(c.kind, c.mask, c.order), pidx |-> PredIdx(c.order),
                               cases |-> {CaseOf(s, b) : s \in Sels, b \in Idx}]))
=============================================================================
