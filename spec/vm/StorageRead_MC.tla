---------------------------- MODULE StorageRead_MC ----------------------------
(***************************************************************************)
(* Leg M + generator of Leg R for the storage read contract (C36).         *)
(* One initial state per case <<value length | missing, offset, buffer     *)
(* length>> of the grid; for each case the invariants state the contract   *)
(* as laws over the three operators (independently of how they are         *)
(* written), and Emit prints what the specification predicts for the three *)
(* reads; the harness performs them on the real MemoryStorage tables.      *)
(***************************************************************************)
EXTENDS Integers, Sequences, FiniteSets, TLC, Json, StorageRead
LOCAL INSTANCE Hex

CONSTANTS MaxLen,      \* value lengths 0..MaxLen
          MaxOff,      \* offsets 0..MaxOff
          MaxBuf,      \* buffer lengths 0..MaxBuf
          EmitReplay

VARIABLE c             \* the case: [len |-> -1 (missing) | 0..MaxLen, off, n]
Cases == [len : {-1} \cup (0..MaxLen), off : 0..MaxOff, n : 0..MaxBuf]

\* the stored value of length L: bytes a1 a2 a3 ... (non-zero, position dependent)
ValueOf(L) == IF L < 0 THEN Missing ELSE Cat([i \in 1..L |-> BE(160 + i, 1)])

MCInit == c \in Cases
MCNext == FALSE /\ UNCHANGED c
MCSpec == MCInit /\ [][MCNext]_c

V == ValueOf(c.len)
Ex == ReadExact(V, c.off, c.n)
Zf == ReadZerofill(V, c.off, c.n)
Al == ReadAlloc(V)

\* ---- the contract as laws ----
ByteAt(h, i) == Slice(h, i, 1)                       \* i is 0-based
MissingLaw == (c.len < 0) <=> (Ex.r = "KeyNotFound" /\ Zf.r = "KeyNotFound" /\ Al.r = "KeyNotFound")
ExactLaw == c.len >= 0 =>
    /\ (Ex.r = "Ok") <=> (c.off + c.n <= c.len)
    /\ (Ex.r # "Ok") => (Ex.r = "OutOfBounds")
    /\ (Ex.r = "Ok") => /\ BLen(Ex.buf) = c.n /\ Ex.total = c.len /\ Ex.copied = c.n
                        /\ \A i \in 0..(c.n - 1) : ByteAt(Ex.buf, i) = ByteAt(V, c.off + i)
ZerofillLaw == c.len >= 0 =>
    /\ (Zf.r = "Ok") <=> (c.off <= c.len)
    /\ (Zf.r # "Ok") => (Zf.r = "OutOfBounds")
    /\ (Zf.r = "Ok") => /\ BLen(Zf.buf) = c.n /\ Zf.total = c.len
                        /\ \A i \in 0..(c.n - 1) :
                              ByteAt(Zf.buf, i) = IF c.off + i < c.len THEN ByteAt(V, c.off + i) ELSE "00"
                        /\ Zf.copied = Cardinality({i \in 0..(c.n - 1) : c.off + i < c.len})
AllocLaw == c.len >= 0 => (Al.r = "Ok" /\ Al.buf = V /\ Al.total = c.len)
\* where the exact read succeeds the zero-fill read returns the same buffer; the alloc read is the exact read of everything
Agree == /\ (Ex.r = "Ok" => (Zf.r = "Ok" /\ Zf.buf = Ex.buf))
         /\ (c.len >= 0 => ReadExact(V, 0, c.len).buf = Al.buf)
\* the instruction-level slice never fails and is the zero-fill buffer or all zeros
PaddedLaw == c.len >= 0 =>
    /\ BLen(ZeroPaddedSlice(V, c.off, c.n)) = c.n
    /\ \A i \in 0..(c.n - 1) :
          ByteAt(ZeroPaddedSlice(V, c.off, c.n), i) = IF c.off + i < c.len THEN ByteAt(V, c.off + i) ELSE "00"

Proj(r) == IF r.r = "Ok" THEN [r |-> "Ok", buf |-> r.buf, total |-> r.total] ELSE [r |-> r.r]
Emit == EmitReplay =>
    PrintT("REPLAY" \o ToJson([missing |-> c.len < 0, off |-> c.off, n |-> c.n,
                               value |-> IF c.len < 0 THEN "" ELSE V,
                               exact |-> Proj(Ex), zerofill |-> Proj(Zf), alloc |-> Proj(Al)]))
=============================================================================
