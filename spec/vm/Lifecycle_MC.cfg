SPECIFICATION MCSpec
CONSTANTS
  MaxW = 3
  EmitReplay = FALSE
INVARIANTS SequentialPartsInv CompleteHoldsAllInv VersionsOnlyCompleteInv AliasesPresent Emit
PROPERTIES CreateOnce SequentialParts CompleteIffAllParts VersionPlusOne FailedLeavesUnchanged SucceededChanges
VIEW View
CHECK_DEADLOCK FALSE
