------------------------------- MODULE VmFlow -------------------------------
(* Jump instructions (C25). *)
EXTENDS VmBase

(***************************************************************************)
(* Control flow (C25).  Jump targets are computed with saturating 64-bit   *)
(* arithmetic and must lie below the memory size.                          *)
(***************************************************************************)
\* mode: "abs" (relative to $is), "fwd", "bwd", "assign"
JumpTarget(vm, mode, dyn, fixed) ==
    CASE mode = "abs"    -> [ok |-> TRUE, t |-> SatAdd(R(vm, IS), SatMul(SatAdd(dyn, fixed), "4"))]
      [] mode = "fwd"    -> [ok |-> TRUE, t |-> SatAdd(R(vm, PC), SatMul(SatAdd(SatAdd(dyn, fixed), "1"), "4"))]
      [] mode = "bwd"    -> LET off == SatMul(SatAdd(SatAdd(dyn, fixed), "1"), "4") IN
                            IF BN!Lt(R(vm, PC), off) THEN [ok |-> FALSE, t |-> "0"] ELSE [ok |-> TRUE, t |-> BN!Sub(R(vm, PC), off)]
      [] mode = "assign" -> [ok |-> TRUE, t |-> SatAdd(dyn, SatMul(fixed, "4"))]
JumpEff(vm, gasName, cond, mode, dyn, fixed, extraSet, extraPan) ==
    IF ~cond THEN Eff(GasOf(vm, gasName), extraPan, (PC :> PcNext(vm)) @@ extraSet, <<>>, vm.slen)
    ELSE LET j == JumpTarget(vm, mode, dyn, fixed)
             bad == ~j.ok \/ ~BN!Lt(j.t, MemSizeBN)
         IN Eff(GasOf(vm, gasName), extraPan \cup (IF bad THEN {"MemoryOverflow"} ELSE {}), (PC :> j.t) @@ extraSet, <<>>, vm.slen)

FlowNames == {"JI","JNEI","JNZI","JMP","JNE","JMPF","JMPB","JNZF","JNZB","JNEF","JNEB","JAL"}
FlowEff(vm, n, w) ==
    LET a == Ro(vm, RA(w))  b == Ro(vm, RB(w))  c == Ro(vm, RC(w))
        i6 == BN!FromNat(Imm06(w))  i12 == BN!FromNat(Imm12(w))  i18 == BN!FromNat(Imm18(w))  i24 == BN!FromNat(Imm24(w))
        none == <<>>
    IN CASE n = "JI"   -> JumpEff(vm, "ji", TRUE, "abs", i24, "0", none, {})
         [] n = "JNEI" -> JumpEff(vm, "jnei", a # b, "abs", i12, "0", none, {})
         [] n = "JNZI" -> JumpEff(vm, "jnzi", a # "0", "abs", i18, "0", none, {})
         [] n = "JMP"  -> JumpEff(vm, "jmp", TRUE, "abs", a, "0", none, {})
         [] n = "JNE"  -> JumpEff(vm, "jne", a # b, "abs", c, "0", none, {})
         [] n = "JMPF" -> JumpEff(vm, "jmpf", TRUE, "fwd", a, i18, none, {})
         [] n = "JMPB" -> JumpEff(vm, "jmpb", TRUE, "bwd", a, i18, none, {})
         [] n = "JNZF" -> JumpEff(vm, "jnzf", a # "0", "fwd", b, i12, none, {})
         [] n = "JNZB" -> JumpEff(vm, "jnzb", a # "0", "bwd", b, i12, none, {})
         [] n = "JNEF" -> JumpEff(vm, "jnef", a # b, "fwd", c, i6, none, {})
         [] n = "JNEB" -> JumpEff(vm, "jneb", a # b, "bwd", c, i6, none, {})
         \* jump-and-link: the return address ($pc + 4) goes to rA ($zero discards it), target = rB + imm * 4
         \* (when the jump itself panics the link register may or may not have been written already: pmay)
         [] n = "JAL"  -> LET link == IF RA(w) = ZERO \/ ~Writable(RA(w)) THEN none ELSE (RA(w) :> PcNext(vm))
                              \* "$rA = $pc + 4; $pc = $rB + imm * 4" in this order: when rA = rB the target uses the new value
                              base == IF RB(w) \in DOMAIN link THEN PcNext(vm) ELSE b IN
                          [JumpEff(vm, "jmp", TRUE, "assign", base, i12, link,
                                   IF RA(w) # ZERO /\ ~Writable(RA(w)) THEN {"ReservedRegisterNotWritable"} ELSE {})
                           EXCEPT !.pmay = link]
=============================================================================
