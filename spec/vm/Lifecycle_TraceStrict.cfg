SPECIFICATION TrSpec
INVARIANT NoDivergence
POSTCONDITION Accepted
CHECK_DEADLOCK FALSE
