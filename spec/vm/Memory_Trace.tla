---------------------------- MODULE Memory_Trace ----------------------------
(***************************************************************************)
(* impl -> spec: a trace recorded from the real MemoryInstance (64 MiB) is *)
(* accepted iff every event is the corresponding Memory action and every   *)
(* logged observation (granted/refused, region bounds, accessibility       *)
(* verdicts, bytes read, sparse dumps, equality with a snapshot) is what    *)
(* the flat zero-initialised array with two regions predicts.              *)
(* Addresses and lengths are logged as decimal strings (they range over    *)
(* u64); anything above MemSize is clamped to MemSize + 1.                 *)
(***************************************************************************)
EXTENDS Memory, TraceIO
LOCAL INSTANCE Hex
LOCAL BN == INSTANCE BigNat

VARIABLE l
trVars == <<pg, st, hp, snaps, l>>

TrInit == MemInit /\ l = 1
e == Rec[l]

N(x) == IF BN!Le(x, BN!FromNat(MemSize)) THEN BN!ToNat(x) ELSE MemSize + 1

\* a logged sparse dump (sequence of <<page, hex>>) against a sparse array
SameSparse(logged, m) == {logged[i] : i \in 1..Len(logged)} = {<<p, m[p]>> : p \in DOMAIN m}
Bounds == e.st = st' /\ e.hp = hp'

TSeg == /\ IsEv(l, "Seg")
        /\ e.mem_size = MemSize
        /\ Reset

TGrowStack ==
    /\ IsEv(l, "GrowStack")
    /\ LET s == N(e.s) IN
       \/ /\ GrowStackOk(s)
          /\ e.ok
          /\ GrowStack(s)
          /\ Bounds
          /\ SameSparse(e.new, Sparse(pg', st, st' - st))
       \/ /\ ~GrowStackOk(s)
          /\ ~e.ok
          /\ UNCHANGED memVars
          /\ Bounds

TGrowHeap ==
    /\ IsEv(l, "GrowHeap")
    /\ LET n == N(e.n) IN
       \/ /\ GrowHeapOk(e.sp, n)
          /\ e.ok
          /\ GrowHeap(e.sp, n)
          /\ Bounds
          /\ SameSparse(e.new, Sparse(pg', hp', hp - hp'))
       \/ /\ ~GrowHeapOk(e.sp, n)
          /\ ~e.ok
          /\ UNCHANGED memVars
          /\ Bounds

TVerify == /\ IsEv(l, "Verify")
           /\ e.ok = Accessible(N(e.a), N(e.n))
           /\ UNCHANGED memVars

TRead == /\ IsEv(l, "Read")
         /\ e.ok = ReadOk(N(e.a), N(e.n))
         /\ (e.ok => (e.data = ReadResult(N(e.a), N(e.n))))
         /\ UNCHANGED memVars

TDump == /\ IsEv(l, "Dump")
         /\ e.ok = ReadOk(N(e.a), N(e.n))
         /\ (e.ok => SameSparse(e.pages, Sparse(pg, N(e.a), N(e.n))))
         /\ UNCHANGED memVars

TWrite ==
    /\ IsEv(l, "Write")
    /\ LET a == N(e.a) IN
       \/ /\ WriteOk(a, e.data)
          /\ e.ok
          /\ Write(a, e.data)
       \/ /\ ~WriteOk(a, e.data)
          /\ ~e.ok
          /\ UNCHANGED memVars

\* Copies go through MCP, which also applies the ownership rule (C24).  The driver makes every
\* accessible non-empty range owned; the ownership of EMPTY ranges is not this property's
\* business, so an empty copy between accessible places may be granted or refused for ownership.
TCopy ==
    /\ IsEv(l, "Copy")
    /\ LET d == N(e.d)
           s == N(e.s)
           n == N(e.n) IN
       \/ /\ n > 0
          /\ CopyOk(d, s, n)
          /\ e.ok
          /\ Copy(d, s, n)
       \/ /\ n > 0
          /\ ~CopyOk(d, s, n)
          /\ ~e.ok
          /\ UNCHANGED memVars
       \/ /\ n = 0
          /\ IF CopyOk(d, s, 0) THEN (e.ok \/ e.err = "MemoryOwnership") ELSE ~e.ok
          /\ UNCHANGED memVars

TReset == /\ IsEv(l, "Reset")
          /\ Reset
          /\ Bounds

TSnapshot == /\ IsEv(l, "Snapshot")
             /\ Snapshot
             /\ e.id = Len(snaps')

TRollback == /\ IsEv(l, "Rollback")
             /\ Rollback(e.id)
             /\ Bounds

TEq == /\ IsEv(l, "Eq")
       /\ e.id \in 1..Len(snaps)
       /\ e.eq = SameVisible(e.id)
       /\ UNCHANGED memVars

TrNext == /\ (TSeg \/ TGrowStack \/ TGrowHeap \/ TVerify \/ TRead \/ TDump \/ TWrite \/ TCopy \/ TReset \/ TSnapshot \/ TRollback \/ TEq)
          /\ l' = l + 1
TrSpec == TrInit /\ [][TrNext]_trVars
=============================================================================
