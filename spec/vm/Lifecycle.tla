------------------------------ MODULE Lifecycle ------------------------------
(***************************************************************************)
(* C35 - bytecode upload, blob, contract deployment and upgrade state.     *)
(*                                                                         *)
(* The chain tables a Create / Blob / Upload / Upgrade transaction may     *)
(* touch, and the ONLY ways they may evolve, written from the property     *)
(* text (not from executors/main.rs):                                      *)
(*                                                                         *)
(*  contracts  id -> [code, slots]      created once, exact content        *)
(*  blobs      id -> data               created once, exact content        *)
(*  uploads    root -> U<bytes, n> | C<bytes>                              *)
(*             a root denotes ONE byte code: the sequence of subsections   *)
(*             parts[root] whose RFC 6962 tree hash is the root (ghost,    *)
(*             declared by the environment and checked with the Merkle     *)
(*             oracle of BinaryMerkle.tla).  A subsection is accepted only *)
(*             when it is a valid transaction (its proof verifies), it     *)
(*             carries the next index AND it is the next part; the entry   *)
(*             is complete exactly when the last part arrived and then     *)
(*             holds the concatenation of all parts.                       *)
(*  cpv, stv   version -> consensus parameters / state transition root     *)
(*             an upgrade installs under Succ(current version), fails if   *)
(*             that version is taken, and (state transition) if the byte   *)
(*             code of the root is not completely uploaded.                *)
(*  curCP, curST  the current versions: environment (they advance at a     *)
(*             block boundary, never by the upgrade itself).               *)
(*  A failed transaction leaves every table unchanged.                     *)
(*                                                                         *)
(* Apply(s, tx, valid) is a pure function so that the same definition is   *)
(* the generative model (Lifecycle_MC), the predictor of the replay leg    *)
(* and the judge of recorded traces (Lifecycle_Trace).                     *)
(* Versions are BigNat decimal strings (u32 in the code), byte strings are *)
(* lowercase hex, subsection indices / totals are small integers (u16).    *)
(***************************************************************************)
EXTENDS Naturals, Sequences, FiniteSets, TLC
LOCAL INSTANCE Hex
LOCAL INSTANCE VerifHash
LOCAL BN == INSTANCE BigNat
\* RFC 6962 oracle (MTH, audit paths, verification) of the Merkle domain; its variables are unused here
LOCAL BM == INSTANCE BinaryMerkle WITH lh <- <<>>, peaks <- <<>>, store <- <<>>

Empty == [x \in {} |-> x]
Put(f, k, v) == [x \in (DOMAIN f) \cup {k} |-> IF x = k THEN v ELSE f[x]]

RECURSIVE CatSeq(_)
CatSeq(seq) == IF Len(seq) = 0 THEN "" ELSE Head(seq) \o CatSeq(Tail(seq))

(***************************************************************************)
(* Oracle side of an Upload transaction.                                   *)
(***************************************************************************)
RootOf(parts) == BM!MTH(parts)                          \* the root a sequence of subsections commits to
ProofOf(parts, k) == BM!PathH(k - 1, BM!HashLeaves(parts))   \* audit path of part k (1-based)
\* how a byte code is cut into subsections of `size` bytes (the last one may be shorter); code non-empty
RECURSIVE Chunks(_, _)
Chunks(code, size) == IF BLen(code) <= size THEN <<code>>
                      ELSE <<Slice(code, 0, size)>> \o Chunks(Slice(code, size, BLen(code) - size), size)
\* an Upload transaction is valid iff its subsection is connected to its root at (idx, total)
UploadValid(tx, maxSubsections) ==
    /\ tx.total <= maxSubsections
    /\ BM!VerifyRef(tx.root, tx.bytes, tx.proof, tx.idx, tx.total)
BlobIdOf(data) == SHA256(data)
BlobValid(tx) == tx.id = BlobIdOf(tx.data)

(***************************************************************************)
(* State: one record.  `parts` is the ghost declaration root -> parts.     *)
(***************************************************************************)
InitState(parts) == [contracts |-> Empty, blobs |-> Empty, uploads |-> Empty, cpv |-> Empty, stv |-> Empty,
                     curCP |-> "0", curST |-> "0", parts |-> parts]
PartsOk(parts) == \A r \in DOMAIN parts : Len(parts[r]) >= 1 /\ RootOf(parts[r]) = r

SuccV(v) == BN!Add(v, "1")
MaxV == "4294967295"                                   \* the property speaks of versions below u32::MAX only

IsComplete(s, r) == r \in DOMAIN s.uploads /\ s.uploads[r].st = "C"
NextIdx(s, r)    == IF r \in DOMAIN s.uploads /\ s.uploads[r].st = "U" THEN s.uploads[r].n ELSE 0
SoFar(s, r)      == IF r \in DOMAIN s.uploads THEN s.uploads[r].bytes ELSE ""

Fail(s, why) == [ok |-> FALSE, why |-> why, s |-> s]
Okay(s2)     == [ok |-> TRUE,  why |-> "ok", s |-> s2]

ApplyCreate(s, tx, valid) ==
    IF ~valid THEN Fail(s, "invalid")
    ELSE IF tx.id \in DOMAIN s.contracts THEN Fail(s, "id-exists")
    ELSE Okay([s EXCEPT !.contracts = Put(@, tx.id, [code |-> tx.code, slots |-> tx.slots])])

ApplyBlob(s, tx, valid) ==
    IF ~valid THEN Fail(s, "invalid")
    ELSE IF tx.id \in DOMAIN s.blobs THEN Fail(s, "id-exists")
    ELSE Okay([s EXCEPT !.blobs = Put(@, tx.id, tx.data)])

ApplyUpload(s, tx, valid) ==
    IF ~valid THEN Fail(s, "invalid")
    ELSE IF tx.root \notin DOMAIN s.parts THEN Fail(s, "undeclared-root")
    ELSE IF IsComplete(s, tx.root) THEN Fail(s, "already-complete")
    ELSE IF tx.idx # NextIdx(s, tx.root) THEN Fail(s, "not-next-index")
    ELSE IF tx.idx >= Len(s.parts[tx.root]) THEN Fail(s, "no-such-part")   \* (only from states the invariants exclude)
    ELSE IF tx.bytes # s.parts[tx.root][tx.idx + 1] THEN Fail(s, "not-next-part")
    ELSE LET all   == s.parts[tx.root]
             bytes == SoFar(s, tx.root) \o tx.bytes
             n     == tx.idx + 1
             e     == IF n = Len(all) THEN [st |-> "C", bytes |-> bytes]
                      ELSE [st |-> "U", bytes |-> bytes, n |-> n]
         IN Okay([s EXCEPT !.uploads = Put(@, tx.root, e)])

ApplyUpgradeCP(s, tx, valid) ==
    IF ~valid THEN Fail(s, "invalid")
    ELSE IF SuccV(s.curCP) \in DOMAIN s.cpv THEN Fail(s, "version-taken")
    ELSE Okay([s EXCEPT !.cpv = Put(@, SuccV(s.curCP), tx.value)])

ApplyUpgradeST(s, tx, valid) ==
    IF ~valid THEN Fail(s, "invalid")
    ELSE IF ~IsComplete(s, tx.root) THEN Fail(s, "root-incomplete")
    ELSE IF SuccV(s.curST) \in DOMAIN s.stv THEN Fail(s, "version-taken")
    ELSE Okay([s EXCEPT !.stv = Put(@, SuccV(s.curST), tx.root)])

TxKinds == {"Create", "Blob", "Upload", "UpgradeConsensusParameters", "UpgradeStateTransition"}
EnvKinds == {"SetCurCP", "SetCurST"}

Apply(s, tx, valid) ==
    CASE tx.k = "Create" -> ApplyCreate(s, tx, valid)
      [] tx.k = "Blob" -> ApplyBlob(s, tx, valid)
      [] tx.k = "Upload" -> ApplyUpload(s, tx, valid)
      [] tx.k = "UpgradeConsensusParameters" -> ApplyUpgradeCP(s, tx, valid)
      [] tx.k = "UpgradeStateTransition" -> ApplyUpgradeST(s, tx, valid)
      [] tx.k = "SetCurCP" -> Okay([s EXCEPT !.curCP = tx.v])       \* environment: block boundary
      [] tx.k = "SetCurST" -> Okay([s EXCEPT !.curST = tx.v])

\* what is compared with the implementation: every table, the current versions, and the number of
\* contract state entries in the whole storage (no slot may be written under another id)
RECURSIVE SumSlots(_, _)
SumSlots(c, ids) == IF ids = {} THEN 0
                    ELSE LET id == CHOOSE x \in ids : TRUE IN Cardinality(DOMAIN c[id].slots) + SumSlots(c, ids \ {id})
Tables(s) == [contracts |-> s.contracts, blobs |-> s.blobs, uploads |-> s.uploads, cpv |-> s.cpv, stv |-> s.stv]
Proj(s) == [contracts |-> s.contracts, blobs |-> s.blobs, uploads |-> s.uploads, cpv |-> s.cpv, stv |-> s.stv,
            curCP |-> s.curCP, curST |-> s.curST, nstate |-> SumSlots(s.contracts, DOMAIN s.contracts)]

(***************************************************************************)
(* The design as a transition system and the property as invariants.       *)
(***************************************************************************)
VARIABLES lc,     \* the state record
          last    \* the transaction just processed: [tx, ok, why]  (history variable of length 1)
lcVars == <<lc, last>>
NoTx == [tx |-> [k |-> "none"], ok |-> TRUE, why |-> "ok"]

Step(tx, valid) == \E r \in {Apply(lc, tx, valid)} :          \* (bound once: TLC re-evaluates LET bodies per use)
                   /\ lc' = r.s
                   /\ last' = [tx |-> tx, ok |-> r.ok, why |-> r.why]

\* --- state invariants ---
SequentialPartsInv ==                       \* an incomplete entry holds exactly the first n parts, 0 < n < all
    \A r \in DOMAIN lc.uploads : lc.uploads[r].st = "U" =>
        /\ r \in DOMAIN lc.parts
        /\ lc.uploads[r].n > 0 /\ lc.uploads[r].n < Len(lc.parts[r])
        /\ lc.uploads[r].bytes = CatSeq(SubSeq(lc.parts[r], 1, lc.uploads[r].n))
CompleteHoldsAllInv ==                      \* a complete entry holds the concatenation of all parts of its root
    \A r \in DOMAIN lc.uploads : lc.uploads[r].st = "C" =>
        r \in DOMAIN lc.parts /\ lc.uploads[r].bytes = CatSeq(lc.parts[r])
VersionsOnlyCompleteInv ==                  \* every installed state transition root was completely uploaded
    \A v \in DOMAIN lc.stv : IsComplete(lc, lc.stv[v])

\* --- action properties (checked by TLC as [][...]_lcVars) ---
CreateOnceAct ==
    /\ \A id \in DOMAIN lc.contracts : id \in DOMAIN lc'.contracts /\ lc'.contracts[id] = lc.contracts[id]
    /\ \A id \in DOMAIN lc.blobs : id \in DOMAIN lc'.blobs /\ lc'.blobs[id] = lc.blobs[id]
    /\ \A id \in DOMAIN lc'.contracts \ DOMAIN lc.contracts :
          /\ last'.ok /\ last'.tx.k = "Create" /\ last'.tx.id = id
          /\ lc'.contracts[id] = [code |-> last'.tx.code, slots |-> last'.tx.slots]
    /\ \A id \in DOMAIN lc'.blobs \ DOMAIN lc.blobs :
          /\ last'.ok /\ last'.tx.k = "Blob" /\ last'.tx.id = id /\ lc'.blobs[id] = last'.tx.data
          /\ id = BlobIdOf(last'.tx.data)
    /\ (last'.tx.k = "Create" /\ last'.tx.id \in DOMAIN lc.contracts) => ~last'.ok
    /\ (last'.tx.k = "Blob" /\ last'.tx.id \in DOMAIN lc.blobs) => ~last'.ok
SequentialPartsAct ==                       \* an entry changes only by accepting the subsection with the next index
    \A r \in (DOMAIN lc.uploads) \cup (DOMAIN lc'.uploads) :
        (r \notin DOMAIN lc.uploads \/ r \notin DOMAIN lc'.uploads \/ lc'.uploads[r] # lc.uploads[r]) =>
            /\ last'.ok /\ last'.tx.k = "Upload" /\ last'.tx.root = r
            /\ last'.tx.idx = NextIdx(lc, r) /\ ~IsComplete(lc, r)
            /\ r \in DOMAIN lc'.uploads /\ lc'.uploads[r].bytes = SoFar(lc, r) \o last'.tx.bytes
CompleteIffAllPartsAct ==                   \* complete exactly when the last subsection arrives
    \A r \in DOMAIN lc.parts :
        (IsComplete(lc', r) /\ ~IsComplete(lc, r)) <=>
            (last'.ok /\ last'.tx.k = "Upload" /\ last'.tx.root = r /\ last'.tx.idx = Len(lc.parts[r]) - 1)
VersionPlusOneAct ==
    /\ (lc'.cpv # lc.cpv) =>
          /\ last'.ok /\ last'.tx.k = "UpgradeConsensusParameters"
          /\ SuccV(lc.curCP) \notin DOMAIN lc.cpv
          /\ lc'.cpv = Put(lc.cpv, SuccV(lc.curCP), last'.tx.value)
    /\ (lc'.stv # lc.stv) =>
          /\ last'.ok /\ last'.tx.k = "UpgradeStateTransition"
          /\ SuccV(lc.curST) \notin DOMAIN lc.stv /\ IsComplete(lc, last'.tx.root)
          /\ lc'.stv = Put(lc.stv, SuccV(lc.curST), last'.tx.root)
    /\ (last'.tx.k = "UpgradeConsensusParameters" /\ SuccV(lc.curCP) \in DOMAIN lc.cpv) => ~last'.ok
    /\ (last'.tx.k = "UpgradeStateTransition" /\ (SuccV(lc.curST) \in DOMAIN lc.stv \/ ~IsComplete(lc, last'.tx.root))) => ~last'.ok
    /\ (last'.tx.k \in TxKinds) => (lc'.curCP = lc.curCP /\ lc'.curST = lc.curST)   \* an upgrade never moves the current version
FailedLeavesUnchangedAct == (~last'.ok) => (Tables(lc') = Tables(lc) /\ lc'.curCP = lc.curCP /\ lc'.curST = lc.curST)
SucceededChangesAct == (last'.ok /\ last'.tx.k \in TxKinds) => Tables(lc') # Tables(lc)   \* used by the binding ("changed" flag)

CreateOnce            == [][CreateOnceAct]_lcVars
SequentialParts       == [][SequentialPartsAct]_lcVars
CompleteIffAllParts   == [][CompleteIffAllPartsAct]_lcVars
VersionPlusOne        == [][VersionPlusOneAct]_lcVars
FailedLeavesUnchanged == [][FailedLeavesUnchangedAct]_lcVars
SucceededChanges      == [][SucceededChangesAct]_lcVars
=============================================================================
