------------------------------- MODULE Memory -------------------------------
(***************************************************************************)
(* C23 - the memory of the FuelVM as the property states it, written from  *)
(* the property text and the FuelVM specification (memory model, ALOC,     *)
(* CFE/CFS, MCP), NOT from the data structures of the implementation:      *)
(*                                                                         *)
(*   one flat, zero-initialised array of MemSize bytes;                    *)
(*   st = highest stack extent not yet overtaken by the heap;              *)
(*   hp = heap pointer (the heap is [hp, MemSize));                        *)
(*   a range [a, a+n) is accessible exactly when it lies entirely below    *)
(*   st or entirely at or above hp (and inside the array).                 *)
(*                                                                         *)
(* The array is represented sparsely: pg is a function from 64-byte page   *)
(* index to the page content (128 lowercase hex digits); an absent page    *)
(* reads as zeros and an all-zero page is never stored (canonical form),   *)
(* so MemSize = 64 MiB costs nothing.                                      *)
(*                                                                         *)
(* The implementation keeps two vectors (a stack vector and an over-       *)
(* allocated heap vector that survives reset()); none of that appears      *)
(* here - the binding (Memory_MC replay, Memory_Trace) compares what the   *)
(* real MemoryInstance lets a caller observe with this array.              *)
(***************************************************************************)
EXTENDS Integers, Sequences, FiniteSets, TLC
LOCAL INSTANCE Hex

CONSTANT MemSize          \* consts.rs: MEM_SIZE = 64 MiB; a small number in Leg M

PS == 64                  \* page size of the sparse representation (not a property of the VM)
ZeroPage == Zeros(PS)
Min(a, b) == IF a <= b THEN a ELSE b
Max(a, b) == IF a >= b THEN a ELSE b

(***************************************************************************)
(* Sparse flat array                                                       *)
(***************************************************************************)
PageAt(m, p) == IF p \in DOMAIN m THEN m[p] ELSE ZeroPage
Canon(m) == [p \in {q \in DOMAIN m : ~IsZero(m[q])} |-> m[p]]
SetPage(m, p, h) == IF IsZero(h) THEN [q \in (DOMAIN m) \ {p} |-> m[q]]
                    ELSE [q \in (DOMAIN m) \cup {p} |-> IF q = p THEN h ELSE m[q]]

ByteAt(m, i) == Slice(PageAt(m, i \div PS), i % PS, 1)          \* one byte, as 2 hex digits

RECURSIVE Bytes(_, _, _)                                         \* the n bytes at [a, a+n)
Bytes(m, a, n) ==
    IF n = 0 THEN ""
    ELSE LET off == a % PS
             k   == Min(n, PS - off) IN
         Slice(PageAt(m, a \div PS), off, k) \o Bytes(m, a + k, n - k)

RECURSIVE WriteBytes(_, _, _)                                    \* the array with d stored at a
WriteBytes(m, a, d) ==
    IF d = "" THEN m
    ELSE LET off == a % PS
             k   == Min(BLen(d), PS - off)
             p   == a \div PS IN
         WriteBytes(SetPage(m, p, Splice(PageAt(m, p), off, Slice(d, 0, k))), a + k, Slice(d, k, BLen(d) - k))

\* page p (content h) with its bytes that lie in [x, y) replaced by zero
ZeroIn(h, p, x, y) ==
    LET lo == Max(x, p * PS) - p * PS
        hi == Min(y, (p + 1) * PS) - p * PS IN
    IF hi > lo THEN Splice(h, lo, Zeros(hi - lo)) ELSE h
ZeroRange(m, x, y) == Canon([p \in DOMAIN m |-> ZeroIn(m[p], p, x, y)])         \* bytes [x, y) := 0
Top == MemSize + PS
KeepRange(m, x, y) == ZeroRange(ZeroRange(m, 0, x), y, Top)                      \* everything outside [x, y) := 0
IsZeroRange(m, x, y) == KeepRange(m, x, y) = <<>>
Sparse(m, a, n) == KeepRange(m, a, a + n)                                        \* what a sparse dump of [a, a+n) shows

(***************************************************************************)
(* State                                                                   *)
(***************************************************************************)
VARIABLES
    pg,      \* the flat array (sparse)
    st,      \* highest stack extent not yet overtaken by the heap
    hp,      \* heap pointer
    snaps    \* snapshots taken since the last reset: sequence of [pg, st, hp]
memVars == <<pg, st, hp, snaps>>

MemInit == pg = <<>> /\ st = 0 /\ hp = MemSize /\ snaps = <<>>

(***************************************************************************)
(* The property's accessibility rule.  a, n are naturals (callers clamp    *)
(* anything above MemSize to MemSize + 1: such a range is outside the      *)
(* array whatever the state).                                              *)
(***************************************************************************)
AccessibleIn(a, n, s, h) == (a + n <= s) \/ (a >= h /\ a + n <= MemSize)
Accessible(a, n) == AccessibleIn(a, n, st, hp)

\* two equally long ranges have a byte in common
ShareByte(d, s, n) == n > 0 /\ Max(d, s) < Min(d, s) + n

\* what a caller can observe of an array: only the accessible part
Visible(m, s, h) == ZeroRange(m, s, h)

(***************************************************************************)
(* Actions.  Each comes as a pair: the condition under which the           *)
(* operation must succeed, and its effect; a refused operation changes     *)
(* nothing.                                                                *)
(***************************************************************************)
\* Stack growth (CFE/CFEI/CALL/init): the stack may extend up to, not into, the heap.
\* A request below the current extent only lowers the caller's $sp: the extent stays.
GrowStackOk(s) == s <= hp
GrowStack(s) == /\ GrowStackOk(s)
                /\ st' = Max(st, s)
                /\ UNCHANGED <<pg, hp, snaps>>

\* Heap allocation (ALOC) of n bytes while the caller's stack pointer is sp: refused when it
\* would underflow or reach below $sp.  The heap may overtake the part of the old stack extent
\* above $sp; every newly allocated byte reads zero - always.
GrowHeapOk(sp, n) == n <= hp /\ hp - n >= sp
GrowHeap(sp, n) == /\ GrowHeapOk(sp, n)
                   /\ hp' = hp - n
                   /\ st' = Min(st, hp - n)
                   /\ pg' = ZeroRange(pg, hp - n, hp)
                   /\ UNCHANGED snaps

ReadOk(a, n) == Accessible(a, n)
ReadResult(a, n) == Bytes(pg, a, n)

WriteOk(a, d) == Accessible(a, BLen(d))
Write(a, d) == /\ WriteOk(a, d)
               /\ pg' = WriteBytes(pg, a, d)
               /\ UNCHANGED <<st, hp, snaps>>

\* MCP: both ranges accessible, and refused when they share a byte
CopyOk(d, s, n) == Accessible(d, n) /\ Accessible(s, n) /\ ~ShareByte(d, s, n)
Copy(d, s, n) == /\ CopyOk(d, s, n)
                 /\ pg' = WriteBytes(pg, d, Bytes(pg, s, n))
                 /\ UNCHANGED <<st, hp, snaps>>

\* reset between transactions: the instance is as good as new
Reset == pg' = <<>> /\ st' = 0 /\ hp' = MemSize /\ snaps' = <<>>

Snapshot == /\ snaps' = Append(snaps, [pg |-> pg, st |-> st, hp |-> hp])
            /\ UNCHANGED <<pg, st, hp>>

\* Rolling back to snapshot k restores exactly its accessible contents and its two regions;
\* nothing else of the discarded future remains observable (what was not accessible in the
\* snapshot reads zero when it becomes accessible again).  Later snapshots are discarded.
RollbackOk(k) == k \in 1..Len(snaps)
Rollback(k) == /\ RollbackOk(k)
               /\ st' = snaps[k].st
               /\ hp' = snaps[k].hp
               /\ pg' = Visible(snaps[k].pg, snaps[k].st, snaps[k].hp)
               /\ snaps' = SubSeq(snaps, 1, k)

\* equality of two memories as a caller sees it (MemoryInstance's PartialEq)
SameVisible(k) == /\ st = snaps[k].st /\ hp = snaps[k].hp
                  /\ Visible(pg, st, hp) = Visible(snaps[k].pg, snaps[k].st, snaps[k].hp)

(***************************************************************************)
(* Invariants                                                              *)
(***************************************************************************)
MaxPage == (MemSize - 1) \div PS
WellFormed(m) == \A p \in DOMAIN m : p \in 0..MaxPage /\ Len(m[p]) = 2 * PS /\ ~IsZero(m[p])
                                     /\ (p = MaxPage => IsZero(ZeroIn(m[p], p, 0, MemSize)))
TypeOK == /\ st \in 0..MemSize /\ hp \in 0..MemSize /\ st <= hp
          /\ WellFormed(pg)
          /\ \A k \in 1..Len(snaps) : WellFormed(snaps[k].pg) /\ snaps[k].st <= snaps[k].hp /\ snaps[k].hp <= MemSize
          \* rolling back never has to grow the heap: the snapshot chain is monotone
          /\ \A k \in 1..Len(snaps) : snaps[k].hp >= hp
          /\ \A j, k \in 1..Len(snaps) : j <= k => snaps[j].hp >= snaps[k].hp

\* ZeroInit: no byte between the two regions holds anything - so whatever becomes accessible
\* by growth reads zero, on a fresh instance, after Reset, after Rollback, after the heap overtook
\* the stack.
ZeroInit == /\ IsZeroRange(pg, st, hp)
            /\ \A k \in 1..Len(snaps) : IsZeroRange(snaps[k].pg, snaps[k].st, snaps[k].hp)

\* RollbackRestores (a step property, used with the step that rolls back to snapshot k): the two
\* regions are the snapshot's, every byte accessible in the snapshot has the snapshot's value,
\* and nothing else is left between the regions.
RollbackRestoresStep(k) ==
    /\ st' = snaps[k].st /\ hp' = snaps[k].hp
    /\ \A p \in (DOMAIN pg') \cup (DOMAIN snaps[k].pg) :
          ZeroIn(PageAt(pg', p), p, snaps[k].st, snaps[k].hp) = ZeroIn(PageAt(snaps[k].pg, p), p, snaps[k].st, snaps[k].hp)
    /\ IsZeroRange(pg', st', hp')

\* AccessibleIffTwoRegions: the range rule restated byte by byte, on a probe grid around every
\* boundary: a non-empty range is accessible iff all its bytes are stack bytes or all are heap
\* bytes; an empty range iff it sits inside or at the edge of a region.
InStack(i) == 0 <= i /\ i < st
InHeap(i)  == hp <= i /\ i < MemSize
ProbeLens == {0, 1, 8}
ProbeAddrs == {x \in {0} \cup UNION {{b - 8, b - 1, b, b + 1} : b \in {st, hp, MemSize}} : x >= 0}
AccessibleIffTwoRegions ==
    \A a \in ProbeAddrs : \A n \in ProbeLens :
        IF n = 0
        THEN Accessible(a, 0) <=> (a <= st \/ (hp <= a /\ a <= MemSize))
        ELSE Accessible(a, n) <=> ((\A i \in a..(a + n - 1) : InStack(i)) \/ (\A i \in a..(a + n - 1) : InHeap(i)))

\* ShareByte restated with sets (state independent; checked once on a grid)
ASSUME \A d \in 0..12 : \A s \in 0..12 : \A n \in 0..9 :
           ShareByte(d, s, n) <=> ((d..(d + n - 1)) \cap (s..(s + n - 1)) # {})
=============================================================================
