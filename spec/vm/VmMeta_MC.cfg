SPECIFICATION MCSpec
CONSTANTS
  Thorough = FALSE
  EmitReplay = FALSE
INVARIANTS Total OutcomeShape UnknownSelector WrongKind OutOfRange InRangeAnswered IndexIgnored PolicyLaw PointerInImage ValueFits ZeroedLaw AliasesAgree TableWellFormed GmTotal GmContext Emit
CHECK_DEADLOCK FALSE
