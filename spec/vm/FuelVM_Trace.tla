---------------------------- MODULE FuelVM_Trace ----------------------------
(* impl -> spec: traces recorded by harness/src/vmcore.rs (one Step event per   *)
(* executed instruction with register/memory differences) validated against     *)
(* FuelVM.  Step events of exactly modelled instructions must equal the spec's  *)
(* outcome; every Step, modelled or not, must satisfy the universal obligations.*)
EXTENDS FuelVM, TraceIO
VARIABLES l, vm
trVars == <<l, vm>>
NoVm == [regs |-> <<>>, mem |-> <<>>, slen |-> 0, env |-> <<>>, frames |-> <<>>, glimit |-> "0", txlen |-> 0, done |-> FALSE]
TrInit == l = 1 /\ vm = NoVm
e == Rec[l]

\* registers after the harness's presets (an environment action), then after the step
Over(regs, upd) == [r \in 0..63 |-> IF ToString(r) \in DOMAIN upd THEN upd[ToString(r)] ELSE regs[r]]
Poked == IF Has(e, "poke") THEN [vm EXCEPT !.regs = Over(vm.regs, e.poke)] ELSE vm
ObservedRegs(v) == Over(v.regs, e.regs)
ObservedMem(v)  == ApplyWrites(v.mem, e.mem, 1)

TSeg ==
    /\ IsEv(l, "Seg")
    /\ vm' = NoVm
TInit ==
    /\ IsEv(l, "Init")
    /\ vm' = [regs |-> [r \in 0..63 |-> e.regs[r + 1]], mem |-> WriteBytes(<<>>, 0, e.stack), slen |-> BLen(e.stack), env |-> e.env, frames |-> <<>>,
              glimit |-> e.regs[GGAS + 1], txlen |-> IF Has(e, "tx") THEN BLen(e.tx) ELSE 0, done |-> FALSE]
    /\ e.regs[HP + 1] = BN!FromNat(e.hp)
TPoke ==
    /\ IsEv(l, "Poke")
    /\ vm' = [vm EXCEPT !.regs = ObservedRegs(vm)]

\* registers after a panicking instruction: out-of-gas leaves $cgas = 0; any other panic leaves the registers as they
\* were, possibly with the gas charge applied and possibly with the writes the instruction may do before failing (pmay)
PanicRegsOk(v, eff, reason, oregs) ==
    \/ /\ reason = "OutOfGas" /\ ~CanPay(v, eff.gas) /\ oregs = WithRegs(v, OutOfGasRegs(v))
    \/ /\ reason \in eff.pan
       /\ \E g \in {<<>>} \cup (IF CanPay(v, eff.gas) THEN {Charged(v, eff.gas)} ELSE {}) :
          \E m \in {<<>>, eff.pmay} : oregs = WithRegs(v, g @@ m)

\* outcome of an exactly modelled instruction executed through Interpreter::instruction (mode "exec")
ExactExec(v, eff, oregs, omem) ==
    CASE e.out = "proceed" ->
            /\ eff.pan = {} /\ eff.out = "proceed"
            /\ CanPay(v, eff.gas)
            /\ oregs = OkRegs(v, eff)
            /\ omem = OkMem(v, eff)
            /\ e.slen = eff.slen
      [] e.out = "panic" ->
            /\ omem = v.mem
            /\ PanicRegsOk(v, eff, e.reason, oregs)
      [] OTHER -> FALSE

TStepExec ==
    /\ IsEv(l, "Step")
    /\ e.mode = "exec"
    /\ LET v     == Poked
           eff   == EffectOf(v, e.word)
           oregs == ObservedRegs(v)
           omem  == ObservedMem(v)
       IN /\ GasMonotone(v.regs, oregs)
          /\ ConstRegsKept(oregs)
          /\ (eff.x => ExactExec(v, eff, oregs, omem))
          /\ vm' = [v EXCEPT !.regs = oregs, !.mem = omem, !.slen = e.slen]

(***************************************************************************)
(* mode "run": the real fetch / run loop, single-stepped.                  *)
(***************************************************************************)
PcBN(v) == R(v, PC)
FetchPanics(v) == IF ReadPanics(v, PcBN(v), "4") # {} THEN ReadPanics(v, PcBN(v), "4")
                  ELSE IF BN!Lt(PcBN(v), R(v, IS)) \/ ~BN!Lt(PcBN(v), R(v, SSP)) THEN {"MemoryNotExecutable"} ELSE {}
Fetched(v) == ReadBytes(v.mem, BN!ToNat(PcBN(v)), 4)
Kinds(rcs) == [i \in 1..Len(rcs) |-> rcs[i].kind]
\* every byte the step changed lies in the transaction image (the VM rewrites the outputs there when it finishes)
InTxImage(v, a, d) == a >= v.env.tx_offset /\ a + BLen(d) <= v.env.tx_offset + v.txlen
\* the step's memory changes = the instruction's writes, plus (terminal step only) changes inside the tx image
TerminalMemOk(v, eff, okInstr) ==
    LET expected == IF okInstr THEN OkMem(v, eff) ELSE v.mem IN
    \A i \in 1..Len(e.mem) :
        \/ InTxImage(v, e.mem[i][1], e.mem[i][2])
        \/ ReadBytes(expected, e.mem[i][1], BLen(e.mem[i][2])) = e.mem[i][2]

StepProceeds(v, eff, oregs, omem) ==
    /\ eff.pan = {} /\ eff.out = "proceed"
    /\ CanPay(v, eff.gas)
    /\ oregs = OkRegs(v, eff)
    /\ omem = OkMem(v, eff)
    /\ e.slen = eff.slen
\* script result bookkeeping shared by every way of finishing (C26, C28)
ScriptResultOk(v, oregs, result) ==
    LET rcs == e.rc  last == rcs[Len(rcs)] IN
    /\ Len(rcs) >= 1 /\ last.kind = "ScriptResult"
    /\ last.result = result
    /\ last.gas_used = BN!Sub(v.glimit, oregs[GGAS])                       \* gas used = limit - remaining global gas
    /\ Cardinality({i \in 1..Len(rcs) : rcs[i].kind = "ScriptResult"}) = 1

TStepRun ==
    /\ IsEv(l, "Step")
    /\ e.mode = "run"
    /\ ~vm.done
    /\ LET v     == vm
           oregs == ObservedRegs(v)
           omem  == ObservedMem(v)
           fp    == FetchPanics(v)
           eff   == IF fp = {} THEN EffectOf(v, e.word) ELSE Unmodelled
       IN /\ GasMonotone(v.regs, oregs)
          /\ ConstRegsKept(oregs)
          /\ (fp = {} => e.word = Fetched(v))
          /\ IF ~Has(e, "fin")
             THEN \* the instruction completed and execution continues
                  /\ fp = {}
                  /\ (eff.x => StepProceeds(v, eff, oregs, omem))
                  /\ \A i \in 1..Len(e.rc) : e.rc[i].kind \notin {"ScriptResult", "Panic"}
                  /\ vm' = [v EXCEPT !.regs = oregs, !.mem = omem, !.slen = e.slen]
             ELSE \* terminal step: the instruction's own outcome followed by the VM's finalisation
                  LET rcs == e.rc
                      n   == Len(rcs)
                      panicked == n >= 2 /\ rcs[n - 1].kind = "Panic"
                  IN /\ IF panicked
                        THEN LET pr == rcs[n - 1] IN
                             /\ e.fin.state = "revert" /\ e.fin.val = "0"
                             /\ ScriptResultOk(v, oregs, "Panic")
                             /\ Cardinality({i \in 1..n : rcs[i].kind = "Panic"}) = 1
                             /\ (eff.x =>
                                   \/ \* (A) the fetch of this very instruction failed
                                      /\ fp # {} /\ pr.reason \in fp /\ oregs = v.regs /\ pr.pc = PcBN(v)
                                      /\ TerminalMemOk(v, eff, FALSE)
                                   \/ \* (B) this instruction panicked
                                      /\ fp = {} /\ pr.pc = PcBN(v) /\ pr.instr = e.word
                                      /\ PanicRegsOk(v, eff, pr.reason, oregs)
                                      /\ TerminalMemOk(v, eff, FALSE)
                                   \/ \* (C) this instruction completed and the fetch of the next one failed
                                      /\ fp = {} /\ eff.pan = {} /\ eff.out = "proceed" /\ CanPay(v, eff.gas)
                                      /\ oregs = OkRegs(v, eff)
                                      /\ pr.pc = oregs[PC]
                                      /\ pr.reason \in FetchPanics([v EXCEPT !.regs = oregs, !.mem = OkMem(v, eff), !.slen = eff.slen])
                                      /\ TerminalMemOk(v, eff, TRUE))
                        ELSE \* top-level return / return-data / revert
                             /\ fp = {}
                             /\ e.fin.state \in {"return", "returndata", "revert"}
                             /\ ScriptResultOk(v, oregs, IF e.fin.state = "revert" THEN "Revert" ELSE "Success")
                             /\ \A i \in 1..n : rcs[i].kind # "Panic"
                             /\ (eff.x => (/\ eff.pan = {} /\ CanPay(v, eff.gas)
                                           /\ eff.out = e.fin.state
                                           /\ oregs = OkRegs(v, eff)
                                           /\ TerminalMemOk(v, eff, TRUE)))
                     /\ vm' = [v EXCEPT !.regs = oregs, !.mem = omem, !.slen = e.slen, !.done = TRUE]

\* Final: summary of a finished run (checked further in the receipts / assets modules)
TFinal ==
    /\ IsEv(l, "Final")
    /\ UNCHANGED vm

TrNext == (TSeg \/ TInit \/ TPoke \/ TStepExec \/ TStepRun \/ TFinal) /\ l' = l + 1
TrSpec == TrInit /\ [][TrNext]_trVars
=============================================================================
