---------------------------- MODULE FuelVM_Trace ----------------------------
(* impl -> spec: traces recorded by harness/src/vmcore.rs (one Step event per   *)
(* executed instruction with register/memory differences) validated against     *)
(* FuelVM.  Step events of exactly modelled instructions must equal the spec's  *)
(* outcome; every Step, modelled or not, must satisfy the universal obligations.*)
EXTENDS FuelVM, TraceIO
VARIABLES l, vm, refs      \* refs: run id -> [vis: <<contract, pc - is>> per executed step, fin: index of its Final event]
trVars == <<l, vm, refs>>
NoVm == [regs |-> <<>>, mem |-> <<>>, slen |-> 0, env |-> <<>>, frames |-> <<>>, glimit |-> "0", txlen |-> 0, done |-> FALSE,
         code |-> <<>>, cbal |-> <<>>, inputs |-> {}, nrc |-> 0, opv |-> <<>>, blobs |-> <<>>, outs |-> <<>>,
         led |-> [mint |-> <<>>, burn |-> <<>>, msg |-> "0"], bal0 |-> <<>>, fee |-> <<>>, outs0 |-> <<>>, cbal0 |-> <<>>, fin |-> <<>>,
         kv |-> <<>>, kv0 |-> <<>>, warm |-> {}, stok |-> FALSE,                      \* C33 (VmStorage)
         chain |-> <<>>]                                                              \* vmcrypto (block / environment instructions)
TrInit == l = 1 /\ vm = NoVm /\ refs = <<>>
e == Rec[l]

\* ---- vmcontract (C30, C36): obligations on the storage access log `acc` that harness/src/vmcontract.rs attaches to
\* every Step, and environment updates of contract balances by instructions without an exact action (`bal_set`) ----
ContractTables == {"code", "state", "assets"}
\* every storage access of the step that concerns a contract concerns one of the transaction's input contracts
AccOk(v) == IF Has(e, "acc")
            THEN \A i \in 1..Len(e.acc) :
                    ((e.acc[i].table \in ContractTables /\ Has(e.acc[i], "contract")) => (e.acc[i].contract \in v.inputs))
            ELSE TRUE
\* the contract whose context is active (the id stored at $fp) is an input contract
CtxOk(v) == IF Has(e, "acc") /\ R(v, FP) # "0" THEN ReadBytes(v.mem, BN!ToNat(R(v, FP)), 32) \in v.inputs ELSE TRUE
C30Step(v) == AccOk(v) /\ CtxOk(v)
MergeBal(cb, upd) == [c \in (DOMAIN cb) \cup (DOMAIN upd) |->
                        IF c \in DOMAIN upd THEN (upd[c] @@ (IF c \in DOMAIN cb THEN cb[c] ELSE <<>>)) ELSE cb[c]]
HavocVm(v) == IF Has(e, "bal_set") THEN [v EXCEPT !.cbal = MergeBal(v.cbal, e.bal_set)] ELSE v

Strip(r) == [f \in DOMAIN r \ {"enc"} |-> r[f]]
\* the first n receipts of the step are exactly the instruction's receipts
RcPrefixOk(eff) == /\ Len(e.rc) >= Len(eff.rc)
                   /\ \A i \in 1..Len(eff.rc) : Strip(e.rc[i]) = eff.rc[i]
\* running totals of minted / burned / messaged amounts taken from the OBSERVED receipts (C27)
AddTo(f, k, x) == (k :> BN!Add(IF k \in DOMAIN f THEN f[k] ELSE "0", x)) @@ f
RECURSIVE LedgerAfter(_, _, _)
LedgerAfter(led, rcs, i) ==
    IF i > Len(rcs) THEN led
    ELSE LET r == rcs[i] IN
         LedgerAfter(IF r.kind = "Mint" THEN [led EXCEPT !.mint = AddTo(@, SHA256(r.contract_id \o r.sub_id), r.val)]
                     ELSE IF r.kind = "Burn" THEN [led EXCEPT !.burn = AddTo(@, SHA256(r.contract_id \o r.sub_id), r.val)]
                     ELSE IF r.kind = "MessageOut" THEN [led EXCEPT !.msg = BN!Add(@, r.amount)]
                     ELSE led, rcs, i + 1)
\* state after a completed instruction
NextVm(v, eff, oregs, omem) == [(IF eff.x THEN OkVm(v, eff) ELSE HavocVm(v)) EXCEPT !.regs = oregs, !.mem = omem, !.slen = e.slen, !.nrc = v.nrc + Len(e.rc),
                                                                       !.led = LedgerAfter(v.led, e.rc, 1)]

\* registers after the harness's presets (an environment action), then after the step
Over(regs, upd) == [r \in 0..63 |-> IF ToString(r) \in DOMAIN upd THEN upd[ToString(r)] ELSE regs[r]]
Poked == IF Has(e, "poke") THEN [vm EXCEPT !.regs = Over(vm.regs, e.poke)] ELSE vm
ObservedRegs(v) == Over(v.regs, e.regs)
ObservedMem(v)  == ApplyWrites(v.mem, e.mem, 1)

(***************************************************************************)
(* C33: contract storage observations (events of harness vh_vmstorage)     *)
(***************************************************************************)
\* a dump of contract storage: sequence of <<contract, key, value>>
KvOf(s) == [p \in {<<s[i][1], s[i][2]>> : i \in 1..Len(s)} |-> s[CHOOSE i \in 1..Len(s) : <<s[i][1], s[i][2]>> = p][3]]
\* a storage delta: sequence of <<contract, key, 1, value>> (now present) / <<contract, key, 0, "">> (now absent)
RECURSIVE ApplyStd(_, _, _)
ApplyStd(kv, d, i) == IF i > Len(d) THEN kv
                      ELSE ApplyStd(IF d[i][3] = 1 THEN StPut(kv, d[i][1], d[i][2], d[i][4]) ELSE StDel(kv, d[i][1], {d[i][2]}), d, i + 1)
IsSt(w) == ValidWord(w) /\ Mnemonic(w) \in StorageNames
KvAfter(v, eff) == IF eff.x /\ "kv" \in DOMAIN eff.upd THEN eff.upd.kv ELSE v.kv
\* persistent storage after a completed instruction = the map (whenever the recorder logged the storage delta of the step)
StdOk(v, eff) == (Has(e, "std") /\ v.stok /\ (eff.x \/ ~IsSt(e.word))) => ApplyStd(v.kv, e.std, 1) = KvAfter(v, eff)
\* a panicking storage instruction: the reason is one the specification admits; the charge d taken before the panic is anything
\* between 0 and the full cost; result registers may or may not have been written; only the destination buffer may have changed
StPanicOk(v, eff, reason, oregs) ==
    LET d == BN!SatSub(v.regs[CGAS], oregs[CGAS]) IN
    /\ \A r \in (0..63) \ {CGAS, GGAS} : oregs[r] = v.regs[r] \/ (r \in DOMAIN eff.pmay /\ oregs[r] = eff.pmay[r])
    /\ \/ /\ reason = "OutOfGas" /\ ~CanPay(v, eff.gas)
          /\ oregs[CGAS] = "0" /\ oregs[GGAS] = BN!SatSub(v.regs[GGAS], v.regs[CGAS])
       \/ /\ reason \in eff.pan
          /\ BN!Le(oregs[CGAS], v.regs[CGAS]) /\ BN!Le(d, eff.gas)
          /\ oregs[GGAS] = BN!SatSub(v.regs[GGAS], d)
StPanicMemOk(v) ==
    LET may == StorageMayWrite(v, Mnemonic(e.word), e.word) IN
    \A i \in 1..Len(e.mem) : /\ BN!Le(may[1], BN!FromNat(e.mem[i][1]))
                             /\ BN!Le(BN!FromNat(e.mem[i][1] + BLen(e.mem[i][2])), BN!Add(may[1], may[2]))
\* outcome of a storage instruction executed through Interpreter::instruction (mode "exec")
StExec(v, eff, oregs, omem) ==
    CASE e.out = "proceed" ->
            /\ eff.pan = {} /\ eff.out = "proceed"
            /\ CanPay(v, eff.gas)
            /\ oregs = OkRegs(v, eff)
            /\ \/ omem = OkMem(v, eff)
               \/ LET alt == StorageAltWr(v, Mnemonic(e.word), e.word) IN alt # <<>> /\ omem = ApplyWrites(v.mem, alt, 1)
            /\ e.slen = eff.slen
            /\ Len(e.rc) = 0
      [] e.out = "panic" ->
            /\ StPanicOk(v, eff, e.reason, oregs)
            /\ StPanicMemOk(v)
            /\ Len(e.rc) = 0
      [] OTHER -> FALSE
\* after a storage instruction that panicked part-way, or that is not modelled, the storage contents are no longer known
StUnknownIf(b, rec) == IF b THEN [rec EXCEPT !.stok = FALSE] ELSE rec

\* the transaction is over: the host commits the storage changes of a successful script and discards those of a failed one
TStEnd ==
    /\ IsEv(l, "StEnd")
    /\ e.outcome \in {"commit", "revert"}
    /\ LET p == Rec[l - 1] IN              \* the script's last executed instruction (the preceding event) returned ...
       (e.outcome = "commit") = (/\ p.ev = "Step" /\ Has(p, "out") /\ p.out \in {"return", "returndata"}
                                 /\ ~InCall(vm) /\ "6" \notin DOMAIN p.regs)          \* ... at the top level ($fp unchanged, no frame left)
    /\ LET d == KvOf(e.st) IN
       /\ (e.outcome = "commit" => (vm.stok /\ d = vm.kv))
       /\ (e.outcome = "revert" => d = vm.kv0)
       /\ vm' = [vm EXCEPT !.kv = d, !.kv0 = d, !.warm = {}, !.stok = TRUE]
\* a full dump of persistent storage in the middle of a transaction
TStDump ==
    /\ IsEv(l, "StDump")
    /\ vm.stok /\ KvOf(e.st) = vm.kv
    /\ UNCHANGED vm
\* the harness emptied the interpreter's slot cache (an environment action): every slot is cold again
TStCold ==
    /\ IsEv(l, "StCold")
    /\ vm' = [vm EXCEPT !.warm = {}]
\* the same instruction sequence run with a cold, a pre-warmed and a constantly emptied slot cache: every result
\* (outcome, panic reason, registers other than $cgas/$ggas, memory changes, storage changes) is the same
TTwin ==
    /\ IsEv(l, "Twin")
    /\ e.a = e.b
    /\ UNCHANGED vm

TSeg ==
    /\ IsEv(l, "Seg")
    /\ vm' = NoVm
    /\ refs' = <<>>
TInit ==
    /\ IsEv(l, "Init")
    /\ vm' = [regs |-> [r \in 0..63 |-> e.regs[r + 1]], mem |-> WriteBytes(<<>>, 0, e.stack), slen |-> BLen(e.stack), env |-> e.env, frames |-> <<>>,
              glimit |-> e.regs[GGAS + 1], txlen |-> IF Has(e, "tx") THEN BLen(e.tx) ELSE 0, done |-> FALSE,
              code |-> IF Has(e, "contracts") THEN [c \in DOMAIN e.contracts |-> e.contracts[c].code] ELSE <<>>,
              cbal |-> IF Has(e, "contracts") THEN [c \in DOMAIN e.contracts |-> e.contracts[c].bal] ELSE <<>>,
              inputs |-> IF Has(e, "inputs") THEN {e.inputs[i] : i \in 1..Len(e.inputs)} ELSE {},
              nrc |-> 0, opv |-> <<>>, blobs |-> IF Has(e, "blobs") THEN e.blobs ELSE <<>>, outs |-> IF Has(e, "outs") THEN e.outs ELSE <<>>,
              led |-> [mint |-> <<>>, burn |-> <<>>, msg |-> "0"],
              bal0 |-> IF Has(e, "bal0") THEN e.bal0 ELSE <<>>, fee |-> IF Has(e, "fee") THEN e.fee ELSE <<>>,
              outs0 |-> IF Has(e, "outs") THEN e.outs ELSE <<>>,
              cbal0 |-> IF Has(e, "contracts") THEN [c \in DOMAIN e.contracts |-> e.contracts[c].bal] ELSE <<>>, fin |-> <<>>,
              kv |-> IF Has(e, "kv") THEN KvOf(e.kv) ELSE <<>>, kv0 |-> IF Has(e, "kv") THEN KvOf(e.kv) ELSE <<>>,   \* C33: storage contents
              warm |-> {}, stok |-> Has(e, "kv"),
              chain |-> IF Has(e, "chain") THEN e.chain ELSE <<>>]                            \* vmcrypto: the chain oracle's answers
    /\ e.regs[HP + 1] = BN!FromNat(e.hp)
    \* C33: a later transaction starts from the storage the previous one left
    /\ ((Has(e, "cont") /\ e.cont /\ Has(e, "kv")) => (vm.stok /\ KvOf(e.kv) = vm.kv))
    /\ AccOk([inputs |-> IF Has(e, "inputs") THEN {e.inputs[i] : i \in 1..Len(e.inputs)} ELSE {}])
\* the harness writes operand bytes into accessible memory (an environment action, like Poke)
TMemPoke ==
    /\ IsEv(l, "MemPoke")
    /\ ReadPanics(vm, BN!FromNat(e.addr), BN!FromNat(BLen(e.bytes))) = {}
    /\ vm' = [vm EXCEPT !.mem = WriteBytes(vm.mem, e.addr, e.bytes)]
TPoke ==
    /\ IsEv(l, "Poke")
    /\ vm' = [vm EXCEPT !.regs = ObservedRegs(vm)]

\* the free-balance table (the VM's own bookkeeping, not writable by programs)
InBalTable(v, a, d) == a >= 64 /\ a + BLen(d) <= 64 + 40 * v.env.max_inputs
\* a panicking instruction leaves memory as it was, except that the VM may already have updated its own balance entries
PanicMemOk(v) == \A i \in 1..Len(e.mem) : InBalTable(v, e.mem[i][1], e.mem[i][2])
\* registers after a panicking instruction: out-of-gas leaves $cgas = 0; any other panic leaves the registers as they
\* were, possibly with the gas charge applied and possibly with the writes the instruction may do before failing (pmay)
PanicRegsOk(v, eff, reason, oregs) ==
    \/ /\ reason = "OutOfGas" /\ ~CanPay(v, eff.gas) /\ oregs = WithRegs(v, OutOfGasRegs(v))
    \/ /\ reason \in eff.pan
       /\ \E g \in {<<>>} \cup {Charged(v, x) : x \in {y \in eff.gst \cup {eff.gas} : CanPay(v, y)}} :
          \E m \in {<<>>, eff.pmay} : oregs = WithRegs(v, m @@ g)     \* (pmay first: CALL's may-write is $cgas itself)

\* outcome of an exactly modelled instruction executed through Interpreter::instruction (mode "exec")
ExactExec(v, eff, oregs, omem) ==
    CASE e.out \in {"proceed", "return", "returndata", "revert"} ->
            /\ eff.pan = {}
            /\ \/ eff.out = e.out
               \/ \* Interpreter::instruction reports a return inside a call context as such; the run loop then continues in the caller
                  /\ InCall(v) /\ eff.out = "proceed"
                  /\ <<Mnemonic(e.word), e.out>> \in {<<"RET", "return">>, <<"RETD", "returndata">>}
            /\ CanPay(v, eff.gas)
            /\ oregs = OkRegs(v, eff)
            /\ omem = OkMem(v, eff)
            /\ e.slen = eff.slen
            /\ Len(e.rc) = Len(eff.rc) /\ RcPrefixOk(eff)
      [] e.out = "panic" ->
            /\ PanicMemOk(v)
            /\ PanicRegsOk(v, eff, e.reason, oregs)
      [] OTHER -> FALSE

\* vmcrypto: the driver's independent expectation about the result of a cryptographic instruction (Step field `exp`: the signer's
\* key of a signature it produced itself, the verdict for a signature it corrupted, ...) must hold for a completed instruction
CrExpOk(v, oregs, omem) == (Has(e, "exp") /\ e.out = "proceed") => CrExpHolds(e.exp, e.word, v, oregs, omem)

TStepExec ==
    /\ IsEv(l, "Step")
    /\ e.mode = "exec"
    /\ LET v     == Poked
           oregs == ObservedRegs(v)
           omem  == ObservedMem(v)
       IN /\ GasMonotone(v.regs, oregs)
          /\ ConstRegsKept(oregs)
          /\ C30Step(v)
          /\ CrExpOk(v, oregs, omem)
          /\ \E eff \in Effs(CrWithOrc(v, oregs, omem), e.word) :
                /\ (eff.x => IF IsSt(e.word) THEN StExec(v, eff, oregs, omem) ELSE ExactExec(v, eff, oregs, omem))
                /\ (e.out # "panic" => StdOk(v, eff))
                /\ vm' = IF e.out = "panic" THEN StUnknownIf(IsSt(e.word), [v EXCEPT !.regs = oregs, !.mem = omem, !.slen = e.slen])
                         ELSE StUnknownIf(IsSt(e.word) /\ ~eff.x, NextVm(v, eff, oregs, omem))

(***************************************************************************)
(* mode "run": the real fetch / run loop, single-stepped.                  *)
(***************************************************************************)
PcBN(v) == R(v, PC)
FetchPanics(v) == IF ReadPanics(v, PcBN(v), "4") # {} THEN ReadPanics(v, PcBN(v), "4")
                  ELSE IF BN!Lt(PcBN(v), R(v, IS)) \/ ~BN!Lt(PcBN(v), R(v, SSP)) THEN {"MemoryNotExecutable"} ELSE {}
Fetched(v) == ReadBytes(v.mem, BN!ToNat(PcBN(v)), 4)
Kinds(rcs) == [i \in 1..Len(rcs) |-> rcs[i].kind]
\* every byte the step changed lies in the transaction image (the VM rewrites the outputs there when it finishes)
InTxImage(v, a, d) == a >= v.env.tx_offset /\ a + BLen(d) <= v.env.tx_offset + v.txlen
\* the step's memory changes = the instruction's writes, plus (terminal step only) changes inside the tx image
TerminalMemOk(v, eff, okInstr) ==
    LET expected == IF okInstr THEN OkMem(v, eff) ELSE v.mem IN
    \A i \in 1..Len(e.mem) :
        \/ InTxImage(v, e.mem[i][1], e.mem[i][2])
        \/ (~okInstr /\ InBalTable(v, e.mem[i][1], e.mem[i][2]))
        \/ ReadBytes(expected, e.mem[i][1], BLen(e.mem[i][2])) = e.mem[i][2]

StepProceeds(v, eff, oregs, omem) ==
    /\ eff.pan = {} /\ eff.out = "proceed"
    /\ CanPay(v, eff.gas)
    /\ oregs = OkRegs(v, eff)
    /\ omem = OkMem(v, eff)
    /\ e.slen = eff.slen
    /\ Len(e.rc) = Len(eff.rc) /\ RcPrefixOk(eff)
\* script result bookkeeping shared by every way of finishing (C26, C28)
ScriptResultOk(v, oregs, result) ==
    LET rcs == e.rc  last == rcs[Len(rcs)] IN
    /\ Len(rcs) >= 1 /\ last.kind = "ScriptResult"
    /\ last.result = result
    /\ last.gas_used = BN!Sub(v.glimit, oregs[GGAS])                       \* gas used = limit - remaining global gas
    /\ Cardinality({i \in 1..Len(rcs) : rcs[i].kind = "ScriptResult"}) = 1

Visit(v) == <<CurContract(v), BN!Sub(R(v, PC), R(v, IS))>>
TStepRun ==
    /\ IsEv(l, "Step")
    /\ e.mode = "run"
    /\ ~vm.done
    /\ refs' = LET k == ToString(e.run)
                   old == IF k \in DOMAIN refs THEN refs[k] ELSE [vis |-> <<>>, fin |-> 0] IN
               \* the instruction at this location is about to execute (a failing fetch is not an arrival)
               IF FetchPanics(vm) = {} THEN (k :> [old EXCEPT !.vis = Append(@, Visit(vm))]) @@ refs ELSE refs
    /\ LET v     == vm
           oregs == ObservedRegs(v)
           omem  == ObservedMem(v)
           fp    == FetchPanics(v)
       IN /\ GasMonotone(v.regs, oregs)
          /\ ConstRegsKept(oregs)
          /\ C30Step(v)
          /\ (fp = {} => e.word = Fetched(v))
          /\ \E eff \in (IF fp = {} THEN Effs(CrWithOrc(v, oregs, omem), e.word) ELSE {Unmodelled}) :
             IF ~Has(e, "fin")
             THEN \* the instruction completed and execution continues
                  /\ fp = {}
                  /\ (eff.x => StepProceeds(v, eff, oregs, omem))
                  /\ StdOk(v, eff)
                  /\ \A i \in 1..Len(e.rc) : e.rc[i].kind \notin {"ScriptResult", "Panic"}
                  /\ (v.env.default_gas => BN!Lt(oregs[GGAS], v.regs[GGAS]))      \* C29: every executed instruction costs gas
                  /\ vm' = StUnknownIf(fp = {} /\ IsSt(e.word) /\ ~eff.x, NextVm(v, eff, oregs, omem))
             ELSE \* terminal step: the instruction's own outcome followed by the VM's finalisation
                  LET rcs == e.rc
                      n   == Len(rcs)
                      panicked == n >= 2 /\ rcs[n - 1].kind = "Panic"
                  IN /\ IF panicked
                        THEN LET pr == rcs[n - 1] IN
                             /\ e.fin.state = "revert" /\ e.fin.val = "0"
                             /\ ScriptResultOk(v, oregs, "Panic")
                             /\ Cardinality({i \in 1..n : rcs[i].kind = "Panic"}) = 1
                             /\ (eff.x =>
                                   \/ \* (A) the fetch of this very instruction failed
                                      /\ fp # {} /\ pr.reason \in fp /\ oregs = v.regs /\ pr.pc = PcBN(v) /\ n = 2
                                      /\ TerminalMemOk(v, eff, FALSE)
                                   \/ \* (B) this instruction panicked
                                      /\ fp = {} /\ pr.pc = PcBN(v) /\ pr.instr = e.word /\ n = 2
                                      /\ pr.id = CurContract(v)
                                      /\ IF IsSt(e.word) THEN StPanicOk(v, eff, pr.reason, oregs)
                                         ELSE PanicRegsOk(v, eff, pr.reason, oregs) /\ TerminalMemOk(v, eff, FALSE)
                                   \/ \* (C) this instruction completed and the fetch of the next one failed
                                      /\ fp = {} /\ eff.pan = {} /\ eff.out = "proceed" /\ CanPay(v, eff.gas)
                                      /\ oregs = OkRegs(v, eff)
                                      /\ n = Len(eff.rc) + 2 /\ RcPrefixOk(eff)
                                      /\ pr.pc = oregs[PC]
                                      /\ pr.reason \in FetchPanics([v EXCEPT !.regs = oregs, !.mem = OkMem(v, eff), !.slen = eff.slen])
                                      /\ TerminalMemOk(v, eff, TRUE))
                        ELSE \* top-level return / return-data / revert
                             /\ fp = {}
                             /\ e.fin.state \in {"return", "returndata", "revert"}
                             /\ ScriptResultOk(v, oregs, IF e.fin.state = "revert" THEN "Revert" ELSE "Success")
                             /\ \A i \in 1..n : rcs[i].kind # "Panic"
                             /\ (eff.x => (/\ eff.pan = {} /\ CanPay(v, eff.gas)
                                           /\ eff.out = e.fin.state
                                           /\ n = Len(eff.rc) + 1 /\ RcPrefixOk(eff)
                                           /\ oregs = OkRegs(v, eff)
                                           /\ TerminalMemOk(v, eff, TRUE)))
                     /\ vm' = [(IF eff.x /\ ~panicked /\ e.fin.state # "revert" THEN OkVm(v, eff) ELSE v)
                               EXCEPT !.regs = oregs, !.mem = omem, !.slen = e.slen, !.done = TRUE, !.nrc = v.nrc + Len(e.rc),
                                      !.led = LedgerAfter(v.led, e.rc, 1),
                                      !.fin = [state |-> e.fin.state, reverted |-> panicked \/ e.fin.state = "revert",
                                               gas_used |-> e.rc[Len(e.rc)].gas_used]]

(***************************************************************************)
(* Final: the finished transaction (C27 asset conservation, C28 outcome).  *)
(***************************************************************************)
MT == INSTANCE BinaryMerkleRef
SumSeq(f, n) == LET RECURSIVE S(_) S(i) == IF i > n THEN "0" ELSE BN!Add(f[i], S(i + 1)) IN S(1)
\* refund of the fee limit for the gas actually used: limit - (ceil((min_gas + used) * price / factor) + tip)
UsedFee(v) == BN!Add(BN!CeilDiv(BN!Mul(Sat64(BN!Add(v.fee.min_gas, v.fin.gas_used)), v.fee.price), v.fee.factor), v.fee.tip)
Refund(v) == BN!SatSub(v.fee.max_fee, UsedFee(v))
Base(v) == v.env.base_asset
NonRet(v, a) == IF a \in DOMAIN v.bal0.nonret THEN v.bal0.nonret[a] ELSE "0"
\* free balance the transaction started with (message-data inputs only count when execution succeeds)
Free0(v, a, success) == BN!Add(NonRet(v, a), IF a = Base(v) /\ success THEN v.bal0.retry ELSE "0")
SumOver(S, f(_)) == LET RECURSIVE T(_) T(X) == IF X = {} THEN "0" ELSE LET x == CHOOSE x \in X : TRUE IN BN!Add(f(x), T(X \ {x})) IN T(S)
ContractsSum(cb, a) == SumOver(DOMAIN cb, LAMBDA c : IF a \in DOMAIN cb[c] THEN cb[c][a] ELSE "0")
OutSum(outs, kind, a) == SumOver({i \in 1..Len(outs) : outs[i].kind = kind /\ outs[i].asset = a}, LAMBDA i : outs[i].amount)
Led(f, a) == IF a \in DOMAIN f THEN f[a] ELSE "0"
WatchedAssets(v) == (DOMAIN v.bal0.nonret) \cup {Base(v)} \cup UNION {DOMAIN v.cbal0[c] : c \in DOMAIN v.cbal0}
                    \cup (IF Has(e, "post") /\ Has(e.post, "contracts") THEN UNION {DOMAIN e.post.contracts[c].bal : c \in DOMAIN e.post.contracts} ELSE {})
                    \cup DOMAIN v.led.mint \cup DOMAIN v.led.burn

OutputsOk(v) ==
    /\ Len(e.outputs) = Len(v.outs0)
    /\ \A i \in 1..Len(e.outputs) :
         LET o == e.outputs[i]  o0 == v.outs0[i] IN
         CASE o0.kind = "Change" ->
                  /\ o.kind = "Change" /\ o.to = o0.to /\ o.asset = o0.asset
                  /\ o.amount = BN!Add(IF v.fin.reverted THEN NonRet(v, o.asset) ELSE FreeBal(v, o.asset),
                                       IF o.asset = Base(v) THEN Refund(v) ELSE "0")
           [] o0.kind = "Variable" ->
                  /\ o.kind = "Variable"
                  /\ IF v.fin.reverted THEN o.amount = "0"
                     ELSE (o.amount = v.outs[i].amount /\ o.to = v.outs[i].to /\ o.asset = v.outs[i].asset)
           [] OTHER -> o.kind = o0.kind /\ o.to = o0.to /\ o.amount = o0.amount /\ o.asset = o0.asset

\* per asset: what was there + minted = what is there now + burned + sent away   (successful runs)
Conserved(v, a) ==
    LET cf == [c \in DOMAIN e.post.contracts |-> e.post.contracts[c].bal] IN
    BN!Add(BN!Add(Free0(v, a, TRUE), ContractsSum(v.cbal0, a)), Led(v.led.mint, a))
      = BN!Add(BN!Add(BN!Add(FreeBal(v, a), ContractsSum(cf, a)), BN!Add(OutSum(e.outputs, "Variable", a), Led(v.led.burn, a))),
               IF a = Base(v) THEN v.led.msg ELSE "0")

TFinal ==
    /\ IsEv(l, "Final")
    /\ (vm.done =>
          /\ e.nrc = vm.nrc /\ e.nrc <= ReceiptLimit                               \* C28: receipts counted, bounded
          /\ e.receipts_root = MT!MTH(e.rc_all)                                    \* C28: root = RFC 6962 root of the encoded receipts
          /\ (vm.outs0 # <<>> /\ vm.fee # <<>> => OutputsOk(vm))                    \* C28 / C27: change and variable outputs
          /\ (~vm.fin.reverted /\ Has(e, "post") /\ Has(e.post, "contracts") =>
                /\ \A a \in WatchedAssets(vm) : Conserved(vm, a)                   \* C27: ledger equation on observed balances
                /\ \A c \in DOMAIN e.post.contracts : \A a \in DOMAIN e.post.contracts[c].bal :
                      e.post.contracts[c].bal[a] = CBal(vm, c, a)))                  \* model balances = real storage
    /\ refs' = LET k == ToString(e.run)
                   old == IF k \in DOMAIN refs THEN refs[k] ELSE [vis |-> <<>>, fin |-> 0] IN
               (k :> [old EXCEPT !.fin = l]) @@ refs
    /\ UNCHANGED vm

\* C28: the in-memory client leaves contract storage exactly as it was when the transaction reverted or panicked
TClientTx ==
    /\ IsEv(l, "ClientTx")
    /\ (e.reverted => e.after = e.before)
    /\ (~e.reverted => (Len(e.kinds) >= 1 /\ e.kinds[Len(e.kinds)] = "ScriptResult"))
    /\ UNCHANGED vm
\* C28 / C31: the script `RET $one` executed by a client that has just run another transaction (which may have ended inside a called
\* contract, by revert or panic) ends as on a fresh instance: [Return(1), ScriptResult(Success)]
TClientFollow ==
    /\ IsEv(l, "ClientFollow")
    /\ Len(e.rc) = 2
    /\ e.rc[1].kind = "Return" /\ e.rc[1].val = "1"
    /\ e.rc[2].kind = "ScriptResult" /\ e.rc[2].result = "Success"
    /\ UNCHANGED vm

\* C28: the receipt list is bounded; hitting the bound is a panic whose last two receipts are Panic + ScriptResult
TRunSummary ==
    /\ IsEv(l, "RunSummary")
    /\ e.nrc <= ReceiptLimit
    /\ (Has(e, "rc_all") => (Len(e.rc_all) = e.nrc /\ e.receipts_root = MT!MTH(e.rc_all)))   \* C09 / C28: the committed root also at the limit
    /\ Len(e.tail) = 2 /\ e.tail[2].kind = "ScriptResult"
    \* the last two slots are reserved for the ending (Panic, ScriptResult): the Return receipt must land below them (RcptPan)
    /\ IF e.loops + 3 <= ReceiptLimit
       THEN e.logs = e.loops /\ e.nrc = e.loops + 2 /\ e.tail[1].kind = "Return" /\ e.tail[2].result = "Success"
       ELSE e.tail[1].kind = "Panic" /\ e.tail[1].reason = "TooManyReceipts" /\ e.tail[2].result = "Panic" /\ e.logs = e.nrc - 2
    /\ UNCHANGED vm

(***************************************************************************)
(* Replicas (C31 determinism / instance reuse, C32 debugger transparency). *)
(* The reference run is single-stepped on a fresh interpreter and fully    *)
(* validated above; a replica executes the SAME ready transaction against  *)
(* equal storage in another way and must end in the same final state.      *)
(***************************************************************************)
SameFinal(f, r) ==
    /\ f.state = r.state
    /\ (Has(r, "val") => (Has(f, "val") /\ f.val = r.val))
    /\ (Has(r, "digest") => (Has(f, "digest") /\ f.digest = r.digest))
    /\ f.rc_all = r.rc_all                         \* receipts, byte for byte
    /\ f.receipts_root = r.receipts_root
    /\ f.tx_after = r.tx_after                     \* the output transaction
    /\ f.nrc = r.nrc
    /\ (Has(r, "post") => (Has(f, "post") /\ f.post = r.post))   \* storage (slots, balances, code) after the run
RefFinal(run) == Rec[refs[ToString(run)].fin]
TReplica ==
    /\ IsEv(l, "Replica")
    /\ ToString(e.of) \in DOMAIN refs
    /\ SameFinal(e.final, RefFinal(e.of))
    /\ UNCHANGED <<vm, refs>>
TReplicaReceipts ==
    /\ IsEv(l, "ReplicaReceipts")
    /\ ToString(e.of) \in DOMAIN refs
    /\ e.rc_all = RefFinal(e.of).rc_all
    /\ UNCHANGED <<vm, refs>>
\* a run with breakpoints, resumed after every debug event: same final state, and the debug events are exactly the
\* arrivals of the reference run at breakpoint locations — once per arrival, in order (hence before the instruction executes)
TBpRun ==
    /\ IsEv(l, "BpRun")
    /\ ToString(e.of) \in DOMAIN refs
    /\ SameFinal(e.final, RefFinal(e.of))
    /\ LET bps == {e.bps[i] : i \in 1..Len(e.bps)}
           vis == refs[ToString(e.of)].vis
       IN e.breaks = SelectSeq(vis, LAMBDA x : x \in bps)
    /\ UNCHANGED <<vm, refs>>

\* predicate verification / estimation of one transaction over a recording predicate storage (C30): no access to a
\* contract table at all; and a predicate that reaches an instruction which is not allowed in predicates after a prologue
\* of MOVI / NOOP instructions (which cannot fail with the ample gas the driver gives) is refused with
\* ContractInstructionNotAllowed
PredWord(i) == Slice(e.code, 4 * (i - 1), 4)
PredHarmless(w) == ValidWord(w) /\ (Mnemonic(w) = "NOOP" \/ (Mnemonic(w) = "MOVI" /\ Writable(RA(w))))
PredRefused == \E i \in 1..(BLen(e.code) \div 4) :
                  /\ PredicateForbidden(PredWord(i))
                  /\ \A j \in 1..(i - 1) : PredHarmless(PredWord(j))
TPredCheck ==
    /\ IsEv(l, "PredCheck")
    /\ \A i \in 1..Len(e.acc) : e.acc[i].table \notin ContractTables
    /\ (PredRefused => (e.ok = FALSE /\ e.reason = "ContractInstructionNotAllowed"))
    /\ UNCHANGED vm
TrNext == \/ ((TPredCheck \/ TInit \/ TMemPoke \/ TPoke \/ TStepExec \/ TStEnd \/ TStDump \/ TStCold \/ TTwin \/ TClientTx \/ TClientFollow \/ TRunSummary) /\ UNCHANGED refs /\ l' = l + 1)
          \/ ((TSeg \/ TStepRun \/ TFinal \/ TReplica \/ TReplicaReceipts \/ TBpRun) /\ l' = l + 1)
TrSpec == TrInit /\ [][TrNext]_trVars
=============================================================================
