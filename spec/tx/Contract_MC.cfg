SPECIFICATION MCSpec
CONSTANTS
  Lens = {0, 1, 7, 8, 9, 15, 16, 16383, 16384, 16385, 16392, 32767, 32768, 32769, 49153}
  SmallLens = {0, 9}
  Fills = {"zero", "ff", "inc"}
  Prefix = "24040000"
  NKeys = 3
  EmitReplay = FALSE
INVARIANTS LeavesOk UnrolledOk PadInsensitive KnownAnswers DeployedOk Separated ChainKeyedMC Emit
CHECK_DEADLOCK FALSE
