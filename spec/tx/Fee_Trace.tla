------------------------------ MODULE Fee_Trace ------------------------------
(***************************************************************************)
(* impl -> spec for C18.  A segment of the trace is                        *)
(*   Seg, Tx{t, c, fp, price}, MinGas{v}, MaxGas{v}, MinFee{v}, MaxFee{v}, *)
(*   Refund{used, r}*, FeeSummary{r}, Ready{ok, err, pol, fee}             *)
(* recorded from fuel-tx / fuel-vm on a real transaction `t` was MEASURED  *)
(* from (abstract quantities only), under the schedule `c` and parameters  *)
(* logged in the Tx event.  An event is accepted iff the logged result is  *)
(* the value the Fee specification defines; a HostPanic event matches no   *)
(* action ("none of these computations panic").                            *)
(* Refund: equality only inside RefundDomain (min_gas + used within u64);  *)
(* everywhere: refund <= fee limit and non-increasing in used, both        *)
(* evaluated on the LOGGED values of one transaction.                      *)
(***************************************************************************)
EXTENDS Fee, TraceIO
BN == INSTANCE BigNat
VARIABLES l,      \* next event
          cur,    \* <<>> or [k |-> Ctx of the current Tx event]
          seen    \* refund observations of the current transaction: <<[used, r]>>
trVars == <<l, cur, seen>>

TrInit == l = 1 /\ cur = <<>> /\ seen = <<>>
e == Rec[l]
Open == cur # <<>>
k == cur.k
Same == UNCHANGED <<cur, seen>>

TSeg == /\ IsEv(l, "Seg")
        /\ cur' = <<>> /\ seen' = <<>>
TTx  == /\ IsEv(l, "Tx")
        /\ e.fp.factor # "0"
        /\ cur' = [k |-> Ctx(e.t, e.c, e.fp, e.price)]
        /\ seen' = <<>>
TMinGas == IsEv(l, "MinGas") /\ Open /\ e.v = MinGasK(k) /\ Same
TMaxGas == IsEv(l, "MaxGas") /\ Open /\ e.v = MaxGasK(k) /\ Same
TMinFee == IsEv(l, "MinFee") /\ Open /\ e.v = MinFeeK(k) /\ Same
TMaxFee == IsEv(l, "MaxFee") /\ Open /\ e.v = MaxFeeK(k) /\ Same

\* non-increasing in used gas, on the logged values: a larger used amount never yields a larger
\* refund, and never yields a refund where a smaller amount yields none
Antitone(a, b) == (BN!Le(a.used, b.used) /\ b.r # "none") => (a.r # "none" /\ BN!Le(b.r, a.r))
TRefund ==
    /\ IsEv(l, "Refund") /\ Open
    /\ (RefundDomainK(k, e.used) => e.r = RefundOrNoneK(k, e.used))
    /\ (e.r # "none" => BN!Le(e.r, k.limit))
    /\ LET me == [used |-> e.used, r |-> e.r] IN
       /\ \A i \in 1..Len(seen) : Antitone(seen[i], me) /\ Antitone(me, seen[i])
       /\ seen' = Append(seen, me)
    /\ UNCHANGED cur
TSummary ==
    /\ IsEv(l, "FeeSummary") /\ Open
    /\ e.r = (IF FeeSummaryDefinedK(k) THEN FeeSummaryK(k) ELSE "none")
    /\ Same
\* which error is reported is left to the code; an InsufficientMaxFee must carry the right numbers
TReady ==
    /\ IsEv(l, "Ready") /\ Open
    /\ e.ok = ReadyAcceptedK(k)
    /\ (e.err = "InsufficientMaxFee" => (e.pol = k.limit /\ e.fee = MaxFeeK(k)))
    /\ Same

TrNext == (TSeg \/ TTx \/ TMinGas \/ TMaxGas \/ TMinFee \/ TMaxFee \/ TRefund \/ TSummary \/ TReady) /\ l' = l + 1
TrSpec == TrInit /\ [][TrNext]_trVars

\* the theorems of the property at every point the implementation was driven to
PointThms == Open => (ThmGasOrder(k) /\ ThmFeeOrder(k) /\ ThmWidths(k))
=============================================================================
