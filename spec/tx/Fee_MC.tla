------------------------------- MODULE Fee_MC -------------------------------
(***************************************************************************)
(* Leg M + generator for Leg R of C18.                                     *)
(*                                                                         *)
(* The abstract transaction shapes and the named gas schedules are READ    *)
(* from a file (env SHAPES) that the harness wrote by building real        *)
(* transactions of a structural family and measuring them; TLC then        *)
(*  - checks the theorems of the property on a boundary grid               *)
(*    (price, factor >= 1, tip, limit, gas, used in Grid), and             *)
(*  - prints, for every point, the values the specification predicts       *)
(*    (REPLAY lines), which the harness compares with the real code.       *)
(*                                                                         *)
(* Two families of points:                                                 *)
(*  "feegrid": shapes with exactly one predicate input under the free      *)
(*     schedule and gas_per_byte 0, so that min_gas IS the declared        *)
(*     predicate gas g: the full grid over (g, price, factor, tip, limit)  *)
(*     with all of Grid as used-gas values (and script gas limits).        *)
(*  "gas": every structural shape x schedule x gas_per_byte x witness      *)
(*     limit below/at/above the witness size x declared gas, at a few      *)
(*     price points.                                                       *)
(* The state graph is a tree root -> (shape, ..) -> point class so that    *)
(* TLC's workers share the evaluation; it has no other meaning.            *)
(***************************************************************************)
EXTENDS Fee, TLC, Json, IOUtils
BN == INSTANCE BigNat

CONSTANTS Grid,          \* boundary values (BigNat strings)
          FeeGridKinds,  \* kinds whose feegrid shape is enumerated
          FeeGridSgl,    \* script gas limits tried in the feegrid family
          GasScheds,     \* schedule names used by the gas family
          GasGpb,        \* gas_per_byte values of the gas family
          GasVals,       \* declared predicate gas values of the gas family
          GasSgl,        \* script gas limits of the gas family
          WlModes,       \* witness limit relative to the witness size
          EmitReplay

File   == ndJsonDeserialize(IOEnv.SHAPES)
Scheds == File[1].scheds
NShapes == Len(File) - 1
Shape(i) == File[i + 1]
SchedIdx(name) == CHOOSE i \in 1..Len(Scheds) : Scheds[i].name = name

Factors == Grid \ {"0"}
RECURSIVE SortBig(_)
SortBig(S) == IF S = {} THEN <<>>
              ELSE LET m == CHOOSE x \in S : \A y \in S : BN!Le(x, y) IN <<m>> \o SortBig(S \ {m})
UsedSeq == SortBig(Grid)

PricePoints == {
    [price |-> "0", factor |-> "1", tip |-> "0", limit |-> "0"],
    [price |-> "1", factor |-> "1", tip |-> "0", limit |-> BN!Max64],
    [price |-> "1000", factor |-> "92", tip |-> "7", limit |-> "1000000000000"],
    [price |-> "4294967296", factor |-> "2", tip |-> "1", limit |-> "9223372036854775808"],
    [price |-> "3", factor |-> "4294967296", tip |-> "2", limit |-> "5"],
    [price |-> BN!Max64, factor |-> "1", tip |-> BN!Max64, limit |-> BN!Max64] }

HasPol(t, f) == f \in DOMAIN t.pol
DimSet(t, f, S) == IF HasPol(t, f) THEN S ELSE {"absent"}

WlVal(t, m) == LET ws == N(WitnessBytes(t)) IN
    CASE m = "zero"  -> "0"
      [] m = "below" -> BN!SatSub(ws, "1")
      [] m = "at"    -> ws
      [] m = "above" -> BN!Add(ws, "1")
      [] m = "far"   -> BN!Add(ws, "4294967296")
      [] m = "max"   -> BN!Max64

\* the shape with declared predicate gas, script gas limit and the three fee policies substituted
Subst(t, g, sgl, wl, tip, lim) ==
    [t EXCEPT !.inputs = [j \in 1..Len(t.inputs) |->
                             IF t.inputs[j].k = "pred" THEN [t.inputs[j] EXCEPT !.gas = g] ELSE t.inputs[j]],
              !.sgl = IF t.kind = "Script" THEN sgl ELSE "0",
              !.pol = [f \in DOMAIN t.pol |-> CASE f = "tip" -> tip [] f = "wlimit" -> wl [] f = "maxfee" -> lim
                                               [] OTHER -> t.pol[f]]]
SubRec(t, g, sgl, wl, tip, lim) ==
    [gas |-> g, sgl |-> IF t.kind = "Script" THEN sgl ELSE "0",
     wlimit |-> IF HasPol(t, "wlimit") THEN wl ELSE "absent",
     tip |-> IF HasPol(t, "tip") THEN tip ELSE "absent",
     maxfee |-> IF HasPol(t, "maxfee") THEN lim ELSE "absent"]

\* one fully determined point: (sid, schedule index, substituted t, sub record, gpb, factor, price)
Pt(sid, sc, t, sub, gpb, factor, price) ==
    [sid |-> sid, sc |-> sc, t |-> t, sub |-> sub, fp |-> [gpb |-> gpb, factor |-> factor], price |-> price]

K(p) == Ctx(p.t, Scheds[p.sc].c, p.fp, p.price)
Expected(p) ==
    LET k == K(p) IN
    [min_gas |-> MinGasK(k), max_gas |-> MaxGasK(k), min_fee |-> MinFeeK(k), max_fee |-> MaxFeeK(k),
     refunds |-> [i \in 1..Len(UsedSeq) |->
                     IF RefundDomainK(k, UsedSeq[i]) THEN RefundOrNoneK(k, UsedSeq[i]) ELSE "free"] \o <<>>,
     summary |-> IF FeeSummaryDefinedK(k) THEN FeeSummaryK(k) ELSE "none",
     ready |-> IF ReadyAcceptedK(k) THEN "ok" ELSE "reject"]

Line(p) == [sid |-> p.sid, sched |-> Scheds[p.sc].name, t |-> p.t, sub |-> p.sub,
            gpb |-> p.fp.gpb, factor |-> p.fp.factor, price |-> p.price, useds |-> UsedSeq, exp |-> Expected(p)]

\* ThmRefundBounded / ThmRefundAntitone over all of Grid as used-gas values, with every refund evaluated
\* once (the trailing \o <<>> makes TLC materialise the sequence instead of re-evaluating it per access)
Theorems(p) ==
    LET k == K(p)
        R == [i \in 1..Len(UsedSeq) |-> RefundOrNoneK(k, UsedSeq[i])] \o <<>> IN
    /\ ThmGasOrder(k)
    /\ ThmFeeOrder(k)
    /\ ThmWidths(k)
    /\ \A i \in 1..Len(R) : (R[i] # "none" => BN!Le(R[i], k.limit))
    /\ \A i \in 1..Len(R) : \A j \in i..Len(R) : (R[j] # "none" => (R[i] # "none" /\ BN!Le(R[j], R[i])))

VARIABLES lvl, node
vars == <<lvl, node>>

FeeGridSids == {i \in 1..NShapes : Shape(i).fam = "feegrid" /\ Shape(i).t.kind \in FeeGridKinds}
GasSids     == {i \in 1..NShapes : Shape(i).fam = "gas"}

\* the points of a leaf node
Points(n) ==
    LET t0 == Shape(n.sid).t IN
    IF n.fam = "feegrid"
    THEN LET sc == SchedIdx("free")  wl == WlVal(t0, "at") IN
         { Pt(n.sid, sc, Subst(t0, n.g, s, wl, tip, lim), SubRec(t0, n.g, s, wl, tip, lim), "0", f, n.price) :
             <<s, f, tip, lim>> \in (IF t0.kind = "Script" THEN FeeGridSgl ELSE {"0"}) \X Factors \X Grid \X Grid }
    ELSE { Pt(n.sid, n.sc, Subst(t0, x[2], x[3], WlVal(t0, x[1]), x[4].tip, x[4].limit),
              SubRec(t0, x[2], x[3], WlVal(t0, x[1]), x[4].tip, x[4].limit), n.gpb, x[4].factor, x[4].price) :
             x \in WlModes \X GasVals \X (IF t0.kind = "Script" THEN GasSgl ELSE {"0"}) \X PricePoints }

MCInit == lvl = 0 /\ node = [fam |-> "root"]
AShape == /\ lvl = 0
          /\ lvl' = 1
          /\ node' \in {[fam |-> "feegrid", sid |-> s, g |-> g] : s \in FeeGridSids, g \in Grid}
                       \cup {[fam |-> "gas", sid |-> s, sc |-> SchedIdx(nm)] : s \in GasSids, nm \in GasScheds}
APoint == /\ lvl = 1
          /\ lvl' = 2
          /\ node' \in IF node.fam = "feegrid"
                       THEN {[fam |-> "feegrid", sid |-> node.sid, g |-> node.g, price |-> p] : p \in Grid}
                       ELSE {[fam |-> "gas", sid |-> node.sid, sc |-> node.sc, gpb |-> b] : b \in GasGpb}
MCNext == AShape \/ APoint
MCSpec == MCInit /\ [][MCNext]_vars

\* ---- invariants ----
\* pure arithmetic of the fee conversion on the whole grid (checked once, in the root)
ArithThms == lvl = 0 =>
    /\ \A g \in Grid, p \in Grid, f \in Factors : ThmCeil(g, p, f)
    /\ \A g1 \in Grid, g2 \in Grid, p \in Grid, f \in Factors : ThmFeeMonotone(g1, g2, p, f)
PointThms == lvl = 2 => \A p \in Points(node) : Theorems(p)
Emit == (EmitReplay /\ lvl = 2) => \A p \in Points(node) : PrintT("REPLAY" \o ToJson(Line(p)))
=============================================================================
