SPECIFICATION MCSpec
CONSTANTS
  Tier = "quick"
  CParamsLen = 331
  EmitReplay = FALSE
INVARIANTS TableIsValid Conservation ExpectationExplained OverspendRejected TightHolds Emit
CHECK_DEADLOCK FALSE
