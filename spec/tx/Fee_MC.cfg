SPECIFICATION MCSpec
CONSTANTS
  Grid = {"0", "1", "2", "4294967296", "9223372036854775808", "18446744073709551614", "18446744073709551615"}
  FeeGridKinds = {"Script"}
  FeeGridSgl = {"0", "9223372036854775808"}
  GasScheds = {"default", "mixed", "huge"}
  GasGpb = {"0", "63", "18446744073709551615"}
  GasVals = {"0", "1000", "18446744073709551615"}
  GasSgl = {"0", "1000000"}
  WlModes = {"zero", "below", "at", "above", "max"}
  EmitReplay = TRUE
INVARIANTS ArithThms PointThms Emit
CHECK_DEADLOCK FALSE
