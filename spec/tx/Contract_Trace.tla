--------------------------- MODULE Contract_Trace ---------------------------
(* impl -> spec: a trace recorded from fuel-tx / fuel-vm is accepted iff every   *)
(* logged identifier equals the value the specification (module Contract)        *)
(* computes from the logged inputs, every Create / predicate verdict is the one  *)
(* the specification dictates, and the VM's deployment and CROO agree with the   *)
(* contract table `chain`.                                                        *)
EXTENDS Contract, TraceIO
LOCAL INSTANCE Hex
LOCAL INSTANCE VerifHash
VARIABLES l, code, cr      \* next event; the code under test of this segment; cr = CodeRoot(code),
                           \* computed by the specification once per segment (at the Code event)
trVars == <<chain, code, cr, l>>
TrInit == CInit /\ code = "" /\ cr = CodeRoot("") /\ l = 1
e == Rec[l]

\* cr = CodeRoot(code) throughout (TrInit, TSeg, TCode), so these are PredicateOwner(code) etc.
CurOwner == SHA256(Seed \o cr)

TSeg == /\ IsEv(l, "Seg")
        /\ chain' = <<>>
        /\ code' = ""
        /\ cr' = CodeRoot("")

\* constants the library publishes
TConsts == /\ IsEv(l, "Consts")
           /\ e.empty_contract_id = ContractIdOf("", Zeros(32), <<>>)
           /\ e.default_state_root = StateRoot(<<>>)
           /\ e.seed = Seed
           /\ UNCHANGED <<chain, code, cr>>

\* the pure functions of a byte code: Contract::root_from_code, Contract::root,
\* Input::predicate_owner, Input::is_predicate_owner_valid (on its own owner), BlobId::compute
TCode == /\ IsEv(l, "Code")
         /\ LET r == CodeRoot(e.code) IN
            /\ e.root = r
            /\ e.root_obj = r
            /\ e.owner = SHA256(Seed \o r)             \* = PredicateOwner(e.code)
            /\ e.owner_valid = TRUE
            /\ e.blob = BlobId(e.code)
            /\ cr' = r
         /\ code' = e.code
         /\ UNCHANGED chain

\* Input::is_predicate_owner_valid on an arbitrary owner
TOwnerValid == /\ IsEv(l, "OwnerValid")
               /\ e.valid = (e.owner = CurOwner)
               /\ UNCHANGED <<chain, code, cr>>

\* Contract::initial_state_root on the slots in the logged order and in a second order
TStateRoot == /\ IsEv(l, "StateRoot")
              /\ DistinctKeys(e.slots)
              /\ e.root = StateRoot(e.slots)
              /\ e.root_perm = StateRoot(e.slots)
              /\ UNCHANGED <<chain, code, cr>>

\* Contract::id on arbitrary 32-byte arguments
TId == /\ IsEv(l, "Id")
       /\ e.id = ContractId(e.salt, e.code_root, e.state_root)
       /\ UNCHANGED <<chain, code, cr>>

\* a Create transaction of the current code built by the library's builder
\* (add_contract_created): cached metadata, the output it wrote, and the validity verdict
TCreate == /\ IsEv(l, "Create")
           /\ DistinctKeys(e.slots)
           /\ LET sr == StateRoot(e.slots)  id == ContractId(e.salt, cr, sr) IN
              /\ e.meta_code_root = cr
              /\ e.meta_state_root = sr
              /\ e.meta_id = id
              /\ e.computed_code_root = cr
              /\ e.computed_state_root = sr
              /\ e.computed_id = id
              /\ e.out_id = id
              /\ e.out_state_root = sr
              /\ e.checked = TRUE
           /\ UNCHANGED <<chain, code, cr>>

\* a Create transaction whose ContractCreated output was written by the driver
TCreateOut == /\ IsEv(l, "CreateOut")
              /\ DistinctKeys(e.slots)
              /\ e.checked = (e.out_id = ContractId(e.salt, cr, StateRoot(e.slots)) /\ e.out_state_root = StateRoot(e.slots))   \* CreatedOutputOk
              /\ UNCHANGED <<chain, code, cr>>

\* the VM executed a valid Create transaction of the current code
SlotTriples(id, slots) == {<<id, slots[i][1], slots[i][2]>> : i \in DOMAIN slots}
TDeploy == /\ IsEv(l, "Deploy")
           /\ e.ok = TRUE
           /\ DeployAs(ContractId(e.salt, cr, StateRoot(e.slots)), code, e.salt, e.slots)
           /\ LET id == ContractId(e.salt, cr, StateRoot(e.slots)) IN
              /\ e.out_id = id                                   \* the output of the executed transaction
              /\ e.out_state_root = StateRoot(e.slots)
              /\ e.exists = TRUE                                 \* the contract table has an entry under id
              /\ e.stored_code = code                            \* ... holding exactly the code
              \* the storage slots written by this deployment: exactly the initial slots, under id
              /\ {<<e.state_added[i][1], e.state_added[i][2], e.state_added[i][3]>> : i \in DOMAIN e.state_added}
                     = SlotTriples(id, e.slots)
           /\ UNCHANGED <<code, cr>>

\* a script executed CROO on contract e.id and returned the 32 bytes written
TCroo == /\ IsEv(l, "Croo")
         /\ e.id \in DOMAIN chain
         /\ e.ok = TRUE
         /\ e.data = Croo(e.id)
         /\ UNCHANGED <<chain, code, cr>>

\* a transaction spending one predicate-guarded input (kind = coin | message-coin | message-data)
\* whose predicate is the current code and whose owner/recipient is e.owner:
\*   valid      verdict of the transaction validity rules of fuel-tx (format + signature/owner rules)
\*   vm         verdict of the VM's predicate verification alone, on a transaction that passed
\*              those rules and whose owner field was then set to e.owner
\*   runnable   the driver built the code so that it returns true when executed
TPred == /\ IsEv(l, "Pred")
         /\ BLen(code) > 0
         /\ LET good == (e.owner = CurOwner) IN                       \* OwnerOk(e.owner, code)
            /\ e.valid = good
            /\ (Has(e, "vm") => /\ (~good => e.vm = FALSE)
                                /\ (good => e.vm_err # "InvalidOwner")
                                /\ ((good /\ e.runnable) => e.vm = TRUE))
         /\ UNCHANGED <<chain, code, cr>>

TrNext == (TSeg \/ TConsts \/ TCode \/ TOwnerValid \/ TStateRoot \/ TId \/ TCreate \/ TCreateOut
           \/ TDeploy \/ TCroo \/ TPred) /\ l' = l + 1
TrSpec == TrInit /\ [][TrNext]_trVars
=============================================================================
