--------------------------- MODULE TxFormat_Trace ---------------------------
(***************************************************************************)
(* impl -> spec for the wire format.  Every event logged by vh_txfmt       *)
(* carries the abstract value (projected from the REAL value) and what the *)
(* real code returned for it; the event is accepted iff the specification  *)
(* recomputes the same observation:                                        *)
(*   Encoded  (C01)  bytes = Enc, reported sizes = Size/SizeS/SizeD = the  *)
(*                   length, word aligned, decode consumed exactly that    *)
(*                   and gave the value back (minus what the format        *)
(*                   leaves out);                                          *)
(*   Offsets  (C04)  every offset the library reported = OffsetOf(path),   *)
(*                   with and without cached metadata; predicate offset    *)
(*                   and padded length;                                    *)
(*   Id       (C03)  id = SHA-256(BE64(chain) || Enc(PrepareSign(tx))),    *)
(*                   cached id and id after precompute equal to it;        *)
(*   Decoded  (C02)  the law of the property: no panic (a panic event has  *)
(*                   no action here); an accepted string yields a value    *)
(*                   whose size is the number of bytes consumed, whose     *)
(*                   re-encoding is the canonical encoding of that value   *)
(*                   and decodes to the same value with the same length.   *)
(* Events are independent; Seg events only delimit reporting units.        *)
(***************************************************************************)
EXTENDS TxId, TraceIO
LOCAL H == INSTANCE Hex
VARIABLE l
e == Rec[l]

TSeg   == IsEv(l, "Seg")
TStats == IsEv(l, "Stats")

TEncoded ==
    /\ IsEv(l, "Encoded")
    /\ LET T == SchemaOf(e.type) IN
       /\ WF(T, e.v) = TRUE      \* (= TRUE: evaluated as a predicate, not expanded as an action)
       /\ e.bytes = Enc(T, e.v)
       /\ e.size = H!BLen(e.bytes)
       /\ e.size = Size(T, e.v)
       /\ e.size_static = SizeS(T, e.v)
       /\ e.size_dynamic = SizeD(T, e.v)
       /\ e.size % 8 = 0
       /\ e.dec.out = "ok"
       /\ e.dec.consumed = e.size
       /\ Strip(T, e.dec.v) = Strip(T, e.v)

TOffsets ==
    /\ IsEv(l, "Offsets")
    /\ \A k \in 1..Len(e.obs) :
          LET ob == e.obs[k] IN
          /\ ob.some
          /\ PathOk(TransactionT, e.v, ob.p)
          /\ OffsetOf(TransactionT, e.v, ob.p) = ob.off
    /\ \A k \in 1..Len(e.preds) :
          LET pr == e.preds[k] IN
          /\ pr.some
          /\ e.v.inputs[pr.i + 1].kind \in PredicateKinds
          /\ pr.off = OffsetOf(TransactionT, e.v, <<"inputs", pr.i, "predicate">>)
          /\ pr.len = H!Aligned8(H!BLen(e.v.inputs[pr.i + 1].predicate))

TId ==
    /\ IsEv(l, "Id")
    /\ e.id = Id(e.chain, e.v)
    /\ (e.cached = "refused" \/ (e.cached = e.id /\ e.after = e.id))

TDecoded ==
    /\ IsEv(l, "Decoded")
    /\ e.out \in {"err", "ok"}
    /\ (e.out = "ok") =>
          /\ e.size = e.consumed
          /\ e.consumed <= H!BLen(e.bytes)
          /\ H!BLen(e.reenc) = e.size
          /\ e.reenc = Enc(SchemaOf(e.type), e.v)
          /\ e.re.out = "ok"
          /\ e.re.consumed = e.consumed
          /\ e.re.v = e.v

TrInit == l = 1
TrNext == (TSeg \/ TStats \/ TEncoded \/ TOffsets \/ TId \/ TDecoded) /\ l' = l + 1
TrSpec == TrInit /\ [][TrNext]_l
=============================================================================
