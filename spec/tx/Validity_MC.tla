---------------------------- MODULE Validity_MC ----------------------------
(***************************************************************************)
(* Leg M + generator for Leg R of C19.                                     *)
(*                                                                         *)
(* Initial states: every small transaction of the structural families      *)
(* below (all sequences of inputs/outputs over a tiny universe: 2 assets   *)
(* incl. base, 2 owners, 2 contracts, 2 utxo ids, 2 nonces; valid AND      *)
(* invalid ones), plus an arithmetic family (all amount combinations over  *)
(* {0, 1, 5, 2^64-1}), each with TIGHT consensus limits (every limit       *)
(* equals the quantity it bounds).                                         *)
(* Next: from every ACCEPTED initial state, every single mutation of one   *)
(* limit / policy / amount / input attribute / witness / body field, i.e.  *)
(* every single-rule violation reachable from a valid transaction (and the *)
(* neighbouring still-valid boundary cases).                               *)
(* Every state is printed as a REPLAY line with the specification's        *)
(* verdict, failing rule names and free balances.                          *)
(***************************************************************************)
EXTENDS Validity, TLC, Json
BN == INSTANCE BigNat

CONSTANTS Tier,          \* "quick" | "thorough"
          CParamsLen,    \* length of a serialized ConsensusParameters witness (given by the harness)
          EmitReplay

VARIABLE c               \* [tx, p, h, mut, v]  (v = the specification's verdict, computed once per case)

Base  == "B"
Other == "X"
Priv  == "o0"
H0    == "10"
Sym   == "1000"          \* symbolic size / max gas: the harness substitutes the real value, limits are relative to it
Amts  == {"0", "1", "5", BN!Max64}

Pol0 == [tip |-> None, witnessLimit |-> None, maturity |-> None, maxFee |-> "0", expiration |-> None, owner |-> None]

MkIn(k, asset, amount, owner, utxo, nonce, contract) ==
    [k |-> k, asset |-> asset, amount |-> amount, owner |-> owner, utxo |-> utxo, nonce |-> nonce, contract |-> contract,
     wit |-> 0,
     predLen |-> IF k \in PredicateKinds THEN 4 ELSE 0,
     predDataLen |-> IF k \in PredicateKinds THEN 2 ELSE 0,
     dataLen |-> IF k \in MessageDataKinds THEN 3 ELSE 0]
CoinS(a, amt, o, u) == MkIn("CoinSigned", a, amt, o, u, "", "")
CoinP(a, amt, u)    == MkIn("CoinPredicate", a, amt, "pred", u, "", "")
MsgCS(amt, o, n)    == MkIn("MessageCoinSigned", "", amt, o, "", n, "")
MsgCP(amt, n)       == MkIn("MessageCoinPredicate", "", amt, "pred", "", n, "")
MsgDS(amt, o, n)    == MkIn("MessageDataSigned", "", amt, o, "", n, "")
MsgDP(amt, n)       == MkIn("MessageDataPredicate", "", amt, "pred", "", n, "")
Contr(cid, u)       == MkIn("Contract", "", "0", "", u, "", cid)

MkOut(k, asset, amount, ix, idOk, rootOk) ==
    [k |-> k, asset |-> asset, amount |-> amount, inputIndex |-> ix, idOk |-> idOk, rootOk |-> rootOk]
OCoin(a, amt) == MkOut("Coin", a, amt, 0, FALSE, FALSE)
OChange(a)    == MkOut("Change", a, "0", 0, FALSE, FALSE)
OVar          == MkOut("Variable", "", "0", 0, FALSE, FALSE)
OContr(ix)    == MkOut("Contract", "", "0", ix, FALSE, FALSE)
OCC(i, r)     == MkOut("ContractCreated", "", "0", 0, i, r)

\* ---- alphabets ----
InFull == {CoinS(a, "5", o, u) : a \in {Base, Other}, o \in {"o0", "o1"}, u \in {"u0", "u1"}}
     \cup {CoinP(a, "5", u) : a \in {Base, Other}, u \in {"u0", "u1"}}
     \cup {MsgCS("5", o, n) : o \in {"o0", "o1"}, n \in {"n0", "n1"}}
     \cup {MsgCP("5", n) : n \in {"n0", "n1"}}
     \cup {MsgDS("5", "o1", n) : n \in {"n0", "n1"}}
     \cup {MsgDP("5", n) : n \in {"n0", "n1"}}
     \cup {Contr(cid, u) : cid \in {"c0", "c1"}, u \in {"u0", "u1"}}
InSmall == {CoinS(Base, "5", "o0", "u0"), CoinS(Base, "5", "o1", "u1"), CoinS(Other, "5", "o1", "u0"),
            CoinP(Other, "5", "u1"), MsgCS("5", "o0", "n0"), MsgCP("5", "n1"), MsgDS("5", "o1", "n0"),
            MsgDP("5", "n1"), Contr("c0", "u0"), Contr("c1", "u1")}
InTiny == {CoinS(Base, "5", "o0", "u0"), CoinS(Other, "5", "o1", "u0"), CoinS(Other, "5", "o0", "u1"),
           MsgCS("5", "o0", "n0"), MsgDP("5", "n0"), Contr("c0", "u0"), Contr("c0", "u1"), Contr("c1", "u1")}

OutFull(maxIn) == {OCoin(a, "1") : a \in {Base, Other}} \cup {OChange(a) : a \in {Base, Other}} \cup {OVar}
                  \cup {OContr(ix) : ix \in 0..maxIn} \cup {OCC(TRUE, TRUE)}
OutSmall == {OCoin(Base, "1"), OChange(Base), OChange(Other), OVar, OContr(0), OContr(1), OCC(TRUE, TRUE)}
\* focus: two contract inputs (same / different id) each needing its own contract output
InContr  == {CoinS(Base, "5", "o0", "u0"), Contr("c0", "u0"), Contr("c0", "u1"), Contr("c1", "u1")}
OutContr == {OContr(0), OContr(1), OContr(2)}

SeqsUpTo(S, n) == UNION {[1..k -> S] : k \in 0..n}
\* identifiers are interchangeable: keep the sequences whose utxo ids / nonces / contract ids appear in
\* order of first use (the harness varies the concrete meaning of the names)
FirstUse(s, f, first, second) ==
    \A j \in Ix(s) : (s[j][f] = second) => (\E i \in 1..(j - 1) : s[i][f] = first)
Canonical(s) == FirstUse(s, "utxo", "u0", "u1") /\ FirstUse(s, "nonce", "n0", "n1") /\ FirstUse(s, "contract", "c0", "c1")

\* ---- transactions ----
MkTx(kind, ins, outs) ==
    [kind |-> kind, inputs |-> ins, outputs |-> outs, wlens |-> <<4>>, pol |-> Pol0, size |-> Sym, maxGas |-> Sym,
     scriptLen |-> IF kind = "Script" THEN 4 ELSE 0, scriptDataLen |-> IF kind = "Script" THEN 3 ELSE 0,
     widx |-> 0,
     slots |-> IF kind = "Create" THEN <<"01", "02">> ELSE <<>>,
     purpose |-> IF kind = "Upgrade" THEN "StateTransition" ELSE None, checksumOk |-> FALSE, deserOk |-> FALSE,
     nsub |-> IF kind = "Upload" THEN 2 ELSE 0, proofOk |-> kind = "Upload",
     blobIdOk |-> kind = "Blob",
     ptrHeight |-> "0", outInputIndex |-> 0, mintAsset |-> ""]
MkMint(ptr, ix, asset) ==
    [MkTx("Mint", <<>>, <<>>) EXCEPT !.wlens = <<>>, !.ptrHeight = ptr, !.outInputIndex = ix, !.mintAsset = asset,
                                     !.pol = [Pol0 EXCEPT !.maxFee = None]]

MaxOver(S) == IF S = {} THEN 0 ELSE CHOOSE m \in S : \A x \in S : x <= m
N(n) == BN!FromNat(n)
Tight(t) ==
    [maxSize |-> t.size, maxGasPerTx |-> t.maxGas,
     maxInputs |-> N(Len(t.inputs)), maxOutputs |-> N(Len(t.outputs)), maxWitnesses |-> N(Len(t.wlens)),
     maxPredLen |-> N(MaxOver({t.inputs[j].predLen : j \in Ix(t.inputs)})),
     maxPredDataLen |-> N(MaxOver({t.inputs[j].predDataLen : j \in Ix(t.inputs)})),
     maxMsgDataLen |-> N(MaxOver({t.inputs[j].dataLen : j \in Ix(t.inputs)})),
     maxScriptLen |-> N(t.scriptLen), maxScriptDataLen |-> N(t.scriptDataLen),
     contractMaxSize |-> N(IF t.kind = "Create" /\ t.widx < Len(t.wlens) THEN t.wlens[t.widx + 1] ELSE 0),
     maxStorageSlots |-> N(Len(t.slots)), maxSubsections |-> N(t.nsub),
     base |-> Base, privileged |-> Priv]
LimitNames == {"maxSize", "maxGasPerTx", "maxInputs", "maxOutputs", "maxWitnesses", "maxPredLen", "maxPredDataLen",
               "maxMsgDataLen", "maxScriptLen", "maxScriptDataLen", "contractMaxSize", "maxStorageSlots", "maxSubsections"}

\* Flags that abstract a hash comparison have a value only when the compared data exists: without the body's
\* witness nothing matches; ContractCreated outputs match a contract only in a Create transaction.
Norm(t) ==
    LET oob == t.widx >= Len(t.wlens) IN
    [t EXCEPT !.proofOk = t.proofOk /\ ~oob, !.blobIdOk = t.blobIdOk /\ ~oob,
              !.checksumOk = t.checksumOk /\ ~oob, !.deserOk = t.deserOk /\ ~oob,
              !.outputs = [o \in DOMAIN t.outputs |->
                             IF t.outputs[o].k = "ContractCreated"
                             THEN [t.outputs[o] EXCEPT !.idOk = t.outputs[o].idOk /\ ~oob /\ t.kind = "Create",
                                                       !.rootOk = t.outputs[o].rootOk /\ t.kind = "Create"]
                             ELSE t.outputs[o]]]
Mk(t0, p, h, tag) == LET t == Norm(t0) IN [tx |-> t, p |-> p, h |-> h, mut |-> tag, v |-> Verdict(t, p, h)]
Case(t, tag) == Mk(t, Tight(t), H0, tag)

\* Initial states are SEEDS (a kind and a sequence of inputs, or two amounts); the action ABase / AArith
\* completes a seed into a case.  (TLC computes initial states on one thread; successors on all workers.)
IsCase == c.mut \notin {"seed", "seed-arith"}
Start(t) == c = Case(t, "base")
OutAlpha(name) == CASE name = "full2" -> OutFull(2) [] name = "full3" -> OutFull(3) [] name = "small" -> OutSmall
                    [] name = "contr" -> OutContr
Struct(kind, inA, maxIn, outA, maxOut) ==
    \E ni \in 0..maxIn : \E i \in [1..ni -> inA] :
        Canonical(i) /\ c = [mut |-> "seed", kind |-> kind, ins |-> i, outA |-> outA, maxOut |-> maxOut]
ABase == /\ c.mut = "seed"
         /\ \E no \in 0..c.maxOut : \E o \in [1..no -> OutAlpha(c.outA)] : c' = Case(MkTx(c.kind, c.ins, o), "base")

\* ---- arithmetic family: every combination of amounts ----
Fee(t, f) == [t EXCEPT !.pol.maxFee = f]
AArith ==
    /\ c.mut = "seed-arith"
    /\ LET a1 == c.a1
           a2 == c.a2
           To(t) == c' = Case(t, "base") IN
       \E o1 \in Amts, f \in Amts :
       \/ To(Fee(MkTx("Script", <<CoinS(Base, a1, "o0", "u0"), CoinS(Base, a2, "o1", "u1")>>, <<OCoin(Base, o1)>>), f))
       \/ \E o2 \in Amts :
            To(Fee(MkTx("Script", <<CoinS(Other, a1, "o0", "u0"), MsgCS(a2, "o1", "n0")>>, <<OCoin(Other, o1), OCoin(Base, o2)>>), f))
       \/ To(Fee(MkTx("Script", <<CoinS(Base, a1, "o0", "u0"), MsgDP(a2, "n0")>>, <<OCoin(Base, o1)>>), f))
       \/ To(Fee(MkTx("Script", <<MsgCS(a1, "o0", "n0"), MsgCP(a2, "n1")>>, <<OCoin(Base, o1), OChange(Base)>>), f))
       \/ To(Fee(MkTx("Script", <<CoinP(Other, a1, "u0")>>, <<OCoin(Other, o1), OCoin(Other, a2)>>), f))
       \/ /\ o1 \in {"0", "1"} /\ f \in {"0", "1"}
          /\ \E a3 \in Amts :
               To(Fee(MkTx("Script", <<CoinS(Other, a1, "o0", "u0"), MsgDS(a2, "o1", "n0"), MsgDP(a3, "n1")>>, <<OCoin(Base, o1)>>), f))
       \/ \E k \in RestrictedKinds :
            To(Fee(MkTx(k, <<CoinS(Base, a1, "o0", "u0"), MsgCP(a2, "n0")>>,
                        IF k = "Create" THEN <<OCC(TRUE, TRUE), OCoin(Base, o1)>> ELSE <<OCoin(Base, o1)>>), f))

MCInit ==
    \/ \E a1 \in Amts, a2 \in Amts : c = [mut |-> "seed-arith", a1 |-> a1, a2 |-> a2]
    \/ \E ptr \in {"9", "10", "11"}, ix \in {0, 1}, a \in {Base, Other} : Start(MkMint(ptr, ix, a))
    \/ /\ Tier = "quick"
       /\ \/ Struct("Script", InFull, 2, "full2", 1)
          \/ Struct("Script", InSmall, 2, "full2", 2)
          \/ Struct("Script", InContr, 3, "contr", 2)
          \/ \E k \in RestrictedKinds : Struct(k, InSmall, 2, "small", 1) \/ Struct(k, InTiny, 1, "small", 2)
    \/ /\ Tier = "thorough"
       /\ \/ Struct("Script", InFull, 2, "full2", 2)
          \/ Struct("Script", InTiny, 3, "full3", 2)
          \/ Struct("Script", InTiny, 2, "small", 3)
          \/ Struct("Script", InContr, 3, "contr", 3)
          \/ Struct("Script", InSmall, 3, "full3", 1)
          \/ \E k \in RestrictedKinds : \/ Struct(k, InFull, 2, "full2", 2)
                                        \/ Struct(k, InSmall, 2, "small", 2)
                                        \/ Struct(k, InTiny, 3, "small", 1)

\* ---- single mutations of an accepted case ----
Mutable == IsCase /\ c.mut = "base" /\ c.v = "accept"
\* the quick tier applies the structure-independent mutations to the small cases only
Small == Tier = "thorough" \/ Len(c.tx.inputs) + Len(c.tx.outputs) <= 2
Actual(r) == IF r \in {"maxSize", "maxGasPerTx"} THEN 1000 ELSE BN!ToNat(c.p[r])
Go(t, p, tag) == c' = Mk(t, p, c.h, tag)

\* one limit is set just below the quantity it bounds
ALimit == /\ Mutable
          /\ \E r \in LimitNames :
               /\ Actual(r) >= 1
               /\ Go(c.tx, [c.p EXCEPT ![r] = N(Actual(r) - 1)], "limit:" \o r)

PolVariants(t) ==
       {<<"maturity", v>> : v \in {"0", "10", "11", U32Max, "4294967296"}}
  \cup {<<"expiration", v>> : v \in {"10", "9", "0", U32Max, "4294967296"}}
  \cup {<<"witnessLimit", v>> : v \in {N(WitnessesSize(t)), N(WitnessesSize(t) - 1), "0", BN!Max64}}
  \cup {<<"tip", v>> : v \in {"0", BN!Max64}}
  \cup {<<"maxFee", None>>}
  \cup {<<"owner", v>> : v \in {N(j) : j \in 0..Len(t.inputs)} \cup {"4294967296", BN!Max64}}
APolicy == /\ Mutable
           /\ c.tx.kind # "Mint"
           /\ \E v \in PolVariants(c.tx) :
                /\ (v[1] = "owner" \/ Small)
                /\ Go([c.tx EXCEPT !.pol[v[1]] = v[2]], c.p, "pol:" \o v[1])

\* one amount (of an input, of a coin output, or the fee limit) takes every boundary value
AAmount == /\ Mutable /\ Small
           /\ c.tx.kind # "Mint"
           /\ \E a \in Amts :
                \/ \E j \in Ix(c.tx.inputs) : /\ c.tx.inputs[j].k # "Contract" /\ c.tx.inputs[j].amount # a
                                              /\ Go([c.tx EXCEPT !.inputs[j].amount = a], c.p, "amount:input")
                \/ \E o \in OutputsOf(c.tx, "Coin") : /\ c.tx.outputs[o].amount # a
                                                      /\ Go([c.tx EXCEPT !.outputs[o].amount = a], c.p, "amount:output")
                \/ /\ c.tx.pol.maxFee # a
                   /\ Go([c.tx EXCEPT !.pol.maxFee = a], c.p, "amount:fee")

\* one attribute of one input leaves its valid range (limits stay as they were)
AInputAttr == /\ Mutable
              /\ \E j \in Ix(c.tx.inputs) :
                   LET i == c.tx.inputs[j] IN
                   \/ i.k \in SignedKinds /\ Go([c.tx EXCEPT !.inputs[j].wit = Len(c.tx.wlens)], c.p, "input:wit")
                   \/ i.k \in PredicateKinds /\ Go([c.tx EXCEPT !.inputs[j].predLen = 0], c.p, "input:predLen0")
                   \/ i.k \in PredicateKinds /\ Go([c.tx EXCEPT !.inputs[j].predLen = @ + 1], c.p, "input:predLen+1")
                   \/ i.k \in PredicateKinds /\ Go([c.tx EXCEPT !.inputs[j].predDataLen = @ + 1], c.p, "input:predDataLen+1")
                   \/ i.k \in PredicateKinds /\ Go([c.tx EXCEPT !.inputs[j].predDataLen = 0], c.p, "input:predDataLen0")
                   \/ i.k \in MessageDataKinds /\ Go([c.tx EXCEPT !.inputs[j].dataLen = 0], c.p, "input:dataLen0")
                   \/ i.k \in MessageDataKinds /\ Go([c.tx EXCEPT !.inputs[j].dataLen = @ + 1], c.p, "input:dataLen+1")

\* the witness vector changes under the inputs / the body
AWitness == /\ Mutable /\ Small
            /\ c.tx.kind # "Mint"
            /\ \/ Go([c.tx EXCEPT !.wlens = <<>>], c.p, "wit:none")
               \/ Go([c.tx EXCEPT !.wlens = <<4, 0>>], [c.p EXCEPT !.maxWitnesses = "2"], "wit:two")
               \/ Go([c.tx EXCEPT !.wlens = <<4, 0>>], c.p, "wit:two-over-limit")
               \/ Go([c.tx EXCEPT !.wlens = <<5>>], c.p, "wit:longer")

\* kind-specific body fields
AKind == /\ Mutable
         /\ \/ /\ c.tx.kind = "Script" /\ Small
               /\ \/ Go([c.tx EXCEPT !.scriptLen = 5], c.p, "script:len+1")
                  \/ Go([c.tx EXCEPT !.scriptDataLen = 4], c.p, "script:dataLen+1")
                  \/ Go([c.tx EXCEPT !.scriptLen = 0, !.scriptDataLen = 0], c.p, "script:empty")
            \/ /\ c.tx.kind = "Create"
               /\ \/ \E s \in {<<>>, <<"01">>, <<"02", "01">>, <<"01", "01">>, <<"01", "02", "03">>, <<"01", "03", "02">>} :
                        Go([c.tx EXCEPT !.slots = s], c.p, "create:slots")
                  \/ \E s \in {<<"02", "01">>, <<"01", "01">>, <<"01", "02", "03">>} :
                        Go([c.tx EXCEPT !.slots = s], [c.p EXCEPT !.maxStorageSlots = "3"], "create:slots-roomy")
                  \/ Go([c.tx EXCEPT !.widx = 1], c.p, "create:widx")
                  \/ \E o \in OutputsOf(c.tx, "ContractCreated") : \E f \in {<<FALSE, TRUE>>, <<TRUE, FALSE>>} :
                        Go([c.tx EXCEPT !.outputs[o].idOk = f[1], !.outputs[o].rootOk = f[2]], c.p, "create:cc-mismatch")
            \/ /\ c.tx.kind = "Upgrade"
               /\ \/ \E f \in {<<TRUE, TRUE>>, <<FALSE, TRUE>>, <<TRUE, FALSE>>} :
                        Go([c.tx EXCEPT !.purpose = "ConsensusParameters", !.checksumOk = f[1], !.deserOk = f[2],
                                        !.wlens = <<IF f[2] THEN CParamsLen ELSE 4>>], c.p, "upgrade:cparams")
                  \/ Go([c.tx EXCEPT !.purpose = "ConsensusParameters", !.checksumOk = TRUE, !.deserOk = TRUE,
                                     !.wlens = <<CParamsLen>>, !.widx = 1], c.p, "upgrade:widx")
                  \/ \E j \in Ix(c.tx.inputs) : /\ c.tx.inputs[j].owner = Priv
                                                /\ Go([c.tx EXCEPT !.inputs[j].owner = "o1"], c.p, "upgrade:owner")
            \/ /\ c.tx.kind = "Upload"
               /\ \/ Go([c.tx EXCEPT !.proofOk = FALSE], c.p, "upload:proof")
                  \/ Go([c.tx EXCEPT !.widx = 1], c.p, "upload:widx")
                  \/ Go([c.tx EXCEPT !.nsub = 3], c.p, "upload:nsub+1")
            \/ /\ c.tx.kind = "Blob"
               /\ \/ Go([c.tx EXCEPT !.blobIdOk = FALSE], c.p, "blob:id")
                  \/ Go([c.tx EXCEPT !.widx = 1], c.p, "blob:widx")
            \/ /\ c.tx.kind = "Mint"
               /\ Go(c.tx, [c.p EXCEPT !.maxSize = "999"], "mint:size")

MCNext == ABase \/ AArith \/ ALimit \/ APolicy \/ AAmount \/ AInputAttr \/ AWitness \/ AKind
MCSpec == MCInit /\ [][MCNext]_c

\* ---- design-level invariants (Leg M) ----
V == c.v
\* the conjunction and the rule table are the same predicate
TableIsValid == IsCase => (Valid(c.tx, c.p, c.h) <=> (FailingRules(c.tx, c.p, c.h) = {}))
\* an accepted chargeable transaction conserves every asset: inputs = free + coin outputs (+ fee limit for base)
Conservation == (IsCase /\ V = "accept" /\ HasBalances(c.tx)) =>
    \A a \in BalanceAssets(c.tx, Base) :
        BN!Add(FreeBalance(c.tx, Base, a), Debit(c.tx, Base, a)) = Credit(c.tx, Base, a)
\* what the specification expects to be recorded is itself explained by the specification
ExpectationExplained == (IsCase /\ V = "accept") =>
    LET eb == ExpectedBalances(c.tx, Base)
        sq == CHOOSE s \in [1..Cardinality(eb) -> eb] : \A i, j \in 1..Cardinality(eb) : (i # j) => (s[i] # s[j])
    IN Explains(c.tx, c.p, c.h, TRUE, [i \in 1..Cardinality(eb) |-> [asset |-> sq[i][1], amount |-> sq[i][2]]],
                IF HasBalances(c.tx) THEN Retryable(c.tx) ELSE "0")
\* overspending is never accepted
OverspendRejected == (IsCase /\ HasBalances(c.tx) /\ ~Sufficient(c.tx, Base)) => (V = "reject")
\* the base cases carry tight limits: no limit rule fails in a base case
TightHolds == (IsCase /\ c.mut = "base") =>
    (FailingRules(c.tx, c.p, c.h) \cap {"Size", "MaxGas", "InputsMax", "OutputsMax", "WitnessesMax", "PredicateLen",
        "PredicateDataLen", "ScriptLen", "ScriptDataLen", "BytecodeLen", "StorageSlotsMax", "SubsectionsMax"} = {})

Line == [tx |-> c.tx, p |-> c.p, h |-> c.h, mut |-> c.mut,
         exp |-> [verdict |-> V, failing |-> FailingRules(c.tx, c.p, c.h),
                  bal |-> IF V = "reject" THEN {} ELSE ExpectedBalances(c.tx, Base),
                  retry |-> IF HasBalances(c.tx) THEN Retryable(c.tx) ELSE "0"]]
Emit == (EmitReplay /\ IsCase) => PrintT("REPLAY" \o ToJson(Line))
=============================================================================
