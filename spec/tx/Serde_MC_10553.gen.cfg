SPECIFICATION MCSpec
CONSTANTS
  PolicyValues = {"0", "1", "18446744073709551615"}
  EmitReplay = TRUE
INVARIANTS PoliciesRoundTrip LayoutLength NewerEntriesCompact WrongCountRejected BincodeSize PostcardBounds CaseInSpace Emit
CHECK_DEADLOCK FALSE
