--------------------------- MODULE Validity_Trace ---------------------------
(***************************************************************************)
(* impl -> spec (C19).  Every "Checked" event is one real transaction      *)
(* (projected into the abstract vocabulary of Validity.tla), the consensus *)
(* parameters and block height it was checked with, and what the real code *)
(* answered:                                                               *)
(*   fmt   FormatValidityChecks::check_without_signatures succeeded        *)
(*   ok    IntoChecked::into_checked_basic succeeded                       *)
(*   bal   the non-retryable free-balance table of the metadata            *)
(*   retry the retryable amount of the metadata                            *)
(* The event is accepted iff the specification explains it:                *)
(*   fmt  <=> every validity rule holds;                                   *)
(*   ok   <=> the rules hold and every asset is covered (verdict left open *)
(*            only where a sum does not fit a machine word);               *)
(*   ok    => the recorded balances are exactly the specified ones.        *)
(* The error variant (err) is a diagnostic and is not compared.            *)
(* Events are independent; "Seg" markers only delimit reporting units.     *)
(* A "HostPanic" event has no action: it is a violation.                   *)
(***************************************************************************)
EXTENDS Validity, TraceIO
VARIABLE l
e == Rec[l]

TrInit   == l = 1
TSeg     == IsEv(l, "Seg")
TChecked == /\ IsEv(l, "Checked")
            /\ (e.fmt <=> Valid(e.tx, e.p, e.h))
            /\ Explains(e.tx, e.p, e.h, e.ok, e.bal, e.retry)
TrNext   == (TSeg \/ TChecked) /\ l' = l + 1
TrSpec   == TrInit /\ [][TrNext]_l
=============================================================================
