--------------------------------- MODULE Fee ---------------------------------
(***************************************************************************)
(* Fee and refund arithmetic of chargeable transactions (C18).             *)
(*                                                                         *)
(* The ORACLE, written from the FuelVM specification (tx-format:           *)
(* min_gas / max_gas / max fee), the doc comments of fuel-tx fee.rs and    *)
(* gas.rs, and the text of the property - with EXACT integers (BigNat),    *)
(* never with machine words.                                               *)
(*                                                                         *)
(*   intrinsic gas   = bytes * gas_per_byte                                *)
(*                   + one signature recovery (eck1) per DISTINCT witness  *)
(*                     index referenced by a signed input                  *)
(*                   + per predicate input: contract_root(len(predicate))  *)
(*                     + declared predicateGasUsed + vm_initialization     *)
(*                       (tx bytes)                                        *)
(*                   + metadata (hashing the tx for its id; for Create the *)
(*                     contract root, state root and contract id; for      *)
(*                     Upload the subsection hash and the proof; for       *)
(*                     Upgrade(consensus parameters) the hash of the       *)
(*                     parameters; for Blob the blob id)                   *)
(*                   + vm_initialization(tx bytes)                         *)
(*                   + (Upload only) new_storage_per_byte * bytecode bytes *)
(*   min_gas = intrinsic gas                                               *)
(*   max_gas = min_gas + (witness_limit - witness_bytes) * gas_per_byte    *)
(*             (+ script_gas_limit for Script)                             *)
(*   fee(gas) = ceil(gas * price / factor);  min/max fee = fee(gas) + tip  *)
(*   refund(used) = fee_limit - (fee(min_gas + used) + tip)                *)
(*                                                                         *)
(* u64 RESULTS.  min_gas / max_gas are reported as u64.  fee.rs documents  *)
(* that these sums saturate ("It's okay to saturate because we have the    *)
(* max_gas_per_tx rule"), so the reported value is the exact value clamped *)
(* to 2^64-1 (a sum of non-negative terms that saturates anywhere          *)
(* saturates as a whole, so ONE clamp of the exact sum is the meaning).    *)
(* Fees are u128: gas*price <= (2^64-1)^2 and tip <= 2^64-1, so the exact  *)
(* value always fits and no clamp is involved.                             *)
(* The refund is DEFINED by the property only where min_gas + used does    *)
(* not leave u64 (RefundDomain); outside, only the universal laws are      *)
(* claimed (no panic, refund <= limit, non-increasing in used).            *)
(*                                                                         *)
(* An abstract transaction `t` is a record of plainly measurable           *)
(* quantities:                                                             *)
(*   kind    "Script" | "Create" | "Upgrade" | "Upload" | "Blob"           *)
(*   size    serialized size in bytes (the metered bytes)                  *)
(*   wlens   raw byte length of every witness, in order                    *)
(*   inputs  sequence of [k |-> "signed", w |-> witness index]             *)
(*                      | [k |-> "pred", len |-> predicate bytes,          *)
(*                         gas |-> declared predicate gas (BigNat)]        *)
(*                      | [k |-> "other"]                                  *)
(*   pol     the policies that are SET: subset of {tip, wlimit, maxfee}    *)
(*   Script: sgl (script gas limit)      Create: bwi, slots                *)
(*   Upload: wi, subs    Upgrade: purpose ("cp"|"st"), wi     Blob: wi     *)
(* A schedule `c`: eck1, nspb (BigNat); s256, contract_root, state_root,   *)
(* vm_init (dependent costs [k |-> "light", base, upg] / [k |-> "heavy",   *)
(* base, gpu]).  Fee parameters `fp`: gpb (gas per byte), factor (>= 1).   *)
(***************************************************************************)
EXTENDS Naturals, Sequences, FiniteSets
LOCAL BN == INSTANCE BigNat

N(i) == BN!FromNat(i)
Clamp64(x) == BN!Min(x, BN!Max64)

RECURSIVE SumBig(_)                       \* exact sum of a sequence of BigNat
SumBig(s) == IF s = <<>> THEN "0" ELSE BN!Add(Head(s), SumBig(Tail(s)))
RECURSIVE SumNat(_)
SumNat(s) == IF s = <<>> THEN 0 ELSE Head(s) + SumNat(Tail(s))

(***************************************************************************)
(* DependentCost (gas.rs): a light operation processes `units_per_gas`     *)
(* units for one gas (floor), a heavy one costs `gas_per_unit` per unit;   *)
(* both on top of `base`.                                                  *)
(***************************************************************************)
ResolveX(c, units) ==                     \* exact
    IF c.k = "light" THEN BN!Add(c.base, BN!Div(units, c.upg))
                     ELSE BN!Add(c.base, BN!Mul(units, c.gpu))
Resolve(c, units) == Clamp64(ResolveX(c, units))      \* as reported (u64)

\* ---- plain facts about the abstract transaction ----
PolicyOr0(t, f) == IF f \in DOMAIN t.pol THEN t.pol[f] ELSE "0"
Tip(t)          == PolicyOr0(t, "tip")
WitnessLimit(t) == PolicyOr0(t, "wlimit")
FeeLimit(t)     == PolicyOr0(t, "maxfee")

\* a witness index that points nowhere denotes an empty payload
WitLenAt(t, i) == IF i < Len(t.wlens) THEN t.wlens[i + 1] ELSE 0
\* wire size of one witness: 8-byte length, then the data right-padded to a multiple of 8
WitnessWire(n) == 8 + n + ((8 - (n % 8)) % 8)
WitnessBytes(t) == SumNat([i \in 1..Len(t.wlens) |-> WitnessWire(t.wlens[i])])

SignedInputs(t) == {j \in 1..Len(t.inputs) : t.inputs[j].k = "signed"}
PredInputs(t)   == {j \in 1..Len(t.inputs) : t.inputs[j].k = "pred"}
RecoveredWitnesses(t) == {t.inputs[j].w : j \in SignedInputs(t)}     \* DISTINCT indices

\* ---- intrinsic gas, exact ----
VmInitX(t, c) == ResolveX(c.vm_init, N(t.size))
RecoveryGasX(t, c) == BN!Mul(N(Cardinality(RecoveredWitnesses(t))), c.eck1)
PredicateGasX(t, c, j) ==
    BN!Add(BN!Add(ResolveX(c.contract_root, N(t.inputs[j].len)), t.inputs[j].gas), VmInitX(t, c))
InputsGasX(t, c) ==
    BN!Add(RecoveryGasX(t, c),
           SumBig([j \in 1..Len(t.inputs) |-> IF j \in PredInputs(t) THEN PredicateGasX(t, c, j) ELSE "0"]))

TxIdGasX(t, c) == ResolveX(c.s256, N(t.size))
\* contract id = sha256("FUEL" (4) ++ salt (32) ++ code root (32) ++ state root (32))
ContractIdPreimageLen == 4 + 32 + 32 + 32
MetadataGasX(t, c) ==
    CASE t.kind = "Script"  -> TxIdGasX(t, c)
      [] t.kind = "Create"  -> SumBig(<< ResolveX(c.contract_root, N(WitLenAt(t, t.bwi))),
                                         ResolveX(c.state_root, N(t.slots)),
                                         ResolveX(c.s256, N(ContractIdPreimageLen)),
                                         TxIdGasX(t, c) >>)
      [] t.kind = "Upgrade" -> BN!Add(TxIdGasX(t, c),
                                      IF t.purpose = "cp" THEN ResolveX(c.s256, N(WitLenAt(t, t.wi))) ELSE "0")
      [] t.kind = "Upload"  -> SumBig(<< TxIdGasX(t, c),
                                         ResolveX(c.s256, N(WitLenAt(t, t.wi))),
                                         ResolveX(c.state_root, N(t.subs)) >>)
      [] t.kind = "Blob"    -> BN!Add(TxIdGasX(t, c), ResolveX(c.s256, N(WitLenAt(t, t.wi))))

BytesGasX(t, fp) == BN!Mul(N(t.size), fp.gpb)
StorageGasX(t, c) == IF t.kind = "Upload" THEN BN!Mul(c.nspb, N(WitLenAt(t, t.wi))) ELSE "0"

MinGasX(t, c, fp) == SumBig(<< InputsGasX(t, c), MetadataGasX(t, c), BytesGasX(t, fp), VmInitX(t, c),
                               StorageGasX(t, c) >>)
RemainingWitnessGasX(t, fp) == BN!Mul(BN!SatSub(WitnessLimit(t), N(WitnessBytes(t))), fp.gpb)
MaxGasX(t, c, fp) == SumBig(<< MinGasX(t, c, fp), RemainingWitnessGasX(t, fp),
                               IF t.kind = "Script" THEN t.sgl ELSE "0" >>)

\* ---- what is reported ----
MinGas(t, c, fp) == Clamp64(MinGasX(t, c, fp))
MaxGas(t, c, fp) == Clamp64(MaxGasX(t, c, fp))

GasToFee(gas, price, factor) == BN!CeilDiv(BN!Mul(gas, price), factor)       \* factor >= 1

(***************************************************************************)
(* A point (t, c, fp, price) enters everything below only through its      *)
(* exact gas sums, the tip, the fee limit, the price and the factor; Ctx   *)
(* collects them (evaluated once per point).                               *)
(***************************************************************************)
Ctx(t, c, fp, price) ==
    [mgx |-> MinGasX(t, c, fp), xgx |-> MaxGasX(t, c, fp), tip |-> Tip(t), limit |-> FeeLimit(t),
     price |-> price, factor |-> fp.factor]

MinGasK(k) == Clamp64(k.mgx)
MaxGasK(k) == Clamp64(k.xgx)
MinFeeK(k) == BN!Add(GasToFee(MinGasK(k), k.price, k.factor), k.tip)
MaxFeeK(k) == BN!Add(GasToFee(MaxGasK(k), k.price, k.factor), k.tip)

\* refund: the property defines it where min_gas + used stays inside u64
RefundDomainK(k, used) == BN!Fits64(BN!Add(k.mgx, used))
UsedFeeK(k, used) == BN!Add(GasToFee(BN!Add(k.mgx, used), k.price, k.factor), k.tip)
RefundDefinedK(k, used) == BN!Le(UsedFeeK(k, used), k.limit)
RefundK(k, used) == BN!Sub(k.limit, UsedFeeK(k, used))
\* "none" where the natural-number difference does not exist
RefundOrNoneK(k, used) == IF RefundDefinedK(k, used) THEN RefundK(k, used) ELSE "none"

\* the summary computed by TransactionFee::checked_from_tx: exists iff both fees are u64 values
FeeSummaryDefinedK(k) == BN!Fits64(MinFeeK(k)) /\ BN!Fits64(MaxFeeK(k))
FeeSummaryK(k) == [min_fee |-> MinFeeK(k), max_fee |-> MaxFeeK(k), min_gas |-> MinGasK(k), max_gas |-> MaxGasK(k)]
\* Checked::into_ready: the maximum fee must be covered by the fee limit
ReadyAcceptedK(k) == BN!Le(MaxFeeK(k), k.limit)

\* the same, directly on (t, c, fp, price)
MinFee(t, c, fp, price) == MinFeeK(Ctx(t, c, fp, price))
MaxFee(t, c, fp, price) == MaxFeeK(Ctx(t, c, fp, price))
RefundDomain(t, c, fp, used) == BN!Fits64(BN!Add(MinGasX(t, c, fp), used))
RefundOrNone(t, c, fp, price, used) == RefundOrNoneK(Ctx(t, c, fp, price), used)

(***************************************************************************)
(* Theorems of the property, as predicates over one point and used-gas     *)
(* values.                                                                 *)
(***************************************************************************)
ThmGasOrder(k) == BN!Le(MinGasK(k), MaxGasK(k))
ThmFeeOrder(k) == BN!Le(MinFeeK(k), MaxFeeK(k))
\* ceiling: fee is the least f with f * factor >= gas * price
ThmCeil(gas, price, factor) ==
    LET f == GasToFee(gas, price, factor)  gp == BN!Mul(gas, price) IN
    /\ BN!Le(gp, BN!Mul(f, factor))
    /\ (f # "0" => BN!Lt(BN!Mul(BN!Sub(f, "1"), factor), gp))
ThmFeeMonotone(g1, g2, price, factor) ==
    BN!Le(g1, g2) => BN!Le(GasToFee(g1, price, factor), GasToFee(g2, price, factor))
ThmRefundBounded(k, used) == RefundDefinedK(k, used) => BN!Le(RefundK(k, used), k.limit)
ThmRefundAntitone(k, u1, u2) ==
    (BN!Le(u1, u2) /\ RefundDefinedK(k, u2)) =>
        /\ RefundDefinedK(k, u1)
        /\ BN!Le(RefundK(k, u2), RefundK(k, u1))
\* fees never need more than 128 bits
ThmWidths(k) == BN!Lt(MaxFeeK(k), BN!Two128)
=============================================================================
