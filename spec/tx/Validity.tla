------------------------------ MODULE Validity ------------------------------
(***************************************************************************)
(* C19 - which transactions pass the "basic" checks, and which free        *)
(* balances a passing transaction records.                                 *)
(*                                                                         *)
(* This is the ORACLE: the validity rules of the FuelVM transaction        *)
(* format (tx-format/transaction.md, input.md, output.md, policy.md) and   *)
(* the sufficient-balance rule (protocol/tx-validity.md), written as one   *)
(* named predicate per rule over an ABSTRACT transaction.  It is not a     *)
(* transcription of fuel-tx's control flow: there is no order between the  *)
(* rules, every rule is total, and the verdict is their conjunction.       *)
(*                                                                         *)
(* Abstract transaction  t  (a record, the same shape for every kind):     *)
(*   kind     "Script" | "Create" | "Upgrade" | "Upload" | "Blob" | "Mint" *)
(*   inputs   sequence of [k, asset, amount, owner, utxo, nonce, contract, *)
(*            wit, predLen, predDataLen, dataLen]                          *)
(*   outputs  sequence of [k, asset, amount, inputIndex, idOk, rootOk]     *)
(*   wlens    sequence of witness payload lengths (bytes)                  *)
(*   pol      [tip, witnessLimit, maturity, maxFee, expiration, owner],    *)
(*            each "none" or a decimal string                              *)
(*   size     serialized size in bytes      } quantities defined by other  *)
(*   maxGas   Chargeable max gas            } properties (C01, C18)        *)
(*   scriptLen, scriptDataLen                            (Script)          *)
(*   widx     witness index used by the body   (Create/Upgrade/Upload/Blob)*)
(*   slots    sequence of storage-slot keys (hex)        (Create)          *)
(*   purpose  "StateTransition"|"ConsensusParameters", checksumOk, deserOk *)
(*   nsub, proofOk                                       (Upload)          *)
(*   blobIdOk                                            (Blob)            *)
(*   ptrHeight, outInputIndex, mintAsset                 (Mint)            *)
(* Identifiers (assets, owners, utxo ids, nonces, contract ids) are only   *)
(* compared for equality.  Amounts, policy values, limits and heights are  *)
(* BigNat decimal strings; lengths, counts and indices are TLC integers.   *)
(* The *Ok flags abstract hash comparisons that belong to C09/C10/C15.     *)
(*                                                                         *)
(* Parameters p: maxSize maxGasPerTx maxInputs maxOutputs maxWitnesses     *)
(*   maxPredLen maxPredDataLen maxMsgDataLen maxScriptLen maxScriptDataLen *)
(*   contractMaxSize maxStorageSlots maxSubsections (decimal strings),     *)
(*   base (asset id), privileged (owner).  h: block height (decimal).      *)
(***************************************************************************)
EXTENDS Naturals, Sequences, FiniteSets
LOCAL BN == INSTANCE BigNat

None     == "none"
IsSet(v) == v # None
U32Max   == "4294967295"

CoinKinds        == {"CoinSigned", "CoinPredicate"}
MessageCoinKinds == {"MessageCoinSigned", "MessageCoinPredicate"}
MessageDataKinds == {"MessageDataSigned", "MessageDataPredicate"}
MessageKinds     == MessageCoinKinds \cup MessageDataKinds
SignedKinds      == {"CoinSigned", "MessageCoinSigned", "MessageDataSigned"}
PredicateKinds   == {"CoinPredicate", "MessageCoinPredicate", "MessageDataPredicate"}
InputKinds       == CoinKinds \cup MessageKinds \cup {"Contract"}
OutputKinds      == {"Coin", "Contract", "Change", "Variable", "ContractCreated"}
ChargeableKinds  == {"Script", "Create", "Upgrade", "Upload", "Blob"}
RestrictedKinds  == {"Create", "Upgrade", "Upload", "Blob"}   \* may not touch contracts / messages with data

Ix(s) == 1..Len(s)
NatLe(n, lim) == BN!Le(BN!FromNat(n), lim)           \* TLC integer against a decimal-string limit

RECURSIVE SumSeq(_)
SumSeq(s) == IF s = <<>> THEN "0" ELSE BN!Add(Head(s), SumSeq(Tail(s)))
Amounts(s) == [j \in Ix(s) |-> s[j].amount]

\* An input that can pay: a coin, or a message without data.
Spendable(i) == i.k \in CoinKinds \cup MessageCoinKinds
\* Every message carries the base asset.
InputAsset(i, base) == IF i.k \in CoinKinds THEN i.asset ELSE base
InputAssets(t, base) == {InputAsset(t.inputs[j], base) : j \in {j \in Ix(t.inputs) : t.inputs[j].k # "Contract"}}
OutputsOf(t, kind) == {o \in Ix(t.outputs) : t.outputs[o].k = kind}

(***************************************************************************)
(* Rules common to Script, Create, Upgrade, Upload, Blob                   *)
(***************************************************************************)
R_Size(t, p)        == BN!Le(t.size, p.maxSize)
R_Policies(t)       == /\ (IsSet(t.pol.maturity)   => BN!Le(t.pol.maturity, U32Max))
                       /\ (IsSet(t.pol.expiration) => BN!Le(t.pol.expiration, U32Max))
                       /\ (IsSet(t.pol.owner)      => BN!Le(t.pol.owner, U32Max))
\* serialized witnesses: each is an 8-byte length followed by the payload padded to 8 bytes
WitnessBytes(n)     == 8 + n + ((8 - (n % 8)) % 8)
RECURSIVE SumNat(_)
SumNat(s)           == IF s = <<>> THEN 0 ELSE Head(s) + SumNat(Tail(s))
WitnessesSize(t)    == SumNat([j \in Ix(t.wlens) |-> WitnessBytes(t.wlens[j])])
R_WitnessLimit(t)   == IsSet(t.pol.witnessLimit) => NatLe(WitnessesSize(t), t.pol.witnessLimit)
R_MaxGas(t, p)      == BN!Le(t.maxGas, p.maxGasPerTx)
R_MaxFeeSet(t)      == IsSet(t.pol.maxFee)
R_Maturity(t, h)    == IsSet(t.pol.maturity)   => BN!Le(t.pol.maturity, h)
R_Expiration(t, h)  == IsSet(t.pol.expiration) => BN!Le(h, t.pol.expiration)
R_InputsMax(t, p)   == NatLe(Len(t.inputs), p.maxInputs)
R_OutputsMax(t, p)  == NatLe(Len(t.outputs), p.maxOutputs)
R_WitnessesMax(t, p) == NatLe(Len(t.wlens), p.maxWitnesses)
R_OwnerIndex(t)     == IsSet(t.pol.owner) =>
                          /\ BN!Lt(t.pol.owner, BN!FromNat(Len(t.inputs)))
                          /\ t.inputs[BN!ToNat(t.pol.owner) + 1].k # "Contract"
R_SpendableInput(t) == \E j \in Ix(t.inputs) : Spendable(t.inputs[j])
R_ChangeUnique(t)   == \A a, b \in OutputsOf(t, "Change") : (a # b) => (t.outputs[a].asset # t.outputs[b].asset)
R_UtxoUnique(t)     == \A a, b \in Ix(t.inputs) :
                          (a # b /\ t.inputs[a].k \in CoinKinds /\ t.inputs[b].k \in CoinKinds)
                             => (t.inputs[a].utxo # t.inputs[b].utxo)
R_ContractUnique(t) == \A a, b \in Ix(t.inputs) :
                          (a # b /\ t.inputs[a].k = "Contract" /\ t.inputs[b].k = "Contract")
                             => (t.inputs[a].contract # t.inputs[b].contract)
R_NonceUnique(t)    == \A a, b \in Ix(t.inputs) :
                          (a # b /\ t.inputs[a].k \in MessageKinds /\ t.inputs[b].k \in MessageKinds)
                             => (t.inputs[a].nonce # t.inputs[b].nonce)
\* per input
R_InputWitnessIndex(t)   == \A j \in Ix(t.inputs) : (t.inputs[j].k \in SignedKinds) => (t.inputs[j].wit < Len(t.wlens))
R_PredicateNonEmpty(t)   == \A j \in Ix(t.inputs) : (t.inputs[j].k \in PredicateKinds) => (t.inputs[j].predLen > 0)
R_PredicateLen(t, p)     == \A j \in Ix(t.inputs) : (t.inputs[j].k \in PredicateKinds) => NatLe(t.inputs[j].predLen, p.maxPredLen)
R_PredicateDataLen(t, p) == \A j \in Ix(t.inputs) : (t.inputs[j].k \in PredicateKinds) => NatLe(t.inputs[j].predDataLen, p.maxPredDataLen)
R_MessageDataLen(t, p)   == \A j \in Ix(t.inputs) : (t.inputs[j].k \in MessageDataKinds) =>
                               (t.inputs[j].dataLen > 0 /\ NatLe(t.inputs[j].dataLen, p.maxMsgDataLen))
R_ContractInputHasOutput(t) == \A j \in Ix(t.inputs) : (t.inputs[j].k = "Contract") =>
                               Cardinality({o \in OutputsOf(t, "Contract") : t.outputs[o].inputIndex = j - 1}) = 1
\* per output
R_OutputContractIndex(t) == \A o \in OutputsOf(t, "Contract") :
                               /\ t.outputs[o].inputIndex < Len(t.inputs)
                               /\ t.inputs[t.outputs[o].inputIndex + 1].k = "Contract"
R_ChangeAssetPresent(t, p) == \A o \in OutputsOf(t, "Change") : t.outputs[o].asset \in InputAssets(t, p.base)
R_CoinAssetPresent(t, p)   == \A o \in OutputsOf(t, "Coin")   : t.outputs[o].asset \in InputAssets(t, p.base)

(***************************************************************************)
(* Kind-specific rules                                                     *)
(***************************************************************************)
R_ScriptLen(t, p)      == NatLe(t.scriptLen, p.maxScriptLen)
R_ScriptDataLen(t, p)  == NatLe(t.scriptDataLen, p.maxScriptDataLen)
R_NoContractCreated(t) == OutputsOf(t, "ContractCreated") = {}           \* every kind but Create
\* Create, Upgrade, Upload, Blob
R_InputsBaseAsset(t, p)   == \A j \in Ix(t.inputs) : (t.inputs[j].k \in CoinKinds) => (t.inputs[j].asset = p.base)
R_NoContractInputs(t)     == \A j \in Ix(t.inputs) : t.inputs[j].k # "Contract"
R_NoMessageDataInputs(t)  == \A j \in Ix(t.inputs) : t.inputs[j].k \notin MessageDataKinds
R_NoContractOutputs(t)    == OutputsOf(t, "Contract") = {}
R_NoVariableOutputs(t)    == OutputsOf(t, "Variable") = {}
R_ChangeBaseOnly(t, p)    == \A o \in OutputsOf(t, "Change") : t.outputs[o].asset = p.base
\* the witness the body points at
R_BodyWitnessIndex(t)     == t.widx < Len(t.wlens)
\* Create
R_BytecodeLen(t, p)       == R_BodyWitnessIndex(t) => NatLe(t.wlens[t.widx + 1], p.contractMaxSize)
R_StorageSlotsMax(t, p)   == NatLe(Len(t.slots), p.maxStorageSlots)
R_StorageSlotsSorted(t)   == \A j \in 1..(Len(t.slots) - 1) : BN!Lt(BN!FromHex(t.slots[j]), BN!FromHex(t.slots[j + 1]))
R_ContractCreatedMatches(t) == \A o \in OutputsOf(t, "ContractCreated") : t.outputs[o].idOk /\ t.outputs[o].rootOk
R_ContractCreatedOnce(t)  == Cardinality(OutputsOf(t, "ContractCreated")) = 1
\* Upgrade
R_PrivilegedInput(t, p)   == \E j \in Ix(t.inputs) : t.inputs[j].k # "Contract" /\ t.inputs[j].owner = p.privileged
R_UpgradePurpose(t)       == (t.purpose = "ConsensusParameters") => (R_BodyWitnessIndex(t) /\ t.checksumOk /\ t.deserOk)
\* Upload
R_SubsectionsMax(t, p)    == NatLe(t.nsub, p.maxSubsections)
R_UploadProof(t)          == R_BodyWitnessIndex(t) /\ t.proofOk
\* Blob
R_BlobId(t)               == R_BodyWitnessIndex(t) /\ t.blobIdOk
\* Mint
R_MintHeight(t, h)        == t.ptrHeight = h
R_MintOutputIndex(t)      == t.outInputIndex = 0
R_MintBaseAsset(t, p)     == t.mintAsset = p.base

(***************************************************************************)
(* Valid: the conjunction, per kind                                        *)
(***************************************************************************)
ValidCommon(t, p, h) ==
    /\ R_Size(t, p)          /\ R_Policies(t)         /\ R_WitnessLimit(t)     /\ R_MaxGas(t, p)
    /\ R_MaxFeeSet(t)        /\ R_Maturity(t, h)      /\ R_Expiration(t, h)
    /\ R_InputsMax(t, p)     /\ R_OutputsMax(t, p)    /\ R_WitnessesMax(t, p)
    /\ R_OwnerIndex(t)       /\ R_SpendableInput(t)
    /\ R_ChangeUnique(t)     /\ R_UtxoUnique(t)       /\ R_ContractUnique(t)   /\ R_NonceUnique(t)
    /\ R_InputWitnessIndex(t) /\ R_PredicateNonEmpty(t) /\ R_PredicateLen(t, p) /\ R_PredicateDataLen(t, p)
    /\ R_MessageDataLen(t, p) /\ R_ContractInputHasOutput(t)
    /\ R_OutputContractIndex(t) /\ R_ChangeAssetPresent(t, p) /\ R_CoinAssetPresent(t, p)
ValidRestricted(t, p) ==
    /\ R_InputsBaseAsset(t, p) /\ R_NoContractInputs(t) /\ R_NoMessageDataInputs(t)
    /\ R_NoContractOutputs(t)  /\ R_NoVariableOutputs(t) /\ R_ChangeBaseOnly(t, p)
ValidScript(t, p, h)  == ValidCommon(t, p, h) /\ R_ScriptLen(t, p) /\ R_ScriptDataLen(t, p) /\ R_NoContractCreated(t)
ValidCreate(t, p, h)  == /\ ValidCommon(t, p, h) /\ ValidRestricted(t, p)
                         /\ R_BodyWitnessIndex(t) /\ R_BytecodeLen(t, p) /\ R_StorageSlotsMax(t, p)
                         /\ R_StorageSlotsSorted(t) /\ R_ContractCreatedMatches(t) /\ R_ContractCreatedOnce(t)
ValidUpgrade(t, p, h) == /\ ValidCommon(t, p, h) /\ ValidRestricted(t, p) /\ R_NoContractCreated(t)
                         /\ R_PrivilegedInput(t, p) /\ R_UpgradePurpose(t)
ValidUpload(t, p, h)  == /\ ValidCommon(t, p, h) /\ ValidRestricted(t, p) /\ R_NoContractCreated(t)
                         /\ R_SubsectionsMax(t, p) /\ R_UploadProof(t)
ValidBlob(t, p, h)    == /\ ValidCommon(t, p, h) /\ ValidRestricted(t, p) /\ R_NoContractCreated(t) /\ R_BlobId(t)
ValidMint(t, p, h)    == R_Size(t, p) /\ R_MintHeight(t, h) /\ R_MintOutputIndex(t) /\ R_MintBaseAsset(t, p)

Valid(t, p, h) == CASE t.kind = "Script"  -> ValidScript(t, p, h)
                    [] t.kind = "Create"  -> ValidCreate(t, p, h)
                    [] t.kind = "Upgrade" -> ValidUpgrade(t, p, h)
                    [] t.kind = "Upload"  -> ValidUpload(t, p, h)
                    [] t.kind = "Blob"    -> ValidBlob(t, p, h)
                    [] t.kind = "Mint"    -> ValidMint(t, p, h)

(***************************************************************************)
(* The same rules as a table name -> holds, to report WHICH rules fail.    *)
(***************************************************************************)
CommonTable(t, p, h) == {
    <<"Size", R_Size(t, p)>>, <<"Policies", R_Policies(t)>>, <<"WitnessLimit", R_WitnessLimit(t)>>,
    <<"MaxGas", R_MaxGas(t, p)>>, <<"MaxFeeSet", R_MaxFeeSet(t)>>, <<"Maturity", R_Maturity(t, h)>>,
    <<"Expiration", R_Expiration(t, h)>>, <<"InputsMax", R_InputsMax(t, p)>>, <<"OutputsMax", R_OutputsMax(t, p)>>,
    <<"WitnessesMax", R_WitnessesMax(t, p)>>, <<"OwnerIndex", R_OwnerIndex(t)>>,
    <<"SpendableInput", R_SpendableInput(t)>>, <<"ChangeUnique", R_ChangeUnique(t)>>,
    <<"UtxoUnique", R_UtxoUnique(t)>>, <<"ContractUnique", R_ContractUnique(t)>>, <<"NonceUnique", R_NonceUnique(t)>>,
    <<"InputWitnessIndex", R_InputWitnessIndex(t)>>, <<"PredicateNonEmpty", R_PredicateNonEmpty(t)>>,
    <<"PredicateLen", R_PredicateLen(t, p)>>, <<"PredicateDataLen", R_PredicateDataLen(t, p)>>,
    <<"MessageDataLen", R_MessageDataLen(t, p)>>, <<"ContractInputHasOutput", R_ContractInputHasOutput(t)>>,
    <<"OutputContractIndex", R_OutputContractIndex(t)>>, <<"ChangeAssetPresent", R_ChangeAssetPresent(t, p)>>,
    <<"CoinAssetPresent", R_CoinAssetPresent(t, p)>> }
RestrictedTable(t, p) == {
    <<"InputsBaseAsset", R_InputsBaseAsset(t, p)>>, <<"NoContractInputs", R_NoContractInputs(t)>>,
    <<"NoMessageDataInputs", R_NoMessageDataInputs(t)>>, <<"NoContractOutputs", R_NoContractOutputs(t)>>,
    <<"NoVariableOutputs", R_NoVariableOutputs(t)>>, <<"ChangeBaseOnly", R_ChangeBaseOnly(t, p)>> }
KindTable(t, p, h) ==
    CASE t.kind = "Script"  -> {<<"ScriptLen", R_ScriptLen(t, p)>>, <<"ScriptDataLen", R_ScriptDataLen(t, p)>>,
                                <<"NoContractCreated", R_NoContractCreated(t)>>}
      [] t.kind = "Create"  -> RestrictedTable(t, p) \cup
                               {<<"BodyWitnessIndex", R_BodyWitnessIndex(t)>>, <<"BytecodeLen", R_BytecodeLen(t, p)>>,
                                <<"StorageSlotsMax", R_StorageSlotsMax(t, p)>>, <<"StorageSlotsSorted", R_StorageSlotsSorted(t)>>,
                                <<"ContractCreatedMatches", R_ContractCreatedMatches(t)>>,
                                <<"ContractCreatedOnce", R_ContractCreatedOnce(t)>>}
      [] t.kind = "Upgrade" -> RestrictedTable(t, p) \cup
                               {<<"NoContractCreated", R_NoContractCreated(t)>>, <<"PrivilegedInput", R_PrivilegedInput(t, p)>>,
                                <<"UpgradePurpose", R_UpgradePurpose(t)>>}
      [] t.kind = "Upload"  -> RestrictedTable(t, p) \cup
                               {<<"NoContractCreated", R_NoContractCreated(t)>>, <<"SubsectionsMax", R_SubsectionsMax(t, p)>>,
                                <<"UploadProof", R_UploadProof(t)>>}
      [] t.kind = "Blob"    -> RestrictedTable(t, p) \cup
                               {<<"NoContractCreated", R_NoContractCreated(t)>>, <<"BlobId", R_BlobId(t)>>}
      [] t.kind = "Mint"    -> {}
RuleTable(t, p, h) ==
    IF t.kind = "Mint"
    THEN {<<"Size", R_Size(t, p)>>, <<"MintHeight", R_MintHeight(t, h)>>, <<"MintOutputIndex", R_MintOutputIndex(t)>>,
          <<"MintBaseAsset", R_MintBaseAsset(t, p)>>}
    ELSE CommonTable(t, p, h) \cup KindTable(t, p, h)
FailingRules(t, p, h) == {r[1] : r \in {r \in RuleTable(t, p, h) : ~r[2]}}

(***************************************************************************)
(* Free balances (sufficient-balance rule).  Per asset a:                  *)
(*   free(a) = sum of the amounts of the spendable inputs of asset a       *)
(*             - sum of the coin outputs of asset a                        *)
(*             - the fee limit (max_fee policy), for the base asset.       *)
(* A transaction with free(a) < 0 for some a is rejected.                  *)
(* Messages with data contribute to the retryable amount instead.          *)
(***************************************************************************)
FeeLimit(t) == IF IsSet(t.pol.maxFee) THEN t.pol.maxFee ELSE "0"
Credit(t, base, a) ==
    SumSeq(Amounts(SelectSeq(t.inputs, LAMBDA i : Spendable(i) /\ InputAsset(i, base) = a)))
Debit(t, base, a) ==
    BN!Add(SumSeq(Amounts(SelectSeq(t.outputs, LAMBDA o : o.k = "Coin" /\ o.asset = a))),
           IF a = base THEN FeeLimit(t) ELSE "0")
SpendableAssets(t, base) == {InputAsset(t.inputs[j], base) : j \in {j \in Ix(t.inputs) : Spendable(t.inputs[j])}}
CoinOutAssets(t) == {t.outputs[o].asset : o \in OutputsOf(t, "Coin")}
BalanceAssets(t, base) == {base} \cup SpendableAssets(t, base) \cup CoinOutAssets(t)
Covered(t, base, a) == BN!Le(Debit(t, base, a), Credit(t, base, a))
Sufficient(t, base) == \A a \in BalanceAssets(t, base) : Covered(t, base, a)
FreeBalance(t, base, a) == BN!Sub(Credit(t, base, a), Debit(t, base, a))      \* defined when Covered
Retryable(t) == SumSeq(Amounts(SelectSeq(t.inputs, LAMBDA i : i.k \in MessageDataKinds)))
\* balances are machine words: sums that do not fit 64 bits cannot be recorded (the verdict is then
\* left open: rejecting is allowed, accepting is allowed only with the exact balances)
Representable(t, base) == /\ \A a \in BalanceAssets(t, base) : BN!Fits64(Credit(t, base, a))
                          /\ BN!Fits64(Retryable(t))

HasBalances(t) == t.kind \in ChargeableKinds

\* "accept" | "reject" | "either"
Verdict(t, p, h) ==
    IF ~Valid(t, p, h) THEN "reject"
    ELSE IF ~HasBalances(t) THEN "accept"
    ELSE IF ~Sufficient(t, p.base) THEN "reject"
    ELSE IF ~Representable(t, p.base) THEN "either"
    ELSE "accept"

(***************************************************************************)
(* What an accepting implementation must have recorded.                    *)
(* bal: sequence of [asset, amount] (the non-retryable table), retry: the  *)
(* retryable amount.  Every asset with a spendable input has an entry; no  *)
(* asset other than those and the base asset has one (the base asset may   *)
(* appear with its balance even without a base-asset input).               *)
(***************************************************************************)
RecordedOk(t, base, bal, retry) ==
    IF ~HasBalances(t) THEN bal = <<>> /\ retry = "0"
    ELSE
    /\ \A a, b \in Ix(bal) : (a # b) => (bal[a].asset # bal[b].asset)
    /\ \A a \in Ix(bal) : /\ bal[a].asset \in SpendableAssets(t, base) \cup {base}
                          /\ Covered(t, base, bal[a].asset)
                          /\ bal[a].amount = FreeBalance(t, base, bal[a].asset)
    /\ \A s \in SpendableAssets(t, base) : \E a \in Ix(bal) : bal[a].asset = s
    /\ (base \notin {bal[a].asset : a \in Ix(bal)}) => (Covered(t, base, base) /\ FreeBalance(t, base, base) = "0")
    /\ retry = Retryable(t)

\* The observation (ok, bal, retry) of one call is explained by the specification.
Explains(t, p, h, ok, bal, retry) ==
    LET v == Verdict(t, p, h) IN
    IF ok THEN v \in {"accept", "either"} /\ Sufficient(t, p.base) /\ RecordedOk(t, p.base, bal, retry)
    ELSE v \in {"reject", "either"}

\* The table an accepting run is expected to record (used to print expectations).
ExpectedBalances(t, base) ==
    IF ~HasBalances(t) \/ ~Sufficient(t, base) THEN {}
    ELSE {<<a, FreeBalance(t, base, a)>> : a \in SpendableAssets(t, base) \cup {base}}
=============================================================================
