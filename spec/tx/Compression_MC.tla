--------------------------- MODULE Compression_MC ---------------------------
(* Leg M + generator for Leg R of C07: all histories of <= MaxLen transactions   *)
(* from a small alphabet sharing one compression context, with the registries'  *)
(* next key started at each of Starts (0 and just below the wrap-around) and,   *)
(* optionally, older entries sitting at the keys about to be written (so keys   *)
(* are reused, evicted, and - for a key the same transaction already uses -     *)
(* skipped).                                                                    *)
EXTENDS Compression, Json
LOCAL INSTANCE Hex
CONSTANTS MaxLen, Starts, EmitReplay

RECURSIVE Rep(_, _)
Rep(b, n) == IF n = 0 THEN "" ELSE b \o Rep(b, n - 1)
A0 == Zeros(32)
A(b) == Rep(b, 32)                       \* 32-byte id made of one repeated byte
CodeX == "2440000047000000"
CodeY == "24400000"
P1 == "aa"
P2 == "0102030405060708090a"
None == [k \in {} |-> ""]

In(v, f) == [v |-> v, f |-> f]
\* partial field maps: only the registry-substituted fields are fixed by the model, the harness
\* fills every other field with seeded values
Txs == <<
  [kind |-> "Script", body |-> [script |-> CodeX],
   inputs |-> <<In("CoinPredicate", [predicate |-> P1]), In("Contract", [contract_id |-> A("c1")])>>,
   outputs |-> <<In("Coin", [to |-> A("a1"), asset_id |-> A("51")]), In("Change", [to |-> A("a2"), asset_id |-> A0]), In("Variable", None)>>],
  [kind |-> "Script", body |-> [script |-> CodeY],
   inputs |-> <<In("MessageCoinPredicate", [predicate |-> P1]), In("MessageDataPredicate", [predicate |-> P2]), In("CoinSigned", None)>>,
   outputs |-> <<In("Coin", [to |-> A("a3"), asset_id |-> A("52")]), In("ContractCreated", [contract_id |-> A("c2")]), In("Contract", None)>>],
  [kind |-> "Create", body |-> None,
   inputs |-> <<In("Contract", [contract_id |-> A("c2")]), In("MessageCoinSigned", None), In("MessageDataSigned", None)>>,
   outputs |-> <<In("ContractCreated", [contract_id |-> A("c1")]), In("Change", [to |-> A("a1"), asset_id |-> A("51")]), In("Coin", [to |-> A0, asset_id |-> A("51")])>>],
  [kind |-> "Mint", body |-> [mint_asset_id |-> A("52")],
   inputs |-> <<In("Contract", [contract_id |-> A("c1")])>>,
   outputs |-> <<In("Contract", None)>>],
  [kind |-> "Upgrade", body |-> None,
   inputs |-> <<In("CoinPredicate", [predicate |-> ""])>>,
   outputs |-> <<In("Coin", [to |-> A("a4"), asset_id |-> A("53")]), In("Coin", [to |-> A("a5"), asset_id |-> A("53")]), In("Coin", [to |-> A("a6"), asset_id |-> A("51")])>>],
  [kind |-> "Upload", body |-> None,
   inputs |-> <<In("CoinSigned", None)>>,
   outputs |-> <<In("Change", [to |-> A("a2"), asset_id |-> A("52")]), In("Coin", [to |-> A("a1"), asset_id |-> A0])>>],
  [kind |-> "Blob", body |-> None,
   inputs |-> <<In("Contract", [contract_id |-> A0])>>,
   outputs |-> <<In("Coin", [to |-> A("a9"), asset_id |-> A("59")]), In("Coin", [to |-> A("a8"), asset_id |-> A("58")]), In("Variable", None)>>],
  [kind |-> "Script", body |-> [script |-> ""],
   inputs |-> <<>>,
   outputs |-> <<In("Coin", [to |-> A("a1"), asset_id |-> A("51")])>>]
>>

\* older registry content at the keys that are written next after a wrap-around
SeedMap(ks) == CASE ks = "Address" -> (0 :> A("a9")) @@ (1 :> A("a2"))
                 [] ks = "AssetId" -> (0 :> A("59"))
                 [] OTHER -> EmptyMap
InitReg(start, seeded) == [ks \in Keyspaces |-> Table(IF seeded THEN SeedMap(ks) ELSE EmptyMap, start)]

VARIABLES reg, hist, cfg
mcVars == <<reg, hist, cfg>>

Pairs(m) == {<<k, m[k]>> : k \in DOMAIN m}
Proj(r) == [ks \in Keyspaces |-> [next |-> r[ks].next, entries |-> Pairs(r[ks].map)]]

MCInit == /\ \E s \in Starts, sd \in BOOLEAN : cfg = [start |-> s, seeded |-> sd] /\ reg = InitReg(s, sd)
          /\ hist = <<>>

Res(i) == CompressRefs(reg, NoneTouched, RegRefs(Txs[i]), <<>>)
Bounded == Len(hist) < MaxLen
StepR(i, r) == /\ reg' = r.reg
               /\ hist' = Append(hist, [tx |-> Txs[i], calls |-> r.calls, reg |-> Proj(r.reg)])
               /\ UNCHANGED cfg
\* the same step, named by what the registry did (vacuity test of the model run)
ATxWrap  == Bounded /\ \E i \in 1..Len(Txs) : LET r == Res(i) IN "wrap" \in r.notes /\ StepR(i, r)
ATxEvict == Bounded /\ \E i \in 1..Len(Txs) : LET r == Res(i) IN "evict" \in r.notes /\ StepR(i, r)
ATxSkip  == Bounded /\ \E i \in 1..Len(Txs) : LET r == Res(i) IN "skip" \in r.notes /\ StepR(i, r)
ATxReuse == Bounded /\ \E i \in 1..Len(Txs) : LET r == Res(i) IN "hit" \in r.notes /\ StepR(i, r)
ATxOther == Bounded /\ \E i \in 1..Len(Txs) : LET r == Res(i) IN r.notes \cap {"wrap", "evict", "skip", "hit"} = {} /\ StepR(i, r)
MCNext == ATxWrap \/ ATxEvict \/ ATxSkip \/ ATxReuse \/ ATxOther
MCSpec == MCInit /\ [][MCNext]_mcVars

\* ---- the property on the design ----
RegOk == RegistryOk(reg)
LastResolves == Len(hist) > 0 => CallsResolve(reg, hist[Len(hist)].calls)
\* compress is deterministic in the value: equal values of one transaction get equal keys
SameValueSameKey == Len(hist) > 0 => LET c == hist[Len(hist)].calls IN
    \A i, j \in 1..Len(c) : (c[i].ks = c[j].ks /\ c[i].v = c[j].v) => c[i].k = c[j].k
DistinctValuesDistinctKeys == Len(hist) > 0 => LET c == hist[Len(hist)].calls IN
    \A i, j \in 1..Len(c) : (c[i].ks = c[j].ks /\ c[i].v # c[j].v) => c[i].k # c[j].k
TableFacts == DefaultedAreOutsideId /\ RestoredHaveAnchor
AlphabetWellTyped == \A i \in 1..Len(Txs) : Txs[i].kind \in TxKinds

Emit == (EmitReplay /\ Len(hist) = MaxLen) =>
            PrintT("REPLAY" \o ToJson([cfg |-> cfg, init |-> Proj(InitReg(cfg.start, cfg.seeded)), steps |-> hist]))
=============================================================================
