------------------------------ MODULE Serde_MC ------------------------------
(* Leg M + generator for Leg R of C06.                                       *)
(* One step from the initial state to every item of the finite space:        *)
(*   - every Policies value: 64 masks x value vectors over PolicyValues for  *)
(*     the set slots (unset slots are 0) with the three predicted encodings; *)
(*   - every case of the variant / version space (Serde!Cases).              *)
(* Invariants: the round-trip law of the Policies layout, injectivity of the *)
(* encodings inside one mask class, the layout facts the property names.     *)
EXTENDS Serde, Json
LOCAL INSTANCE Hex
CONSTANTS PolicyValues, EmitReplay

VARIABLE item
mcVars == <<item>>

ValuesFor(bits) == [{i \in 1..NPol : BitSet(bits, i)} -> PolicyValues]
Mk(bits, f) == [bits |-> bits, vals |-> [i \in 1..NPol |-> IF BitSet(bits, i) THEN f[i] ELSE "0"]]

MCInit == item = [t |-> "none"]
APolicy == /\ item.t = "none"
           /\ \E bits \in AllMasks : \E f \in ValuesFor(bits) : item' = [t |-> "Policies", p |-> Mk(bits, f)]
ACase   == /\ item.t = "none"
           /\ \E c \in Cases : item' = [t |-> "Case", c |-> c]
MCNext == APolicy \/ ACase
MCSpec == MCInit /\ [][MCNext]_mcVars

IsPol == item.t = "Policies"
\* ---- the property on the design ----
PoliciesRoundTrip == IsPol => (WellFormed(item.p) /\ RoundTripLaw(item.p))
\* the wire length is what the layout says: 4 always for legacy, popcount for compact
LayoutLength == IsPol => Len(WireValues(item.p)) = (IF Legacy(item.p.bits) THEN 4 ELSE PopCount(item.p.bits))
\* the newer entries always select the compact layout; the old four never do
NewerEntriesCompact == IsPol => (Legacy(item.p.bits) <=> item.p.bits < 16)
\* a different number of wire values is rejected by the decoder (the two layouts cannot be confused)
WrongCountRejected == IsPol => LET w == WireValues(item.p) IN
                                 /\ DeWire(item.p.bits, Append(w, "0")) = "err"
                                 /\ (Len(w) > 0 => DeWire(item.p.bits, Tail(w)) = "err")
\* binary encodings have the size the format definitions give
BincodeSize == IsPol => BLen(SerBincode(item.p)) = 4 + (IF Legacy(item.p.bits) THEN 32 ELSE 8 + 8 * PopCount(item.p.bits))
PostcardBounds == IsPol => LET n == Len(WireValues(item.p)) IN
                    /\ BLen(SerPostcard(item.p)) >= 1 + n
                    /\ BLen(SerPostcard(item.p)) <= 2 + 10 * n
CaseInSpace == (item.t = "Case") => item.c \in Cases

Expect(p) == [t |-> "Policies", bits |-> p.bits, vals |-> p.vals, layout |-> IF Legacy(p.bits) THEN "legacy" ELSE "compact",
              json |-> SerJson(p), postcard |-> SerPostcard(p), bincode |-> SerBincode(p)]
Emit == (EmitReplay /\ item.t # "none") =>
            PrintT("REPLAY" \o ToJson(IF IsPol THEN Expect(item.p) ELSE [t |-> "Case", type |-> item.c.type, kind |-> item.c.kind]))
=============================================================================
