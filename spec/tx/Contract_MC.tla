---------------------------- MODULE Contract_MC ----------------------------
(* Leg M + generator for Leg R.  One behaviour = one case:                      *)
(*   ACode   choose a code (length x fill pattern)        -> pure identifiers   *)
(*   ADeploy choose salt and storage slots, Deploy        -> state root, id     *)
(*   ACroo   read the code root of the deployed contract                        *)
(* Every step appends what the specification predicts to `hist`; the finished   *)
(* history is printed as a REPLAY line and performed on the real code.          *)
EXTENDS Contract, Json
LOCAL INSTANCE Hex
LOCAL INSTANCE VerifHash

CONSTANTS Lens,        \* code lengths
          SmallLens,   \* lengths combined with EVERY slot function (the others get two)
          Fills,       \* subset of {"zero", "ff", "inc"}
          Prefix,      \* bytes every generated code of sufficient length starts with (an
                       \* instruction that makes the code succeed as a predicate)
          NKeys,       \* storage keys used: 1..NKeys of KeyOf
          EmitReplay

VARIABLES stage, code, cid, hist
mcVars == <<chain, stage, code, cid, hist>>

\* ------------------------------------------------------------ input generation
RECURSIVE Rep(_, _)
Rep(s, n) == IF n = 0 THEN "" ELSE IF n = 1 THEN s
             ELSE LET h == Rep(s, n \div 2) IN IF n % 2 = 0 THEN h \o h ELSE h \o h \o s
Block == Cat([i \in 1..251 |-> BE(i - 1, 1)])     \* 00 01 .. fa ; 251 is prime, so no two leaves coincide
Body(len, fill) == CASE fill = "zero" -> Zeros(len)
                     [] fill = "ff"   -> Rep("ff", len)
                     [] fill = "inc"  -> Slice(Rep(Block, len \div 251 + 1), 0, len)
MkCode(len, fill) == IF len >= BLen(Prefix)
                     THEN Prefix \o Slice(Body(len, fill), BLen(Prefix), len - BLen(Prefix))
                     ELSE Body(len, fill)

KeyOf(i) == CASE i = 1 -> Zeros(32) [] i = 2 -> BE(1, 32) [] i = 3 -> Rep("ff", 32) [] OTHER -> SHA256(BE(i, 8))
KeySet == {KeyOf(i) : i \in 1..NKeys}
ValSet == {Zeros(32), Rep("ab", 32)}
Salt0 == Zeros(32)
Salt1 == Rep("5a", 31) \o "01"
SlotFns == UNION {[S -> ValSet] : S \in SUBSET KeySet}
FullFn == [k \in KeySet |-> IF k = KeyOf(1) THEN Rep("ab", 32) ELSE Zeros(32)]
EmptyFn == [k \in {} |-> ""]

RECURSIVE FnSeq(_)
FnSeq(f) == IF DOMAIN f = {} THEN <<>>
            ELSE LET k == CHOOSE k \in DOMAIN f : TRUE IN
                 <<<<k, f[k]>>>> \o FnSeq([x \in DOMAIN f \ {k} |-> f[x]])
RECURSIVE SetSeq(_)
SetSeq(S) == IF S = {} THEN <<>> ELSE LET x == CHOOSE x \in S : TRUE IN <<x>> \o SetSeq(S \ {x})

\* (salt, slot function) pairs tried with a code of length n
DeployChoices(n) == IF n \in SmallLens THEN {Salt0, Salt1} \X SlotFns
                    ELSE {<<Salt0, EmptyFn>>, <<Salt1, FullFn>>}

\* plausible WRONG identifiers (data for negative tests; each must be refused by the real code)
UnpaddedRoot(c) == BMR!MTH([i \in 1..NumLeaves(BLen(c)) |-> RawLeaf(c, i)])
BadOwners(c) ==
    {x \in {SHA256(CodeRoot(c)), SHA256(Seed \o SHA256(c)), SHA256(Seed \o c), CodeRoot(c),
            SHA256(CodeRoot(c) \o Seed), ContractIdOf(c, Salt0, <<>>), SHA256(Seed \o UnpaddedRoot(c))}
        : x # PredicateOwner(c)}
UnhashedRoot(slots) == SMR!RefRoot([k \in SlotKeys(slots) |-> slots[CHOOSE i \in DOMAIN slots : slots[i][1] = k][2]])
BadOutputs(c, salt, slots) ==
    LET cr == CodeRoot(c)  sr == StateRoot(slots)  id == ContractId(salt, cr, sr)  ur == UnhashedRoot(slots) IN
    {o \in {<<ContractId(salt, sr, cr), sr>>, <<SHA256(salt \o cr \o sr), sr>>, <<ContractId(Salt0, cr, sr), sr>>,
            <<ContractId(salt, cr, Zero32), sr>>, <<ContractId(salt, SHA256(c), sr), sr>>,
            <<ContractId(salt, UnpaddedRoot(c), sr), sr>>,
            <<id, Zero32>>, <<id, ur>>, <<ContractId(salt, cr, ur), ur>>, <<ContractId(salt, cr, Zero32), Zero32>>}
        : o # <<id, sr>>}

\* ------------------------------------------------------------------ behaviour
MCInit == CInit /\ stage = "start" /\ code = "" /\ cid = "" /\ hist = <<>>

ACode == /\ stage = "start"
         /\ \E len \in Lens, f \in Fills :
              LET c == MkCode(len, f) IN
              /\ code' = c
              \* the code itself is not printed (up to 200 KB of hex per line): the replayer rebuilds it from
              \* (len, fill, prefix) by the rule of MkCode and checks it against code_sha
              /\ hist' = <<[a |-> "Code", len |-> len, fill |-> f, prefix |-> Prefix, code_sha |-> SHA256(c),
                            root |-> CodeRoot(c), owner |-> PredicateOwner(c), blob |-> BlobId(c),
                            bad_owners |-> SetSeq(BadOwners(c))]>>
         /\ stage' = "code"
         /\ UNCHANGED <<chain, cid>>

ADeploy == /\ stage = "code"
           /\ \E ch \in DeployChoices(BLen(code)) :
                LET salt == ch[1]  slots == FnSeq(ch[2]) IN
                /\ Deploy(code, salt, slots)
                /\ cid' = ContractIdOf(code, salt, slots)
                /\ hist' = Append(hist, [a |-> "Deploy", salt |-> salt, slots |-> slots,
                                         code_root |-> CodeRoot(code), state_root |-> StateRoot(slots),
                                         id |-> ContractIdOf(code, salt, slots),
                                         bad_outputs |-> SetSeq(BadOutputs(code, salt, slots))])
           /\ stage' = "deployed"
           /\ UNCHANGED code

ACroo == /\ stage = "deployed"
         /\ hist' = Append(hist, [a |-> "Croo", id |-> cid, root |-> Croo(cid)])
         /\ stage' = "done"
         /\ UNCHANGED <<chain, code, cid>>

MCNext == ACode \/ ADeploy \/ ACroo
MCSpec == MCInit /\ [][MCNext]_mcVars

\* ------------------------------------------------------- design-level invariants
\* (the code changes only in ACode, so the statements about it are evaluated in the states right after it)
LeavesOk   == stage = "code" => LeavesWellFormed(code)
UnrolledOk == stage = "code" => CodeRoot(code) = UnrolledRoot(code)
\* bytes of zero padding inside the last 8-byte word are not distinguished (a consequence of the padding rule)
PadInsensitive == stage = "code" => CodeRoot(code) = CodeRoot(Pad8(code))
\* known answers: empty tree roots, and the identifier of the empty contract published with the specification
KnownAnswers == stage = "start" =>
                /\ CodeRoot("") = "e3b0c44298fc1c149afbf4c8996fb92427ae41e4649b934ca495991b7852b855"
                /\ StateRoot(<<>>) = Zero32
                /\ ContractIdOf("", Salt0, <<>>) = "37bb0d6ca5333ae64a6dd7e52145527851045536ac1e5473e2a4006367bd9af3"
\* the deployed contract is what CROO and the initial state speak about
DeployedOk == stage = "deployed" =>
                /\ cid \in DOMAIN chain /\ chain[cid].code = code
                /\ Croo(cid) = CodeRoot(code)
                /\ DOMAIN InitialState(cid) = SlotKeys(chain[cid].slots)
\* predicate owner and contract id of the same code never coincide (domain separation by the salt/state fields)
Separated == stage = "deployed" => cid # PredicateOwner(code)

ChainKeyedMC == stage = "deployed" => ChainKeyed

Emit == (EmitReplay /\ stage = "done") => PrintT("REPLAY" \o ToJson(hist))
=============================================================================
