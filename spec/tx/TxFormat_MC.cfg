SPECIFICATION Spec
CONSTANTS
  Mode = "C01"
  Thorough = FALSE
INVARIANTS WordAligned SizeIsLength InDomain OffsetsLocate ChainsSeparate IdCommitsExactly Emit
CHECK_DEADLOCK FALSE
