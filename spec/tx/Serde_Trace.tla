----------------------------- MODULE Serde_Trace -----------------------------
(* impl -> spec for C06: every event recorded from the real serde implementations *)
(* is accepted iff the logged observation is what the Serde specification says.   *)
(* The trace is stateless (each event is one pure evaluation); `Seg` only marks   *)
(* independent parts so a rejected one does not hide the rest.                    *)
EXTENDS Serde, TraceIO
VARIABLE l
trVars == <<l>>
TrInit == l = 1
e == Rec[l]

Pol == [bits |-> e.bits, vals |-> e.vals]

TSeg == IsEv(l, "Seg")

\* the real serializers produced exactly the specified encodings of the logged value
TPolSer == /\ IsEv(l, "PolSer")
           /\ WellFormed(Pol)
           /\ e.json = SerJson(Pol)
           /\ e.postcard = SerPostcard(Pol)
           /\ e.bincode = SerBincode(Pol)

\* the real deserializer, fed a well-formed encoding, returned THE value that encodes to it
\* (encodings are injective, so this is De(x) = v  <=>  Ser(v) = x); json-map exercises
\* visit_map, json-seq / postcard / bincode exercise visit_seq
TPolDe == /\ IsEv(l, "PolDe")
          /\ e.ok
          /\ (Has(e, "eq") => e.eq)          \* Rust == with the value that was serialized
          /\ WellFormed(Pol)
          /\ RoundTripLaw(Pol)
          /\ CASE e.fmt \in {"json-map", "json-seq"} -> e.input = SerJson(Pol)
               [] e.fmt \in {"postcard", "bincode"}  -> e.input = SerFmt(e.fmt, Pol)

TBytesSer == /\ IsEv(l, "BytesSer")
             /\ e.json = BytesJson(e.data)
             /\ e.postcard = BytesPostcard(e.data)
             /\ e.bincode = BytesBincode(e.data)
TBytesDe == /\ IsEv(l, "BytesDe")
            /\ e.ok
            /\ CASE e.fmt = "json"     -> e.input = BytesJson(e.data)
                 [] e.fmt = "postcard" -> e.input = BytesPostcard(e.data)
                 [] e.fmt = "bincode"  -> e.input = BytesBincode(e.data)

\* law-level round trip of a value of the enumerated variant / version space
TRT == /\ IsEv(l, "RT")
       /\ [type |-> e.type, kind |-> e.kind] \in Cases
       /\ e.fmt \in Formats
       /\ e.ok
       /\ RoundTripObserved(e.orig, e.back, e.eq)
       /\ ReproducibleObserved(e.ser, e.reser)

\* upgrade transactions: the constructor commits to SHA256(postcard(cp)); metadata computation
\* accepts a witness iff it hashes to the committed checksum, reports that hash, and decodes
\* the very parameters that were encoded
TUpgrade == /\ IsEv(l, "Upgrade")
            /\ e.built = Checksum(e.cp)
            /\ e.outcome = UpgradeOutcome(e.witness, e.committed)
            /\ (e.outcome = "ok" => (e.calc = Checksum(e.witness) /\ e.back = e.orig /\ e.reser = e.witness))

TrNext == (TSeg \/ TPolSer \/ TPolDe \/ TBytesSer \/ TBytesDe \/ TRT \/ TUpgrade) /\ l' = l + 1
TrSpec == TrInit /\ [][TrNext]_trVars
=============================================================================
