-------------------------- MODULE Compression_Trace --------------------------
(* impl -> spec for C07.  A trace is a sequence of compression contexts (Ctx)   *)
(* each followed by the transactions compressed and decompressed against it.    *)
(* A Tx event carries the field map of the original and of the decompressed     *)
(* transaction, both ids, every registry call made while compressing (keyspace, *)
(* value, key handed out - in call order) and the registry projection after.    *)
(* Accepted iff the registry calls are exactly the registry references of the   *)
(* original transaction, each key is the one the registry model hands out, the  *)
(* projection matches, and IdPreserved / NonSkippedEqual /                      *)
(* SkippedRestoredOrDefault hold for the pair.                                  *)
EXTENDS Compression, TraceIO
VARIABLES l, reg
trVars == <<l, reg>>
e == Rec[l]

NoReg == [ks \in Keyspaces |-> Table(EmptyMap, 0)]
TrInit == l = 1 /\ reg = NoReg

RECURSIVE MapOf(_)
MapOf(pairs) == IF Len(pairs) = 0 THEN EmptyMap ELSE Put(MapOf(Tail(pairs)), Head(pairs)[1], Head(pairs)[2])

TSeg == IsEv(l, "Seg") /\ reg' = NoReg
TCtx == /\ IsEv(l, "Ctx")
        /\ reg' = [ks \in Keyspaces |-> Table(MapOf(e.seed[ks]), e.next[ks])]
        /\ RegistryOk(reg')

TTx == /\ IsEv(l, "Tx")
       /\ LET res == CompressRefs(reg, NoneTouched, RegRefs(e.orig), <<>>) IN
          /\ e.calls = res.calls                                        \* same references, same order, same keys
          /\ \A ks \in Keyspaces : /\ e.reg[ks].next = res.reg[ks].next
                                   /\ e.reg[ks].size = Cardinality(DOMAIN res.reg[ks].map)
          /\ CallsResolve(res.reg, res.calls)
          /\ RegistryOk(res.reg)
          /\ reg' = res.reg
       /\ NonSkippedEqual(e.orig, e.dec)
       /\ SkippedRestoredOrDefault(e.orig, e.dec)
       /\ IdPreserved(e.id_orig, e.id_dec)
       /\ e.cpost2 = e.cpost                                           \* the compressed form survives postcard

TrNext == (TSeg \/ TCtx \/ TTx) /\ l' = l + 1
TrSpec == TrInit /\ [][TrNext]_trVars
=============================================================================
