------------------------------ MODULE TxFormat ------------------------------
(***************************************************************************)
(* The Fuel transaction format as data: one Canonical schema per protocol  *)
(* type (fuel-specs tx-format: transaction.md, input.md, output.md,        *)
(* policy.md, witness.md, tx-pointer.md; abi/receipts.md).                 *)
(*                                                                         *)
(* Inputs have THREE wire kinds (coin 0, contract 1, message 2) and SEVEN  *)
(* value variants: the signed variants leave the predicate fields absent   *)
(* (predicateGasUsed = 0, predicateLength = predicateDataLength = 0), the  *)
(* predicate variants leave witnessIndex absent, the message-coin variants *)
(* leave the data absent.                                                  *)
(*                                                                         *)
(* What the format deliberately leaves out (skip fields): the payload      *)
(* bytes of ReturnData / LogData / MessageOut receipts, the panic reason   *)
(* and the panic contract id of Panic receipts (the format carries only    *)
(* the instruction word), and cached metadata (never part of a value       *)
(* here).                                                                  *)
(***************************************************************************)
EXTENDS Canonical

B32 == B(32)

UtxoIdT    == Struct(<<F("tx_id", B32), F("output_index", U16)>>)
TxPointerT == Struct(<<F("block_height", U32), F("tx_index", U16)>>)
StorageSlotT == Struct(<<F("key", B32), F("value", B32)>>)
WitnessT   == VecBytes

\* policy.md: bit 0 tip, 1 witness limit, 2 maturity, 3 max fee, 4 expiration, 5 owner; mask is a u32
PolicyNames == <<"tip", "witness_limit", "maturity", "max_fee", "expiration", "owner">>
PoliciesT  == OptSet(PolicyNames, 4)

\* ------------------------------ inputs ------------------------------
InputCoinW == Struct(<<
    F("utxo_id", UtxoIdT), F("owner", B32), F("amount", U64), F("asset_id", B32), F("tx_pointer", TxPointerT),
    F("witness_index", U16), F("predicate_gas_used", U64), F("predicate", VecBytes), F("predicate_data", VecBytes)>>)
InputContractW == Struct(<<
    F("utxo_id", UtxoIdT), F("balance_root", B32), F("state_root", B32), F("tx_pointer", TxPointerT),
    F("contract_id", B32)>>)
InputMessageW == Struct(<<
    F("sender", B32), F("recipient", B32), F("amount", U64), F("nonce", B32),
    F("witness_index", U16), F("predicate_gas_used", U64),
    F("data", VecBytes), F("predicate", VecBytes), F("predicate_data", VecBytes)>>)
PredFields == {"predicate_gas_used", "predicate", "predicate_data"}
InputT == Enum(<<
    VA("CoinSigned",           0, InputCoinW,    PredFields),
    VA("CoinPredicate",        0, InputCoinW,    {"witness_index"}),
    V ("Contract",             1, InputContractW),
    VA("MessageCoinSigned",    2, InputMessageW, PredFields \cup {"data"}),
    VA("MessageCoinPredicate", 2, InputMessageW, {"witness_index", "data"}),
    VA("MessageDataSigned",    2, InputMessageW, PredFields),
    VA("MessageDataPredicate", 2, InputMessageW, {"witness_index"})>>)
InputKinds == {"CoinSigned", "CoinPredicate", "Contract", "MessageCoinSigned", "MessageCoinPredicate",
               "MessageDataSigned", "MessageDataPredicate"}
PredicateKinds == {"CoinPredicate", "MessageCoinPredicate", "MessageDataPredicate"}

\* ------------------------------ outputs ------------------------------
OutCCV == Struct(<<F("to", B32), F("amount", U64), F("asset_id", B32)>>)
OutputContractW == Struct(<<F("input_index", U16), F("balance_root", B32), F("state_root", B32)>>)
OutputT == Enum(<<
    V("Coin", 0, OutCCV),
    V("Contract", 1, OutputContractW),
    V("Change", 2, OutCCV),
    V("Variable", 3, OutCCV),
    V("ContractCreated", 4, Struct(<<F("contract_id", B32), F("state_root", B32)>>))>>)

\* ------------------------------ transactions ------------------------------
UpgradePurposeT == Enum(<<
    V("ConsensusParameters", 0, Struct(<<F("witness_index", U16), F("checksum", B32)>>)),
    V("StateTransition", 1, Struct(<<F("root", B32)>>))>>)

Common == <<F("policies", PoliciesT), F("inputs", Vec(InputT)), F("outputs", Vec(OutputT)), F("witnesses", Vec(WitnessT))>>

ScriptW == Struct(<<F("script_gas_limit", U64), F("receipts_root", B32), F("script", VecBytes), F("script_data", VecBytes)>> \o Common)
CreateW == Struct(<<F("bytecode_witness_index", U16), F("salt", B32), F("storage_slots", Vec(StorageSlotT))>> \o Common)
MintW   == Struct(<<F("tx_pointer", TxPointerT), F("input_contract", InputContractW), F("output_contract", OutputContractW),
                    F("mint_amount", U64), F("mint_asset_id", B32), F("gas_price", U64)>>)
UpgradeW == Struct(<<F("purpose", UpgradePurposeT)>> \o Common)
UploadW == Struct(<<F("root", B32), F("witness_index", U16), F("subsection_index", U16), F("subsections_number", U16),
                    F("proof_set", Vec(B32))>> \o Common)
BlobW   == Struct(<<F("id", B32), F("witness_index", U16)>> \o Common)

TransactionT == Enum(<<
    V("Script", 0, ScriptW), V("Create", 1, CreateW), V("Mint", 2, MintW),
    V("Upgrade", 3, UpgradeW), V("Upload", 4, UploadW), V("Blob", 5, BlobW)>>)
ChargeableKinds == {"Script", "Create", "Upgrade", "Upload", "Blob"}

\* ------------------------------ receipts ------------------------------
ScriptResultT == Enum(<<
    V("Success", 0, Struct(<<>>)), V("Revert", 1, Struct(<<>>)), V("Panic", 2, Struct(<<>>)),
    V("GenericFailure", 3, Struct(<<F("value", U64)>>))>>)
ReceiptT == Enum(<<
    V("Call", 0, Struct(<<F("id", B32), F("to", B32), F("amount", U64), F("asset_id", B32), F("gas", U64),
                          F("param1", U64), F("param2", U64), F("pc", U64), F("is", U64)>>)),
    V("Return", 1, Struct(<<F("id", B32), F("val", U64), F("pc", U64), F("is", U64)>>)),
    V("ReturnData", 2, Struct(<<F("id", B32), F("ptr", U64), F("len", U64), F("digest", B32), F("pc", U64), F("is", U64),
                                SkipF("data")>>)),
    V("Panic", 3, Struct(<<F("id", B32), SkipF("reason"), F("instruction", U32), F("pc", U64), F("is", U64),
                           SkipF("contract_id")>>)),
    V("Revert", 4, Struct(<<F("id", B32), F("ra", U64), F("pc", U64), F("is", U64)>>)),
    V("Log", 5, Struct(<<F("id", B32), F("ra", U64), F("rb", U64), F("rc", U64), F("rd", U64), F("pc", U64), F("is", U64)>>)),
    V("LogData", 6, Struct(<<F("id", B32), F("ra", U64), F("rb", U64), F("ptr", U64), F("len", U64), F("digest", B32),
                             F("pc", U64), F("is", U64), SkipF("data")>>)),
    V("Transfer", 7, Struct(<<F("id", B32), F("to", B32), F("amount", U64), F("asset_id", B32), F("pc", U64), F("is", U64)>>)),
    V("TransferOut", 8, Struct(<<F("id", B32), F("to", B32), F("amount", U64), F("asset_id", B32), F("pc", U64), F("is", U64)>>)),
    V("ScriptResult", 9, Struct(<<F("result", ScriptResultT), F("gas_used", U64)>>)),
    V("MessageOut", 10, Struct(<<F("sender", B32), F("recipient", B32), F("amount", U64), F("nonce", B32), F("len", U64),
                                 F("digest", B32), SkipF("data")>>)),
    V("Mint", 11, Struct(<<F("sub_id", B32), F("contract_id", B32), F("val", U64), F("pc", U64), F("is", U64)>>)),
    V("Burn", 12, Struct(<<F("sub_id", B32), F("contract_id", B32), F("val", U64), F("pc", U64), F("is", U64)>>))>>)

\* type name (as used in REPLAY lines and trace events) -> schema
TypeNames == {"Transaction", "Input", "Output", "Witness", "Policies", "StorageSlot", "UtxoId", "TxPointer",
              "Receipt", "UpgradePurpose"}
SchemaOf(ty) ==
    CASE ty = "Transaction" -> TransactionT [] ty = "Input" -> InputT [] ty = "Output" -> OutputT
      [] ty = "Witness" -> WitnessT [] ty = "Policies" -> PoliciesT [] ty = "StorageSlot" -> StorageSlotT
      [] ty = "UtxoId" -> UtxoIdT [] ty = "TxPointer" -> TxPointerT [] ty = "Receipt" -> ReceiptT
      [] ty = "UpgradePurpose" -> UpgradePurposeT

\* protocol domain of policy values: maturity and expiration are block heights (u32)
U32Max == "4294967295"
U64Max == "18446744073709551615"
=============================================================================
