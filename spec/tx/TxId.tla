-------------------------------- MODULE TxId --------------------------------
(***************************************************************************)
(* Transaction identifier (fuel-specs identifiers/transaction-id.md):      *)
(*                                                                         *)
(*   id(chain, tx) = SHA-256( BE64(chain) || Enc(tx with every MALLEABLE   *)
(*                            field zeroed and the witnesses removed) )    *)
(*                                                                         *)
(* The malleable fields are exactly those another party (block producer,   *)
(* executor) fills in after signing; the table below is written from the   *)
(* "Note" sections of tx-format/input.md, output.md and transaction.md:    *)
(*  - script: receiptsRoot;                                                *)
(*  - coin inputs: txPointer; predicate inputs also predicateGasUsed;      *)
(*  - contract inputs: txID/outputIndex (utxo id), balanceRoot, stateRoot, *)
(*    txPointer (contractID is signed);                                    *)
(*  - contract outputs: balanceRoot, stateRoot (inputIndex is signed);     *)
(*  - change outputs: amount only; variable outputs: to, amount, assetId;  *)
(*  - all witnesses;                                                       *)
(*  - mint: the same fields of its embedded contract input / output.       *)
(***************************************************************************)
EXTENDS TxFormat
LOCAL INSTANCE Hex
LOCAL INSTANCE VerifHash

MalleableInput == [
    CoinSigned           |-> {"tx_pointer"},
    CoinPredicate        |-> {"tx_pointer", "predicate_gas_used"},
    Contract             |-> {"utxo_id", "balance_root", "state_root", "tx_pointer"},
    MessageCoinSigned    |-> {},
    MessageCoinPredicate |-> {"predicate_gas_used"},
    MessageDataSigned    |-> {},
    MessageDataPredicate |-> {"predicate_gas_used"}]
MalleableOutput == [
    Coin            |-> {},
    Contract        |-> {"balance_root", "state_root"},
    Change          |-> {"amount"},
    Variable        |-> {"to", "amount", "asset_id"},
    ContractCreated |-> {}]
MalleableBody == [Script |-> {"receipts_root"}, Create |-> {}, Upgrade |-> {}, Upload |-> {}, Blob |-> {}]

\* v with the named fields of wire structure W replaced by their zero value
ZeroNamed(W, v, names) ==
    [f \in DOMAIN v |-> IF f \in names THEN ZeroOf(W.fs[FieldIdx(W, f)].t) ELSE v[f]]

PrepInput(i)  == ZeroNamed(Variant(InputT, i.kind).t, i, MalleableInput[i.kind])
PrepOutput(o) == ZeroNamed(Variant(OutputT, o.kind).t, o, MalleableOutput[o.kind])

PrepareSign(tx) ==
    IF tx.kind = "Mint"
    THEN [tx EXCEPT !.input_contract  = ZeroNamed(InputContractW, @, MalleableInput.Contract),
                    !.output_contract = ZeroNamed(OutputContractW, @, MalleableOutput.Contract)]
    ELSE LET b == ZeroNamed(Variant(TransactionT, tx.kind).t, tx, MalleableBody[tx.kind]) IN
         [b EXCEPT !.inputs    = [k \in 1..Len(tx.inputs) |-> PrepInput(tx.inputs[k])],
                   !.outputs   = [k \in 1..Len(tx.outputs) |-> PrepOutput(tx.outputs[k])],
                   !.witnesses = <<>>]

IdPreimage(chain, tx) == BEBig(chain, 8) \o Enc(TransactionT, PrepareSign(tx))
Id(chain, tx) == SHA256(IdPreimage(chain, tx))

\* Is the part of the transaction addressed by `path` (a Layout path) malleable?
MalleablePath(tx, p) ==
    IF tx.kind = "Mint"
    THEN CASE p[1] = "input_contract"  -> Len(p) >= 2 /\ p[2] \in MalleableInput.Contract
           [] p[1] = "output_contract" -> Len(p) >= 2 /\ p[2] \in MalleableOutput.Contract
           [] OTHER -> FALSE
    ELSE CASE p[1] = "witnesses" -> TRUE
           [] p[1] = "inputs"    -> Len(p) >= 3 /\ p[3] \in MalleableInput[tx.inputs[p[2] + 1].kind]
           [] p[1] = "outputs"   -> Len(p) >= 3 /\ p[3] \in MalleableOutput[tx.outputs[p[2] + 1].kind]
           [] OTHER -> Len(p) = 1 /\ p[1] \in MalleableBody[tx.kind]

\* ---- schema-directed access to a part of a value ----
RECURSIVE GetAt(_, _, _), SetAt(_, _, _, _)
SubType(T, v, h) ==
    CASE T.k = "struct" -> T.fs[FieldIdx(T, h)].t
      [] T.k = "enum"   -> LET a == Variant(T, v.kind) IN a.t.fs[FieldIdx(a.t, h)].t
      [] T.k = "vec"    -> T.elem
      [] T.k = "optset" -> U64
SubVal(T, v, h) ==
    CASE T.k = "vec"    -> v[h + 1]
      [] T.k = "optset" -> v.vals[CHOOSE i \in 1..Len(T.names) : T.names[i] = h]
      [] OTHER          -> v[h]
RECURSIVE TypeAt(_, _, _)
TypeAt(T, v, path) == IF path = <<>> THEN T ELSE TypeAt(SubType(T, v, Head(path)), SubVal(T, v, Head(path)), Tail(path))
GetAt(T, v, path) == IF path = <<>> THEN v ELSE GetAt(SubType(T, v, Head(path)), SubVal(T, v, Head(path)), Tail(path))
SetAt(T, v, path, new) ==
    IF path = <<>> THEN new
    ELSE LET h == Head(path)
             sub == SetAt(SubType(T, v, h), SubVal(T, v, h), Tail(path), new)
         IN CASE T.k = "vec"    -> [v EXCEPT ![h + 1] = sub]
              [] T.k = "optset" -> [v EXCEPT !.vals[CHOOSE i \in 1..Len(T.names) : T.names[i] = h] = sub]
              [] OTHER          -> [v EXCEPT ![h] = sub]
=============================================================================
