------------------------------ MODULE Contract ------------------------------
(***************************************************************************)
(* Contract and predicate identifiers of the FuelVM specification          *)
(* (fuel-specs: identifiers/contract-id.md, identifiers/predicate-id.md,   *)
(* identifiers/blob-id.md), written from the specification text:           *)
(*                                                                         *)
(*  code root    binary Merkle root (RFC 6962 shape, module                *)
(*               BinaryMerkleRef) of the byte code split into 16 KiB       *)
(*               leaves; the final leaf, if it is partial, is padded with  *)
(*               zero bytes up to the next multiple of 8 bytes;            *)
(*  state root   sparse Merkle root (module SparseMerkleRef) of the        *)
(*               storage slots, leaf key = SHA-256(slot key), leaf value   *)
(*               = slot value;                                             *)
(*  contract id  SHA-256(0x4655454C || salt || code root || state root);   *)
(*  predicate    SHA-256(0x4655454C || code root of the predicate code);   *)
(*  owner                                                                  *)
(*  blob id      SHA-256(blob data).                                       *)
(*                                                                         *)
(* Design part: the chain's contract table `chain` (contract id -> what    *)
(* was deployed), the Deploy action, what CROO must report, and when a     *)
(* predicate input may be spent.                                           *)
(*                                                                         *)
(* Byte strings are lowercase hex strings.  A storage-slot list is a       *)
(* sequence of <<key, value>> pairs with pairwise distinct keys.           *)
(***************************************************************************)
EXTENDS Naturals, Sequences, FiniteSets, TLC
LOCAL INSTANCE VerifHash
LOCAL INSTANCE Hex
BMR == INSTANCE BinaryMerkleRef
SMR == INSTANCE SparseMerkleRef

LeafSize == 16384                \* 16 KiB
Seed     == "4655454c"           \* the four bytes "FUEL"
Zero32   == Zeros(32)

\* ---------------------------------------------------------------- code root
NumLeaves(n) == (n + LeafSize - 1) \div LeafSize          \* number of leaves of n bytes of code
RawLeaf(code, i) ==                                       \* i-th (1-based) 16 KiB piece, unpadded
    LET off  == (i - 1) * LeafSize
        rest == BLen(code) - off
    IN  Slice(code, off, IF rest < LeafSize THEN rest ELSE LeafSize)
CodeLeaves(code) ==
    LET k == NumLeaves(BLen(code)) IN
    [i \in 1..k |-> IF i = k THEN Pad8(RawLeaf(code, i)) ELSE RawLeaf(code, i)]
CodeRoot(code) == BMR!MTH(CodeLeaves(code))

\* --------------------------------------------------------------- state root
SlotKeys(slots) == {slots[i][1] : i \in DOMAIN slots}
DistinctKeys(slots) == Cardinality(SlotKeys(slots)) = Len(slots)
\* the key -> value function the sparse tree denotes: SHA-256(slot key) -> slot value
SlotMap(slots) ==
    [h \in {SHA256(slots[i][1]) : i \in DOMAIN slots} |->
        slots[CHOOSE i \in DOMAIN slots : SHA256(slots[i][1]) = h][2]]
StateRoot(slots) == SMR!RefRoot(SlotMap(slots))

\* -------------------------------------------------------------- identifiers
ContractId(salt, codeRoot, stateRoot) == SHA256(Seed \o salt \o codeRoot \o stateRoot)
ContractIdOf(code, salt, slots) == ContractId(salt, CodeRoot(code), StateRoot(slots))
PredicateOwner(code) == SHA256(Seed \o CodeRoot(code))
BlobId(data) == SHA256(data)

\* A Create transaction's ContractCreated output is acceptable iff it names exactly these values
CreatedOutputOk(code, salt, slots, outId, outStateRoot) ==
    outId = ContractIdOf(code, salt, slots) /\ outStateRoot = StateRoot(slots)
\* A predicate-guarded input may be spent only if its owner is the predicate's address
OwnerOk(owner, code) == owner = PredicateOwner(code)

\* ------------------------------------------------------------------- design
VARIABLE chain       \* contract id -> [code, salt, slots] as deployed
CInit == chain = <<>>

\* id is always ContractIdOf(code, salt, slots); it is a parameter only so that a caller that already
\* knows CodeRoot(code) need not have it recomputed (64 KiB codes in traces)
DeployAs(id, code, salt, slots) ==
    /\ DistinctKeys(slots)
    /\ id \notin DOMAIN chain
    /\ chain' = chain @@ (id :> [code |-> code, salt |-> salt, slots |-> slots])
Deploy(code, salt, slots) == DeployAs(ContractIdOf(code, salt, slots), code, salt, slots)

\* what the code-root instruction must write for a deployed contract
Croo(id) == CodeRoot(chain[id].code)
\* the contract's initial storage: slot key -> slot value
InitialState(id) == [k \in SlotKeys(chain[id].slots) |->
                        chain[id].slots[CHOOSE i \in DOMAIN chain[id].slots : chain[id].slots[i][1] = k][2]]

\* ------------------------------------------------------------- invariants
\* every contract is stored under the identifier its content determines
ChainKeyed == \A id \in DOMAIN chain :
    id = ContractIdOf(chain[id].code, chain[id].salt, chain[id].slots)

\* shape of the leaves (stated on any code)
LeavesWellFormed(code) ==
    LET L == CodeLeaves(code)  n == BLen(code) IN
    /\ Len(L) = NumLeaves(n)
    /\ \A i \in 1..(Len(L) - 1) : BLen(L[i]) = LeafSize
    /\ (Len(L) > 0 => /\ BLen(L[Len(L)]) % 8 = 0
                      /\ BLen(L[Len(L)]) <= LeafSize
                      /\ BLen(L[Len(L)]) >= BLen(RawLeaf(code, Len(L)))
                      /\ BLen(L[Len(L)]) < BLen(RawLeaf(code, Len(L))) + 8)
    /\ LET all == Cat(L) IN
       /\ Slice(all, 0, n) = code                          \* content and order preserved
       /\ IsZero(Slice(all, n, BLen(all) - n))             \* padding is zero bytes
       /\ BLen(all) = Aligned8(n)

\* the Merkle recursion unrolled by hand for up to five leaves (an independent formulation)
H0(d) == SHA256("00" \o d)
H1(l, r) == SHA256("01" \o l \o r)
UnrolledRoot(code) ==
    LET L == CodeLeaves(code) IN
    CASE Len(L) = 0 -> SHA256("")
      [] Len(L) = 1 -> H0(L[1])
      [] Len(L) = 2 -> H1(H0(L[1]), H0(L[2]))
      [] Len(L) = 3 -> H1(H1(H0(L[1]), H0(L[2])), H0(L[3]))
      [] Len(L) = 4 -> H1(H1(H0(L[1]), H0(L[2])), H1(H0(L[3]), H0(L[4])))
      [] Len(L) = 5 -> H1(H1(H1(H0(L[1]), H0(L[2])), H1(H0(L[3]), H0(L[4]))), H0(L[5]))
      [] OTHER -> CodeRoot(code)
=============================================================================
