SPECIFICATION TrSpec
INVARIANTS PointThms
POSTCONDITION Accepted
CHECK_DEADLOCK FALSE
