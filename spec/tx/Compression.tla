---------------------------- MODULE Compression ----------------------------
(***************************************************************************)
(* C07 - DA compression of transactions (fuel-compression, the             *)
(* derive(Compress/Decompress) macros of fuel-derive, the compress(skip)   *)
(* annotations in fuel-tx).                                                *)
(*                                                                         *)
(* Compression replaces registry-substitutable values (addresses, asset    *)
(* ids, contract ids, script and predicate code) by 3-byte registry keys,  *)
(* drops the fields that are deliberately skipped, and keeps everything    *)
(* else.  Decompression against a context holding the same referenced data *)
(* gives back a transaction with                                           *)
(*   IdPreserved               the same id,                                *)
(*   NonSkippedEqual           the same value in every non-skipped field,  *)
(*   SkippedRestoredOrDefault  defaults in the skipped fields, except the  *)
(*                             ones the context restores (coin owner /     *)
(*                             amount / asset, message sender / recipient  *)
(*                             / amount / data, mint tx pointer).          *)
(*                                                                         *)
(* Parts:                                                                  *)
(*  - the temporal registry: per keyspace a table key -> value and the     *)
(*    next key to write; keys are 24-bit, the last one (all ones) is the   *)
(*    reserved "default value" key and is never written, the successor of  *)
(*    the largest writable key is key 0 (wrap-around, evicting what was    *)
(*    there); a key used by the transaction being compressed is not        *)
(*    reused for a new value of the same transaction;                      *)
(*  - the per-type field table: which fields are kept, substituted,        *)
(*    skipped-to-default or skipped-and-restored;                          *)
(*  - Compress / Decompress over field maps, and the three properties.     *)
(***************************************************************************)
EXTENDS Naturals, Sequences, FiniteSets, TLC
LOCAL INSTANCE Hex

(***************************************************************************)
(* Registry keys                                                           *)
(***************************************************************************)
KeyBits == 24
DefaultKey == 2 ^ KeyBits - 1                \* reserved: denotes the default value, never written
MaxWritable == DefaultKey - 1
Writable(k) == k \in 0..MaxWritable
NextKey(k) == IF k + 1 = DefaultKey THEN 0 ELSE k + 1       \* k writable

Keyspaces == {"Address", "AssetId", "ContractId", "ScriptCode", "PredicateCode"}
IdKeyspaces == {"Address", "AssetId", "ContractId"}
DefaultOf(ks) == IF ks \in IdKeyspaces THEN Zeros(32) ELSE ""
IsDefaultValue(ks, v) == v = DefaultOf(ks)

(***************************************************************************)
(* One keyspace table: [map |-> key -> value, next |-> key]                *)
(***************************************************************************)
EmptyMap == [k \in {} |-> ""]
Table(m, n) == [map |-> m, next |-> n]
Holds(t, v) == \E k \in DOMAIN t.map : t.map[k] = v
KeyOfValue(t, v) == CHOOSE k \in DOMAIN t.map : t.map[k] = v
Put(m, k, v) == [x \in (DOMAIN m) \cup {k} |-> IF x = k THEN v ELSE m[x]]     \* overwrite = evict

RECURSIVE FreeFrom(_, _)
FreeFrom(k, touched) == IF k \in touched THEN FreeFrom(NextKey(k), touched) ELSE k

\* compress one value of keyspace ks: the key it gets, the table after, the keys this transaction uses
\* (notes: what happened - only used to measure which cases a model run / trace exercised)
CompressRef(t, touched, ks, v) ==
    IF IsDefaultValue(ks, v)
    THEN [key |-> DefaultKey, t |-> t, touched |-> touched, notes |-> {"default"}]
    ELSE IF Holds(t, v)
         THEN LET k == KeyOfValue(t, v) IN [key |-> k, t |-> t, touched |-> touched \cup {k}, notes |-> {"hit"}]
         ELSE LET k == FreeFrom(t.next, touched) IN
              [key |-> k, t |-> Table(Put(t.map, k, v), NextKey(k)), touched |-> touched \cup {k},
               notes |-> {"new"} \cup (IF k \in DOMAIN t.map THEN {"evict"} ELSE {})
                                 \cup (IF k # t.next THEN {"skip"} ELSE {})
                                 \cup (IF NextKey(k) = 0 THEN {"wrap"} ELSE {})]

NoneTouched == [ks \in Keyspaces |-> {}]
\* a whole transaction: its registry references in traversal order
RECURSIVE CompressRefsN(_, _, _, _, _)
CompressRefsN(reg, touched, refs, acc, notes) ==
    IF Len(refs) = 0 THEN [reg |-> reg, calls |-> acc, notes |-> notes]
    ELSE LET r == Head(refs)
             c == CompressRef(reg[r.ks], touched[r.ks], r.ks, r.v)
         IN CompressRefsN([reg EXCEPT ![r.ks] = c.t], [touched EXCEPT ![r.ks] = c.touched], Tail(refs),
                          Append(acc, [ks |-> r.ks, v |-> r.v, k |-> c.key]), notes \cup c.notes)
CompressRefs(reg, touched, refs, acc) == CompressRefsN(reg, touched, refs, acc, {})

\* decompression of a key
Resolvable(reg, ks, k) == k = DefaultKey \/ k \in DOMAIN reg[ks].map
Resolve(reg, ks, k) == IF k = DefaultKey THEN DefaultOf(ks) ELSE reg[ks].map[k]

(***************************************************************************)
(* The field table.  Component types are named "<where>:<variant>".        *)
(* class: keep    - compressed as itself (recursively), must come back     *)
(*        reg     - substituted by a registry key of keyspace ks           *)
(*        default - skipped; comes back as the type's default              *)
(*        ctx     - skipped; restored from the context (same data)         *)
(***************************************************************************)
K(n) == [n |-> n, c |-> "keep", ks |-> ""]
D(n) == [n |-> n, c |-> "default", ks |-> ""]
X(n) == [n |-> n, c |-> "ctx", ks |-> ""]
R(n, ks) == [n |-> n, c |-> "reg", ks |-> ks]

Fields(vt) ==
    CASE vt = "top"            -> <<K("policies"), K("witnesses"), D("metadata")>>
      [] vt = "top:Mint"       -> <<D("metadata")>>
      [] vt = "body:Script"    -> <<K("script_gas_limit"), D("receipts_root"), R("script", "ScriptCode"), K("script_data")>>
      [] vt = "body:Create"    -> <<K("bytecode_witness_index"), K("salt"), K("storage_slots")>>
      [] vt = "body:Upgrade"   -> <<K("purpose")>>
      [] vt = "body:Upload"    -> <<K("root"), K("witness_index"), K("subsection_index"), K("subsections_number"), K("proof_set")>>
      [] vt = "body:Blob"      -> <<K("id"), K("witness_index")>>
      [] vt = "body:Mint"      -> <<X("tx_pointer"), K("mint_amount"), R("mint_asset_id", "AssetId"), K("gas_price")>>
      [] vt = "in:CoinSigned"  -> <<K("utxo_id"), X("owner"), X("amount"), X("asset_id"), D("tx_pointer"), K("witness_index")>>
      [] vt = "in:CoinPredicate" -> <<K("utxo_id"), X("owner"), X("amount"), X("asset_id"), D("tx_pointer"),
                                      K("predicate_gas_used"), R("predicate", "PredicateCode"), K("predicate_data")>>
      [] vt = "in:Contract"    -> <<D("utxo_id"), D("balance_root"), D("state_root"), D("tx_pointer"), R("contract_id", "ContractId")>>
      [] vt = "in:MessageCoinSigned" -> <<X("sender"), X("recipient"), X("amount"), K("nonce"), K("witness_index")>>
      [] vt = "in:MessageCoinPredicate" -> <<X("sender"), X("recipient"), X("amount"), K("nonce"), K("predicate_gas_used"),
                                             R("predicate", "PredicateCode"), K("predicate_data")>>
      [] vt = "in:MessageDataSigned" -> <<X("sender"), X("recipient"), X("amount"), K("nonce"), K("witness_index"), X("data")>>
      [] vt = "in:MessageDataPredicate" -> <<X("sender"), X("recipient"), X("amount"), K("nonce"), K("predicate_gas_used"),
                                             X("data"), R("predicate", "PredicateCode"), K("predicate_data")>>
      [] vt = "out:Coin"       -> <<R("to", "Address"), K("amount"), R("asset_id", "AssetId")>>
      [] vt = "out:Contract"   -> <<K("input_index"), D("balance_root"), D("state_root")>>
      [] vt = "out:Change"     -> <<R("to", "Address"), D("amount"), R("asset_id", "AssetId")>>
      [] vt = "out:Variable"   -> <<D("to"), D("amount"), D("asset_id")>>
      [] vt = "out:ContractCreated" -> <<R("contract_id", "ContractId"), K("state_root")>>

TxKinds == {"Script", "Create", "Mint", "Upgrade", "Upload", "Blob"}
InputVariants == {"CoinSigned", "CoinPredicate", "Contract", "MessageCoinSigned", "MessageCoinPredicate",
                  "MessageDataSigned", "MessageDataPredicate"}
OutputVariants == {"Coin", "Contract", "Change", "Variable", "ContractCreated"}
ComponentTypes == {"top", "top:Mint"} \cup {"body:" \o k : k \in TxKinds} \cup {"in:" \o v : v \in InputVariants}
                    \cup {"out:" \o v : v \in OutputVariants}
Names(vt) == {Fields(vt)[i].n : i \in 1..Len(Fields(vt))}
TopType(kind) == IF kind = "Mint" THEN "top:Mint" ELSE "top"

(***************************************************************************)
(* What the transaction id does NOT commit to (tx-format specification:    *)
(* fields zeroed for signing; witnesses and cached metadata are outside    *)
(* the id preimage).  IdPreserved on the design = every field that comes   *)
(* back as a default is one of these.                                      *)
(***************************************************************************)
NotInId == {<<"top", "metadata">>, <<"top:Mint", "metadata">>, <<"top", "witnesses">>,
            <<"body:Script", "receipts_root">>,
            <<"in:CoinSigned", "tx_pointer">>, <<"in:CoinPredicate", "tx_pointer">>, <<"in:CoinPredicate", "predicate_gas_used">>,
            <<"in:Contract", "utxo_id">>, <<"in:Contract", "balance_root">>, <<"in:Contract", "state_root">>, <<"in:Contract", "tx_pointer">>,
            <<"in:MessageCoinPredicate", "predicate_gas_used">>, <<"in:MessageDataPredicate", "predicate_gas_used">>,
            <<"out:Contract", "balance_root">>, <<"out:Contract", "state_root">>,
            <<"out:Change", "amount">>,
            <<"out:Variable", "to">>, <<"out:Variable", "amount">>, <<"out:Variable", "asset_id">>}
DefaultedAreOutsideId == \A vt \in ComponentTypes : \A i \in 1..Len(Fields(vt)) :
                            Fields(vt)[i].c = "default" => <<vt, Fields(vt)[i].n>> \in NotInId
\* what the context restores hangs on a kept field of the same component (utxo id, nonce) or is the mint pointer
RestoredHaveAnchor == \A vt \in ComponentTypes :
    (\E i \in 1..Len(Fields(vt)) : Fields(vt)[i].c = "ctx") =>
        (vt = "body:Mint" \/ \E j \in 1..Len(Fields(vt)) : Fields(vt)[j].c = "keep" /\ Fields(vt)[j].n \in {"utxo_id", "nonce"})

(***************************************************************************)
(* Field maps.  A transaction is                                           *)
(*  [kind, top, body, inputs: Seq([v, f]), outputs: Seq([v, f])]           *)
(* with f a function field name -> value (strings: decimal numbers, hex    *)
(* bytes, "#len:digest" for long byte strings).                            *)
(***************************************************************************)
RefsOf(vt, f) == LET T == Fields(vt)
                     S == SelectSeq(T, LAMBDA x : x.c = "reg")
                 IN [i \in 1..Len(S) |-> [ks |-> S[i].ks, v |-> f[S[i].n]]]
RECURSIVE RefsOfList(_, _)
RefsOfList(pre, s) == IF Len(s) = 0 THEN <<>> ELSE RefsOf(pre \o Head(s).v, Head(s).f) \o RefsOfList(pre, Tail(s))
\* traversal order = declaration order: chargeable transactions are <body, policies, inputs, outputs,
\* witnesses>; mint is <tx pointer, input contract, output contract, amount, asset, gas price>
RegRefs(tx) ==
    IF tx.kind = "Mint"
    THEN RefsOfList("in:", tx.inputs) \o RefsOfList("out:", tx.outputs) \o RefsOf("body:Mint", tx.body)
    ELSE RefsOf("body:" \o tx.kind, tx.body) \o RefsOfList("in:", tx.inputs) \o RefsOfList("out:", tx.outputs)

\* the default of a number is 0; the default of a fixed-size byte value is all zero bytes of the same size
IsDefaultRepr(x, like) == x = "0" \/ (Len(x) >= 2 /\ SubSeq(x, 1, 1) # "#" /\ IsZero(x) /\ Len(x) = Len(like))
FieldOk(e, o, d) ==
    CASE e.c \in {"keep", "reg", "ctx"} -> d[e.n] = o[e.n]
      [] e.c = "default"               -> IsDefaultRepr(d[e.n], o[e.n])
CompOk(vt, o, d) == /\ DOMAIN o = Names(vt)
                    /\ DOMAIN d = Names(vt)
                    /\ \A i \in 1..Len(Fields(vt)) : FieldOk(Fields(vt)[i], o, d)
ListOk(pre, O, Dd) == /\ Len(Dd) = Len(O)
                      /\ \A i \in 1..Len(O) : Dd[i].v = O[i].v /\ CompOk(pre \o O[i].v, O[i].f, Dd[i].f)

\* NonSkippedEqual /\ SkippedRestoredOrDefault for one (original, decompressed) pair
FieldsOk(o, d) == /\ o.kind \in TxKinds
                  /\ d.kind = o.kind
                  /\ CompOk(TopType(o.kind), o.top, d.top)
                  /\ CompOk("body:" \o o.kind, o.body, d.body)
                  /\ ListOk("in:", o.inputs, d.inputs)
                  /\ ListOk("out:", o.outputs, d.outputs)
NonSkippedEqual(o, d) == FieldsOk(o, d)
SkippedRestoredOrDefault(o, d) == FieldsOk(o, d)
IdPreserved(idOrig, idDec) == idDec = idOrig

(***************************************************************************)
(* Registry design properties                                              *)
(***************************************************************************)
TableOk(t) == /\ Writable(t.next)
              /\ \A k \in DOMAIN t.map : Writable(k)
              /\ \A k1, k2 \in DOMAIN t.map : t.map[k1] = t.map[k2] => k1 = k2        \* one key per value
RegistryOk(reg) == \A ks \in Keyspaces : TableOk(reg[ks]) /\ ~Holds(reg[ks], DefaultOf(ks))
\* every key handed out for a transaction still denotes its value when the transaction is decompressed
CallsResolve(reg, calls) == \A i \in 1..Len(calls) :
    Resolvable(reg, calls[i].ks, calls[i].k) /\ Resolve(reg, calls[i].ks, calls[i].k) = calls[i].v
=============================================================================
