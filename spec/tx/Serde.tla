------------------------------- MODULE Serde -------------------------------
(***************************************************************************)
(* C06 - serde formats of fuel-tx protocol types.                          *)
(*                                                                         *)
(* Three layers:                                                           *)
(*  1. EXACT model of the hand-written serde of `Policies` (fuel-tx        *)
(*     transaction/policies.rs, PR 878): the struct is <bits, values>;     *)
(*     `values` has two layouts selected by the bit pattern:               *)
(*       legacy  - no policy beyond the first four (Tip, WitnessLimit,     *)
(*                 Maturity, MaxFee) is set: a FIXED tuple of the first    *)
(*                 four slots, set or not (what releases before the        *)
(*                 Expiration/Owner policies wrote);                       *)
(*       compact - otherwise: a variable-length sequence holding the value *)
(*                 of every SET policy in bit order.                       *)
(*     From it the three concrete wire forms are derived from the format   *)
(*     definitions (serde_json text model, postcard LEB128 varints,        *)
(*     bincode 1.x fixed-width little endian): SerJson, SerPostcard,       *)
(*     SerBincode; and the decoder DeWire with the law De(Ser(p)) = p.     *)
(*  2. EXACT model of `fuel_types::bytes::Bytes` ("a byte string"):        *)
(*     JSON array of numbers, postcard varint length + raw bytes, bincode   *)
(*     u64-LE length + raw bytes.                                          *)
(*  3. For everything else (transactions, receipts, consensus parameters,  *)
(*     gas cost tables) the spec contributes the ENUMERATION of the finite *)
(*     variant / version space (Cases) and the LAWS                        *)
(*        RoundTrip   De_f(Ser_f(v)) = v          for f in Formats         *)
(*        Reproducible Ser_f(De_f(Ser_f(v))) = Ser_f(v)                    *)
(*        Checksum    an upgrade transaction commits to                    *)
(*                    SHA256(postcard(consensus parameters))               *)
(*     - not an independent wire format of three third-party encodings.    *)
(***************************************************************************)
EXTENDS Naturals, Sequences, FiniteSets, TLC
LOCAL INSTANCE Hex
LOCAL INSTANCE VerifHash
LOCAL BN == INSTANCE BigNat

(***************************************************************************)
(* Policies: the abstract value                                            *)
(***************************************************************************)
PolicyNames == <<"Tip", "WitnessLimit", "Maturity", "MaxFee", "Expiration", "Owner">>
NPol == 6
AllMasks == 0..63
BitSet(bits, i) == (bits \div (2 ^ (i - 1))) % 2 = 1          \* i in 1..NPol ; bit i-1 of the mask
SetIdx(bits) == SelectSeq(<<1, 2, 3, 4, 5, 6>>, LAMBDA i : BitSet(bits, i))
PopCount(bits) == Len(SetIdx(bits))

\* a Policies value: mask + six slots (BigNat decimal strings); unset slots hold 0
\* (the public API - set / with_* - cannot build anything else)
WellFormed(p) == /\ p.bits \in AllMasks
                 /\ Len(p.vals) = NPol
                 /\ \A i \in 1..NPol : (~BitSet(p.bits, i)) => p.vals[i] = "0"

\* the layout rule: legacy iff only the first four policy bits are used
Legacy(bits) == \A i \in 5..NPol : ~BitSet(bits, i)

\* the `values` field as it goes on the wire
WireValues(p) ==
    IF Legacy(p.bits) THEN SubSeq(p.vals, 1, 4)
    ELSE LET ix == SetIdx(p.bits) IN [k \in 1..Len(ix) |-> p.vals[ix[k]]]
\* legacy = fixed-size tuple (no length on the wire); compact = sequence (length on the wire)
HasLengthPrefix(p) == ~Legacy(p.bits)

(***************************************************************************)
(* The decoder over the structured wire form <bits, values>.  "err" when   *)
(* the number of values does not fit the layout the mask selects.          *)
(***************************************************************************)
DeWire(bits, values) ==
    IF Legacy(bits)
    THEN IF Len(values) = 4 THEN [bits |-> bits, vals |-> values \o <<"0", "0">>] ELSE "err"
    ELSE IF Len(values) # PopCount(bits) THEN "err"
         ELSE LET ix == SetIdx(bits)
                  Rank(i) == Cardinality({j \in 1..i : BitSet(bits, j)})    \* position of slot i among the set ones
              IN [bits |-> bits,
                  vals |-> [i \in 1..NPol |-> IF BitSet(bits, i) THEN values[Rank(i)] ELSE "0"]]

RoundTripLaw(p) == DeWire(p.bits, WireValues(p)) = p

(***************************************************************************)
(* Concrete encodings                                                      *)
(***************************************************************************)
\* ---- JSON (serde_json; bitflags text form for the mask: names joined by " | ") ----
RECURSIVE JoinNames(_)
JoinNames(ix) == IF Len(ix) = 0 THEN ""
                 ELSE IF Len(ix) = 1 THEN PolicyNames[ix[1]]
                 ELSE PolicyNames[ix[1]] \o " | " \o JoinNames(Tail(ix))
JsonBits(bits) == JoinNames(SetIdx(bits))
\* numbers are carried as decimal strings (they exceed TLC's integers)
SerJson(p) == [bits |-> JsonBits(p.bits), values |-> WireValues(p)]

\* ---- postcard: every integer wider than a byte is an LEB128 varint ----
Byte(n) == BE(n, 1)
RECURSIVE Varint(_)
Varint(n) == IF BN!Lt(n, "128") THEN Byte(BN!ToNat(n))
             ELSE Byte(BN!ToNat(BN!Mod(n, "128")) + 128) \o Varint(BN!Div(n, "128"))
RECURSIVE CatMap(_, _)
CatMap(F(_), s) == IF Len(s) = 0 THEN "" ELSE F(Head(s)) \o CatMap(F, Tail(s))
SerPostcard(p) ==
    LET w == WireValues(p) IN
    Varint(BN!FromNat(p.bits))
      \o (IF HasLengthPrefix(p) THEN Varint(BN!FromNat(Len(w))) ELSE "")
      \o CatMap(Varint, w)

\* ---- bincode 1.x default options: fixed width, little endian, u64 lengths ----
RECURSIVE RevBytes(_)
RevBytes(h) == IF Len(h) = 0 THEN "" ELSE RevBytes(SubSeq(h, 3, Len(h))) \o SubSeq(h, 1, 2)
LE(n, w) == RevBytes(BN!ToHex(n, w))
LE64(n) == LE(n, 8)
SerBincode(p) ==
    LET w == WireValues(p) IN
    LE(BN!FromNat(p.bits), 4)
      \o (IF HasLengthPrefix(p) THEN LE64(BN!FromNat(Len(w))) ELSE "")
      \o CatMap(LE64, w)

SerFmt(fmt, p) == CASE fmt = "postcard" -> SerPostcard(p)
                    [] fmt = "bincode"  -> SerBincode(p)

(***************************************************************************)
(* Bytes: a byte string                                                    *)
(***************************************************************************)
BytesJson(h) == [i \in 1..BLen(h) |-> UnBENat(Slice(h, i - 1, 1))]
BytesPostcard(h) == Varint(BN!FromNat(BLen(h))) \o h
BytesBincode(h) == LE64(BN!FromNat(BLen(h))) \o h

(***************************************************************************)
(* Upgrade transactions: the commitment                                    *)
(***************************************************************************)
Checksum(postcardBytes) == SHA256(postcardBytes)
\* what metadata computation must answer for a (witness, committed checksum) pair whose
\* witness is a well-formed postcard encoding of consensus parameters
UpgradeOutcome(witness, committed) == IF SHA256(witness) = committed THEN "ok" ELSE "ChecksumMismatch"

(***************************************************************************)
(* The variant / version space, as data                                    *)
(***************************************************************************)
Formats == {"json", "postcard", "bincode"}
TxKinds == {"Script", "Create", "Mint", "Upgrade", "Upload", "Blob"}
ReceiptKinds == {"Call", "Return", "ReturnData", "Panic", "Revert", "Log", "LogData", "Transfer",
                 "TransferOut", "ScriptResult", "MessageOut", "Mint", "Burn"}
CPVersions == {"V1", "V2"}
ScriptParamVersions == {"V1", "V2"}
GasVersions == {"V1", "V2", "V3", "V4", "V5", "V6", "V7"}

TxCases      == {[type |-> "Transaction", kind |-> k] : k \in TxKinds}
ReceiptCases == {[type |-> "Receipt", kind |-> k] : k \in ReceiptKinds}
CPCases      == {[type |-> "ConsensusParameters", kind |-> v \o "/script" \o s \o "/gas" \o g] :
                    v \in CPVersions, s \in ScriptParamVersions, g \in GasVersions}
GasCases     == {[type |-> "GasCosts", kind |-> g] : g \in GasVersions}
PolicyCases  == {[type |-> "Policies", kind |-> IF Legacy(b) THEN "legacy" ELSE "compact"] : b \in AllMasks}
Cases == TxCases \cup ReceiptCases \cup CPCases \cup GasCases \cup PolicyCases

\* the laws over one observed round trip (orig/back are projections of the value before / after,
\* ser/reser the encoding and the re-encoding of the decoded value)
RoundTripObserved(orig, back, eq) == eq /\ back = orig
ReproducibleObserved(ser, reser) == reser = ser
=============================================================================
