------------------------------ MODULE Canonical ------------------------------
(***************************************************************************)
(* The canonical ("wire") encoding of Fuel protocol values as an algebra   *)
(* over SCHEMAS-AS-VALUES.  Written from the transaction-format            *)
(* specification (fuel-specs tx-format, "Serialization"):                  *)
(*                                                                         *)
(*  - every field occupies a multiple of 8 bytes;                          *)
(*  - unsigned integers of 8/16/32/64 bits are big-endian at their native  *)
(*    width and LEFT-padded with zero bytes to 8;                          *)
(*  - fixed byte arrays are written as they are and RIGHT-padded with zero *)
(*    bytes to a multiple of 8;                                            *)
(*  - a byte vector contributes an 8-byte big-endian LENGTH where the      *)
(*    field stands and its bytes, right-padded to a multiple of 8, in the  *)
(*    variable-size region;                                                *)
(*  - a vector of T contributes an 8-byte COUNT where it stands and the    *)
(*    complete encodings of its elements, in order, in the variable-size   *)
(*    region;                                                              *)
(*  - a structure is: (optional 8-byte type prefix) the fixed parts of all *)
(*    its fields in declaration order, THEN the variable parts of all its  *)
(*    fields in declaration order;                                         *)
(*  - a tagged union is an 8-byte discriminant followed by the chosen      *)
(*    alternative laid out like a structure (a variant may declare some    *)
(*    fields of the shared wire structure ABSENT: they are written as      *)
(*    zero / empty and are not part of the value);                         *)
(*  - an option set ("policies") is a bit mask word followed, in the       *)
(*    variable region, by one 8-byte word per SET bit in bit order;        *)
(*  - fields marked skip are not part of the format at all.                *)
(*                                                                         *)
(* Values: numbers are BigNat decimal strings, bytes are lowercase hex     *)
(* strings, vectors are sequences, structures are records, union values    *)
(* are records with a field `kind`; option sets are [mask, vals].          *)
(*                                                                         *)
(* Operators: Enc, SizeS/SizeD/Size (arithmetic, independent of Enc),      *)
(* OffsetOf(path) (position of a field's bytes), Layout (every field       *)
(* boundary, used to enumerate offsets and to generate adversarial         *)
(* mutations), Strip (the value minus what the format leaves out),         *)
(* ZeroOf.                                                                 *)
(***************************************************************************)
EXTENDS Naturals, Sequences, TLC
LOCAL INSTANCE Hex
LOCAL BN == INSTANCE BigNat

\* ------------------------------ schema constructors ------------------------------
U8  == [k |-> "u8"]
U16 == [k |-> "u16"]
U32 == [k |-> "u32"]
U64 == [k |-> "u64"]
B(n) == [k |-> "bytes", n |-> n]
VecBytes == [k |-> "vecbytes"]
Vec(T) == [k |-> "vec", elem |-> T]
F(n, t) == [n |-> n, t |-> t, skip |-> FALSE]
SkipF(n) == [n |-> n, t |-> [k |-> "skip"], skip |-> TRUE]
Struct(fs) == [k |-> "struct", pre |-> <<>>, fs |-> fs]
StructP(p, fs) == [k |-> "struct", pre |-> <<p>>, fs |-> fs]
V(name, disc, t) == [name |-> name, disc |-> disc, t |-> t, absent |-> {}]
VA(name, disc, t, absent) == [name |-> name, disc |-> disc, t |-> t, absent |-> absent]
Enum(vs) == [k |-> "enum", vs |-> vs]
OptSet(names, width) == [k |-> "optset", names |-> names, w |-> width]

ScalarKinds == {"u8", "u16", "u32", "u64"}
Width(T) == CASE T.k = "u8" -> 1 [] T.k = "u16" -> 2 [] T.k = "u32" -> 4 [] T.k = "u64" -> 8
WORD == 8

HasF(r, f) == f \in DOMAIN r
BitSet(mask, i) == (mask \div (2 ^ i)) % 2 = 1          \* bit i (0 = least significant) of a small integer
RECURSIVE PopCount(_, _)
PopCount(mask, n) == IF n = 0 THEN 0 ELSE (IF BitSet(mask, n - 1) THEN 1 ELSE 0) + PopCount(mask, n - 1)
RECURSIVE Rank(_, _)                                     \* number of set bits strictly below bit i
Rank(mask, i) == IF i = 0 THEN 0 ELSE (IF BitSet(mask, i - 1) THEN 1 ELSE 0) + Rank(mask, i - 1)

Variant(T, kind) == LET i == CHOOSE i \in 1..Len(T.vs) : T.vs[i].name = kind IN T.vs[i]
IsVariant(T, kind) == \E i \in 1..Len(T.vs) : T.vs[i].name = kind
FieldIdx(T, name) == CHOOSE i \in 1..Len(T.fs) : T.fs[i].n = name
HasField(T, name) == \E i \in 1..Len(T.fs) : T.fs[i].n = name

\* ------------------------------ zero values ------------------------------
RECURSIVE ZeroOf(_)
ZeroOf(T) ==
    CASE T.k \in ScalarKinds -> "0"
      [] T.k = "bytes"    -> Zeros(T.n)
      [] T.k = "vecbytes" -> ""
      [] T.k = "vec"      -> <<>>
      [] T.k = "struct"   -> [nm \in {T.fs[i].n : i \in {j \in 1..Len(T.fs) : ~T.fs[j].skip}} |->
                                 ZeroOf(T.fs[FieldIdx(T, nm)].t)]
      [] T.k = "optset"   -> [mask |-> 0, vals |-> [i \in 1..Len(T.names) |-> "0"]]

\* the value of field f of a structure value v laid out as variant a (absent fields read as zero)
FieldVal(f, v, absent) == IF f.n \in absent THEN ZeroOf(f.t) ELSE v[f.n]

\* ------------------------------ sizes (arithmetic) ------------------------------
RECURSIVE SizeS(_, _), SizeD(_, _), SumS(_, _, _, _), SumD(_, _, _, _), SumElems(_, _, _)
Size(T, v) == SizeS(T, v) + SizeD(T, v)

SumS(fs, v, absent, i) == IF i > Len(fs) THEN 0
    ELSE (IF fs[i].skip THEN 0 ELSE SizeS(fs[i].t, FieldVal(fs[i], v, absent))) + SumS(fs, v, absent, i + 1)
SumD(fs, v, absent, i) == IF i > Len(fs) THEN 0
    ELSE (IF fs[i].skip THEN 0 ELSE SizeD(fs[i].t, FieldVal(fs[i], v, absent))) + SumD(fs, v, absent, i + 1)
SumElems(T, v, n) == IF n = 0 THEN 0 ELSE SumElems(T, v, n - 1) + Size(T, v[n])   \* first n elements

SizeS(T, v) ==
    CASE T.k \in ScalarKinds -> WORD
      [] T.k = "bytes"    -> Aligned8(T.n)
      [] T.k = "vecbytes" -> WORD
      [] T.k = "vec"      -> WORD
      [] T.k = "struct"   -> WORD * Len(T.pre) + SumS(T.fs, v, {}, 1)
      [] T.k = "enum"     -> LET a == Variant(T, v.kind) IN WORD + SumS(a.t.fs, v, a.absent, 1)
      [] T.k = "optset"   -> WORD
SizeD(T, v) ==
    CASE T.k \in ScalarKinds -> 0
      [] T.k = "bytes"    -> 0
      [] T.k = "vecbytes" -> Aligned8(BLen(v))
      [] T.k = "vec"      -> SumElems(T.elem, v, Len(v))
      [] T.k = "struct"   -> SumD(T.fs, v, {}, 1)
      [] T.k = "enum"     -> LET a == Variant(T, v.kind) IN SumD(a.t.fs, v, a.absent, 1)
      [] T.k = "optset"   -> WORD * PopCount(v.mask, Len(T.names))

\* ------------------------------ encoding ------------------------------
Scalar(T, v) == Zeros(WORD - Width(T)) \o BEBig(v, Width(T))

RECURSIVE EncS(_, _), EncD(_, _), CatS(_, _, _, _), CatD(_, _, _, _), CatElems(_, _, _), CatVals(_, _, _)
Enc(T, v) == EncS(T, v) \o EncD(T, v)

CatS(fs, v, absent, i) == IF i > Len(fs) THEN ""
    ELSE (IF fs[i].skip THEN "" ELSE EncS(fs[i].t, FieldVal(fs[i], v, absent))) \o CatS(fs, v, absent, i + 1)
CatD(fs, v, absent, i) == IF i > Len(fs) THEN ""
    ELSE (IF fs[i].skip THEN "" ELSE EncD(fs[i].t, FieldVal(fs[i], v, absent))) \o CatD(fs, v, absent, i + 1)
CatElems(T, v, i) == IF i > Len(v) THEN "" ELSE Enc(T, v[i]) \o CatElems(T, v, i + 1)
CatVals(T, v, i) == IF i > Len(T.names) THEN ""
    ELSE (IF BitSet(v.mask, i - 1) THEN BEBig(v.vals[i], WORD) ELSE "") \o CatVals(T, v, i + 1)

EncS(T, v) ==
    CASE T.k \in ScalarKinds -> Scalar(T, v)
      [] T.k = "bytes"    -> Pad8(v)
      [] T.k = "vecbytes" -> BE(BLen(v), WORD)
      [] T.k = "vec"      -> BE(Len(v), WORD)
      [] T.k = "struct"   -> (IF Len(T.pre) = 1 THEN BE(T.pre[1], WORD) ELSE "") \o CatS(T.fs, v, {}, 1)
      [] T.k = "enum"     -> LET a == Variant(T, v.kind) IN BE(a.disc, WORD) \o CatS(a.t.fs, v, a.absent, 1)
      [] T.k = "optset"   -> Zeros(WORD - T.w) \o BE(v.mask, T.w)
EncD(T, v) ==
    CASE T.k \in ScalarKinds -> ""
      [] T.k = "bytes"    -> ""
      [] T.k = "vecbytes" -> Pad8(v)
      [] T.k = "vec"      -> CatElems(T.elem, v, 1)
      [] T.k = "struct"   -> CatD(T.fs, v, {}, 1)
      [] T.k = "enum"     -> LET a == Variant(T, v.kind) IN CatD(a.t.fs, v, a.absent, 1)
      [] T.k = "optset"   -> CatVals(T, v, 1)

\* well-formedness of a value against a schema (widths, array lengths, field presence)
RECURSIVE WF(_, _)
WF(T, v) ==
    CASE T.k \in ScalarKinds -> BN!Lt(v, BN!Shl("1", 8 * Width(T)))
      [] T.k = "bytes"    -> BLen(v) = T.n /\ Len(v) = 2 * T.n
      [] T.k = "vecbytes" -> Len(v) % 2 = 0
      [] T.k = "vec"      -> \A i \in 1..Len(v) : WF(T.elem, v[i])
      [] T.k = "struct"   -> \A i \in 1..Len(T.fs) : T.fs[i].skip \/ (HasF(v, T.fs[i].n) /\ WF(T.fs[i].t, v[T.fs[i].n]))
      [] T.k = "enum"     -> IsVariant(T, v.kind) /\
                             LET a == Variant(T, v.kind) IN
                             \A i \in 1..Len(a.t.fs) : a.t.fs[i].skip \/ a.t.fs[i].n \in a.absent
                                                       \/ (HasF(v, a.t.fs[i].n) /\ WF(a.t.fs[i].t, v[a.t.fs[i].n]))
      [] T.k = "optset"   -> v.mask < 2 ^ Len(T.names) /\ Len(v.vals) = Len(T.names)
                             /\ \A i \in 1..Len(T.names) : (~BitSet(v.mask, i - 1)) => v.vals[i] = "0"
      [] T.k = "skip"     -> TRUE

\* ------------------------------ what decoding can give back ------------------------------
\* The value minus the fields the format leaves out (skip fields).  decode(Enc(v)) must equal Strip(v).
RECURSIVE Strip(_, _)
StripFields(fs, v, absent) ==
    [nm \in {fs[i].n : i \in {j \in 1..Len(fs) : ~fs[j].skip /\ fs[j].n \notin absent}} |->
        Strip(fs[CHOOSE i \in 1..Len(fs) : fs[i].n = nm].t, v[nm])]
Strip(T, v) ==
    CASE T.k = "vec"    -> [i \in 1..Len(v) |-> Strip(T.elem, v[i])]
      [] T.k = "struct" -> StripFields(T.fs, v, {})
      [] T.k = "enum"   -> LET a == Variant(T, v.kind) IN [kind |-> v.kind] @@ StripFields(a.t.fs, v, a.absent)
      [] OTHER          -> v

\* ------------------------------ offsets ------------------------------
(* Loc(T, v, path, s, d): byte position addressed by `path` inside an encoding in which the   *)
(* fixed part of (T, v) starts at s and its variable part at d.  The position of a scalar /   *)
(* fixed array / structure / union is where its fixed part starts; the position of a byte     *)
(* vector, of a vector or of an option set is where its DATA start; the position of a vector  *)
(* ELEMENT is where that element's encoding starts; path elements are field names             *)
(* (structures, unions, option sets) or 0-based indexes (vectors).                            *)
RECURSIVE Loc(_, _, _, _, _), LocField(_, _, _, _, _, _, _)
LocField(fs, v, absent, path, s, d, pre) ==
    LET i == CHOOSE i \in 1..Len(fs) : fs[i].n = Head(path)
        s2 == s + pre + SumS(SubSeq(fs, 1, i - 1), v, absent, 1)
        d2 == d + SumD(SubSeq(fs, 1, i - 1), v, absent, 1)
    IN Loc(fs[i].t, FieldVal(fs[i], v, absent), Tail(path), s2, d2)
Loc(T, v, path, s, d) ==
    IF path = <<>> THEN (IF T.k \in {"vecbytes", "vec", "optset"} THEN d ELSE s)
    ELSE CASE T.k = "struct" -> LocField(T.fs, v, {}, path, s, d, WORD * Len(T.pre))
           [] T.k = "enum"   -> LET a == Variant(T, v.kind) IN LocField(a.t.fs, v, a.absent, path, s, d, WORD)
           [] T.k = "vec"    -> LET i  == Head(path)                     \* 0-based
                                    e  == d + SumElems(T.elem, v, i)       \* where element i starts
                                IN IF Tail(path) = <<>> THEN e
                                   ELSE Loc(T.elem, v[i + 1], Tail(path), e, e + SizeS(T.elem, v[i + 1]))
           [] T.k = "optset" -> LET i == CHOOSE i \in 1..Len(T.names) : T.names[i] = Head(path)
                                IN d + WORD * Rank(v.mask, i - 1)
OffsetOf(T, v, path) == Loc(T, v, path, 0, SizeS(T, v))
\* does `path` address something that exists in (T, v)?
RECURSIVE PathOk(_, _, _)
PathOk(T, v, path) ==
    IF path = <<>> THEN TRUE
    ELSE CASE T.k = "struct" -> HasField(T, Head(path)) /\ ~T.fs[FieldIdx(T, Head(path))].skip
                                /\ PathOk(T.fs[FieldIdx(T, Head(path))].t, v[Head(path)], Tail(path))
           [] T.k = "enum"   -> LET a == Variant(T, v.kind) IN
                                HasField(a.t, Head(path)) /\ Head(path) \notin a.absent
                                /\ ~a.t.fs[FieldIdx(a.t, Head(path))].skip
                                /\ PathOk(a.t.fs[FieldIdx(a.t, Head(path))].t, v[Head(path)], Tail(path))
           [] T.k = "vec"    -> Head(path) \in 0..(Len(v) - 1) /\ PathOk(T.elem, v[Head(path) + 1], Tail(path))
           [] T.k = "optset" -> Len(path) = 1 /\ (\E i \in 1..Len(T.names) : T.names[i] = Head(path) /\ BitSet(v.mask, i - 1))
           [] OTHER -> FALSE

(* Layout(T, v): every boundary of the encoding, as a sequence of entries                        *)
(*   [p |-> path, off, len, role, abs]                                                          *)
(* role: "disc" (type prefix / discriminant word), a scalar kind, "bytes", "len" (length word   *)
(* of a byte vector), "data" (its padded bytes; n = unpadded length), "count" (count word of a  *)
(* vector), "elems" (the element region), "elem" (one whole element), "mask" / "vals" (option   *)
(* set bit mask / value region), "struct" / "union" (a nested structure's / union's fixed       *)
(* part).  abs = the field is declared absent by the union variant.                             *)
RECURSIVE Lay(_, _, _, _, _, _), LayFields(_, _, _, _, _, _, _, _), LayElems(_, _, _, _, _), LayVals(_, _, _, _, _)
E(p, off, len, role, n, abs) == [p |-> p, off |-> off, len |-> len, role |-> role, n |-> n, abs |-> abs]
LayFields(fs, v, absent, p, s, d, i, abs) ==
    IF i > Len(fs) THEN <<>>
    ELSE IF fs[i].skip THEN LayFields(fs, v, absent, p, s, d, i + 1, abs)
    ELSE LET fv == FieldVal(fs[i], v, absent)
             a2 == abs \/ fs[i].n \in absent
         IN Lay(fs[i].t, fv, Append(p, fs[i].n), s, d, a2)
            \o LayFields(fs, v, absent, p, s + SizeS(fs[i].t, fv), d + SizeD(fs[i].t, fv), i + 1, abs)
LayElems(T, v, p, d, i) ==
    IF i > Len(v) THEN <<>>
    ELSE LET sz == Size(T, v[i]) IN
         <<E(Append(p, i - 1), d, sz, "elem", 0, FALSE)>>
         \o Lay(T, v[i], Append(p, i - 1), d, d + SizeS(T, v[i]), FALSE)
         \o LayElems(T, v, p, d + sz, i + 1)
LayVals(T, v, p, d, i) ==
    IF i > Len(T.names) THEN <<>>
    ELSE IF BitSet(v.mask, i - 1)
         THEN <<E(Append(p, T.names[i]), d, WORD, "optval", i - 1, FALSE)>> \o LayVals(T, v, p, d + WORD, i + 1)
         ELSE LayVals(T, v, p, d, i + 1)
Lay(T, v, p, s, d, abs) ==
    CASE T.k \in ScalarKinds -> <<E(p, s, WORD, T.k, 0, abs)>>
      [] T.k = "bytes"    -> <<E(p, s, Aligned8(T.n), "bytes", T.n, abs)>>
      [] T.k = "vecbytes" -> <<E(p, s, WORD, "len", BLen(v), abs), E(p, d, Aligned8(BLen(v)), "data", BLen(v), abs)>>
      [] T.k = "vec"      -> <<E(p, s, WORD, "count", Len(v), abs), E(p, d, SizeD(T, v), "elems", Len(v), abs)>>
                             \o LayElems(T.elem, v, p, d, 1)
      [] T.k = "struct"   -> (IF p = <<>> THEN <<>> ELSE <<E(p, s, SizeS(T, v), "struct", 0, abs)>>)
                             \o (IF Len(T.pre) = 1 THEN <<E(p, s, WORD, "disc", T.pre[1], abs)>> ELSE <<>>)
                             \o LayFields(T.fs, v, {}, p, s + WORD * Len(T.pre), d, 1, abs)
      [] T.k = "enum"     -> LET a == Variant(T, v.kind) IN
                             (IF p = <<>> THEN <<>> ELSE <<E(p, s, SizeS(T, v), "union", 0, abs)>>)
                             \o <<E(p, s, WORD, "disc", a.disc, abs)>>
                             \o LayFields(a.t.fs, v, a.absent, p, s + WORD, d, 1, abs)
      [] T.k = "optset"   -> <<E(p, s, WORD, "mask", v.mask, abs), E(p, d, SizeD(T, v), "vals", 0, abs)>>
                             \o LayVals(T, v, p, d, 1)
Layout(T, v) == Lay(T, v, <<>>, 0, SizeS(T, v), FALSE)

\* roles whose position the library can be asked for
Addressable == ScalarKinds \cup {"bytes", "data", "elems", "elem", "struct", "union", "vals", "optval"}
=============================================================================
