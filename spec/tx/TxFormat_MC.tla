---------------------------- MODULE TxFormat_MC ----------------------------
(***************************************************************************)
(* Leg M + generator for Leg R of C01 / C04 / C03 and mutant generator of  *)
(* C02.  TLC ENUMERATES the finite shape space of the wire format          *)
(* (variants x policy masks x byte-vector length classes mod 8 x scalar    *)
(* boundary profiles), checks the design-level properties of the encoding  *)
(* algebra on every shape, and prints for each shape the abstract value    *)
(* and what the specification predicts for it (REPLAY lines).              *)
(*                                                                         *)
(* State graph: root -> (family, chunk) -> (family, item) [-> mutation].   *)
(* The expensive values live in the state (`cur`), so each invariant is a  *)
(* cheap predicate over it.                                                *)
(***************************************************************************)
EXTENDS TxId, Json, FiniteSets
H == INSTANCE Hex
BN == INSTANCE BigNat
CONSTANTS Mode,      \* "C01" | "C04" | "C03" | "C02"
          Thorough   \* BOOLEAN
VARIABLES st, cur
vars == <<st, cur>>

\* ------------------------------ patterned field values ------------------------------
Ramp == "000102030405060708090a0b0c0d0e0f101112131415161718191a1b1c1d1e1f202122232425262728292a2b2c2d2e2f303132333435363738393a3b3c3d3e3f404142434445464748494a4b4c4d4e4f505152535455565758595a5b5c5d5e5f606162636465666768696a6b6c6d6e6f707172737475767778797a7b7c7d7e7f808182838485868788898a8b8c8d8e8f909192939495969798999a9b9c9d9e9fa0a1a2a3a4a5a6a7a8a9aaabacadaeafb0b1b2b3b4b5b6b7b8b9babbbcbdbebfc0c1c2c3c4c5c6c7c8c9cacbcccdcecfd0d1d2d3d4d5d6d7d8d9dadbdcdddedfe0e1e2e3e4e5e6e7e8e9eaebecedeeeff0f1f2f3f4f5f6f7f8f9fafbfcfdfeff000102030405060708090a0b0c0d0e0f101112131415161718191a1b1c1d1e1f202122232425262728292a2b2c2d2e2f303132333435363738393a3b3c3d3e3f404142434445464748494a4b4c4d4e4f505152535455565758595a5b5c5d5e5f606162636465666768696a6b6c6d6e6f707172737475767778797a7b7c7d7e7f808182838485868788898a8b8c8d8e8f909192939495969798999a9b9c9d9e9fa0a1a2a3a4a5a6a7a8a9aaabacadaeafb0b1b2b3b4b5b6b7b8b9babbbcbdbebfc0c1c2c3c4c5c6c7c8c9cacbcccdcecfd0d1d2d3d4d5d6d7d8d9dadbdcdddedfe0e1e2e3e4e5e6e7e8e9eaebecedeeeff0f1f2f3f4f5f6f7f8f9fafbfcfdfeff"
FF64 == "ffffffffffffffffffffffffffffffffffffffffffffffffffffffffffffffffffffffffffffffffffffffffffffffffffffffffffffffffffffffffffffffff"
Pat(s, n) == SubSeq(Ramp, 2 * (s % 256) + 1, 2 * ((s % 256) + n))      \* n bytes s, s+1, ... (n <= 256)
\* profile p: 0 all zero, 1 one, 2 maximal, 3 distinct bytes (detects swapped / shifted fields)
BV(n, p, s) == CASE p = 0 -> H!Zeros(n) [] p = 2 -> SubSeq(FF64, 1, 2 * n) [] OTHER -> Pat(s, n)
MaxOf(w) == BN!Sub(BN!Shl("1", 8 * w), "1")
SV(w, p, s) == CASE p = 0 -> "0" [] p = 1 -> "1" [] p = 2 -> MaxOf(w) [] OTHER -> BN!FromHex(Pat(s, w))
L6 == <<0, 1, 7, 8, 9, 16>>
L5 == <<1, 7, 8, 9, 16>>
InKinds  == <<"CoinSigned", "CoinPredicate", "Contract", "MessageCoinSigned", "MessageCoinPredicate",
              "MessageDataSigned", "MessageDataPredicate">>
OutKinds == <<"Coin", "Contract", "Change", "Variable", "ContractCreated">>
TxKinds  == <<"Script", "Create", "Upgrade", "Upload", "Blob">>
RcKinds  == <<"Call", "Return", "ReturnData", "Panic", "Revert", "Log", "LogData", "Transfer", "TransferOut",
              "ScriptResult", "MessageOut", "Mint", "Burn">>

MkUtxo(s, p) == [tx_id |-> BV(32, p, s), output_index |-> SV(2, p, s + 32)]
MkPtr(s, p)  == [block_height |-> SV(4, p, s + 40), tx_index |-> SV(2, p, s + 44)]
MkInput(kind, s, p, ld, lp, lpd) ==
    CASE kind = "CoinSigned" ->
           [kind |-> kind, utxo_id |-> MkUtxo(s, p), owner |-> BV(32, p, s + 50), amount |-> SV(8, p, s + 90),
            asset_id |-> BV(32, p, s + 100), tx_pointer |-> MkPtr(s, p), witness_index |-> SV(2, p, s + 140)]
      [] kind = "CoinPredicate" ->
           [kind |-> kind, utxo_id |-> MkUtxo(s, p), owner |-> BV(32, p, s + 50), amount |-> SV(8, p, s + 90),
            asset_id |-> BV(32, p, s + 100), tx_pointer |-> MkPtr(s, p), predicate_gas_used |-> SV(8, p, s + 150),
            predicate |-> Pat(s + 160, lp), predicate_data |-> Pat(s + 200, lpd)]
      [] kind = "Contract" ->
           [kind |-> kind, utxo_id |-> MkUtxo(s, p), balance_root |-> BV(32, p, s + 50), state_root |-> BV(32, p, s + 90),
            tx_pointer |-> MkPtr(s, p), contract_id |-> BV(32, p, s + 130)]
      [] kind = "MessageCoinSigned" ->
           [kind |-> kind, sender |-> BV(32, p, s), recipient |-> BV(32, p, s + 40), amount |-> SV(8, p, s + 80),
            nonce |-> BV(32, p, s + 90), witness_index |-> SV(2, p, s + 130)]
      [] kind = "MessageCoinPredicate" ->
           [kind |-> kind, sender |-> BV(32, p, s), recipient |-> BV(32, p, s + 40), amount |-> SV(8, p, s + 80),
            nonce |-> BV(32, p, s + 90), predicate_gas_used |-> SV(8, p, s + 140),
            predicate |-> Pat(s + 160, lp), predicate_data |-> Pat(s + 200, lpd)]
      [] kind = "MessageDataSigned" ->
           [kind |-> kind, sender |-> BV(32, p, s), recipient |-> BV(32, p, s + 40), amount |-> SV(8, p, s + 80),
            nonce |-> BV(32, p, s + 90), witness_index |-> SV(2, p, s + 130), data |-> Pat(s + 220, ld)]
      [] kind = "MessageDataPredicate" ->
           [kind |-> kind, sender |-> BV(32, p, s), recipient |-> BV(32, p, s + 40), amount |-> SV(8, p, s + 80),
            nonce |-> BV(32, p, s + 90), predicate_gas_used |-> SV(8, p, s + 140), data |-> Pat(s + 220, ld),
            predicate |-> Pat(s + 160, lp), predicate_data |-> Pat(s + 200, lpd)]
MkOutput(kind, s, p) ==
    CASE kind = "Contract" -> [kind |-> kind, input_index |-> SV(2, p, s), balance_root |-> BV(32, p, s + 10),
                               state_root |-> BV(32, p, s + 50)]
      [] kind = "ContractCreated" -> [kind |-> kind, contract_id |-> BV(32, p, s + 10), state_root |-> BV(32, p, s + 50)]
      [] OTHER -> [kind |-> kind, to |-> BV(32, p, s + 10), amount |-> SV(8, p, s + 50), asset_id |-> BV(32, p, s + 60)]
\* maturity (index 3) and expiration (index 5) are block heights, owner (6) an input index: u32 domain
PolMax(i) == IF i \in {3, 5, 6} THEN U32Max ELSE U64Max
PolVal(i, p) == CASE p = 0 -> "0" [] p = 1 -> "1" [] p = 2 -> PolMax(i)
                  [] OTHER -> BN!FromHex(Pat(16 * i, IF i \in {3, 5, 6} THEN 4 ELSE 8))
MkPol(mask, p) == [mask |-> mask, vals |-> [i \in 1..6 |-> IF BitSet(mask, i - 1) THEN PolVal(i, p) ELSE "0"]]
MkWits(lens) == [i \in 1..Len(lens) |-> Pat(30 * i, lens[i])]
MkSlots(n, p) == [i \in 1..n |-> [key |-> BV(32, p, 20 * i), value |-> BV(32, p, 20 * i + 100)]]
MkProof(n, p) == [i \in 1..n |-> BV(32, p, 7 + 40 * i)]

\* body: sequence of extra parameters per kind
MkTx(kind, p, ls, lsd, nslots, nproof, purpose, pol, ins, outs, wits) ==
    LET common == [policies |-> pol, inputs |-> ins, outputs |-> outs, witnesses |-> wits] IN
    CASE kind = "Script" -> [kind |-> kind, script_gas_limit |-> SV(8, p, 1), receipts_root |-> BV(32, p, 9),
                             script |-> Pat(64, ls), script_data |-> Pat(128, lsd)] @@ common
      [] kind = "Create" -> [kind |-> kind, bytecode_witness_index |-> (IF p = 3 THEN "0" ELSE SV(2, p, 3)), salt |-> BV(32, p, 77),
                             storage_slots |-> MkSlots(nslots, IF p \in {0, 2} /\ nslots > 1 THEN 3 ELSE p)] @@ common
      [] kind = "Upgrade" -> [kind |-> kind,
                              purpose |-> IF purpose = 0
                                          THEN [kind |-> "ConsensusParameters", witness_index |-> SV(2, p, 5), checksum |-> BV(32, p, 33)]
                                          ELSE [kind |-> "StateTransition", root |-> BV(32, p, 99)]] @@ common
      [] kind = "Upload" -> [kind |-> kind, root |-> BV(32, p, 11), witness_index |-> SV(2, p, 51),
                             subsection_index |-> SV(2, p, 61), subsections_number |-> SV(2, p, 71),
                             proof_set |-> MkProof(nproof, p)] @@ common
      [] kind = "Blob" -> [kind |-> kind, id |-> BV(32, p, 123), witness_index |-> SV(2, p, 200)] @@ common
MkMint(p) == [kind |-> "Mint", tx_pointer |-> MkPtr(3, p),
              input_contract |-> [utxo_id |-> MkUtxo(60, p), balance_root |-> BV(32, p, 110), state_root |-> BV(32, p, 150),
                                  tx_pointer |-> MkPtr(20, p), contract_id |-> BV(32, p, 190)],
              output_contract |-> [input_index |-> SV(2, p, 7), balance_root |-> BV(32, p, 17), state_root |-> BV(32, p, 57)],
              mint_amount |-> SV(8, p, 240), mint_asset_id |-> BV(32, p, 97), gas_price |-> SV(8, p, 248)]
\* a small default body around the part under study
Tx1(kind, p, pol, ins, outs, wits) == MkTx(kind, p, 9, 1, 1, 1, 1, pol, ins, outs, wits)
In1(k)  == MkInput(InKinds[k], 3 + 5 * k, 3, 9, 7, 1)
Out1(k) == MkOutput(OutKinds[k], 11 + 9 * k, 3)
Pol0 == MkPol(0, 3)

MkReceipt(kind, p) ==
    CASE kind = "Call" -> [kind |-> kind, id |-> BV(32, p, 1), to |-> BV(32, p, 41), amount |-> SV(8, p, 81), asset_id |-> BV(32, p, 91),
                           gas |-> SV(8, p, 131), param1 |-> SV(8, p, 141), param2 |-> SV(8, p, 151), pc |-> SV(8, p, 161), is |-> SV(8, p, 171)]
      [] kind = "Return" -> [kind |-> kind, id |-> BV(32, p, 1), val |-> SV(8, p, 41), pc |-> SV(8, p, 161), is |-> SV(8, p, 171)]
      [] kind = "ReturnData" -> [kind |-> kind, id |-> BV(32, p, 1), ptr |-> SV(8, p, 41), len |-> SV(8, p, 51), digest |-> BV(32, p, 61),
                                 pc |-> SV(8, p, 161), is |-> SV(8, p, 171), data |-> IF p = 0 THEN "none" ELSE Pat(5, p + 6)]
      [] kind = "Panic" -> [kind |-> kind, id |-> BV(32, p, 1), reason |-> SV(1, IF p = 2 THEN 1 ELSE p, 2), instruction |-> SV(4, p, 41),
                            pc |-> SV(8, p, 161), is |-> SV(8, p, 171), contract_id |-> IF p = 0 THEN "none" ELSE BV(32, p, 99)]
      [] kind = "Revert" -> [kind |-> kind, id |-> BV(32, p, 1), ra |-> SV(8, p, 41), pc |-> SV(8, p, 161), is |-> SV(8, p, 171)]
      [] kind = "Log" -> [kind |-> kind, id |-> BV(32, p, 1), ra |-> SV(8, p, 41), rb |-> SV(8, p, 51), rc |-> SV(8, p, 61), rd |-> SV(8, p, 71),
                          pc |-> SV(8, p, 161), is |-> SV(8, p, 171)]
      [] kind = "LogData" -> [kind |-> kind, id |-> BV(32, p, 1), ra |-> SV(8, p, 41), rb |-> SV(8, p, 51), ptr |-> SV(8, p, 61),
                              len |-> SV(8, p, 71), digest |-> BV(32, p, 81), pc |-> SV(8, p, 161), is |-> SV(8, p, 171),
                              data |-> IF p = 0 THEN "none" ELSE Pat(9, p + 6)]
      [] kind \in {"Transfer", "TransferOut"} ->
                         [kind |-> kind, id |-> BV(32, p, 1), to |-> BV(32, p, 41), amount |-> SV(8, p, 81), asset_id |-> BV(32, p, 91),
                          pc |-> SV(8, p, 161), is |-> SV(8, p, 171)]
      [] kind = "ScriptResult" -> [kind |-> kind,
                                   result |-> CASE p = 0 -> [kind |-> "Success"] [] p = 1 -> [kind |-> "Revert"] [] p = 2 -> [kind |-> "Panic"]
                                                [] OTHER -> [kind |-> "GenericFailure", value |-> SV(8, 3, 33)],
                                   gas_used |-> SV(8, p, 171)]
      [] kind = "MessageOut" -> [kind |-> kind, sender |-> BV(32, p, 1), recipient |-> BV(32, p, 41), amount |-> SV(8, p, 81),
                                 nonce |-> BV(32, p, 91), len |-> SV(8, p, 131), digest |-> BV(32, p, 141),
                                 data |-> IF p = 0 THEN "none" ELSE Pat(13, p + 6)]
      [] kind \in {"Mint", "Burn"} -> [kind |-> kind, sub_id |-> BV(32, p, 1), contract_id |-> BV(32, p, 41), val |-> SV(8, p, 81),
                                       pc |-> SV(8, p, 161), is |-> SV(8, p, 171)]

\* ------------------------------ families: NItems(f), Item(f, j) = [ty, v] ------------------------------
IT(ty, v) == [ty |-> ty, v |-> v]
D(j, base, m) == (j \div base) % m            \* mixed-radix digit

\* 1: small types
WitLens == <<0, 1, 7, 8, 9, 16, 31, 32, 33>>
N1 == 4 + 4 + 4 + 9 + 8 + 192
Item1(j) ==
    IF j < 4 THEN IT("UtxoId", MkUtxo(5, j))
    ELSE IF j < 8 THEN IT("TxPointer", MkPtr(5, j - 4))
    ELSE IF j < 12 THEN IT("StorageSlot", MkSlots(1, j - 8)[1])
    ELSE IF j < 21 THEN IT("Witness", Pat(40, WitLens[j - 12 + 1]))
    ELSE IF j < 29 THEN IT("UpgradePurpose", MkTx("Upgrade", D(j - 21, 1, 4), 0, 0, 0, 0, D(j - 21, 4, 2), Pol0, <<>>, <<>>, <<>>).purpose)
    ELSE IT("Policies", MkPol(D(j - 29, 1, 64), 1 + D(j - 29, 64, 3)))
\* 2: inputs, every variant x every length class of every byte vector (incl. the empty ones)
N2 == 4 + 4 + 4 + 36 + 36 + 6 + 216
Item2(j) ==
    IF j < 4 THEN IT("Input", MkInput("CoinSigned", 7, j, 0, 0, 0))
    ELSE IF j < 8 THEN IT("Input", MkInput("Contract", 7, j - 4, 0, 0, 0))
    ELSE IF j < 12 THEN IT("Input", MkInput("MessageCoinSigned", 7, j - 8, 0, 0, 0))
    ELSE IF j < 48 THEN IT("Input", MkInput("CoinPredicate", 7, 3, 0, L6[D(j - 12, 1, 6) + 1], L6[D(j - 12, 6, 6) + 1]))
    ELSE IF j < 84 THEN IT("Input", MkInput("MessageCoinPredicate", 7, 3, 0, L6[D(j - 48, 1, 6) + 1], L6[D(j - 48, 6, 6) + 1]))
    ELSE IF j < 90 THEN IT("Input", MkInput("MessageDataSigned", 7, 3, L6[j - 84 + 1], 0, 0))
    ELSE IT("Input", MkInput("MessageDataPredicate", 7, 3, L6[D(j - 90, 1, 6) + 1], L6[D(j - 90, 6, 6) + 1], L6[D(j - 90, 36, 6) + 1]))
\* 3: outputs x scalar profiles;  4: receipts x profiles
N3 == 20
Item3(j) == IT("Output", MkOutput(OutKinds[D(j, 1, 5) + 1], 21, D(j, 5, 4)))
N4 == 52
Item4(j) == IT("Receipt", MkReceipt(RcKinds[D(j, 1, 13) + 1], D(j, 13, 4)))
\* 5: every chargeable kind x all 64 policy masks x value profiles, small rotating body
N5 == 5 * 64 * (IF Thorough THEN 4 ELSE 2)
Item5(j) ==
    LET kind == TxKinds[D(j, 1, 5) + 1]
        mask == D(j, 5, 64)
        p    == IF Thorough THEN D(j, 320, 4) ELSE 2 + D(j, 320, 2)
    IN IT("Transaction", Tx1(kind, 3, MkPol(mask, p), <<In1(1 + (mask % 7))>>, <<Out1(1 + (mask % 5))>>, <<Pat(40, 1 + (mask % 9))>>))
\* 6: every chargeable kind x every ordered pair of input variants x byte-vector length rotations (non-empty)
LRot == <<<<9, 7, 1>>, <<16, 8, 9>>, <<1, 16, 8>>, <<7, 1, 16>>, <<8, 9, 7>>>>
N6 == 5 * 49 * (IF Thorough THEN 5 ELSE 2)
Item6(j) ==
    LET kind == TxKinds[D(j, 1, 5) + 1]
        a == D(j, 5, 7) + 1
        b == D(j, 35, 7) + 1
        r == D(j, 245, 5) + 1
        la == LRot[r]
        lb == LRot[(r % 5) + 1]
    IN IT("Transaction", Tx1(kind, 3, MkPol(9, 3),
                             <<MkInput(InKinds[a], 3, 3, la[1], la[2], la[3]), MkInput(InKinds[b], 13, 3, lb[1], lb[2], lb[3])>>,
                             <<Out1(1 + ((a + b) % 5))>>, <<Pat(40, 8)>>))
\* 7: output pairs;  8: witness counts x lengths
N7 == 5 * 25
Item7(j) == IT("Transaction", Tx1(TxKinds[D(j, 1, 5) + 1], 3, MkPol(2, 3), <<In1(1)>>, <<Out1(D(j, 5, 5) + 1), Out1(D(j, 25, 5) + 1)>>, <<"aa">>))
N8 == 5 * 43
Item8(j) ==
    LET kind == TxKinds[D(j, 1, 5) + 1]
        w == D(j, 5, 43)
        wits == IF w = 0 THEN <<>> ELSE IF w < 7 THEN MkWits(<<L6[w]>>) ELSE MkWits(<<L6[D(w - 7, 1, 6) + 1], L6[D(w - 7, 6, 6) + 1]>>)
    IN IT("Transaction", Tx1(kind, 3, MkPol(16, 3), <<In1(3)>>, <<Out1(3)>>, wits))
\* 9: script / script-data length classes, with the "mixed layout" bodies (x, contract, message-data predicate)
N9 == 36 * 2 + 28
Item9(j) ==
    IF j < 72
    THEN LET ls == L6[D(j, 1, 6) + 1]
             lsd == L6[D(j, 6, 6) + 1]
             ins == IF D(j, 36, 2) = 0 THEN <<>> ELSE <<In1(3), In1(7)>>
         IN IT("Transaction", MkTx("Script", 3, ls, lsd, 0, 0, 0, MkPol(5, 3), ins, <<Out1(2)>>, <<Pat(40, 9)>>))
    ELSE LET a == D(j - 72, 1, 7) + 1
             ls == <<0, 7, 8, 9>>[D(j - 72, 7, 4) + 1]
         IN IT("Transaction", MkTx("Script", 3, ls, 7, 0, 0, 0, MkPol(33, 3), <<In1(a), In1(3), In1(7)>>, <<Out1(4), Out1(2)>>, <<Pat(40, 7), Pat(50, 64)>>))
\* 10: kind-specific bodies x scalar profiles: storage slots {0,1,2}, proof set {0,1,3}, both upgrade purposes, blob, mint
N10 == 4 * (6 + 3 + 2 + 1 + 1 + 5)
Item10(j) ==
    LET p == D(j, 1, 4)
        q == D(j, 4, 18)
    IN IF q < 6 THEN IT("Transaction", MkTx("Create", p, 0, 0, q % 3, 0, 0, MkPol(10, p), <<In1(1)>>, <<Out1(5)>>,
                                            IF q < 3 THEN <<Pat(40, 9)>> ELSE <<Pat(40, 16), "bb">>))
       ELSE IF q < 9 THEN IT("Transaction", MkTx("Upload", p, 0, 0, 0, <<0, 1, 3>>[q - 6 + 1], 0, MkPol(10, p), <<In1(1)>>, <<Out1(1)>>, <<Pat(40, 9)>>))
       ELSE IF q < 11 THEN IT("Transaction", MkTx("Upgrade", p, 0, 0, 0, 0, q - 9, MkPol(10, p), <<In1(1)>>, <<Out1(1)>>, <<Pat(40, 9)>>))
       ELSE IF q = 11 THEN IT("Transaction", MkTx("Blob", p, 0, 0, 0, 0, 0, MkPol(10, p), <<In1(1)>>, <<Out1(1)>>, <<Pat(40, 9)>>))
       ELSE IF q = 12 THEN IT("Transaction", MkMint(p))
       ELSE IT("Transaction", MkTx(TxKinds[q - 12], p, 8, 8, 1, 1, 1, MkPol(63, p),
                                   <<MkInput("CoinSigned", 3, p, 0, 0, 0), MkInput("Contract", 9, p, 0, 0, 0), MkInput("MessageDataPredicate", 5, p, 8, 8, 8)>>,
                                   <<MkOutput("Change", 3, p), MkOutput("Contract", 5, p), MkOutput("Variable", 9, p)>>, <<Pat(40, 8)>>))
\* 11 (thorough): every ordered TRIPLE of input variants; 12 (thorough): message-data-predicate length cube inside transactions;
\* 13: empty-vector cases inside transactions (the variants the wire format cannot tell apart); 14, 15 (thorough): see below
N11 == IF Thorough THEN 343 * 5 ELSE 0
Item11(j) ==
    LET kind == TxKinds[D(j, 1, 5) + 1]
        a == D(j, 5, 7) + 1  b == D(j, 35, 7) + 1  c == D(j, 245, 7) + 1
    IN IT("Transaction", Tx1(kind, 3, MkPol(36, 3),
                             <<MkInput(InKinds[a], 3, 3, 1, 9, 7), MkInput(InKinds[b], 13, 3, 8, 7, 16), MkInput(InKinds[c], 23, 3, 9, 1, 8)>>,
                             <<Out1(1 + (a % 5)), Out1(1 + (c % 5))>>, <<Pat(40, 1), Pat(50, 9)>>))
N12 == IF Thorough THEN 125 * 5 ELSE 0
Item12(j) ==
    LET kind == TxKinds[D(j, 1, 5) + 1] IN
    IT("Transaction", Tx1(kind, 3, MkPol(18, 3),
                          <<In1(3), MkInput("MessageDataPredicate", 9, 3, L5[D(j, 5, 5) + 1], L5[D(j, 25, 5) + 1], L5[D(j, 125, 5) + 1]), In1(2)>>,
                          <<Out1(2)>>, <<Pat(40, 9)>>))
N13 == 8
Item13(j) ==
    LET i == CASE j = 0 -> MkInput("CoinPredicate", 3, 3, 0, 0, 9)
               [] j = 1 -> MkInput("MessageCoinPredicate", 3, 3, 0, 0, 9)
               [] j = 2 -> MkInput("MessageDataSigned", 3, 3, 0, 0, 0)
               [] j = 3 -> MkInput("MessageDataPredicate", 3, 3, 0, 7, 9)
               [] j = 4 -> MkInput("MessageDataPredicate", 3, 3, 9, 0, 7)
               [] j = 5 -> MkInput("MessageDataPredicate", 3, 3, 0, 0, 0)
               [] j = 6 -> MkInput("CoinPredicate", 3, 3, 0, 7, 0)
               [] j = 7 -> MkInput("MessageDataPredicate", 3, 3, 9, 7, 0)
    IN IT("Transaction", Tx1("Script", 3, MkPol(1, 3), <<In1(1), i, In1(7)>>, <<Out1(3)>>, <<Pat(40, 9)>>))

\* 14: a predicate variant after every input variant x predicate lengths (non-empty) x predicate-data lengths
N14 == 3 * 7 * 30
Item14(j) ==
    LET pk == <<"CoinPredicate", "MessageCoinPredicate", "MessageDataPredicate">>[D(j, 1, 3) + 1]
        a  == D(j, 3, 7) + 1
        lp == L5[D(j, 21, 5) + 1]
        lpd == L6[D(j, 105, 6) + 1]
    IN IT("Transaction", MkTx("Script", 3, 7, 9, 0, 0, 0, MkPol(12, 3), <<In1(a), MkInput(pk, 31, 3, 7, lp, lpd)>>, <<Out1(1)>>, <<Pat(40, 7)>>))
\* 15: all 64 policy masks x every input variant
N15 == 64 * 7
Item15(j) == IT("Transaction", MkTx("Script", 3, 1, 0, 0, 0, 0, MkPol(D(j, 1, 64), 3), <<In1(D(j, 64, 7) + 1)>>, <<Out1(2)>>, <<>>))

\* 16 (thorough): every ordered pair of input variants x every ordered pair of output kinds
N16 == IF Thorough THEN 49 * 25 ELSE 0
Item16(j) == IT("Transaction", MkTx("Script", 3, 8, 7, 0, 0, 0, MkPol(40, 3),
                                    <<MkInput(InKinds[D(j, 1, 7) + 1], 3, 3, 7, 9, 1), MkInput(InKinds[D(j, 7, 7) + 1], 17, 3, 1, 8, 7)>>,
                                    <<Out1(D(j, 49, 5) + 1), Out1(D(j, 245, 5) + 1)>>, <<Pat(40, 1)>>))
\* 17 (thorough): three witnesses, full length cube, every chargeable kind
N17 == IF Thorough THEN 5 * 216 ELSE 0
Item17(j) == IT("Transaction", Tx1(TxKinds[D(j, 1, 5) + 1], 3, MkPol(3, 3), <<In1(5)>>, <<Out1(4)>>,
                                   MkWits(<<L6[D(j, 5, 6) + 1], L6[D(j, 30, 6) + 1], L6[D(j, 180, 6) + 1]>>)))
\* 18 (thorough): the full length cube (incl. the empty classes) of a message-data predicate after every input variant
N18 == IF Thorough THEN 7 * 216 ELSE 0
Item18(j) == IT("Transaction", MkTx("Script", 3, 9, 0, 0, 0, 0, MkPol(0, 3),
                                    <<In1(D(j, 1, 7) + 1), MkInput("MessageDataPredicate", 41, 3, L6[D(j, 7, 6) + 1], L6[D(j, 42, 6) + 1], L6[D(j, 252, 6) + 1])>>,
                                    <<>>, <<Pat(40, 9)>>))

Families == 1..18
NItems(f) == CASE f = 1 -> N1 [] f = 2 -> N2 [] f = 3 -> N3 [] f = 4 -> N4 [] f = 5 -> N5 [] f = 6 -> N6 [] f = 7 -> N7
               [] f = 8 -> N8 [] f = 9 -> N9 [] f = 10 -> N10 [] f = 11 -> N11 [] f = 12 -> N12 [] f = 13 -> N13
               [] f = 14 -> N14 [] f = 15 -> N15 [] f = 16 -> N16 [] f = 17 -> N17 [] f = 18 -> N18
Item(f, j) == CASE f = 1 -> Item1(j) [] f = 2 -> Item2(j) [] f = 3 -> Item3(j) [] f = 4 -> Item4(j) [] f = 5 -> Item5(j)
                [] f = 6 -> Item6(j) [] f = 7 -> Item7(j) [] f = 8 -> Item8(j) [] f = 9 -> Item9(j) [] f = 10 -> Item10(j)
                [] f = 11 -> Item11(j) [] f = 12 -> Item12(j) [] f = 13 -> Item13(j) [] f = 14 -> Item14(j) [] f = 15 -> Item15(j)
                [] f = 16 -> Item16(j) [] f = 17 -> Item17(j) [] f = 18 -> Item18(j)

\* which items a mode looks at: C01/C04 everything (C04: transactions and inputs/outputs only);
\* C03: transactions, every Stride-th item (each expands into one line per field); C02: a sample of bases
IsTxFamily(f) == f >= 5
Stride == CASE Mode = "C03" -> (IF Thorough THEN 3 ELSE 12) [] Mode = "C02" -> (IF Thorough THEN 9 ELSE 20) [] OTHER -> 1
Wanted(f, j) ==
    CASE Mode = "C01" -> TRUE
      [] Mode = "C04" -> IsTxFamily(f)
      [] Mode = "C03" -> IsTxFamily(f) /\ (f = 13 \/ (f = 10 /\ (Thorough \/ j % 2 = 0)) \/ (j + f) % Stride = 0)
      [] Mode = "C02" -> f = 13 \/ (f = 10 /\ (Thorough \/ j % 3 = 0)) \/ (j + f) % (IF f \in {3, 4} THEN 4 ELSE IF f \in {1, 2} THEN Stride \div 3 ELSE Stride) = 0

\* ------------------------------ what the specification predicts ------------------------------
RoleClass(role) == CASE role = "elem" -> "elem" [] role = "data" -> "data" [] role = "elems" -> "elems" [] role = "vals" -> "vals"
                     [] OTHER -> "at"
OffEntries(lay) == LET addr == SelectSeq(lay, LAMBDA e : e.role \in Addressable /\ ~e.abs) IN
                   [i \in 1..Len(addr) |-> [p |-> addr[i].p, cls |-> RoleClass(addr[i].role), off |-> addr[i].off, len |-> addr[i].len]]
\* predicate of input i (0-based) of a chargeable transaction: offset and padded length
PredEntries(v) ==
    IF v.kind = "Mint" THEN <<>>
    ELSE LET idx == SelectSeq([i \in 1..Len(v.inputs) |-> i], LAMBDA i : v.inputs[i].kind \in PredicateKinds) IN
         [k \in 1..Len(idx) |-> [i |-> idx[k] - 1,
                                 off |-> OffsetOf(TransactionT, v, <<"inputs", idx[k] - 1, "predicate">>),
                                 len |-> H!Aligned8(H!BLen(v.inputs[idx[k]].predicate))]]
Chains == <<"0", "1", U64Max>>

\* single-field mutations (C03): one per Layout entry that holds content
XorLow(x) == BN!Xor(x, "1")
FlipLast(h) == LET n == H!BLen(h) IN H!Splice(h, n - 1, H!BEBig(BN!Xor(H!UnBE(H!Slice(h, n - 1, 1)), "255"), 1))
ExtraInput  == MkInput("CoinSigned", 201, 3, 0, 0, 0)
ExtraOutput == MkOutput("Coin", 203, 3)
ExtraSlot   == [key |-> SubSeq(FF64, 1, 64), value |-> Pat(3, 32)]
MutKinds == ScalarKinds \cup {"bytes", "data", "len", "count", "mask", "optval"}
Mutated(T, v, e) ==
    LET old == GetAt(T, v, e.p) IN
    CASE e.role \in ScalarKinds \cup {"optval"} -> SetAt(T, v, e.p, XorLow(old))
      [] e.role = "bytes" -> SetAt(T, v, e.p, FlipLast(old))
      [] e.role = "data"  -> SetAt(T, v, e.p, IF old = "" THEN "fb" ELSE FlipLast(old))
      [] e.role = "len"   -> SetAt(T, v, e.p, old \o "5a")
      [] e.role = "count" -> LET last == e.p[Len(e.p)] IN
                             SetAt(T, v, e.p, Append(old, CASE last = "inputs" -> ExtraInput [] last = "outputs" -> ExtraOutput
                                                            [] last = "witnesses" -> "77" [] last = "storage_slots" -> ExtraSlot
                                                            [] last = "proof_set" -> Pat(77, 32)))
      [] e.role = "mask"  -> LET m == old.mask IN     \* toggle the tip policy
                             SetAt(T, v, e.p, IF BitSet(m, 0) THEN [mask |-> m - 1, vals |-> [old.vals EXCEPT ![1] = "0"]]
                                                              ELSE [mask |-> m + 1, vals |-> [old.vals EXCEPT ![1] = "5"]])
MutEntries(lay) == SelectSeq(lay, LAMBDA e : e.role \in MutKinds /\ ~e.abs)

\* adversarial byte-level mutations (C02), generated from the field boundaries of the layout
Word(x) == H!BEBig(x, 8)
Two32 == "4294967296"
WordMuts(e) ==
    CASE e.role \in {"len", "count"} ->
           <<"0", BN!FromNat(e.n + 1), Two32, "104857600", "104857601", U64Max, "9223372036854775808">>
           \o (IF e.n > 0 THEN <<BN!FromNat(e.n - 1)>> ELSE <<>>)
      [] e.role = "disc" -> SelectSeq(<<"0", "1", "2", "3", "4", "5", "6", "12", "13", "256", Two32, U64Max>>, LAMBDA x : x # BN!FromNat(e.n))
      [] e.role = "mask" -> <<"0", "63", "64", "127", "128", "2147483648", Two32, BN!Add(Two32, BN!FromNat(e.n)), U64Max>>
                            \o [b \in 1..6 |-> BN!FromNat(IF BitSet(e.n, b - 1) THEN e.n - 2 ^ (b - 1) ELSE e.n + 2 ^ (b - 1))]
      [] e.role = "optval" -> <<U32Max, Two32, U64Max>>
      [] OTHER -> <<>>
PadMut(b, e) ==      \* dirty the padding bytes of a field
    CASE e.role \in {"u8", "u16", "u32"} -> <<H!Splice(b, e.off, SubSeq(FF64, 1, 2 * (8 - Width([k |-> e.role]))))>>
      [] e.role = "mask" -> <<H!Splice(b, e.off, "ffffffff")>>
      [] e.role \in {"data", "bytes"} /\ e.len > e.n -> <<H!Splice(b, e.off + e.n, SubSeq(FF64, 1, 2 * (e.len - e.n)))>>
      [] OTHER -> <<>>
Cuts(lay, n) == {c \in UNION {{lay[i].off - 1, lay[i].off, lay[i].off + 1} : i \in 1..Len(lay)} \cup {n - 1} : c >= 0 /\ c < n}
SetToSeq(S) == LET RECURSIVE f(_) f(X) == IF X = {} THEN <<>> ELSE LET x == CHOOSE x \in X : \A y \in X : x <= y IN <<x>> \o f(X \ {x}) IN f(S)
RECURSIVE FlatWord(_, _, _)
FlatWord(b, lay, i) ==
    IF i > Len(lay) THEN <<>>
    ELSE LET e == lay[i]
             ws == WordMuts(e)
             pm == PadMut(b, e)
         IN [k \in 1..Len(ws) |-> [tag |-> "word/" \o e.role \o "/" \o ws[k], bytes |-> H!Splice(b, e.off, Word(ws[k]))]]
            \o (IF e.role \in {"len", "count"} THEN <<[tag |-> "grow/" \o e.role, bytes |-> H!Splice(b, e.off, Word(BN!FromNat(e.n + 1))) \o H!Zeros(256)]>> ELSE <<>>)
            \o [k \in 1..Len(pm) |-> [tag |-> "pad/" \o e.role, bytes |-> pm[k]]]
            \o FlatWord(b, lay, i + 1)
Mutants(b, lay) ==
    LET n == H!BLen(b)
        cs == SetToSeq(Cuts(lay, n))
    IN [k \in 1..Len(cs) |-> [tag |-> "cut", bytes |-> H!Slice(b, 0, cs[k])]]
       \o FlatWord(b, lay, 1)
       \o <<[tag |-> "extend", bytes |-> b \o "00"], [tag |-> "extend8", bytes |-> b \o "ffffffffffffffff"], [tag |-> "valid", bytes |-> b]>>

Build(f, j) ==
    LET it  == Item(f, j)
        T   == SchemaOf(it.ty)
        enc == Enc(T, it.v)
        lay == Layout(T, it.v)
    IN CASE Mode = "C01" -> [ty |-> it.ty, v |-> it.v, f |-> f, j |-> j,
                             exp |-> [bytes |-> enc, size |-> Size(T, it.v), size_static |-> SizeS(T, it.v), dec |-> Strip(T, it.v)]]
         [] Mode = "C04" -> [ty |-> it.ty, v |-> it.v, f |-> f, j |-> j, lay |-> lay,
                             exp |-> [bytes |-> enc, offsets |-> OffEntries(lay), predicates |-> PredEntries(it.v)]]
         [] Mode = "C03" -> [ty |-> it.ty, v |-> it.v, f |-> f, j |-> j, muts |-> MutEntries(lay),
                             chains |-> Chains, exp |-> [ids |-> [c \in 1..Len(Chains) |-> Id(Chains[c], it.v)]]]
         [] Mode = "C02" -> [ty |-> it.ty, v |-> it.v, f |-> f, j |-> j, muts |-> Mutants(enc, lay)]
BuildMut(m) ==
    IF Mode = "C03"
    THEN LET e == cur.muts[m]
             v2 == Mutated(TransactionT, cur.v, e)
         IN [ty |-> "Transaction", v |-> v2, f |-> cur.f, j |-> cur.j, m |-> m, path |-> e.p, role |-> e.role,
             malleable |-> MalleablePath(cur.v, e.p), base_id |-> cur.exp.ids[2], chains |-> <<Chains[2]>>,
             exp |-> [ids |-> <<Id(Chains[2], v2)>>]]
    ELSE [ty |-> cur.ty, f |-> cur.f, j |-> cur.j, m |-> m, tag |-> cur.muts[m].tag, bytes |-> cur.muts[m].bytes]

CH == 32
Init == st = <<0, 0, 0, 0>> /\ cur = <<>>
Expand == /\ st[1] = 0
          /\ \E f \in Families : \E c \in 0..(NItems(f) \div CH) :
                /\ c * CH < NItems(f)
                /\ st' = <<1, f, c, 0>>
                /\ cur' = <<>>
Pick ==   /\ st[1] = 1
          /\ \E j \in (st[3] * CH)..(st[3] * CH + CH - 1) :
                /\ j < NItems(st[2])
                /\ Wanted(st[2], j)
                /\ st' = <<2, st[2], j, 0>>
                /\ cur' = Build(st[2], j)
Mutate == /\ st[1] = 2
          /\ Mode \in {"C03", "C02"}
          /\ \E m \in 1..Len(cur.muts) :
                /\ st' = <<3, st[2], st[3], m>>
                /\ cur' = BuildMut(m)
Next == Expand \/ Pick \/ Mutate
Spec == Init /\ [][Next]_vars

\* ------------------------------ design-level properties (Leg M) ------------------------------
AtItem == st[1] = 2
\* C01: word aligned, the arithmetic size is the length, fixed + variable part sizes add up, values are in their domain
WordAligned  == (AtItem /\ Mode = "C01") => H!BLen(cur.exp.bytes) % 8 = 0 /\ cur.exp.size_static % 8 = 0
SizeIsLength == (AtItem /\ Mode = "C01") => H!BLen(cur.exp.bytes) = cur.exp.size
                                            /\ cur.exp.size_static = H!BLen(EncS(SchemaOf(cur.ty), cur.v))
InDomain     == (AtItem /\ Mode \in {"C01", "C04"}) => WF(SchemaOf(cur.ty), cur.v)
\* C04: the bytes at the offset of every field are that field's own encoding; OffsetOf agrees with the Layout
OffsetsLocate == (AtItem /\ Mode = "C04") =>
    LET T == SchemaOf(cur.ty) IN
    \A i \in 1..Len(cur.lay) :
        LET e == cur.lay[i] IN
        (e.role \in Addressable /\ ~e.abs) =>
            /\ (e.role = "data" /\ Len(e.p) > 1 /\ TypeAt(T, cur.v, SubSeq(e.p, 1, Len(e.p) - 1)).k = "vec")
               \/ OffsetOf(T, cur.v, e.p) = e.off
            /\ PathOk(T, cur.v, e.p)
            /\ LET sub == GetAt(T, cur.v, e.p)
                   ST  == TypeAt(T, cur.v, e.p)
                   got == H!Slice(cur.exp.bytes, e.off, e.len)
               IN CASE e.role \in ScalarKinds \cup {"bytes"} -> got = EncS(ST, sub)
                    [] e.role = "optval" -> got = H!BEBig(sub, 8)
                    [] e.role = "data"   -> got = H!Pad8(sub)
                    [] e.role = "elem"   -> got = Enc(ST, sub)
                    [] e.role = "elems"  -> got = EncD(ST, sub)
                    [] e.role = "vals"   -> got = EncD(ST, sub)
                    [] e.role \in {"struct", "union"} -> got = EncS(ST, sub)
\* C03: the id separates chains, and a single-field change alters the id exactly when the field is not malleable
ChainsSeparate == (AtItem /\ Mode = "C03") => Cardinality({cur.exp.ids[c] : c \in 1..Len(Chains)}) = Len(Chains)
IdCommitsExactly == (st[1] = 3 /\ Mode = "C03") => (cur.malleable <=> (cur.exp.ids[1] = cur.base_id))

Printable == IF Mode = "C04" THEN [x \in DOMAIN cur \ {"lay"} |-> cur[x]]
             ELSE IF Mode \in {"C03", "C02"} /\ st[1] = 2 THEN [x \in DOMAIN cur \ {"muts"} |-> cur[x]]
             ELSE cur
Emit == (st[1] >= 2) => PrintT("REPLAY" \o ToJson(Printable))
=============================================================================
