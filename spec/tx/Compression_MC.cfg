SPECIFICATION MCSpec
CONSTANTS
  MaxLen = 3
  Starts = {0, 16777213}
  EmitReplay = FALSE
INVARIANTS RegOk LastResolves SameValueSameKey DistinctValuesDistinctKeys TableFacts AlphabetWellTyped Emit
CHECK_DEADLOCK FALSE
