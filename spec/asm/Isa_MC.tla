------------------------------- MODULE Isa_MC -------------------------------
(***************************************************************************)
(* Leg M + generator for Leg R of C08.                                     *)
(* One state per opcode byte 0..255.  In the state for byte b TLC          *)
(*  - checks the laws of the instruction format on every boundary argument *)
(*    pattern of that byte (decode defined iff opcode defined and reserved *)
(*    bits zero, stated in three independent ways; Encode(Decode(w)) = w;  *)
(*    Decode(Encode(i)) = i on every boundary argument tuple), and         *)
(*  - prints the row of the 256-entry decision table and every boundary    *)
(*    word with the predicted decode result (REPLAY lines) which the       *)
(*    harness evaluates on the real fuel-asm / fuel-vm code.               *)
(***************************************************************************)
EXTENDS Isa, Json
CONSTANTS EmitReplay

VARIABLE k                      \* the byte whose row is examined in this state; 256 = done
mcVars == <<k>>

Full == 2 ^ ArgBits - 1
\* boundary values of a w-bit field: 0, 1, max, max-1, every single bit
B(w) == {0, 1, 2 ^ w - 1, 2 ^ w - 2} \cup {2 ^ j : j \in 0..(w - 1)}
\* shape-independent 24-bit patterns, applied to every defined opcode byte:
\* all zero, all one, single bit, single hole, low runs, high runs
Generic == {0, Full} \cup {2 ^ j : j \in 0..23} \cup {Full - 2 ^ j : j \in 0..23}
             \cup {2 ^ j - 1 : j \in 1..23} \cup {2 ^ ArgBits - 2 ^ j : j \in 1..23}

MaxV(L, i) == 2 ^ L[i].w - 1
\* backgrounds for the other fields: all zero, all max, 1010../0101.. alternating per field both ways
Bg(L, kind) == [i \in 1..Len(L) |->
                  CASE kind = 0 -> 0
                    [] kind = 1 -> MaxV(L, i)
                    [] kind = 2 -> IF i % 2 = 1 THEN (MaxV(L, i) * 2) \div 3 ELSE MaxV(L, i) \div 3
                    [] kind = 3 -> IF i % 2 = 1 THEN MaxV(L, i) \div 3 ELSE (MaxV(L, i) * 2) \div 3]
OneVaries(L) == UNION { { [Bg(L, kind) EXCEPT ![i] = v] : v \in B(L[i].w), kind \in 0..3 } : i \in 1..Len(L) }
Corners(L) == { [i \in 1..Len(L) |-> CASE t[i] = 0 -> 0 [] t[i] = 1 -> 1 [] t[i] = 2 -> MaxV(L, i)]
                : t \in [1..Len(L) -> 0..2] }
Tuples(s) == IF NArgs(s) = 0 THEN {<<>>} ELSE OneVaries(LayoutOf[s]) \cup Corners(LayoutOf[s])

\* valid bases with each reserved bit (and all of them) switched on
Perturbed(s) == IF NArgs(s) = 0 THEN {}
                ELSE { Pack(s, Bg(LayoutOf[s], kind)) + m :
                         kind \in 0..3, m \in {2 ^ j : j \in ReservedBitsOf[s]} \cup {ReservedMask(s)} }

\* an undefined byte is not an instruction whatever follows it: all zero, all one, every single bit
UndefinedPatterns == {0, Full} \cup {2 ^ j : j \in 0..23}
PatternsFor(b) == IF Defined(b)
                  THEN Generic \cup {Pack(ByByte[b].s, t) : t \in Tuples(ByByte[b].s)} \cup Perturbed(ByByte[b].s)
                  ELSE UndefinedPatterns

RECURSIVE AndNat(_, _, _)       \* bitwise AND of two 24-bit naturals
AndNat(x, y, j) == IF j = ArgBits THEN 0 ELSE Bit(x, j) * Bit(y, j) * (2 ^ j) + AndNat(x, y, j + 1)
Used(s) == WidthUpTo(ShapeArgs[s], NArgs(s))

LawsFor(b) ==
    LET s == ByByte[b].s IN
    /\ \A a \in PatternsFor(b) :
         LET d == Decode(b, a) IN
         /\ a \in 0..Full
         /\ (d.ok <=> (Defined(b) /\ a % (2 ^ (ArgBits - Used(s))) = 0))
         /\ (d.ok <=> (Defined(b) /\ AndNat(a, ReservedMask(s), 0) = 0))
         /\ (d.ok => /\ InRange(d.m, d.args)
                     /\ Encode(d.m, d.args) = [b |-> b, a |-> a]
                     /\ Word(Encode(d.m, d.args).b, Encode(d.m, d.args).a) = Word(b, a))
         /\ WOp(Word(b, a)) = b /\ WArgs(Word(b, a)) = a
    /\ (Defined(b) =>
          \A t \in Tuples(s) :
             LET m == ByByte[b].m
                 e == Encode(m, t) IN
             /\ InRange(m, t)
             /\ e.b = b /\ e.a \in 0..Full
             /\ Decode(e.b, e.a) = [ok |-> TRUE, m |-> m, args |-> t])

Laws == (k < 256) => LawsFor(k)
ASSUME WellFormed == TableWellFormed /\ ShapesWellFormed

TabLine(b) ==
    IF Defined(b)
    THEN [t |-> "tab", b |-> b, def |-> TRUE, m |-> ByByte[b].m, shape |-> ByByte[b].s,
          mask |-> ReservedMask(ByByte[b].s),
          fields |-> IF NArgs(ByByte[b].s) = 0 THEN <<>> ELSE LayoutOf[ByByte[b].s]]
    ELSE [t |-> "tab", b |-> b, def |-> FALSE, m |-> "", shape |-> "", mask |-> 0, fields |-> <<>>]
WordLine(b, a) ==
    LET d == Decode(b, a) IN
    IF d.ok THEN [t |-> "w", w |-> Word(b, a), ok |-> TRUE, m |-> d.m, args |-> d.args,
                  regs |-> RegsOf(ByByte[b].s, a)]
    ELSE [t |-> "w", w |-> Word(b, a), ok |-> FALSE, m |-> "", args |-> <<>>, regs |-> <<>>]

Emit == (EmitReplay /\ k < 256) =>
           /\ PrintT("REPLAY" \o ToJson(TabLine(k)))
           /\ \A a \in PatternsFor(k) : PrintT("REPLAY" \o ToJson(WordLine(k, a)))

MCInit == k = 0
ADefined   == k < 256 /\ Defined(k)  /\ k' = k + 1
AUndefined == k < 256 /\ ~Defined(k) /\ k' = k + 1
MCNext == ADefined \/ AUndefined
MCSpec == MCInit /\ [][MCNext]_mcVars
=============================================================================
