--------------------------------- MODULE Isa ---------------------------------
(***************************************************************************)
(* The FuelVM instruction word (C08).                                      *)
(*                                                                         *)
(* An instruction is 32 bits: an 8-bit opcode followed by 24 argument      *)
(* bits.  The argument bits are filled from the most significant end with  *)
(* the opcode's arguments in order: register identifiers take 6 bits each, *)
(* an immediate takes 6, 12, 18 or 24 bits and is always the last          *)
(* argument.  Whatever is left over at the least significant end is        *)
(* reserved and must be zero.  A word whose top byte is not in the opcode  *)
(* table, or that has a reserved bit set, is not an instruction.           *)
(*                                                                         *)
(* The opcode table is DATA (byte, mnemonic, argument shape).  Everything  *)
(* else (field positions, reserved bits, Decode, Encode) is derived from   *)
(* the paragraph above with \div and % on naturals, bit by bit; there is   *)
(* no per-shape shift or mask constant anywhere in this module.            *)
(*                                                                         *)
(* Representation: a word is the pair (b, a) of the opcode byte 0..255 and *)
(* the 24 argument bits 0..2^24-1 (TLC integers are 32-bit signed, so the  *)
(* 32-bit word itself is never formed as a number); on the wire it is the  *)
(* 8-digit lowercase big-endian hex string Word(b, a).                     *)
(***************************************************************************)
EXTENDS Naturals, Sequences, FiniteSets, TLC
LOCAL INSTANCE Hex

\* ---------------------------------------------------------------- the table
OpTable == <<
    <<16, "ADD", "RRR">>, <<17, "AND", "RRR">>, <<18, "DIV", "RRR">>, <<19, "EQ", "RRR">>,
    <<20, "EXP", "RRR">>, <<21, "GT", "RRR">>, <<22, "LT", "RRR">>, <<23, "MLOG", "RRR">>,
    <<24, "MROO", "RRR">>, <<25, "MOD", "RRR">>, <<26, "MOVE", "RR">>, <<27, "MUL", "RRR">>,
    <<28, "NOT", "RR">>, <<29, "OR", "RRR">>, <<30, "SLL", "RRR">>, <<31, "SRL", "RRR">>,
    <<32, "SUB", "RRR">>, <<33, "XOR", "RRR">>, <<34, "MLDV", "RRRR">>, <<35, "NIOP", "RRRI6">>,
    <<36, "RET", "R">>, <<37, "RETD", "RR">>, <<38, "ALOC", "R">>, <<39, "MCL", "RR">>,
    <<40, "MCP", "RRR">>, <<41, "MEQ", "RRRR">>, <<42, "BHSH", "RR">>, <<43, "BHEI", "R">>,
    <<44, "BURN", "RR">>, <<45, "CALL", "RRRR">>, <<46, "CCP", "RRRR">>, <<47, "CROO", "RR">>,
    <<48, "CSIZ", "RR">>, <<49, "CB", "R">>, <<50, "LDC", "RRRI6">>, <<51, "LOG", "RRRR">>,
    <<52, "LOGD", "RRRR">>, <<53, "MINT", "RR">>, <<54, "RVRT", "R">>, <<55, "SCWQ", "RRR">>,
    <<56, "SRW", "RRRI6">>, <<57, "SRWQ", "RRRR">>, <<58, "SWW", "RRR">>, <<59, "SWWQ", "RRRR">>,
    <<60, "TR", "RRR">>, <<61, "TRO", "RRRR">>, <<62, "ECK1", "RRR">>, <<63, "ECR1", "RRR">>,
    <<64, "ED19", "RRRR">>, <<65, "K256", "RRR">>, <<66, "S256", "RRR">>, <<67, "TIME", "RR">>,
    <<71, "NOOP", "NONE">>, <<72, "FLAG", "R">>, <<73, "BAL", "RRR">>, <<74, "JMP", "R">>,
    <<75, "JNE", "RRR">>, <<76, "SMO", "RRRR">>,
    <<80, "ADDI", "RRI12">>, <<81, "ANDI", "RRI12">>, <<82, "DIVI", "RRI12">>, <<83, "EXPI", "RRI12">>,
    <<84, "MODI", "RRI12">>, <<85, "MULI", "RRI12">>, <<86, "ORI", "RRI12">>, <<87, "SLLI", "RRI12">>,
    <<88, "SRLI", "RRI12">>, <<89, "SUBI", "RRI12">>, <<90, "XORI", "RRI12">>, <<91, "JNEI", "RRI12">>,
    <<92, "LB", "RRI12">>, <<93, "LW", "RRI12">>, <<94, "SB", "RRI12">>, <<95, "SW", "RRI12">>,
    <<96, "MCPI", "RRI12">>, <<97, "GTF", "RRI12">>, <<98, "LQW", "RRI12">>, <<99, "LHW", "RRI12">>,
    <<100, "SQW", "RRI12">>, <<101, "SHW", "RRI12">>,
    <<112, "MCLI", "RI18">>, <<113, "GM", "RI18">>, <<114, "MOVI", "RI18">>, <<115, "JNZI", "RI18">>,
    <<116, "JMPF", "RI18">>, <<117, "JMPB", "RI18">>, <<118, "JNZF", "RRI12">>, <<119, "JNZB", "RRI12">>,
    <<120, "JNEF", "RRRI6">>, <<121, "JNEB", "RRRI6">>,
    <<144, "JI", "I24">>, <<145, "CFEI", "I24">>, <<146, "CFSI", "I24">>, <<147, "CFE", "R">>,
    <<148, "CFS", "R">>, <<149, "PSHL", "I24">>, <<150, "PSHH", "I24">>, <<151, "POPL", "I24">>,
    <<152, "POPH", "I24">>, <<153, "JAL", "RRI12">>,
    <<160, "WDCM", "RRRI6">>, <<161, "WQCM", "RRRI6">>, <<162, "WDOP", "RRRI6">>, <<163, "WQOP", "RRRI6">>,
    <<164, "WDML", "RRRI6">>, <<165, "WQML", "RRRI6">>, <<166, "WDDV", "RRRI6">>, <<167, "WQDV", "RRRI6">>,
    <<168, "WDMD", "RRRR">>, <<169, "WQMD", "RRRR">>, <<170, "WDAM", "RRRR">>, <<171, "WQAM", "RRRR">>,
    <<172, "WDMM", "RRRR">>, <<173, "WQMM", "RRRR">>,
    <<176, "ECAL", "RRRR">>,
    <<186, "BSIZ", "RR">>, <<187, "BLDD", "RRRR">>, <<188, "ECOP", "RRRR">>, <<190, "EPAR", "RRRR">>,
    <<192, "SCLR", "RR">>, <<193, "SRDD", "RRRR">>, <<194, "SRDI", "RRRI6">>, <<195, "SWRD", "RRR">>,
    <<196, "SWRI", "RRI12">>, <<197, "SUPD", "RRRR">>, <<198, "SUPI", "RRRI6">>, <<199, "SPLD", "RR">> >>

\* ------------------------------------------------------- argument shapes
\* A shape is the sequence of its arguments, most significant first:
\* kind "r" (register id) or "i" (immediate), and width in bits.
LOCAL Reg    == [k |-> "r", w |-> 6]
LOCAL Imm(n) == [k |-> "i", w |-> n]
ShapeArgs == [ NONE  |-> <<>>,
               R     |-> <<Reg>>,
               RR    |-> <<Reg, Reg>>,
               RRR   |-> <<Reg, Reg, Reg>>,
               RRRR  |-> <<Reg, Reg, Reg, Reg>>,
               RRRI6 |-> <<Reg, Reg, Reg, Imm(6)>>,
               RRI12 |-> <<Reg, Reg, Imm(12)>>,
               RI18  |-> <<Reg, Imm(18)>>,
               I24   |-> <<Imm(24)>> ]
Shapes == DOMAIN ShapeArgs
ArgBits == 24

RECURSIVE WidthUpTo(_, _)                       \* bits taken by the first n arguments
WidthUpTo(fs, n) == IF n = 0 THEN 0 ELSE fs[n].w + WidthUpTo(fs, n - 1)

\* Layout: each argument with the position `sh` of its least significant bit
\* (bit 0 = least significant of the 24 argument bits).
LayoutOf == [s \in Shapes |->
               LET fs == ShapeArgs[s] IN
               [i \in 1..Len(fs) |-> [k |-> fs[i].k, w |-> fs[i].w, sh |-> ArgBits - WidthUpTo(fs, i)]]]
NArgs(s) == Len(ShapeArgs[s])
UsedBitsOf == [s \in Shapes |->
                 UNION { LayoutOf[s][i].sh .. (LayoutOf[s][i].sh + LayoutOf[s][i].w - 1) : i \in 1..NArgs(s) }]
ReservedBitsOf == [s \in Shapes |-> (0..(ArgBits - 1)) \ UsedBitsOf[s]]

Bit(a, j) == (a \div (2 ^ j)) % 2
RECURSIVE MaskFrom(_, _)                        \* number whose set bits are exactly S (bits j..23)
MaskFrom(S, j) == IF j = ArgBits THEN 0 ELSE (IF j \in S THEN 2 ^ j ELSE 0) + MaskFrom(S, j + 1)
ReservedMaskOf == [s \in Shapes |-> MaskFrom(ReservedBitsOf[s], 0)]
ReservedMask(s) == ReservedMaskOf[s]

\* ------------------------------------------------------- table look-ups
DefinedBytes == { OpTable[i][1] : i \in 1..Len(OpTable) }
Mnemonics    == { OpTable[i][2] : i \in 1..Len(OpTable) }
ByByte == [b \in 0..255 |->
             IF b \in DefinedBytes
             THEN LET r == OpTable[CHOOSE i \in 1..Len(OpTable) : OpTable[i][1] = b]
                  IN [def |-> TRUE, m |-> r[2], s |-> r[3]]
             ELSE [def |-> FALSE, m |-> "", s |-> "NONE"]]
ByName == [m \in Mnemonics |->
             LET r == OpTable[CHOOSE i \in 1..Len(OpTable) : OpTable[i][2] = m]
             IN [b |-> r[1], s |-> r[3]]]
Defined(b) == ByByte[b].def

\* ------------------------------------------------------- Decode / Encode
\* "decoding succeeds exactly when the top byte is a defined opcode and every bit
\*  not used by that opcode's arguments is zero"
Valid(b, a) == Defined(b) /\ \A j \in ReservedBitsOf[ByByte[b].s] : Bit(a, j) = 0

ArgsOf(s, a) == LET L == LayoutOf[s] IN
                IF Len(L) = 0 THEN <<>> ELSE [i \in 1..Len(L) |-> (a \div (2 ^ L[i].sh)) % (2 ^ L[i].w)]
NRegs(s) == Cardinality({i \in 1..NArgs(s) : ShapeArgs[s][i].k = "r"})     \* registers always come first
RegsOf(s, a) == IF NRegs(s) = 0 THEN <<>> ELSE [i \in 1..NRegs(s) |-> ArgsOf(s, a)[i]]

Invalid == [ok |-> FALSE]
Decode(b, a) == IF Valid(b, a) THEN [ok |-> TRUE, m |-> ByByte[b].m, args |-> ArgsOf(ByByte[b].s, a)]
                ELSE Invalid

InRange(m, args) == /\ m \in Mnemonics
                    /\ LET L == LayoutOf[ByName[m].s] IN
                       /\ Len(args) = Len(L)
                       /\ \A i \in 1..Len(L) : args[i] \in 0..(2 ^ L[i].w - 1)
RECURSIVE PackFrom(_, _, _)
PackFrom(L, args, i) == IF i > Len(L) THEN 0 ELSE args[i] * (2 ^ L[i].sh) + PackFrom(L, args, i + 1)
Pack(s, args) == PackFrom(LayoutOf[s], args, 1)
Encode(m, args) == [b |-> ByName[m].b, a |-> Pack(ByName[m].s, args)]     \* for InRange(m, args)

\* ------------------------------------------------------- wire form
Word(b, a) == BE(b, 1) \o BE(a, 3)
WOp(h)   == UnBENat(Slice(h, 0, 1))
WArgs(h) == UnBENat(Slice(h, 1, 3))
IsWord(h) == Len(h) = 8

\* ------------------------------------------------------- well-formedness of the table
TableWellFormed ==
    /\ \A i, j \in 1..Len(OpTable) : (i # j) => (OpTable[i][1] # OpTable[j][1] /\ OpTable[i][2] # OpTable[j][2])
    /\ \A i \in 1..Len(OpTable) : OpTable[i][1] \in 0..255 /\ OpTable[i][3] \in Shapes
ShapesWellFormed ==
    \A s \in Shapes :
        LET L == LayoutOf[s] IN
        /\ WidthUpTo(ShapeArgs[s], NArgs(s)) <= ArgBits
        /\ \A i \in 1..Len(L) : L[i].sh >= 0 /\ L[i].sh + L[i].w <= ArgBits
        /\ \A i, j \in 1..Len(L) : (i < j) => (L[j].sh + L[j].w = L[i].sh \/ L[j].sh + L[j].w < L[i].sh)
        /\ \A i \in 1..Len(L) : (L[i].k = "i") => (i = Len(L) /\ L[i].sh = 0)
        \* the reserved bits are exactly the low (24 - used) bits
        /\ ReservedBitsOf[s] = 0..(ArgBits - WidthUpTo(ShapeArgs[s], NArgs(s)) - 1)
        /\ ReservedMaskOf[s] = 2 ^ (ArgBits - WidthUpTo(ShapeArgs[s], NArgs(s))) - 1
=============================================================================
