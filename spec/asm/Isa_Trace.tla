------------------------------ MODULE Isa_Trace ------------------------------
(***************************************************************************)
(* impl -> spec for C08: a trace recorded from fuel-asm / fuel-vm is       *)
(* accepted iff every logged observation equals what Isa predicts.         *)
(*                                                                         *)
(* Dec  one raw 32-bit word w pushed through the real decoders:            *)
(*        ok / ok4      Instruction::try_from(u32) / try_from([u8; 4])     *)
(*        fb / fu       fuel_asm::from_bytes / from_u32s on this one word: *)
(*                      ok | err | differs (from try_from)                 *)
(*        opok, opm     Opcode::try_from(top byte), its name               *)
(*        m, args, regs opcode(), unpack(), reg_ids() of the decoded value *)
(*        reenc, bytes  u32::from(instr), instr.to_bytes()                 *)
(*        opb           instr.opcode() as u8                               *)
(*        raw           the interpreter's per-opcode parser                *)
(*                      op::X::from_raw_args(low 3 bytes): none|ok|err,    *)
(*        rawm, rawargs, raww   what it parsed, re-encoded                 *)
(*        vm            Interpreter::instruction(w): "invalid" iff it      *)
(*                      panics with InvalidInstruction (optional field)    *)
(* Enc  one (mnemonic, argument tuple) pushed through the constructors:    *)
(*        wnew, wop, wbytes  op::X::new(..) as Instruction->u32, X->u32,   *)
(*                            X->[u8; 4]                                   *)
(*        wshort        the short-hand constructor op::x(..)               *)
(*        dok, dm, dargs     decoding wnew again                           *)
(* Opc  Opcode::try_from(b) for one byte.                                  *)
(* Seg  segment separator (no state).                                     *)
(***************************************************************************)
EXTENDS Isa, TraceIO
VARIABLE l
trVars == <<l>>
TrInit == l = 1
e == Rec[l]

TSeg == IsEv(l, "Seg")

TOpc == /\ IsEv(l, "Opc")
        /\ e.b \in 0..255
        /\ e.ok = Defined(e.b)
        /\ (e.ok => e.m = ByByte[e.b].m)

TDec ==
    /\ IsEv(l, "Dec")
    /\ IsWord(e.w)
    /\ LET b == WOp(e.w)
           a == WArgs(e.w)
           d == Decode(b, a) IN
       /\ e.ok = d.ok
       /\ e.ok4 = d.ok
       /\ e.fb = (IF d.ok THEN "ok" ELSE "err")
       /\ e.fu = (IF d.ok THEN "ok" ELSE "err")
       /\ ~Has(e, "unsupported")
       /\ e.opok = Defined(b)
       /\ (e.opok => e.opm = ByByte[b].m)
       /\ (d.ok => /\ e.m = d.m
                   /\ e.args = d.args
                   /\ e.regs = RegsOf(ByByte[b].s, a)
                   /\ e.reenc = e.w
                   /\ e.bytes = e.w
                   /\ e.opb = b)
       /\ e.raw = (IF ~Defined(b) THEN "none" ELSE IF d.ok THEN "ok" ELSE "err")
       /\ ((e.raw = "ok") => /\ e.rawm = d.m
                             /\ e.rawargs = d.args
                             /\ e.raww = e.w)
       /\ (Has(e, "vm") => ((e.vm = "invalid") <=> ~d.ok))

TEnc ==
    /\ IsEv(l, "Enc")
    /\ ~Has(e, "unsupported")
    /\ InRange(e.m, e.args)
    /\ LET c == Encode(e.m, e.args)
           w == Word(c.b, c.a) IN
       /\ e.wnew = w
       /\ e.wop = w
       /\ e.wbytes = w
       /\ (Has(e, "wshort") => e.wshort = w)
       /\ e.dok
       /\ e.dm = e.m
       /\ e.dargs = e.args
       /\ Decode(c.b, c.a) = [ok |-> TRUE, m |-> e.m, args |-> e.args]

TrNext == (TSeg \/ TOpc \/ TDec \/ TEnc) /\ l' = l + 1
TrSpec == TrInit /\ [][TrNext]_trVars
=============================================================================
