SPECIFICATION MCSpec
CONSTANTS
  EmitReplay = FALSE
INVARIANTS Laws Emit
CHECK_DEADLOCK FALSE
