-------------------------- MODULE K1Backends_Trace --------------------------
(* impl -> spec for C16.  Every event carries one input and what BOTH real secp256k1 backends    *)
(* returned for it.  An event is accepted iff                                                    *)
(*   - the class TLC derives from the raw signature bytes (r class via the supplied square-root  *)
(*     certificate or Euler's criterion, s class, recovery bit) equals the class the witness was *)
(*     built for, and a crafted witness satisfies the ECDSA equation s*k = z + r*d (mod n);      *)
(*   - the two backends returned the SAME result: both fail, or both succeed with the same key   *)
(*     (recover) / both accept (verify) / the same 64 bytes (sign, public_key).                  *)
(* Failure kinds are not compared ("same key, or failure").  A HostPanic event matches nothing.  *)
EXTENDS K1Backends, TraceIO
LOCAL INSTANCE Hex
LOCAL BNt == INSTANCE BigNat
VARIABLE l
trVars == <<cls, op, stage, verdict, l>>

e == Rec[l]

TrInit == /\ cls = NoSig /\ op = [op |-> "public_key", pkc |-> "none", mc |-> "na"]
          /\ stage = [b \in Backends |-> "done"] /\ verdict = [b \in Backends |-> "d*G"]
          /\ l = 1

RealVerdict(res) == IF ~res.ok THEN "fail"
                    ELSE IF e.op = "recover" THEN (IF res.pk = e.signer THEN "signer" ELSE "otherkey")
                    ELSE "ok"

LabelBound == /\ SigClassOf(e.sig, e.ry) = [rc |-> e.cls.rc, sc |-> e.cls.sc, bit |-> e.cls.bit]
              /\ WellFormedSig(e.cls)
CraftBound == Has(e, "craft") =>
              /\ EcdsaEq(SigR(e.sig), SigS(e.sig), UnBE(e.craft.z), UnBE(e.craft.k), UnBE(e.craft.d))
              /\ e.cls.rel = "valid"
              /\ (e.cls.msg = "signed") = (e.m = e.craft.z)
PkBound == e.op = "verify" =>
           /\ (e.pkc = "signer" => e.pk = e.signer)
           /\ (e.pkc = "other" => e.pk # e.signer)
           /\ (e.pkc = "zero" => IsZero(e.pk))
           /\ (e.pkc = "offcurve" => ~CertOk(UnBE(Slice(e.pk, 0, 32)), Slice(e.pk, 32, 32)))

\* the property, on the real results
AgreeReal == /\ e.std.ok = e.port.ok
             /\ ((e.std.ok /\ e.op = "recover") => e.std.pk = e.port.pk)

(***************************************************************************)
(* Second pass over a segment whose strict validation ended in a class     *)
(* listed in known_findings.json: the driver names the class in env        *)
(* K1_KNOWN and exactly the SHAPE of that finding is admitted, so that any *)
(* other disagreement inside the same segment is still rejected.           *)
(*   high-s   : recover, r an x-coordinate, s high: std returns a key and  *)
(*              portable fails                                             *)
(*   sign-ge-n: sign, message value >= n: both succeed, bytes differ       *)
(***************************************************************************)
LOCAL INSTANCE IOUtils
Known(tag) == "K1_KNOWN" \in DOMAIN IOEnv /\ \E i \in 1..(Len(IOEnv.K1_KNOWN) - Len(tag) + 1) : SubSeq(IOEnv.K1_KNOWN, i, i + Len(tag) - 1) = tag
KnownHighS == /\ Known("high-s")
              /\ e.op = "recover" /\ e.cls.rc = "x" /\ e.cls.sc = "high"
              /\ e.std.ok /\ ~e.port.ok
KnownSignGeN == /\ Known("sign-ge-n")
                /\ e.mc = "ge_n"
                /\ BLen(e.port.sig) = 64

TSeg == /\ IsEv(l, "Seg")
        /\ UNCHANGED <<cls, op, stage, verdict>>
TSummary == /\ IsEv(l, "Summary")
            /\ UNCHANGED <<cls, op, stage, verdict>>
TK1 == /\ IsEv(l, "K1")
       /\ e.op \in {"recover", "verify"}
       /\ LabelBound
       /\ CraftBound
       /\ PkBound
       /\ (AgreeReal \/ KnownHighS)
       /\ cls' = e.cls
       /\ op' = [op |-> e.op, pkc |-> e.pkc, mc |-> "na"]
       /\ stage' = [b \in Backends |-> "done"]
       /\ verdict' = [b \in Backends |-> IF b = "std" THEN RealVerdict(e.std) ELSE RealVerdict(e.port)]
TK1Sign == /\ IsEv(l, "K1Sign")
           /\ e.std.ok /\ e.port.ok
           /\ e.mc = MsgClassOf(e.m)
           /\ BLen(e.std.sig) = 64
           /\ (e.std.sig = e.port.sig \/ KnownSignGeN)
           /\ UNCHANGED <<cls, op, stage, verdict>>
TK1Pub == /\ IsEv(l, "K1Pub")
          /\ e.std.ok /\ e.port.ok
          /\ BLen(e.std.pk) = 64
          /\ e.std.pk = e.port.pk
          /\ UNCHANGED <<cls, op, stage, verdict>>

TrNext == (TSeg \/ TSummary \/ TK1 \/ TK1Sign \/ TK1Pub) /\ l' = l + 1
TrSpec == TrInit /\ [][TrNext]_trVars
\* on the real verdict classes (not only on the model): the two backends end in the same class
TraceAgree == \/ verdict["std"] = verdict["portable"]
              \/ (Known("high-s") /\ op.op = "recover" /\ cls.rc = "x" /\ cls.sc = "high" /\ verdict["portable"] = "fail")
=============================================================================
