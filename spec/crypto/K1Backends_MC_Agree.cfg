SPECIFICATION MCSpec
CONSTANTS
  EmitReplay = FALSE
INVARIANTS Agree
CHECK_DEADLOCK FALSE
