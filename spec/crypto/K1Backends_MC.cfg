SPECIFICATION MCSpec
CONSTANTS
  EmitReplay = TRUE
INVARIANTS KBTypeOK VerdictShape AgreeVerify AgreePub NoForgery Complete Terminates Emit
CHECK_DEADLOCK FALSE
