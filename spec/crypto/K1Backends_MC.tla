--------------------------- MODULE K1Backends_MC ---------------------------
(* Leg M: TLC runs both pipelines over EVERY (signature class, operation) pair and evaluates     *)
(* Agree in every terminal state.  Leg R generator: one REPLAY line per pair with the verdict    *)
(* class each pipeline ends in and TLC's evaluation of Agree - the class table the harness must  *)
(* realise with concrete witnesses on both real backends.                                        *)
EXTENDS K1Backends, Json
CONSTANT EmitReplay

MCSpec == KBInit /\ [][KBNext]_kbVars

Line == [cls |-> cls, op |-> op.op, pkc |-> op.pkc, mc |-> op.mc, std |-> verdict["std"], portable |-> verdict["portable"],
         agree |-> (verdict["std"] = verdict["portable"])]
Emit == (EmitReplay /\ AllDone) => PrintT("REPLAY" \o ToJson(Line))
\* every pipeline terminates: a state without successor is a terminal state
Terminates == (~AllDone) => ENABLED KBNext
=============================================================================
