---------------------------- MODULE SigScheme_MC ----------------------------
(* Leg M for C17: the ideal functionality of SigScheme composed with an ABSTRACT honest ECDSA-like  *)
(* scheme (signatures are tagged by (key, message); recovery with the wrong message, a flipped      *)
(* recovery bit or a tampered s yields a non-honest key or fails; verification ignores the recovery *)
(* bit).  TLC explores every history of sign / recover / verify / instruction steps up to MaxLen    *)
(* and checks (a) the invariants of the functionality, (b) Admits: in every reachable state the     *)
(* functionality accepts every answer of the honest scheme (the laws are satisfiable, the trace     *)
(* specification cannot reject a correct implementation for a reason internal to the spec), and     *)
(* (c) Discriminates: answers of four broken schemes are refused somewhere (the laws are not vacuous).*)
EXTENDS SigScheme
LOCAL INSTANCE Hex
LOCAL BNm == INSTANCE BigNat
CONSTANTS MaxLen, NKeys, NMsgs

VARIABLE steps
mcVars == <<keys, signed, lib, steps>>

KeyIdx == 1..NKeys
MsgIdx == 1..NMsgs
Sk(k) == BE(k, 32)
Pk(k) == BE(k, 64)
Msg(m) == BE(16 + m, 32)
RightBit(k, m) == (k + m) % 2
\* signature tagged by (k, m): r = k, s = m; t = 1 adds a tampering of s
SigOf(k, m, bit, t) == BE(k, 32) \o (IF bit = 1 THEN "80" ELSE "00") \o BE(m + 8 * t, 31)
OtherKey(k, m, m2, bit, t) == BE(4096 + 512 * k + 64 * m + 8 * m2 + 2 * t + bit, 64)   \* a key nobody owns

SigPool == {[k |-> k, m |-> m, bit |-> b, t |-> t] : k \in KeyIdx, m \in MsgIdx, b \in {0, 1}, t \in {0, 1}}
Bytes(x) == SigOf(x.k, x.m, x.bit, x.t)

\* the honest abstract scheme
ImplRecover(x, m2) == IF x.t = 0 /\ x.m = m2 /\ x.bit = RightBit(x.k, x.m) THEN [ok |-> TRUE, pk |-> Pk(x.k)]
                      ELSE IF (x.k + x.m + m2 + x.t) % 3 = 0 THEN [ok |-> FALSE, pk |-> ""]
                      ELSE [ok |-> TRUE, pk |-> OtherKey(x.k, x.m, m2, x.bit, x.t)]
ImplVerify(x, k2, m2) == x.t = 0 /\ x.k = k2 /\ x.m = m2
\* a signature can be presented only after it was made (tampered forms derive from it)
Known(x) == [alg |-> "k1", pk |-> Pk(x.k), m |-> Msg(x.m), sig |-> SigOf(x.k, x.m, RightBit(x.k, x.m), 0)] \in signed

MCInit == /\ keys = {[alg |-> "k1", sk |-> Sk(k), pk |-> Pk(k)] : k \in KeyIdx}
          /\ signed = {} /\ lib = <<>> /\ steps = 0

Bounded == steps < MaxLen
ASign == /\ Bounded
         /\ \E k \in KeyIdx, m \in MsgIdx : Sign("k1", Sk(k), Msg(m), SigOf(k, m, RightBit(k, m), 0))
         /\ steps' = steps + 1
ARecover == /\ Bounded
            /\ \E x \in SigPool, m2 \in MsgIdx :
                 /\ Known(x)
                 /\ LET r == ImplRecover(x, m2) IN Recover("k1", Bytes(x), Msg(m2), r.ok, r.pk)
            /\ steps' = steps + 1
AVerify == /\ Bounded
           /\ \E x \in SigPool, k2 \in KeyIdx, m2 \in MsgIdx :
                 /\ Known(x)
                 /\ Verify(Bytes(x), Pk(k2), Msg(m2), ImplVerify(x, k2, m2))
           /\ steps' = steps + 1
AVm == /\ Bounded
       /\ \E q \in DOMAIN lib :
            /\ q[1] = "recover"
            /\ VmRecover(q[2], q[3], q[4], "Success", IF lib[q].ok THEN lib[q].pk ELSE Zero64, IF lib[q].ok THEN 0 ELSE 1)
       /\ steps' = steps + 1
MCNext == ASign \/ ARecover \/ AVerify \/ AVm
MCSpec == MCInit /\ [][MCNext]_mcVars

\* (b) the functionality admits the honest scheme in every reachable state
Admits == /\ \A x \in SigPool, m2 \in MsgIdx : Known(x) =>
                LET r == ImplRecover(x, m2) IN RecoverOk("k1", Bytes(x), Msg(m2), r.ok, r.pk)
          /\ \A x \in SigPool, k2 \in KeyIdx, m2 \in MsgIdx : Known(x) =>
                VerifyOk(Bytes(x), Pk(k2), Msg(m2), ImplVerify(x, k2, m2))

\* (c) broken schemes are refused as soon as something was signed
SomeSigned == \E x \in SigPool : x.t = 0 /\ x.bit = RightBit(x.k, x.m) /\ Known(x)
Discriminates == SomeSigned =>
    /\ \E x \in SigPool, m2 \in MsgIdx :      \* recovery that ignores the message
          Known(x) /\ ~RecoverOk("k1", Bytes(x), Msg(m2), TRUE, Pk(x.k)) /\ x.m # m2
    /\ \E x \in SigPool :                     \* recovery that ignores the recovery bit
          Known(x) /\ x.bit # RightBit(x.k, x.m) /\ ~RecoverOk("k1", Bytes(x), Msg(x.m), TRUE, Pk(x.k))
    /\ \E x \in SigPool :                     \* recovery that fails on a signed triple
          Known(x) /\ ~RecoverOk("k1", Bytes(x), Msg(x.m), FALSE, "")
    /\ \E x \in SigPool :                     \* verification that accepts a tampered s
          Known(x) /\ x.t = 1 /\ ~VerifyOk(Bytes(x), Pk(x.k), Msg(x.m), TRUE)
    /\ \E x \in SigPool :                     \* verification that depends on the recovery bit
          Known(x) /\ x.t = 0 /\ x.bit # RightBit(x.k, x.m) /\ ~VerifyOk(Bytes(x), Pk(x.k), Msg(x.m), FALSE)
=============================================================================
