----------------------------- MODULE K1Backends -----------------------------
(***************************************************************************)
(* C16 - the two secp256k1 backends of fuel-crypto (std => libsecp256k1,   *)
(* no-std => k256) must agree on every 64-byte compact signature.          *)
(*                                                                         *)
(* TLC cannot decide anything about curve arithmetic.  What this module    *)
(* contributes is                                                          *)
(*  (1) the CLASS LATTICE of 64-byte signatures, defined on the raw bytes  *)
(*      from the Fuel signature format (r = bytes 0..32, recovery bit =    *)
(*      top bit of byte 32, s = the remaining 255 bits) and SEC 1 / the    *)
(*      curve parameters: r in {0, x-coordinate, not an x-coordinate,      *)
(*      >= n}, s in {0, low, high}; an s >= n is not expressible because   *)
(*      2^255 < n;                                                         *)
(*  (2) each backend's acceptance pipeline as a sequence of actions that   *)
(*      ends in a verdict class, written from the documented acceptance    *)
(*      rules of the two libraries;                                        *)
(*  (3) the property Agree over all classes (Leg M), whose design-level    *)
(*      counterexamples name the classes to confirm on the real code.      *)
(* The verdict on the CODE rests on real-vs-real agreement (K1Backends_    *)
(* Trace): TLC classifies every recorded input itself and requires both    *)
(* real backends to have returned the same result.                         *)
(***************************************************************************)
EXTENDS Naturals, Sequences, FiniteSets, TLC
LOCAL BN == INSTANCE BigNat
LOCAL INSTANCE Hex

\* ---- curve parameters (SEC 2, secp256k1) ----
N == BN!FromHex("fffffffffffffffffffffffffffffffebaaedce6af48a03bbfd25e8cd0364141")
P == BN!FromHex("fffffffffffffffffffffffffffffffffffffffffffffffffffffffefffffc2f")
HalfN  == BN!Shr(N, 1)                   \* floor(n/2) = (n-1)/2; s is "low" iff 1 <= s <= HalfN
Two255 == BN!Shl("1", 255)

\* ---- the Fuel compact format: what the 64 bytes denote ----
SigR(sig)   == UnBE(Slice(sig, 0, 32))
SigBit(sig) == BitAt(sig, 256)                                  \* top bit of byte 32
SigS(sig)   == BN!Mod(UnBE(Slice(sig, 32, 32)), Two255)         \* the other 255 bits

MulP(a, b) == BN!Mod(BN!Mul(a, b), P)
Rhs(x) == BN!Mod(BN!Add(MulP(MulP(x, x), x), "7"), P)           \* x^3 + 7 mod p
RECURSIVE PowModP(_, _, _)
PowModP(b, ex, acc) == IF ex = "0" THEN acc
                       ELSE PowModP(MulP(b, b), BN!Shr(ex, 1), IF BN!And(ex, "1") = "1" THEN MulP(acc, b) ELSE acc)
\* Euler's criterion: x (< p) is the x-coordinate of a curve point iff x^3+7 is a square mod p
IsXCoord(x) == PowModP(Rhs(x), BN!Shr(BN!Sub(P, "1"), 1), "1") \in {"0", "1"}
\* Certificates (hex, may be "") make both cases cheap to check: y^2 = x^3+7 proves "x-coordinate";
\* y^2 = -(x^3+7) # 0 proves "not an x-coordinate" because -1 is a non-residue (p = 3 mod 4).
CertOk(x, y) == y # "" /\ BN!Lt(UnBE(y), P) /\ MulP(UnBE(y), UnBE(y)) = Rhs(x)
NonXCertOk(x, y) == /\ y # "" /\ BN!Lt(UnBE(y), P) /\ Rhs(x) # "0"
                    /\ MulP(UnBE(y), UnBE(y)) = BN!Sub(P, Rhs(x))

RClassOf(r, cert) == IF r = "0" THEN "zero"
                     ELSE IF BN!Le(N, r) THEN "ge_n"
                     ELSE IF CertOk(r, cert) THEN "x"
                     ELSE IF NonXCertOk(r, cert) THEN "nonx"
                     ELSE IF IsXCoord(r) THEN "x" ELSE "nonx"
SClassOf(s) == IF s = "0" THEN "zero" ELSE IF BN!Le(s, HalfN) THEN "low" ELSE "high"
SigClassOf(sig, cert) == [rc |-> RClassOf(SigR(sig), cert), sc |-> SClassOf(SigS(sig)), bit |-> SigBit(sig)]

\* ECDSA signing equation for a witness built from a chosen nonce k, key d and chosen s:
\* s*k = z + r*d (mod n)
EcdsaEq(r, s, z, k, d) == BN!Mod(BN!Mul(s, k), N) = BN!Mod(BN!Add(BN!Mod(z, N), BN!Mul(r, d)), N)

\* ---- abstract classes ----
RC == {"zero", "x", "nonx", "ge_n"}
SC == {"zero", "low", "high"}
\* rel = "valid": (r, s) is an ECDSA signature of the signed message under the signer's key
\* (possibly with a non-normalised s); bitok: the recovery bit is the parity of the nonce point.
SigClass == [rc : RC, sc : SC, bit : {0, 1}, rel : {"valid", "unrelated"}, bitok : BOOLEAN, msg : {"signed", "other"}]
WellFormedSig(c) == /\ (c.rel = "valid" => (c.rc = "x" /\ c.sc \in {"low", "high"}))
                    /\ (c.rel = "unrelated" => (c.bitok = FALSE /\ c.msg = "other"))
PkClass == {"signer", "other", "offcurve", "zero", "recovered"}
\* the mathematically recovered key exists iff r is an x-coordinate and s # 0 (a point at infinity
\* has probability 2^-256 and is ignored)
HasRecovered(c) == c.rc = "x" /\ c.sc # "zero"
\* mc: class of the 32-byte message as a number, relevant to signing only (nonce derivation)
Ops == [op : {"recover", "public_key"}, pkc : {"none"}, mc : {"na"}]
       \cup [op : {"verify"}, pkc : PkClass, mc : {"na"}]
       \cup [op : {"sign"}, pkc : {"none"}, mc : {"lt_n", "ge_n"}]
MsgClassOf(m) == IF BN!Le(N, UnBE(m)) THEN "ge_n" ELSE "lt_n"
\* sign / public_key take a secret key and a message, not a signature: one canonical dummy class
NoSig == [rc |-> "x", sc |-> "low", bit |-> 0, rel |-> "valid", bitok |-> TRUE, msg |-> "signed"]
WellFormedCase(c, o) == /\ WellFormedSig(c)
                        /\ (o.pkc = "recovered" => HasRecovered(c))
                        /\ (o.op \in {"sign", "public_key"} => c = NoSig)

\* what the mathematics gives once the inputs are admitted
RecoveredIs(c) == IF c.rel = "valid" /\ c.bitok /\ c.msg = "signed" THEN "signer" ELSE "otherkey"
ValidFor(c, pkc) == CASE pkc = "signer" -> c.rel = "valid" /\ c.msg = "signed"
                      [] pkc = "recovered" -> TRUE
                      [] OTHER -> FALSE

Backends == {"std", "portable"}

VARIABLES cls, op, stage, verdict
kbVars == <<cls, op, stage, verdict>>
TakesSig == op.op \in {"recover", "verify"}

KBInit == /\ cls \in SigClass /\ op \in Ops /\ WellFormedCase(cls, op)
          /\ stage = [b \in Backends |-> "decode"]
          /\ verdict = [b \in Backends |-> "none"]

Goto(b, st) == stage' = [stage EXCEPT ![b] = st] /\ UNCHANGED <<cls, op, verdict>>
Finish(b, v) == stage' = [stage EXCEPT ![b] = "done"] /\ verdict' = [verdict EXCEPT ![b] = v] /\ UNCHANGED <<cls, op>>

\* decode_signature: splits off the recovery bit, cannot fail (shared by both backends)
Decode(b) == /\ stage[b] = "decode" /\ TakesSig
             /\ Goto(b, IF op.op = "verify" /\ b = "portable" THEN "pk" ELSE "parse")

(***************************************************************************)
(* std backend = libsecp256k1 through rust-secp256k1.                      *)
(*  parse_compact rejects only overflow (r or s >= n); recover rejects     *)
(*  r = 0, s = 0 and an r that is not an x-coordinate, and has NO low-s    *)
(*  rule; verify rejects zero, non-normalised (high) s, and wrong          *)
(*  signatures; the public key is parsed after the signature.              *)
(***************************************************************************)
StdParse == /\ stage["std"] = "parse"
            /\ IF cls.rc = "ge_n" THEN Finish("std", "fail")
               ELSE Goto("std", IF op.op = "verify" THEN "pk" ELSE "math")
StdPk == /\ stage["std"] = "pk"
         /\ IF op.pkc \in {"offcurve", "zero"} THEN Finish("std", "fail") ELSE Goto("std", "math")
StdMath == /\ stage["std"] = "math"
           /\ IF cls.rc \in {"zero", "nonx"} \/ cls.sc = "zero" THEN Finish("std", "fail")
              ELSE IF op.op = "recover" THEN Finish("std", RecoveredIs(cls))
              ELSE IF cls.sc = "high" THEN Finish("std", "fail")
              ELSE Finish("std", IF ValidFor(cls, op.pkc) THEN "ok" ELSE "fail")

(***************************************************************************)
(* portable backend = k256 / ecdsa.                                        *)
(*  verify parses the public key first; Signature::from_slice rejects      *)
(*  zero and >= n scalars; recover_from_prehash lifts r, computes the key  *)
(*  and then VERIFIES the signature under the recovered key; k256's        *)
(*  verification rejects a high s.                                         *)
(***************************************************************************)
PortPk == /\ stage["portable"] = "pk"
          /\ IF op.pkc \in {"offcurve", "zero"} THEN Finish("portable", "fail") ELSE Goto("portable", "parse")
PortParse == /\ stage["portable"] = "parse"
             /\ IF cls.rc \in {"zero", "ge_n"} \/ cls.sc = "zero" THEN Finish("portable", "fail")
                ELSE Goto("portable", "math")
PortMath == /\ stage["portable"] = "math"
            /\ IF cls.rc = "nonx" THEN Finish("portable", "fail")
               ELSE IF op.op = "recover" THEN Goto("portable", "reverify")
               ELSE IF cls.sc = "high" THEN Finish("portable", "fail")
               ELSE Finish("portable", IF ValidFor(cls, op.pkc) THEN "ok" ELSE "fail")
PortReverify == /\ stage["portable"] = "reverify"
                /\ IF cls.sc = "high" THEN Finish("portable", "fail") ELSE Finish("portable", RecoveredIs(cls))

(***************************************************************************)
(* sign / public_key.  Both libraries derive the nonce with RFC 6979       *)
(* (HMAC-SHA256, no extra entropy), return the low-s form, and Fuel stores *)
(* the parity of the nonce point AFTER normalisation (libsecp256k1 reports *)
(* it; the k256 wrapper finds it by trial recovery against the signer's    *)
(* key).  They differ in what they feed to the nonce derivation:           *)
(* libsecp256k1 hashes the 32 message bytes as given, the ecdsa crate      *)
(* hashes bits2octets(message) = the message reduced mod n (RFC 6979       *)
(* section 2.3.4) - the same bytes iff the message is < n.  The verdict is *)
(* the tuple of these choices: equal choices give equal bytes because      *)
(* ECDSA with a fixed nonce is a function.                                 *)
(***************************************************************************)
NonceInput(b) == IF op.mc = "lt_n" THEN "msg"            \* raw = reduced
                 ELSE IF b = "std" THEN "raw-msg" ELSE "msg-mod-n"
SignVerdict(b) == "rfc6979(" \o NonceInput(b) \o ")/low-s/parity-of-normalised-R"
KeyOp(b) == /\ stage[b] = "decode" /\ ~TakesSig
            /\ Finish(b, IF op.op = "public_key" THEN "d*G" ELSE SignVerdict(b))

DecodeAny == \E b \in Backends : Decode(b)
KeyOpAny == \E b \in Backends : KeyOp(b)
KBNext == DecodeAny \/ KeyOpAny \/ StdParse \/ StdPk \/ StdMath \/ PortPk \/ PortParse \/ PortMath \/ PortReverify

AllDone == \A b \in Backends : stage[b] = "done"

\* ---- properties ----
KBTypeOK == /\ cls \in SigClass /\ op \in Ops
            /\ stage \in [Backends -> {"decode", "parse", "pk", "math", "reverify", "done"}]
            /\ \A b \in Backends : verdict[b] \in STRING
VerdictShape == AllDone => (\A b \in Backends :
                    CASE op.op = "recover" -> verdict[b] \in {"fail", "signer", "otherkey"}
                      [] op.op = "verify" -> verdict[b] \in {"fail", "ok"}
                      [] OTHER -> verdict[b] \notin {"none", "fail"})
\* THE property (C16) on the design
Agree == AllDone => verdict["std"] = verdict["portable"]
\* its parts
AgreeVerify  == (AllDone /\ op.op = "verify") => verdict["std"] = verdict["portable"]
AgreeRecover == (AllDone /\ op.op = "recover") => verdict["std"] = verdict["portable"]
AgreeSign    == (AllDone /\ op.op = "sign") => verdict["std"] = verdict["portable"]
AgreePub     == (AllDone /\ op.op = "public_key") => verdict["std"] = verdict["portable"]
\* a backend never returns the signer's key for an input that is not the signer's signature
NoForgery == AllDone => \A b \in Backends :
                 /\ (verdict[b] = "signer" => (cls.rel = "valid" /\ cls.msg = "signed" /\ cls.bitok))
                 /\ ((verdict[b] = "ok" /\ op.pkc = "signer") => (cls.rel = "valid" /\ cls.msg = "signed"))
\* both backends accept every normalised signature the signer made
Complete == (AllDone /\ cls.rel = "valid" /\ cls.sc = "low" /\ cls.msg = "signed") => \A b \in Backends :
                 /\ ((op.op = "recover" /\ cls.bitok) => verdict[b] = "signer")
                 /\ ((op.op = "verify" /\ op.pkc = "signer") => verdict[b] = "ok")
=============================================================================
