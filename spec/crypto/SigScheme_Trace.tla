--------------------------- MODULE SigScheme_Trace ---------------------------
(* impl -> spec for C17: a history recorded from fuel-crypto (secp256k1 Signature / SecretKey /   *)
(* PublicKey, secp256r1 sign_prehashed / recover, ed25519::verify) and from the VM instructions   *)
(* ECK1 / ECR1 / ED19 is accepted iff every event is an action of the ideal functionality         *)
(* SigScheme with the logged arguments and results.  `Seg` starts a new independent history.      *)
(* A HostPanic event (e.g. the normalisation assertion of encode_signature firing) matches nothing.*)
EXTENDS SigScheme, TraceIO
LOCAL INSTANCE Hex
VARIABLE l
trVars == <<keys, signed, lib, l>>
e == Rec[l]

TrInit == SSInit /\ l = 1

TSeg == /\ IsEv(l, "Seg")
        /\ keys' = {} /\ signed' = {} /\ lib' = <<>>
TKey == /\ IsEv(l, "Key")
        /\ BLen(e.pk) = (IF e.alg = "ed" THEN 32 ELSE 64)
        /\ NewKey(e.alg, e.sk, e.pk)
TSign == /\ IsEv(l, "Sign")
         /\ e.ok
         /\ Sign(e.alg, e.sk, e.m, e.sig)
\* a re-encoded signature (hex / serde / byte conversions) is judged as the signature it re-encodes
AsSigned == IF Has(e, "reenc_of") THEN e.reenc_of ELSE e.sig
TRecover == /\ IsEv(l, "Recover")
            /\ e.alg \in EcAlgs
            /\ RecoverOk(e.alg, AsSigned, e.m, e.ok, IF e.ok THEN e.pk ELSE "")
            /\ Recover(e.alg, e.sig, e.m, e.ok, IF e.ok THEN e.pk ELSE "")
TVerify == /\ IsEv(l, "Verify")
           /\ VerifyOk(AsSigned, e.pk, e.m, e.ok)
           /\ Verify(e.sig, e.pk, e.m, e.ok)
TEdVerify == /\ IsEv(l, "EdVerify")
             /\ EdVerify(e.pk, e.sig, e.m, e.ok, e.strict)
TVmRecover == /\ IsEv(l, "VmRecover")
              /\ VmRecover(e.alg, e.sig, e.m, e.result, e.out, e.err)
TVmEd == /\ IsEv(l, "VmEd")
         /\ VmEd(e.pk, e.sig, e.mem, e.len, e.result, e.err)

TrNext == (TSeg \/ TKey \/ TSign \/ TRecover \/ TVerify \/ TEdVerify \/ TVmRecover \/ TVmEd) /\ l' = l + 1
TrSpec == TrInit /\ [][TrNext]_trVars
=============================================================================
