------------------------------ MODULE SigScheme ------------------------------
(***************************************************************************)
(* C17 - signing, recovery and verification are mutually consistent.       *)
(*                                                                         *)
(* The IDEAL SIGNATURE FUNCTIONALITY over histories.  The state is the set *)
(* of triples produced by Sign; every later observation is judged against  *)
(* it, never against a computation of the curve arithmetic (TLC cannot do  *)
(* that - see the level note of the check):                                *)
(*   Sign(k, m)        returns a NORMALISED 64-byte signature: 1 <= r < n, *)
(*                     1 <= s <= (n-1)/2, so the top bit of byte 32 is     *)
(*                     free and carries the recovery bit;                  *)
(*   Recover(sig, m)   returns pk(k) when <<pk(k), m, sig>> was signed and *)
(*                     returns an honest key ONLY for a signed triple (not *)
(*                     for another message, not for a tampered signature); *)
(*   Verify(sig,pk,m)  for an honest pk accepts exactly the signed         *)
(*                     triples, the recovery bit being irrelevant;         *)
(*   Ed25519           the verdict equals the reference verdict under      *)
(*                     strict verification (an environment oracle recorded *)
(*                     from ed25519-dalek verify_strict), and in addition  *)
(*                     TLC itself enforces the checkable parts of strict   *)
(*                     verification: s < L, neither A nor R one of the     *)
(*                     small-order encodings, reference-signed triples are *)
(*                     accepted, honest keys accept only signed triples;   *)
(*   ECK1/ECR1/ED19    write exactly the library's result: the key or 64   *)
(*                     zero bytes, $err = 0 / 1, and do not panic.         *)
(***************************************************************************)
EXTENDS Naturals, Sequences, FiniteSets, TLC
LOCAL BN == INSTANCE BigNat
LOCAL INSTANCE Hex

\* ---- group orders (SEC 2 secp256k1, FIPS 186 P-256, RFC 8032 L) ----
OrderOf(alg) == IF alg = "k1" THEN BN!FromHex("fffffffffffffffffffffffffffffffebaaedce6af48a03bbfd25e8cd0364141")
                ELSE BN!FromHex("ffffffff00000000ffffffffffffffffbce6faada7179e84f3b9cac2fc632551")
EdL == BN!FromHex("1000000000000000000000000000000014def9dea2f79cd65812631a5cf5d3ed")
Two255 == BN!Shl("1", 255)
EcAlgs == {"k1", "r1"}

\* ---- the Fuel compact format ----
SigR(sig)   == UnBE(Slice(sig, 0, 32))
SigBit(sig) == BitAt(sig, 256)
SigS(sig)   == BN!Mod(UnBE(Slice(sig, 32, 32)), Two255)
NoBit(sig)  == Slice(sig, 0, 32) \o BEBig(SigS(sig), 32)            \* the signature with the recovery bit cleared
Normalized(alg, sig) ==
    LET n == OrderOf(alg) IN
    /\ BLen(sig) = 64
    /\ SigR(sig) # "0" /\ BN!Lt(SigR(sig), n)
    /\ SigS(sig) # "0" /\ BN!Le(SigS(sig), BN!Shr(n, 1))

\* ---- Ed25519 (RFC 8032): little-endian s in bytes 32..64; encodings of the 8 torsion points ----
RECURSIVE RevBytes(_)
RevBytes(h) == IF Len(h) = 0 THEN "" ELSE RevBytes(SubSeq(h, 3, Len(h))) \o SubSeq(h, 1, 2)
EdS(sig) == UnBE(RevBytes(Slice(sig, 32, 32)))
EdSCanonical(sig) == BN!Lt(EdS(sig), EdL)
SmallOrderEnc == {
    "0100000000000000000000000000000000000000000000000000000000000000",
    "ecffffffffffffffffffffffffffffffffffffffffffffffffffffffffffff7f",
    "0000000000000000000000000000000000000000000000000000000000000000",
    "0000000000000000000000000000000000000000000000000000000000000080",
    "26e8958fc2b227b045c3f489f2ef98f0d5dfac05d3c63339b13802886d53fc05",
    "26e8958fc2b227b045c3f489f2ef98f0d5dfac05d3c63339b13802886d53fc85",
    "c7176a703d4dd84fba3c0b760d10670f2a2053fa2c39ccc64ec7fd7792ac037a",
    "c7176a703d4dd84fba3c0b760d10670f2a2053fa2c39ccc64ec7fd7792ac03fa" }

Zero64 == Zeros(64)

VARIABLES
    keys,     \* set of [alg, sk, pk]: the honest keys (pk is what the library derived from sk)
    signed,   \* set of [alg, pk, m, sig]: what Sign produced
    lib       \* query -> result of the library, for binding the VM instructions to it
ssVars == <<keys, signed, lib>>

SSInit == keys = {} /\ signed = {} /\ lib = <<>>

HonestPk(alg) == {k.pk : k \in {x \in keys : x.alg = alg}}

\* key derivation is an injective function of the secret
NewKey(alg, sk, pk) ==
    /\ \A k \in keys : (k.alg = alg) => ((k.sk = sk) <=> (k.pk = pk))
    /\ keys' = keys \cup {[alg |-> alg, sk |-> sk, pk |-> pk]}
    /\ UNCHANGED <<signed, lib>>

Sign(alg, sk, m, sig) ==
    /\ \E k \in keys :
        /\ k.alg = alg /\ k.sk = sk
        /\ signed' = signed \cup {[alg |-> alg, pk |-> k.pk, m |-> m, sig |-> sig]}
    /\ (alg \in EcAlgs => Normalized(alg, sig))
    /\ UNCHANGED <<keys, lib>>

\* what Recover may answer in the current state
RecoverOk(alg, sig, m, ok, pk) ==
    /\ \A t \in signed : (t.alg = alg /\ t.sig = sig /\ t.m = m) => (ok /\ pk = t.pk)
    /\ (ok /\ pk \in HonestPk(alg)) => ([alg |-> alg, pk |-> pk, m |-> m, sig |-> sig] \in signed)
    /\ (ok => BLen(pk) = 64)

\* what Verify (secp256k1 only) may answer for an honest key; free for any other 64 bytes
VerifyOk(sig, pk, m, ok) ==
    (pk \in HonestPk("k1")) =>
        (ok <=> \E t \in signed : t.alg = "k1" /\ t.pk = pk /\ t.m = m /\ NoBit(t.sig) = NoBit(sig))

EdVerifyOk(pk, sig, m, ok, strict) ==
    /\ ok = strict
    /\ (~EdSCanonical(sig)) => ~ok
    /\ (pk \in SmallOrderEnc) => ~ok
    /\ (Slice(sig, 0, 32) \in SmallOrderEnc) => ~ok
    /\ ([alg |-> "ed", pk |-> pk, m |-> m, sig |-> sig] \in signed) => ok
    /\ (ok /\ pk \in HonestPk("ed")) => ([alg |-> "ed", pk |-> pk, m |-> m, sig |-> sig] \in signed)

\* the library is a function of its arguments
Remember(q, res) ==
    /\ (q \in DOMAIN lib => lib[q] = res)
    /\ lib' = (q :> res) @@ lib

Recover(alg, sig, m, ok, pk) ==
    /\ RecoverOk(alg, sig, m, ok, pk)
    /\ Remember(<<"recover", alg, sig, m>>, [ok |-> ok, pk |-> IF ok THEN pk ELSE ""])
    /\ UNCHANGED <<keys, signed>>

Verify(sig, pk, m, ok) ==
    /\ VerifyOk(sig, pk, m, ok)
    /\ Remember(<<"verify", sig, pk, m>>, [ok |-> ok, pk |-> ""])
    /\ UNCHANGED <<keys, signed>>

EdVerify(pk, sig, m, ok, strict) ==
    /\ EdVerifyOk(pk, sig, m, ok, strict)
    /\ Remember(<<"edverify", pk, sig, m>>, [ok |-> ok, pk |-> ""])
    /\ UNCHANGED <<keys, signed>>

\* ---- the VM instructions: exactly the library's result ----
\* ECK1 / ECR1: out = the 64 bytes at $rA afterwards, err = $err afterwards
VmRecover(alg, sig, m, result, out, err) ==
    /\ <<"recover", alg, sig, m>> \in DOMAIN lib
    /\ LET r == lib[<<"recover", alg, sig, m>>] IN
        /\ result = "Success"
        /\ out = (IF r.ok THEN r.pk ELSE Zero64)
        /\ err = (IF r.ok THEN 0 ELSE 1)
    /\ UNCHANGED ssVars

\* ED19: the message is the `len` bytes at $rC, or 32 bytes when the length register is 0
EdMessage(mem, len) == IF len = 0 THEN Slice(mem, 0, 32) ELSE Slice(mem, 0, len)
VmEd(pk, sig, mem, len, result, err) ==
    /\ BLen(mem) >= (IF len = 0 THEN 32 ELSE len)
    /\ <<"edverify", pk, sig, EdMessage(mem, len)>> \in DOMAIN lib
    /\ result = "Success"
    /\ err = (IF lib[<<"edverify", pk, sig, EdMessage(mem, len)>>].ok THEN 0 ELSE 1)
    /\ UNCHANGED ssVars

\* ---- invariants of the functionality (checked on the model and on every state of a trace) ----
KeysFunctional == \A a, b \in keys : (a.alg = b.alg) => ((a.sk = b.sk) <=> (a.pk = b.pk))
SignedByHonest == \A t \in signed : t.pk \in HonestPk(t.alg)
SignedNormalized == \A t \in signed : (t.alg \in EcAlgs) => Normalized(t.alg, t.sig)
\* the library never contradicted the history: every remembered answer is still a legal answer
LibConsistent == \A q \in DOMAIN lib :
    CASE q[1] = "recover" -> (\A t \in signed : (t.alg = q[2] /\ t.sig = q[3] /\ t.m = q[4]) => (lib[q].ok /\ lib[q].pk = t.pk))
      [] q[1] = "verify"  -> ((\E t \in signed : t.alg = "k1" /\ t.pk = q[3] /\ t.m = q[4] /\ NoBit(t.sig) = NoBit(q[2])) => lib[q].ok)
      [] OTHER -> TRUE
=============================================================================
