SPECIFICATION TrSpec
INVARIANTS KeysFunctional SignedByHonest
POSTCONDITION Accepted
CHECK_DEADLOCK FALSE
