SPECIFICATION MCSpec
CONSTANTS
  MaxLen = 3
  NKeys = 2
  NMsgs = 2
INVARIANTS KeysFunctional SignedByHonest SignedNormalized LibConsistent Admits Discriminates
CHECK_DEADLOCK FALSE
