SPECIFICATION TrSpec
INVARIANTS KBTypeOK TraceAgree
POSTCONDITION Accepted
CHECK_DEADLOCK FALSE
