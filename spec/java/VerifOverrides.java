import tlc2.overrides.ITLCOverrides;

// Registers the operator overrides used by the specifications in /verif/spec.
// Loaded with -Dtlc2.overrides.TLCOverrides=tlc2.overrides.TLCOverrides:VerifOverrides
public class VerifOverrides implements ITLCOverrides {
    @SuppressWarnings("rawtypes")
    @Override
    public Class[] get() {
        return new Class[] { VerifOps.class };
    }
}
