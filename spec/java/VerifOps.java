import java.math.BigInteger;
import java.security.MessageDigest;

import tlc2.overrides.TLAPlusOperator;
import tlc2.value.impl.BoolValue;
import tlc2.value.impl.IntValue;
import tlc2.value.impl.StringValue;
import tlc2.value.impl.Value;

// Primitive operators only: exact naturals denoted by decimal strings (module BigNat),
// SHA-256 over hex strings (module VerifHash), and a few hex-string helpers (module Hex)
// whose TLA+ definitions are in the modules. No case analysis of the system under
// verification lives here.
public final class VerifOps {
    private VerifOps() {}

    private static BigInteger n(Value v) {
        return new BigInteger(((StringValue) v).val.toString());
    }
    private static int i(Value v) { return ((IntValue) v).val; }
    private static Value s(BigInteger b) {
        if (b.signum() < 0) throw new RuntimeException("BigNat: negative result " + b);
        return new StringValue(b.toString());
    }
    private static String str(Value v) { return ((StringValue) v).val.toString(); }

    // ---------------- BigNat ----------------
    @TLAPlusOperator(identifier = "Add", module = "BigNat", warn = false)
    public static Value add(Value a, Value b) { return s(n(a).add(n(b))); }

    @TLAPlusOperator(identifier = "Sub", module = "BigNat", warn = false)
    public static Value sub(Value a, Value b) { return s(n(a).subtract(n(b))); }

    @TLAPlusOperator(identifier = "Mul", module = "BigNat", warn = false)
    public static Value mul(Value a, Value b) { return s(n(a).multiply(n(b))); }

    @TLAPlusOperator(identifier = "Div", module = "BigNat", warn = false)
    public static Value div(Value a, Value b) { return s(n(a).divide(n(b))); }

    @TLAPlusOperator(identifier = "Mod", module = "BigNat", warn = false)
    public static Value mod(Value a, Value b) { return s(n(a).mod(n(b))); }

    @TLAPlusOperator(identifier = "Pow", module = "BigNat", warn = false)
    public static Value pow(Value a, Value e) {
        BigInteger ee = n(e);
        if (ee.bitLength() > 20) throw new RuntimeException("BigNat!Pow: exponent too large");
        return s(n(a).pow(ee.intValueExact()));
    }

    @TLAPlusOperator(identifier = "Lt", module = "BigNat", warn = false)
    public static Value lt(Value a, Value b) { return n(a).compareTo(n(b)) < 0 ? BoolValue.ValTrue : BoolValue.ValFalse; }

    @TLAPlusOperator(identifier = "Le", module = "BigNat", warn = false)
    public static Value le(Value a, Value b) { return n(a).compareTo(n(b)) <= 0 ? BoolValue.ValTrue : BoolValue.ValFalse; }

    @TLAPlusOperator(identifier = "Shl", module = "BigNat", warn = false)
    public static Value shl(Value a, Value k) { return s(n(a).shiftLeft(i(k))); }

    @TLAPlusOperator(identifier = "Shr", module = "BigNat", warn = false)
    public static Value shr(Value a, Value k) { return s(n(a).shiftRight(i(k))); }

    @TLAPlusOperator(identifier = "And", module = "BigNat", warn = false)
    public static Value and(Value a, Value b) { return s(n(a).and(n(b))); }

    @TLAPlusOperator(identifier = "Or", module = "BigNat", warn = false)
    public static Value or(Value a, Value b) { return s(n(a).or(n(b))); }

    @TLAPlusOperator(identifier = "Xor", module = "BigNat", warn = false)
    public static Value xor(Value a, Value b) { return s(n(a).xor(n(b))); }

    @TLAPlusOperator(identifier = "BitLen", module = "BigNat", warn = false)
    public static Value bitlen(Value a) { return IntValue.gen(n(a).bitLength()); }

    @TLAPlusOperator(identifier = "FromNat", module = "BigNat", warn = false)
    public static Value fromNat(Value a) { return new StringValue(Integer.toString(i(a))); }

    @TLAPlusOperator(identifier = "ToNat", module = "BigNat", warn = false)
    public static Value toNat(Value a) { return IntValue.gen(n(a).intValueExact()); }

    @TLAPlusOperator(identifier = "FromHex", module = "BigNat", warn = false)
    public static Value fromHex(Value h) {
        String x = str(h);
        return s(x.isEmpty() ? BigInteger.ZERO : new BigInteger(x, 16));
    }

    // big-endian hex of (a mod 256^w), exactly 2*w digits
    @TLAPlusOperator(identifier = "ToHex", module = "BigNat", warn = false)
    public static Value toHex(Value a, Value w) {
        int width = i(w);
        if (width == 0) return new StringValue("");
        BigInteger v = n(a).mod(BigInteger.ONE.shiftLeft(8 * width));
        String x = v.toString(16);
        StringBuilder sb = new StringBuilder();
        for (int k = x.length(); k < 2 * width; k++) sb.append('0');
        sb.append(x);
        return new StringValue(sb.toString());
    }

    // largest r with r^k <= a   (k >= 1)
    @TLAPlusOperator(identifier = "FloorRoot", module = "BigNat", warn = false)
    public static Value floorRoot(Value a, Value k) {
        BigInteger x = n(a);
        int kk = n(k).intValueExact();
        if (kk == 1 || x.signum() == 0) return s(x);
        BigInteger lo = BigInteger.ZERO, hi = BigInteger.ONE.shiftLeft(x.bitLength() / kk + 1);
        while (lo.compareTo(hi) < 0) {
            BigInteger mid = lo.add(hi).add(BigInteger.ONE).shiftRight(1);
            if (mid.pow(kk).compareTo(x) <= 0) lo = mid; else hi = mid.subtract(BigInteger.ONE);
        }
        return s(lo);
    }

    // largest e with b^e <= a   (a >= 1, b >= 2)
    @TLAPlusOperator(identifier = "FloorLog", module = "BigNat", warn = false)
    public static Value floorLog(Value a, Value b) {
        BigInteger x = n(a), base = n(b);
        int e = 0;
        BigInteger p = base;
        while (p.compareTo(x) <= 0) { p = p.multiply(base); e++; }
        return s(BigInteger.valueOf(e));
    }

    // ---------------- VerifHash ----------------
    private static byte[] unhex(String x) {
        int len = x.length() / 2;
        byte[] out = new byte[len];
        for (int k = 0; k < len; k++)
            out[k] = (byte) Integer.parseInt(x.substring(2 * k, 2 * k + 2), 16);
        return out;
    }
    private static final char[] HEX = "0123456789abcdef".toCharArray();
    private static String hex(byte[] b) {
        char[] c = new char[b.length * 2];
        for (int k = 0; k < b.length; k++) { c[2*k] = HEX[(b[k] >> 4) & 15]; c[2*k+1] = HEX[b[k] & 15]; }
        return new String(c);
    }

    @TLAPlusOperator(identifier = "SHA256", module = "VerifHash", warn = false)
    public static Value sha256(Value h) throws Exception {
        MessageDigest md = MessageDigest.getInstance("SHA-256");
        return new StringValue(hex(md.digest(unhex(str(h)))));
    }

    // ---------------- Hex (performance overrides of TLA+-defined helpers) ----------------
    // Zeros(n): n zero bytes
    @TLAPlusOperator(identifier = "Zeros", module = "Hex", warn = false)
    public static Value zeros(Value k) {
        int cnt = i(k);
        char[] c = new char[2 * cnt];
        java.util.Arrays.fill(c, '0');
        return new StringValue(new String(c));
    }

    // Slice(h, off, len): bytes [off, off+len) of h (0-based byte offsets)
    @TLAPlusOperator(identifier = "Slice", module = "Hex", warn = false)
    public static Value slice(Value h, Value off, Value len) {
        String x = str(h);
        int o = i(off), l = i(len);
        return new StringValue(x.substring(2 * o, 2 * (o + l)));
    }

    // IsZero(h): every byte is zero
    @TLAPlusOperator(identifier = "IsZero", module = "Hex", warn = false)
    public static Value isZero(Value h) {
        String x = str(h);
        for (int k = 0; k < x.length(); k++) if (x.charAt(k) != '0') return BoolValue.ValFalse;
        return BoolValue.ValTrue;
    }

    // Splice(h, off, d): h with bytes [off, off+BLen(d)) replaced by d
    @TLAPlusOperator(identifier = "Splice", module = "Hex", warn = false)
    public static Value splice(Value h, Value off, Value d) {
        String x = str(h), y = str(d);
        int o = 2 * i(off);
        return new StringValue(x.substring(0, o) + y + x.substring(o + y.length()));
    }

    // BitAt(h, i): bit i (0 = most significant bit of the first byte) of the byte string h
    @TLAPlusOperator(identifier = "BitAt", module = "Hex", warn = false)
    public static Value bitAt(Value h, Value idx) {
        String x = str(h);
        int k = i(idx);
        int nib = Character.digit(x.charAt(k / 4), 16);
        return IntValue.gen((nib >> (3 - (k % 4))) & 1);
    }
}
