import java.math.BigInteger;
import java.security.MessageDigest;

import tlc2.overrides.TLAPlusOperator;
import tlc2.value.impl.BoolValue;
import tlc2.value.impl.IntValue;
import tlc2.value.impl.StringValue;
import tlc2.value.impl.Value;

// Primitive operators only: exact naturals denoted by decimal strings (module BigNat),
// SHA-256 over hex strings (module VerifHash), and a few hex-string helpers (module Hex)
// whose TLA+ definitions are in the modules. No case analysis of the system under
// verification lives here.
public final class VerifOps {
    private VerifOps() {}

    private static BigInteger n(Value v) {
        return new BigInteger(((StringValue) v).val.toString());
    }
    private static int i(Value v) { return ((IntValue) v).val; }
    private static Value s(BigInteger b) {
        if (b.signum() < 0) throw new RuntimeException("BigNat: negative result " + b);
        return new StringValue(b.toString());
    }
    private static String str(Value v) { return ((StringValue) v).val.toString(); }

    // ---------------- BigNat ----------------
    @TLAPlusOperator(identifier = "Add", module = "BigNat", warn = false)
    public static Value add(Value a, Value b) { return s(n(a).add(n(b))); }

    @TLAPlusOperator(identifier = "Sub", module = "BigNat", warn = false)
    public static Value sub(Value a, Value b) { return s(n(a).subtract(n(b))); }

    @TLAPlusOperator(identifier = "Mul", module = "BigNat", warn = false)
    public static Value mul(Value a, Value b) { return s(n(a).multiply(n(b))); }

    @TLAPlusOperator(identifier = "Div", module = "BigNat", warn = false)
    public static Value div(Value a, Value b) { return s(n(a).divide(n(b))); }

    @TLAPlusOperator(identifier = "Mod", module = "BigNat", warn = false)
    public static Value mod(Value a, Value b) { return s(n(a).mod(n(b))); }

    @TLAPlusOperator(identifier = "Pow", module = "BigNat", warn = false)
    public static Value pow(Value a, Value e) {
        BigInteger ee = n(e);
        if (ee.bitLength() > 20) throw new RuntimeException("BigNat!Pow: exponent too large");
        return s(n(a).pow(ee.intValueExact()));
    }

    @TLAPlusOperator(identifier = "Lt", module = "BigNat", warn = false)
    public static Value lt(Value a, Value b) { return n(a).compareTo(n(b)) < 0 ? BoolValue.ValTrue : BoolValue.ValFalse; }

    @TLAPlusOperator(identifier = "Le", module = "BigNat", warn = false)
    public static Value le(Value a, Value b) { return n(a).compareTo(n(b)) <= 0 ? BoolValue.ValTrue : BoolValue.ValFalse; }

    @TLAPlusOperator(identifier = "Shl", module = "BigNat", warn = false)
    public static Value shl(Value a, Value k) { return s(n(a).shiftLeft(i(k))); }

    @TLAPlusOperator(identifier = "Shr", module = "BigNat", warn = false)
    public static Value shr(Value a, Value k) { return s(n(a).shiftRight(i(k))); }

    @TLAPlusOperator(identifier = "And", module = "BigNat", warn = false)
    public static Value and(Value a, Value b) { return s(n(a).and(n(b))); }

    @TLAPlusOperator(identifier = "Or", module = "BigNat", warn = false)
    public static Value or(Value a, Value b) { return s(n(a).or(n(b))); }

    @TLAPlusOperator(identifier = "Xor", module = "BigNat", warn = false)
    public static Value xor(Value a, Value b) { return s(n(a).xor(n(b))); }

    @TLAPlusOperator(identifier = "BitLen", module = "BigNat", warn = false)
    public static Value bitlen(Value a) { return IntValue.gen(n(a).bitLength()); }

    @TLAPlusOperator(identifier = "FromNat", module = "BigNat", warn = false)
    public static Value fromNat(Value a) { return new StringValue(Integer.toString(i(a))); }

    @TLAPlusOperator(identifier = "ToNat", module = "BigNat", warn = false)
    public static Value toNat(Value a) { return IntValue.gen(n(a).intValueExact()); }

    @TLAPlusOperator(identifier = "FromHex", module = "BigNat", warn = false)
    public static Value fromHex(Value h) {
        String x = str(h);
        return s(x.isEmpty() ? BigInteger.ZERO : new BigInteger(x, 16));
    }

    // big-endian hex of (a mod 256^w), exactly 2*w digits
    @TLAPlusOperator(identifier = "ToHex", module = "BigNat", warn = false)
    public static Value toHex(Value a, Value w) {
        int width = i(w);
        if (width == 0) return new StringValue("");
        BigInteger v = n(a).mod(BigInteger.ONE.shiftLeft(8 * width));
        String x = v.toString(16);
        StringBuilder sb = new StringBuilder();
        for (int k = x.length(); k < 2 * width; k++) sb.append('0');
        sb.append(x);
        return new StringValue(sb.toString());
    }

    // largest r with r^k <= a   (k >= 1)
    @TLAPlusOperator(identifier = "FloorRoot", module = "BigNat", warn = false)
    public static Value floorRoot(Value a, Value k) {
        BigInteger x = n(a);
        int kk = n(k).intValueExact();
        if (kk == 1 || x.signum() == 0) return s(x);
        BigInteger lo = BigInteger.ZERO, hi = BigInteger.ONE.shiftLeft(x.bitLength() / kk + 1);
        while (lo.compareTo(hi) < 0) {
            BigInteger mid = lo.add(hi).add(BigInteger.ONE).shiftRight(1);
            if (mid.pow(kk).compareTo(x) <= 0) lo = mid; else hi = mid.subtract(BigInteger.ONE);
        }
        return s(lo);
    }

    // largest e with b^e <= a   (a >= 1, b >= 2)
    @TLAPlusOperator(identifier = "FloorLog", module = "BigNat", warn = false)
    public static Value floorLog(Value a, Value b) {
        BigInteger x = n(a), base = n(b);
        int e = 0;
        BigInteger p = base;
        while (p.compareTo(x) <= 0) { p = p.multiply(base); e++; }
        return s(BigInteger.valueOf(e));
    }

    // ---------------- VerifHash ----------------
    private static byte[] unhex(String x) {
        int len = x.length() / 2;
        byte[] out = new byte[len];
        for (int k = 0; k < len; k++)
            out[k] = (byte) Integer.parseInt(x.substring(2 * k, 2 * k + 2), 16);
        return out;
    }
    private static final char[] HEX = "0123456789abcdef".toCharArray();
    private static String hex(byte[] b) {
        char[] c = new char[b.length * 2];
        for (int k = 0; k < b.length; k++) { c[2*k] = HEX[(b[k] >> 4) & 15]; c[2*k+1] = HEX[b[k] & 15]; }
        return new String(c);
    }

    @TLAPlusOperator(identifier = "SHA256", module = "VerifHash", warn = false)
    public static Value sha256(Value h) throws Exception {
        MessageDigest md = MessageDigest.getInstance("SHA-256");
        return new StringValue(hex(md.digest(unhex(str(h)))));
    }

    // ---------------- Hex (performance overrides of TLA+-defined helpers) ----------------
    // Zeros(n): n zero bytes
    @TLAPlusOperator(identifier = "Zeros", module = "Hex", warn = false)
    public static Value zeros(Value k) {
        int cnt = i(k);
        char[] c = new char[2 * cnt];
        java.util.Arrays.fill(c, '0');
        return new StringValue(new String(c));
    }

    // Slice(h, off, len): bytes [off, off+len) of h (0-based byte offsets)
    @TLAPlusOperator(identifier = "Slice", module = "Hex", warn = false)
    public static Value slice(Value h, Value off, Value len) {
        String x = str(h);
        int o = i(off), l = i(len);
        return new StringValue(x.substring(2 * o, 2 * (o + l)));
    }

    // IsZero(h): every byte is zero
    @TLAPlusOperator(identifier = "IsZero", module = "Hex", warn = false)
    public static Value isZero(Value h) {
        String x = str(h);
        for (int k = 0; k < x.length(); k++) if (x.charAt(k) != '0') return BoolValue.ValFalse;
        return BoolValue.ValTrue;
    }

    // Splice(h, off, d): h with bytes [off, off+BLen(d)) replaced by d
    @TLAPlusOperator(identifier = "Splice", module = "Hex", warn = false)
    public static Value splice(Value h, Value off, Value d) {
        String x = str(h), y = str(d);
        int o = 2 * i(off);
        return new StringValue(x.substring(0, o) + y + x.substring(o + y.length()));
    }

    // BitAt(h, i): bit i (0 = most significant bit of the first byte) of the byte string h
    @TLAPlusOperator(identifier = "BitAt", module = "Hex", warn = false)
    public static Value bitAt(Value h, Value idx) {
        String x = str(h);
        int k = i(idx);
        int nib = Character.digit(x.charAt(k / 4), 16);
        return IntValue.gen((nib >> (3 - (k % 4))) & 1);
    }
    // ---------------- VerifCrypto (Keccak-256; modular exponentiation / inverse on BigNat strings) ----------------
    private static final long[] KECCAK_RC = {
        0x0000000000000001L, 0x0000000000008082L, 0x800000000000808aL, 0x8000000080008000L, 0x000000000000808bL, 0x0000000080000001L,
        0x8000000080008081L, 0x8000000000008009L, 0x000000000000008aL, 0x0000000000000088L, 0x0000000080008009L, 0x000000008000000aL,
        0x000000008000808bL, 0x800000000000008bL, 0x8000000000008089L, 0x8000000000008003L, 0x8000000000008002L, 0x8000000000000080L,
        0x000000000000800aL, 0x800000008000000aL, 0x8000000080008081L, 0x8000000000008080L, 0x0000000080000001L, 0x8000000080008008L };
    private static final int[] KECCAK_ROT = { 1, 3, 6, 10, 15, 21, 28, 36, 45, 55, 2, 14, 27, 41, 56, 8, 25, 43, 62, 18, 39, 61, 20, 44 };
    private static final int[] KECCAK_PIL = { 10, 7, 11, 17, 18, 3, 5, 16, 8, 21, 24, 4, 15, 23, 19, 13, 12, 2, 20, 14, 22, 9, 6, 1 };

    private static void keccakF(long[] st) {
        long[] bc = new long[5];
        for (int round = 0; round < 24; round++) {
            for (int i = 0; i < 5; i++) bc[i] = st[i] ^ st[i + 5] ^ st[i + 10] ^ st[i + 15] ^ st[i + 20];
            for (int i = 0; i < 5; i++) {
                long t = bc[(i + 4) % 5] ^ Long.rotateLeft(bc[(i + 1) % 5], 1);
                for (int j = 0; j < 25; j += 5) st[j + i] ^= t;
            }
            long t = st[1];
            for (int i = 0; i < 24; i++) {
                int j = KECCAK_PIL[i];
                long b = st[j];
                st[j] = Long.rotateLeft(t, KECCAK_ROT[i]);
                t = b;
            }
            for (int j = 0; j < 25; j += 5) {
                for (int i = 0; i < 5; i++) bc[i] = st[j + i];
                for (int i = 0; i < 5; i++) st[j + i] ^= (~bc[(i + 1) % 5]) & bc[(i + 2) % 5];
            }
            st[0] ^= KECCAK_RC[round];
        }
    }

    // Keccak-256 (the original Keccak padding 0x01 .. 0x80, rate 136 bytes, capacity 512 bits), as used by Ethereum
    static byte[] keccak256(byte[] in) {
        final int rate = 136;
        int padded = (in.length / rate + 1) * rate;
        byte[] m = java.util.Arrays.copyOf(in, padded);
        m[in.length] ^= 0x01;
        m[padded - 1] ^= (byte) 0x80;
        long[] st = new long[25];
        for (int off = 0; off < padded; off += rate) {
            for (int i = 0; i < rate / 8; i++) {
                long v = 0;
                for (int b = 0; b < 8; b++) v |= (m[off + 8 * i + b] & 0xffL) << (8 * b);
                st[i] ^= v;
            }
            keccakF(st);
        }
        byte[] out = new byte[32];
        for (int i = 0; i < 4; i++) for (int b = 0; b < 8; b++) out[8 * i + b] = (byte) (st[i] >>> (8 * b));
        return out;
    }

    @TLAPlusOperator(identifier = "Keccak256", module = "VerifCrypto", warn = false)
    public static Value keccak256op(Value h) { return new StringValue(hex(keccak256(unhex(str(h))))); }

    // a^e mod m  (m >= 1)
    @TLAPlusOperator(identifier = "ModPow", module = "VerifCrypto", warn = false)
    public static Value modPow(Value a, Value e, Value m) { return s(n(a).modPow(n(e), n(m))); }

    // the x in [0, m) with a * x = 1 (mod m); an error when a is not invertible modulo m
    @TLAPlusOperator(identifier = "ModInv", module = "VerifCrypto", warn = false)
    public static Value modInv(Value a, Value m) { return s(n(a).modInverse(n(m))); }

    // ---------------- VmCrypto (performance overrides of TLA+-defined operators; VmCryptoTest checks override = definition) ----------------
    private static BigInteger field(Value rec, String name) {
        tlc2.value.impl.RecordValue r = (tlc2.value.impl.RecordValue) rec.toRcd();
        for (int k = 0; k < r.names.length; k++) if (r.names[k].toString().equals(name)) return n(r.values[k]);
        throw new RuntimeException("VmCrypto: curve record without field " + name);
    }
    // a point: <<x, y>> or <<>> (infinity)
    private static BigInteger[] point(Value v) {
        tlc2.value.impl.TupleValue t = (tlc2.value.impl.TupleValue) v.toTuple();
        if (t.size() == 0) return null;
        return new BigInteger[] { n(t.elems[0]), n(t.elems[1]) };
    }
    private static Value pointValue(BigInteger[] P) {
        if (P == null) return new tlc2.value.impl.TupleValue(new Value[0]);
        return new tlc2.value.impl.TupleValue(new Value[] { s(P[0]), s(P[1]) });
    }
    private static BigInteger[] ecAdd(BigInteger p, BigInteger a, BigInteger[] P, BigInteger[] Q) {
        if (P == null) return Q;
        if (Q == null) return P;
        BigInteger lam;
        if (P[0].equals(Q[0])) {
            if (!P[1].equals(Q[1]) || P[1].signum() == 0) return null;
            lam = P[0].multiply(P[0]).multiply(BigInteger.valueOf(3)).add(a).multiply(P[1].shiftLeft(1).modInverse(p)).mod(p);
        } else {
            lam = Q[1].subtract(P[1]).multiply(Q[0].subtract(P[0]).mod(p).modInverse(p)).mod(p);
        }
        BigInteger x3 = lam.multiply(lam).subtract(P[0]).subtract(Q[0]).mod(p);
        BigInteger y3 = lam.multiply(P[0].subtract(x3)).subtract(P[1]).mod(p);
        return new BigInteger[] { x3, y3 };
    }

    // CrEcMul(C, P, k): [k]P on y^2 = x^3 + C.a x + C.b over F_(C.p), double-and-add over 256 bits, most significant first
    @TLAPlusOperator(identifier = "CrEcMul", module = "VmCrypto", warn = false)
    public static Value crEcMul(Value C, Value P, Value k) {
        BigInteger p = field(C, "p"), a = field(C, "a"), kk = n(k);
        BigInteger[] pt = point(P), acc = null;
        for (int i = 255; i >= 0; i--) {
            acc = ecAdd(p, a, acc, acc);
            if (kk.testBit(i)) acc = ecAdd(p, a, acc, pt);
        }
        return pointValue(acc);
    }

    // F_p^2 = F_p[u]/(u^2 + 1): {real, imaginary}
    private static BigInteger[] f2(Value v) {
        tlc2.value.impl.TupleValue t = (tlc2.value.impl.TupleValue) v.toTuple();
        return new BigInteger[] { n(t.elems[0]), n(t.elems[1]) };
    }
    private static BigInteger[] f2mul(BigInteger p, BigInteger[] x, BigInteger[] y) {
        return new BigInteger[] { x[0].multiply(y[0]).subtract(x[1].multiply(y[1])).mod(p), x[0].multiply(y[1]).add(x[1].multiply(y[0])).mod(p) };
    }
    private static BigInteger[] f2sub(BigInteger p, BigInteger[] x, BigInteger[] y) { return new BigInteger[] { x[0].subtract(y[0]).mod(p), x[1].subtract(y[1]).mod(p) }; }
    private static BigInteger[] f2inv(BigInteger p, BigInteger[] x) {
        BigInteger d = x[0].multiply(x[0]).add(x[1].multiply(x[1])).mod(p).modInverse(p);
        return new BigInteger[] { x[0].multiply(d).mod(p), x[1].negate().multiply(d).mod(p) };
    }
    private static boolean f2eq(BigInteger[] x, BigInteger[] y) { return x[0].equals(y[0]) && x[1].equals(y[1]); }
    // points of the twist (a = 0): {x, y} with x, y in F_p^2, null = infinity
    private static BigInteger[][] g2Add(BigInteger p, BigInteger[][] P, BigInteger[][] Q) {
        if (P == null) return Q;
        if (Q == null) return P;
        BigInteger[] lam;
        if (f2eq(P[0], Q[0])) {
            if (!f2eq(P[1], Q[1]) || (P[1][0].signum() == 0 && P[1][1].signum() == 0)) return null;
            BigInteger[] three = { BigInteger.valueOf(3), BigInteger.ZERO };
            BigInteger[] twoY = { P[1][0].shiftLeft(1).mod(p), P[1][1].shiftLeft(1).mod(p) };
            lam = f2mul(p, f2mul(p, three, f2mul(p, P[0], P[0])), f2inv(p, twoY));
        } else {
            lam = f2mul(p, f2sub(p, Q[1], P[1]), f2inv(p, f2sub(p, Q[0], P[0])));
        }
        BigInteger[] x3 = f2sub(p, f2sub(p, f2mul(p, lam, lam), P[0]), Q[0]);
        BigInteger[] y3 = f2sub(p, f2mul(p, lam, f2sub(p, P[0], x3)), P[1]);
        return new BigInteger[][] { x3, y3 };
    }

    // Cr2InSubgroup(P): [r]P = O for P = <<x, y>> on the BN254 twist (x, y in F_p^2), r the group order
    @TLAPlusOperator(identifier = "Cr2InSubgroup", module = "VmCrypto", warn = false)
    public static Value cr2InSubgroup(Value P) {
        BigInteger p = new BigInteger("21888242871839275222246405745257275088696311157297823662689037894645226208583");
        BigInteger r = new BigInteger("21888242871839275222246405745257275088548364400416034343698204186575808495617");
        tlc2.value.impl.TupleValue t = (tlc2.value.impl.TupleValue) P.toTuple();
        BigInteger[][] pt = { f2(t.elems[0]), f2(t.elems[1]) }, acc = null;
        for (int i = 255; i >= 0; i--) {
            acc = g2Add(p, acc, acc);
            if (r.testBit(i)) acc = g2Add(p, acc, pt);
        }
        return acc == null ? BoolValue.ValTrue : BoolValue.ValFalse;
    }
}
