SPECIFICATION MCSpec
CONSTANTS
  MaxLen = 3
  NKeys = 4
  Values = {"", "01"}
  Embedding = "low"
  TrackHist = TRUE
INVARIANTS Emit
CHECK_DEADLOCK FALSE
