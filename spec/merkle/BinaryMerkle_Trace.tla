-------------------------- MODULE BinaryMerkle_Trace --------------------------
(* impl -> spec: a trace recorded from fuel-merkle's binary trees is accepted   *)
(* iff every event is the corresponding BinaryMerkle action AND every logged    *)
(* observation equals the RFC 6962 oracle's value.                              *)
EXTENDS BinaryMerkle, TraceIO
VARIABLE l
trVars == <<lh, peaks, store, l>>

TrInit == BMInit /\ l = 1
e == Rec[l]

CountOk(t) == Has(e, "count") => e.count = Len(lh'[t])

TSeg   == IsEv(l, "Seg")   /\ lh' = <<>> /\ peaks' = <<>> /\ store' = <<>>
TNew   == IsEv(l, "New")   /\ NewTree(e.t)
\* (the root is observed after most operations, but not all: in "quiet" histories root() is called only now and then, so that a
\*  value remembered from an earlier call would show)
TPush  == IsEv(l, "Push")  /\ Push(e.t, e.d) /\ (Has(e, "root") => (e.root = MTHh(lh'[e.t]) /\ e.root = RootOfPeaks(peaks'[e.t]))) /\ CountOk(e.t)
TReset == IsEv(l, "Reset") /\ Reset(e.t) /\ (Has(e, "root") => e.root = EmptyRoot) /\ CountOk(e.t)
TLoad  == IsEv(l, "Load")  /\ e.ok /\ Load(e.t, e.from, e.k)
                           /\ e.root = MTHh(lh'[e.t]) /\ e.root = RootOfPeaks(peaks'[e.t]) /\ e.count = e.k
TRoot  == IsEv(l, "Root")  /\ e.t \in Trees /\ e.root = MTHh(lh[e.t]) /\ (Has(e, "count") => e.count = Count(e.t))
                           /\ UNCHANGED bmVars
TRootOf == IsEv(l, "RootOf") /\ e.t \in Trees /\ e.root = MTHh(lh[e.t]) /\ UNCHANGED bmVars
TProve == IsEv(l, "Prove") /\ e.t \in Trees
          /\ e.ok = ProveDefined(e.t, e.i)
          /\ (e.ok => (e.proof = Proof(e.t, e.i) /\ e.root = MTHh(lh[e.t])
                       /\ RootFromPath(e.i, Count(e.t), lh[e.t][e.i + 1], e.proof) = e.root))
          /\ UNCHANGED bmVars
TVerify == IsEv(l, "Verify") /\ e.verdict = VerifyRefBig(e.root, e.d, e.proof, e.i, e.n) /\ UNCHANGED bmVars

TrNext == (TSeg \/ TNew \/ TPush \/ TReset \/ TLoad \/ TRoot \/ TRootOf \/ TProve \/ TVerify) /\ l' = l + 1
TrSpec == TrInit /\ [][TrNext]_trVars
=============================================================================
