SPECIFICATION MCSpec
CONSTANTS
  MaxLen = 3
  NKeys = 4
  Values = {"", "01"}
  Embedding = "spread"
  TrackHist = FALSE
INVARIANTS ProofScheme
CHECK_DEADLOCK FALSE
