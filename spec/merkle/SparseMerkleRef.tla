-------------------------- MODULE SparseMerkleRef --------------------------
(***************************************************************************)
(* Sparse Merkle trees of fuel-merkle (sparse::MerkleTree, in_memory,      *)
(* proof).  Keys are 32-byte strings (hex), bit 0 = most significant.      *)
(*                                                                         *)
(* ORACLE (the compact sparse Merkle tree of the FuelVM specification):    *)
(*   Root(S, d)  S = set of [k, vh] (key, hash of value) under a prefix of *)
(*   length d:  {} -> 32 zero bytes;  one leaf -> H(00 || k || vh);        *)
(*   otherwise  H(01 || Root(S0, d+1) || Root(S1, d+1)).                   *)
(* DESIGN: a root hash plus a node store  hash -> [h, p, lo, hi]  (the     *)
(* Primitive the code persists); StoreClosed says the store contains the   *)
(* whole tree denoted by the root.                                         *)
(***************************************************************************)
EXTENDS Naturals, Sequences, FiniteSets, TLC
LOCAL INSTANCE VerifHash
LOCAL INSTANCE Hex

Zero32 == Zeros(32)
ValueHash(v)    == SHA256(v)
LeafHash(k, vh) == SHA256("00" \o k \o vh)
NodeHash(l, r)  == SHA256("01" \o l \o r)

\* the set of [k, vh] records of a key->value function
Entries(m) == {[k |-> k, vh |-> ValueHash(m[k])] : k \in DOMAIN m}
Side(S, d, b) == {x \in S : BitAt(x.k, d) = b}

RECURSIVE RefRootAt(_, _)
RefRootAt(S, d) ==
    IF S = {} THEN Zero32
    ELSE IF Cardinality(S) = 1 THEN LET x == CHOOSE x \in S : TRUE IN LeafHash(x.k, x.vh)
    ELSE NodeHash(RefRootAt(Side(S, d, 0), d + 1), RefRootAt(Side(S, d, 1), d + 1))
RefRoot(m) == RefRootAt(Entries(m), 0)

\* Descend along key q until the subtree holds at most one leaf.  Result:
\* [sides |-> sibling hashes in leaf-to-root order, term |-> the set (empty or singleton) reached]
RECURSIVE Descend(_, _, _)
Descend(S, q, d) ==
    IF Cardinality(S) <= 1 THEN [sides |-> <<>>, term |-> S]
    ELSE LET b   == BitAt(q, d)
             sub == Descend(Side(S, d, b), q, d + 1)
         IN [sides |-> Append(sub.sides, RefRootAt(Side(S, d, 1 - b), d + 1)), term |-> sub.term]

\* What generate_proof must return for query key q on map m
RefProof(m, q) ==
    LET r == Descend(Entries(m), q, 0) IN
    IF q \in DOMAIN m
    THEN [kind |-> "inclusion", proof |-> r.sides]
    ELSE IF r.term = {} THEN [kind |-> "exclusion", proof |-> r.sides, leaf |-> "placeholder"]
    ELSE LET x == CHOOSE x \in r.term : TRUE IN
         [kind |-> "exclusion", proof |-> r.sides, leaf |-> "leaf", lk |-> x.k, lvh |-> x.vh]

\* Recompute a root from a starting hash and sibling list (leaf-to-root) along key q's bits.
RECURSIVE FoldUp(_, _, _, _)
FoldUp(cur, p, i, q) ==     \* i = index into p (1-based); element i sits at depth Len(p) - i
    IF i > Len(p) THEN cur
    ELSE FoldUp(IF BitAt(q, Len(p) - i) = 0 THEN NodeHash(cur, p[i]) ELSE NodeHash(p[i], cur), p, i + 1, q)

RefInclVerify(root, q, v, p) == Len(p) <= 256 /\ FoldUp(LeafHash(q, ValueHash(v)), p, 1, q) = root
\* leaf: "placeholder" or a [lk, lvh] record
RefExclVerify(root, q, leafKind, lk, lvh, p) ==
    /\ ~(leafKind = "leaf" /\ lk = q)
    /\ Len(p) <= 256
    /\ FoldUp(IF leafKind = "leaf" THEN LeafHash(lk, lvh) ELSE Zero32, p, 1, q) = root
=============================================================================
