--------------------------- MODULE BinaryMerkleRef ---------------------------
(***************************************************************************)
(* The constant-level RFC 6962 oracle of BinaryMerkle.tla (LeafHash,       *)
(* NodeHash, EmptyRoot, Split, MTHh, MTH) without that module's VARIABLES, *)
(* so that other specifications can INSTANCE it.  The definitions are the  *)
(* same text as in BinaryMerkle.tla (section 2.1 of RFC 6962:              *)
(*   MTH({}) = SHA-256(),  MTH({d}) = SHA-256(0x00 || d),                  *)
(*   MTH(D[n]) = SHA-256(0x01 || MTH(D[0:k]) || MTH(D[k:n])),              *)
(*   k the largest power of two smaller than n).                           *)
(***************************************************************************)
EXTENDS Naturals, Sequences
LOCAL INSTANCE VerifHash

LeafHash(d)    == SHA256("00" \o d)
NodeHash(l, r) == SHA256("01" \o l \o r)
EmptyRoot      == SHA256("")

RECURSIVE SplitFrom(_, _)
SplitFrom(k, n) == IF 2 * k >= n THEN k ELSE SplitFrom(2 * k, n)
Split(n) == SplitFrom(1, n)                      \* n >= 2: the largest power of two < n

RECURSIVE MTHh(_)                                \* RFC 6962 MTH over leaf hashes
MTHh(L) == IF Len(L) = 0 THEN EmptyRoot
           ELSE IF Len(L) = 1 THEN L[1]
           ELSE LET k == Split(Len(L)) IN
                NodeHash(MTHh(SubSeq(L, 1, k)), MTHh(SubSeq(L, k + 1, Len(L))))
HashLeaves(D) == [i \in 1..Len(D) |-> LeafHash(D[i])]
MTH(D) == MTHh(HashLeaves(D))
=============================================================================
