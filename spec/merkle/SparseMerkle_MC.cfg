SPECIFICATION MCSpec
CONSTANTS
  MaxLen = 3
  NKeys = 4
  Values = {"", "01"}
  Embedding = "low"
  TrackHist = FALSE
INVARIANTS ProofScheme
CHECK_DEADLOCK FALSE
