---------------------------- MODULE BinaryMerkle ----------------------------
(***************************************************************************)
(* Binary Merkle trees of fuel-merkle (binary::MerkleTree, in_memory,      *)
(* root_calculator, verify).                                               *)
(*                                                                         *)
(* Two layers:                                                             *)
(*  - the ORACLE: RFC 6962 section 2.1 written as the RFC writes it        *)
(*    (recursive split at the largest power of two below n), over leaf     *)
(*    hashes: MTHh, PathH, RootFromPath, VerifyRef;                        *)
(*  - the DESIGN as the code structures it: a Merkle-mountain-range peak   *)
(*    stack per tree, a node store keyed by in-order position that         *)
(*    survives Reset, and Load(k) rebuilding the stack from the store.     *)
(* Invariants relate the two (RootIsMTH, StoreHoldsPeaks, ...).            *)
(***************************************************************************)
EXTENDS Naturals, Sequences, FiniteSets, TLC
LOCAL INSTANCE VerifHash
LOCAL INSTANCE Hex

LeafHash(d)    == SHA256("00" \o d)
NodeHash(l, r) == SHA256("01" \o l \o r)
EmptyRoot      == SHA256("")

RECURSIVE SplitFrom(_, _)
SplitFrom(k, n) == IF 2 * k >= n THEN k ELSE SplitFrom(2 * k, n)
Split(n) == SplitFrom(1, n)                      \* n >= 2: the largest power of two < n

RECURSIVE MTHh(_)                                \* RFC 6962 MTH over leaf hashes
MTHh(L) == IF Len(L) = 0 THEN EmptyRoot
           ELSE IF Len(L) = 1 THEN L[1]
           ELSE LET k == Split(Len(L)) IN
                NodeHash(MTHh(SubSeq(L, 1, k)), MTHh(SubSeq(L, k + 1, Len(L))))
HashLeaves(D) == [i \in 1..Len(D) |-> LeafHash(D[i])]
MTH(D) == MTHh(HashLeaves(D))

RECURSIVE PathH(_, _)                            \* RFC audit path PATH(m, D), leaf-to-root order
PathH(m, L) ==
    IF Len(L) <= 1 THEN <<>>
    ELSE LET k == Split(Len(L)) IN
         IF m < k THEN Append(PathH(m, SubSeq(L, 1, k)), MTHh(SubSeq(L, k + 1, Len(L))))
         ELSE Append(PathH(m - k, SubSeq(L, k + 1, Len(L))), MTHh(SubSeq(L, 1, k)))

\* Recompute the root from (index m, tree size n, leaf hash h, audit path p).
\* "" when the path length does not fit the (m, n) shape.
RECURSIVE RootFromPath(_, _, _, _)
RootFromPath(m, n, h, p) ==
    IF n = 1 THEN (IF Len(p) = 0 THEN h ELSE "")
    ELSE IF Len(p) = 0 THEN ""
    ELSE LET k    == Split(n)
             last == p[Len(p)]
             rest == SubSeq(p, 1, Len(p) - 1) IN
         IF m < k
         THEN LET l == RootFromPath(m, k, h, rest) IN IF l = "" THEN "" ELSE NodeHash(l, last)
         ELSE LET r == RootFromPath(m - k, n - k, h, rest) IN IF r = "" THEN "" ELSE NodeHash(last, r)

VerifyRef(root, d, p, m, n) == n > 0 /\ m < n /\ RootFromPath(m, n, LeafHash(d), p) = root

(***************************************************************************)
(* The same recomputation with index and size as BigNat decimal strings    *)
(* (the verifier takes u64 values).  Split(n) = 2^(BitLen(n-1)-1).         *)
(* BinaryMerkle_MC checks it agrees with RootFromPath on small values.     *)
(***************************************************************************)
LOCAL BN == INSTANCE BigNat
SplitBig(n) == BN!Shl("1", BN!BitLen(BN!Sub(n, "1")) - 1)
RECURSIVE RootFromPathBig(_, _, _, _)
RootFromPathBig(m, n, h, p) ==
    IF n = "1" THEN (IF Len(p) = 0 THEN h ELSE "")
    ELSE IF Len(p) = 0 THEN ""
    ELSE LET k    == SplitBig(n)
             last == p[Len(p)]
             rest == SubSeq(p, 1, Len(p) - 1) IN
         IF BN!Lt(m, k)
         THEN LET l == RootFromPathBig(m, k, h, rest) IN IF l = "" THEN "" ELSE NodeHash(l, last)
         ELSE LET r == RootFromPathBig(BN!Sub(m, k), BN!Sub(n, k), h, rest) IN IF r = "" THEN "" ELSE NodeHash(last, r)
VerifyRefBig(root, d, p, m, n) == BN!Lt(m, n) /\ RootFromPathBig(m, n, LeafHash(d), p) = root

(***************************************************************************)
(* Design: MMR peak stack.  A peak is [h |-> height, a |-> first leaf      *)
(* index, x |-> hash].  In-order position of a node of height h starting   *)
(* at leaf a is 2a + 2^h - 1.                                              *)
(***************************************************************************)
Pos(p) == 2 * p.a + 2 ^ p.h - 1

RECURSIVE Merge(_, _)   \* merge equal-height peaks at the top; returns [stack, created]
Merge(st, created) ==
    IF Len(st) >= 2 /\ st[Len(st)].h = st[Len(st) - 1].h
    THEN LET r == st[Len(st)]
             q == st[Len(st) - 1]
             m == [h |-> q.h + 1, a |-> q.a, x |-> NodeHash(q.x, r.x)]
         IN Merge(Append(SubSeq(st, 1, Len(st) - 2), m), created @@ (Pos(m) :> m.x))
    ELSE [stack |-> st, created |-> created]
      
RECURSIVE FoldPeaks(_, _)
FoldPeaks(st, head) == IF Len(st) = 0 THEN head
                       ELSE FoldPeaks(SubSeq(st, 1, Len(st) - 1), NodeHash(st[Len(st)].x, head))
RootOfPeaks(st) == IF Len(st) = 0 THEN EmptyRoot
                   ELSE FoldPeaks(SubSeq(st, 1, Len(st) - 1), st[Len(st)].x)

RECURSIVE HighBit(_, _)
HighBit(n, b) == IF 2 ^ (b + 1) > n THEN b ELSE HighBit(n, b + 1)
RECURSIVE PeakShapes(_, _)   \* peaks (height, start) of an MMR with k leaves starting at leaf a
PeakShapes(k, a) == IF k = 0 THEN <<>>
                    ELSE LET b == HighBit(k, 0) IN
                         <<[h |-> b, a |-> a]>> \o PeakShapes(k - 2 ^ b, a + 2 ^ b)

VARIABLES
    lh,      \* tree id -> sequence of leaf hashes the tree denotes (since last reset / as loaded)
    peaks,   \* tree id -> MMR stack
    store    \* tree id -> (in-order position -> hash); survives Reset

bmVars == <<lh, peaks, store>>
Trees == DOMAIN lh

BMInit == lh = <<>> /\ peaks = <<>> /\ store = <<>>

NewTree(t) == /\ t \notin Trees
              /\ lh' = lh @@ (t :> <<>>) /\ peaks' = peaks @@ (t :> <<>>) /\ store' = store @@ (t :> <<>>)

Push(t, d) ==
    /\ t \in Trees
    /\ LET i    == Len(lh[t])
           leaf == [h |-> 0, a |-> i, x |-> LeafHash(d)]
           m    == Merge(Append(peaks[t], leaf), (Pos(leaf) :> leaf.x))
       IN /\ peaks' = [peaks EXCEPT ![t] = m.stack]
          /\ store' = [store EXCEPT ![t] = m.created @@ @]
          /\ lh' = [lh EXCEPT ![t] = Append(@, leaf.x)]

Reset(t) == /\ t \in Trees
            /\ lh' = [lh EXCEPT ![t] = <<>>] /\ peaks' = [peaks EXCEPT ![t] = <<>>]
            /\ UNCHANGED store

\* Reload: tree t2 over a copy of t1's store, with the first k leaves (k <= current leaves of t1).
LoadOk(t1, k) == \A s \in 1..Len(PeakShapes(k, 0)) : Pos(PeakShapes(k, 0)[s]) \in DOMAIN store[t1]
Load(t2, t1, k) ==
    /\ t1 \in Trees /\ t2 \notin Trees /\ k <= Len(lh[t1]) /\ LoadOk(t1, k)
    /\ LET sh == PeakShapes(k, 0) IN
       /\ peaks' = peaks @@ (t2 :> [s \in 1..Len(sh) |-> [h |-> sh[s].h, a |-> sh[s].a, x |-> store[t1][Pos(sh[s])]]])
       /\ lh' = lh @@ (t2 :> SubSeq(lh[t1], 1, k))
       /\ store' = store @@ (t2 :> store[t1])

\* ---- what a tree reports (design) and what it must report (oracle) ----
Root(t)  == RootOfPeaks(peaks[t])
Count(t) == Len(lh[t])
ProveDefined(t, i) == i < Count(t)
Proof(t, i) == PathH(i, lh[t])

\* ---- invariants ----
RootIsMTH == \A t \in Trees : Root(t) = MTHh(lh[t])
PeaksShape == \A t \in Trees :
    LET sh == PeakShapes(Len(lh[t]), 0) IN
    /\ Len(peaks[t]) = Len(sh)
    /\ \A s \in 1..Len(sh) : peaks[t][s].h = sh[s].h /\ peaks[t][s].a = sh[s].a
           /\ peaks[t][s].x = MTHh(SubSeq(lh[t], sh[s].a + 1, sh[s].a + 2 ^ sh[s].h))
StoreHoldsPeaks == \A t \in Trees : \A s \in 1..Len(peaks[t]) :
    Pos(peaks[t][s]) \in DOMAIN store[t] /\ store[t][Pos(peaks[t][s])] = peaks[t][s].x
ProofsVerify == \A t \in Trees : \A i \in 0..(Count(t) - 1) :
    RootFromPath(i, Count(t), lh[t][i + 1], Proof(t, i)) = Root(t)
=============================================================================
