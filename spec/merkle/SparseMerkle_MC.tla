--------------------------- MODULE SparseMerkle_MC ---------------------------
(* Leg M: the proof scheme of the compact sparse Merkle tree is sound and       *)
(* complete on every map over clustered model keys (real SHA-256).              *)
(* Leg R generator: every history of inserts/overwrites/deletes up to MaxLen    *)
(* with the oracle's root and proofs for the map it leaves behind.              *)
EXTENDS SparseMerkleRef, Json
LOCAL INSTANCE Hex
CONSTANTS MaxLen, NKeys, Values, Embedding, TrackHist

\* model key i (0..7) -> 32-byte key; the embeddings make deep shared prefixes the normal case
Key(i) ==
    CASE Embedding = "high"   -> BE(i * 32, 1) \o Zeros(31)                       \* differ in the first 3 bits
      [] Embedding = "low"    -> Zeros(31) \o BE(i, 1)                            \* share a 253-bit prefix
      [] Embedding = "spread" -> BE((i % 2) * 128, 1) \o Zeros(15) \o BE(((i \div 2) % 2) * 128, 1)
                                   \o Zeros(14) \o BE((i \div 4) % 2, 1)          \* bits 0, 128, 255
      [] Embedding = "ones"   -> IF i = 0 THEN Zeros(32)                           \* all-zero, all-one, last-bit neighbours
                                 ELSE IF i = 1 THEN "ffffffffffffffffffffffffffffffffffffffffffffffffffffffffffffffff"
                                 ELSE IF i = 2 THEN "fffffffffffffffffffffffffffffffffffffffffffffffffffffffffffffffe"
                                 ELSE Zeros(31) \o "01"
Keys == {Key(i) : i \in 0..(NKeys - 1)}

VARIABLES m, hist
mcVars == <<m, hist>>

MCInit == m = <<>> /\ hist = <<>>
Rec1(a) == IF TrackHist THEN Append(hist, a) ELSE <<>>
Bounded == (~TrackHist) \/ Len(hist) < MaxLen

AInsert == Bounded /\ \E k \in Keys, v \in Values :
              /\ m' = (k :> v) @@ m
              /\ hist' = Rec1([a |-> "Insert", k |-> k, v |-> v])
ADelete == Bounded /\ \E k \in Keys :
              /\ m' = [x \in DOMAIN m \ {k} |-> m[x]]
              /\ hist' = Rec1([a |-> "Delete", k |-> k])
MCNext == AInsert \/ ADelete
MCSpec == MCInit /\ [][MCNext]_mcVars

\* ----- design-level invariant: the proof scheme decides membership exactly -----
ProofScheme ==
    LET r == RefRoot(m) IN
    \A q \in Keys :
        LET pr == RefProof(m, q)
            ds == Descend(Entries(m), q, 0) IN
        IF q \in DOMAIN m
        THEN /\ pr.kind = "inclusion"
             /\ RefInclVerify(r, q, m[q], pr.proof)
             /\ \A v \in (Values \cup {"ee"}) \ {m[q]} : ~RefInclVerify(r, q, v, pr.proof)
             /\ ~RefExclVerify(r, q, "placeholder", "", "", pr.proof)
             /\ ~RefExclVerify(r, q, "leaf", q, ValueHash(m[q]), pr.proof)
        ELSE /\ pr.kind = "exclusion"
             /\ RefExclVerify(r, q, pr.leaf, IF pr.leaf = "leaf" THEN pr.lk ELSE "", IF pr.leaf = "leaf" THEN pr.lvh ELSE "", pr.proof)
             /\ \A v \in Values : ~RefInclVerify(r, q, v, pr.proof)

\* order independence is immediate (RefRoot is a function of m); emitted for the replay
Queries == [q \in Keys |-> RefProof(m, q)]
Emit == TrackHist => PrintT("REPLAY" \o ToJson([steps |-> hist, root |-> RefRoot(m), queries |-> Queries]))
=============================================================================
