SPECIFICATION MCSpec
CONSTANTS
  MaxLen = 6
  Alphabet = {"", "aa"}
  EmitReplay = FALSE
INVARIANTS RootIsMTH PeaksShape StoreHoldsPeaks ProofsVerify BigAgrees Emit
CHECK_DEADLOCK FALSE
