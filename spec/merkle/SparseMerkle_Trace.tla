-------------------------- MODULE SparseMerkle_Trace --------------------------
(* impl -> spec for sparse::MerkleTree / in_memory / proof (C12, C13, C14).      *)
EXTENDS SparseMerkle, TraceIO
VARIABLES l, dmg          \* dmg: trees loaded over a store from which a non-root node was removed
trVars == <<map, root, store, dmg, l>>
TrInit == SMInit /\ dmg = {} /\ l = 1
e == Rec[l]

KvMap(kv) == [k \in {kv[i][1] : i \in 1..Len(kv)} |-> (CHOOSE i \in 1..Len(kv) : kv[i][1] = k /\ \A j \in (i + 1)..Len(kv) : kv[j][1] # k) ]
KvFun(kv) == LET ix == KvMap(kv) IN [k \in DOMAIN ix |-> kv[ix[k]][2]]
StoreOf(adds) == ApplyDelta(<<>>, adds, <<>>)

TSeg == IsEv(l, "Seg") /\ map' = <<>> /\ root' = <<>> /\ store' = <<>> /\ dmg' = {}
TNew == IsEv(l, "New") /\ e.t \notin STrees
        /\ map' = (e.t :> <<>>) @@ map /\ root' = (e.t :> Zero32) @@ root /\ store' = (e.t :> <<>>) @@ store
        /\ UNCHANGED dmg

\* an update (insert or delete) that reported success
Updated(t, newMap) ==
    /\ map' = [map EXCEPT ![t] = newMap]
    /\ root' = [root EXCEPT ![t] = e.root]
    /\ store' = [store EXCEPT ![t] = ApplyDelta(@, e.adds, e.dels)]
    /\ e.root = RefRoot(newMap)                       \* C12: root is a function of the map
    /\ (t \in dmg \/ Has(e, "opaque")                  \* (store not observable / deliberately damaged)
        \/ (/\ Closed(store'[t], e.root)              \* C13: everything the root denotes is persisted
            /\ Leaves(store'[t], e.root) = Entries(newMap)))   \* C13: and denotes exactly the map
    /\ UNCHANGED dmg
\* an operation on a (deliberately) damaged tree may fail; map and root stay, but the operation may already have written or
\* removed nodes before it met the missing one: the model store follows the logged delta so that it stays the real store
Failed(t) == /\ t \in dmg
             /\ store' = [store EXCEPT ![t] = ApplyDelta(@, e.adds, e.dels)]
             /\ UNCHANGED <<map, root, dmg>>

TInsert == IsEv(l, "Insert") /\ e.t \in STrees
           /\ IF e.ok THEN Updated(e.t, (e.k :> e.v) @@ map[e.t]) ELSE Failed(e.t)
TDelete == IsEv(l, "Delete") /\ e.t \in STrees
           /\ IF e.ok THEN Updated(e.t, [x \in DOMAIN map[e.t] \ {e.k} |-> map[e.t][x]]) ELSE Failed(e.t)

\* restart from persisted nodes: tree t over a copy of `from`'s store minus e.removed, at root e.root
TLoad == IsEv(l, "Load") /\ e.from \in STrees /\ e.t \notin STrees
         /\ LET st == ApplyDelta(store[e.from], <<>>, e.removed)
                rootGone == e.root # Zero32 /\ e.root \notin DOMAIN st
                intact == e.removed = <<>> IN
            /\ (e.root = Zero32 => e.ok)                                  \* empty root loads an empty tree
            /\ (rootGone => ~e.ok)                                        \* missing root node: must fail
            /\ (~rootGone => e.ok)
            /\ IF e.ok
               THEN /\ e.root \in {Zero32, root[e.from]}
                    /\ map' = (e.t :> IF e.root = Zero32 THEN <<>> ELSE map[e.from]) @@ map
                    /\ root' = (e.t :> e.root) @@ root
                    /\ store' = (e.t :> st) @@ store
                    /\ dmg' = IF (intact /\ e.from \notin dmg) \/ e.root = Zero32 THEN dmg ELSE dmg \cup {e.t}
               ELSE UNCHANGED <<map, root, store, dmg>>

TFromSet == IsEv(l, "FromSet") /\ e.t \notin STrees
            /\ LET m == KvFun(e.kv)  st == StoreOf(e.adds) IN
               /\ e.root = RefRoot(m) /\ Closed(st, e.root) /\ Leaves(st, e.root) = Entries(m)
               /\ map' = (e.t :> m) @@ map /\ root' = (e.t :> e.root) @@ root /\ store' = (e.t :> st) @@ store
               /\ UNCHANGED dmg
TRootFromSet == IsEv(l, "RootFromSet") /\ e.root = RefRoot(KvFun(e.kv)) /\ UNCHANGED <<map, root, store, dmg>>

TRoot == IsEv(l, "Root") /\ e.t \in STrees /\ e.root = root[e.t] /\ e.root = RefRoot(map[e.t])
         /\ UNCHANGED <<map, root, store, dmg>>

TGenProof ==
    /\ IsEv(l, "GenProof")
    /\ e.t \in STrees
    /\ IF ~e.ok THEN e.t \in dmg
       ELSE LET pr == RefProof(map[e.t], e.k) IN
            /\ e.kind = pr.kind /\ e.proof = pr.proof
            /\ (pr.kind = "exclusion" => (e.leaf = pr.leaf /\ (pr.leaf = "leaf" => (e.lk = pr.lk /\ e.lvh = pr.lvh))))
    /\ UNCHANGED <<map, root, store, dmg>>

TVerifyIncl == IsEv(l, "VerifyIncl") /\ e.verdict = RefInclVerify(e.root, e.k, e.v, e.proof)
               /\ UNCHANGED <<map, root, store, dmg>>
TVerifyExcl == IsEv(l, "VerifyExcl") /\ e.verdict = RefExclVerify(e.root, e.k, e.leaf, e.lk, e.lvh, e.proof)
               /\ UNCHANGED <<map, root, store, dmg>>

TrNext == (TSeg \/ TNew \/ TInsert \/ TDelete \/ TLoad \/ TFromSet \/ TRootFromSet \/ TRoot \/ TGenProof
           \/ TVerifyIncl \/ TVerifyExcl) /\ l' = l + 1
TrSpec == TrInit /\ [][TrNext]_trVars
=============================================================================
