---------------------------- MODULE SparseMerkle ----------------------------
(* Design state of sparse::MerkleTree over the oracle of SparseMerkleRef. *)
EXTENDS SparseMerkleRef
LOCAL INSTANCE VerifHash
LOCAL INSTANCE Hex

(***************************************************************************)
(* Design state                                                            *)
(***************************************************************************)
VARIABLES
    map,    \* tree id -> (key -> value)         the ideal content
    root,   \* tree id -> root hash reported by the implementation-shaped design
    store   \* tree id -> (node hash -> [h, p, lo, hi])   persisted nodes

smVars == <<map, root, store>>
STrees == DOMAIN map
SMInit == map = <<>> /\ root = <<>> /\ store = <<>>

Restrict(f, D) == [x \in D |-> f[x]]
ApplyDelta(st, adds, dels) ==
    LET kept == Restrict(st, DOMAIN st \ {dels[i] : i \in 1..Len(dels)})
        new  == [hh \in {adds[i].hash : i \in 1..Len(adds)} |->
                    LET a == CHOOSE a \in {adds[i] : i \in 1..Len(adds)} : a.hash = hh IN
                    [h |-> a.h, p |-> a.p, lo |-> a.lo, hi |-> a.hi]]
    IN new @@ kept

\* Every node reachable from hash x is stored, hashes to its key, and has a consistent shape.
RECURSIVE Closed(_, _)
Closed(st, x) ==
    IF x = Zero32 THEN TRUE
    ELSE /\ x \in DOMAIN st
         /\ LET n == st[x] IN
            IF n.p = 0 THEN x = LeafHash(n.lo, n.hi) /\ n.h = 0
            ELSE /\ n.p = 1 /\ x = NodeHash(n.lo, n.hi)
                 /\ Closed(st, n.lo) /\ Closed(st, n.hi)
\* The leaves denoted by the stored tree under x
RECURSIVE Leaves(_, _)
Leaves(st, x) ==
    IF x = Zero32 \/ x \notin DOMAIN st THEN {}
    ELSE LET n == st[x] IN
         IF n.p = 0 THEN {[k |-> n.lo, vh |-> n.hi]} ELSE Leaves(st, n.lo) \cup Leaves(st, n.hi)

StoreClosed(t)      == Closed(store[t], root[t])
StoreDenotesMap(t)  == Leaves(store[t], root[t]) = Entries(map[t])
RootIsRef(t)        == root[t] = RefRoot(map[t])
=============================================================================
