--------------------------- MODULE BinaryMerkle_MC ---------------------------
(* Leg M + Leg R generator: all histories of length <= MaxLen over one store. *)
EXTENDS BinaryMerkle, Json
BN == INSTANCE BigNat
CONSTANTS MaxLen, Alphabet, EmitReplay

VARIABLES hist, cur, nextId   \* history of actions with predicted observations; current tree; fresh id

mcVars == <<lh, peaks, store, hist, cur, nextId>>

Obs(t) == [root |-> Root(t)', count |-> Count(t)']

MCInit == /\ lh = (0 :> <<>>) /\ peaks = (0 :> <<>>) /\ store = (0 :> <<>>)
          /\ hist = <<>> /\ cur = 0 /\ nextId = 1

DoPush(d) == /\ Push(cur, d)
             /\ hist' = Append(hist, [a |-> "Push", t |-> cur, d |-> d, root |-> RootOfPeaks(peaks'[cur]), count |-> Len(lh'[cur])])
             /\ UNCHANGED <<cur, nextId>>
DoReset == /\ Reset(cur)
           /\ hist' = Append(hist, [a |-> "Reset", t |-> cur, root |-> EmptyRoot, count |-> 0])
           /\ UNCHANGED <<cur, nextId>>
DoLoad(k) == /\ Load(nextId, cur, k)
             /\ hist' = Append(hist, [a |-> "Load", t |-> nextId, from |-> cur, k |-> k,
                                     root |-> RootOfPeaks(peaks'[nextId]), count |-> k])
             /\ cur' = nextId /\ nextId' = nextId + 1
\* Prove is an observation: predicted definedness and the RFC audit path.
DoProve(i) == /\ hist' = Append(hist, [a |-> "Prove", t |-> cur, i |-> i, ok |-> ProveDefined(cur, i),
                                       proof |-> IF ProveDefined(cur, i) THEN Proof(cur, i) ELSE <<>>,
                                       root |-> Root(cur)])
              /\ UNCHANGED <<lh, peaks, store, cur, nextId>>

Bounded == Len(hist) < MaxLen
APush  == Bounded /\ \E d \in Alphabet : DoPush(d)
AReset == Bounded /\ DoReset
ALoad  == Bounded /\ \E k \in 0..Len(lh[cur]) : DoLoad(k)
AProve == Bounded /\ \E i \in 0..(Len(lh[cur]) + 1) : DoProve(i)
MCNext == APush \/ AReset \/ ALoad \/ AProve

\* the BigNat form of the verifier oracle agrees with the integer form (all (m, n) reachable here)
BigAgrees == \A t \in Trees : \A i \in 0..(Count(t) - 1) :
    RootFromPathBig(BN!FromNat(i), BN!FromNat(Count(t)), lh[t][i + 1], Proof(t, i)) = Root(t)

MCSpec == MCInit /\ [][MCNext]_mcVars

\* The abstract state (without the history) is the VIEW, so TLC explores each reachable
\* (trees, depth) once while every history is still generated as a transition.
Emit == (EmitReplay /\ Len(hist) = MaxLen) => PrintT("REPLAY" \o ToJson(hist))
=============================================================================
