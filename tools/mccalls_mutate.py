#!/usr/bin/env python3
"""Mutation sensitivity of the MODEL (leg M): each mutant is a small change of an effect operator in a scratch copy of the
private spec directory; FuelVM_Calls_MC must report an invariant / action property violated.  Usage: mutate.py [mutant | mutant:OnlyThisProperty ...]"""
import json
import os
import re
import shutil
import sys
from concurrent.futures import ThreadPoolExecutor

HERE = os.path.dirname(os.path.abspath(__file__))
sys.path.insert(0, HERE)
import leg  # noqa: E402

# name -> (file, old, new, count, what)
M = {
    "ret_keeps_fp": ("VmCall.tla", "ELSE IF r = HP THEN R(vm, HP)", "ELSE IF r = HP THEN R(vm, HP) ELSE IF r = FP THEN R(vm, FP)", 1,
                     "RET/RETD do not restore $fp"),
    "ret_restores_hp": ("VmCall.tla", "ELSE IF r = HP THEN R(vm, HP)", "ELSE IF r = HP THEN f.regs[HP]", 1,
                        "RET/RETD restore $hp from the frame (callee allocations lost)"),
    "ret_no_gas_credit": ("VmCall.tla", "BN!Add(BN!SatSub(R(vm, CGAS), gas), f.regs[CGAS])", "f.regs[CGAS]", 1,
                          "unspent callee gas is not credited back on return"),
    "call_no_debit": ("VmCall.tla", "BN!SatSub(srcBal, amount)", "srcBal", 2,
                      "CALL credits the callee without debiting the forwarded coins"),
    "call_no_inputs_check": ("VmCall.tla", '\\cup (IF rp1 = {} /\\ to \\notin vm.inputs THEN {"ContractNotInInputs"} ELSE {})', "", 1,
                             "CALL omits the input-contract check"),
    "call_gas_not_deducted": ("VmCall.tla", "IF r = CGAS THEN BN!Sub(cgas1, fwd)", "IF r = CGAS THEN cgas1", 1,
                              "forwarded gas is not deducted from the caller's saved $cgas"),
    "call_ssp_at_code": ("VmCall.tla", "(SSP :> newSp)", "(SSP :> start)", 1,
                         "callee's $ssp starts at its code (code region writable by the callee)"),
    "call_frame_unsaved_gas": ("VmCall.tla", "RegsBE(saved, 0)", "RegsBE(vm.regs, 0)", 1,
                               "the frame in memory holds the caller's registers before the gas adjustment"),
    "call_keeps_flag": ("VmCall.tla", ' @@ (FLAG :> "0")', "", 1, "CALL does not clear $flag"),
    "tr_no_debit": ("VmAssets.tla", None, None, 1, "TR credits the destination without debiting the source"),
    "mint_no_credit": ("VmAssets.tla", "!.upd = [cbal |-> CBalSet(vm.cbal, c, asset, BN!Add(CBal(vm, c, asset), amount))]", "!.upd = [cbal |-> vm.cbal]", 1,
                       "MINT issues the receipt but does not add to the balance"),
    "burn_no_debit": ("VmAssets.tla", "BN!SatSub(CBal(vm, c, asset), amount))]", "CBal(vm, c, asset))]", 1,
                      "BURN issues the receipt but does not reduce the balance"),
    "tro_no_debit": ("VmAssets.tla", "!.upd = IF pan = {} THEN [cbal |-> deb.cbal,", "!.upd = IF pan = {} THEN [cbal |-> vm.cbal,", 1,
                     "TRO inside a contract fills the output without debiting the contract"),
    "tr_no_inputs_check": ("VmAssets.tla", 'pan == rp \\cup (IF rp = {} /\\ dest \\notin vm.inputs THEN {"ContractNotInInputs"} ELSE {})', "pan == rp", 1,
                           "TR omits the input-contract check"),
    "bal_no_inputs_check": ("VmAssets.tla", 'pan == rp \\cup (IF rp = {} /\\ c \\notin vm.inputs THEN {"ContractNotInInputs"} ELSE {}) \\cup DestPan(RA(w))',
                            "pan == rp \\cup DestPan(RA(w))", 1, "BAL omits the input-contract check"),
    "burn_no_receipt": ("VmAssets.tla", '!.rc = <<Rc("Burn", [sub_id |-> sub, contract_id |-> c, val |-> amount, pc |-> R(vm, PC), is |-> R(vm, IS)])>>,',
                        "!.rc = <<>>,", 1, "BURN reduces the balance without a receipt"),
    "charge_skips_ggas": ("FuelVM.tla", "(GGAS :> BN!Sub(R(vm, GGAS), g))", "(GGAS :> R(vm, GGAS))", 1, "an instruction's cost is taken from $cgas only"),
    "ret_pops_two": ("VmCall.tla", "[frames |-> SubSeq(vm.frames, 1, Len(vm.frames) - 1)]", "[frames |-> SubSeq(vm.frames, 1, Len(vm.frames) - 2)]", 1,
                     "a return drops two frames"),
    "heap_no_caller_bound": ("VmBase.tla", "\\/ (BN!Le(R(vm, HP), a) /\\ R(vm, HP) # PrevHp(vm) /\\ BN!Le(BN!Add(a, n), PrevHp(vm)))",
                             "\\/ (BN!Le(R(vm, HP), a) /\\ BN!Le(BN!Add(a, n), MemSizeBN))", 1,
                             "heap ownership ignores the caller's $hp (a callee may write the caller's allocations)"),
    "stack_no_lower_bound": ("VmBase.tla", "\\/ (BN!Le(R(vm, SSP), a) /\\ BN!Lt(a, R(vm, SP))", '\\/ (BN!Le("0", a) /\\ BN!Lt(a, R(vm, SP))', 1,
                             "stack ownership has no lower bound (a callee may write its caller's stack and its own frame)"),
}


def apply(name, d):
    f, old, new, cnt, _ = M[name]
    p = os.path.join(d, f)
    s = open(p).read()
    if name == "tr_no_debit":
        old1 = "IF pan = {} THEN deb.wr ELSE <<>>, vm.slen)\n        EXCEPT !.rc = <<Rc(\"Transfer\""
        assert s.count(old1) == 1
        s = s.replace(old1, "<<>>, vm.slen)\n        EXCEPT !.rc = <<Rc(\"Transfer\"")
        old2 = "!.upd = [cbal |-> CBalSet(deb.cbal, dest, asset,"
        assert s.count(old2) == 1
        s = s.replace(old2, "!.upd = [cbal |-> CBalSet(vm.cbal, dest, asset,")
    else:
        assert s.count(old) == cnt, (name, s.count(old))
        s = s.replace(old, new)
    open(p, "w").write(s)


INVS = None


def one(spec):
    """spec = "mutant" (all invariants and properties of FuelVM_Calls_MC_mut.cfg) or "mutant:Prop" (only Prop is checked, to show
    that Prop by itself is sensitive to the mutant and not merely shadowed by the property TLC happens to report first)"""
    name, _, only = spec.partition(":")
    d = os.path.join(HERE, "tmp", "mut_" + name + ("_" + only if only else ""))
    shutil.rmtree(d, ignore_errors=True)
    shutil.copytree(os.path.join(HERE, "spec"), d)
    apply(name, d)
    cfg = "FuelVM_Calls_MC_mut.cfg"
    if only:
        txt = open(os.path.join(d, cfg)).read()
        invs = re.search(r"(?m)^INVARIANTS (.*)$", txt).group(1).split()
        txt = re.sub(r"(?m)^INVARIANTS .*\n", "INVARIANTS TypeOk %s\n" % (only if only in invs else ""), txt)
        txt = re.sub(r"(?m)^PROPERTIES .*\n", "" if only in invs else "PROPERTIES %s\n" % only, txt)
        txt = re.sub(r"(?m)^POSTCONDITION .*\n", "", txt)
        cfg = "FuelVM_Calls_MC_mut1.cfg"
        open(os.path.join(d, cfg), "w").write(txt)
    res = leg.run_main("quick", spec_dir=d, workers=2, cfg=cfg, tag="mccalls_mut_" + name + "_" + only)
    v = leg._violated(res)
    err = None if (v or res.ok) else leg.vlib.tlc_fail_text(res, 25)
    shutil.rmtree(d, ignore_errors=True)
    return dict(mutant=name, only=only or None, what=M[name][4], caught_by=v, generated=res.generated, distinct=res.distinct,
                wall=round(res.wall, 1), error=err)


if __name__ == "__main__":
    names = sys.argv[1:] or list(M.keys())
    with ThreadPoolExecutor(max_workers=4) as ex:
        out = list(ex.map(one, names))
    for r in out:
        print(json.dumps(r), flush=True)
