#!/usr/bin/env python3
"""Fill the generated tables of DESIGN.md (sections 9.6 and 9.7)."""
import re, subprocess
p = "/verif/DESIGN.md"
s = open(p).read()
def fill(s, name, cmd):
    out = subprocess.run(["python3", cmd], capture_output=True, text=True).stdout.strip()
    return re.sub(r"<!-- %s_BEGIN -->.*?<!-- %s_END -->" % (name, name), lambda m: "<!-- %s_BEGIN -->\n%s\n<!-- %s_END -->" % (name, out, name), s, flags=re.S)
s = fill(s, "SEED_TABLE", "/verif/tools/seed_table.py")
s = fill(s, "STATUS_TABLE", "/verif/tools/status_table.py")
open(p, "w").write(s)
print("DESIGN.md tables filled")
