#!/usr/bin/env python3
"""Regenerates /verif/MANIFEST.json from the table below (keeps it schema-valid by construction)."""
import json
import os
import subprocess

ROOT = os.path.dirname(os.path.dirname(os.path.abspath(__file__)))

MC = "model_checking"
EX = "exploration"

# id -> (category, technique, text, note, design_ref)
CHECKS = {
 "C09": (MC, "TLA+ spec BinaryMerkle (RFC 6962 oracle + MMR design) model-checked by TLC; TLC-enumerated histories replayed into the real trees; recorded traces of 3 implementations validated by TLC against the spec",
         "TLC checks RootIsMTH/PeaksShape/StoreHoldsPeaks on all histories <= MaxLen; every history is replayed into binary::MerkleTree, in_memory::MerkleTree and MerkleRootCalculator comparing roots with the RFC recursion; a dense trace (every count 1..N, random leaf lengths incl. empty, one-shot helpers and ephemeral_merkle_root at boundary counts) is validated event by event by BinaryMerkle_Trace.",
         "Trusts java MessageDigest SHA-256 inside TLC and the harness plumbing (no expected values in the harness). Bounded: MaxLen 5/6 histories exhaustively, counts up to 260/1200 in traces.", "4/C09"),
 "C10": (MC, "TLA+ RFC 6962 audit-path verifier (VerifyRef/RootFromPath) as oracle in a TLC trace specification; real verifier verdicts on structured proof mutations validated against it; ProofsVerify model-checked",
         "For every (n, i) in the driver's grid the real proof and 20+ mutations (index/count perturbations incl. u64 extremes, dropped/duplicated/reversed/appended elements, other leaf's proof or data, flipped root) are fed to binary::verify; TLC recomputes the RFC verification with exact BigNat index arithmetic and requires verdict equality; real proofs must equal the RFC audit path.",
         "Same trusted base as C09. Sampled indices for n > 17.", "4/C10"),
 "C11": (MC, "TLC enumerates ALL histories of push/reset/load/prove up to a bound from the BinaryMerkle spec and each is replayed into the real storage-backed and in-memory trees; random longer histories validated as traces",
         "Exhaustive small-scope enumeration (17 640 histories at MaxLen 5, ~150k at 6) bound to the code by replay with root, count, proof definedness and proof bytes compared after every step; plus seeded histories of 5-120 operations validated by BinaryMerkle_Trace.",
         "Load is exercised at k <= current leaves of the source store (the reload point of the property); the store is forked for the reload.", "4/C11"),
 "C12": (MC, "TLA+ compact-sparse-Merkle oracle (SparseMerkleRef!RefRoot); TLC enumerates ALL insert/overwrite/delete histories over clustered model keys x 4 embeddings into 256-bit keys, replayed into the real trees; seeded long traces validated by TLC",
         "Every history up to MaxLen 3/4 over 4 model keys under 4 embeddings (first-bits / 253-bit shared prefix / bits 0,128,255 / all-zero,all-one,last-bit neighbours) is replayed into storage-backed and in-memory trees and the final root compared with RefRoot of the final map, also for from_set / root_from_set / nodes_from_set; traces over a 20-key adversarial pool are validated event by event (root = RefRoot(map) after every op).",
         "Trusts SHA-256 in TLC and the harness plumbing. Histories bounded (MaxLen), trace keys from a seeded adversarial pool.", "4/C12"),
 "C13": (MC, "TLC trace validation with the spec's node store: storage deltas of every operation applied to the model store; invariants Closed(store, root) and Leaves(store, root) = Entries(map) evaluated after every event; reloads (intact / root removed / deeper node removed / empty root) at random points of the history",
         "The harness's observable store logs every node written/removed; SparseMerkle_Trace rebuilds the store and checks after EVERY operation that everything reachable from the root is persisted, hashes to its key and denotes exactly the map; reloaded trees continue the remaining history next to the original and must give oracle roots and proofs; a load with the root node missing must fail; with a deeper node missing every later operation must fail or agree with the oracle.",
         "Reload points are sampled (seeded), not exhaustive; the in-memory wrapper's store is not observable (root-only checks there).", "4/C13"),
 "C14": (MC, "TLC model-checks soundness/completeness of the compact-SMT proof scheme (ProofScheme) on every map over clustered model keys with real SHA-256; oracle proofs for every key of every history replayed against generate_proof; real verifier verdicts on ~20 structured mutations per proof validated against the reference verifier in TLC",
         "Proof kind = inclusion iff present, proof bytes equal the oracle's unique proof, inclusion verifies only with the stored value, exclusion only for absent keys, leaf-claims-key / placeholder<->leaf / other key / altered, reordered, truncated, padded-to-257 proof sets get exactly the reference verdict.",
         "Mutations are a fixed structured family plus seeded bit flips.", "4/C14"),
}

NOT_APPLICABLE = {
}

def main():
    src = subprocess.run(["git", "-C", "/repo", "log", "--format=%H %s"], capture_output=True, text=True).stdout.splitlines()
    hook_commits = [ln.split()[0] for ln in src if " verif-hook:" in ln or ln.split(" ", 1)[1].startswith("verif-hook")]
    checks = []
    for pid in sorted(CHECKS):
        cat, tech, text, note, ref = CHECKS[pid]
        checks.append({
            "property_id": pid,
            "quick_cmd": "bin/check %s --tier quick" % pid,
            "thorough_cmd": "bin/check %s --tier thorough" % pid,
            "evidence_file": "/verif/evidence/%s.json" % pid,
            "replay_cmd_template": "cat {path}",
            "engine": "tlc+vh",
            "level_claimed": {"category": cat, "text": text, "design_ref": "DESIGN.md section " + ref},
            "level_note": note,
            "technique": tech,
        })
    all_ids = ["C%02d" % i for i in range(1, 37)]
    na = []
    for pid in all_ids:
        if pid not in CHECKS:
            na.append({"property_id": pid, "reason": NOT_APPLICABLE.get(pid, "not built yet in this round: no check is claimed until its TLA+ specification and conformance harness exist and pass on the unchanged tree (see DESIGN.md section 7)")})
    m = {
        "version": 1,
        "setup_cmd": "bin/setup",
        "hooks": {
            "guard": "fuellabs_fuel_vm_verif",
            "enable": "rustflags --cfg fuellabs_fuel_vm_verif in /verif/harness/.cargo/config.toml (the harness is the only consumer)",
            "baseline_off_cmd": "cd /repo && cargo nextest run --workspace --no-fail-fast --tool-config-file pb:/w/lib/nextest.toml --profile pb --test-threads 8 --offline",
            "source_commits": hook_commits,
            "add_only": True,
        },
        "engines": [
            {"name": "tlc+vh", "path": "/verif/bin/check", "serves_properties": sorted(CHECKS),
             "kind_free_text": "TLA+ specifications under /verif/spec checked by TLC (model checking, behaviour generation, trace validation) bound to the real crates by the Rust harness /verif/harness (vh)"},
        ],
        "checks": checks,
        "not_applicable": na,
        "notes": "Every check: TLA+ spec + TLC, bound to the code by spec->impl replay and/or impl->spec trace validation. Exit 0 ok / 1 VIOLATION / 2 tool error. known_findings.json lists recorded and fixed findings.",
    }
    with open(os.path.join(ROOT, "MANIFEST.json"), "w") as f:
        json.dump(m, f, indent=1)
    print("MANIFEST.json: %d checks, %d not_applicable" % (len(checks), len(na)))

if __name__ == "__main__":
    main()
