#!/usr/bin/env python3
"""Regenerates /verif/MANIFEST.json from the table below (keeps it schema-valid by construction)."""
import json
import os
import subprocess

ROOT = os.path.dirname(os.path.dirname(os.path.abspath(__file__)))

MC = "model_checking"
EX = "exploration"

# id -> (category, technique, text, note, design_ref)
def load_checks():
    """Each module in /verif/checks declares PROPERTIES = [...] and MANIFEST = {pid: dict(category, technique, text, note, design_ref)}."""
    import importlib, sys, glob
    sys.path.insert(0, os.path.join(ROOT, "pylib"))
    sys.path.insert(0, os.path.join(ROOT, "checks"))
    out = {}
    for f in sorted(glob.glob(os.path.join(ROOT, "checks", "*.py"))):
        src = open(f).read()
        if "/verif/work/" in src or '"work"' in src and "_PRIV" in src:
            # still bound to a builder's private spec copy (not committed): not claimable yet
            continue
        m = importlib.import_module(os.path.basename(f)[:-3])
        for pid, d in getattr(m, "MANIFEST", {}).items():
            out[pid] = (d["category"], d["technique"], d["text"], d["note"], d["design_ref"])
    return out


CHECKS = load_checks()

NOT_APPLICABLE = {
}

def main():
    src = subprocess.run(["git", "-C", "/repo", "log", "--format=%H %s"], capture_output=True, text=True).stdout.splitlines()
    hook_commits = [ln.split()[0] for ln in src if " verif-hook:" in ln or ln.split(" ", 1)[1].startswith("verif-hook")]
    checks = []
    for pid in sorted(CHECKS):
        cat, tech, text, note, ref = CHECKS[pid]
        checks.append({
            "property_id": pid,
            "quick_cmd": "bin/check %s --tier quick" % pid,
            "thorough_cmd": "bin/check %s --tier thorough" % pid,
            "evidence_file": "/verif/evidence/%s.json" % pid,
            "replay_cmd_template": "cat {path}",
            "engine": "tlc+vh",
            "level_claimed": {"category": cat, "text": text, "design_ref": "DESIGN.md section " + ref},
            "level_note": note,
            "technique": tech,
        })
    all_ids = ["C%02d" % i for i in range(1, 37)]
    na = []
    for pid in all_ids:
        if pid not in CHECKS:
            na.append({"property_id": pid, "reason": NOT_APPLICABLE.get(pid, "not built yet in this round: no check is claimed until its TLA+ specification and conformance harness exist and pass on the unchanged tree (see DESIGN.md section 7)")})
    m = {
        "version": 1,
        "setup_cmd": "bin/setup",
        "hooks": {
            "guard": "fuellabs_fuel_vm_verif",
            "enable": "rustflags --cfg fuellabs_fuel_vm_verif in /verif/harness/.cargo/config.toml (the harness is the only consumer)",
            "baseline_off_cmd": "cd /repo && cargo nextest run --workspace --no-fail-fast --tool-config-file pb:/w/lib/nextest.toml --profile pb --test-threads 8 --offline",
            "source_commits": hook_commits,
            "add_only": True,
        },
        "engines": [
            {"name": "tlc+vh", "path": "/verif/bin/check", "serves_properties": sorted(CHECKS),
             "kind_free_text": "TLA+ specifications under /verif/spec checked by TLC (model checking, behaviour generation, trace validation) bound to the real crates by the Rust harness /verif/harness (vh)"},
        ],
        "checks": checks,
        "not_applicable": na,
        "notes": "Every check: TLA+ spec + TLC, bound to the code by spec->impl replay and/or impl->spec trace validation. Exit 0 ok / 1 VIOLATION / 2 tool error. known_findings.json lists recorded and fixed findings.",
    }
    with open(os.path.join(ROOT, "MANIFEST.json"), "w") as f:
        json.dump(m, f, indent=1)
    print("MANIFEST.json: %d checks, %d not_applicable" % (len(checks), len(na)))

if __name__ == "__main__":
    main()
