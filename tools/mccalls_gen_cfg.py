#!/usr/bin/env python3
"""Generates the three TLC configurations of FuelVM_Calls_MC from a readable instruction list.

Word layout (FuelVM ISA): opcode byte, then 24 argument bits packed from the top: up to four 6-bit registers, or
registers followed by a 12 / 18 / 24-bit immediate.  Register numbers: $zero 0, $one 1, $ssp 4, $sp 5, $fp 6, $hp 7,
$cgas 10; r16.. are the operand registers prepared by FuelVM_Calls_MC!Regs0.
"""
import os
import sys

OPS = dict(FLAG=0x48, ADD=0x10, RET=0x24, RETD=0x25, ALOC=0x26, BURN=0x2c, CALL=0x2d, LOG=0x33, MINT=0x35, RVRT=0x36, TR=0x3c, TRO=0x3d,
           BAL=0x49, SMO=0x4c, LW=0x5d, SW=0x5f, MOVI=0x72, CFEI=0x91)
ZERO, ONE, SSP, SP, FP, HP, CGAS = 0, 1, 4, 5, 6, 7, 10


def regs(op, *r):
    r = list(r) + [0] * (4 - len(r))
    return "%02x%06x" % (OPS[op], (r[0] << 18) | (r[1] << 12) | (r[2] << 6) | r[3])


def rri(op, ra, rb, imm12):
    return "%02x%06x" % (OPS[op], (ra << 18) | (rb << 12) | imm12)


def rj(op, ra, imm18):
    return "%02x%06x" % (OPS[op], (ra << 18) | imm18)


def k(op, imm24):
    return "%02x%06x" % (OPS[op], imm24)


# name -> (word, comment)
W = {
    "CALL_A":      (regs("CALL", 16, 20, 18, 22), "CALL r16 r20 r18 r22  call CA forwarding r20 of A0 and r22 gas"),
    "CALL_B":      (regs("CALL", 17, 20, 19, 22), "CALL r17 r20 r19 r22  call CB forwarding r20 of A1 (CB has no balance entry: storage gas)"),
    "CALL_B0":     (regs("CALL", 17, ZERO, 18, CGAS), "CALL r17 $zero r18 $cgas  call CB, no coins, all gas ($cgas operand: both readings)"),
    "CALL_X":      (regs("CALL", 23, ZERO, 18, 22), "CALL r23 ...  CX is deployed but not an input contract"),
    "CALL_A_BIG":  (regs("CALL", 16, 21, 18, 22), "CALL r16 r21 ...  forwards more than any balance"),
    "CALL_A_MA":   (regs("CALL", 16, 20, 26, 22), "CALL r16 r20 r26 r22  forwards r20 of the minted asset MA"),
    "TR_B":        (regs("TR", 17, 20, 18), "TR r17 r20 r18  transfer r20 of A0 to CB"),
    "TR_A1":       (regs("TR", 16, 20, 19), "TR r16 r20 r19  transfer r20 of A1 to CA"),
    "TR_X":        (regs("TR", 23, 20, 18), "TR r23 ...  to CX (not an input)"),
    "TR_B_MA":     (regs("TR", 17, 20, 26), "TR r17 r20 r26  transfer r20 of MA to CB"),
    "TRO":         (regs("TRO", ZERO, ONE, 20, 18), "TRO $zero $one r20 r18  r20 of A0 to the address at 0 through output 1 (Variable)"),
    "TRO_A1":      (regs("TRO", ZERO, ONE, 20, 19), "TRO $zero $one r20 r19  same with A1"),
    "TRO_CHG":     (regs("TRO", ZERO, ZERO, 20, 18), "TRO $zero $zero ...  output 0 is the Change output: OutputNotFound"),
    "MINT":        (regs("MINT", 20, 18), "MINT r20 r18  mint r20 of sub id zero"),
    "BURN":        (regs("BURN", 20, 18), "BURN r20 r18"),
    "SMO":         (regs("SMO", ZERO, ZERO, ZERO, 20), "SMO $zero $zero $zero r20  message with r20 base-asset coins, no data"),
    "BAL_A":       (regs("BAL", 24, 18, 16), "BAL r24 r18 r16  balance of CA in A0"),
    "BAL_X":       (regs("BAL", 24, 18, 23), "BAL r24 r18 r23  CX: not an input"),
    "RET":         (regs("RET", ONE), "RET $one"),
    "RETD":        (regs("RETD", ZERO, 25), "RETD $zero r25  16 bytes at address 0"),
    "RVRT":        (regs("RVRT", ZERO), "RVRT $zero"),
    "LOG":         (regs("LOG", 20, FP, SP, HP), "LOG r20 $fp $sp $hp"),
    "MOVI_70":     (rj("MOVI", 20, 70), "MOVI r20 70  amount above CA's balance, below the free balance"),
    "MOVI_0":      (rj("MOVI", 20, 0), "MOVI r20 0  amount zero"),
    "ADD":         (regs("ADD", 20, 20, 20), "ADD r20 r20 r20  double the amount"),
    "FLAG_1":      (regs("FLAG", ONE), "FLAG $one  set F_UNSAFEMATH (a callee must start with cleared flags)"),
    "CFEI":        (k("CFEI", 16), "CFEI 16  extend the stack frame"),
    "SW_SSP":      (rri("SW", SSP, 20, 0), "SW $ssp r20 0  own stack (owned only after CFEI)"),
    "SW_CALLER":   (rri("SW", 16, 20, 0), "SW r16 r20 0  address 256: the script's data / the caller's stack"),
    "SW_FP":       (rri("SW", FP, 20, 8), "SW $fp r20 8  into the active call frame (saved registers)"),
    "ALOC":        (regs("ALOC", 25), "ALOC r25  16 bytes of heap"),
    "SW_HP":       (rri("SW", HP, 20, 0), "SW $hp r20 0  heap: own allocation, or the caller's when nothing was allocated"),
    "LW_SSP":      (rri("LW", 24, SSP, 0), "LW r24 $ssp 0"),
    "LW_HP":       (rri("LW", 24, HP, 0), "LW r24 $hp 0  heap read (a caller reading the callee's allocation)"),
}

QUICK = ["CALL_A", "CALL_B", "CALL_X", "TR_B", "TRO", "MINT", "BURN", "RET", "RVRT", "CFEI", "SW_SSP", "SW_CALLER", "ALOC"]
# the alphabet of the mutation runs (work/mccalls/mutate.py): quick + the words some mutants need
MUT = QUICK + ["SMO", "MOVI_70", "TR_X", "BAL_X", "SW_HP", "FLAG_1"]
THOROUGH = list(W.keys())
REACH = ["CALL_A", "CALL_B", "CALL_B0", "CALL_X", "CALL_A_BIG", "TR_B", "TRO", "MINT", "BURN", "SMO", "RET", "RVRT", "CFEI", "SW_SSP",
         "SW_CALLER", "ALOC"]

INVARIANTS = ["TypeOk", "ConstRegs", "PcOk", "GasInv", "GasLedger", "Conserved", "NoOtherAsset", "FinalConserved", "ContextsAreInputs",
              "NonInputPanics", "FrameIntact", "FramesNested", "StackOrder", "ZeroOutside", "Observe"]
PROPERTIES = ["GasNeverUp", "ForwardBounded", "ChargeBoth", "ReceiptsMove", "MovesHaveReceipt", "TouchesInputsOnly", "PanicChangesNothing",
              "BalReadsInputs", "FramesStable", "CallStep", "RetStep", "TopReturn", "WritesOwned", "CallerStackUnchanged"]
WITNESSES = ["NoDepth2", "NoRetFromDepth2", "NoRetToScript", "NoTransfer", "NoCoinsForwarded", "NoTransferOut", "NoTransferOutInCall",
             "NoMintAndBurn", "NoMessageOut", "NoPanicInCallee", "NoOutOfGasInCallee", "NoOwnershipPanicInCallee", "NoNotInInputsPanic",
             "NoNotEnoughBalance", "NoRevertInCallee", "NoTopLevelOk", "NoCalleeHeapKept", "NoCalleeStackWrite", "NoNewBalanceEntry"]


def cfg(names, depth, gas0s, fwd, invs, props, header, post=True):
    lines = ["\\* generated by work/mccalls/gen_cfg.py -- " + header, "SPECIFICATION MCSpec", "CONSTANTS",
             "  MaxDepth = %d" % depth,
             "  Gas0s = {%s}" % ", ".join('"%s"' % g for g in gas0s),
             "  FwdGas = \"%s\"" % fwd]
    for n in names:
        lines.append("  \\* %-11s %s  %s" % (n, W[n][0], W[n][1]))
    lines.append("  Alphabet = {%s}" % ", ".join('"%s"' % W[n][0] for n in names))
    if invs:
        lines.append("INVARIANTS " + " ".join(invs))
    if post:
        lines.append("POSTCONDITION ReportWitnesses")
    if props:
        lines.append("PROPERTIES " + " ".join(props))
    lines.append("CHECK_DEADLOCK FALSE")
    return "\n".join(lines) + "\n"


def main():
    d = os.path.join(os.path.dirname(os.path.abspath(__file__)), "spec")
    out = {
        "FuelVM_Calls_MC.cfg": cfg(QUICK, 5, ["1000"], "400", INVARIANTS, PROPERTIES,
                                   "quick tier: %d words, depth 5, one gas limit" % len(QUICK)),
        "FuelVM_Calls_MC_thorough.cfg": cfg(THOROUGH, 4, ["1000", "420", "260"], "400", INVARIANTS, PROPERTIES,
                                            "thorough tier: %d words, depth 4, ample / tight / very tight gas" % len(THOROUGH)),
        "FuelVM_Calls_MC_mut.cfg": cfg(MUT, 4, ["1000"], "400", INVARIANTS, PROPERTIES,
                                       "mutation runs: %d words, depth 4 (every spec mutant must violate something here)" % len(MUT)),
        "FuelVM_Calls_MC_reach.cfg": cfg(REACH, 5, ["1000", "420"], "400", WITNESSES, [],
                                         "reachability witnesses: every INVARIANT below is the negation of a required "
                                         "behaviour and must be reported VIOLATED (leg.py runs them one at a time)", post=False),
    }
    for name, txt in out.items():
        with open(os.path.join(d, name), "w") as f:
            f.write(txt)
        print("wrote", os.path.join(d, name))


if __name__ == "__main__":
    main()
